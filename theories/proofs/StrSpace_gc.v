(* C10: the compacting collector (StringSpace.collect_garbage with the root set of DataSegment._collect_garbage). *)
From Coq Require Import ZArith List Bool Lia Sorting.Sorted.
From PCB Require Import lib.Result lib.PyInt model.StrSpace proofs.StrSpace_base.
Import ListNotations.
Open Scope Z_scope.

Definition eaddr (e : entry) : Z := fst (snd e).
Definition ebytes (e : entry) : list Z := snd (snd e).

(* ---------- sorting ---------- *)
Definition desc (l : list entry) : Prop := StronglySorted (fun x y => eaddr y <= eaddr x) l.

Lemma In_insert_desc e x l : In e (insert_desc x l) <-> e = x \/ In e l.
Proof.
  induction l as [|y l IH]; simpl.
  - intuition.
  - destruct (fst (snd y) <? fst (snd x)); simpl; [intuition|]. rewrite IH. intuition.
Qed.

Lemma desc_insert x l : desc l -> desc (insert_desc x l).
Proof.
  unfold desc. induction l as [|y l IH]; simpl; intros H.
  - constructor; constructor.
  - inversion H as [|? ? Hs Hf]; subst.
    destruct (fst (snd y) <? fst (snd x)) eqn:E.
    + apply Z.ltb_lt in E. constructor; [exact H|]. constructor; [unfold eaddr; lia|].
      rewrite Forall_forall in *. intros z Hz. specialize (Hf z Hz). unfold eaddr in *. lia.
    + apply Z.ltb_ge in E. constructor; [apply IH, Hs|].
      rewrite Forall_forall in *. intros z Hz. apply In_insert_desc in Hz as [->|Hz]; [unfold eaddr; lia|auto].
Qed.

Lemma sort_desc_gen acc l :
  desc acc -> desc (fold_left (fun a e => insert_desc e a) l acc)
              /\ forall e, In e (fold_left (fun a e => insert_desc e a) l acc) <-> In e acc \/ In e l.
Proof.
  revert acc. induction l as [|x l IH]; simpl; intros acc H.
  - split; [exact H|]. intuition.
  - destruct (IH (insert_desc x acc) (desc_insert x acc H)) as [H1 H2]. split; [exact H1|].
    intros e. rewrite H2, In_insert_desc. intuition.
Qed.

Lemma sort_desc_sorted l : desc (sort_desc l).
Proof. apply (sort_desc_gen [] l). constructor. Qed.

Lemma In_sort_desc e l : In e (sort_desc l) <-> In e l.
Proof. unfold sort_desc. destruct (sort_desc_gen [] l) as [_ H]; [constructor|]. rewrite H. simpl. intuition. Qed.

(* ---------- gather ---------- *)
(* what an entry says about the old state *)
Definition entry_ok (c : cfg) (st : state) (e : entry) : Prop :=
  let '(l, (a, bs)) := e in
  In l (roots st) /\ snd (get_loc st l) = a /\ var_start c <= a /\
  ((fst (get_loc st l) = 0 /\ bs = []) \/
   (0 < fst (get_loc st l) /\ lookup a (strs st) = Some bs /\ zlen bs = fst (get_loc st l))).

Lemma gather_ok c st ls :
  (forall l, In l ls -> In l (roots st)) ->
  (forall l, In l ls -> ptr_ok c st (get_loc st l)) ->
  (forall a bs, lookup a (strs st) = Some bs -> 0 < zlen bs) ->
  exists es, gather c st ls = Ok es /\
             (forall e, In e es -> entry_ok c st e /\ In (fst e) ls) /\
             (forall l, In l ls -> var_start c <= snd (get_loc st l) -> exists x, In (l, x) es).
Proof.
  intros Hsub Hok Hpos. induction ls as [|l ls IH]; simpl.
  - exists []. split; [reflexivity|]. split; intros; contradiction.
  - destruct IH as (es & Hg & He & Hc); [intros; apply Hsub; right; auto | intros; apply Hok; right; auto|].
    destruct (get_loc st l) as [len a] eqn:Eg.
    destruct (var_start c <=? a) eqn:Ea.
    + apply Z.leb_le in Ea.
      assert (Hp := ptr_ok_bound _ _ _ (Hok l (or_introl eq_refl))). rewrite Eg in Hp. simpl in Hp.
      specialize (Hp Ea). unfold retrieve.
      destruct (len =? 0) eqn:El.
      * apply Z.eqb_eq in El. rewrite Hg. eexists. split; [reflexivity|]. split.
        -- intros e [<-|Hin].
           ++ split; [|left; reflexivity]. simpl. rewrite Eg. simpl.
              split; [apply Hsub; left; reflexivity|]. split; [reflexivity|]. split; [exact Ea|]. left; auto.
           ++ destruct (He e Hin). split; [assumption|right; assumption].
        -- intros l' [<-|Hin] Hv; [eexists; left; reflexivity|].
           destruct (Hc l' Hin Hv) as (x & Hx). exists x. right; exact Hx.
      * apply Z.eqb_neq in El. destruct Hp as [Hp|(bs & Hl & Hz)]; [contradiction|].
        rewrite Hl, Hg. eexists. split; [reflexivity|]. split.
        -- intros e [<-|Hin].
           ++ split; [|left; reflexivity]. simpl. rewrite Eg. simpl.
              split; [apply Hsub; left; reflexivity|]. split; [reflexivity|]. split; [exact Ea|]. right.
              specialize (Hpos _ _ Hl). split; [lia|]. split; [exact Hl|exact Hz].
           ++ destruct (He e Hin). split; [assumption|right; assumption].
        -- intros l' [<-|Hin] Hv; [eexists; left; reflexivity|].
           destruct (Hc l' Hin Hv) as (x & Hx). exists x. right; exact Hx.
    + exists es. split; [exact Hg|]. split.
      * intros e Hin. destruct (He e Hin). split; [assumption|right; assumption].
      * intros l' [<-|Hin] Hv.
        -- rewrite Eg in Hv. simpl in Hv. apply Z.leb_gt in Ea. lia.
        -- apply Hc; assumption.
Qed.

Lemma entry_ok_func c st l x y : entry_ok c st (l, x) -> entry_ok c st (l, y) -> x = y.
Proof.
  destruct x as [a bs], y as [a' bs']. simpl.
  intros (_ & Ha & _ & H1) (_ & Ha' & _ & H2). subst a a'.
  destruct H1 as [[H1 ->]|(H1 & Hl & _)], H2 as [[H2 ->]|(H2 & Hl' & _)]; try lia; try reflexivity.
  rewrite Hl in Hl'. inversion Hl'. reflexivity.
Qed.

(* ---------- store_raw ---------- *)
Lemma store_raw_chain st bs :
  chain (cur st + 1) (strs st) (top st + 1) -> zlen bs <= 255 ->
  chain (cur (fst (store_raw st bs)) + 1) (strs (fst (store_raw st bs))) (top (fst (store_raw st bs)) + 1).
Proof.
  intros H Hb. unfold store_raw. assert (H0 : 0 <= zlen bs) by (unfold zlen; lia).
  destruct (0 <? zlen bs) eqn:E; simpl.
  - apply Z.ltb_lt in E. unfold top; simpl. split; [lia|]. split; [lia|].
    replace (cur st - zlen bs + 1 + zlen bs) with (cur st + 1) by lia. exact H.
  - apply Z.ltb_ge in E. unfold top; simpl. replace (cur st - zlen bs + 1) with (cur st + 1) by lia. exact H.
Qed.

Lemma store_raw_ptr st bs : snd (store_raw st bs) = (zlen bs, cur st - zlen bs + 1).
Proof. unfold store_raw. reflexivity. Qed.

Lemma store_raw_cur st bs : cur (fst (store_raw st bs)) = cur st - zlen bs.
Proof. unfold store_raw. destruct (0 <? zlen bs); reflexivity. Qed.

Lemma store_raw_lookup_new st bs :
  0 < zlen bs -> lookup (cur st - zlen bs + 1) (strs (fst (store_raw st bs))) = Some bs.
Proof.
  intros H. unfold store_raw. apply Z.ltb_lt in H. rewrite H. simpl. rewrite Z.eqb_refl. reflexivity.
Qed.

Lemma store_raw_lookup_old st bs a x :
  chain (cur st + 1) (strs st) (top st + 1) ->
  lookup a (strs st) = Some x -> lookup a (strs (fst (store_raw st bs))) = Some x.
Proof.
  intros Hc H. unfold store_raw. destruct (0 <? zlen bs) eqn:E; simpl; [|exact H].
  apply Z.ltb_lt in E. destruct (a =? cur st - zlen bs + 1) eqn:Ea; [|exact H].
  apply Z.eqb_eq in Ea. apply (chain_lookup _ _ _ _ _ Hc) in H. lia.
Qed.

Lemma store_raw_other st bs :
  roots (fst (store_raw st bs)) = roots st /\
  (forall l, get_loc (fst (store_raw st bs)) l = get_loc st l) /\
  (forall l, valid_loc (fst (store_raw st bs)) l <-> valid_loc st l) /\
  (forall l, jclass (fst (store_raw st bs)) l <-> jclass st l) /\
  top (fst (store_raw st bs)) = top st /\ tmp (fst (store_raw st bs)) = tmp st /\
  scur (fst (store_raw st bs)) = scur st /\ acur (fst (store_raw st bs)) = acur st.
Proof.
  unfold store_raw. destruct (0 <? zlen bs); simpl; repeat split; intros; try reflexivity; try assumption;
    destruct l; simpl in *; auto.
Qed.

(* ---------- restore_all ---------- *)
(* total length of the strings restore_all stores: one per run of equal addresses *)
Fixpoint stored (es : list entry) (prev : option Z) : Z :=
  match es with
  | [] => 0
  | (_, (a, bs)) :: r =>
      match bs, prev with
      | _ :: _, Some pa => if a =? pa then stored r prev else zlen bs + stored r (Some a)
      | _ :: _, None => zlen bs + stored r (Some a)
      | [], _ => stored r prev
      end
  end.

Definition mono (m : list (Z * Z)) : Prop :=
  forall a1 n1 a2 n2, lookup a1 m = Some n1 -> lookup a2 m = Some n2 -> a1 < a2 -> n1 < n2.

(* the pointer at l is a faithful new copy of entry (a, bs), at the address m gives for a *)
Definition good (st : state) (m : list (Z * Z)) (e : entry) : Prop :=
  let '(l, (a, bs)) := e in
  fst (get_loc st l) = zlen bs /\
  (bs <> [] -> exists n, lookup a m = Some n /\ snd (get_loc st l) = n /\ lookup n (strs st) = Some bs).

Definition jeq (st1 st2 : state) : Prop := forall l, jclass st1 l <-> jclass st2 l.

Lemma jclass_set_loc st l0 p l : valid_loc st l0 -> (jclass (set_loc st l0 p) l <-> jclass st l).
Proof.
  intros Hv. destruct l0 as [n0|n0 i0|f0 k0|k0]; destruct l as [n|n i|f k|k]; simpl in *; try tauto;
    try (destruct (lookup n0 (arrs st)) as [[? ?]|]; simpl; tauto).
  - destruct Hv as (fr0 & o0 & Hf0 & Hk0 & Ho0).
    assert (Hfl : (f0 < length (stack st))%nat) by (apply nth_error_Some; congruence).
    assert (Hkl : (k0 < length fr0)%nat) by (apply nth_error_Some; congruence).
    rewrite (nth_error_nth' _ _ [] _ Hf0).
    destruct (Nat.eq_dec f f0) as [->|Hfn].
    + rewrite (nth_update_nth_same f0 _ [] _ Hfl). rewrite (nth_error_nth' _ _ [] _ Hf0).
      destruct (Nat.eq_dec k k0) as [->|Hkn].
      * rewrite nth_error_update_nth_same by assumption. rewrite Hk0.
        rewrite (nth_error_nth' _ _ (ONum 0 0) _ Hk0).
        destruct o0; simpl in *; try discriminate; split; intros (n' & p' & H); inversion H; eauto.
      * rewrite nth_error_update_nth_other by assumption. tauto.
    + rewrite nth_update_nth_other by assumption. tauto.
  - destruct Hv as (o0 & Hk0 & Ho0).
    assert (Hkl : (k0 < length (tvals st))%nat) by (apply nth_error_Some; congruence).
    destruct (Nat.eq_dec k k0) as [->|Hkn].
    + rewrite nth_error_update_nth_same by assumption. rewrite Hk0.
      rewrite (nth_error_nth' _ _ (ONum 0 0) _ Hk0).
      destruct o0; simpl in *; try discriminate; split; intros (n' & p' & H); inversion H; eauto.
    + rewrite nth_error_update_nth_other by assumption. tauto.
Qed.

Lemma restore_eq_empty st l a es prev :
  restore_all st ((l, (a, [])) :: es) prev
  = restore_all (set_loc (fst (store_raw st [])) l (snd (store_raw st []))) es prev.
Proof. simpl. destruct prev as [[? ?]|]; reflexivity. Qed.

Lemma restore_eq_reuse st l a b bs0 es pp :
  restore_all st ((l, (a, b :: bs0)) :: es) (Some (a, pp)) = restore_all (set_loc st l pp) es (Some (a, pp)).
Proof. simpl. rewrite Z.eqb_refl. reflexivity. Qed.

Lemma restore_eq_new st l a b bs0 es prev :
  match prev with Some (pa, _) => a <> pa | None => True end ->
  restore_all st ((l, (a, b :: bs0)) :: es) prev
  = restore_all (set_loc (fst (store_raw st (b :: bs0))) l (snd (store_raw st (b :: bs0)))) es
                (Some (a, snd (store_raw st (b :: bs0)))).
Proof.
  intros H. simpl. destruct prev as [[pa pp]|].
  - destruct (a =? pa) eqn:E; [apply Z.eqb_eq in E; contradiction|]. destruct (store_raw st (b :: bs0)); reflexivity.
  - destruct (store_raw st (b :: bs0)); reflexivity.
Qed.

Section Restore.
Variable st_old : state.     (* the state before the collection: only its root structure matters here *)

(* what is known about the state while the second loop runs *)
Record RI (st : state) : Prop := {
  ri_chain : chain (cur st + 1) (strs st) (top st + 1);
  ri_roots : roots st = roots st_old;
  ri_valid : forall l, In l (roots st_old) -> valid_loc st l;
  ri_j : jeq st st_old;
  ri_shape : shape st = shape st_old
}.

Lemma RI_step st l bs :
  RI st -> In l (roots st_old) -> zlen bs <= 255 ->
  RI (set_loc (fst (store_raw st bs)) l (snd (store_raw st bs))).
Proof.
  intros [Hc Hr Hv Hj Hsh] Hl Hb.
  destruct (store_raw_other st bs) as (Sr & Sg & Sv & Sj & St & _).
  assert (Hvl : valid_loc (fst (store_raw st bs)) l) by (apply Sv, Hv, Hl).
  constructor.
  - rewrite set_loc_cur, set_loc_strs, set_loc_top. apply store_raw_chain; assumption.
  - rewrite roots_set_loc by assumption. congruence.
  - intros l' Hl'. apply valid_set_loc; [assumption|]. apply Sv, Hv, Hl'.
  - intros l'. rewrite jclass_set_loc by assumption. rewrite Sj. apply Hj.
  - rewrite shape_set_loc by assumption. rewrite <- Hsh. unfold store_raw, shape. destruct (0 <? zlen bs); reflexivity.
Qed.

Lemma RI_reuse st l p : RI st -> In l (roots st_old) -> RI (set_loc st l p).
Proof.
  intros [Hc Hr Hv Hj Hsh] Hl. assert (Hvl := Hv l Hl). constructor.
  - rewrite set_loc_cur, set_loc_strs, set_loc_top. exact Hc.
  - rewrite roots_set_loc by assumption. exact Hr.
  - intros l' Hl'. apply valid_set_loc; auto.
  - intros l'. rewrite jclass_set_loc by assumption. apply Hj.
  - rewrite shape_set_loc by assumption. exact Hsh.
Qed.

Definition prev_ok (st : state) (m : list (Z * Z)) (prev : option (Z * ptr)) (pbs : list Z) : Prop :=
  match prev with
  | None => m = []
  | Some (pa, pp) =>
      lookup pa m = Some (snd pp) /\ fst pp = zlen pbs /\ lookup (snd pp) (strs st) = Some pbs /\ pbs <> [] /\
      (forall a n, lookup a m = Some n -> pa <= a)
  end.

(* main lemma about the second loop *)
Lemma restore_all_spec es : forall st prev m pbs,
  RI st ->
  desc es ->
  (forall e, In e es -> In (fst e) (roots st_old) /\ zlen (ebytes e) <= 255) ->
  (forall l x y, In (l, x) es -> In (l, y) es -> x = y) ->
  (* entries with the address of the previous string carry its bytes *)
  (forall e pa pp, prev = Some (pa, pp) -> In e es -> eaddr e <= pa /\ (eaddr e = pa -> ebytes e <> [] -> ebytes e = pbs)) ->
  (forall e1 e2, In e1 es -> In e2 es -> eaddr e1 = eaddr e2 -> ebytes e1 <> [] -> ebytes e2 <> [] -> ebytes e1 = ebytes e2) ->
  prev_ok st m prev pbs ->
  mono m ->
  (forall a n, lookup a m = Some n -> cur st < n) ->
  let st' := restore_all st es prev in
  exists m',
    RI st' /\ mono m' /\
    (forall a n, lookup a m = Some n -> lookup a m' = Some n) /\
    (forall a n, lookup a m' = Some n -> cur st' < n) /\
    (forall e, In e es -> good st' m' e) /\
    (forall l, (forall x, ~ In (l, x) es) -> get_loc st' l = get_loc st l) /\
    (forall a x, lookup a (strs st) = Some x -> lookup a (strs st') = Some x) /\
    cur st' = cur st - stored es (option_map fst prev) /\
    tmp st' = tmp st /\ top st' = top st /\ scur st' = scur st /\ acur st' = acur st.
Proof.
  induction es as [|[l [a bs]] es IH]; intros st prev m pbs HRI Hdesc Hent Hfunc Hprev Hsame Hpok Hmono Hmcur; cbv zeta.
  - simpl. exists m. split; [exact HRI|]. split; [exact Hmono|]. split; [auto|]. split; [exact Hmcur|].
    split; [intros e []|]. split; [reflexivity|]. split; [auto|]. split; [lia|]. auto.
  - assert (Hl : In l (roots st_old)) by (apply (Hent (l, (a, bs))); left; reflexivity).
    assert (Hb255 : zlen bs <= 255) by (apply (Hent (l, (a, bs))); left; reflexivity).
    inversion Hdesc as [|? ? Hdesc' Hfa]; subst. rewrite Forall_forall in Hfa.
    assert (Hent' : forall e, In e es -> In (fst e) (roots st_old) /\ zlen (ebytes e) <= 255)
      by (intros; apply Hent; right; assumption).
    assert (Hfunc' : forall l x y, In (l, x) es -> In (l, y) es -> x = y)
      by (intros l0 x y H1 H2; apply (Hfunc l0); right; assumption).
    assert (Hsame' : forall e1 e2, In e1 es -> In e2 es -> eaddr e1 = eaddr e2 -> ebytes e1 <> [] -> ebytes e2 <> [] -> ebytes e1 = ebytes e2)
      by (intros e1 e2 H1 H2; apply Hsame; right; assumption).
    (* the head entry after the tail has been processed *)
    assert (Hhead : forall st1 st2 m2,
               RI st1 -> good st1 m2 (l, (a, bs)) ->
               (forall e, In e es -> good st2 m2 e) ->
               (forall l0, (forall x, ~ In (l0, x) es) -> get_loc st2 l0 = get_loc st1 l0) ->
               (forall a0 x, lookup a0 (strs st1) = Some x -> lookup a0 (strs st2) = Some x) ->
               good st2 m2 (l, (a, bs))).
    { intros st1 st2 m2 _ Hg1 Hg2 Hun Hpers.
      destruct (in_dec loc_eq_dec l (map fst es)) as [Hin|Hnin].
      - apply in_map_iff in Hin as ([l' x] & Hl' & Hin). simpl in Hl'. subst l'.
        assert (x = (a, bs)) by (apply (Hfunc l); [right; exact Hin|left; reflexivity]). subst x.
        apply Hg2, Hin.
      - assert (Hn : forall x, ~ In (l, x) es).
        { intros x Hx. apply Hnin. apply in_map_iff. exists (l, x). split; [reflexivity|exact Hx]. }
        unfold good in *. rewrite (Hun l Hn). destruct Hg1 as [H1 H2]. split; [exact H1|].
        intros Hne. destruct (H2 Hne) as (n & Hm & Hs & Hlk). exists n. repeat split; auto. }
    destruct bs as [|b bs0].
    + (* empty string: stored as (0, cur + 1), nothing allocated *)
      rewrite restore_eq_empty.
      set (st1 := set_loc (fst (store_raw st [])) l (snd (store_raw st []))).
      assert (HRI1 : RI st1) by (apply RI_step; auto).
      assert (Hcur1 : cur st1 = cur st).
      { unfold st1. rewrite set_loc_cur, store_raw_cur. unfold zlen; simpl. lia. }
      assert (Hstrs1 : strs st1 = strs st).
      { unfold st1. rewrite set_loc_strs. unfold store_raw. simpl. reflexivity. }
      destruct (store_raw_other st []) as (Sr & Sg & Sv & Sj & St & Stm & Ssc & Sac).
      assert (Hvl : valid_loc (fst (store_raw st [])) l) by (apply Sv, (ri_valid _ HRI), Hl).
      destruct (IH st1 prev m pbs HRI1 Hdesc' Hent' Hfunc') as (m' & HRI' & Hmono' & Hext & Hmc' & Hgood & Hun & Hpers & Hcur & Htmp & Htop & Hsc & Hac).
      * intros e pa pp Hp Hin. apply (Hprev e pa pp Hp). right; exact Hin.
      * exact Hsame'.
      * destruct prev as [[pa pp]|]; simpl in *; [|exact Hpok]. rewrite Hstrs1. exact Hpok.
      * exact Hmono.
      * intros a0 n Hm. rewrite Hcur1. eauto.
      * exists m'. split; [exact HRI'|]. split; [exact Hmono'|]. split; [exact Hext|]. split; [exact Hmc'|].
        split; [|split; [|split; [|split]]].
        -- intros e [<-|Hin]; [|apply Hgood, Hin].
           apply (Hhead st1 _ m' HRI1); [|exact Hgood|exact Hun|exact Hpers].
           unfold good. unfold st1. rewrite get_set_loc_same by assumption. rewrite store_raw_ptr. simpl.
           split; [reflexivity|]. intros H; contradiction.
        -- intros l0 Hn. rewrite Hun.
           ++ unfold st1. rewrite get_set_loc_other; [apply Sg|]. intros ->. apply (Hn (a, [])). left; reflexivity.
           ++ intros x Hx. apply (Hn x). right; exact Hx.
        -- intros a0 x Hx. apply Hpers. rewrite Hstrs1. exact Hx.
        -- rewrite Hcur, Hcur1. simpl. destruct prev as [[? ?]|]; reflexivity.
        -- unfold st1 in *. rewrite set_loc_tmp, set_loc_top, set_loc_scur, set_loc_acur in *.
           repeat split; congruence.
    + (* non-empty string *)
      set (bs := b :: bs0) in *.
      assert (Hbne : bs <> []) by (unfold bs; discriminate).
      assert (Hbpos : 0 < zlen bs) by (unfold bs, zlen; simpl; lia).
      assert (Hreuse_or_new :
                (exists pa pp, prev = Some (pa, pp) /\ a = pa) \/
                (match prev with Some (pa, _) => a < pa | None => True end)).
      { destruct prev as [[pa pp]|]; [|right; exact I].
        destruct (Hprev (l, (a, bs)) pa pp eq_refl (or_introl eq_refl)) as [Hle _]. unfold eaddr in Hle; simpl in Hle.
        destruct (Z.eq_dec a pa); [left; eauto|right; lia]. }
      destruct Hreuse_or_new as [(pa & pp & -> & ->)|Hnew].
      * (* same string as the previous entry: share its new copy *)
        unfold bs. rewrite restore_eq_reuse. fold bs.
        set (st1 := set_loc st l pp).
        assert (HRI1 : RI st1) by (apply RI_reuse; auto).
        destruct Hpok as (Hpm & Hpf & Hplk & Hpne & Hpmin).
        assert (Hbs : bs = pbs).
        { destruct (Hprev (l, (pa, bs)) pa pp eq_refl (or_introl eq_refl)) as [_ H]. apply H; [reflexivity|exact Hbne]. }
        destruct (IH st1 (Some (pa, pp)) m pbs HRI1 Hdesc' Hent' Hfunc') as (m' & HRI' & Hmono' & Hext & Hmc' & Hgood & Hun & Hpers & Hcur & Htmp & Htop & Hsc & Hac).
        -- intros e pa' pp' Hp Hin. inversion Hp; subst. apply (Hprev e pa' pp' eq_refl). right; exact Hin.
        -- exact Hsame'.
        -- simpl. unfold st1. rewrite set_loc_strs. repeat split; auto.
        -- exact Hmono.
        -- intros a0 n Hm. unfold st1. rewrite set_loc_cur. eauto.
        -- exists m'. split; [exact HRI'|]. split; [exact Hmono'|]. split; [exact Hext|]. split; [exact Hmc'|].
           assert (Hvl : valid_loc st l) by (apply (ri_valid _ HRI), Hl).
           split; [|split; [|split; [|split]]].
           ++ intros e [<-|Hin]; [|apply Hgood, Hin].
              apply (Hhead st1 _ m' HRI1); [|exact Hgood|exact Hun|exact Hpers].
              unfold good, st1. rewrite get_set_loc_same by assumption. split; [congruence|].
              intros _. exists (snd pp). split; [apply Hext, Hpm|]. split; [reflexivity|].
              rewrite set_loc_strs. congruence.
           ++ intros l0 Hn. rewrite Hun.
              ** unfold st1. rewrite get_set_loc_other; [reflexivity|]. intros ->. apply (Hn (pa, bs)). left; reflexivity.
              ** intros x Hx. apply (Hn x). right; exact Hx.
           ++ intros a0 x Hx. apply Hpers. unfold st1. rewrite set_loc_strs. exact Hx.
           ++ rewrite Hcur. unfold st1. rewrite set_loc_cur. unfold bs. simpl. rewrite Z.eqb_refl. reflexivity.
           ++ unfold st1 in *. rewrite set_loc_tmp, set_loc_top, set_loc_scur, set_loc_acur in *. auto.
      * (* a string not stored yet *)
        unfold bs. rewrite restore_eq_new by (destruct prev as [[pa pp]|]; [lia|exact I]). fold bs.
        set (st1 := set_loc (fst (store_raw st bs)) l (snd (store_raw st bs))).
        set (na := cur st - zlen bs + 1).
        assert (Hp1 : snd (store_raw st bs) = (zlen bs, na)) by apply store_raw_ptr.
        assert (HRI1 : RI st1) by (apply RI_step; auto).
        destruct (store_raw_other st bs) as (Sr & Sg & Sv & Sj & St & Stm & Ssc & Sac).
        assert (Hvl : valid_loc (fst (store_raw st bs)) l) by (apply Sv, (ri_valid _ HRI), Hl).
        assert (Hcur1 : cur st1 = cur st - zlen bs).
        { unfold st1. rewrite set_loc_cur. apply store_raw_cur. }
        assert (Hlk1 : lookup na (strs st1) = Some bs).
        { unfold st1. rewrite set_loc_strs. apply store_raw_lookup_new, Hbpos. }
        assert (Hold1 : forall a0 x, lookup a0 (strs st) = Some x -> lookup a0 (strs st1) = Some x).
        { intros a0 x Hx. unfold st1. rewrite set_loc_strs. apply store_raw_lookup_old; [apply (ri_chain _ HRI)|exact Hx]. }
        (* a is below every address in m *)
        assert (Hamin : forall a0 n, lookup a0 m = Some n -> a < a0).
        { intros a0 n Hm. destruct prev as [[pa pp]|]; simpl in Hpok.
          - destruct Hpok as (_ & _ & _ & _ & Hmin). specialize (Hmin _ _ Hm). lia.
          - subst m. discriminate. }
        set (m1 := (a, na) :: m).
        assert (Hm1ext : forall a0 n, lookup a0 m = Some n -> lookup a0 m1 = Some n).
        { intros a0 n Hm. unfold m1. simpl. destruct (a0 =? a) eqn:E; [|exact Hm].
          apply Z.eqb_eq in E. specialize (Hamin _ _ Hm). lia. }
        assert (Hmono1 : mono m1).
        { unfold mono, m1. simpl. intros a1 n1 a2 n2 H1 H2 Hlt.
          destruct (a1 =? a) eqn:E1; destruct (a2 =? a) eqn:E2.
          - apply Z.eqb_eq in E1, E2. lia.
          - inversion H1; subst n1. specialize (Hmcur _ _ H2). unfold na. lia.
          - apply Z.eqb_eq in E2. subst a2. specialize (Hamin _ _ H1). lia.
          - eapply Hmono; eauto. }
        destruct (IH st1 (Some (a, snd (store_raw st bs))) m1 bs HRI1 Hdesc' Hent' Hfunc') as (m' & HRI' & Hmono' & Hext & Hmc' & Hgood & Hun & Hpers & Hcur & Htmp & Htop & Hsc & Hac).
        -- intros e pa' pp' Hp Hin. inversion Hp; subst pa' pp'. split.
           ++ specialize (Hfa e Hin). unfold eaddr in *. simpl in Hfa. exact Hfa.
           ++ intros Hea Hne. symmetry. apply (Hsame (l, (a, bs)) e); [left; reflexivity|right; exact Hin| |exact Hbne|exact Hne].
              unfold eaddr in *; simpl; congruence.
        -- exact Hsame'.
        -- unfold prev_ok. rewrite Hp1. cbn [fst snd]. unfold m1. cbn [lookup]. rewrite Z.eqb_refl.
           repeat split; auto.
           intros a0 n Hm. destruct (a0 =? a) eqn:E; [apply Z.eqb_eq in E; lia|]. specialize (Hamin _ _ Hm). lia.
        -- exact Hmono1.
        -- intros a0 n Hm. unfold m1 in Hm. simpl in Hm. rewrite Hcur1. destruct (a0 =? a).
           ++ inversion Hm; subst n. unfold na. lia.
           ++ specialize (Hmcur _ _ Hm). lia.
        -- exists m'. split; [exact HRI'|]. split; [exact Hmono'|].
           split; [intros a0 n Hm; apply Hext, Hm1ext, Hm|]. split; [exact Hmc'|].
           split; [|split; [|split; [|split]]].
           ++ intros e [<-|Hin]; [|apply Hgood, Hin].
              apply (Hhead st1 _ m' HRI1); [|exact Hgood|exact Hun|exact Hpers].
              unfold good, st1. rewrite get_set_loc_same by assumption. rewrite Hp1. simpl. split; [reflexivity|].
              intros _. exists na. split; [apply Hext; unfold m1; simpl; rewrite Z.eqb_refl; reflexivity|].
              split; [reflexivity|]. rewrite set_loc_strs. apply store_raw_lookup_new, Hbpos.
           ++ intros l0 Hn. rewrite Hun.
              ** unfold st1. rewrite get_set_loc_other; [apply Sg|]. intros ->. apply (Hn (a, bs)). left; reflexivity.
              ** intros x Hx. apply (Hn x). right; exact Hx.
           ++ intros a0 x Hx. apply Hpers, Hold1, Hx.
           ++ rewrite Hcur, Hcur1. unfold bs. cbn [stored option_map fst]. fold bs.
              destruct prev as [[pa pp]|]; cbn [option_map fst].
              ** destruct (a =? pa) eqn:E; [apply Z.eqb_eq in E; lia|]. lia.
              ** lia.
           ++ unfold st1 in *. rewrite set_loc_tmp, set_loc_top, set_loc_scur, set_loc_acur in *.
              repeat split; congruence.
Qed.
End Restore.

(* ---------- how much the second loop stores ---------- *)
Fixpoint below (S : list (Z * list Z)) (x : Z) : Z :=
  match S with
  | [] => 0
  | (k, v) :: r => (if k <? x then zlen v else 0) + below r x
  end.

Lemma zlen_nonneg {A} (l : list A) : 0 <= zlen l.
Proof. unfold zlen. lia. Qed.

Lemma below_nonneg S x : 0 <= below S x.
Proof. induction S as [|[k v] r IH]; simpl; [lia|]. pose proof (zlen_nonneg v). destruct (k <? x); lia. Qed.

Lemma below_mono S x y : x <= y -> below S x <= below S y.
Proof.
  intros H. induction S as [|[k v] r IH]; simpl; [lia|]. pose proof (zlen_nonneg v).
  destruct (k <? x) eqn:E1; destruct (k <? y) eqn:E2; try lia.
  all: try (apply Z.ltb_lt in E1; apply Z.ltb_ge in E2; lia).
Qed.

Lemma below_total lo S hi x : chain lo S hi -> below S x <= hi - lo.
Proof.
  revert lo. induction S as [|[k v] r IH]; simpl; intros lo H.
  - lia.
  - destruct H as (-> & Hv & H). specialize (IH _ H). destruct (lo <? x); lia.
Qed.

Lemma below_step S a pa bs : a < pa -> lookup a S = Some bs -> below S a + zlen bs <= below S pa.
Proof.
  intros Hlt. induction S as [|[k v] r IH]; simpl; intros Hl; [discriminate|].
  pose proof (zlen_nonneg v). destruct (a =? k) eqn:E.
  - apply Z.eqb_eq in E. subst k. inversion Hl; subst v.
    rewrite Z.ltb_irrefl. assert (E2 : (a <? pa) = true) by (apply Z.ltb_lt; lia). rewrite E2.
    pose proof (below_mono r a pa ltac:(lia)). lia.
  - specialize (IH Hl). destruct (k <? a) eqn:E1; destruct (k <? pa) eqn:E2; try lia.
    all: try (apply Z.ltb_lt in E1; apply Z.ltb_ge in E2; lia).
Qed.

Lemma stored_bound S es : forall prev,
  desc es ->
  (forall e, In e es -> ebytes e <> [] -> lookup (eaddr e) S = Some (ebytes e)) ->
  (forall pa e, prev = Some pa -> In e es -> eaddr e <= pa) ->
  stored es prev <= match prev with Some pa => below S pa | None => below S (match es with e :: _ => eaddr e + 1 | [] => 0 end) end.
Proof.
  induction es as [|[l [a bs]] es IH]; intros prev Hd Hb Hp; cbn [stored].
  - destruct prev; apply below_nonneg.
  - inversion Hd as [|? ? Hd' Hfa]; subst. rewrite Forall_forall in Hfa.
    assert (Hb' : forall e, In e es -> ebytes e <> [] -> lookup (eaddr e) S = Some (ebytes e))
      by (intros; apply Hb; [right|]; assumption).
    destruct bs as [|b bs0].
    + destruct prev as [pa|].
      * apply (IH (Some pa)); auto. intros pa' e Hpa Hin. eapply Hp; eauto. right; exact Hin.
      * destruct es as [|e es']; [simpl; apply below_nonneg|].
        specialize (IH None Hd' Hb' ltac:(discriminate)). eapply Z.le_trans; [exact IH|].
        apply below_mono.
        specialize (Hfa e (or_introl eq_refl)). unfold eaddr in *. simpl in *. lia.
    + set (bs := b :: bs0) in *.
      assert (Hlk : lookup a S = Some bs) by (apply (Hb (l, (a, bs))); [left; reflexivity|discriminate]).
      assert (IHa : stored es (Some a) <= below S a).
      { apply (IH (Some a)); auto. intros pa' e Hpa Hin. inversion Hpa; subst pa'.
        specialize (Hfa e Hin). unfold eaddr in *; simpl in *. exact Hfa. }
      destruct prev as [pa|].
      * destruct (a =? pa) eqn:E.
        -- apply (IH (Some pa)); auto. intros pa' e Hpa Hin. eapply Hp; eauto. right; exact Hin.
        -- apply Z.eqb_neq in E. assert (a <= pa) by (apply (Hp pa (l, (a, bs)) eq_refl); left; reflexivity).
           pose proof (below_step S a pa bs ltac:(lia) Hlk). lia.
      * unfold eaddr; cbn [fst snd]. pose proof (below_step S a (a + 1) bs ltac:(lia) Hlk). fold bs. lia.
Qed.

Lemma stored_nonneg es prev : 0 <= stored es prev.
Proof.
  revert prev. induction es as [|[l [a bs]] es IH]; intros prev; simpl; [lia|].
  destruct bs as [|b bs0]; [apply IH|]. pose proof (zlen_nonneg (b :: bs0)).
  destruct prev as [pa|]; [destruct (a =? pa)|]; try apply IH; pose proof (IH (Some a)); lia.
Qed.

Lemma stored_all_empty es prev : (forall e, In e es -> ebytes e = []) -> stored es prev = 0.
Proof.
  revert prev. induction es as [|[l [a bs]] es IH]; intros prev H; simpl; [reflexivity|].
  assert (bs = []) by (apply (H (l, (a, bs))); left; reflexivity). subst bs.
  apply IH. intros; apply H; right; assumption.
Qed.

Lemma chain_empty lo S : chain lo S lo -> S = [].
Proof.
  destruct S as [|[k v] r]; simpl; [reflexivity|]. intros (_ & Hv & H). apply chain_le in H. lia.
Qed.

(* ---------- the sentinel ---------- *)
Definition qual (c : cfg) (st : state) (t : Z) (l : loc) : Prop :=
  var_start c <= snd (get_loc st l) /\ 0 < fst (get_loc st l) /\ t < snd (get_loc st l).

Lemma sentinel_spec c st t ls : tmp st = Some t -> forall best bl,
  (forall lb, bl = Some lb -> qual c st t lb /\ snd (get_loc st lb) = best) ->
  (forall l0, sentinel c st ls best bl = Some l0 ->
      qual c st t l0 /\ snd (get_loc st l0) <= best /\ (bl = Some l0 \/ (In l0 ls /\ snd (get_loc st l0) < best)) /\
      forall l, In l ls -> qual c st t l -> snd (get_loc st l) < best -> snd (get_loc st l0) <= snd (get_loc st l)) /\
  (sentinel c st ls best bl = None ->
      bl = None /\ forall l, In l ls -> qual c st t l -> ~ snd (get_loc st l) < best).
Proof.
  intros Ht. induction ls as [|l ls IH]; intros best bl Hbl; simpl.
  - split.
    + intros l0 ->. destruct (Hbl l0 eq_refl) as [H1 H2]. split; [exact H1|]. split; [lia|]. split; [left; reflexivity|].
      intros l [].
    + intros ->. split; [reflexivity|]. intros l [].
  - destruct (get_loc st l) as [len a] eqn:Eg. rewrite Ht.
    destruct ((var_start c <=? a) && ((0 <? len) && (t <? a) && (a <? best))) eqn:E.
    + apply andb_true_iff in E as [E1 E]. apply andb_true_iff in E as [E E4]. apply andb_true_iff in E as [E2 E3].
      apply Z.leb_le in E1. apply Z.ltb_lt in E2, E3, E4.
      assert (Hq : qual c st t l) by (unfold qual; rewrite Eg; simpl; lia).
      destruct (IH a (Some l)) as [IH1 IH2].
      { intros lb Hlb. inversion Hlb; subst lb. split; [exact Hq|]. rewrite Eg. reflexivity. }
      split.
      * intros l0 Hs. destruct (IH1 l0 Hs) as (Q & Hle & Hor & Hmin).
        split; [exact Q|]. split; [lia|]. split.
        -- destruct Hor as [Hor|[Hor Hlt0]]; [inversion Hor; subst; right; split; [left; reflexivity|rewrite Eg; simpl; lia]|right; split; [right; exact Hor|lia]].
        -- intros l' [<-|Hin] Hq' Hlt.
           ++ rewrite Eg. simpl. exact Hle.
           ++ destruct (Z.lt_ge_cases (snd (get_loc st l')) a) as [Hc|Hc]; [apply Hmin; assumption|lia].
      * intros Hs. destruct (IH2 Hs) as [Hn _]. discriminate.
    + destruct (IH best bl Hbl) as [IH1 IH2]. split.
      * intros l0 Hs. destruct (IH1 l0 Hs) as (Q & Hle & Hor & Hmin).
        split; [exact Q|]. split; [exact Hle|]. split; [destruct Hor as [Hor|[Hor Hlt0]]; [left; assumption|right; split; [right; assumption|assumption]]|].
        intros l' [<-|Hin] Hq' Hlt; [|apply Hmin; assumption].
        exfalso. unfold qual in Hq'. rewrite Eg in *. simpl in *.
        assert ((var_start c <=? a) && ((0 <? len) && (t <? a) && (a <? best)) = true); [|congruence].
        apply andb_true_iff. split; [apply Z.leb_le; lia|]. apply andb_true_iff. split; [|apply Z.ltb_lt; lia].
        apply andb_true_iff. split; apply Z.ltb_lt; lia.
      * intros Hs. destruct (IH2 Hs) as [Hn Hnone]. split; [exact Hn|].
        intros l' [<-|Hin] Hq' Hlt; [|apply (Hnone l'); assumption].
        unfold qual in Hq'. rewrite Eg in *. simpl in *.
        assert ((var_start c <=? a) && ((0 <? len) && (t <? a) && (a <? best)) = true); [|congruence].
        apply andb_true_iff. split; [apply Z.leb_le; lia|]. apply andb_true_iff. split; [|apply Z.ltb_lt; lia].
        apply andb_true_iff. split; apply Z.ltb_lt; lia.
Qed.

Lemma sentinel_none_tmp c st ls best bl : tmp st = None -> sentinel c st ls best bl = bl.
Proof.
  intros Ht. revert best bl. induction ls as [|l ls IH]; intros best bl; simpl; [reflexivity|].
  destruct (get_loc st l) as [len a]. rewrite Ht. rewrite andb_false_r. apply IH.
Qed.

(* ---------- the collector as a whole ---------- *)
Lemma valid_loc_same_containers st1 st2 l :
  scal st1 = scal st2 -> arrs st1 = arrs st2 -> stack st1 = stack st2 -> tvals st1 = tvals st2 ->
  valid_loc st1 l -> valid_loc st2 l.
Proof. intros H1 H2 H3 H4. destruct l; simpl; rewrite ?H1, ?H2, ?H3, ?H4; auto. Qed.

Lemma jclass_same_containers st1 st2 l :
  stack st1 = stack st2 -> tvals st1 = tvals st2 -> (jclass st1 l <-> jclass st2 l).
Proof. intros H3 H4. destruct l; simpl; rewrite ?H3, ?H4; tauto. Qed.

Definition Jt (st : state) : Prop := match tmp st with Some t => cur st <= t | None => True end.

Theorem collect_spec c st : Inv c st ->
  exists es st' m,
    gather c st (roots st) = Ok es /\ collect c st = Ok st' /\ Inv c st' /\
    shape st' = shape st /\ roots st' = roots st /\ mono m /\
    (forall l, In l (roots st) -> snd (get_loc st l) < var_start c -> get_loc st' l = get_loc st l) /\
    (forall l, In l (roots st) -> var_start c <= snd (get_loc st l) ->
        fst (get_loc st' l) = fst (get_loc st l) /\
        (0 < fst (get_loc st l) -> exists bs, lookup (snd (get_loc st l)) (strs st) = Some bs /\
              lookup (snd (get_loc st l)) m = Some (snd (get_loc st' l)) /\
              lookup (snd (get_loc st' l)) (strs st') = Some bs)) /\
    cur st' = top st - stored (sort_desc es) None /\ cur st <= cur st' /\ top st' = top st /\ Jt st' /\
    (forall l, In l (roots st) -> Jp c st (get_loc st l) -> Jp c st' (get_loc st' l)).
Proof.
  intros HI.
  assert (Hpos : forall a bs, lookup a (strs st) = Some bs -> 0 < zlen bs <= 255).
  { intros a bs Hl. apply (chain_lookup _ _ _ _ _ (inv_chain _ _ HI)) in Hl. lia. }
  destruct (gather_ok c st (roots st)) as (es & Hg & Hes & Hcomplete).
  { auto. } { apply (inv_roots _ _ HI). } { intros a bs Hl. apply Hpos in Hl. lia. }
  set (sorted := sort_desc es).
  set (st0 := set_cur (set_strs st []) (top st)).
  assert (HRI0 : RI st st0).
  { constructor.
    - simpl. reflexivity.
    - reflexivity.
    - intros l Hl. apply (valid_loc_same_containers st); try reflexivity. apply (inv_valid _ _ HI), Hl.
    - intros l. apply jclass_same_containers; reflexivity.
    - reflexivity. }
  assert (Hsok : forall e, In e sorted -> entry_ok c st e).
  { intros e He. apply (proj1 (In_sort_desc e es)) in He. apply Hes, He. }
  destruct (restore_all_spec st sorted st0 None [] []) as (m & HRI & Hmono & _ & Hmc & Hgood & Hun & _ & Hcur & Htmp & Htop & Hsc & Hac).
  { exact HRI0. }
  { apply sort_desc_sorted. }
  { intros [l [a bs]] He. specialize (Hsok _ He). simpl in Hsok. destruct Hsok as (Hr & _ & _ & Hb).
    split; [exact Hr|]. unfold ebytes; simpl. destruct Hb as [[_ ->]|(_ & Hl & _)]; [unfold zlen; simpl; lia|].
    apply Hpos in Hl. lia. }
  { intros l x y Hx Hy. eapply entry_ok_func; apply Hsok; eassumption. }
  { intros e pa pp Hp. discriminate. }
  { intros [l1 [a1 b1]] [l2 [a2 b2]] H1 H2. unfold eaddr, ebytes. simpl. intros -> Hn1 Hn2.
    apply Hsok in H1, H2. simpl in H1, H2.
    destruct H1 as (_ & _ & _ & [[_ ->]|(_ & Hl1 & _)]); [contradiction|].
    destruct H2 as (_ & _ & _ & [[_ ->]|(_ & Hl2 & _)]); [contradiction|]. congruence. }
  { reflexivity. }
  { intros a1 n1 a2 n2 H; discriminate. }
  { intros a n H; discriminate. }
  set (st1 := restore_all st0 sorted None) in *.
  simpl in Hcur, Htmp, Htop, Hsc, Hac.
  (* pointers after the loop *)
  assert (Hlow : forall l, In l (roots st) -> snd (get_loc st l) < var_start c -> get_loc st1 l = get_loc st l).
  { intros l Hl Ha. rewrite Hun; [destruct l; reflexivity|].
    intros [a bs] Hin. apply Hsok in Hin. simpl in Hin. lia. }
  assert (Hhigh : forall l, In l (roots st) -> var_start c <= snd (get_loc st l) ->
        fst (get_loc st1 l) = fst (get_loc st l) /\
        (0 < fst (get_loc st l) -> exists bs, lookup (snd (get_loc st l)) (strs st) = Some bs /\
              lookup (snd (get_loc st l)) m = Some (snd (get_loc st1 l)) /\
              lookup (snd (get_loc st1 l)) (strs st1) = Some bs)).
  { intros l Hl Ha. destruct (Hcomplete l Hl Ha) as ([a bs] & Hin).
    assert (Hin' : In (l, (a, bs)) sorted) by (apply (proj2 (In_sort_desc _ es)), Hin).
    assert (Hok := Hsok _ Hin'). assert (Hgd := Hgood _ Hin'). simpl in Hok, Hgd.
    destruct Hok as (_ & Hsa & _ & Hb). destruct Hgd as [Hg1 Hg2]. subst a.
    destruct Hb as [[Hz ->]|(Hp & Hlk & Hz)].
    - split; [rewrite Hg1, Hz; reflexivity|]. intros; lia.
    - split; [rewrite Hg1; exact Hz|]. intros _.
      assert (Hne : bs <> []) by (intros ->; unfold zlen in Hz; simpl in Hz; lia).
      destruct (Hg2 Hne) as (n & Hm & Hs & Hl1). exists bs. rewrite Hs. auto. }
  assert (Hcurle : cur st <= cur st1).
  { rewrite Hcur.
    pose proof (stored_bound (strs st) sorted None (sort_desc_sorted es)) as Hb.
    assert (Hb' : stored sorted None <= below (strs st) match sorted with [] => 0 | e :: _ => eaddr e + 1 end).
    { apply Hb; [|discriminate]. intros [l [a bs]] Hin Hne. apply Hsok in Hin. simpl in Hin.
      unfold eaddr, ebytes in *; simpl in *. destruct Hin as (_ & _ & _ & [[_ ->]|(_ & Hl & _)]); [contradiction|exact Hl]. }
    pose proof (below_total _ _ _ match sorted with [] => 0 | e :: _ => eaddr e + 1 end (inv_chain _ _ HI)). lia. }
  (* the invariant, whatever _temp becomes *)
  assert (HInvpre : forall x, (match x with
                               | Some t' => (strs st1 = [] \/ cur st1 <= t') /\
                                   forall l, In l (roots st) -> jclass st l -> 0 < fst (get_loc st1 l) ->
                                             var_start c <= snd (get_loc st1 l) -> t' < snd (get_loc st1 l)
                               | None => True end) -> Inv c (set_tmp st1 x)).
  { intros x Hx. constructor.
    - exact (ri_chain _ _ HRI).
    - intros l Hl. apply (valid_loc_same_containers st1); try reflexivity.
      apply (ri_valid _ _ HRI). change (roots (set_tmp st1 x)) with (roots st1) in Hl. rewrite (ri_roots _ _ HRI) in Hl. exact Hl.
    - intros l Hl. change (roots (set_tmp st1 x)) with (roots st1) in Hl. rewrite (ri_roots _ _ HRI) in Hl.
      change (get_loc (set_tmp st1 x) l) with (get_loc st1 l). split.
      + simpl. intros Hv.
        destruct (Z.lt_ge_cases (snd (get_loc st l)) (var_start c)) as [Hc|Hc].
        * rewrite (Hlow l Hl Hc) in Hv. lia.
        * destruct (Hhigh l Hl Hc) as [Hf Hb]. destruct (Z.eq_dec (fst (get_loc st l)) 0) as [Hz|Hnz]; [left; lia|].
          assert (Hp : 0 < fst (get_loc st l)).
          { pose proof (ptr_ok_bound _ _ _ (inv_roots _ _ HI l Hl) Hc) as [H0|(bs & Hl0 & Hz0)]; [contradiction|]. apply Hpos in Hl0. lia. }
          destruct (Hb Hp) as (bs & Hl0 & _ & Hl1). right. exists bs. split; [exact Hl1|].
          pose proof (ptr_ok_bound _ _ _ (inv_roots _ _ HI l Hl) Hc) as [H0|(bs' & Hl0' & Hz0)]; [contradiction|]. congruence.
      + intros Hv.
        destruct (Z.lt_ge_cases (snd (get_loc st l)) (var_start c)) as [Hc|Hc].
        * rewrite (Hlow l Hl Hc) in *. apply (inv_roots _ _ HI l Hl). exact Hv.
        * destruct (Hhigh l Hl Hc) as [Hf Hb]. destruct (Z.eq_dec (fst (get_loc st l)) 0) as [Hz|Hnz]; [lia|].
          assert (Hp : 0 < fst (get_loc st l)).
          { pose proof (ptr_ok_bound _ _ _ (inv_roots _ _ HI l Hl) Hc) as [H0|(bs & Hl0 & Hz0)]; [contradiction|]. apply Hpos in Hl0. lia. }
          destruct (Hb Hp) as (bs & Hl0 & _ & Hl1). exfalso.
          apply (chain_lookup _ _ _ _ _ (ri_chain _ _ HRI)) in Hl1.
          destruct (inv_low _ _ HI) as (Hs1 & Hs2 & [Hs3|Hs3]); [rewrite Hs3 in Hl0; discriminate|].
          pose proof (inv_cfg _ _ HI). lia.
    - simpl. rewrite Hsc, Hac. destruct (inv_low _ _ HI) as (H1 & H2 & H3). split; [exact H1|]. split; [exact H2|].
      destruct H3 as [H3|H3]; [|right; lia]. left.
      assert (Hz : stored sorted None = 0).
      { apply stored_all_empty. intros [l [a bs]] Hin. apply Hsok in Hin. simpl in Hin. unfold ebytes; simpl.
        destruct Hin as (_ & _ & _ & [[_ ->]|(_ & Hl & _)]); [reflexivity|]. rewrite H3 in Hl. discriminate. }
      pose proof (ri_chain _ _ HRI) as Hch. rewrite Htop in Hch. rewrite Hcur, Hz in Hch.
      replace (top st - 0 + 1) with (top st + 1) in Hch by lia. apply chain_empty in Hch. exact Hch.
    - unfold Jinv. simpl. destruct x as [t'|]; [|exact I]. destruct Hx as [Hx1 Hx2]. split; [exact Hx1|].
      intros l Hl Hj. change (roots (set_tmp st1 (Some t'))) with (roots st1) in Hl. rewrite (ri_roots _ _ HRI) in Hl.
      apply Hx2; [exact Hl|]. apply (ri_j _ _ HRI). exact Hj.
    - exact (inv_cfg _ _ HI). }
  (* the three outcomes for _temp *)
  assert (Hcollect : collect c st = Ok (match sentinel c st (roots st) (top st) None with
          | None => set_tmp st1 None
          | Some l => if match tmp st with Some t => t =? top st | None => true end then st1
                      else set_tmp st1 (Some (snd (get_loc st1 l) - 1))
          end)).
  { unfold collect. rewrite Hg. reflexivity. }
  assert (Hfinal : exists x, (match sentinel c st (roots st) (top st) None with
          | None => set_tmp st1 None
          | Some l => if match tmp st with Some t => t =? top st | None => true end then st1
                      else set_tmp st1 (Some (snd (get_loc st1 l) - 1))
          end) = set_tmp st1 x /\ Inv c (set_tmp st1 x) /\ Jt (set_tmp st1 x) /\
          (forall l, In l (roots st) -> Jp c st (get_loc st l) -> Jp c (set_tmp st1 x) (get_loc st1 l))).
  { destruct (tmp st) as [t|] eqn:Et.
    - destruct (sentinel_spec c st t (roots st) Et (top st) None) as [Hs1 Hs2]; [discriminate|].
      destruct (sentinel c st (roots st) (top st) None) as [l0|] eqn:Es.
      + destruct (Hs1 l0 eq_refl) as ((Hq1 & Hq2 & Hq3) & Hle & Hor & Hmin).
        destruct Hor as [Hor|[Hin0 Hlt0]]; [discriminate|].
        destruct (Hhigh l0 Hin0 Hq1) as [Hf0 Hb0]. destruct (Hb0 Hq2) as (bs0 & Hl0 & Hm0 & Hl0').
        destruct (t =? top st) eqn:Ett.
        * (* impossible: a permanent string lies above _temp = stack_start *)
          apply Z.eqb_eq in Ett. apply (chain_lookup _ _ _ _ _ (inv_chain _ _ HI)) in Hl0. lia.
        * assert (Hkey : forall l, In l (roots st) ->
                    (0 < fst (get_loc st l) -> var_start c <= snd (get_loc st l) -> t < snd (get_loc st l)) ->
                    0 < fst (get_loc st1 l) -> var_start c <= snd (get_loc st1 l) ->
                    snd (get_loc st1 l0) - 1 < snd (get_loc st1 l)).
          { intros l Hl Hpm Hp Hv.
            destruct (Z.lt_ge_cases (snd (get_loc st l)) (var_start c)) as [Hc|Hc].
            - rewrite (Hlow l Hl Hc) in Hv. lia.
            - destruct (Hhigh l Hl Hc) as [Hf Hb]. rewrite Hf in Hp. destruct (Hb Hp) as (bs & Hlk & Hm & Hlk').
              assert (Hperm : t < snd (get_loc st l)) by (apply Hpm; assumption).
              destruct (Z.lt_ge_cases (snd (get_loc st l)) (top st)) as [Hlt|Hge].
              + assert (Hle0 : snd (get_loc st l0) <= snd (get_loc st l)).
                { apply Hmin; [exact Hl| |exact Hlt]. unfold qual. lia. }
                destruct (Z.eq_dec (snd (get_loc st l0)) (snd (get_loc st l))) as [He|Hne].
                * rewrite He in Hm0. rewrite Hm in Hm0. inversion Hm0. lia.
                * pose proof (Hmono _ _ _ _ Hm0 Hm ltac:(lia)). lia.
              + pose proof (Hmono _ _ _ _ Hm0 Hm ltac:(lia)). lia. }
          exists (Some (snd (get_loc st1 l0) - 1)). split; [reflexivity|].
          split; [|split; [unfold Jt; simpl; specialize (Hmc _ _ Hm0); lia|]].
          -- apply HInvpre. split.
             ++ right. specialize (Hmc _ _ Hm0). lia.
             ++ intros l Hl Hj Hp Hv. apply Hkey; auto.
                pose proof (inv_J _ _ HI) as HJ. unfold Jinv in HJ. rewrite Et in HJ. intros; apply HJ; auto.
          -- intros l Hl HJp. unfold Jp. simpl. intros Hp Hv. apply Hkey; auto.
             unfold Jp in HJp. rewrite Et in HJp. exact HJp.
      + exists None. split; [reflexivity|]. split; [apply HInvpre; exact I|]. split; [exact I|]. intros; exact I.
    - rewrite sentinel_none_tmp by assumption. exists None. split; [reflexivity|]. split; [apply HInvpre; exact I|]. split; [exact I|]. intros; exact I. }
  destruct Hfinal as (x & Hfx & HInv' & HJt' & HJp').
  exists es, (set_tmp st1 x), m. rewrite Hcollect, Hfx.
  split; [exact Hg|]. split; [reflexivity|]. split; [exact HInv'|].
  split; [exact (ri_shape _ _ HRI)|]. split; [exact (ri_roots _ _ HRI)|]. split; [exact Hmono|].
  split; [exact Hlow|]. split; [exact Hhigh|]. split; [exact Hcur|]. split; [exact Hcurle|]. split; [exact Htop|]. split; [exact HJt'|exact HJp'].
Qed.
