(* C36: the theorems about the cursor model (assembled from Cursor_lists / Cursor_inv / Cursor_place). *)
From Coq Require Import ZArith List Bool Lia ZifyBool Arith.
From PCB Require Import lib.Result lib.PyInt model.Cursor proofs.Cursor_lists proofs.Cursor_inv proofs.Cursor_place
  proofs.Cursor_flags proofs.Cursor_term.
Import ListNotations.
Open Scope Z_scope.

(* ---- the cursor is always inside the screen *)
Theorem in_screen_all ops :
  let s := run init_st ops in 1 <= row s <= height s /\ 1 <= col s <= width s.
Proof. cbv zeta. destruct (reachable_INV ops) as [_ H]. exact H. Qed.

(* ---- CSRLIN / POS *)
Theorem csrlin_pos_rule s : INV s ->
  1 <= csrlin s <= height s /\ 1 <= pos s <= width s /\
  (ovf s = false -> csrlin s = row s /\ pos s = col s) /\
  (ovf s = true -> col s = width s ->
     pos s = 1 /\ csrlin s = if row s <? bot s then row s + 1 else row s) /\
  (col s <> width s -> csrlin s = row s /\ pos s = col s).
Proof.
  intros [[(G1&G2&G3&G4&G5&G6) _] [Hr Hc]]. unfold csrlin, pos.
  destruct (ovf s); cbn [andb]; repeat split; try intros; try discriminate;
    repeat match goal with |- context [if ?b then _ else _] => destruct b eqn:? end; lia.
Qed.

(* ---- LOCATE *)
Definition locate_accepts (s : st) (r c : Z) : bool :=
  negb ((r =? height s) && barvis s)
  && (if act s then rng (top s) (bot s) r else rng 1 (height s) r)
  && rng 1 (width s) c.

Lemma set_col_id s : set_col s (col s) = s.
Proof. destruct s; reflexivity. Qed.

Lemma wrap_scroll_bottom ok s : bra s = true -> row s = height s -> 1 <= col s <= width s ->
  wrap_scroll ok s = s.
Proof.
  intros Hb Hr Hc. unfold wrap_scroll. rewrite Hb. replace (row s =? height s) with true by lia. cbn [andb].
  replace (Z.min (width s) (col s)) with (col s) by lia. replace (col s <? 1) with false by lia.
  apply set_col_id.
Qed.

Lemma wrap_scroll_stay ok s : bra s && (row s =? height s) = false -> 1 <= col s <= width s ->
  top s <= row s <= bot s -> wrap_scroll ok s = set_bra s false.
Proof.
  intros Hb Hc Hr. unfold wrap_scroll. rewrite Hb.
  set (s1 := set_bra s false).
  assert (F : col s1 = col s /\ width s1 = width s /\ row s1 = row s /\ bot s1 = bot s /\ top s1 = top s)
    by (unfold s1; setters; proj; repeat split; reflexivity).
  destruct F as (F1 & F2 & F3 & F4 & F5). cbv zeta.
  rewrite F1, F2, F3, F4, F5.
  replace (col s >? width s) with false by lia. replace (col s <? 1) with false by lia.
  rewrite F3, F4, F5.
  replace (row s >? bot s) with false by lia. replace (row s <? top s) with false by lia. reflexivity.
Qed.

Lemma set_pos_exact s r c : geom_ok s -> 1 <= c <= width s ->
  (bra s = true /\ r = height s) \/ (r <> height s /\ top s <= r <= bot s) ->
  let s' := set_pos s r c false in
  row s' = r /\ col s' = c /\ cells s' = cells s /\ hist s' = hist s /\ wraps s' = wraps s /\
  ovf s' = (if c <? width s then false else ovf s).
Proof.
  intros (G1&G2&G3&G4&G5&G6) Hc Hr. cbv zeta. unfold set_pos.
  set (s1 := set_rc (if c <? width s then set_ovf s false else s) r c).
  assert (F : row s1 = r /\ col s1 = c /\ cells s1 = cells s /\ hist s1 = hist s /\ wraps s1 = wraps s /\
              ovf s1 = (if c <? width s then false else ovf s) /\ bra s1 = bra s /\ width s1 = width s /\
              height s1 = height s /\ top s1 = top s /\ bot s1 = bot s)
    by (unfold s1; destruct (c <? width s); setters; proj; repeat split; reflexivity).
  destruct F as (F1&F2&F3&F4&F5&F6&F7&F8&F9&F10&F11).
  destruct Hr as [[Hb Hr] | [Hne Hr]].
  - rewrite wrap_scroll_bottom by (try congruence; lia). repeat split; assumption.
  - rewrite wrap_scroll_stay.
    + setters. proj. repeat split; assumption.
    + rewrite F1, F9. destruct (bra s1); cbn [andb]; lia.
    + lia.
    + lia.
Qed.

Definition odef (o : option Z) (d : Z) : Z := match o with Some z => z | None => d end.
Definition is_some (o : option Z) : bool := match o with Some _ => true | None => false end.

Definition locate_core (s : st) (r' c' : Z) (explicit : bool) : st :=
  set_pos (let s1 := if r' =? height s then set_bra s true else s in
           if explicit then set_ovf s1 false else s1) r' c' false.

Lemma locate_core_spec s r' c' e : INV s -> locate_accepts s r' c' = true ->
  let s' := locate_core s r' c' e in
  row s' = r' /\ col s' = c' /\ cells s' = cells s /\
  ovf s' = (if c' <? width s then false else if e then false else ovf s).
Proof.
  intros [[Hg Hgr] [Hr Hc]] Ha. cbv zeta. unfold locate_core. unfold locate_accepts in Ha.
  destruct ((r' =? height s) && barvis s) eqn:E1; [discriminate|]. cbn [negb andb] in Ha.
  destruct (if act s then rng (top s) (bot s) r' else rng 1 (height s) r') eqn:E2; [|discriminate].
  cbn [andb] in Ha.
  set (s2 := let s1 := if r' =? height s then set_bra s true else s in if e then set_ovf s1 false else s1).
  assert (Hg2 : geom_ok s2) by (unfold s2; cbv zeta; destruct e; destruct (r' =? height s); exact Hg).
  assert (Hw2 : width s2 = width s /\ height s2 = height s /\ top s2 = top s /\ bot s2 = bot s /\ cells s2 = cells s
                /\ ovf s2 = (if e then false else ovf s) /\ bra s2 = (if r' =? height s then true else bra s))
    by (unfold s2; cbv zeta; destruct e; destruct (r' =? height s); setters; proj; repeat split; reflexivity).
  destruct Hw2 as (W2 & H2 & T2 & B2 & C2 & O2 & A2).
  assert (Hpos : (bra s2 = true /\ r' = height s2) \/ (r' <> height s2 /\ top s2 <= r' <= bot s2)).
  { rewrite H2, T2, B2, A2. destruct (r' =? height s) eqn:E3.
    - left. split; [reflexivity|lia].
    - right. split; [lia|]. destruct Hg as (G1&G2&G3&G4&G5&G6). unfold rng in E2.
      destruct (act s); [lia|]. destruct (G6 eq_refl). lia. }
  assert (Hc2 : 1 <= c' <= width s2) by (rewrite W2; unfold rng in Ha; lia).
  destruct (set_pos_exact s2 r' c' Hg2 Hc2 Hpos) as (P1 & P2 & P3 & P4 & P5 & P6).
  split; [exact P1|]. split; [exact P2|]. split; [congruence|].
  rewrite P6, W2, O2. reflexivity.
Qed.

Lemma locate_unfold s r c cur :
  locate s r c cur =
    if negb (oint16 r && oint16 c && oint16 cur) then (s, Err 6)
    else if negb (locate_accepts s (odef r (row s)) (odef c (col s))) then (s, Err 5)
    else
      let s' := locate_core s (odef r (row s)) (odef c (col s)) (is_some c) in
      match cur with
      | Some v => if rng 0 1 v then (s', Ok tt) else (s', Err 5)
      | None => (s', Ok tt)
      end.
Proof.
  unfold locate, locate_accepts, locate_core, odef, is_some.
  destruct (negb (oint16 r && oint16 c && oint16 cur)); [reflexivity|].
  destruct ((_ =? height s) && barvis s); [reflexivity|]. cbn [negb andb].
  destruct (if act s then _ else _); [|reflexivity]. cbn [negb andb].
  destruct (rng 1 (width s) _); [|reflexivity]. cbn [negb].
  destruct c; reflexivity.
Qed.

Theorem locate_moves s r c cur : INV s ->
  oint16 r && oint16 c && oint16 cur = true ->
  locate_accepts s (odef r (row s)) (odef c (col s)) = true ->
  let s' := fst (locate s r c cur) in
  row s' = odef r (row s) /\ col s' = odef c (col s) /\ cells s' = cells s /\
  (c <> None -> ovf s' = false /\ csrlin s' = odef r (row s) /\ pos s' = odef c (col s)) /\
  (c = None -> ovf s' = if col s <? width s then false else ovf s) /\
  snd (locate s r c cur) =
    match cur with Some v => if rng 0 1 v then Ok tt else Err 5 | None => Ok tt end.
Proof.
  intros HI Hi Ha. cbv zeta. rewrite locate_unfold. rewrite Hi, Ha. cbn [negb]. cbv zeta.
  destruct (locate_core_spec s (odef r (row s)) (odef c (col s)) (is_some c) HI Ha) as (P1 & P2 & P3 & P4).
  set (s' := locate_core s (odef r (row s)) (odef c (col s)) (is_some c)) in *.
  assert (Hf : fst (match cur with
                    | Some v => if rng 0 1 v then (s', Ok tt) else (s', Err 5)
                    | None => (s', Ok tt) end) = s')
    by (destruct cur as [v|]; [destruct (rng 0 1 v)|]; reflexivity).
  rewrite Hf.
  split; [exact P1|]. split; [exact P2|]. split; [exact P3|].
  split; [|split].
  - intros Hne. assert (O3 : ovf s' = false).
    { rewrite P4. destruct c; [|congruence]. cbn [is_some]. destruct (_ <? _); reflexivity. }
    split; [exact O3|]. unfold csrlin, pos. rewrite O3. cbn [andb]. rewrite andb_false_r. rewrite P1, P2. auto.
  - intros ->. rewrite P4. cbn [is_some odef]. reflexivity.
  - destruct cur as [v|]; [destruct (rng 0 1 v)|]; reflexivity.
Qed.

Theorem locate_rejects s r c cur :
  (oint16 r && oint16 c && oint16 cur = false -> locate s r c cur = (s, Err 6)) /\
  (oint16 r && oint16 c && oint16 cur = true ->
   locate_accepts s (odef r (row s)) (odef c (col s)) = false -> locate s r c cur = (s, Err 5)).
Proof.
  split.
  - intros Hi. rewrite locate_unfold. rewrite Hi. reflexivity.
  - intros Hi Ha. rewrite locate_unfold. rewrite Hi, Ha. reflexivity.
Qed.

(* ---- SCREEN(row, col) *)
Theorem screen_fn_last s r c v : INV s -> screen_fn s r c = Ok v ->
  v = lastw (hist s) (if r =? 0 then 1 else r) (if c =? 0 then 1 else c).
Proof.
  intros [[Hg (Hs & Hw & Hgr)] _] E. unfold screen_fn in E.
  destruct (negb (int16 r && int16 c)); [discriminate|].
  destruct (negb (rng 0 (height s) r)) eqn:E1; [discriminate|].
  destruct (negb (rng 0 (width s) c)) eqn:E2; [discriminate|].
  destruct ((r =? 0) && (c =? 0)) eqn:E3; [discriminate|].
  destruct (act s && negb _); [discriminate|].
  assert (v = get_cell (cells s) (if r =? 0 then 1 else r) (if c =? 0 then 1 else c)) by congruence.
  subst v. apply Hgr; unfold rng in *; destruct Hg as (?&?&?); destruct (r =? 0) eqn:?; destruct (c =? 0) eqn:?; lia.
Qed.

Theorem screen_fn_defined s r c : INV s -> int16 r = true -> int16 c = true ->
  1 <= r <= height s -> 1 <= c <= width s -> (act s = true -> top s <= r <= bot s) ->
  screen_fn s r c = Ok (lastw (hist s) r c).
Proof.
  intros HI Hr Hc Hrr Hcc Hact. pose proof HI as [[Hg (Hs & Hw & Hgr)] _].
  unfold screen_fn. rewrite Hr, Hc. cbn [andb negb].
  replace (rng 0 (height s) r) with true by (unfold rng; lia).
  replace (rng 0 (width s) c) with true by (unfold rng; lia). cbn [negb].
  replace (r =? 0) with false by lia. replace (c =? 0) with false by lia. cbn [andb].
  replace (act s && negb (rng (top s) (bot s) r)) with false.
  - rewrite Hgr by auto. reflexivity.
  - destruct (act s); [|reflexivity]. specialize (Hact eq_refl). unfold rng. cbn [andb]. lia.
Qed.

(* ---- plain text placement: the text screen level *)
Theorem write_chars_layout s0 str : INV s0 -> bra s0 = false -> ovf s0 = false ->
  top s0 <= row s0 <= bot s0 -> nowrap_from s0 (row s0) ->
  let W := width s0 in
  let res := layout W (page0 s0) (row s0) (col s0) str in
  let g := fst res in let vr := fst (snd res) in let vc := snd (snd res) in
  let K := Z.max 0 (vr - bot s0) in
  let s := write_chars false s0 str in
  same_env s0 s /\
  row s = vr - K /\ top s0 <= row s <= bot s0 /\
  ((1 <= vc <= W /\ col s = vc /\ ovf s = false) \/ (vc = W + 1 /\ col s = W /\ ovf s = true)) /\
  forall R C, 1 <= R <= height s0 -> 1 <= C <= W ->
    get_cell (cells s) R C =
      if (top s0 <=? R) && (R <=? bot s0) then g (R + K) C else get_cell (cells s0) R C.
Proof.
  intros HI Hb Ho Hr Hn. cbv zeta.
  pose proof (rel_init s0 HI Hb Ho Hr Hn) as R0.
  assert (G0 : geom_ok s0) by apply HI.
  pose proof (rel_steps s0 G0 str s0 (page0 s0) (row s0) (col s0) R0) as [E1 E2 E3 [E4 E5] E6 E7 E8 E9].
  split; [exact E1|]. split; [exact E4|]. split; [exact E5|]. split; [exact E6|]. exact E7.
Qed.

(* closed form: character i of the string is shown at linear position lin(r0, c0) + i, i.e. in virtual row
   (L0 + i) / W and column (L0 + i) mod W + 1, shifted up by the number of scrolls K; rows outside the window
   keep their content; what scrolls in from below is blank *)
Theorem write_chars_placement s0 str : INV s0 -> bra s0 = false -> ovf s0 = false ->
  top s0 <= row s0 <= bot s0 -> nowrap_from s0 (row s0) ->
  let W := width s0 in
  let n := Z.of_nat (length str) in
  let L0 := lin W (row s0) (col s0) in
  let K := if n =? 0 then 0 else Z.max 0 ((L0 + n - 1) / W - bot s0) in
  let s := write_chars false s0 str in
  same_env s0 s /\
  forall R C, 1 <= R <= height s0 -> 1 <= C <= W ->
    get_cell (cells s) R C =
      if (top s0 <=? R) && (R <=? bot s0) then
        let p := lin W (R + K) C - L0 in
        if (0 <=? p) && (p <? n) then nth (Z.to_nat p) str 32 else page0 s0 (R + K) C
      else get_cell (cells s0) R C.
Proof.
  intros HI Hb Ho Hr Hn. cbv zeta.
  destruct (write_chars_layout s0 str HI Hb Ho Hr Hn) as (E1 & E2 & E3 & E4 & E5).
  pose proof HI as [[(G1&G2&G3&G4&G5&G6) _] [Hr0 Hc0]].
  destruct (layout_closed (width s0) str G2 (page0 s0) (row s0) (col s0) ltac:(lia)) as (L1 & L2 & L3 & L4).
  split; [exact E1|]. intros R C HR HC. rewrite (E5 R C HR HC).
  destruct ((top s0 <=? R) && (R <=? bot s0)) eqn:EW; [|reflexivity].
  set (vr := fst (snd (layout (width s0) (page0 s0) (row s0) (col s0) str))) in *.
  set (vc := snd (snd (layout (width s0) (page0 s0) (row s0) (col s0) str))) in *.
  assert (HK : Z.max 0 (vr - bot s0) =
               (if Z.of_nat (length str) =? 0 then 0
                else Z.max 0 ((lin (width s0) (row s0) (col s0) + Z.of_nat (length str) - 1) / width s0 - bot s0))).
  { destruct str as [|ch t].
    - specialize (L4 eq_refl). unfold vr. rewrite L4. cbn [fst length]. cbn. lia.
    - assert (Hne : ch :: t <> []) by congruence. specialize (L3 Hne).
      replace (Z.of_nat (length (ch :: t)) =? 0) with false by (cbn [length]; lia).
      fold vc in L3. fold vr vc in L2.
      assert (Hq : lin (width s0) vr (vc - 1) = lin (width s0) (row s0) (col s0) + Z.of_nat (length (ch :: t)) - 1)
        by (unfold lin in *; lia).
      assert (Hpos : 0 <= lin (width s0) (row s0) (col s0) + Z.of_nat (length (ch :: t)) - 1).
      { unfold lin. cbn [length]. nia. }
      destruct (lin_divmod (width s0) vr (vc - 1) _ ltac:(lia) ltac:(lia) Hpos Hq) as [Hvr _].
      rewrite <- Hvr. reflexivity. }
  rewrite HK. apply L1. exact HC.
Qed.

(* ---- plain text placement: Console.write and SCRN: (PRINT) level *)
Lemma console_char_plain s c : is_ctrl c = false -> console_char s c = write_char false s c.
Proof.
  unfold is_ctrl. intros H. repeat (apply orb_false_iff in H; destruct H as [H ?]).
  unfold console_char.
  repeat match goal with E : (c =? _) = false |- _ => rewrite E; clear E end.
  cbn [orb]. reflexivity.
Qed.

Lemma fold_console_plain str : forall s, Forall (fun c => is_ctrl c = false) str ->
  fold_left console_char str s = write_chars false s str.
Proof.
  induction str as [|c t IH]; intros s H; [reflexivity|].
  inversion H as [|? ? Hc Ht]; subst.
  change (fold_left console_char t (console_char s c) = write_chars false (write_char false s c) t).
  rewrite console_char_plain by auto. apply IH. auto.
Qed.

Theorem console_write_plain s str : Forall (fun c => is_ctrl c = false) str -> str <> [] ->
  console_write s str = write_chars false (set_wrap s (row s) false) str.
Proof.
  intros H Hne. unfold console_write. destruct str as [|c t]; [congruence|]. apply fold_console_plain. auto.
Qed.

Definition printable (c : Z) : bool := 32 <=? c.

Lemma printable_not_ctrl c : printable c = true -> is_ctrl c = false.
Proof. unfold printable, is_ctrl. intros H. lia. Qed.

Lemma swidth_printable str : Forall (fun c => printable c = true) str ->
  swidth str = Z.of_nat (length str) /\ has_newline str = false.
Proof.
  induction 1 as [|c t Hc Ht [IH1 IH2]]; [split; reflexivity|].
  unfold printable in Hc. cbn [swidth has_newline existsb length].
  replace ((c =? 13) || (c =? 10)) with false by lia.
  replace (c =? 8) with false by lia. replace (32 <=? c) with true by lia.
  fold (has_newline t). rewrite IH1, IH2. split; [lia|reflexivity].
Qed.

Lemma scrn_loop_plain str : forall s out, col s <= width s -> Forall (fun c => printable c = true) str ->
  scrn_loop s out str = console_write s (out ++ str).
Proof.
  induction str as [|c t IH]; intros s out Hc H.
  - cbn [scrn_loop]. rewrite app_nil_r. reflexivity.
  - inversion H as [|? ? Hp Ht]; subst. cbn [scrn_loop].
    replace (col s >? width s) with false by lia. cbn [fst snd].
    unfold printable in Hp. replace ((c =? 10) || (c =? 13)) with false by lia.
    rewrite IH by auto. rewrite <- app_assoc. reflexivity.
Qed.

(* PRINT of one string of printable characters: it goes through Console.write unchanged, after a line break when
   it does not fit on the rest of the line (and the cursor is neither in column 1 nor on the bottom row) *)
Theorem scrn_write_plain s str : INV s -> Forall (fun c => printable c = true) str -> str <> [] ->
  let breaks := negb (width s =? 255) && negb (row s =? height s) && negb (col s =? 1)
                && (col s - 1 + Z.of_nat (length str) >? width s) in
  scrn_write s str true =
    if breaks then console_write (console_write s [13]) str else console_write s str.
Proof.
  intros HI Hp Hne. cbv zeta. unfold scrn_write. destruct str as [|c t]; [congruence|].
  destruct (swidth_printable _ Hp) as [Hsw Hnl].
  unfold scrn_breaks. rewrite Hsw, Hnl. cbn [negb andb]. rewrite andb_true_r.
  match goal with |- scrn_loop (if ?b then _ else _) _ _ = _ => destruct b end.
  - rewrite scrn_loop_plain; auto. apply (console_write_INV s [13] HI).
  - rewrite scrn_loop_plain; auto. apply HI.
Qed.

(* a cleared screen has no wrap flags; Console.write of plain text on it is write_chars, so the placement
   theorem applies *)
Lemma wraps_at_set_wrap_false s r r' : length (wraps s) = zn (height s) -> 1 <= r <= height s -> 1 <= r' ->
  wraps_at s r' = false -> wraps_at (set_wrap s r false) r' = false.
Proof.
  intros Hl Hr Hr' Hw. destruct (Z.eq_dec r' r) as [->|Hne].
  - unfold wraps_at, set_wrap. setters. proj. rewrite upd_length. rewrite !pyidx_nonneg by lia.
    rewrite nth_upd by (rewrite Hl; unfold zn; lia). rewrite Nat.eqb_refl. reflexivity.
  - rewrite wraps_at_set_wrap_other by lia. exact Hw.
Qed.

Theorem console_write_placement s0 str : INV s0 -> bra s0 = false -> ovf s0 = false ->
  top s0 <= row s0 <= bot s0 -> (forall r, 1 <= r <= height s0 -> wraps_at s0 r = false) ->
  Forall (fun c => is_ctrl c = false) str -> str <> [] ->
  let W := width s0 in
  let n := Z.of_nat (length str) in
  let L0 := lin W (row s0) (col s0) in
  let K := Z.max 0 ((L0 + n - 1) / W - bot s0) in
  let s := console_write s0 str in
  same_env s0 s /\
  forall R C, 1 <= R <= height s0 -> 1 <= C <= W ->
    get_cell (cells s) R C =
      if (top s0 <=? R) && (R <=? bot s0) then
        let p := lin W (R + K) C - L0 in
        if (0 <=? p) && (p <? n) then nth (Z.to_nat p) str 32 else page0 s0 (R + K) C
      else get_cell (cells s0) R C.
Proof.
  intros HI Hb Ho Hr Hn Hp Hne. cbv zeta. rewrite console_write_plain by auto.
  set (s1 := set_wrap s0 (row s0) false).
  pose proof HI as [[Hg (Hs & Hwl & Hgr)] [Hr0 Hc0]].
  assert (HI1 : INV s1) by (apply INV_set_wrap; exact HI).
  assert (N1 : nowrap_from s1 (row s1)).
  { intros r Hrr. unfold s1 in *. unfold set_wrap in Hrr. setters. proj.
    apply wraps_at_set_wrap_false; auto; try lia. apply Hn. lia. }
  pose proof (write_chars_placement s1 str HI1 Hb Ho Hr N1) as P. cbv zeta in P.
  replace (Z.of_nat (length str) =? 0) with false in P by (destruct str; [congruence | cbn [length]; lia]).
  exact P.
Qed.

(* helper for the non-vacuity examples: a state whose wrap flag list is all false has no wrap flags *)
Lemma nth_repeat_false n k : nth n (repeat false k) false = false.
Proof. revert n; induction k as [|k IH]; intros [|n]; simpl; auto. Qed.

Lemma all_false_nowrap s k : wraps s = repeat false k -> forall r, wraps_at s r = false.
Proof. intros E r. unfold wraps_at. rewrite E. apply nth_repeat_false. Qed.

Lemma forallb_not_ctrl str : forallb (fun c => negb (is_ctrl c)) str = true ->
  Forall (fun c => is_ctrl c = false) str.
Proof.
  intros H. apply Forall_forall. intros c Hc. rewrite forallb_forall in H. specialize (H c Hc).
  destruct (is_ctrl c); [discriminate|reflexivity].
Qed.

(* ---- plain text placement from any state inside the window (stale continuation flags, pending overflow) *)
Theorem write_chars_layout_gen s0 str : INV s0 -> bra s0 = false -> top s0 <= row s0 <= bot s0 ->
  (ovf s0 = true -> col s0 = width s0) ->
  let W := width s0 in
  let res := layoutw W (flags0 s0) (page0 s0) (row s0) (if ovf s0 then W + 1 else col s0) str in
  let g := fst res in let vr := fst (snd res) in let vc := snd (snd res) in
  let K := Z.max 0 (vr - bot s0) in
  let s := write_chars false s0 str in
  same_env s0 s /\
  row s = vr - K /\ top s0 <= row s <= bot s0 /\
  ((1 <= vc <= W /\ col s = vc /\ ovf s = false) \/ (vc = W + 1 /\ col s = W /\ ovf s = true)) /\
  forall R C, 1 <= R <= height s0 -> 1 <= C <= W ->
    get_cell (cells s) R C =
      if (top s0 <=? R) && (R <=? bot s0) then g (R + K) C else get_cell (cells s0) R C.
Proof.
  intros HI Hb Hr Hov. cbv zeta.
  assert (G0 : geom_ok s0) by apply HI.
  assert (Hfl : forall v, v > bot s0 -> flags0 s0 v = false)
    by (intros v Hv; unfold flags0; replace (v <=? bot s0) with false by lia; reflexivity).
  pose proof (rel2_init s0 HI Hb Hr Hov) as R0.
  pose proof (rel2_steps s0 (flags0 s0) G0 Hfl str s0 (page0 s0) (row s0) _ R0) as [E1 E2 E3 [E4 E5] E6 E7 E8 E9].
  split; [exact E1|]. split; [exact E4|]. split; [exact E5|]. split; [exact E6|]. exact E7.
Qed.

(* closed form.  L0 is the linear position of the next character (a pending overflow counts as column W+1); the
   characters sit where they sit on a flag-free screen; K, the number of scrolls, is one more than there exactly
   when the last character landed in the last column of a row whose continuation flag was set *)
Theorem write_chars_placement_gen s0 str : INV s0 -> bra s0 = false -> top s0 <= row s0 <= bot s0 ->
  (ovf s0 = true -> col s0 = width s0) ->
  let W := width s0 in
  let n := Z.of_nat (length str) in
  let L0 := lin W (row s0) (if ovf s0 then W + 1 else col s0) in
  let q := L0 + n - 1 in
  let vl := q / W in
  let K := if n =? 0 then 0
           else Z.max 0 ((if (q mod W =? W - 1) && flags0 s0 vl then vl + 1 else vl) - bot s0) in
  let s := write_chars false s0 str in
  same_env s0 s /\
  forall R C, 1 <= R <= height s0 -> 1 <= C <= W ->
    get_cell (cells s) R C =
      if (top s0 <=? R) && (R <=? bot s0) then
        let p := lin W (R + K) C - L0 in
        if (0 <=? p) && (p <? n) then nth (Z.to_nat p) str 32 else page0 s0 (R + K) C
      else get_cell (cells s0) R C.
Proof.
  intros HI Hb Hr Hov. cbv zeta.
  destruct (write_chars_layout_gen s0 str HI Hb Hr Hov) as (E1 & E2 & E3 & E4 & E5).
  pose proof HI as [[(G1&G2&G3&G4&G5&G6) _] [Hr0 Hc0]].
  set (vc0 := if ovf s0 then width s0 + 1 else col s0) in *.
  assert (Hvc0 : 1 <= vc0 <= width s0 + 1) by (unfold vc0; destruct (ovf s0); lia).
  destruct (layout_closed (width s0) str G2 (page0 s0) (row s0) vc0 Hvc0) as (L1 & L2 & L3 & L4).
  split; [exact E1|]. intros R C HR HC. rewrite (E5 R C HR HC).
  destruct ((top s0 <=? R) && (R <=? bot s0)) eqn:EW; [|reflexivity].
  rewrite layoutw_grid by exact G2.
  set (vr := fst (snd (layoutw (width s0) (flags0 s0) (page0 s0) (row s0) vc0 str))) in *.
  assert (HK : Z.max 0 (vr - bot s0) =
    (if Z.of_nat (length str) =? 0 then 0
     else Z.max 0 ((if ((lin (width s0) (row s0) vc0 + Z.of_nat (length str) - 1) mod width s0 =? width s0 - 1)
                        && flags0 s0 ((lin (width s0) (row s0) vc0 + Z.of_nat (length str) - 1) / width s0)
                    then (lin (width s0) (row s0) vc0 + Z.of_nat (length str) - 1) / width s0 + 1
                    else (lin (width s0) (row s0) vc0 + Z.of_nat (length str) - 1) / width s0) - bot s0))).
  { destruct str as [|ch t].
    - unfold vr. cbn [layoutw fst snd length]. cbn. lia.
    - assert (Hne : ch :: t <> []) by congruence. specialize (L3 Hne).
      replace (Z.of_nat (length (ch :: t)) =? 0) with false by (cbn [length]; lia).
      unfold vr. rewrite (layoutw_pos (width s0) (flags0 s0) (ch :: t) G2 Hne _ _ _ Hvc0).
      set (v := fst (snd (layout (width s0) (page0 s0) (row s0) vc0 (ch :: t)))) in *.
      set (c := snd (snd (layout (width s0) (page0 s0) (row s0) vc0 (ch :: t)))) in *.
      replace (snd (layout (width s0) (page0 s0) (row s0) vc0 (ch :: t))) with (v, c)
        by (unfold v, c; destruct (snd (layout (width s0) (page0 s0) (row s0) vc0 (ch :: t))); reflexivity).
      assert (Hq : lin (width s0) v (c - 1) = lin (width s0) (row s0) vc0 + Z.of_nat (length (ch :: t)) - 1)
        by (unfold lin in *; lia).
      assert (Hpos : 0 <= lin (width s0) (row s0) vc0 + Z.of_nat (length (ch :: t)) - 1).
      { unfold lin. cbn [length]. nia. }
      destruct (lin_divmod (width s0) v (c - 1) _ ltac:(lia) ltac:(lia) Hpos Hq) as [Hv Hcm].
      rewrite <- Hv. unfold norm_pos. cbn [fst snd].
      replace (c =? width s0 + 1) with
        ((lin (width s0) (row s0) vc0 + Z.of_nat (length (ch :: t)) - 1) mod width s0 =? width s0 - 1) by lia.
      destruct (_ && flags0 s0 v); reflexivity. }
  rewrite HK. apply L1. exact HC.
Qed.

(* ---- Console.write of text over plain characters, CR, LF, TAB, BEL, HOME and CLS refines the reference terminal *)
Definition term0 (s0 : st) : term :=
  mkterm (get_cell (cells s0)) (wraps_at s0) (row s0) (if ovf s0 then width s0 + 1 else col s0).

Theorem console_write_refines s0 str : INV s0 -> bra s0 = false -> top s0 <= row s0 <= bot s0 ->
  (ovf s0 = true -> col s0 = width s0) -> Forall (fun c => term_char c = true) str ->
  let W := width s0 in let T := top s0 in let B := bot s0 in
  let s := console_write s0 str in
  let t := t_write W T B (term0 s0) str in
  same_env s0 s /\
  (forall R C, 1 <= R <= height s0 -> 1 <= C <= W -> get_cell (cells s) R C = tg t R C) /\
  row s = tr t /\ T <= row s <= B /\ csrlin s = t_csrlin W B t /\ pos s = t_pos W t.
Proof.
  intros HI Hb Hr Hov Hf. cbv zeta.
  pose proof HI as [[Hg Hgr] [Hr0 Hc0]].
  assert (R0 : trel s0 s0 (term0 s0)).
  { split.
    - constructor; auto.
      + apply same_env_refl.
      + split; auto.
    - unfold crel, term0. cbn [tc]. destruct (ovf s0) eqn:E; [right; auto | left; auto]. }
  pose proof (write_rel s0 Hg s0 (term0 s0) str Hf R0) as [[E1 E2 E3 [E4 E5] E6 E7] C].
  destruct (env_fields s0 _ E1) as (A1 & A2 & A3 & A4).
  split; [exact E1|]. split; [exact E6|]. split; [exact E4|]. split; [exact E5|].
  unfold csrlin, pos, t_csrlin, t_pos. rewrite A1, A4, <- E4.
  destruct Hg as (G1 & G2 & _).
  destruct C as [(C1 & C2 & C3) | (C1 & C2 & C3)]; rewrite C3; cbn [andb].
  - replace (tc (t_write (width s0) (top s0) (bot s0) (term0 s0) str) >? width s0) with false by lia.
    cbn [andb]. rewrite andb_false_r. split; [reflexivity | exact C2].
  - replace (tc (t_write (width s0) (top s0) (bot s0) (term0 s0) str) >? width s0) with true by lia.
    rewrite C2, Z.eqb_refl. cbn [andb]. split; reflexivity.
Qed.

(* ---- plain CLS without VIEW PRINT clears every row, the bottom row included (key bar off), cursor home *)
Theorem cls_plain_clears_all s : INV s -> act s = false -> barvis s = false ->
  let s' := fst (cls s None) in
  snd (cls s None) = Ok tt /\
  (forall R C, 1 <= R <= height s -> 1 <= C <= width s -> get_cell (cells s') R C = 32) /\
  row s' = 1 /\ col s' = 1 /\ ovf s' = false /\ same_env s s'.
Proof.
  intros [[Hg (Hsh & Hwl & Hgr)] _] Hact Hbar. cbv zeta.
  destruct Hg as (G1 & G2 & G3 & G4 & G5 & G6). destruct (G6 Hact) as [Ht Hb].
  unfold cls. cbn [oint16 negb andb orb]. rewrite andb_false_r. rewrite Hact. cbn [negb andb orb fst snd].
  unfold clear_all, set_pos.
  set (s1 := b_clear s 1 (height s) false).
  assert (F1 : width s1 = width s /\ height s1 = height s /\ top s1 = top s /\ bot s1 = bot s /\ barvis s1 = barvis s
               /\ cells s1 = clear_l (width s) (cells s) 1 (height s) /\ same_env s s1)
    by (unfold s1, b_clear; setters; proj; repeat split; reflexivity).
  destruct F1 as (F1 & F2 & F3 & F4 & F5 & F6 & F7).
  rewrite F1. replace (1 <? width s) with true by lia.
  set (X := set_rc (set_ovf s1 false) 1 1).
  assert (FX : row X = 1 /\ col X = 1 /\ width X = width s /\ height X = height s /\ top X = top s /\ bot X = bot s
               /\ ovf X = false /\ barvis X = barvis s /\ cells X = cells s1 /\ same_env s X)
    by (unfold X; setters; proj; repeat split; auto; apply F7).
  destruct FX as (X1 & X2 & X3 & X4 & X5 & X6 & X7 & X8 & X9 & X10).
  rewrite (wrap_scroll_stay true X) by (try lia; rewrite X1, X4; replace (1 =? height s) with false by lia; apply andb_false_r).
  unfold redraw_bar.
  set (X' := set_bra X false).
  assert (FX' : barvis (b_clear X' (height X') (height X') false) = false)
    by (unfold X', b_clear; setters; proj; congruence).
  rewrite FX'.
  split; [reflexivity|]. split.
  - intros R C HR HC. unfold X', b_clear. setters. proj. rewrite X3, X4, X9, F6.
    change (get_cell (clear_l (width s) (clear_l (width s) (cells s) 1 (height s)) (height s) (height s)) R C = 32).
    assert (Hl1 : length (clear_l (width s) (cells s) 1 (height s)) = zn (height s))
      by (unfold clear_l; rewrite mapi_from_length; apply Hsh).
    rewrite (get_clear _ (height s)) by auto.
    destruct (in_rows (height s) (height s) R); [reflexivity|].
    rewrite (get_clear _ (height s)) by (try apply Hsh; auto).
    unfold in_rows. replace ((1 <=? R) && (R <=? height s)) with true by lia. reflexivity.
  - unfold X', b_clear. setters. proj. repeat split; auto; apply X10.
Qed.
