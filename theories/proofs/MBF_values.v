(* MBF_values.v - the values.py entry points on BASIC values (type dispatch, promotions):
   comparisons (C06) and conversions (C03) stated with the exact value function value_scaled. *)
From Coq Require Import ZArith QArith List Bool Lia ZifyBool.
From PCB Require Import lib.Result lib.PyInt lib.Harness lib.MBFPrims gen.Gen_mbf model.MBF
  proofs.MBF_base proofs.MBF_compare proofs.MBF_convert proofs.MBF_round proofs.MBF_digits.
Import ListNotations.
Open Scope Z_scope.
Ltac Zify.zify_post_hook ::= Z.to_euclidean_division_equations.

Definition S184 : Z := 2 ^ 184.
Lemma S184_pos : 0 < S184. Proof. reflexivity. Qed.

Lemma bias_S : c_bias Single_consts = 152. Proof. reflexivity. Qed.
Lemma bias_D : c_bias Double_consts = 184. Proof. reflexivity. Qed.

(* ------------------------------------------------------------------------------------------------ *)
(* promotions are exact *)

Lemma zeros4 : zlen (zeros 4) = c_size Single_consts. Proof. reflexivity. Qed.
Lemma zeros8 : zlen (zeros 8) = c_size Double_consts. Proof. reflexivity. Qed.

Lemma to_double_exact v : value_ok v -> is_num v = true ->
  exists d, v_to_double v = Ok (VDbl d) /\ buf_ok Double_consts d /\ f_sval Double_consts d = value_scaled v.
Proof.
  intros Hok Hn. destruct v as [b|b|b|s]; try discriminate; cbn [v_to_double value_scaled value_ok] in *.
  - destruct Hok as [Hl Hb]. pose proof (i_val_range b Hl Hb) as Hr.
    destruct (from_int16_spec Double_consts (zeros 8) (i_val b) Double_ok zeros8 Hr) as (d & H1 & H2 & H3).
    exists d. rewrite H1. cbn [rmap bind]. rewrite H3, bias_D. auto.
  - destruct (from_single_spec b Hok) as [H1 H2]. exists (d_from_single b). auto.
  - exists b. auto.
Qed.

Lemma to_single_exact hard v : value_ok v -> (exists b, v = VInt b \/ v = VSng b) ->
  exists s, v_to_single hard v = Ok (VSng s) /\ buf_ok Single_consts s /\
    f_sval Single_consts s * 2 ^ 32 = value_scaled v.
Proof.
  intros Hok [b [-> | ->]]; cbn [v_to_single value_scaled value_ok] in *.
  - destruct Hok as [Hl Hb]. pose proof (i_val_range b Hl Hb) as Hr.
    destruct (from_int16_spec Single_consts (zeros 4) (i_val b) Single_ok zeros4 Hr) as (s & H1 & H2 & H3).
    exists s. rewrite H1. cbn [rmap bind]. rewrite H3, bias_S. split; [reflexivity|]. split; [assumption|].
    rewrite <- Z.mul_assoc. f_equal.
  - exists b. auto.
Qed.

(* ------------------------------------------------------------------------------------------------ *)
(* comparisons: values._bool_gt / _bool_eq after match_types *)

Theorem v_gt_bool_spec x y : value_ok x -> value_ok y -> is_num x = true -> is_num y = true ->
  v_gt_bool x y = Ok (value_scaled x >? value_scaled y).
Proof.
  intros Hx Hy Nx Ny.
  assert (Hdbl : forall x y, value_ok x -> value_ok y -> is_num x = true -> is_num y = true ->
    (do x' <- v_to_double x; do y' <- v_to_double y; Ok (mbf_gt Double_consts (v_bytes x') (v_bytes y')))
    = Ok (value_scaled x >? value_scaled y)).
  { intros x0 y0 Hx0 Hy0 Nx0 Ny0.
    destruct (to_double_exact x0 Hx0 Nx0) as (dx & Ex & Okx & Vx).
    destruct (to_double_exact y0 Hy0 Ny0) as (dy & Ey & Oky & Vy).
    rewrite Ex, Ey. cbn [bind v_bytes]. rewrite mbf_gt_spec by (auto using Double_ok). rewrite Vx, Vy. reflexivity. }
  assert (Hsng : forall x y, value_ok x -> value_ok y ->
    (exists b, x = VInt b \/ x = VSng b) -> (exists b, y = VInt b \/ y = VSng b) ->
    (do x' <- v_to_single true x; do y' <- v_to_single true y; Ok (mbf_gt Single_consts (v_bytes x') (v_bytes y')))
    = Ok (value_scaled x >? value_scaled y)).
  { intros x0 y0 Hx0 Hy0 Tx Ty.
    destruct (to_single_exact true x0 Hx0 Tx) as (sx & Ex & Okx & Vx).
    destruct (to_single_exact true y0 Hy0 Ty) as (sy & Ey & Oky & Vy).
    rewrite Ex, Ey. cbn [bind v_bytes]. rewrite mbf_gt_spec by (auto using Single_ok). rewrite <- Vx, <- Vy.
    f_equal. change (2 ^ 32) with 4294967296. lia. }
  destruct x as [a|a|a|a], y as [b|b|b|b]; try discriminate; cbn [v_gt_bool].
  - cbn [value_ok] in Hx, Hy. destruct Hx, Hy. rewrite int_gt_spec by assumption. cbn [value_scaled].
    f_equal. change (2 ^ 184) with S184. pose proof S184_pos. nia.
  - apply Hsng; eauto.
  - apply Hdbl; auto.
  - apply Hsng; eauto.
  - apply Hsng; eauto.
  - apply Hdbl; auto.
  - apply Hdbl; auto.
  - apply Hdbl; auto.
  - apply Hdbl; auto.
Qed.

Theorem v_eq_bool_spec x y : value_ok x -> value_ok y -> is_num x = true -> is_num y = true ->
  v_eq_bool x y = Ok (value_scaled x =? value_scaled y).
Proof.
  intros Hx Hy Nx Ny.
  assert (Hdbl : forall x y, value_ok x -> value_ok y -> is_num x = true -> is_num y = true ->
    (do x' <- v_to_double x; do y' <- v_to_double y; Ok (mbf_eq Double_consts (v_bytes x') (v_bytes y')))
    = Ok (value_scaled x =? value_scaled y)).
  { intros x0 y0 Hx0 Hy0 Nx0 Ny0.
    destruct (to_double_exact x0 Hx0 Nx0) as (dx & Ex & Okx & Vx).
    destruct (to_double_exact y0 Hy0 Ny0) as (dy & Ey & Oky & Vy).
    rewrite Ex, Ey. cbn [bind v_bytes]. rewrite mbf_eq_spec by (auto using Double_ok). rewrite Vx, Vy. reflexivity. }
  assert (Hsng : forall x y, value_ok x -> value_ok y ->
    (exists b, x = VInt b \/ x = VSng b) -> (exists b, y = VInt b \/ y = VSng b) ->
    (do x' <- v_to_single true x; do y' <- v_to_single true y; Ok (mbf_eq Single_consts (v_bytes x') (v_bytes y')))
    = Ok (value_scaled x =? value_scaled y)).
  { intros x0 y0 Hx0 Hy0 Tx Ty.
    destruct (to_single_exact true x0 Hx0 Tx) as (sx & Ex & Okx & Vx).
    destruct (to_single_exact true y0 Hy0 Ty) as (sy & Ey & Oky & Vy).
    rewrite Ex, Ey. cbn [bind v_bytes]. rewrite mbf_eq_spec by (auto using Single_ok). rewrite <- Vx, <- Vy.
    f_equal. change (2 ^ 32) with 4294967296. lia. }
  destruct x as [a|a|a|a], y as [b|b|b|b]; try discriminate; cbn [v_eq_bool].
  - cbn [value_ok] in Hx, Hy. destruct Hx, Hy. rewrite int_eq_spec by assumption. cbn [value_scaled].
    f_equal. change (2 ^ 184) with S184. pose proof S184_pos. nia.
  - apply Hsng; eauto.
  - apply Hdbl; auto.
  - apply Hsng; eauto.
  - apply Hsng; eauto.
  - apply Hdbl; auto.
  - apply Hdbl; auto.
  - apply Hdbl; auto.
  - apply Hdbl; auto.
Qed.

(* the rational value and its order *)
Lemma value_Q_lt x y : (value_Q x < value_Q y)%Q <-> value_scaled x < value_scaled y.
Proof. unfold value_Q, Qlt. cbn [Qnum Qden]. split; intro H; nia. Qed.
Lemma value_Q_eq x y : (value_Q x == value_Q y)%Q <-> value_scaled x = value_scaled y.
Proof. unfold value_Q, Qeq. cbn [Qnum Qden]. split; intro H; nia. Qed.

(* ------------------------------------------------------------------------------------------------ *)
(* the six relational operators *)

Definition num_pair_ok (x y : value) : Prop :=
  value_ok x /\ value_ok y /\ is_num x = true /\ is_num y = true.

Lemma operators_spec x y : num_pair_ok x y ->
  let vx := value_scaled x in let vy := value_scaled y in
  v_eq x y = Ok (from_bool (vx =? vy)) /\ v_neq x y = Ok (from_bool (negb (vx =? vy))) /\
  v_gt x y = Ok (from_bool (vx >? vy)) /\ v_lt x y = Ok (from_bool (vx <? vy)) /\
  v_gte x y = Ok (from_bool (vx >=? vy)) /\ v_lte x y = Ok (from_bool (vx <=? vy)).
Proof.
  intros (Hx & Hy & Nx & Ny). cbv zeta.
  unfold v_eq, v_neq, v_gt, v_lt, v_gte, v_lte.
  rewrite (v_eq_bool_spec x y), (v_gt_bool_spec x y), (v_gt_bool_spec y x) by assumption.
  cbn [rmap bind].
  repeat split; f_equal; f_equal; lia.
Qed.

Lemma from_bool_val b : i_val (v_bytes (from_bool b)) = if b then -1 else 0.
Proof. destruct b; reflexivity. Qed.

Lemma zero_encoding_value C b : f_exp b = 0 -> f_sval C b = 0.
Proof. intros H. unfold f_sval, f_zero. rewrite H. reflexivity. Qed.

(* ------------------------------------------------------------------------------------------------ *)
(* C03: CINT / FIX / INT on values *)

Lemma rha_scale p q c : 0 < q -> 0 < c -> round_half_away (p * c) (q * c) = round_half_away p q.
Proof.
  intros Hq Hc. unfold round_half_away. rewrite Z.sgn_mul, (Z.sgn_pos c), Z.mul_1_r by lia.
  rewrite Z.abs_mul, (Z.abs_eq c) by lia. f_equal.
  replace (2 * (Z.abs p * c) + q * c) with ((2 * Z.abs p + q) * c) by lia.
  replace (2 * (q * c)) with (2 * q * c) by lia.
  apply Z.div_mul_cancel_r; lia.
Qed.

Lemma rha_int n q : 0 < q -> round_half_away (n * q) q = n.
Proof.
  intros Hq. unfold round_half_away. rewrite Z.sgn_mul, (Z.sgn_pos q), Z.mul_1_r by lia.
  rewrite Z.abs_mul, (Z.abs_eq q) by lia.
  replace ((2 * (Z.abs n * q) + q) / (2 * q)) with (Z.abs n).
  - rewrite Z.mul_comm. apply Z.abs_sgn.
  - apply (Z.div_unique _ _ _ q); lia.
Qed.

(* what round_half_away means: the integer nearest to p/q, exact halves going away from zero *)
Lemma round_half_away_char p q : 0 < q ->
  let r := round_half_away p q in
  2 * q * Z.abs r - q <= 2 * Z.abs p < 2 * q * Z.abs r + q /\ 0 <= r * p.
Proof.
  intros Hq. cbv zeta. unfold round_half_away.
  set (A := Z.abs p). assert (HA : 0 <= A) by apply Z.abs_nonneg.
  set (k := (2 * A + q) / (2 * q)). assert (Hk : 0 <= k) by (apply Z.div_pos; lia).
  assert (Hdm : 2 * q * k <= 2 * A + q < 2 * q * k + 2 * q).
  { unfold k. pose proof (Z.div_mod (2 * A + q) (2 * q) ltac:(lia)).
    pose proof (Z.mod_pos_bound (2 * A + q) (2 * q) ltac:(lia)). lia. }
  destruct (Z.sgn_spec p) as [[Hp Hs]|[[Hp Hs]|[Hp Hs]]]; rewrite Hs.
  - rewrite Z.mul_1_l, (Z.abs_eq k) by lia. split; [lia|nia].
  - subst p. rewrite Z.mul_0_l. cbn [Z.abs]. unfold A in *. cbn [Z.abs] in *. lia.
  - replace (-1 * k) with (- k) by lia. rewrite Z.abs_opp, (Z.abs_eq k) by lia. split; [lia|nia].
Qed.

Lemma i_encode_i_val b : zlen b = 2 -> bytes_ok b -> i_encode (i_val b) = b.
Proof.
  intros Hl Hb. destruct (int_buf b Hl Hb) as (b0 & b1 & -> & H0 & H1). rewrite i_val_2.
  unfold i_encode. unfold byte_ok in *.
  replace ((if b0 + 256 * b1 <? 32768 then b0 + 256 * b1 else b0 + 256 * b1 - 65536) mod 65536)
    with (le_decode [b0; b1]).
  - apply (le_encode_decode [b0; b1]). exact Hb.
  - cbn [le_decode]. destruct (b0 + 256 * b1 <? 32768) eqn:E; lia.
Qed.

Lemma i_encode_ok n : zlen (i_encode n) = 2 /\ bytes_ok (i_encode n).
Proof. unfold i_encode. split; [reflexivity | apply le_encode_bytes]. Qed.

Lemma i_val_i_encode n : -32768 <= n <= 32767 -> i_val (i_encode n) = n.
Proof.
  intros Hn. unfold i_val, i_encode. rewrite le_decode_encode by (change (256 ^ Z.of_nat 2) with 65536; lia).
  destruct (n mod 65536 <? 32768) eqn:E; lia.
Qed.

Lemma i_uval_i_encode n : le_decode (i_encode n) = n mod 65536.
Proof. unfold i_encode. apply le_decode_encode. change (256 ^ Z.of_nat 2) with 65536. lia. Qed.

(* CINT: round half away from zero of the exact value; Overflow exactly outside -32768..32767 *)
Theorem v_cint_spec v : value_ok v -> is_num v = true ->
  let r := round_half_away (value_scaled v) S184 in
  v_cint v = if (-32768 <=? r) && (r <=? 32767) then Ok (VInt (i_encode r)) else Err err_overflow.
Proof.
  intros Hok Hn. cbv zeta. unfold v_cint.
  destruct v as [b|b|b|s]; try discriminate; cbn [v_to_integer value_scaled value_ok] in *.
  - destruct Hok as [Hl Hb]. change (2 ^ 184) with S184. rewrite rha_int by apply S184_pos.
    pose proof (i_val_range b Hl Hb). rewrite i_encode_i_val by assumption.
    destruct (Z.leb_spec (-32768) (i_val b)); [|lia]. destruct (Z.leb_spec (i_val b) 32767); [|lia]. reflexivity.
  - rewrite to_int_spec by (auto using Single_ok). rewrite bias_S.
    change S184 with (2 ^ 152 * 2 ^ 32). rewrite rha_scale by reflexivity.
    unfold i_from_int. cbn [andb]. destruct (_ && _); reflexivity.
  - rewrite to_int_spec by (auto using Double_ok). rewrite bias_D. change (2 ^ 184) with S184.
    unfold i_from_int. cbn [andb]. destruct (_ && _); reflexivity.
Qed.

(* FIX: truncation toward zero; INT: floor.  The result has the type of the argument. *)
Theorem v_fix_spec v : value_ok v -> is_num v = true ->
  exists v', v_fix v = Ok v' /\ value_ok v' /\ v_tag v' = v_tag v /\
    value_scaled v' = trunc_div (value_scaled v) S184 * S184.
Proof.
  intros Hok Hn. unfold trunc_div.
  destruct v as [b|b|b|s]; try discriminate; cbn [v_fix value_scaled value_ok v_tag] in *.
  - exists (VInt b). split; [reflexivity|]. split; [assumption|]. split; [reflexivity|].
    cbn [value_scaled]. change (2 ^ 184) with S184. rewrite Z.quot_mul by (pose proof S184_pos; lia). reflexivity.
  - destruct (itrunc_spec Single_consts b Single_ok Hok) as (b' & H1 & H2 & H3).
    exists (VSng b'). rewrite H1. split; [reflexivity|]. split; [assumption|]. split; [reflexivity|].
    cbn [value_scaled]. rewrite H3, bias_S. change S184 with (2 ^ 152 * 2 ^ 32).
    rewrite Z.quot_mul_cancel_r by (try discriminate; apply Z.pow_nonzero; lia). lia.
  - destruct (itrunc_spec Double_consts b Double_ok Hok) as (b' & H1 & H2 & H3).
    exists (VDbl b'). rewrite H1. split; [reflexivity|]. split; [assumption|]. split; [reflexivity|].
    cbn [value_scaled]. rewrite H3, bias_D. reflexivity.
Qed.

Theorem v_int_spec v : value_ok v -> is_num v = true ->
  exists v', v_int v = Ok v' /\ value_ok v' /\ v_tag v' = v_tag v /\
    value_scaled v' = floor_div (value_scaled v) S184 * S184.
Proof.
  intros Hok Hn. unfold floor_div.
  destruct v as [b|b|b|s]; try discriminate; cbn [v_int value_scaled value_ok v_tag] in *.
  - exists (VInt b). split; [reflexivity|]. split; [assumption|]. split; [reflexivity|].
    cbn [value_scaled]. change (2 ^ 184) with S184. rewrite Z.div_mul by (pose proof S184_pos; lia). reflexivity.
  - destruct (ifloor_spec Single_consts b Single_ok Hok) as (b' & H1 & H2 & H3).
    exists (VSng b'). rewrite H1. split; [reflexivity|]. split; [assumption|]. split; [reflexivity|].
    cbn [value_scaled]. rewrite H3, bias_S. change S184 with (2 ^ 152 * 2 ^ 32).
    rewrite Z.div_mul_cancel_r by (try discriminate; apply Z.pow_nonzero; lia). lia.
  - destruct (ifloor_spec Double_consts b Double_ok Hok) as (b' & H1 & H2 & H3).
    exists (VDbl b'). rewrite H1. split; [reflexivity|]. split; [assumption|]. split; [reflexivity|].
    cbn [value_scaled]. rewrite H3, bias_D. reflexivity.
Qed.

(* ------------------------------------------------------------------------------------------------ *)
(* C03: MKI$ MKS$ MKD$ / CVI CVS CVD are byte-identical inverses *)

Lemma firstn_zlen (s : list Z) n : zlen s = Z.of_nat n -> firstn n s = s.
Proof. intros H. replace n with (length s) by (unfold zlen in H; lia). apply firstn_all. Qed.

Theorem mk_cv_inverse hard s :
  (zlen s = 2 -> v_cvi (VStr s) = Ok (VInt s) /\ v_mki (VInt s) = Ok (VStr s)) /\
  (zlen s = 4 -> v_cvs (VStr s) = Ok (VSng s) /\ v_mks hard (VSng s) = Ok (VStr s)) /\
  (zlen s = 8 -> v_cvd (VStr s) = Ok (VDbl s) /\ v_mkd (VDbl s) = Ok (VStr s)).
Proof.
  repeat split; try reflexivity; unfold v_cvi, v_cvs, v_cvd, v_cv; rewrite H; cbn [Z.ltb Z.compare Pos.compare Pos.compare_cont Z.of_nat Pos.of_succ_nat Pos.succ];
    rewrite firstn_zlen by (rewrite H; reflexivity); reflexivity.
Qed.

(* CVx of a longer string reads its first bytes; of a shorter one: Illegal function call *)
Theorem cv_prefix s :
  (2 <= zlen s -> v_cvi (VStr s) = Ok (VInt (firstn 2 s))) /\ (zlen s < 2 -> v_cvi (VStr s) = Err err_ifc) /\
  (4 <= zlen s -> v_cvs (VStr s) = Ok (VSng (firstn 4 s))) /\ (zlen s < 4 -> v_cvs (VStr s) = Err err_ifc) /\
  (8 <= zlen s -> v_cvd (VStr s) = Ok (VDbl (firstn 8 s))) /\ (zlen s < 8 -> v_cvd (VStr s) = Err err_ifc).
Proof.
  unfold v_cvi, v_cvs, v_cvd, v_cv.
  repeat split; intros H;
    match goal with |- context [zlen s <? ?k] => destruct (Z.ltb_spec (zlen s) k) end; try reflexivity; lia.
Qed.

(* ------------------------------------------------------------------------------------------------ *)
(* C03: single -> double is exact *)

Theorem v_cdbl_exact v : value_ok v -> is_num v = true ->
  exists d, v_cdbl v = Ok (VDbl d) /\ buf_ok Double_consts d /\ value_scaled (VDbl d) = value_scaled v.
Proof. exact (to_double_exact v). Qed.

(* ------------------------------------------------------------------------------------------------ *)
(* C03: double -> single *)

(* the rounding of the 56-bit mantissa X to 24 bits as the code performs it: the low 24 bits are dropped,
   then the next 8 bits (carry byte) are rounded to nearest, an exact 0x80 going to even *)
Lemma narrow_rounding X : 2 ^ 55 <= X < 2 ^ 56 ->
  let hi := X / 2 ^ 32 in let rem := X mod 2 ^ 32 in let r := round_even8 (X / 2 ^ 24) in
  2 ^ 23 <= hi < 2 ^ 24 /\ hi * 2 ^ 32 <= X < (hi + 1) * 2 ^ 32 /\ (r = hi \/ r = hi + 1) /\
  (rem = 0 -> r = hi) /\ (rem < 2 ^ 31 -> r = hi) /\ (2 ^ 31 + 2 ^ 24 <= rem -> r = hi + 1) /\
  (2 ^ 31 <= rem < 2 ^ 31 + 2 ^ 24 -> r = if Z.odd hi then hi + 1 else hi).
Proof.
  intros HX. cbv zeta. unfold round_even8.
  change (2 ^ 55) with 36028797018963968 in *. change (2 ^ 56) with 72057594037927936 in *.
  change (2 ^ 32) with 4294967296. change (2 ^ 24) with 16777216. change (2 ^ 31) with 2147483648.
  change (2 ^ 23) with 8388608.
  assert (H1 : X / 16777216 / 256 = X / 4294967296) by lia.
  assert (H2 : (X / 16777216) mod 256 = (X mod 4294967296) / 16777216) by lia.
  rewrite H1, H2. set (hi := X / 4294967296). set (rem := X mod 4294967296).
  assert (Hrem : 0 <= rem < 4294967296) by (unfold rem; lia).
  assert (Hx : X = 4294967296 * hi + rem) by (unfold hi, rem; lia).
  set (low := rem / 16777216). assert (Hlow : 16777216 * low <= rem < 16777216 * low + 16777216) by (unfold low; lia).
  split; [lia|]. split; [lia|].
  destruct (128 <? low) eqn:E1; destruct (low =? 128) eqn:E2; cbn [orb andb];
    try (destruct (Z.odd hi)); repeat split; intros; lia.
Qed.

Theorem v_csng_double_spec hard d : buf_ok Double_consts d -> f_exp d <> 0 ->
  let X := f_man Double_consts d in let r := round_even8 (X / 2 ^ 24) in
  let neg := f_neg Double_consts d in
  value_scaled (VDbl d) = (if neg then -1 else 1) * X * 2 ^ f_exp d /\
  (~ (r = 2 ^ 24 /\ f_exp d = 255) ->
     exists s, v_csng hard (VDbl d) = Ok (VSng s) /\ buf_ok Single_consts s /\
       value_scaled (VSng s) = (if neg then -1 else 1) * (r * 2 ^ 32) * 2 ^ f_exp d) /\
  (r = 2 ^ 24 /\ f_exp d = 255 ->
     v_csng hard (VDbl d) = if hard then Err err_overflow else Ok (VSng (f_max Single_consts neg))).
Proof.
  intros Hd He. cbv zeta.
  pose proof (f_man_bound Double_consts d Double_ok) as HX. rewrite mbits_Double in HX.
  change (56 - 1) with 55 in HX.
  pose proof (f_exp_bound Double_consts d Double_ok Hd) as Heb.
  destruct (narrow_rounding _ HX) as (Hhi & _ & Hr & _). cbv zeta in Hr.
  set (X := f_man Double_consts d) in *. set (r := round_even8 (X / 2 ^ 24)) in *.
  assert (Hrr : 2 ^ 23 <= r <= 2 ^ 24) by lia.
  split.
  { cbn [value_scaled]. unfold f_sval, f_zero. destruct (Z.eqb_spec (f_exp d) 0); [contradiction|]. reflexivity. }
  unfold v_csng, v_to_single. rewrite to_single_spec by assumption.
  destruct (Z.eqb_spec (f_exp d) 0); [contradiction|].
  unfold norm_result. rewrite mbits_Single. fold X. fold r.
  rewrite is_negative_spec by (auto using Double_ok).
  split.
  - intros Hno. destruct (Z.eqb_spec r (2 ^ 24)) as [Er|Er].
    + assert (f_exp d + 1 <= 255) by lia.
      destruct (Z.gtb_spec (f_exp d + 1) 255); [lia|]. cbn [float_safe rmap bind].
      eexists. split; [reflexivity|].
      split; [apply f_encode_ok; [exact Single_ok | unfold byte_ok; lia | rewrite mbits_Single; change (24 - 1) with 23; lia]|].
      cbn [value_scaled]. rewrite f_encode_sval by (try exact Single_ok; rewrite ?mbits_Single; change (24 - 1) with 23; lia).
      rewrite Er. rewrite pow2_S by lia. change (24 - 1) with 23. change (2 ^ 24) with (2 * 2 ^ 23). lia.
    + destruct (Z.gtb_spec (f_exp d) 255); [lia|]. cbn [float_safe rmap bind].
      eexists. split; [reflexivity|].
      split; [apply f_encode_ok; [exact Single_ok | unfold byte_ok; lia | rewrite mbits_Single; change (24 - 1) with 23; lia]|].
      cbn [value_scaled]. rewrite f_encode_sval by (try exact Single_ok; rewrite ?mbits_Single; change (24 - 1) with 23; lia).
      lia.
  - intros [Er E255]. destruct (Z.eqb_spec r (2 ^ 24)); [|contradiction].
    rewrite E255. change (255 + 1 >? 255) with true. cbv iota. cbn [float_safe].
    destruct hard; reflexivity.
Qed.

(* ------------------------------------------------------------------------------------------------ *)
(* C03: HEX$ / OCT$ and &H / &O *)

Theorem hex_roundtrip b : zlen b = 2 -> bytes_ok b ->
  exists ds, v_hex (VInt b) = Ok (VStr ds) /\ ds = fmt_base 16 (i_uval b) /\ v_from_hex ds = Ok (VInt b).
Proof.
  intros Hl Hb. exists (fmt_base 16 (i_uval b)). split; [reflexivity|]. split; [reflexivity|].
  unfold v_from_hex. pose proof (le_decode_bound b Hb) as Hr. rewrite Hl in Hr. change (256 ^ 2) with 65536 in Hr.
  destruct (fmt_base 16 (i_uval b)) as [|c r] eqn:E; [exfalso; exact (fmt_base_nonempty 16 _ E)|].
  rewrite <- E. unfold i_uval. rewrite py_int_fmt by lia. cbn [bind].
  unfold i_from_int. cbn [andb]. destruct (Z.ltb_spec (le_decode b) 0); [lia|].
  destruct (Z.leb_spec 0 (le_decode b)); [|lia]. destruct (Z.leb_spec (le_decode b) 65535); [|lia].
  cbn [andb from_repr_safe rmap bind]. f_equal. f_equal.
  unfold i_encode. rewrite Z.mod_small by lia.
  replace 2%nat with (length b) by (unfold zlen in Hl; lia). apply le_encode_decode. exact Hb.
Qed.

Theorem oct_roundtrip b : zlen b = 2 -> bytes_ok b ->
  exists ds, v_oct (VInt b) = Ok (VStr ds) /\ v_from_oct ds = Ok (VInt b).
Proof.
  intros Hl Hb. unfold v_oct. cbn [v_to_integer bind v_bytes]. unfold i_to_oct, int_is_zero.
  pose proof (le_decode_bound b Hb) as Hr. rewrite Hl in Hr. change (256 ^ 2) with 65536 in Hr.
  destruct (list_Z_eqb b [0; 0]) eqn:Ez.
  - apply list_Z_eqb_eq in Ez. subst b. exists [48]. split; reflexivity.
  - exists (fmt_base 8 (i_uval b)). split; [reflexivity|].
    unfold v_from_oct.
    destruct (fmt_base 8 (i_uval b)) as [|c r] eqn:E; [exfalso; exact (fmt_base_nonempty 8 _ E)|].
    rewrite <- E. unfold i_uval. rewrite py_int_fmt by lia. cbn [bind].
    unfold i_from_int. cbn [andb]. destruct (Z.ltb_spec (le_decode b) 0); [lia|].
    destruct (Z.leb_spec 0 (le_decode b)); [|lia]. destruct (Z.leb_spec (le_decode b) 65535); [|lia].
    cbn [andb from_repr_safe rmap bind]. f_equal. f_equal.
    unfold i_encode. rewrite Z.mod_small by lia.
    replace 2%nat with (length b) by (unfold zlen in Hl; lia). apply le_encode_decode. exact Hb.
Qed.

(* HEX$/OCT$ of a float: the rounded value must lie in -65536..65535 (see design_notes/C03.md, D03a) *)
Theorem v_hex_int n : 0 <= n < 65536 ->
  v_hex (VInt (i_encode n)) = Ok (VStr (fmt_base 16 n)) /\ v_oct (VInt (i_encode n)) = Ok (VStr (if n =? 0 then [48] else fmt_base 8 n)).
Proof.
  intros Hn. unfold v_hex, v_oct. cbn [v_to_integer bind v_bytes]. unfold i_to_hex, i_to_oct, i_uval.
  rewrite i_uval_i_encode, Z.mod_small by lia. split; [reflexivity|].
  unfold int_is_zero.
  destruct (list_Z_eqb (i_encode n) [0; 0]) eqn:E.
  - apply list_Z_eqb_eq in E. apply (f_equal le_decode) in E. rewrite i_uval_i_encode, Z.mod_small in E by lia.
    cbn in E. subst n. reflexivity.
  - destruct (Z.eqb_spec n 0) as [->|]; [discriminate E | reflexivity].
Qed.

(* ------------------------------------------------------------------------------------------------ *)
(* C03: value-level error bound of CSNG on doubles: at most (1/2 + 1/256) ulp of the result's binade *)

Theorem v_csng_error_bound d s : buf_ok Double_consts d -> v_csng true (VDbl d) = Ok (VSng s) ->
  256 * Z.abs (value_scaled (VSng s) - value_scaled (VDbl d)) <= 129 * (2 ^ 32 * 2 ^ f_exp d).
Proof.
  intros Hd Hres.
  pose proof (f_exp_bound Double_consts d Double_ok Hd) as Heb.
  assert (HE : 0 < 2 ^ f_exp d) by (apply pow2_pos; lia).
  destruct (Z.eq_dec (f_exp d) 0) as [E0|E0].
  - unfold v_csng, v_to_single in Hres. rewrite (to_single_spec d Hd), E0 in Hres.
    cbn in Hres. inversion Hres; subst s.
    cbn [value_scaled]. rewrite (zero_encoding_value Double_consts d E0).
    change (f_sval Single_consts [0; 0; 0; 0]) with 0. change (2 ^ 32) with 4294967296.
    replace (0 * 4294967296 - 0) with 0 by lia. cbn [Z.abs]. nia.
  - destruct (v_csng_double_spec true d Hd E0) as (Hvd & Hok & Hov). cbv zeta in Hvd, Hok, Hov.
    pose proof (f_man_bound Double_consts d Double_ok) as HX. rewrite mbits_Double in HX. change (56 - 1) with 55 in HX.
    destruct (narrow_rounding _ HX) as (Hhi & Hbr & Hr & _ & Hlo & Hup & Hband). cbv zeta in *.
    set (X := f_man Double_consts d) in *. set (r := round_even8 (X / 2 ^ 24)) in *.
    destruct (Z.eq_dec r (2 ^ 24)) as [Er|Er]; [destruct (Z.eq_dec (f_exp d) 255) as [E255|E255]|].
    + rewrite (Hov (conj Er E255)) in Hres. discriminate.
    + destruct (Hok ltac:(intros [_ H]; contradiction)) as (s' & Hs' & _ & Hvs).
      rewrite Hs' in Hres. inversion Hres; subst s'. rewrite Hvs, Hvd. clear Hvs Hvd Hok Hov Hres.
      assert (Hm : 256 * Z.abs (r * 2 ^ 32 - X) <= 129 * 2 ^ 32).
      { change (2 ^ 32) with 4294967296 in *. change (2 ^ 31) with 2147483648 in *.
        change (2 ^ 24) with 16777216 in *. set (hi := X / 4294967296) in *. set (rem := X mod 4294967296) in *.
        assert (X = 4294967296 * hi + rem) by (unfold hi, rem; pose proof (Z.div_mod X 4294967296); lia).
        assert (0 <= rem < 4294967296) by (unfold rem; apply Z.mod_pos_bound; lia).
        destruct (Z.lt_ge_cases rem 2147483648) as [H1|H1]; [rewrite (Hlo H1); lia|].
        destruct (Z.le_gt_cases (2147483648 + 16777216) rem) as [H2|H2]; [rewrite (Hup H2); lia|].
        destruct Hr as [-> | ->]; lia. }
      replace ((if f_neg Double_consts d then -1 else 1) * (r * 2 ^ 32) * 2 ^ f_exp d -
               (if f_neg Double_consts d then -1 else 1) * X * 2 ^ f_exp d)
        with ((if f_neg Double_consts d then -1 else 1) * ((r * 2 ^ 32 - X) * 2 ^ f_exp d)) by (destruct (f_neg Double_consts d); lia).
      rewrite Z.abs_mul. replace (Z.abs (if f_neg Double_consts d then -1 else 1)) with 1 by (destruct (f_neg Double_consts d); reflexivity).
      rewrite Z.mul_1_l, Z.abs_mul, (Z.abs_eq (2 ^ f_exp d)) by lia. nia.
    + destruct (Hok ltac:(intros [H _]; contradiction)) as (s' & Hs' & _ & Hvs).
      rewrite Hs' in Hres. inversion Hres; subst s'. rewrite Hvs, Hvd. clear Hvs Hvd Hok Hov Hres.
      assert (Hm : 256 * Z.abs (r * 2 ^ 32 - X) <= 129 * 2 ^ 32).
      { change (2 ^ 32) with 4294967296 in *. change (2 ^ 31) with 2147483648 in *.
        change (2 ^ 24) with 16777216 in *. set (hi := X / 4294967296) in *. set (rem := X mod 4294967296) in *.
        assert (X = 4294967296 * hi + rem) by (unfold hi, rem; pose proof (Z.div_mod X 4294967296); lia).
        assert (0 <= rem < 4294967296) by (unfold rem; apply Z.mod_pos_bound; lia).
        destruct (Z.lt_ge_cases rem 2147483648) as [H1|H1]; [rewrite (Hlo H1); lia|].
        destruct (Z.le_gt_cases (2147483648 + 16777216) rem) as [H2|H2]; [rewrite (Hup H2); lia|].
        destruct Hr as [-> | ->]; lia. }
      replace ((if f_neg Double_consts d then -1 else 1) * (r * 2 ^ 32) * 2 ^ f_exp d -
               (if f_neg Double_consts d then -1 else 1) * X * 2 ^ f_exp d)
        with ((if f_neg Double_consts d then -1 else 1) * ((r * 2 ^ 32 - X) * 2 ^ f_exp d)) by (destruct (f_neg Double_consts d); lia).
      rewrite Z.abs_mul. replace (Z.abs (if f_neg Double_consts d then -1 else 1)) with 1 by (destruct (f_neg Double_consts d); reflexivity).
      rewrite Z.mul_1_l, Z.abs_mul, (Z.abs_eq (2 ^ f_exp d)) by lia. nia.
Qed.

(* ------------------------------------------------------------------------------------------------ *)
(* C03: CSNG (CDBL s) gives back the bytes of s, for every single s (zero encodings: canonical zero) *)

Lemma raw_of_fields C b : fmt_ok C -> buf_ok C b ->
  f_raw b = f_man C b - 2 ^ (mbits C - 1) + (if f_neg C b then 2 ^ (mbits C - 1) else 0).
Proof.
  intros HC Hb. pose proof (mbits_ge C HC). pose proof (f_raw_bound C b HC Hb) as Hr.
  rewrite (pow2_pred (mbits C)) in Hr by lia. unfold f_man, f_neg.
  set (P := 2 ^ (mbits C - 1)) in *. assert (0 < P) by (apply pow2_pos; lia).
  destruct (Z.leb_spec P (f_raw b)).
  - rewrite mod_hi by lia. lia.
  - rewrite Z.mod_small by lia. lia.
Qed.

Lemma f_encode_self C b : fmt_ok C -> buf_ok C b -> f_encode C (f_neg C b) (f_exp b) (f_man C b) = b.
Proof.
  intros HC Hb. pose proof (f_exp_bound C b HC Hb) as He. pose proof (f_man_bound C b HC) as Hm.
  assert (Hok : buf_ok C (f_encode C (f_neg C b) (f_exp b) (f_man C b))) by (apply f_encode_ok; assumption).
  destruct (f_encode_fields C (f_neg C b) (f_exp b) (f_man C b) HC He Hm) as (E1 & E2 & E3).
  apply (f_raw_inj C); try assumption.
  rewrite (raw_of_fields C _ HC Hok), (raw_of_fields C b HC Hb), E2, E3. reflexivity.
Qed.

Theorem csng_cdbl_roundtrip hard s : buf_ok Single_consts s ->
  v_csng hard (VDbl (d_from_single s)) = Ok (VSng (if f_exp s =? 0 then [0; 0; 0; 0] else s)).
Proof.
  intros Hs. destruct (from_single_spec s Hs) as [Hd _].
  unfold v_csng, v_to_single. rewrite (to_single_spec _ Hd).
  rewrite (is_negative_spec Double_consts _ Double_ok Hd).
  pose proof (f_encode_self Single_consts s Single_ok Hs) as Hself.
  pose proof (f_exp_bound Single_consts s Single_ok Hs) as He.
  pose proof (f_man_bound Single_consts s Single_ok) as Hm. rewrite mbits_Single in Hm. change (24 - 1) with 23 in Hm.
  destruct (buf4 s Hs) as (s0 & s1 & s2 & s3 & -> & H0 & H1 & H2 & H3).
  assert (Hz : byte_ok 0) by (unfold byte_ok; lia).
  destruct (double_fields 0 0 0 0 s0 s1 s2 s3 Hz Hz Hz Hz H0 H1 H2 H3) as (Hfe & Hfn & Hfm). cbv zeta in Hfe, Hfn, Hfm.
  unfold d_from_single. cbn [app]. rewrite Hfe, Hfn, Hfm.
  destruct (Z.eqb_spec (f_exp [s0; s1; s2; s3]) 0); [reflexivity|].
  set (m := f_man Single_consts [s0; s1; s2; s3]) in *.
  replace ((2 ^ 32 * m + (0 + 256 * 0 + 65536 * 0 + 16777216 * 0)) / 2 ^ 24) with (256 * m).
  2:{ change (2 ^ 32) with (4294967296). change (2 ^ 24) with 16777216. lia. }
  unfold norm_result. rewrite round_even8_exact, mbits_Single.
  destruct (Z.eqb_spec m (2 ^ 24)); [lia|].
  destruct (Z.gtb_spec (f_exp [s0; s1; s2; s3]) 255); [lia|].
  cbn [float_safe rmap bind]. rewrite Hself. reflexivity.
Qed.
