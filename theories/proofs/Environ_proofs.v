(* C44 / C01: ENVIRON sets what ENVIRON$ reads (case-insensitively); no host exception for any byte string *)
From Coq Require Import ZArith List Bool Lia ZifyBool.
From PCB Require Import lib.Result lib.PyInt lib.Harness model.Environ.
Import ListNotations.
Open Scope Z_scope.

Section EnvironProofs.
Variable U : Type.
Variable dec : list Z -> U.
Variable enc : U -> list Z.
Variable u_has_nul : U -> bool.
(* codepage contract: a byte string without NUL decodes to a host string without U+0000 *)
Hypothesis dec_nul : forall v, has_byte 0 v = false -> u_has_nul (dec v) = false.

Notation env := (env U).
Notation environ_stmt := (environ_stmt U dec u_has_nul).
Notation environ_fn_str := (environ_fn_str U enc).
Notation setenv := (setenv U dec u_has_nul).

Lemma list_Z_eqb_refl l : list_Z_eqb l l = true.
Proof. apply list_Z_eqb_eq. reflexivity. Qed.

Lemma lookup_update_same k v (e : env) : lookup U k (update U k v e) = Some v.
Proof.
  induction e as [|[k' v'] e IH]; cbn [update lookup].
  - rewrite list_Z_eqb_refl. reflexivity.
  - destruct (list_Z_eqb k k') eqn:E; cbn [lookup].
    + rewrite list_Z_eqb_refl. reflexivity.
    + rewrite E. exact IH.
Qed.

Lemma lookup_update_other k k' v (e : env) : k' <> k -> lookup U k' (update U k v e) = lookup U k' e.
Proof.
  intros N. induction e as [|[k2 v2] e IH]; cbn [update lookup].
  - destruct (list_Z_eqb k' k) eqn:E; [apply list_Z_eqb_eq in E; contradiction | reflexivity].
  - destruct (list_Z_eqb k k2) eqn:E; cbn [lookup].
    + apply list_Z_eqb_eq in E. subst k2.
      destruct (list_Z_eqb k' k) eqn:E2; [apply list_Z_eqb_eq in E2; contradiction | reflexivity].
    + destruct (list_Z_eqb k' k2); [reflexivity | exact IH].
Qed.

Lemma upper_b_not (x b : Z) : (x = 0 \/ x = 61) -> (upper_b b =? x) = (b =? x).
Proof. unfold upper_b. intros [-> | ->]; destruct ((97 <=? b) && (b <=? 122)) eqn:E; lia. Qed.

Lemma has_byte_upper x l : (x = 0 \/ x = 61) -> has_byte x (upper l) = has_byte x l.
Proof.
  intros Hx. unfold has_byte, upper. induction l as [|b l IH]; cbn [map existsb]; [reflexivity|].
  rewrite (upper_b_not x b Hx), IH. reflexivity.
Qed.

(* s.find(b'=') : position of the first '=', the prefix before it contains none *)
Lemma find_eq_spec l : forall i, 
  (find_eq i l = -1 /\ has_byte 61 l = false) \/
  (exists n, find_eq i l = i + Z.of_nat n /\ has_byte 61 (firstn n l) = false /\ (n < length l)%nat
             /\ nth n l 0 = 61).
Proof.
  induction l as [|b l IH]; intros i; cbn [find_eq].
  - left. split; reflexivity.
  - destruct (b =? 61) eqn:E.
    + right. exists 0%nat. cbn. repeat split; lia.
    + destruct (IH (i + 1)) as [[H1 H2] | [n [H1 [H2 [H3 H4]]]]].
      * left. split; [exact H1|]. cbn [has_byte existsb]. rewrite E. exact H2.
      * right. exists (S n). cbn [firstn has_byte existsb length nth]. rewrite E.
        repeat split; try lia; assumption.
Qed.

Theorem environ_stmt_no_host (e : env) s x : environ_stmt e s <> Host x.
Proof.
  unfold Environ.environ_stmt. destruct (find_eq 0 s <=? 0) eqn:Hle; [discriminate|].
  destruct (find_eq_spec s 0) as [[H1 _] | [n [H1 [H2 [H3 H4]]]]]; [lia|].
  rewrite H1 in *. replace (Z.to_nat (0 + Z.of_nat n)) with n by lia.
  unfold Environ.setenv.
  destruct (is_ascii (firstn n s)); cbn [negb]; [|discriminate].
  destruct (has_byte 0 (firstn n s)) eqn:K0; cbn [orb]; [discriminate|].
  destruct (has_byte 0 (skipn _ s)) eqn:V0; [discriminate|].
  unfold host_setenv.
  rewrite (has_byte_upper 61) by auto. rewrite (has_byte_upper 0) by auto.
  rewrite H2, K0, (dec_nul _ V0).
  destruct (upper (firstn n s)) eqn:Eu.
  - exfalso. destruct n; [lia|]. destruct s; [cbn in H3; lia|]. discriminate.
  - cbn. discriminate.
Qed.

(* ENVIRON "name=value" then ENVIRON$(name') for any case variant name' *)
Theorem environ_set_get (e e' : env) name value name' :
  has_byte 61 name = false ->
  environ_stmt e (name ++ [61] ++ value) = Ok e' ->
  upper name' = upper name -> name' <> [] -> is_ascii name' = true ->
  environ_fn_str e' name' = Ok (enc (dec value)).
Proof.
  intros Hn H Hu Hne Ha.
  unfold Environ.environ_stmt in H. destruct (find_eq 0 _ <=? 0) eqn:Hle; [discriminate|].
  assert (Hg : forall i, find_eq i (name ++ [61] ++ value) = i + Z.of_nat (length name)).
  { clear -Hn. induction name as [|b l IH]; intros i; cbn [app find_eq length].
    - cbn. lia.
    - cbn [has_byte existsb] in Hn. apply orb_false_iff in Hn as [Hb Hl]. rewrite Hb.
      rewrite IH by exact Hl. lia. }
  assert (Hf : find_eq 0 (name ++ [61] ++ value) = Z.of_nat (length name)) by (rewrite Hg; lia).
  rewrite Hf in H. rewrite Nat2Z.id in H.
  replace (Z.to_nat (Z.of_nat (length name) + 1)) with (length name + 1)%nat in H by lia.
  rewrite firstn_app, Nat.sub_diag, firstn_all in H. cbn [firstn] in H. rewrite app_nil_r in H.
  replace (skipn (length name + 1) (name ++ [61] ++ value)) with value in H.
  2:{ rewrite skipn_app. rewrite skipn_all2 by lia. replace (length name + 1 - length name)%nat with 1%nat by lia.
      reflexivity. }
  unfold Environ.setenv in H.
  destruct (is_ascii name); cbn [negb] in H; [|discriminate].
  destruct (has_byte 0 name || has_byte 0 value); [discriminate|].
  unfold host_setenv in H.
  match type of H with (if ?c then _ else _) = _ => destruct c; [discriminate|] end.
  inversion H; subst e'; clear H.
  unfold Environ.environ_fn_str. destruct name' as [|b l]; [contradiction|].
  rewrite Ha. cbn [negb]. rewrite Hu, lookup_update_same. reflexivity.
Qed.

(* other names keep their values *)
Theorem environ_frame (e e' : env) s other :
  environ_stmt e s = Ok e' ->
  upper other <> upper (firstn (Z.to_nat (find_eq 0 s)) s) ->
  lookup U (upper other) e' = lookup U (upper other) e.
Proof.
  intros H N. unfold Environ.environ_stmt in H. destruct (find_eq 0 s <=? 0); [discriminate|].
  unfold Environ.setenv in H.
  destruct (negb _); [discriminate|]. destruct (_ || _); [discriminate|].
  unfold host_setenv in H.
  match type of H with (if ?c then _ else _) = _ => destruct c; [discriminate|] end.
  inversion H; subst e'. apply lookup_update_other. exact N.
Qed.

(* rejected input: always Illegal function call (and the result carries no new environment) *)
Theorem environ_stmt_err (e : env) s n : environ_stmt e s = Err n -> n = 5.
Proof.
  unfold Environ.environ_stmt. destruct (find_eq 0 s <=? 0); [intros H; inversion H; reflexivity|].
  unfold Environ.setenv. destruct (negb _); [intros H; inversion H; reflexivity|].
  destruct (_ || _); [intros H; inversion H; reflexivity|].
  unfold host_setenv. match goal with |- (if ?c then _ else _) = _ -> _ => destruct c; discriminate end.
Qed.
End EnvironProofs.
