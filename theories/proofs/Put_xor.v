(* C31: PUT ,XOR executed twice at the same place restores the page (statement level). *)
From Coq Require Import ZArith List Bool Lia ZifyBool.
From PCB Require Import lib.Result lib.PyInt lib.GfxPrims gen.Gen_viewport gen.Gen_raster
  model.Matrix model.Viewport model.Raster model.Sprite
  proofs.Matrix_proofs proofs.Viewport_proofs proofs.Raster_safe proofs.Raster_proofs proofs.Sprite_proofs
  proofs.Sprite_put.
Import ListNotations.
Open Scope Z_scope.

(* a rectangle whose corners are inside the viewport converts to an in-range absolute rectangle of the same size *)
Lemma convert_inside : forall vp x0 y0 x1 y1,
  wf_vp vp -> vp_contains vp x0 y0 = true -> vp_contains vp x1 y1 = true -> x0 <= x1 + 1 -> y0 <= y1 + 1 ->
  exists Y0 Y1 X0 X1,
    vp_convert_slice vp (ISlice (Some y0) (Some (y1 + 1)), ISlice (Some x0) (Some (x1 + 1)))
    = (ISlice (Some Y0) (Some Y1), ISlice (Some X0) (Some X1))
    /\ 0 <= Y0 <= Y1 /\ Y1 <= vp_maxh vp /\ Y1 - Y0 = y1 - y0 + 1
    /\ 0 <= X0 <= X1 /\ X1 <= vp_maxw vp /\ X1 - X0 = x1 - x0 + 1.
Proof.
  intros [ab vx0 vy0 vx1 vy1 mw mh] x0 y0 x1 y1 Hwf Ha Hb Hx Hy. unfold wf_vp in Hwf.
  unfold_vp. cbn [vp_abs vp_x0 vp_y0 vp_x1 vp_y1 vp_maxw vp_maxh] in *.
  cbn [is_slice negb andb slice_start slice_stop opt_default].
  destruct ab; eexists _, _, _, _; (split; [reflexivity|]); lia.
Qed.

Lemma the_page_set' : forall t b pages n m vp,
  (n < length pages)%nat -> the_page (GS t b (set_page pages n m) n vp) = m.
Proof.
  intros t b pages n m vp Hn. unfold the_page. cbn [g_pages g_apage]. apply nth_error_nth.
  rewrite nth_error_set_page, Nat.eqb_refl. destruct (n <? length pages)%nat eqn:E; [reflexivity | lia].
Qed.

Lemma set_page_length : forall pages n m, length (set_page pages n m) = length pages.
Proof. induction pages as [|p pages IH]; intros [|n] m; cbn [set_page length]; auto. Qed.

Lemma set_page_twice : forall pages n m1 m2, set_page (set_page pages n m1) n m2 = set_page pages n m2.
Proof. induction pages as [|p pages IH]; intros [|n] m1 m2; cbn [set_page]; try reflexivity. rewrite IH. reflexivity. Qed.

Lemma set_page_same : forall pages n, (n < length pages)%nat -> set_page pages n (nth n pages []) = pages.
Proof.
  induction pages as [|p pages IH]; intros [|n] Hn; cbn [set_page nth length] in *; try reflexivity; try lia.
  rewrite IH by lia. reflexivity.
Qed.

Theorem exec_put_xor_twice : forall st x y sprite,
  good_state st -> g_text st = false -> rect_sprite sprite ->
  fst (exec st (SPut x y sprite 4)) = Ok tt ->
  exists st1, exec st (SPut x y sprite 4) = (Ok tt, st1) /\
    exec st1 (SPut x y sprite 4) = (Ok tt, st).
Proof.
  intros st x y sprite [Hwf [Hap Hdims]] Ht Hs Hok.
  assert (Hpage : same_dims (g_vp st) (the_page st)).
  { rewrite Forall_forall in Hdims. apply Hdims. unfold the_page. apply nth_In. exact Hap. }
  destruct Hpage as [Hph Hpw].
  set (vp := g_vp st) in *. set (m := the_page st) in *.
  set (x1 := x + sprite_width sprite - 1). set (y1 := y + zlen sprite - 1).
  (* the bounds tests passed *)
  assert (Hcont : vp_contains vp x y = true /\ vp_contains vp x1 y1 = true).
  { unfold exec in Hok. rewrite Ht, guard_graphics in Hok. cbn [stmt_reqs] in Hok. rewrite (rectify_id sprite Hs) in Hok.
    unfold put_reqs in Hok.
    fold vp x1 y1 in Hok.
    destruct (vp_contains vp x y); [|cbn in Hok; discriminate].
    destruct (vp_contains vp x1 y1); [split; reflexivity | cbn in Hok; discriminate]. }
  destruct Hcont as [Hc0 Hc1].
  assert (Hsw : 0 <= sprite_width sprite) by (unfold sprite_width, zlen; destruct sprite; lia).
  assert (Hsh : 0 <= zlen sprite) by (unfold zlen; lia).
  destruct (convert_inside vp x y x1 y1 Hwf Hc0 Hc1) as [Y0 [Y1 [X0 [X1 [Hcv [HY [HY1 [HYd [HX [HX1 HXd]]]]]]]]]];
    [subst x1; lia | subst y1; lia|].
  (* one PUT XOR on a page of the right shape, as a matrix operation *)
  set (put := fun m0 : matrix => mat_setitem m0 (ISlice (Some Y0) (Some Y1)) (ISlice (Some X0) (Some X1))
                         (Block (mat_zip Z.lxor (mat_getslice m0 (Some Y0) (Some Y1) (Some X0) (Some X1)) sprite))).
  assert (Hexec : forall (pages : list matrix), (g_apage st < length pages)%nat ->
            forall m0', put (nth (g_apage st) pages []) = Ok m0' ->
            exec (GS false (g_bpp st) pages (g_apage st) vp) (SPut x y sprite 4)
            = (Ok tt, GS false (g_bpp st) (set_page pages (g_apage st) m0') (g_apage st) vp)).
  { intros pages Hl m0' Hput. unfold exec. cbn [g_text g_vp g_pages g_apage g_bpp]. rewrite guard_graphics.
    cbn [stmt_reqs g_vp g_bpp]. rewrite (rectify_id sprite Hs). unfold put_reqs. fold x1 y1. rewrite Hc0, Hc1. cbn [negb].
    replace (4 =? 0) with false by reflexivity. replace (4 =? 1) with false by reflexivity.
    replace (4 =? 2) with false by reflexivity. replace (4 =? 3) with false by reflexivity.
    cbn [bind vp_run]. unfold vp_setitem, vp_getslice. cbn [rq_y rq_x rq_data]. rewrite Hcv.
    unfold the_page. cbn [g_pages g_apage]. unfold put in Hput.
    match goal with |- context [mat_setitem ?a ?b ?c ?d] => replace (mat_setitem a b c d) with (@Ok matrix m0') end.
    cbn [bind]. reflexivity. }
  (* the matrix fact *)
  assert (Hrows : slice_bounds (zlen m) (Some Y0) (Some Y1) = (Z.to_nat Y0, Z.to_nat Y1)).
  { rewrite slice_bounds_nonneg by (unfold zlen; lia). rewrite Hph. f_equal; f_equal; lia. }
  assert (Hcols : slice_bounds (vp_maxw vp) (Some X0) (Some X1) = (Z.to_nat X0, Z.to_nat X1)).
  { rewrite slice_bounds_nonneg by lia. f_equal; f_equal; lia. }
  assert (Hsl : length sprite = (Z.to_nat Y1 - Z.to_nat Y0)%nat) by (unfold zlen in *; subst y1; lia).
  assert (Hsf : Forall (fun r => length r = (Z.to_nat X1 - Z.to_nat X0)%nat) sprite).
  { eapply Forall_impl; [|exact Hs]. intros r Hr. cbv beta in Hr. unfold zlen in Hr. subst x1. lia. }
  assert (Hmw : 0 <= vp_maxw vp) by (unfold wf_vp in Hwf; lia).
  pose proof (mat_put_xor_twice m (Some Y0) (Some Y1) (Some X0) (Some X1) (vp_maxw vp) sprite _ _ _ _
                Hmw Hpw Hrows Hcols Hsl Hsf) as Htwice. cbv zeta in Htwice. fold put in Htwice.
  destruct (put m) as [m1| | |] eqn:Em1; cbn [bind] in Htwice; try discriminate.
  destruct st as [t b pages ap v]. cbn [g_text g_bpp g_pages g_apage g_vp] in *. subst t. subst vp.
  exists (GS false b (set_page pages ap m1) ap v). split.
  - apply (Hexec pages Hap m1). exact Em1.
  - assert (Hn1 : nth ap (set_page pages ap m1) [] = m1).
    { apply nth_error_nth. rewrite nth_error_set_page, Nat.eqb_refl.
      destruct (ap <? length pages)%nat eqn:E; [reflexivity | lia]. }
    rewrite (Hexec (set_page pages ap m1)) with (m0' := m); [| rewrite set_page_length; exact Hap | rewrite Hn1; exact Htwice].
    rewrite set_page_twice. unfold m, the_page. cbn [g_pages g_apage]. rewrite set_page_same by exact Hap. reflexivity.
Qed.
