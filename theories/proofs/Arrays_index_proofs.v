(* C12: arithmetic of the regenerated Arrays.index / flat_length / check_dim subscript scan *)
From Coq Require Import ZArith List Bool Lia.
From PCB Require Import lib.Result lib.PyInt lib.Harness lib.ArraysLib gen.Gen_arrays model.Arrays.
Import ListNotations.
Open Scope Z_scope.

(* ---------- specifications by structural recursion ---------- *)

(* mixed radix value of a subscript tuple: digit k is i_k - base, radix k is d_k + 1 - base *)
Fixpoint index_spec (b : Z) (idx dims : list Z) : Z :=
  match idx, dims with
  | i :: idx', d :: dims' => (i - b) + (d + 1 - b) * index_spec b idx' dims'
  | _, _ => 0
  end.

Fixpoint radix_prod (b : Z) (dims : list Z) : Z :=
  match dims with
  | [] => 1
  | d :: r => (d + 1 - b) * radix_prod b r
  end.

(* subscript tuple within the declared bounds: same rank and base <= i_k <= d_k *)
Definition in_bounds (b : Z) (dims idx : list Z) : Prop :=
  Forall2 (fun i d => b <= i <= d) idx dims.

Definition dims_ok (b : Z) (dims : list Z) : Prop := Forall (fun d => b <= d) dims.

Lemma in_bounds_length b dims idx : in_bounds b dims idx -> length idx = length dims.
Proof. induction 1; simpl; congruence. Qed.

Lemma in_bounds_dims_ok b dims idx : in_bounds b dims idx -> dims_ok b dims.
Proof. induction 1; constructor; [lia | assumption]. Qed.

Lemma dims_ok_self b dims : dims_ok b dims -> in_bounds b dims dims.
Proof. induction 1; constructor; [lia | assumption]. Qed.

(* ---------- the regenerated loop computes index_spec ---------- *)

Lemma py_nth_app_here (p s : list Z) (x : Z) :
  py_nth 0 (p ++ x :: s) (Z.of_nat (length p)) = x.
Proof.
  unfold py_nth. destruct (Z.ltb_spec (Z.of_nat (length p)) 0) as [E|E]; [lia|].
  rewrite Nat2Z.id. rewrite app_nth2 by lia. rewrite Nat.sub_diag. reflexivity.
Qed.

Lemma index_loop b : forall (s t p q : list Z) big area,
  length s = length t -> length p = length q ->
  arrays_index_for_1 (length s) (Z.of_nat (length p)) b (p ++ s) (q ++ t) big area
  = Ok (big + area * index_spec b s t, area * radix_prod b t).
Proof.
  induction s as [|x s IH]; intros t p q big area Hst Hpq.
  - destruct t; [|discriminate]. simpl. f_equal. f_equal; lia.
  - destruct t as [|y t]; [discriminate|]. simpl in Hst.
    cbn [length arrays_index_for_1].
    rewrite (py_nth_app_here p s x).
    replace (py_nth 0 (q ++ y :: t) (Z.of_nat (length p))) with y
      by (rewrite Hpq; symmetry; apply py_nth_app_here).
    replace (Z.of_nat (length p) + 1) with (Z.of_nat (length (p ++ [x]))) by (rewrite app_length; simpl; lia).
    replace (p ++ x :: s) with ((p ++ [x]) ++ s) by (rewrite <- app_assoc; reflexivity).
    replace (q ++ y :: t) with ((q ++ [y]) ++ t) by (rewrite <- app_assoc; reflexivity).
    rewrite IH; [| lia | rewrite !app_length; simpl; lia].
    cbn [index_spec radix_prod]. f_equal. f_equal; ring.
Qed.

Lemma arrays_index_spec b idx dims : length idx = length dims ->
  arrays_index b idx dims = Ok (index_spec b idx dims).
Proof.
  intros H. unfold arrays_index.
  replace (Z.to_nat (zlen idx - 0)) with (length idx) by (unfold zlen; lia).
  pose proof (index_loop b idx dims [] [] 0 1 H eq_refl) as L. cbn [app length] in L.
  change (Z.of_nat 0) with 0 in L. rewrite L. cbn [bind]. f_equal. lia.
Qed.

(* ---------- range, flat length, injectivity ---------- *)

Lemma radix_prod_pos b dims : dims_ok b dims -> 0 < radix_prod b dims.
Proof. induction 1; simpl; nia. Qed.

Lemma index_spec_range b dims idx : in_bounds b dims idx ->
  0 <= index_spec b idx dims < radix_prod b dims.
Proof.
  induction 1 as [|i d idx dims Hid H IH]; simpl; [lia|].
  pose proof (radix_prod_pos b dims (in_bounds_dims_ok _ _ _ H)). nia.
Qed.

Lemma index_spec_self b dims : dims_ok b dims -> index_spec b dims dims + 1 = radix_prod b dims.
Proof. induction 1 as [|d dims Hd H IH]; simpl; [reflexivity | nia]. Qed.

Lemma arrays_flat_length_spec b dims : dims_ok b dims ->
  arrays_flat_length b dims = Ok (radix_prod b dims).
Proof.
  intros H. unfold arrays_flat_length. rewrite arrays_index_spec by reflexivity. cbn [bind].
  f_equal. apply index_spec_self, H.
Qed.

Lemma index_spec_injective b dims : forall i j,
  in_bounds b dims i -> in_bounds b dims j -> index_spec b i dims = index_spec b j dims -> i = j.
Proof.
  induction dims as [|d dims IH]; intros i j Hi Hj E.
  - inversion Hi; inversion Hj; reflexivity.
  - inversion Hi as [|i0 d0 i' dims0 Hi0 Hi']; subst. inversion Hj as [|j0 d1 j' dims1 Hj0 Hj']; subst.
    simpl in E.
    pose proof (index_spec_range b dims i' Hi'). pose proof (index_spec_range b dims j' Hj').
    destruct (Z.div_mod_unique (d + 1 - b) (index_spec b i' dims) (index_spec b j' dims) (i0 - b) (j0 - b))
      as [E2 E1]; [left; lia | left; lia | lia |].
    assert (i0 = j0) by lia. subst. f_equal. apply IH; assumption.
Qed.

(* ---------- the subscript scan of check_dim ---------- *)

(* declarative classification: position of the first offending subscript decides *)
Inductive scan (b : Z) : list Z -> list Z -> res unit -> Prop :=
| scan_done : scan b [] [] (Ok tt)
| scan_neg i d idx dims : i < 0 -> scan b (i :: idx) (d :: dims) (Err err_IFC)
| scan_range i d idx dims : 0 <= i -> (i < b \/ i > d) ->
    scan b (i :: idx) (d :: dims) (Err err_SUBSCRIPT_OUT_OF_RANGE)
| scan_next i d idx dims r : 0 <= i -> b <= i <= d -> scan b idx dims r -> scan b (i :: idx) (d :: dims) r.

Lemma zip_scan b (x y : list Z) : forall idx dims, length idx = length dims ->
  scan b idx dims (arrays_check_subscripts_zip_6 b x y idx dims).
Proof.
  induction idx as [|i idx IH]; intros [|d dims] H; try discriminate; simpl.
  - constructor.
  - destruct (i <? 0) eqn:E1; [apply scan_neg; lia|].
    destruct ((i <? b) || (i >? d)) eqn:E2.
    + apply scan_range; lia.
    + apply scan_next; [lia | lia | apply IH; simpl in H; lia].
Qed.

Lemma scan_fun b idx dims r1 r2 : scan b idx dims r1 -> scan b idx dims r2 -> r1 = r2.
Proof.
  intros H1; revert r2; induction H1; intros r2 H2; inversion H2; subst; try reflexivity; try lia.
  apply IHscan; assumption.
Qed.

Lemma check_subscripts_rank b idx dims : length idx <> length dims ->
  arrays_check_subscripts b idx dims = Err err_SUBSCRIPT_OUT_OF_RANGE.
Proof.
  intros H. unfold arrays_check_subscripts, zlen.
  destruct (Z.of_nat (length idx) =? Z.of_nat (length dims)) eqn:E; [lia | reflexivity].
Qed.

Lemma check_subscripts_scan b idx dims : length idx = length dims ->
  scan b idx dims (arrays_check_subscripts b idx dims).
Proof.
  intros H. unfold arrays_check_subscripts, zlen. rewrite H, Z.eqb_refl. simpl.
  pose proof (zip_scan b idx dims idx dims H) as S.
  destruct (arrays_check_subscripts_zip_6 b idx dims idx dims) as [[]| | |]; simpl; exact S.
Qed.

Lemma scan_ok_in_bounds b idx dims : 0 <= b -> (scan b idx dims (Ok tt) <-> in_bounds b dims idx).
Proof.
  intros Hb. split.
  - intros H. remember (Ok tt) as r. induction H; try discriminate.
    + constructor.
    + constructor; [assumption | apply IHscan; assumption].
  - induction 1; [constructor | apply scan_next; [lia | lia | assumption]].
Qed.

Lemma check_subscripts_ok b idx dims : 0 <= b ->
  (arrays_check_subscripts b idx dims = Ok tt <-> in_bounds b dims idx).
Proof.
  intros Hb. split.
  - intros E. destruct (Nat.eq_dec (length idx) (length dims)) as [L|L].
    + apply scan_ok_in_bounds; [assumption|]. rewrite <- E. apply check_subscripts_scan, L.
    + rewrite check_subscripts_rank in E by assumption. discriminate.
  - intros H. pose proof (in_bounds_length _ _ _ H) as L.
    apply (scan_fun b idx dims); [apply check_subscripts_scan, L | apply scan_ok_in_bounds; assumption].
Qed.

(* an error of the scan is one of the two BASIC errors, never a host exception *)
Lemma check_subscripts_result b idx dims :
  arrays_check_subscripts b idx dims = Ok tt \/
  arrays_check_subscripts b idx dims = Err err_IFC \/
  arrays_check_subscripts b idx dims = Err err_SUBSCRIPT_OUT_OF_RANGE.
Proof.
  destruct (Nat.eq_dec (length idx) (length dims)) as [L|L].
  - pose proof (check_subscripts_scan b idx dims L) as S.
    induction S; auto.
  - right; right. apply check_subscripts_rank, L.
Qed.

(* ---------- sizes ---------- *)

Definition sigil_ok (n : list Z) : Prop := In (py_last n) [36; 37; 33; 35].

Lemma size_bytes_pos n : sigil_ok n -> 0 < size_bytes n.
Proof.
  unfold sigil_ok, size_bytes. intros [H|[H|[H|[H|[]]]]]; rewrite <- H; vm_compute; reflexivity.
Qed.

Lemma arrays_buffer_size_spec b n dims : dims_ok b dims ->
  arrays_buffer_size b n dims = Ok (radix_prod b dims * size_bytes n).
Proof. intros H. unfold arrays_buffer_size. rewrite arrays_flat_length_spec by assumption. reflexivity. Qed.

Lemma arrays_erase_freed_spec b n dims : dims_ok b dims ->
  arrays_erase_freed b n dims = Ok (arrays_record_size n dims + radix_prod b dims * size_bytes n).
Proof.
  intros H. unfold arrays_erase_freed. rewrite arrays_buffer_size_spec by assumption. cbn [bind].
  unfold arrays_record_size. f_equal. lia.
Qed.

Lemma arrays_allocate_layout_spec b cur n dims : dims_ok b dims ->
  arrays_allocate_layout b cur n dims =
  Ok (cur, cur + arrays_record_size n dims, radix_prod b dims * size_bytes n,
      arrays_record_size n dims + radix_prod b dims * size_bytes n).
Proof.
  intros H. unfold arrays_allocate_layout. rewrite arrays_buffer_size_spec by assumption. reflexivity.
Qed.

Lemma arrays_record_size_pos n dims : 7 <= arrays_record_size n dims.
Proof. unfold arrays_record_size, zlen. lia. Qed.
