(* C30: the requests issued by the REGENERATED generators (gen/Gen_raster.v) are safe for the funnel - proved
   directly on the generated loops by an invariant that does not depend on the geometry (every request of
   _draw_line / _draw_straight / _draw_box is a single-pixel request; the filled box is one slice request whose
   corners went through cutoff_coord).  A change of the Bresenham arithmetic that keeps these facts does not
   disturb C30 (it is C31's business). *)
From Coq Require Import ZArith List Bool Lia ZifyBool.
From PCB Require Import lib.Result lib.PyInt lib.GfxPrims gen.Gen_viewport gen.Gen_raster
  model.Matrix model.Viewport model.Raster proofs.Matrix_proofs proofs.Viewport_proofs.
Import ListNotations.
Open Scope Z_scope.

Lemma pixel_req_cons : forall y x a l, Forall pixel_req l -> Forall pixel_req (WReq (IInt y) (IInt x) (Fill a) :: l).
Proof. intros. constructor; [exists y, x, a; reflexivity | assumption]. Qed.

Ltac split_ifs :=
  repeat match goal with |- context [if ?c then _ else _] => destruct c end.

(* destruct the conditions of `bind (if c then .. else ..) k` from the outside in *)
Ltac split_binds :=
  repeat match goal with |- context [bind (if ?c then _ else _) _] => destruct c; cbn [bind] end.

Lemma line_loop_safe : forall fuel st x ab r0 r1 r2 r3 mw mh x0 y0 x1 y1 attr pattern dx dy steep sx sy mask err y OUT,
  Forall pixel_req OUT ->
  exists m' e' y' out',
    raster_u_draw_line_for_1 fuel st x ab r0 r1 r2 r3 mw mh x0 y0 x1 y1 attr pattern dx dy steep sx sy mask err y OUT
    = Ok (m', e', y', out') /\ Forall pixel_req out'.
Proof.
  induction fuel as [|fuel IH]; intros; cbn [raster_u_draw_line_for_1].
  - eauto 10.
  - split_ifs; cbn [bind]; apply IH; try assumption; apply pixel_req_cons; assumption.
Qed.

Lemma straight_loop_safe : forall fuel st p ab r0 r1 r2 r3 mw mh x0 y0 x1 y1 attr pattern p0 p1 q dir sp mask OUT,
  Forall pixel_req OUT ->
  exists m' out',
    raster_u_draw_straight_for_2 fuel st p ab r0 r1 r2 r3 mw mh x0 y0 x1 y1 attr pattern p0 p1 q dir sp mask OUT
    = Ok (m', out') /\ Forall pixel_req out'.
Proof.
  induction fuel as [|fuel IH]; intros; cbn [raster_u_draw_straight_for_2].
  - eauto.
  - split_ifs; cbn [bind]; apply IH; try assumption; apply pixel_req_cons; assumption.
Qed.

Lemma draw_line_safe : forall OUT ab r0 r1 r2 r3 mw mh x0 y0 x1 y1 attr pattern,
  Forall pixel_req OUT ->
  exists out', raster_u_draw_line OUT ab r0 r1 r2 r3 mw mh x0 y0 x1 y1 attr pattern = Ok out' /\ Forall pixel_req out'.
Proof.
  intros. unfold raster_u_draw_line.
  repeat match goal with |- context [viewport_cutoff_coord ?a ?b ?c ?d ?e ?f ?g ?x ?y] =>
    destruct (viewport_cutoff_coord a b c d e f g x y) end.
  split_binds;
    match goal with |- context [raster_u_draw_line_for_1 ?f ?st ?x ?a ?b ?c ?d ?e ?g ?h ?i ?j ?k ?l ?m ?n ?o ?p ?q ?r ?s ?t ?u ?v ?w] =>
      destruct (line_loop_safe f st x a b c d e g h i j k l m n o p q r s t u v w H) as [m' [e' [y' [out' [E F]]]]]; rewrite E
    end; cbn [bind]; eauto.
Qed.

Lemma draw_straight_safe : forall OUT ab r0 r1 r2 r3 mw mh x0 y0 x1 y1 attr pattern mask,
  Forall pixel_req OUT ->
  exists out' m', raster_u_draw_straight OUT ab r0 r1 r2 r3 mw mh x0 y0 x1 y1 attr pattern mask = Ok (out', m')
                  /\ Forall pixel_req out'.
Proof.
  intros. unfold raster_u_draw_straight.
  split_binds;
    match goal with |- context [raster_u_draw_straight_for_2 ?f ?st ?x ?a ?b ?c ?d ?e ?g ?h ?i ?j ?k ?l ?m ?n ?o ?p ?q ?r ?s ?t ?u] =>
      destruct (straight_loop_safe f st x a b c d e g h i j k l m n o p q r s t u H) as [m' [out' [E F]]]; rewrite E
    end; cbn [bind]; eauto.
Qed.

Lemma draw_box_safe : forall OUT ab r0 r1 r2 r3 mw mh x0 y0 x1 y1 attr pattern,
  Forall pixel_req OUT ->
  exists out', raster_u_draw_box OUT ab r0 r1 r2 r3 mw mh x0 y0 x1 y1 attr pattern = Ok out' /\ Forall pixel_req out'.
Proof.
  intros OUT ab r0 r1 r2 r3 mw mh x0 y0 x1 y1 attr pattern H. unfold raster_u_draw_box.
  repeat match goal with |- context [viewport_cutoff_coord ?a ?b ?c ?d ?e ?f ?g ?x ?y] =>
    destruct (viewport_cutoff_coord a b c d e f g x y) end.
  repeat (match goal with
          | |- context [raster_u_draw_straight ?o ?a ?b ?c ?d ?e ?g ?h ?i ?j ?k ?l ?m ?n ?p] =>
            match goal with
            | F : Forall pixel_req o |- _ =>
              let o' := fresh "o" in let mk := fresh "mk" in let E := fresh "E" in let F' := fresh "F" in
              destruct (draw_straight_safe o a b c d e g h i j k l m n p F) as [o' [mk [E F']]]; rewrite E; cbn [bind]
            end
          | |- context [if ?c then _ else _] => destruct c; cbn [bind]
          end).
  all: eauto.
Qed.

(* in issue order, applied to a viewport record *)
Theorem gen_pset_safe : forall vp x y a, Forall pixel_req (gen_pset vp x y a).
Proof. intros. unfold gen_pset, on_gv, raster_pset_write. cbn [rev app]. apply pixel_req_cons. constructor. Qed.

Lemma Forall_rev' : forall {A} (P : A -> Prop) l, Forall P l -> Forall P (rev l).
Proof. intros A P l H. apply Forall_forall. intros x Hx. rewrite Forall_forall in H. apply H. apply in_rev. exact Hx. Qed.

Theorem gen_line_safe : forall vp x0 y0 x1 y1 a p,
  exists l, gen_line vp x0 y0 x1 y1 a p = Ok l /\ Forall pixel_req l.
Proof.
  intros. unfold gen_line, on_gv.
  destruct (draw_line_safe [] (vp_abs vp) (vp_x0 vp) (vp_y0 vp) (vp_x1 vp) (vp_y1 vp) (vp_maxw vp) (vp_maxh vp)
              x0 y0 x1 y1 a p (Forall_nil _)) as [out [E F]].
  rewrite E. cbn [rmap bind]. eexists. split; [reflexivity | apply Forall_rev'; exact F].
Qed.

Theorem gen_box_safe : forall vp x0 y0 x1 y1 a p,
  exists l, gen_box vp x0 y0 x1 y1 a p = Ok l /\ Forall pixel_req l.
Proof.
  intros. unfold gen_box, on_gv.
  destruct (draw_box_safe [] (vp_abs vp) (vp_x0 vp) (vp_y0 vp) (vp_x1 vp) (vp_y1 vp) (vp_maxw vp) (vp_maxh vp)
              x0 y0 x1 y1 a p (Forall_nil _)) as [out [E F]].
  rewrite E. cbn [rmap bind]. eexists. split; [reflexivity | apply Forall_rev'; exact F].
Qed.

(* the filled box: one slice request; this is where cutoff_coord's clamp to [-1, max] is needed *)
Theorem gen_boxfill_safe : forall vp x0 y0 x1 y1 a, wf_vp vp -> Forall (req_ok vp) (gen_boxfill vp x0 y0 x1 y1 a).
Proof.
  intros vp x0 y0 x1 y1 a Hwf. unfold gen_boxfill, on_gv, raster_u_draw_box_filled.
  pose proof (cutoff_abs_range vp x0 y0) as H0. pose proof (cutoff_abs_range vp x1 y1) as H1.
  unfold vp_cutoff_coord, on_vp in H0, H1.
  destruct (viewport_cutoff_coord (vp_abs vp) (vp_x0 vp) (vp_y0 vp) (vp_x1 vp) (vp_y1 vp) (vp_maxw vp) (vp_maxh vp) x0 y0)
    as [cx0 cy0].
  destruct (viewport_cutoff_coord (vp_abs vp) (vp_x0 vp) (vp_y0 vp) (vp_x1 vp) (vp_y1 vp) (vp_maxw vp) (vp_maxh vp) x1 y1)
    as [cx1 cy1].
  specialize (H0 cx0 cy0 Hwf eq_refl). specialize (H1 cx1 cy1 Hwf eq_refl).
  assert (Hc : forall xa ya xb yb,
            (xa = cx0 \/ xa = cx1) -> (ya = cy0 \/ ya = cy1) -> (xb = cx0 \/ xb = cx1) -> (yb = cy0 \/ yb = cy1) ->
            req_ok vp (WReq (ISlice (Some ya) (Some (yb + 1))) (ISlice (Some xa) (Some (xb + 1))) (Fill a))).
  { intros xa ya xb yb Hxa Hya Hxb Hyb. apply box_req_ok; [exact Hwf | |];
      destruct vp as [ab vx0 vy0 vx1 vy1 mw mh]; unfold_vp;
      cbn [vp_abs vp_x0 vp_y0 vp_x1 vp_y1 vp_maxw vp_maxh] in *; destruct ab; lia. }
  split_ifs; cbn [rev app]; (constructor; [apply Hc; auto | constructor]).
Qed.
