(* C34: writing video memory: the spans of a block write change the screen exactly like writing the items one
   after the other (screens are compared pointwise: no functional extensionality). *)
From Coq Require Import ZArith List Bool Lia ZifyBool.
From PCB Require Import lib.Result lib.PyInt gen.Gen_vmem model.VideoMem
  proofs.VideoMem_arith proofs.VideoMem_bits proofs.VideoMem_walk.
Import ListNotations.
Open Scope Z_scope.

Definition seq_eq (s1 s2 : screen) : Prop := forall p y x, s1 p y x = s2 p y x.

Lemma seq_eq_refl s : seq_eq s s.
Proof. intros p y x. reflexivity. Qed.
Lemma seq_eq_sym s1 s2 : seq_eq s1 s2 -> seq_eq s2 s1.
Proof. intros H p y x. symmetry. apply H. Qed.
Lemma seq_eq_trans s1 s2 s3 : seq_eq s1 s2 -> seq_eq s2 s3 -> seq_eq s1 s3.
Proof. intros H1 H2 p y x. rewrite H1. apply H2. Qed.

Lemma set_run_cong s1 s2 page y x w f : seq_eq s1 s2 ->
  seq_eq (set_run s1 page y x w f) (set_run s2 page y x w f).
Proof. intros H p y' x'. unfold set_run. rewrite H. reflexivity. Qed.

(* ---------------------------------------------------------------- writing one item *)
Definition item_write (wr : Z -> Z -> Z -> Z) (m : vmode) (s : screen) (a b : Z) : screen :=
  let '(p, x, y) := vmem_get_coords m a in
  if vmem_coord_ok m p x y then set_run s p y x (peff m) (fun i old => wr b i old) else s.

Lemma item_write_cong wr m s1 s2 a b : seq_eq s1 s2 -> seq_eq (item_write wr m s1 a b) (item_write wr m s2 a b).
Proof.
  intros H. unfold item_write. destruct (vmem_get_coords m a) as [[p x] y].
  destruct (vmem_coord_ok m p x y); [apply set_run_cong; exact H | exact H].
Qed.

(* items i, i+1, .. (cnt of them) of the walk starting at addr, written one after the other;
   item t takes byte number bidx t of the block *)
Fixpoint write_range (wr : Z -> Z -> Z -> Z) (m : vmode) (bidx : Z -> Z) (bs : list Z) (addr : Z)
         (s : screen) (i : Z) (cnt : nat) : screen :=
  match cnt with
  | O => s
  | S c => write_range wr m bidx bs addr (item_write wr m s (addr + i * fac m) (nthZ bs (bidx i))) (i + 1) c
  end.

Lemma write_range_cong wr m bidx bs addr cnt : forall s1 s2 i, seq_eq s1 s2 ->
  seq_eq (write_range wr m bidx bs addr s1 i cnt) (write_range wr m bidx bs addr s2 i cnt).
Proof.
  induction cnt as [|c IH]; intros s1 s2 i H; [exact H|].
  cbn [write_range]. apply IH. apply item_write_cong. exact H.
Qed.

Lemma write_range_app wr m bidx bs addr c1 : forall c2 s i,
  write_range wr m bidx bs addr s i (c1 + c2) =
  write_range wr m bidx bs addr (write_range wr m bidx bs addr s i c1) (i + Z.of_nat c1) c2.
Proof.
  induction c1 as [|c1 IH]; intros c2 s i.
  - cbn [write_range Nat.add]. rewrite Z.add_0_r. reflexivity.
  - cbn [write_range Nat.add]. rewrite IH. f_equal. lia.
Qed.

(* ---------------------------------------------------------------- a run of items on one scan line *)
Lemma run_items wr m bidx bs addr page y : 0 < peff m ->
  forall cnt s x0 t0,
  (forall j, 0 <= j < Z.of_nat cnt ->
     vmem_get_coords m (addr + (t0 + j) * fac m) = (page, x0 + j * peff m, y) /\
     vmem_coord_ok m page (x0 + j * peff m) y = true) ->
  seq_eq (set_run s page y x0 (Z.of_nat cnt * peff m)
                  (fun i old => wr (nthZ bs (bidx (t0 + i / peff m))) (i mod peff m) old))
         (write_range wr m bidx bs addr s t0 cnt).
Proof.
  intros HP. induction cnt as [|c IH]; intros s x0 t0 Hrow.
  - intros p y' x'. unfold set_run. cbn [write_range].
    replace (x' <? x0 + Z.of_nat 0 * peff m) with (x' <? x0) by lia.
    destruct ((p =? page) && (y' =? y) && (x0 <=? x') && (x' <? x0)) eqn:E; [lia|reflexivity].
  - cbn [write_range].
    destruct (Hrow 0 ltac:(lia)) as [Hc0 Hk0].
    rewrite Z.add_0_r, Z.mul_0_l, Z.add_0_r in Hc0. rewrite Z.mul_0_l, Z.add_0_r in Hk0.
    unfold item_write at 1. rewrite Hc0, Hk0.
    set (s' := set_run s page y x0 (peff m) (fun i old => wr (nthZ bs (bidx t0)) i old)).
    eapply seq_eq_trans; [|apply (IH s' (x0 + peff m) (t0 + 1))].
    + intros p y' x'. unfold s', set_run.
      destruct ((p =? page) && (y' =? y)) eqn:Erow; cbn [andb]; [|reflexivity].
      destruct (x0 <=? x') eqn:E1; cbn [andb].
      2:{ replace (x0 + peff m <=? x') with false by lia. reflexivity. }
      destruct (x' <? x0 + peff m) eqn:E2.
      * replace (x' <? x0 + Z.of_nat (S c) * peff m) with true by nia.
        replace (x0 + peff m <=? x') with false by lia. cbn [andb].
        rewrite Z.div_small, Z.mod_small by lia. rewrite Z.add_0_r. reflexivity.
      * replace (x0 + peff m <=? x') with true by lia. cbn [andb].
        replace (x0 + peff m + Z.of_nat c * peff m) with (x0 + Z.of_nat (S c) * peff m) by lia.
        destruct (x' <? x0 + Z.of_nat (S c) * peff m) eqn:E3; [|reflexivity].
        replace (x' - x0) with ((x' - (x0 + peff m)) + 1 * peff m) by lia.
        rewrite Z.div_add, Z.mod_add by lia.
        replace (t0 + 1 + (x' - (x0 + peff m)) / peff m) with (t0 + ((x' - (x0 + peff m)) / peff m + 1)) by lia.
        reflexivity.
    + intros j Hj. specialize (Hrow (j + 1) ltac:(lia)).
      replace (t0 + 1 + j) with (t0 + (j + 1)) by lia.
      replace (x0 + peff m + j * peff m) with (x0 + (j + 1) * peff m) by lia. exact Hrow.
Qed.

(* ---------------------------------------------------------------- the spans of a walk *)
Lemma set_spans_cons wr p bidx bs page x y ofs len l s :
  set_spans wr p bidx bs ((page, x, y, ofs, len) :: l) s
  = set_spans wr p bidx bs l
      (set_run s page y x (len * p) (fun i old => wr (nthZ bs (bidx (ofs + i / p))) (i mod p) old)).
Proof. reflexivity. Qed.

Lemma set_spans_from wr m bidx bs addr n : wf_gmode m = true ->
  forall fuel ofs s, (Z.to_nat (n - ofs) < fuel)%nat -> 0 <= ofs ->
  seq_eq (set_spans wr (peff m) bidx bs (walk_from fuel m addr n ofs) s)
         (write_range wr m bidx bs addr s ofs (Z.to_nat (n - ofs))).
Proof.
  intros W. pose proof (wf_pos m W) as (_ & _ & _ & HP & _).
  induction fuel as [|f IH]; intros ofs s Hf Hofs; [lia|].
  cbn [walk_from].
  destruct (ofs <? n) eqn:E.
  2:{ apply Z.ltb_ge in E. replace (Z.to_nat (n - ofs)) with 0%nat by lia. apply seq_eq_refl. }
  apply Z.ltb_lt in E.
  destruct (vmem_get_coords m (addr + ofs * fac m)) as [[page x] y] eqn:Ec.
  pose proof (run_facts m addr n ofs page x y W E Ec) as (Hl1 & Hl2 & Hrow).
  set (len := run_len m addr n ofs x) in *.
  replace (Z.to_nat (n - ofs)) with (Z.to_nat len + Z.to_nat (n - (ofs + len)))%nat by lia.
  rewrite write_range_app. rewrite Z2Nat.id by lia.
  destruct (vmem_coord_ok m page x y) eqn:Eok.
  - cbn [app]. rewrite set_spans_cons.
    eapply seq_eq_trans; [apply IH; lia|].
    apply write_range_cong.
    replace (len * peff m) with (Z.of_nat (Z.to_nat len) * peff m) by lia.
    apply run_items; [exact HP|].
    intros j Hj. destruct (Hrow j ltac:(lia)) as [Hc Hk]. split; [exact Hc | exact Hk].
  - cbn [app].
    eapply seq_eq_trans; [apply IH; lia|].
    apply write_range_cong.
    (* the items of the run are not on the screen: writing them changes nothing *)
    clear IH Hf.
    assert (Hskip : forall cnt s0 t0, (forall j, 0 <= j < Z.of_nat cnt ->
                exists p' x' y', vmem_get_coords m (addr + (t0 + j) * fac m) = (p', x', y') /\
                                 vmem_coord_ok m p' x' y' = false) ->
              write_range wr m bidx bs addr s0 t0 cnt = s0).
    { induction cnt as [|c IHc]; intros s0 t0 H; [reflexivity|].
      cbn [write_range]. destruct (H 0 ltac:(lia)) as (p' & x' & y' & Hc' & Hk').
      rewrite Z.add_0_r in Hc'. unfold item_write at 1. rewrite Hc', Hk'.
      apply IHc. intros j Hj. specialize (H (j + 1) ltac:(lia)).
      replace (t0 + 1 + j) with (t0 + (j + 1)) by lia. exact H. }
    rewrite Hskip; [apply seq_eq_refl|].
    intros j Hj. destruct (Hrow j ltac:(lia)) as [Hc Hk].
    exists page, (x + j * peff m), y. split; [exact Hc | exact Hk].
Qed.

Lemma set_spans_walk wr m bidx bs addr n s : wf_gmode m = true ->
  seq_eq (set_spans wr (peff m) bidx bs (walk m addr n (fac m)) s)
         (write_range wr m bidx bs addr s 0 (Z.to_nat n)).
Proof.
  intros W. rewrite walk_eq by assumption.
  replace (Z.to_nat n) with (Z.to_nat (n - 0)) by (f_equal; lia).
  apply set_spans_from; [exact W | lia | lia].
Qed.
