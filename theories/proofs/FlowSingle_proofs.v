(* C19: FOR / NEXT with a single-precision counter (model/FlowSingle.v): the recurrence on the accumulated
   counter, stuck counters, termination under progress *)
From Coq Require Import ZArith List Bool Lia.
From PCB Require Import lib.Result lib.PyInt lib.MBFPrims gen.Gen_mbf gen.Gen_flow model.MBF model.FlowSingle
  proofs.MBF_base proofs.MBF_compare proofs.FlowFor_proofs.
Import ListNotations.
Open Scope Z_scope.

(* ------------------------------------------------------------------ the recurrence *)

(* l is the sequence of counter values that follow c: each is the previous one (+) step, and none of them has
   passed the end *)
Inductive s_chain (susp : bool) (step stop : list Z) : list Z -> list (list Z) -> Prop :=
| chain_nil c : s_chain susp step stop c []
| chain_cons c c' soft l :
    s_add susp c step = SN_ok c' soft -> s_passed flow_next_dir step c' stop = false ->
    s_chain susp step stop c' l -> s_chain susp step stop c (c' :: l).

Lemma body_values_app t1 t2 : body_values (t1 ++ t2) = body_values t1 ++ body_values t2.
Proof. induction t1 as [|[c| |c] t1 IH]; simpl; rewrite ?IH; reflexivity. Qed.

Lemma body_values_msg (soft : bool) t : body_values ((if soft then [EvOverflowMsg] else []) ++ t) = body_values t.
Proof. destruct soft; reflexivity. Qed.

(* the passes of the body follow the recurrence c_(k+1) = c_k (+) step, tested against the end after each
   addition *)
Lemma s_loop_chain susp step stop : forall fuel c t e,
  s_loop fuel susp step stop c = (t, e) -> s_chain susp step stop c (body_values t).
Proof.
  induction fuel as [|f IH]; intros c t e H; simpl in H.
  - inversion H; subst. constructor.
  - destruct (s_add susp c step) as [c' soft|err|x] eqn:Ea; try (inversion H; subst; constructor).
    destruct (s_passed flow_next_dir step c' stop) eqn:Ep.
    + inversion H; subst. rewrite body_values_msg. simpl. constructor.
    + destruct (s_loop f susp step stop c') as [t' e'] eqn:El. inversion H; subst.
      rewrite body_values_msg. simpl. econstructor; eauto.
Qed.

Lemma last_default {A} (l : list A) x a b : last (x :: l) a = last (x :: l) b.
Proof. revert x; induction l as [|y l IH]; intros x; [reflexivity|]. simpl in *. apply IH. Qed.

(* a run that finishes ends with the first value that has passed the end, which is what X holds afterwards *)
Lemma s_loop_finished susp step stop : forall fuel c t,
  s_loop fuel susp step stop c = (t, S_finished) ->
  exists c' soft, s_add susp (last (body_values t) c) step = SN_ok c' soft /\
                  s_passed flow_next_dir step c' stop = true /\ In (EvAfter c') t.
Proof.
  induction fuel as [|f IH]; intros c t H; simpl in H; [discriminate|].
  destruct (s_add susp c step) as [c' soft|err|x] eqn:Ea; try discriminate.
  destruct (s_passed flow_next_dir step c' stop) eqn:Ep.
  - inversion H; subst. exists c', soft. rewrite body_values_msg. simpl. repeat split; auto.
    apply in_or_app. right. left. reflexivity.
  - destruct (s_loop f susp step stop c') as [t' e'] eqn:El. inversion H; subst.
    destruct (IH c' t' El) as (c'' & soft' & H1 & H2 & H3). exists c'', soft'.
    rewrite body_values_msg. simpl. repeat split; auto.
    + destruct (body_values t') as [|y l]; [exact H1|]. rewrite (last_default l y c c'). exact H1.
    + apply in_or_app. right. right. exact H3.
Qed.

(* FOR: the body runs first with the start value unless the start has already passed the end *)
Lemma s_for_enters fuel susp start stop step :
  s_passed flow_for_dir step start stop = false ->
  s_for fuel susp start stop step =
    (EvBody start :: fst (s_loop fuel susp step stop start), snd (s_loop fuel susp step stop start)).
Proof. intros H. unfold s_for. rewrite H. destruct (s_loop fuel susp step stop start). reflexivity. Qed.

Lemma s_for_skips fuel susp start stop step c' :
  s_passed flow_for_dir step start stop = true ->
  s_add susp start step = SN_ok c' false -> s_passed flow_next_dir step c' stop = true ->
  s_for fuel susp start stop step = ([EvAfter c'], S_finished).
Proof. intros H Ha Hp. unfold s_for. rewrite H, Ha, Hp. reflexivity. Qed.

(* ------------------------------------------------------------------ a counter that the step does not move *)

(* if c (+) step = c (the step is below half a unit in the last place of c) and c has not passed the end,
   the loop never ends: the body is repeated with the same value for ever *)
Lemma s_loop_stuck susp step stop c :
  s_add susp c step = SN_ok c false -> s_passed flow_next_dir step c stop = false ->
  forall fuel, s_loop fuel susp step stop c = (repeat (EvBody c) fuel, S_no_end).
Proof.
  intros Ha Hp. induction fuel as [|f IH]; simpl; [reflexivity|].
  rewrite Ha, Hp, IH. reflexivity.
Qed.

(* ------------------------------------------------------------------ termination under progress *)

Lemma passed_up_spec step c stop : flow_next_dir (mbf_sign SC step) = true ->
  buf_ok SC c -> buf_ok SC stop ->
  s_passed flow_next_dir step c stop = (f_sval SC c >? f_sval SC stop).
Proof.
  intros Hd Hc Hs. unfold s_passed. rewrite Hd. apply mbf_gt_spec; auto. apply Single_ok.
Qed.

(* upward loop: if every addition to a counter that has not passed the end raises its value by at least
   delta > 0 (no overflow message), the loop ends after at most (stop - c) / delta + 1 further passes *)
Theorem s_loop_terminates susp step stop delta :
  flow_next_dir (mbf_sign SC step) = true -> buf_ok SC stop -> 0 < delta ->
  (forall x, buf_ok SC x -> f_sval SC x <= f_sval SC stop ->
     exists x', s_add susp x step = SN_ok x' false /\ buf_ok SC x' /\ f_sval SC x + delta <= f_sval SC x') ->
  forall n c, buf_ok SC c -> f_sval SC c <= f_sval SC stop ->
    f_sval SC stop - f_sval SC c < Z.of_nat n * delta ->
    forall fuel, (n <= fuel)%nat -> snd (s_loop fuel susp step stop c) = S_finished.
Proof.
  intros Hd Hs Hdelta Hprog. induction n as [|n IH]; intros c Hc Hle Hn fuel Hf.
  - simpl in Hn. lia.
  - destruct fuel as [|f]; [lia|]. simpl.
    destruct (Hprog c Hc Hle) as (c' & Ha & Hc' & Hinc). rewrite Ha. simpl.
    rewrite (passed_up_spec step c' stop Hd Hc' Hs).
    destruct (f_sval SC c' >? f_sval SC stop) eqn:Ep; [reflexivity|].
    specialize (IH c' Hc' ltac:(lia)).
    assert (Hn' : f_sval SC stop - f_sval SC c' < Z.of_nat n * delta).
    { rewrite Nat2Z.inj_succ in Hn. lia. }
    specialize (IH Hn' f ltac:(lia)).
    destruct (s_loop f susp step stop c'). exact IH.
Qed.
