(* C34: pixel packing and colour plane bit facts (finite sweeps lifted by forallb_forall + Z.testbit lemmas) *)
From Coq Require Import ZArith List Bool Lia ZifyBool.
From PCB Require Import lib.Result lib.PyInt gen.Gen_vmem model.VideoMem.
Import ListNotations.
Open Scope Z_scope.

Lemma in_zseq lo n k : In k (zseq lo n) <-> lo <= k < lo + n.
Proof.
  unfold zseq. rewrite in_map_iff. split.
  - intros (j & Hj & Hin). apply in_seq in Hin. lia.
  - intros H. exists (Z.to_nat (k - lo)). split; [lia|]. apply in_seq. lia.
Qed.

Lemma zseq_length lo n : length (zseq lo n) = Z.to_nat n.
Proof. unfold zseq. rewrite map_length, seq_length. reflexivity. Qed.

(* ---------------------------------------------------------------- pack / unpack *)
Lemma pack_byte_ext_mask ipb f g :
  (forall k, 0 <= k < ipb -> Z.land (f k) (pk_mask ipb) = Z.land (g k) (pk_mask ipb)) ->
  pack_byte ipb f = pack_byte ipb g.
Proof.
  intros H. unfold pack_byte. f_equal. apply map_ext_in. intros k Hk.
  apply in_zseq in Hk. rewrite H by lia. reflexivity.
Qed.

Lemma pack_byte_ext ipb f g : (forall k, 0 <= k < ipb -> f k = g k) -> pack_byte ipb f = pack_byte ipb g.
Proof. intros H. apply pack_byte_ext_mask. intros k Hk. rewrite H by exact Hk. reflexivity. Qed.

Lemma zsum_nonneg l : (forall v, In v l -> 0 <= v) -> 0 <= zsum l.
Proof.
  induction l as [|a l IH]; intros H; cbn [zsum fold_right]; [lia|].
  assert (0 <= a) by (apply H; left; reflexivity).
  assert (0 <= zsum l) by (apply IH; intros v Hv; apply H; right; exact Hv).
  unfold zsum in *. lia.
Qed.

Lemma pack_byte_nonneg ipb f : 0 <= pk_mask ipb -> 0 <= pack_byte ipb f.
Proof.
  intros Hm. unfold pack_byte. apply zsum_nonneg. intros v Hv.
  apply in_map_iff in Hv. destruct Hv as (k & <- & _).
  apply Z.shiftl_nonneg. apply Z.land_nonneg. right. exact Hm.
Qed.

Definition ipbs : list Z := [1; 2; 4; 8].

Lemma pack_unpack_sweep :
  forallb (fun ipb => forallb (fun b => pack_byte ipb (unpack_byte ipb b) =? b) (zseq 0 256)) ipbs = true.
Proof. vm_compute. reflexivity. Qed.

Lemma pack_unpack ipb b : In ipb ipbs -> 0 <= b < 256 -> pack_byte ipb (unpack_byte ipb b) = b.
Proof.
  intros Hi Hb. pose proof pack_unpack_sweep as S. rewrite forallb_forall in S.
  specialize (S ipb Hi). rewrite forallb_forall in S.
  apply Z.eqb_eq. apply S. apply in_zseq. lia.
Qed.

Lemma unpack_masked ipb b k : Z.land (unpack_byte ipb b k) (pk_mask ipb) = unpack_byte ipb b k.
Proof. unfold unpack_byte. rewrite <- Z.land_assoc, Z.land_diag. reflexivity. Qed.

Lemma mask_ipbs ipb : In ipb ipbs -> 0 <= pk_mask ipb.
Proof. intros H. cbn in H. destruct H as [<-|[<-|[<-|[<-|[]]]]]; vm_compute; discriminate. Qed.

Lemma divisor8 a b : 0 < a -> a * b = 8 -> In b ipbs.
Proof.
  intros Ha Hab. assert (Hb : 1 <= b <= 8) by nia.
  assert (C : b = 1 \/ b = 2 \/ b = 3 \/ b = 4 \/ b = 5 \/ b = 6 \/ b = 7 \/ b = 8) by lia.
  cbn. destruct C as [->|[->|[->|[->|[->|[->|[->| ->]]]]]]]; try lia; tauto.
Qed.

(* ---------------------------------------------------------------- one bit of a pixel *)
Lemma land1_testbit v : Z.land v 1 = Z.b2z (Z.testbit v 0).
Proof. change 1 with (Z.ones 1). rewrite Z.land_ones by lia. rewrite Z.bit0_mod. reflexivity. Qed.

Lemma plane_bit v p : 0 <= p -> Z.land (Z.shiftr v p) 1 = Z.b2z (Z.testbit v p).
Proof. intros Hp. rewrite land1_testbit, Z.shiftr_spec by lia. reflexivity. Qed.

Lemma unpack8_bit b i : unpack_byte 8 b i = Z.b2z (Z.testbit (unpack_byte 8 b i) 0).
Proof.
  unfold unpack_byte. change (pk_mask 8) with 1. rewrite land1_testbit.
  destruct (Z.testbit (Z.shiftr b (pk_shift 8 i)) 0); reflexivity.
Qed.

Lemma unpack8_cases b i : unpack_byte 8 b i = 0 \/ unpack_byte 8 b i = 1.
Proof. rewrite unpack8_bit. destruct (Z.testbit _ 0); [right|left]; reflexivity. Qed.

(* EGA: bit `plane` of a written pixel *)
Lemma ega_wr_bit mask b i old p : 0 <= p ->
  Z.testbit (ega_wr mask b i old) p =
  if Z.testbit mask p then negb (unpack_byte 8 b i =? 0) else Z.testbit old p.
Proof.
  intros Hp. unfold ega_wr. rewrite Z.lor_spec, !Z.land_spec, Z.lnot_spec by lia.
  unfold z2b. destruct (unpack8_cases b i) as [-> | ->]; cbn [Z.eqb negb].
  - rewrite Z.bits_0. destruct (Z.testbit mask p), (Z.testbit old p); reflexivity.
  - destruct (Z.testbit mask p), (Z.testbit old p); reflexivity.
Qed.

Lemma ega_wr_plane mask b i old p : 0 <= p ->
  Z.land (Z.shiftr (ega_wr mask b i old) p) 1 =
  if Z.testbit mask p then unpack_byte 8 b i else Z.land (Z.shiftr old p) 1.
Proof.
  intros Hp. rewrite !plane_bit, ega_wr_bit by lia.
  destruct (Z.testbit mask p); [|reflexivity].
  destruct (unpack8_cases b i) as [-> | ->]; reflexivity.
Qed.

(* Tandy mode 6: plane p of a pixel written through plane `plane` *)
Lemma tandy_wr_bit plane b i old p : 0 <= plane -> 0 <= p ->
  Z.testbit (tandy_wr plane b i old) p =
  if p =? plane then negb (unpack_byte 8 b i =? 0) else Z.testbit old p.
Proof.
  intros Hpl Hp. unfold tandy_wr. cbv zeta.
  rewrite Z.lor_spec, !Z.land_spec, Z.lnot_spec, Z.pow2_bits_eqb by lia.
  rewrite (Z.eqb_sym plane p).
  destruct (p =? plane) eqn:E.
  - apply Z.eqb_eq in E. subst p. rewrite Z.shiftl_spec, Z.sub_diag by lia.
    rewrite andb_true_r, andb_false_r, orb_false_r.
    destruct (unpack8_cases b i) as [-> | ->]; reflexivity.
  - rewrite andb_false_r, andb_true_r. reflexivity.
Qed.

Lemma tandy_wr_plane plane b i old p : 0 <= plane -> 0 <= p ->
  Z.land (Z.shiftr (tandy_wr plane b i old) p) 1 =
  if p =? plane then unpack_byte 8 b i else Z.land (Z.shiftr old p) 1.
Proof.
  intros Hpl Hp. rewrite !plane_bit, tandy_wr_bit by lia.
  destruct (p =? plane); [|reflexivity].
  destruct (unpack8_cases b i) as [-> | ->]; reflexivity.
Qed.

(* writes through different planes commute *)
Lemma tandy_wr_comm p1 p2 b1 i1 b2 i2 old : 0 <= p1 -> 0 <= p2 -> p1 <> p2 ->
  tandy_wr p1 b1 i1 (tandy_wr p2 b2 i2 old) = tandy_wr p2 b2 i2 (tandy_wr p1 b1 i1 old).
Proof.
  intros H1 H2 Hne. apply Z.bits_inj'. intros n Hn.
  rewrite !tandy_wr_bit by lia.
  destruct (n =? p1) eqn:E1, (n =? p2) eqn:E2; try reflexivity. lia.
Qed.
