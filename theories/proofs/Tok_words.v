(* C17: Tokeniser._tokenise_word (word_loop): case-insensitivity for all inputs, and the two run lemmas
   (a safe name is copied, a keyword is replaced by its token). *)
From Coq Require Import ZArith List Bool Lia.
From PCB Require Import lib.Result lib.PyInt lib.Harness gen.Gen_tokens model.Tok model.Lister model.Lines proofs.Tok_tables.
Import ListNotations.
Open Scope Z_scope.

(* ------------------------------------------------------------------------------------------------ *)
(* case-insensitivity *)

Lemma map_upper_idem l : map upper (map upper l) = map upper l.
Proof. rewrite map_map. apply map_ext. intro. apply upper_idem. Qed.

Lemma count_spaces_upper l : count_spaces (map upper l) = count_spaces l.
Proof.
  induction l as [|c r IH]; simpl; [reflexivity|].
  rewrite upper_eq_low by lia. rewrite IH. reflexivity.
Qed.

Lemma wide_go_upper l : wide_go (map upper l) = wide_go l.
Proof.
  unfold wide_go. rewrite count_spaces_upper.
  repeat (rewrite ?firstn_map, ?skipn_map, ?map_upper_idem). reflexivity.
Qed.

Lemma wide_go_nil : wide_go [] = ([71; 79], false, O).
Proof. reflexivity. Qed.

Lemma word_loop_nil kw word skip :
  snd (word_loop kw word skip []) = [].
Proof.
  destruct skip; [|reflexivity].
  cbn [word_loop]. rewrite wide_go_nil.
  destruct (list_Z_eqb word [71; 79]); cbn [skipn];
    match goal with |- context [assoc ?w kw] => destruct (assoc w kw) end;
    rewrite ?andb_false_r; reflexivity.
Qed.

Theorem word_loop_upper kw : forall l word skip,
  word_loop kw word skip (map upper l) =
  (let '(o, w, r) := word_loop kw word skip l in (o, w, map upper r)).
Proof.
  induction l as [|c r IH]; intros word skip.
  - simpl map. pose proof (word_loop_nil kw word skip) as H.
    destruct (word_loop kw word skip []) as [[o w] r']. simpl in H. subst. reflexivity.
  - destruct skip as [|k].
    + cbn [map word_loop]. rewrite upper_idem.
      set (word1 := word ++ [upper c]).
      assert (Hw : (if list_Z_eqb word1 [71; 79] then wide_go (map upper r) else (word1, false, O)) =
                   (if list_Z_eqb word1 [71; 79] then wide_go r else (word1, false, O))).
      { destruct (list_Z_eqb word1 [71; 79]); [apply wide_go_upper|reflexivity]. }
      rewrite Hw. clear Hw.
      destruct (if list_Z_eqb word1 [71; 79] then wide_go r else (word1, false, O)) as [[word2 allow] k].
      rewrite skipn_map.
      destruct (assoc word2 kw) as [tok|].
      * destruct (skipn k r) as [|n l2] eqn:El2; cbn [map].
        -- rewrite andb_false_r. reflexivity.
        -- rewrite is_name_char_upper.
           destruct (negb (lmem word2 tok_no_longer_name) && negb allow && is_name_char n).
           ++ apply IH.
           ++ reflexivity.
      * rewrite is_name_char_upper.
        destruct (negb (is_name_char c)); [reflexivity|]. apply IH.
    + cbn [map word_loop]. apply IH.
Qed.

(* ------------------------------------------------------------------------------------------------ *)
(* running over the characters of a word *)

Lemma name_char_not_space n : is_name_char n = true -> upper n <> 32.
Proof.
  intro H. rewrite <- is_name_char_upper in H. intro E. rewrite E in H. vm_compute in H. discriminate.
Qed.

Lemma wide_go_name n l : is_name_char n = true -> wide_go (n :: l) = ([71; 79], false, O).
Proof.
  intro H. unfold wide_go. cbn [firstn map]. pose proof (name_char_not_space n H) as Hn.
  assert (E : (upper n =? 32) = false) by (apply Z.eqb_neq; exact Hn).
  cbn [list_Z_eqb]. rewrite E. cbn [andb]. reflexivity.
Qed.

Lemma word_loop_step kw word c n r :
  step_continues kw word c n = true ->
  word_loop kw word O (c :: n :: r) = word_loop kw (word ++ [upper c]) O (n :: r).
Proof.
  unfold step_continues, has_key. intros H.
  apply andb_true_iff in H as [H Hgo]. apply andb_true_iff in H as [Hc H].
  cbn [word_loop]. set (word1 := word ++ [upper c]) in *.
  assert (Hw : (if list_Z_eqb word1 [71; 79] then wide_go (n :: r) else (word1, false, O)) = (word1, false, O)).
  { destruct (list_Z_eqb word1 [71; 79]) eqn:E; [|reflexivity].
    cbn [negb orb] in Hgo.
    rewrite wide_go_name by exact Hgo. apply list_Z_eqb_eq in E. rewrite E. reflexivity. }
  rewrite Hw. cbn [skipn].
  destruct (assoc word1 kw) as [tok|].
  - apply andb_true_iff in H as [H1 H2]. rewrite H1, H2. reflexivity.
  - rewrite Hc. reflexivity.
Qed.

Lemma word_loop_run kw : forall w word cl rest,
  run_ok kw word (w ++ [cl]) = true ->
  word_loop kw word O ((w ++ [cl]) ++ rest) = word_loop kw (word ++ map upper w) O (cl :: rest).
Proof.
  induction w as [|c w IH]; intros word cl rest H.
  - simpl. rewrite app_nil_r. reflexivity.
  - cbn [app] in *. destruct (w ++ [cl]) as [|n w'] eqn:E.
    + destruct w; discriminate.
    + cbn [run_ok] in H. apply andb_true_iff in H as [H1 H3].
      cbn [app]. rewrite word_loop_step by assumption.
      change (n :: w' ++ rest) with ((n :: w') ++ rest). rewrite <- E.
      rewrite IH by (rewrite E; exact H3).
      cbn [map]. rewrite <- app_assoc. reflexivity.
Qed.

(* ---- a keyword at the end of the run ---- *)
(* last step: word ++ [upper cl] = k is a keyword, and either it ends words at once or no name char follows *)
Lemma word_loop_keyword_end kw word cl rest k tok :
  word ++ [upper cl] = k -> k <> [71; 79] ->
  assoc k kw = Some tok ->
  lmem k tok_no_longer_name || next_not_name rest = true ->
  word_loop kw word O (cl :: rest) = (emit_keyword k tok, k, rest).
Proof.
  intros Hk Hgo Ha Hf. cbn [word_loop]. rewrite Hk.
  apply list_Z_eqb_neq in Hgo. rewrite Hgo. cbn [skipn]. rewrite Ha.
  destruct (lmem k tok_no_longer_name) eqn:El; cbn [negb andb]; [reflexivity|].
  cbn [orb] in Hf. destruct rest as [|n r]; [reflexivity|].
  cbn [next_not_name] in Hf. apply negb_true_iff in Hf. rewrite Hf. reflexivity.
Qed.

(* table check for one keyword k: all but the last character continue, k is not "GO" *)
Definition kw_word_ok (kw : list (list Z * list Z)) (k : list Z) : bool :=
  run_ok kw [] k && negb (list_Z_eqb k [71; 79]) && list_Z_eqb (map upper k) k
  && negb (match k with [] => true | _ => false end).

Lemma split_last (l : list Z) : l <> [] -> exists w c, l = w ++ [c].
Proof.
  intro H. destruct (exists_last H) as [w [c E]]. exists w, c. exact E.
Qed.

Lemma run_ok_upper kw : forall w word, run_ok kw word (map upper w) = run_ok kw word w.
Proof.
  induction w as [|c w IH]; intro word; [reflexivity|].
  cbn [map run_ok]. destruct w as [|n w']; [reflexivity|].
  cbn [map]. unfold step_continues. rewrite upper_idem, !is_name_char_upper.
  change (upper n :: map upper w') with (map upper (n :: w')). rewrite IH. reflexivity.
Qed.

Theorem word_loop_keyword kw k tok k' rest :
  kw_word_ok kw k = true -> assoc k kw = Some tok ->
  map upper k' = k ->
  lmem k tok_no_longer_name || next_not_name rest = true ->
  word_loop kw [] O (k' ++ rest) = (emit_keyword k tok, k, rest).
Proof.
  intros Hok Ha Hup Hf.
  unfold kw_word_ok in Hok. repeat (apply andb_true_iff in Hok as [Hok ?]).
  assert (Hne : k' <> []).
  { intro E. subst k'. simpl in Hup. subst k. discriminate. }
  destruct (split_last k' Hne) as [w [cl E]]. subst k'.
  rewrite word_loop_run.
  - apply word_loop_keyword_end with (k := k); try assumption.
    + cbn [app]. rewrite <- Hup. rewrite map_app. reflexivity.
    + apply list_Z_eqb_neq. apply negb_true_iff. assumption.
  - rewrite <- run_ok_upper. rewrite Hup. exact Hok.
Qed.

(* ---- names ---- *)
(* n is copied as a name when: every character is a name character, no nonempty prefix is a word-ending
   keyword, n is not a keyword, n is not GO, and what follows is the end of the text or a character c that is
   not a name character and does not complete a keyword (MID + $, SPC + ( ...) *)
Lemma removelast_snoc (l : list Z) c : removelast (l ++ [c]) = l.
Proof. rewrite removelast_app by discriminate. simpl. apply app_nil_r. Qed.

Lemma word_loop_name_step kw word cl rest n :
  word ++ [upper cl] = n -> is_name_char cl = true ->
  n <> [71; 79] -> assoc n kw = None ->
  word_loop kw word O (cl :: rest) = word_loop kw n O rest.
Proof.
  intros Hn Hc Hgo Hk. cbn [word_loop]. rewrite Hn.
  apply list_Z_eqb_neq in Hgo. rewrite Hgo. cbn [skipn]. rewrite Hk, Hc. reflexivity.
Qed.

Lemma word_loop_name_stop kw n rest :
  n <> [71; 79] -> assoc n kw = None -> name_follow kw n rest = true ->
  word_loop kw n O rest = (n, n, rest).
Proof.
  intros Hgo Hk Hf. destruct rest as [|c r].
  - cbn [word_loop]. apply list_Z_eqb_neq in Hgo. rewrite Hgo. cbn [skipn]. rewrite Hk. reflexivity.
  - cbn [name_follow] in Hf. apply andb_true_iff in Hf as [Hf1 Hf2].
    apply negb_true_iff in Hf1. apply negb_true_iff in Hf2. unfold has_key in Hf2.
    cbn [word_loop].
    assert (Hgo2 : list_Z_eqb (n ++ [upper c]) [71; 79] = false).
    { apply list_Z_eqb_neq. intro E.
      assert (Hu : upper c = 79).
      { apply (f_equal (@rev Z)) in E. rewrite rev_app_distr in E. simpl in E. inversion E. reflexivity. }
      rewrite <- is_name_char_upper in Hf1. rewrite Hu in Hf1. vm_compute in Hf1. discriminate. }
    rewrite Hgo2. cbn [skipn].
    destruct (assoc (n ++ [upper c]) kw); [discriminate|].
    rewrite Hf1. cbn [negb]. rewrite removelast_snoc. reflexivity.
Qed.

Theorem word_loop_name kw n rest :
  name_ok kw n = true -> name_follow kw n rest = true ->
  word_loop kw [] O (n ++ rest) = (n, n, rest).
Proof.
  intros Hok Hf. unfold name_ok in Hok. repeat (apply andb_true_iff in Hok as [Hok ?]).
  assert (Hne : n <> []) by (intro E; subst n; discriminate).
  destruct (split_last n Hne) as [w [cl E]].
  assert (Hk : assoc n kw = None).
  { unfold has_key in *. destruct (assoc n kw); [discriminate|reflexivity]. }
  assert (Hgo : n <> [71; 79]) by (apply list_Z_eqb_neq; apply negb_true_iff; assumption).
  assert (Hup : map upper n = n) by (apply list_Z_eqb_eq; assumption).
  subst n. rewrite word_loop_run by exact Hok.
  rewrite word_loop_name_step with (n := w ++ [cl]).
  - apply word_loop_name_stop; assumption.
  - cbn [app]. change [upper cl] with (map upper [cl]). rewrite <- map_app. exact Hup.
  - match goal with H : forallb is_name_char _ = true |- _ => rewrite forallb_app in H;
      apply andb_true_iff in H as [_ H]; cbn [forallb] in H; rewrite andb_true_r in H; exact H end.
  - exact Hgo.
  - exact Hk.
Qed.
