(* C27: the snapshot hosts used by the correspondence (model/PathsNt.v) honour the listdir contract whenever
   the snapshot lists only safe names - a decidable check *)
From Coq Require Import ZArith List Bool.
From PCB Require Import lib.Result lib.PyInt gen.Gen_dosnames model.DosNames model.Paths model.PathsNt
  proofs.DosNames_proofs proofs.Paths_proofs.
Import ListNotations.
Open Scope Z_scope.

Definition snapshot_okb (sn : snapshot) : bool := forallb (fun e => forallb safeb (snd e)) sn.

Lemma sn_host_ok sn : snapshot_okb sn = true -> host_ok (sn_host sn).
Proof.
  intros F p l E. simpl in E. unfold sn_listdir in E.
  destruct (lookup sn p) as [[[] ls]|] eqn:L; try discriminate. inversion E; subst. clear E.
  revert F L. unfold snapshot_okb. induction sn as [|[[[l0 cs] d0] ls0] r IH]; simpl; intros F L; [discriminate|].
  apply andb_true_iff in F as [F1 F2].
  destruct (npath_eqb (l0, cs) p).
  - inversion L; subst. apply Forall_forall. intros x Hx. rewrite forallb_forall in F1. apply safeb_safe, F1, Hx.
  - apply IH; assumption.
Qed.
