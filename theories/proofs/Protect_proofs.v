(* C15: the GW-BASIC protection cipher is a bijection on byte strings; file formats round-trip *)
From Coq Require Import ZArith List Bool Lia.
From PCB Require Import lib.Result lib.PyInt gen.Gen_protect model.Protect.
Import ListNotations.
Open Scope Z_scope.

Definition zrange (n : nat) : list Z := map Z.of_nat (seq 0 n).

Lemma zrange_in n z : 0 <= z < Z.of_nat n -> In z (zrange n).
Proof.
  intros H. unfold zrange. apply in_map_iff. exists (Z.to_nat z). split; [lia|].
  apply in_seq. lia.
Qed.

(* finite sweep over all 143 x 256 (index, byte) pairs of the regenerated arithmetic *)
Definition step_ok (i c : Z) : bool :=
  (dec_byte i (enc_byte i c) =? c) && (enc_byte i (dec_byte i c) =? c)
  && byteb (enc_byte i c) && byteb (dec_byte i c).

Lemma step_sweep :
  forallb (fun i => forallb (fun c => step_ok i c) (zrange 256)) (zrange 143) = true.
Proof. vm_compute. reflexivity. Qed.

Lemma step_ok_all i c : 0 <= i < 143 -> byte_ok c -> step_ok i c = true.
Proof.
  intros Hi Hc. pose proof step_sweep as H.
  rewrite forallb_forall in H. specialize (H i (zrange_in 143 i ltac:(lia))).
  rewrite forallb_forall in H. apply H. apply zrange_in. unfold byte_ok in Hc. lia.
Qed.

Lemma dec_enc i c : 0 <= i < 143 -> byte_ok c -> dec_byte i (enc_byte i c) = c.
Proof.
  intros Hi Hc. pose proof (step_ok_all i c Hi Hc) as H. unfold step_ok in H.
  repeat (apply andb_true_iff in H as [H ?]). apply Z.eqb_eq in H. exact H.
Qed.

Lemma enc_dec i c : 0 <= i < 143 -> byte_ok c -> enc_byte i (dec_byte i c) = c.
Proof.
  intros Hi Hc. pose proof (step_ok_all i c Hi Hc) as H. unfold step_ok in H.
  repeat (apply andb_true_iff in H as [H ?]).
  match goal with H1 : (enc_byte _ _ =? _) = true |- _ => apply Z.eqb_eq in H1; exact H1 end.
Qed.

Lemma enc_byte_ok i c : byte_ok (enc_byte i c).
Proof. unfold enc_byte, byte_ok. apply Z.mod_pos_bound. lia. Qed.
Lemma dec_byte_ok i c : byte_ok (dec_byte i c).
Proof. unfold dec_byte, byte_ok. apply Z.mod_pos_bound. lia. Qed.

(* the index stays in 0..142 and both directions step it identically *)
Lemma next_range i : 0 <= protect_protect_next i < 143.
Proof. unfold protect_protect_next. change (Z.mul 13 11) with 143. apply Z.mod_pos_bound. lia. Qed.
Lemma next_same i : protect_unprotect_next i = protect_protect_next i.
Proof. reflexivity. Qed.

Lemma unprotect_all_protect_from l : bytes_ok l -> forall i, 0 <= i < 143 ->
  unprotect_all_from i (protect_from i l) = l.
Proof.
  induction 1 as [|c l Hc Hl IH]; intros i Hi; cbn [protect_from unprotect_all_from]; [reflexivity|].
  rewrite dec_enc by assumption. rewrite next_same. rewrite IH by apply next_range. reflexivity.
Qed.

Lemma protect_unprotect_all_from l : bytes_ok l -> forall i, 0 <= i < 143 ->
  protect_from i (unprotect_all_from i l) = l.
Proof.
  induction 1 as [|c l Hc Hl IH]; intros i Hi; cbn [protect_from unprotect_all_from]; [reflexivity|].
  rewrite enc_dec by assumption. rewrite <- next_same. rewrite next_same, IH by apply next_range. reflexivity.
Qed.

Lemma protect_from_length l : forall i, length (protect_from i l) = length l.
Proof. induction l as [|c l IH]; intros i; simpl; [reflexivity|]. rewrite IH. reflexivity. Qed.

Lemma protect_from_bytes l : forall i, bytes_ok (protect_from i l).
Proof.
  induction l as [|c l IH]; intros i; cbn [protect_from]; constructor; [apply enc_byte_ok | apply IH].
Qed.

(* the reader drops the final byte (EOF marker) and decrypts the rest *)
Lemma unprotect_from_snoc l e : forall i,
  unprotect_from i (l ++ [e]) = unprotect_all_from i l.
Proof.
  induction l as [|c l IH]; intros i; [reflexivity|].
  change ((c :: l) ++ [e]) with (c :: (l ++ [e])).
  cbn [unprotect_from unprotect_all_from]. rewrite <- IH.
  destruct (l ++ [e]) eqn:E; [destruct l; discriminate | reflexivity].
Qed.

Theorem cipher_roundtrip l e : bytes_ok l -> unprotect (protect l ++ [e]) = l.
Proof.
  intros Hl. unfold unprotect, protect. rewrite unprotect_from_snoc.
  apply unprotect_all_protect_from; [assumption | lia].
Qed.

Theorem cipher_bijection l : bytes_ok l ->
  unprotect_all (protect l) = l /\ protect (unprotect_all l) = l
  /\ length (protect l) = length l /\ bytes_ok (protect l).
Proof.
  intros Hl. unfold unprotect_all, protect. repeat split.
  - apply unprotect_all_protect_from; [assumption | lia].
  - apply protect_unprotect_all_from; [assumption | lia].
  - apply protect_from_length.
  - apply protect_from_bytes.
Qed.

Theorem protect_injective l1 l2 : bytes_ok l1 -> bytes_ok l2 -> protect l1 = protect l2 -> l1 = l2.
Proof.
  intros H1 H2 E. rewrite <- (proj1 (cipher_bijection l1 H1)), <- (proj1 (cipher_bijection l2 H2)).
  rewrite E. reflexivity.
Qed.

(* file level *)
Theorem protected_file_roundtrip code : bytes_ok code -> load_file (save_P code) = Some (true, code).
Proof. intros H. unfold save_P, load_file. rewrite cipher_roundtrip by assumption. reflexivity. Qed.

Theorem tokenised_file_roundtrip code : load_file (save_B code) = Some (false, code ++ [26]).
Proof. reflexivity. Qed.

(* the two formats are told apart by the magic byte, never confused *)
Theorem formats_distinct c1 c2 : save_B c1 <> save_P c2.
Proof. unfold save_B, save_P. intros E. inversion E. Qed.
