(* C12: DIM / auto-dimension / ERASE / OPTION BASE rules of the array table *)
From Coq Require Import ZArith List Bool Lia.
From PCB Require Import lib.Result lib.PyInt lib.Harness lib.ArraysLib gen.Gen_arrays model.Arrays.
From PCB Require Import proofs.Arrays_index_proofs proofs.Arrays_list_proofs proofs.Arrays_proofs.
Import ListNotations.
Open Scope Z_scope.

Lemma redim st free n dims a : dims <> [] -> lookup (a_list st) n = Some a ->
  allocate st free n dims = (st, Err err_DUPLICATE_DEFINITION).
Proof. intros Hd La. unfold allocate. destruct dims; [contradiction|]. rewrite La. reflexivity. Qed.

(* with OPTION BASE unset, 0 or 1, dimensioning to 10 can only fail for lack of memory *)
Lemma autodim_alloc st free n k : base_of st <= 10 -> lookup (a_list st) n = None -> (0 < k)%nat ->
  msize (base_of st) (new_arr (defaulted st) n (repeat 10 k)) < free - a_cur st ->
  allocate st free n (repeat 10 k) =
  (push (defaulted st) (new_arr (defaulted st) n (repeat 10 k)), Ok tt).
Proof.
  intros Hb Hl Hk Hm. pose proof (allocate_result st free n (repeat 10 k)) as R.
  assert (Hne : repeat 10 k <> []) by (destruct k; [lia | discriminate]).
  inversion R as [E|a E1 E2|E1 E2 (d & Hd & Hlt)|b E1 E2 E3 E4 (d & Hd & Hlt)|E1 E2 E3 E4 E5|E1 E2 E3 E4 E5].
  - contradiction.
  - congruence.
  - apply repeat_spec in Hd. lia.
  - apply repeat_spec in Hd. unfold base_of in Hb. rewrite E4 in Hb. lia.
  - lia.
  - reflexivity.
Qed.

Lemma autodim st free n idx : AInv st -> sigil_ok n -> base_of st <= 10 ->
  lookup (a_list st) n = None -> idx <> [] ->
  msize (base_of st) (new_arr (defaulted st) n (repeat 10 (length idx))) < free - a_cur st ->
  let st1 := push (defaulted st) (new_arr (defaulted st) n (repeat 10 (length idx))) in
  fst (check_dim st free n idx) = st1 /\
  lookup (a_list st1) n = Some (new_arr (defaulted st) n (repeat 10 (length idx))) /\
  (in_bounds (base_of st) (repeat 10 (length idx)) idx ->
   elem_get st free n idx = (st1, Ok (zeros (size_bytes n)))).
Proof.
  intros I Hs Hb Hl Hi Hm st1.
  assert (Hk : (0 < length idx)%nat) by (destruct idx; [contradiction | simpl; lia]).
  pose proof (autodim_alloc st free n (length idx) Hb Hl Hk Hm) as EA. fold st1 in EA.
  assert (L1 : lookup (a_list st1) n = Some (new_arr (defaulted st) n (repeat 10 (length idx)))).
  { apply (allocate_ok_lookup st free n _ st1 EA Hl). destruct idx; [contradiction | discriminate]. }
  assert (EC : check_dim st free n idx =
          (st1, with_base st1 (fun b => bind (arrays_check_subscripts b idx (repeat 10 (length idx)))
                                             (fun _ => Ok (repeat 10 (length idx)))))).
  { rewrite (check_dim_undeclared _ _ _ _ Hl), EA. cbn [bindS]. rewrite L1. reflexivity. }
  split; [rewrite EC; reflexivity|]. split; [exact L1|]. intros Hin.
  assert (B1 : base_of st1 = base_of st) by (unfold st1, push, base_of; simpl; rewrite defaulted_base; reflexivity).
  assert (Hb1 : a_base st1 = Some (base_of st)) by (unfold st1, push; simpl; apply defaulted_base).
  assert (EC' : check_dim st free n idx = (st1, Ok (repeat 10 (length idx)))).
  { rewrite EC. f_equal. rewrite (with_base_some _ _ _ Hb1).
    assert (X : arrays_check_subscripts (base_of st) idx (repeat 10 (length idx)) = Ok tt)
      by (apply check_subscripts_ok; [apply inv_base, I | exact Hin]).
    rewrite X. reflexivity. }
  destruct (elem_get_ok _ _ _ _ _ _ I Hs EC') as (a & La & Hd & Hin' & E). rewrite E. f_equal. f_equal.
  rewrite L1 in La. inversion La; subst a. rewrite B1.
  unfold elem_of, elem_lo, elem_hi, new_arr. cbn [a_buf a_dims a_name]. rewrite base_of_defaulted.
  pose proof (index_spec_range _ _ _ Hin). pose proof (size_bytes_pos n Hs).
  apply elem_slice_zeros; lia.
Qed.

(* ERASE of a declared array removes it *)
Lemma erase_removes st n a : AInv st -> lookup (a_list st) n = Some a ->
  snd (erase_ st [n]) = Ok tt /\ lookup (a_list (fst (erase_ st [n]))) n = None /\
  AInv (fst (erase_ st [n])).
Proof.
  intros I La. destruct (erase_one_spec st n a I La) as (l1 & l2 & E1 & E2 & I').
  pose proof (erase_inv st [n] I) as [I2 _].
  unfold erase_, erase_names in *. rewrite E2 in *. cbn [bindS fst snd] in *.
  split; [reflexivity|]. split; [|exact I2].
  assert (N : lookup (l1 ++ map (shift_all (msize (base_of st) a)) l2) n = None).
  { apply lookup_none. rewrite map_app, map_map. simpl.
    pose proof (inv_nodup st I) as ND. rewrite E1, map_app in ND. simpl in ND.
    destruct (lookup_some _ _ _ La) as [_ Hn]. rewrite Hn in ND.
    apply NoDup_remove_2 in ND. exact ND. }
  destruct (is_nil _ && _); simpl; exact N.
Qed.

(* the implicit base set by DIM is unset when the last array goes; an explicit one stays *)
Lemma erase_last_base st n a : AInv st -> a_list st = [a] -> a_name a = n ->
  a_base (fst (erase_ st [n])) = if a_bydim st then None else a_base st.
Proof.
  intros I L Hn. assert (La : lookup (a_list st) n = Some a).
  { rewrite L. simpl. rewrite Hn, list_Z_eqb_refl. reflexivity. }
  destruct (erase_one_spec st n a I La) as (l1 & l2 & E1 & E2 & _).
  rewrite L in E1. destruct l1 as [|x l1]; [|destruct l1; discriminate].
  inversion E1; subst l2.
  unfold erase_, erase_names. rewrite E2. cbn [bindS]. unfold erased. simpl.
  destruct (a_bydim st); reflexivity.
Qed.

Lemma option_base_cases st b :
  (a_base st = None -> option_base_ st b = (mkA (a_list st) (Some b) (a_bydim st) (a_cur st), Ok tt)) /\
  (a_base st = Some b -> option_base_ st b = (mkA (a_list st) (Some b) (a_bydim st) (a_cur st), Ok tt)) /\
  (forall b0, a_base st = Some b0 -> b0 <> b -> option_base_ st b = (st, Err err_DUPLICATE_DEFINITION)).
Proof.
  unfold option_base_. repeat split.
  - intros E. rewrite E. reflexivity.
  - intros E. rewrite E, Z.eqb_refl. reflexivity.
  - intros b0 E Hne. rewrite E. destruct (Z.eqb_spec b b0); [congruence | reflexivity].
Qed.

(* DIM sets the implicit base 0 exactly when no base is set *)
Lemma alloc_base st free n dims : snd (allocate st free n dims) = Ok tt -> dims <> [] ->
  a_base (fst (allocate st free n dims)) = Some (base_of st) /\
  a_bydim (fst (allocate st free n dims)) = match a_base st with None => true | Some _ => a_bydim st end.
Proof.
  intros H Hd. pose proof (allocate_result st free n dims) as R.
  destruct (allocate st free n dims) as [s r]. simpl in H. subst r.
  inversion R; subst; try contradiction. simpl. split; [apply defaulted_base|].
  unfold defaulted. destruct (a_base st); reflexivity.
Qed.

(* ---------- statements exported to props/C12.v ---------- *)

Lemma thm_index_injective : forall b dims i j, in_bounds b dims i -> in_bounds b dims j ->
  exists ki kj, arrays_index b i dims = Ok ki /\ arrays_index b j dims = Ok kj /\ (ki = kj -> i = j).
Proof.
  intros b dims i j Hi Hj. exists (index_spec b i dims), (index_spec b j dims).
  split; [apply arrays_index_spec, (in_bounds_length _ _ _ Hi)|].
  split; [apply arrays_index_spec, (in_bounds_length _ _ _ Hj) | exact (index_spec_injective b dims i j Hi Hj)].
Qed.

Lemma thm_index_range : forall b dims idx, in_bounds b dims idx ->
  exists k n, arrays_index b idx dims = Ok k /\ arrays_flat_length b dims = Ok n /\ 0 <= k < n.
Proof.
  intros b dims idx H. exists (index_spec b idx dims), (radix_prod b dims).
  split; [apply arrays_index_spec, (in_bounds_length _ _ _ H)|].
  split; [apply arrays_flat_length_spec, (in_bounds_dims_ok _ _ _ H) | apply index_spec_range, H].
Qed.

Lemma thm_slices_disjoint : forall b dims i j sz, in_bounds b dims i -> in_bounds b dims j -> i <> j ->
  0 < sz ->
  exists ki kj n, arrays_index b i dims = Ok ki /\ arrays_index b j dims = Ok kj /\
    arrays_flat_length b dims = Ok n /\
    0 <= ki * sz /\ (ki + 1) * sz <= n * sz /\ 0 <= kj * sz /\ (kj + 1) * sz <= n * sz /\
    ((ki + 1) * sz <= kj * sz \/ (kj + 1) * sz <= ki * sz).
Proof.
  intros b dims i j sz Hi Hj Hne Hsz.
  exists (index_spec b i dims), (index_spec b j dims), (radix_prod b dims).
  pose proof (index_spec_range b dims i Hi). pose proof (index_spec_range b dims j Hj).
  assert (index_spec b i dims <> index_spec b j dims)
    by (intros C; apply Hne; exact (index_spec_injective b dims i j Hi Hj C)).
  split; [apply arrays_index_spec, (in_bounds_length _ _ _ Hi)|].
  split; [apply arrays_index_spec, (in_bounds_length _ _ _ Hj)|].
  split; [apply arrays_flat_length_spec, (in_bounds_dims_ok _ _ _ Hi) | nia].
Qed.

Lemma thm_errors : forall b idx dims, 0 <= b ->
  (length idx <> length dims -> arrays_check_subscripts b idx dims = Err err_SUBSCRIPT_OUT_OF_RANGE) /\
  (length idx = length dims -> scan b idx dims (arrays_check_subscripts b idx dims)) /\
  (arrays_check_subscripts b idx dims = Ok tt <-> in_bounds b dims idx).
Proof.
  intros b idx dims Hb.
  split; [exact (check_subscripts_rank b idx dims)|].
  split; [exact (check_subscripts_scan b idx dims) | exact (check_subscripts_ok b idx dims Hb)].
Qed.

Lemma thm_errors_state : forall st free n idx a, lookup (a_list st) n = Some a ->
  fst (check_dim st free n idx) = st /\ fst (elem_get st free n idx) = st /\
  (forall v, snd (elem_set st free n idx v) <> Ok tt -> fst (elem_set st free n idx v) = st).
Proof.
  intros st free n idx a La. rewrite elem_get_unfold.
  split; [rewrite (check_dim_declared _ _ _ _ _ La); reflexivity|].
  split.
  - rewrite (check_dim_declared _ _ _ _ _ La).
    destruct (with_base st _) as [d| | |]; cbn [bindS]; try reflexivity. rewrite La. reflexivity.
  - intros v. rewrite elem_set_unfold, (check_dim_declared _ _ _ _ _ La).
    destruct (with_base st _) as [d| | |]; cbn [bindS]; try reflexivity. rewrite La.
    destruct (elem_range st n idx d) as [[lo hi]| | |]; cbn [bindS]; try reflexivity.
    destruct (negb _); simpl; [reflexivity | intros C; exfalso; apply C; reflexivity].
Qed.

Lemma thm_implicit_base : forall st free n dims a,
  (snd (allocate st free n dims) = Ok tt -> dims <> [] ->
   a_base (fst (allocate st free n dims)) = Some (base_of st) /\
   a_bydim (fst (allocate st free n dims)) = match a_base st with None => true | Some _ => a_bydim st end) /\
  (AInv st -> a_list st = [a] -> a_name a = n ->
   a_base (fst (erase_ st [n])) = if a_bydim st then None else a_base st).
Proof. intros. split; [apply alloc_base | apply erase_last_base]. Qed.
