(* MBF_proofs.v - single entry point re-exporting the MBF proof library (C03, C06; reusable by C04 C05 C07):
     MBF_base     constants shape (Single_ok, Double_ok), bit/byte lemmas, le_decode, buffer views,
                  denormalise_spec, is_negative_spec, f_encode_ok / f_encode_fields / f_encode_sval
     MBF_compare  zip_rev_gt_spec, norm_order, norm_unique, f_mag, abs_gt_spec, mbf_gt_spec, mbf_eq_spec,
                  int_gt_spec, int_eq_spec, i_val_range
     MBF_convert  to_int_den_spec, to_int_spec, to_int_truncate_spec, loop1_spec, loop2_spec,
                  bring_to_range_spec, pack_spec, set_last_spec, land_mask_spec, store_spec,
                  check_limits_ok / _overflow, zeros_ok, from_int_spec, from_int_exact, itrunc_spec, from_int16_spec
     MBF_round    land256, land_carrymask, loop3_exit, normalise_norm_spec (norm_result, round_even8),
                  from_single_spec, to_single_spec, one_encode, add_den_one, isub_one_spec, ifloor_spec
     MBF_digits   digits_roundtrip, py_int_fmt
     MBF_values   to_double_exact, to_single_exact, v_gt_bool_spec, v_eq_bool_spec, operators_spec,
                  v_cint_spec, v_fix_spec, v_int_spec, mk_cv_inverse, v_csng_double_spec, hex/oct_roundtrip *)
From PCB Require Export proofs.MBF_base proofs.MBF_compare proofs.MBF_convert proofs.MBF_round
  proofs.MBF_digits proofs.MBF_values.
