(* C36: plain-text placement from an arbitrary state inside the window: stale line-continuation (wrap) flags and a
   pending overflow at the start are allowed.  The reference layout `layoutw` knows the continuation flags of the
   rows ahead (as a function of the virtual row): a character written in the last column of a flagged row moves the
   cursor to the next row at once (the window scrolls one step earlier) instead of leaving a pending overflow. *)
From Coq Require Import ZArith List Bool Lia ZifyBool Arith.
From PCB Require Import lib.Result lib.PyInt model.Cursor proofs.Cursor_lists proofs.Cursor_inv proofs.Cursor_place.
Import ListNotations.
Open Scope Z_scope.

Fixpoint layoutw (W : Z) (fl : Z -> bool) (g : vgrid) (vr vc : Z) (str : list Z) : vgrid * (Z * Z) :=
  match str with
  | [] => (g, (vr, vc))
  | ch :: t =>
      let vr1 := if vc >? W then vr + 1 else vr in
      let vc1 := if vc >? W then 1 else vc in
      let g' := fun r c => if (r =? vr1) && (c =? vc1) then ch else g r c in
      if (vc1 =? W) && fl vr1 then layoutw W fl g' (vr1 + 1) 1 t else layoutw W fl g' vr1 (vc1 + 1) t
  end.

(* ---- consuming a pending overflow, whatever the flag of the row *)
Definition after_pending (s : st) : st :=
  let s' := set_ovf (set_col s (width s + 1)) false in
  if wraps_at s (row s) then s' else set_wrap s' (row s) true.

Lemma consume_pending_gen s : ovf s = true -> col s = width s -> row s < height s ->
  consume_overflow false s = set_rc (after_pending s) (row s + 1) 1.
Proof.
  intros Ho Hc Hr. unfold consume_overflow, after_pending. rewrite Ho.
  set (s1 := set_ovf (set_col s (col s + 1)) false).
  assert (E1 : col s1 >? width s1 = true) by (unfold s1; setters; proj; lia).
  assert (E2 : row s1 <? height s1 = true) by (unfold s1; setters; proj; lia).
  assert (E3 : wraps_at s1 (row s1) = wraps_at s (row s)) by (unfold s1, wraps_at; setters; proj; reflexivity).
  rewrite E1, E2, E3. cbn [andb]. unfold s1. rewrite Hc.
  destruct (wraps_at s (row s)); cbn [negb]; setters; proj; reflexivity.
Qed.

Lemma after_pending_facts s : GG s -> 1 <= row s ->
  let s1 := set_rc (after_pending s) (row s + 1) 1 in
  GG s1 /\ bra s1 = bra s /\ col s1 = 1 /\ row s1 = row s + 1 /\ cells s1 = cells s /\ ovf s1 = false /\
  same_env s s1 /\ length (wraps s1) = length (wraps s) /\
  (forall r, 1 <= r -> r <> row s -> wraps_at s1 r = wraps_at s r).
Proof.
  intros HG Hr. cbv zeta. unfold after_pending. destruct (wraps_at s (row s)) eqn:E.
  - split; [exact HG|]. setters. proj. repeat split; try reflexivity.
  - split; [apply (GG_set_wrap s (row s) true HG)|]. unfold set_wrap. setters. proj.
    repeat split; try reflexivity.
    + apply upd_length.
    + intros r Hr1 Hne.
      change (wraps_at (set_wrap s (row s) true) r = wraps_at s r).
      apply wraps_at_set_wrap_other; lia.
Qed.

Lemma wraps_scroll_up_bottom s a b : length (wraps s) = zn (height s) -> 1 <= a <= b -> b < height s ->
  wraps_at (b_scroll_up s a b) b = false.
Proof.
  intros Hl Ha Hb. unfold wraps_at, b_scroll_up. setters. proj.
  set (w1 := insert_at (zn b) false (wraps s)).
  assert (L1 : length w1 = S (zn (height s))) by (unfold w1; rewrite insert_at_length; unfold zn in *; lia).
  set (i := zn (pyidx (a - 2) (length w1))).
  set (w2 := if nth i w1 false then upd i (nth (zn (a - 1)) w1 false) w1 else w1).
  rewrite pyidx_nonneg by lia.
  rewrite nth_delete_at.
  replace (Nat.ltb (zn (b - 1)) (zn (a - 1))) with false by (symmetry; apply Nat.ltb_ge; unfold zn; lia).
  replace (S (zn (b - 1))) with (zn b) by (unfold zn; lia).
  assert (N1 : nth (zn b) w1 false = false).
  { unfold w1. rewrite nth_insert_at by (unfold zn in *; lia).
    rewrite Nat.ltb_irrefl, Nat.eqb_refl. reflexivity. }
  assert (Hi : zn b <> i).
  { unfold i. rewrite L1. unfold pyidx. destruct (a - 2 <? 0) eqn:E; unfold zn in *; lia. }
  unfold w2. destruct (nth i w1 false); [|exact N1].
  rewrite nth_upd_other by auto. exact N1.
Qed.

(* scrolling the window by one row shifts the view on the virtual page by one *)
Lemma shifted_scroll_up (cs cs0 : list (list Z)) (g : vgrid) H W T B K : shape cs H W -> 1 <= T <= B -> B < H ->
  (forall R C, 1 <= R <= H -> 1 <= C <= W ->
     get_cell cs R C = if (T <=? R) && (R <=? B) then g (R + K) C else get_cell cs0 R C) ->
  (forall C, g (B + K + 1) C = 32) ->
  forall R C, 1 <= R <= H -> 1 <= C <= W ->
    get_cell (scroll_up_l W cs T B) R C =
      if (T <=? R) && (R <=? B) then g (R + (K + 1)) C else get_cell cs0 R C.
Proof.
  intros Hsh HT HB Hc Hb R C HR HC.
  rewrite (get_scroll_up cs H W) by (try apply Hsh; lia).
  destruct ((T <=? R) && (R <? B)) eqn:E1.
  - rewrite (Hc (R + 1) C) by lia.
    replace ((T <=? R + 1) && (R + 1 <=? B)) with true by lia.
    replace ((T <=? R) && (R <=? B)) with true by lia.
    replace (R + 1 + K) with (R + (K + 1)) by lia. reflexivity.
  - destruct (R =? B) eqn:E2.
    + assert (R = B) by lia. subst R.
      replace ((T <=? B) && (B <=? B)) with true by lia.
      replace (B + (K + 1)) with (B + K + 1) by lia. symmetry. apply Hb.
    + rewrite (Hc R C HR HC). replace ((T <=? R) && (R <=? B)) with false by lia. reflexivity.
Qed.

Section Placement.
Variable s0 : st.
Variable fl : Z -> bool.
Let W := width s0.
Let H := height s0.
Let T := top s0.
Let B := bot s0.

Hypothesis G0 : geom_ok s0.
Hypothesis Hfl : forall v, v > B -> fl v = false.

Record rel2 (s : st) (g : vgrid) (vr vc : Z) : Prop := mkrel2 {
  q_env : same_env s0 s;
  q_GG : GG s;
  q_bra : bra s = false;
  q_row : row s = vr - Z.max 0 (vr - B) /\ T <= row s <= B;
  q_col : (1 <= vc <= W /\ col s = vc /\ ovf s = false) \/ (vc = W + 1 /\ col s = W /\ ovf s = true);
  q_cells : shifted s0 s g (Z.max 0 (vr - B));
  q_below : forall r c, r > Z.max vr B -> g r c = 32;
  q_flags : forall r, row s <= r <= B -> (r = row s -> ovf s = false) ->
            wraps_at s r = fl (r + Z.max 0 (vr - B))
}.

Lemma rel2_step s g vr vc ch : rel2 s g vr vc ->
  let vr1 := if vc >? W then vr + 1 else vr in
  let vc1 := if vc >? W then 1 else vc in
  let g' := fun r c => if (r =? vr1) && (c =? vc1) then ch else g r c in
  if (vc1 =? W) && fl vr1 then rel2 (write_char false s ch) g' (vr1 + 1) 1
  else rel2 (write_char false s ch) g' vr1 (vc1 + 1).
Proof.
  intros [Henv HGG Hbra [Hrow Hrw] Hcol Hcells Hbelow Hflags].
  destruct (env_fields s0 s Henv) as (EW & EH & ET & EB). fold W H T B in EW, EH, ET, EB.
  destruct G0 as (G1 & G2 & G3 & G4 & G5 & G6). fold H W T B in G1, G2, G3, G4, G5.
  pose proof HGG as [_ (Hshape & Hwl & _)]. rewrite EH, EW in Hshape. rewrite EH in Hwl.
  destruct Hcol as [(Hvc & Hc & Ho) | (Hvc & Hc & Ho)].
  - (* the character goes to the current cell *)
    replace (vc >? W) with false by lia. cbv zeta.
    unfold write_char.
    rewrite (consume_noop false s Ho) by lia.
    rewrite (wrap_scroll_noop true s Hbra) by lia.
    set (s3 := b_put s (row s) (col s) ch).
    assert (P3 : GG s3) by (apply GG_put; auto; lia).
    assert (C3 : shifted s0 s3 (fun r c => if (r =? vr) && (c =? vc) then ch else g r c) (Z.max 0 (vr - B))).
    { intros R C HR HC. unfold s3, b_put. setters. proj.
      rewrite (get_put (cells s) H W) by (auto; lia).
      rewrite (Hcells R C HR HC). fold T B.
      destruct ((T <=? R) && (R <=? B)) eqn:EW1.
      - replace (R + Z.max 0 (vr - B) =? vr) with (R =? row s) by lia. rewrite Hc. reflexivity.
      - replace (R =? row s) with false by lia. reflexivity. }
    assert (B3 : forall r c, r > Z.max vr B -> (if (r =? vr) && (c =? vc) then ch else g r c) = 32).
    { intros r c Hr. replace (r =? vr) with false by lia. cbn [andb]. apply Hbelow; auto. }
    assert (F3 : bra s3 = false /\ col s3 = col s /\ row s3 = row s /\ width s3 = W /\ height s3 = H /\ top s3 = T
                 /\ bot s3 = B /\ ovf s3 = false /\ same_env s0 s3 /\ wraps s3 = wraps s
                 /\ cells s3 = put_l (cells s) (row s) (col s) ch)
      by (unfold s3, b_put; setters; proj; repeat split; auto; apply Henv).
    destruct F3 as (F1 & F2 & F3 & F4 & F5 & F6 & F7 & F8 & F9 & F10 & F11).
    assert (WS3 : forall r, wraps_at s3 r = wraps_at s r) by (intro; unfold wraps_at; rewrite F10; reflexivity).
    destruct (col s3 <? width s3) eqn:E4.
    + (* not in the last column *)
      assert (E4' : col s < W) by lia.
      replace (vc =? W) with false by lia. cbn [andb].
      rewrite wrap_scroll_noop by (setters; proj; try lia; auto).
      constructor.
      * exact F9.
      * exact P3.
      * exact F1.
      * setters. proj. rewrite F3. auto.
      * left. setters. proj. lia.
      * exact C3.
      * exact B3.
      * intros r Hr Hov. setters. proj. rewrite F3 in Hr. change (wraps_at s3 r = fl (r + Z.max 0 (vr - B))).
        rewrite WS3. apply Hflags; [lia|auto].
    + (* last column *)
      assert (E4' : col s = W) by lia.
      replace (vc =? W) with true by lia. cbn [andb].
      assert (E5 : wraps_at s3 (row s3) = fl vr).
      { rewrite WS3, F3. rewrite (Hflags (row s)) by (auto; lia). f_equal. lia. }
      rewrite E5. destruct (fl vr) eqn:Efl.
      * (* flagged row: straight to the next row *)
        set (s4 := set_rc s3 (row s3 + 1) 1).
        assert (F4' : bra s4 = false /\ col s4 = 1 /\ row s4 = row s + 1 /\ width s4 = W /\ height s4 = H /\ top s4 = T
                      /\ bot s4 = B /\ ovf s4 = false /\ same_env s0 s4 /\ wraps s4 = wraps s /\ cells s4 = cells s3)
          by (unfold s4; setters; proj; repeat split; auto; try lia; apply F9).
        destruct F4' as (A1 & A2 & A3 & A4 & A5 & A6 & A7 & A8 & A9 & A10 & A11).
        assert (A12 : GG s4) by exact P3.
        destruct (Z_le_gt_dec (row s + 1) B) as [Hle | Hgt].
        -- rewrite (wrap_scroll_noop true s4 A1) by lia.
           assert (K0 : Z.max 0 (vr - B) = 0 /\ Z.max 0 (vr + 1 - B) = 0) by lia.
           destruct K0 as [K0 K1].
           constructor; auto.
           ++ lia.
           ++ left. lia.
           ++ rewrite K1. rewrite K0 in C3. intros R C HR HC. rewrite A11. apply C3; auto.
           ++ intros r c Hr. apply B3. lia.
           ++ intros r Hr _. rewrite K1.
              replace (wraps_at s4 r) with (wraps_at s r) by (unfold wraps_at; rewrite A10; reflexivity).
              rewrite (Hflags r) by (try lia; auto). rewrite K0. reflexivity.
        -- assert (Hrb : row s = B) by lia.
           rewrite (wrap_scroll_scrolls s4 A1) by lia.
           set (s5 := set_row (b_scroll_up s4 (top s4) (bot s4)) (bot s4)).
           assert (P5 : GG s5) by (apply (GG_scroll_up s4 (top s4) (bot s4) A12); lia).
           assert (F5' : bra s5 = false /\ col s5 = 1 /\ width s5 = W /\ height s5 = H /\ top s5 = T /\ bot s5 = B
                         /\ row s5 = B /\ ovf s5 = false /\ same_env s0 s5
                         /\ cells s5 = scroll_up_l W (cells s3) T B).
           { unfold s5, b_scroll_up. setters. proj. rewrite A4, A6, A7, A11. repeat split; auto; apply A9. }
           destruct F5' as (D1 & D2 & D3 & D4 & D5 & D6 & D7 & D8 & D9 & D10).
           assert (HvB : vr = B + Z.max 0 (vr - B)) by (clear - Hrow Hrb; lia).
           assert (KK : Z.max 0 (vr + 1 - B) = Z.max 0 (vr - B) + 1) by (clear - HvB; lia).
           assert (WS5 : wraps_at s5 B = false).
           { change (wraps_at (b_scroll_up s4 (top s4) (bot s4)) B = false).
             rewrite A6, A7. apply wraps_scroll_up_bottom; [rewrite A5, A10; exact Hwl | clear - G3 G4; lia | rewrite A5; exact G5]. }
           assert (Hsh3 : shape (cells s3) H W) by (rewrite F11; apply shape_put; auto).
           clearbody s5 s4 s3.
           constructor.
           ++ exact D9.
           ++ exact P5.
           ++ exact D1.
           ++ clear - D7 HvB KK G4. lia.
           ++ left. split; [clear - G2; lia | auto].
           ++ rewrite KK. intros R C HR HC. rewrite D10.
              apply (shifted_scroll_up (cells s3) (cells s0) (fun r c => if (r =? vr) && (c =? vc) then ch else g r c)
                       H W T B (Z.max 0 (vr - B))); auto.
              intros C'. apply B3. clear - HvB. lia.
           ++ intros r c Hr. apply B3. clear - Hr. lia.
           ++ intros r Hr _. assert (r = B) by (clear - Hr D7; lia). subst r.
              rewrite Hfl by (clear - HvB; lia). exact WS5.
      * (* no flag: pending overflow *)
        rewrite wrap_scroll_noop by (setters; proj; try lia; auto).
        constructor.
        -- exact F9.
        -- exact P3.
        -- exact F1.
        -- setters. proj. rewrite F3. auto.
        -- right. setters. proj. lia.
        -- exact C3.
        -- exact B3.
        -- intros r Hr Hov. setters. proj. rewrite F3 in Hr, Hov.
           assert (r <> row s) by (intro E; specialize (Hov E); discriminate).
           change (wraps_at s3 r = fl (r + Z.max 0 (vr - B))).
           rewrite WS3. apply Hflags; [lia|]. intros E. contradiction.
  - (* pending overflow: the character goes to the first cell of the next row *)
    replace (vc >? W) with true by lia. cbv zeta.
    replace (1 =? W) with false by lia. cbn [andb].
    unfold write_char.
    rewrite (consume_pending_gen s Ho) by lia.
    destruct (after_pending_facts s HGG ltac:(lia)) as (P1 & Q1 & Q2 & Q3 & Q4 & Q5 & Q6 & Q7 & Q8).
    set (s1 := set_rc (after_pending s) (row s + 1) 1) in *.
    destruct (env_fields s s1 Q6) as (X1 & X2 & X3 & X4).
    assert (F10 : same_env s0 s1) by (eapply same_env_trans; eauto).
    assert (F1 : bra s1 = false) by congruence.
    destruct (Z_le_gt_dec (row s + 1) B) as [Hle | Hgt].
    + rewrite (wrap_scroll_noop true s1 F1) by lia.
      set (s3 := b_put s1 (row s1) (col s1) ch).
      assert (P3 : GG s3) by (apply GG_put; auto; lia).
      assert (K0 : Z.max 0 (vr - B) = 0 /\ Z.max 0 (vr + 1 - B) = 0) by lia.
      destruct K0 as [K0 K1].
      assert (E4 : col s3 <? width s3 = true) by (unfold s3, b_put; setters; proj; lia).
      rewrite E4.
      rewrite wrap_scroll_noop by (unfold s3, b_put; setters; proj; try lia; auto).
      constructor; unfold s3, b_put; setters; proj; auto.
      * lia.
      * left. lia.
      * intros R C HR HC. proj. rewrite Q2, Q3, Q4, K1.
        rewrite (get_put (cells s) H W) by (auto; lia).
        rewrite (Hcells R C HR HC). rewrite K0. fold T B.
        destruct ((T <=? R) && (R <=? B)) eqn:EW1.
        -- replace (R + 0 =? vr + 1) with (R =? row s + 1) by lia. reflexivity.
        -- replace (R =? row s + 1) with false by lia. reflexivity.
      * intros r c Hr. replace (r =? vr + 1) with false by lia. cbn [andb]. apply Hbelow. lia.
      * intros r Hr _. rewrite K1. change (wraps_at s1 r = fl (r + 0)).
        rewrite Q8 by lia. rewrite (Hflags r) by (try lia; intros; lia). rewrite K0. reflexivity.
    + assert (Hrb : row s = B) by lia.
      rewrite (wrap_scroll_scrolls s1 F1) by lia.
      set (s2 := set_row (b_scroll_up s1 (top s1) (bot s1)) (bot s1)).
      assert (P2 : GG s2) by (apply (GG_scroll_up s1 (top s1) (bot s1) P1); lia).
      assert (F2' : bra s2 = false /\ col s2 = 1 /\ width s2 = W /\ height s2 = H /\ top s2 = T /\ bot s2 = B
                    /\ row s2 = B /\ ovf s2 = false /\ same_env s0 s2
                    /\ cells s2 = scroll_up_l W (cells s) T B).
      { unfold s2, b_scroll_up. setters. proj. rewrite X1, X3, X4, Q4, EW, ET, EB.
        repeat split; auto; try lia; try apply F10. }
      destruct F2' as (A1 & A2 & A3 & A4 & A5 & A6 & A7 & A8 & A9 & A10).
      set (s3 := b_put s2 (row s2) (col s2) ch).
      assert (P3 : GG s3) by (apply GG_put; auto; lia).
      assert (KK : Z.max 0 (vr + 1 - B) = Z.max 0 (vr - B) + 1) by lia.
      assert (E4 : col s3 <? width s3 = true) by (unfold s3, b_put; setters; proj; lia).
      rewrite E4.
      rewrite wrap_scroll_noop by (unfold s3, b_put; setters; proj; try lia; auto).
      constructor; unfold s3, b_put; setters; proj; auto.
      * lia.
      * left. lia.
      * intros R C HR HC. proj. rewrite A2, A7, A10, KK.
        assert (Hsh : shape (scroll_up_l W (cells s) T B) H W) by (apply shape_scroll_up; auto; lia).
        rewrite (get_put _ H W) by (auto; lia).
        rewrite (get_scroll_up (cells s) H W) by (try apply Hshape; lia). fold T B.
        destruct ((T <=? R) && (R <=? B)) eqn:EW1.
        -- destruct ((R =? B) && (C =? 1)) eqn:EP.
           ++ replace (R + (Z.max 0 (vr - B) + 1) =? vr + 1) with true by lia.
              replace (C =? 1) with true by lia. reflexivity.
           ++ destruct ((T <=? R) && (R <? B)) eqn:EW2.
              ** rewrite (Hcells (R + 1) C) by lia. fold T B.
                 replace ((T <=? R + 1) && (R + 1 <=? B)) with true by lia.
                 replace (R + (Z.max 0 (vr - B) + 1) =? vr + 1) with false by lia. cbn [andb].
                 f_equal. lia.
              ** replace (R =? B) with true by lia.
                 replace (R =? B) with true in EP by lia. cbn [andb] in EP. rewrite EP.
                 rewrite andb_false_r. symmetry. apply Hbelow. lia.
        -- replace ((R =? B) && (C =? 1)) with false by lia.
           replace ((T <=? R) && (R <? B)) with false by lia.
           replace (R =? B) with false by lia.
           rewrite (Hcells R C HR HC). fold T B. rewrite EW1. reflexivity.
      * intros r c Hr. replace (r =? vr + 1) with false by lia. cbn [andb]. apply Hbelow. lia.
      * intros r Hr _. rewrite A7 in Hr. assert (r = B) by lia. subst r.
        rewrite Hfl by lia.
        change (wraps_at (b_scroll_up s1 (top s1) (bot s1)) B = false).
        rewrite X3, X4, ET, EB. apply wraps_scroll_up_bottom; try lia.
        rewrite X2, EH, Q7. exact Hwl.
Qed.

Lemma rel2_steps str : forall s g vr vc, rel2 s g vr vc ->
  rel2 (write_chars false s str) (fst (layoutw W fl g vr vc str)) (fst (snd (layoutw W fl g vr vc str)))
       (snd (snd (layoutw W fl g vr vc str))).
Proof.
  induction str as [|ch t IH]; intros s g vr vc Hrel.
  - exact Hrel.
  - cbn [layoutw]. cbv zeta. pose proof (rel2_step s g vr vc ch Hrel) as St. cbv zeta in St.
    destruct (((if vc >? W then 1 else vc) =? W) && fl (if vc >? W then vr + 1 else vr));
      apply (IH (write_char false s ch)); exact St.
Qed.

End Placement.

(* the continuation flags ahead, by virtual row: those of the start screen down to the window bottom *)
Definition flags0 (s0 : st) : Z -> bool := fun v => if v <=? bot s0 then wraps_at s0 v else false.

Lemma rel2_init s0 : INV s0 -> bra s0 = false -> top s0 <= row s0 <= bot s0 ->
  (ovf s0 = true -> col s0 = width s0) ->
  rel2 s0 (flags0 s0) s0 (page0 s0) (row s0) (if ovf s0 then width s0 + 1 else col s0).
Proof.
  intros [[Hg Hgr] [Hr Hc]] Hb Hrow Hov.
  assert (K0 : Z.max 0 (row s0 - bot s0) = 0) by lia.
  constructor.
  - apply same_env_refl.
  - split; auto.
  - exact Hb.
  - lia.
  - destruct (ovf s0) eqn:E; [right; auto | left; auto].
  - intros R C HR HC. rewrite K0. unfold page0. cbv beta.
    destruct ((top s0 <=? R) && (R <=? bot s0)) eqn:E; auto.
    replace (R + 0 <=? bot s0) with true by lia. f_equal. lia.
  - intros r c Hgt. unfold page0. cbv beta. replace (r <=? bot s0) with false by lia. reflexivity.
  - intros r Hr1 _. rewrite K0. unfold flags0. replace (r + 0 <=? bot s0) with true by lia. f_equal. lia.
Qed.

(* ---- layoutw versus layout: the same characters at the same places; only the final position is normalised *)
Lemma layout_pending_next W g vr ch t : 1 <= W ->
  layout W g vr (W + 1) (ch :: t) = layout W g (vr + 1) 1 (ch :: t).
Proof.
  intros HW. cbn [layout]. cbv zeta.
  replace (W + 1 >? W) with true by lia. replace (1 >? W) with false by lia. reflexivity.
Qed.

Lemma layoutw_grid W fl str : 2 <= W -> forall g vr vc,
  fst (layoutw W fl g vr vc str) = fst (layout W g vr vc str).
Proof.
  intros HW. induction str as [|ch t IH]; intros g vr vc; [reflexivity|].
  cbn [layoutw layout]. cbv zeta.
  set (vr1 := if vc >? W then vr + 1 else vr). set (vc1 := if vc >? W then 1 else vc).
  destruct ((vc1 =? W) && fl vr1) eqn:E; [|apply IH].
  rewrite IH. assert (vc1 = W) by lia. rewrite H.
  destruct t as [|ch' t']; [reflexivity|]. rewrite layout_pending_next by lia. reflexivity.
Qed.

Definition norm_pos (W : Z) (fl : Z -> bool) (p : Z * Z) : Z * Z :=
  if (snd p =? W + 1) && fl (fst p) then (fst p + 1, 1) else p.

Lemma layoutw_pending_next W fl g vr ch t : 2 <= W ->
  layoutw W fl g vr (W + 1) (ch :: t) = layoutw W fl g (vr + 1) 1 (ch :: t).
Proof.
  intros HW. cbn [layoutw]. cbv zeta.
  replace (W + 1 >? W) with true by lia. replace (1 >? W) with false by lia. reflexivity.
Qed.

Lemma layoutw_pos W fl str : 2 <= W -> str <> [] -> forall g vr vc, 1 <= vc <= W + 1 ->
  snd (layoutw W fl g vr vc str) = norm_pos W fl (snd (layout W g vr vc str)).
Proof.
  intros HW. induction str as [|ch t IH]; intros Hne g vr vc Hvc; [congruence|].
  cbn [layoutw layout]. cbv zeta.
  set (vr1 := if vc >? W then vr + 1 else vr). set (vc1 := if vc >? W then 1 else vc).
  assert (Hv1 : 1 <= vc1 <= W) by (unfold vc1; destruct (vc >? W) eqn:E; lia).
  destruct t as [|ch' t'].
  - cbn [layoutw layout snd fst]. unfold norm_pos. cbn [fst snd].
    replace (vc1 + 1 =? W + 1) with (vc1 =? W) by lia.
    destruct ((vc1 =? W) && fl vr1); reflexivity.
  - destruct ((vc1 =? W) && fl vr1) eqn:E.
    + assert (vc1 = W) by lia. rewrite H.
      rewrite <- (layoutw_pending_next W fl _ vr1 ch' t' HW).
      apply IH; [congruence | lia].
    + apply IH; [congruence | lia].
Qed.
