(* C32: soundness, termination and completeness of the solid-colour flood fill of model/Flood.v.

   One invariant `inv W m wl` over the bitmap m, the work list wl (a stack) and a ghost set W of the cells
   written so far (all relative to the initial bitmap m0) carries all three results:
   - soundness: W is inside `region`, written cells hold the fill attribute, other cells are untouched,
     every interval on the work list lies in `region`;
   - completeness: a written cell's vertical neighbours are closed (border / fill attribute) or pending on
     the work list; written-ness is constant along horizontal runs of non-border cells;
   - termination: the potential |wl| + 2 * #unwritten cells of the viewport decreases in every iteration;
     an iteration on an already written run pushes nothing because (stack discipline) everything that was
     pushed when the run was written has been processed before. *)
From Coq Require Import ZArith List Bool Lia.
From PCB Require Import lib.Result lib.PyInt model.Flood proofs.Flood_base proofs.Flood_adj.
Import ListNotations.
Open Scope Z_scope.

Lemma region_open m v border sx sy x y : region m v border sx sy x y -> open m v border x y.
Proof. induction 1; assumption. Qed.

Definition written_by (W : ghost) (y xl xr : Z) : ghost :=
  fun x' y' => W x' y' || ((y' =? y) && (xl <=? x') && (x' <=? xr)).

Section Flood.
Variables (v : bounds) (p : pat) (border : Z) (m0 : bitmap) (sx sy : Z).
Hypothesis Hcov : covers m0 v.
Hypothesis Hseed : open m0 v border sx sy.

Local Notation reg := (region m0 v border sx sy).
Local Notation open0 := (open m0 v border).

(* all cells between x1 and x2 on row y are non-border cells of the viewport in the initial bitmap *)
Definition samerun (y x1 x2 : Z) : Prop :=
  forall i, Z.min x1 x2 <= i <= Z.max x1 x2 -> open0 i y.

(* soundness part of the invariant: holds for every pattern *)
Record sinv (W : ghost) (m : bitmap) (wl : list seedt) : Prop := {
  i_cov : covers m v;
  i_wreg : forall x y, W x y = true -> reg x y;
  i_wfill : forall x y, W x y = true -> pix m x y = tile_at p x y;
  i_unw : forall x y, W x y = false -> pix m x y = pix m0 x y;
  i_ent : forall xs xe y d, In (xs, xe, y, d) wl ->
            xs <= xe /\ (d = 0 \/ d = 1 \/ d = -1) /\ (forall i, xs <= i <= xe -> reg i y)
}.

(* completeness / termination part: preserved when "the run shows the tile" is the whole stop condition *)
Record xinv (W : ghost) (m : bitmap) (wl : list seedt) : Prop := {
  i_dich : forall x y, open0 x y -> open0 (x + 1) y -> W x y = W (x + 1) y;
  i_back : forall xs xe y d, In (xs, xe, y, d) wl -> d <> 0 ->
            forall i, xs <= i <= xe -> W i (y - d) = true;
  i_vert : forall x y d', W x y = true -> (d' = 1 \/ d' = -1) -> by0 v <= y + d' <= by1 v ->
            closed m p border x (y + d') \/ covered wl x (y + d');
  i_lifo : forall above xs xe y d below, wl = above ++ (xs, xe, y, d) :: below -> W xs y = true ->
            forall x d', samerun y xs x -> (d' = 1 \/ d' = -1) -> by0 v <= y + d' <= by1 v ->
            closed m p border x (y + d') \/ covered above x (y + d');
  i_seed : W sx sy = true \/ covered wl sx sy
}.

Definition inv (W : ghost) (m : bitmap) (wl : list seedt) : Prop := sinv W m wl /\ xinv W m wl.

Definition unwritten (W : ghost) : Z :=
  count_rows W (bx0 v) (Z.to_nat (bx1 v - bx0 v + 1)) (by0 v) (Z.to_nat (by1 v - by0 v + 1)).

Definition potential (W : ghost) (wl : list seedt) : Z := Z.of_nat (length wl) + 2 * unwritten W.

Lemma open0_view x y : open0 x y -> bx0 v <= x <= bx1 v /\ by0 v <= y <= by1 v.
Proof. intros [H _]. now apply in_view_iff. Qed.

Lemma dich_range (W : ghost) :
  (forall x y, open0 x y -> open0 (x + 1) y -> W x y = W (x + 1) y) ->
  forall y a b, (forall j, a <= j <= b -> open0 j y) -> forall i, a <= i <= b -> W i y = W a y.
Proof.
  intros Hd y a b Hop.
  assert (G : forall n : nat, a + Z.of_nat n <= b -> W (a + Z.of_nat n) y = W a y).
  { induction n as [|n IH]; intro Hn.
    - now rewrite Z.add_0_r.
    - rewrite <- IH by lia.
      replace (a + Z.of_nat (S n)) with (a + Z.of_nat n + 1) by lia.
      symmetry. apply Hd; apply Hop; lia. }
  intros i Hi. replace i with (a + Z.of_nat (Z.to_nat (i - a))) by lia. apply G. lia.
Qed.

(* ================================================================ one iteration *)
Section Step.
Variables (W : ghost) (m : bitmap) (xs xe y d : Z) (rest : list seedt).
Hypothesis Hinv : sinv W m ((xs, xe, y, d) :: rest).
Hypothesis Hx : xinv W m ((xs, xe, y, d) :: rest).
Hypothesis Hplain : stops_on_tile p.
Variables (xl xr : Z) (news : list seedt).
Hypothesis Hxl : xl = extend_left v m border xs y.
Hypothesis Hxr : xr = extend_right v m border xe y.
Hypothesis Hadj : adj_ok v m p border xs xe y d xl xr news.

Local Notation m' := (tile_range m y xl xr (fun x => tile_at p x y)).
Local Notation W' := (written_by W y xl xr).

Lemma head_entry : xs <= xe /\ (d = 0 \/ d = 1 \/ d = -1) /\ (forall i, xs <= i <= xe -> reg i y).
Proof. apply (i_ent _ _ _ Hinv). now left. Qed.

Lemma head_view : bx0 v <= xs /\ xe <= bx1 v /\ by0 v <= y <= by1 v.
Proof.
  destruct head_entry as (Hse & _ & Hreg).
  pose proof (open0_view _ _ (region_open _ _ _ _ _ _ _ (Hreg xs ltac:(lia)))).
  pose proof (open0_view _ _ (region_open _ _ _ _ _ _ _ (Hreg xe ltac:(lia)))). lia.
Qed.

(* a non-border cell of the current bitmap inside the viewport is a non-border cell of the initial one *)
Lemma nonborder_open x' y' : in_view v x' y' = true -> pix m x' y' <> border -> open0 x' y'.
Proof.
  intros Hv Hp. destruct (W x' y') eqn:E.
  - apply (region_open m0 v border sx sy), (i_wreg _ _ _ Hinv), E.
  - split; [exact Hv|]. now rewrite <- (i_unw _ _ _ Hinv _ _ E).
Qed.

Lemma ext_left : bx0 v <= xl <= xs /\ (forall i, xl <= i < xs -> pix m i y <> border) /\
                 (bx0 v < xl -> pix m (xl - 1) y = border).
Proof. rewrite Hxl. apply extend_left_spec. apply head_view. Qed.

Lemma ext_right : xe <= xr <= bx1 v /\ (forall i, xe < i <= xr -> pix m i y <> border) /\
                  (xr < bx1 v -> pix m (xr + 1) y = border).
Proof. rewrite Hxr. apply extend_right_spec. apply head_view. Qed.

Lemma run_view i : xl <= i <= xr -> in_view v i y = true.
Proof.
  intro Hi. pose proof head_view as Hhv0. destruct ext_left as (? & _), ext_right as (? & _).
  apply in_view_iff. lia.
Qed.

(* the extended interval lies in the region *)
Lemma run_reg i : xl <= i <= xr -> reg i y.
Proof.
  destruct head_entry as (Hse & _ & Hreg).
  destruct ext_left as (Hl & Hlnb & _), ext_right as (Hr & Hrnb & _).
  assert (L : forall n : nat, xl <= xs - Z.of_nat n -> reg (xs - Z.of_nat n) y).
  { induction n as [|n IH]; intro Hn.
    - rewrite Z.sub_0_r. apply Hreg. lia.
    - apply (region_step _ _ _ _ _ (xs - Z.of_nat n) y).
      + apply IH. lia.
      + left. split; [reflexivity|]. right. lia.
      + apply nonborder_open; [apply run_view; lia | apply Hlnb; lia]. }
  assert (R : forall n : nat, xe + Z.of_nat n <= xr -> reg (xe + Z.of_nat n) y).
  { induction n as [|n IH]; intro Hn.
    - rewrite Z.add_0_r. apply Hreg. lia.
    - apply (region_step _ _ _ _ _ (xe + Z.of_nat n) y).
      + apply IH. lia.
      + left. split; [reflexivity|]. left. lia.
      + apply nonborder_open; [apply run_view; lia | apply Hrnb; lia]. }
  intro Hi.
  destruct (Z_lt_ge_dec i xs) as [H1|H1].
  - replace i with (xs - Z.of_nat (Z.to_nat (xs - i))) by lia. apply L. lia.
  - destruct (Z_le_gt_dec i xe) as [H2|H2]; [apply Hreg; lia|].
    replace i with (xe + Z.of_nat (Z.to_nat (i - xe))) by lia. apply R. lia.
Qed.

Lemma run_open i : xl <= i <= xr -> open0 i y.
Proof. intro Hi. apply (region_open m0 v border sx sy), run_reg, Hi. Qed.

(* written-ness is constant on the extended interval *)
Lemma run_W i : xl <= i <= xr -> W i y = W xs y.
Proof.
  intro Hi. destruct ext_left as (Hl & _), ext_right as (Hr & _). destruct head_entry as (Hse & _).
  rewrite (dich_range W (i_dich _ _ _ Hx) y xl xr (fun j Hj => run_open j Hj) i Hi).
  symmetry. apply (dich_range W (i_dich _ _ _ Hx) y xl xr (fun j Hj => run_open j Hj)). lia.
Qed.

(* the extended interval is maximal: a run-mate of one of its cells is in it, provided the run is unwritten *)
Lemma run_maximal x0 x : W xs y = false -> xl <= x0 <= xr -> samerun y x0 x -> xl <= x <= xr.
Proof.
  intros HWf Hx0 Hsr.
  destruct ext_left as (Hl & _ & Hlstop), ext_right as (Hr & _ & Hrstop).
  assert (Hnl : ~ x < xl).
  { intro Hlt.
    assert (Ho : open0 (xl - 1) y) by (apply Hsr; lia).
    pose proof (open0_view _ _ Ho) as Hv.
    assert (Hb : pix m (xl - 1) y = border) by (apply Hlstop; lia).
    assert (HWt : W (xl - 1) y = true).
    { destruct (W (xl - 1) y) eqn:E; [reflexivity|exfalso].
      destruct Ho as [_ Ho]. apply Ho. now rewrite <- (i_unw _ _ _ Hinv _ _ E). }
    pose proof (i_dich _ _ _ Hx (xl - 1) y Ho) as Hd.
    replace (xl - 1 + 1) with xl in Hd by lia.
    rewrite Hd in HWt by (apply run_open; lia).
    rewrite run_W in HWt by lia. congruence. }
  assert (Hnr : ~ xr < x).
  { intro Hlt.
    assert (Ho : open0 (xr + 1) y) by (apply Hsr; lia).
    pose proof (open0_view _ _ Ho) as Hv.
    assert (Hb : pix m (xr + 1) y = border) by (apply Hrstop; lia).
    assert (HWt : W (xr + 1) y = true).
    { destruct (W (xr + 1) y) eqn:E; [reflexivity|exfalso].
      destruct Ho as [_ Ho]. apply Ho. now rewrite <- (i_unw _ _ _ Hinv _ _ E). }
    pose proof (i_dich _ _ _ Hx xr y (run_open xr ltac:(lia)) Ho) as Hd.
    rewrite <- Hd in HWt. rewrite run_W in HWt by lia. congruence. }
  lia.
Qed.

(* ---- the new bitmap and the new ghost set *)
Lemma pix_in i : xl <= i <= xr -> pix m' i y = tile_at p i y.
Proof.
  intro Hi. rewrite pix_fill_range.
  rewrite (i_cov _ _ _ Hinv i y (run_view i Hi)), Z.eqb_refl.
  assert ((xl <=? i) = true) as -> by (apply Z.leb_le; lia).
  assert ((i <=? xr) = true) as -> by (apply Z.leb_le; lia). reflexivity.
Qed.

Lemma pix_cases x' y' : pix m' x' y' = tile_at p x' y' \/ pix m' x' y' = pix m x' y'.
Proof.
  rewrite pix_fill_range.
  destruct (inb m x' y'); [|now right]. cbn [andb].
  destruct (y' =? y) eqn:E; [|now right]. apply Z.eqb_eq in E. subst y'.
  destruct (_ && _); auto.
Qed.

Lemma pix_out x' y' : ~ (y' = y /\ xl <= x' <= xr) -> pix m' x' y' = pix m x' y'.
Proof.
  intro Hn. rewrite pix_fill_range.
  destruct (y' =? y) eqn:E1; [|now rewrite andb_false_r].
  destruct (xl <=? x') eqn:E2; [|now rewrite andb_false_r].
  destruct (x' <=? xr) eqn:E3; [|now rewrite andb_false_r].
  apply Z.eqb_eq in E1. apply Z.leb_le in E2, E3. exfalso. apply Hn. lia.
Qed.

Lemma closed_mono x' y' : closed m p border x' y' -> closed m' p border x' y'.
Proof.
  unfold closed. intros Hc. destruct (pix_cases x' y') as [H|H]; [now right|now rewrite H].
Qed.

Lemma W'_in i : xl <= i <= xr -> W' i y = true.
Proof.
  intro Hi. unfold written_by. rewrite Z.eqb_refl.
  assert ((xl <=? i) = true) as -> by (apply Z.leb_le; lia).
  assert ((i <=? xr) = true) as -> by (apply Z.leb_le; lia). apply orb_true_r.
Qed.

Lemma W'_mono x' y' : W x' y' = true -> W' x' y' = true.
Proof. unfold written_by. now intros ->. Qed.

Lemma W'_cases x' y' : W' x' y' = true -> W x' y' = true \/ (y' = y /\ xl <= x' <= xr).
Proof.
  unfold written_by. intro H. apply orb_true_iff in H as [H|H]; [now left|right].
  apply andb_true_iff in H as [H H3]. apply andb_true_iff in H as [H1 H2].
  apply Z.eqb_eq in H1. apply Z.leb_le in H2, H3. lia.
Qed.

Lemma W'_out x' y' : ~ (y' = y /\ xl <= x' <= xr) -> W' x' y' = W x' y'.
Proof.
  intro Hn. destruct (W' x' y') eqn:E.
  - apply W'_cases in E as [E|E]; [now rewrite E|contradiction].
  - unfold written_by in E. now apply orb_false_iff in E as [-> _].
Qed.

(* every neighbour above/below the extended interval is closed afterwards, or has just been pushed *)
Lemma neighbours i d' : xl <= i <= xr -> (d' = 1 \/ d' = -1) -> by0 v <= y + d' <= by1 v ->
  closed m' p border i (y + d') \/ covered news i (y + d').
Proof.
  intros Hi Hd' Hy.
  destruct (ao_all _ _ _ _ _ _ _ _ _ _ _ Hadj i d' Hi Hd' Hy) as [Hc|[Hc|(Hd0 & -> & Hxi)]].
  - left. now apply closed_mono.
  - now right.
  - left. apply closed_mono. right.
    replace (y + - d) with (y - d) by lia.
    apply (i_wfill _ _ _ Hinv). apply (i_back _ _ _ Hx xs xe y d); [now left|exact Hd0|exact Hxi].
Qed.

(* entries just pushed: shape and region membership *)
Lemma news_region e : In e news -> exists a b d', e = (a, b, y + d', d') /\ (d' = 1 \/ d' = -1) /\
  xl <= a /\ a <= b /\ b <= xr /\ (forall i, a <= i <= b -> reg i (y + d')) /\
  has_same m p (y + d') a (b - a + 1) = false.
Proof.
  intro He.
  destruct (ao_each _ _ _ _ _ _ _ _ _ _ _ Hadj e He)
    as (a & b & d' & -> & Hd' & Hy & Ha1 & Ha2 & Ha3 & Hnb & Hnf).
  exists a, b, d'. split; [reflexivity|]. split; [exact Hd'|]. split; [exact Ha1|].
  split; [exact Ha2|]. split; [exact Ha3|]. split; [|exact Hnf].
  assert (Hop : forall i, a <= i <= b -> open0 i (y + d')).
  { intros i Hi. apply nonborder_open; [|apply Hnb, Hi].
    pose proof (run_view i ltac:(lia)) as Hv. apply in_view_iff in Hv. apply in_view_iff. lia. }
  intros i Hi. apply (region_step _ _ _ _ _ i y); [apply run_reg; lia| |apply Hop, Hi].
  right. split; [reflexivity|]. destruct Hd' as [->| ->]; [left|right]; lia.
Qed.

(* ... and they are unwritten *)
Lemma news_entry e : In e news -> exists a b d', e = (a, b, y + d', d') /\ (d' = 1 \/ d' = -1) /\
  xl <= a /\ a <= b /\ b <= xr /\ (forall i, a <= i <= b -> reg i (y + d')) /\ W a (y + d') = false.
Proof.
  intro He. destruct (news_region e He) as (a & b & d' & -> & Hd' & Ha1 & Ha2 & Ha3 & Hr' & Hnf).
  exists a, b, d'. repeat split; auto.
  destruct (not_same_cell m p (y + d') a b Hplain Ha2 Hnf) as (i0 & Hi0 & Hne).
  destruct (W a (y + d')) eqn:E; [exfalso|reflexivity].
  apply Hne. apply (i_wfill _ _ _ Hinv).
  rewrite (dich_range W (i_dich _ _ _ Hx) (y + d') a b
             (fun j Hj => region_open m0 v border sx sy _ _ (Hr' j Hj)) i0 Hi0). exact E.
Qed.

(* the soundness part is preserved for every pattern *)
Lemma step_sound : sinv W' m' (news ++ rest).
Proof.
  constructor.
  - apply covers_fill_range, (i_cov _ _ _ Hinv).
  - intros x' y' H. apply W'_cases in H as [H|(-> & H)]; [apply (i_wreg _ _ _ Hinv), H | now apply run_reg].
  - intros x' y' H. apply W'_cases in H as [H|(-> & H)]; [|now apply pix_in].
    destruct (pix_cases x' y') as [Hp|Hp]; [exact Hp|]. rewrite Hp. apply (i_wfill _ _ _ Hinv), H.
  - intros x' y' H.
    assert (Hn : ~ (y' = y /\ xl <= x' <= xr)).
    { intros (-> & Hx'). rewrite W'_in in H by exact Hx'. discriminate. }
    rewrite pix_out by exact Hn. apply (i_unw _ _ _ Hinv). now rewrite <- (W'_out _ _ Hn).
  - intros xs' xe' y' d'' Hin. apply in_app_or in Hin as [Hin|Hin].
    + destruct (news_region _ Hin) as (a & b & d' & Heq & Hd' & Ha1 & Ha2 & Ha3 & Hr' & _).
      assert (xs' = a /\ xe' = b /\ y' = y + d' /\ d'' = d') as (-> & -> & -> & ->)
        by (repeat split; congruence).
      split; [exact Ha2|]. split; [lia|exact Hr'].
    + apply (i_ent _ _ _ Hinv). now right.
Qed.

Lemma step_x : xinv W' m' (news ++ rest).
Proof.
  pose proof head_view as Hhv. destruct head_entry as (Hse & Hd & Hreg).
  destruct ext_left as (Hl & Hlnb & Hlstop), ext_right as (Hr & Hrnb & Hrstop).
  constructor.
  - (* dichotomy along runs *)
    intros x' y' Ho1 Ho2.
    destruct (Z.eq_dec y' y) as [->|Hy]; [|rewrite !W'_out by lia; now apply (i_dich _ _ _ Hx)].
    pose proof (open0_view _ _ Ho1) as Hv1. pose proof (open0_view _ _ Ho2) as Hv2.
    destruct (Z_lt_ge_dec (x' + 1) xl) as [C1|C1];
      [rewrite !W'_out by lia; now apply (i_dich _ _ _ Hx)|].
    destruct (Z_lt_ge_dec xr x') as [C2|C2];
      [rewrite !W'_out by lia; now apply (i_dich _ _ _ Hx)|].
    destruct (Z.eq_dec (x' + 1) xl) as [C3|C3].
    { (* x' = xl - 1 is a border cell now, hence written *)
      rewrite (W'_in (x' + 1)) by lia. apply W'_mono.
      destruct (W x' y) eqn:E; [reflexivity|exfalso].
      destruct Ho1 as [_ Ho1]. apply Ho1. rewrite <- (i_unw _ _ _ Hinv _ _ E).
      replace x' with (xl - 1) by lia. apply Hlstop. lia. }
    destruct (Z.eq_dec x' xr) as [C4|C4].
    { rewrite (W'_in x') by lia. symmetry. apply W'_mono.
      destruct (W (x' + 1) y) eqn:E; [reflexivity|exfalso].
      destruct Ho2 as [_ Ho2]. apply Ho2. rewrite <- (i_unw _ _ _ Hinv _ _ E).
      rewrite C4. apply Hrstop. lia. }
    rewrite !W'_in by lia. reflexivity.
  - (* the row behind an entry is written *)
    intros xs' xe' y' d'' Hin Hd0 i Hi. apply in_app_or in Hin as [Hin|Hin].
    + destruct (news_entry _ Hin) as (a & b & d' & Heq & Hd' & Ha1 & Ha2 & Ha3 & _).
      assert (xs' = a /\ xe' = b /\ y' = y + d' /\ d'' = d') as (-> & -> & -> & ->)
        by (repeat split; congruence).
      replace (y + d' - d') with y by lia. apply W'_in. lia.
    + apply W'_mono. apply (i_back _ _ _ Hx xs' xe' y' d''); auto. now right.
  - (* vertical neighbours of written cells *)
    intros x' y' d' H Hd' Hy.
    apply W'_cases in H as [H|(-> & H)].
    + destruct (i_vert _ _ _ Hx x' y' d' H Hd' Hy) as [Hc|(a & b & dd & [Hin|Hin] & Hab)].
      * left. now apply closed_mono.
      * (* pending in the popped entry: written now *)
        assert (a = xs /\ b = xe /\ y' + d' = y) as (-> & -> & Hyy) by (repeat split; congruence).
        left. right. rewrite Hyy. apply pix_in. lia.
      * right. apply covered_app. right. exists a, b, dd. auto.
    + destruct (neighbours x' d' H Hd' Hy) as [Hc|Hc]; [now left|]. right. apply covered_app. now left.
  - (* stack discipline *)
    intros above xs' xe' y' d'' below Heq HW x d' Hsr Hd' Hy.
    assert (Case2 : forall l, above = news ++ l -> rest = l ++ (xs', xe', y', d'') :: below ->
                    closed m' p border x (y' + d') \/ covered above x (y' + d')).
    { intros l Ha Hr'.
      destruct (W xs' y') eqn:E.
      - (* the run of this entry was written before: old stack invariant, the popped entry is written now *)
        destruct (i_lifo _ _ _ Hx ((xs, xe, y, d) :: l) xs' xe' y' d'' below
                    ltac:(cbn [app]; now rewrite Hr') E x d' Hsr Hd' Hy)
          as [Hc|(a & b & dd & [Hin|Hin] & Hab)].
        + left. now apply closed_mono.
        + assert (a = xs /\ b = xe /\ y' + d' = y) as (-> & -> & Hyy) by (repeat split; congruence).
          left. right. rewrite Hyy. apply pix_in. lia.
        + right. rewrite Ha. apply covered_app. right. exists a, b, dd. auto.
      - (* the run of this entry is written by this very iteration *)
        apply W'_cases in HW as [HW|(-> & HW)]; [congruence|].
        assert (HWf : W xs y = false) by (rewrite <- (run_W xs') by exact HW; exact E).
        pose proof (run_maximal xs' x HWf HW Hsr) as Hxr0.
        destruct (neighbours x d' Hxr0 Hd' Hy) as [Hc|Hc]; [now left|].
        right. rewrite Ha. apply covered_app. now left. }
    apply app_eq_app in Heq as (l & [(Hn & Hb)|(Ha & Hr')]).
    + destruct l as [|e l].
      * rewrite app_nil_r in Hn. cbn [app] in Hb.
        apply (Case2 []); [now rewrite app_nil_r|now cbn [app]].
      * (* the entry has just been pushed: its run is unwritten *)
        exfalso. cbn [app] in Hb.
        assert (He : In (xs', xe', y', d'') news).
        { rewrite Hn. apply in_or_app. right. left. congruence. }
        destruct (news_entry _ He) as (a & b & dd & Heq & Hdd & _ & _ & _ & _ & HWf).
        assert (xs' = a /\ y' = y + dd) as (-> & ->) by (split; congruence).
        rewrite W'_out in HW by lia. congruence.
    + now apply (Case2 l).
  - (* the seed *)
    destruct (i_seed _ _ _ Hx) as [H|(a & b & dd & [Hin|Hin] & Hab)].
    + left. now apply W'_mono.
    + assert (a = xs /\ b = xe /\ sy = y) as (-> & -> & ->) by (repeat split; congruence).
      left. apply W'_in. lia.
    + right. apply covered_app. right. exists a, b, dd. auto.
Qed.

(* the potential |work list| + 2 * #unwritten cells decreases *)
Lemma step_potential : potential W' (news ++ rest) <= potential W ((xs, xe, y, d) :: rest) - 1.
Proof.
  pose proof head_view as Hhv. destruct head_entry as (Hse & Hd & Hreg).
  destruct ext_left as (Hl & _), ext_right as (Hr & _).
  unfold potential. rewrite app_length, Nat2Z.inj_add. cbn [length]. rewrite Nat2Z.inj_succ.
  destruct (W xs y) eqn:E.
  - (* the run was written before: everything around it is closed, nothing is pushed *)
    assert (Hnil : news = []).
    { apply (adj_ok_closed _ _ _ _ _ _ _ _ _ _ _ Hplain Hadj). intros i d' Hi Hd' Hy.
      destruct (i_lifo _ _ _ Hx [] xs xe y d rest eq_refl E i d') as [Hc|Hc]; auto.
      - intros j Hj. apply run_open. lia.
      - exfalso. exact (covered_nil _ _ Hc). }
    rewrite Hnil. cbn [length].
    assert (Heq : unwritten W' = unwritten W).
    { unfold unwritten. symmetry. apply count_rows_ext. intros i j _ _.
      destruct (W' i j) eqn:E'.
      - apply W'_cases in E' as [E'|(-> & E')]; [exact E'|]. now rewrite run_W.
      - unfold written_by in E'. now apply orb_false_iff in E' as [-> _]. }
    rewrite Heq. lia.
  - (* the run is written now: xr-xl+1 cells leave the unwritten set, at most twice as many entries come *)
    assert (Heq : unwritten W = unwritten W' + (xr - xl + 1)).
    { unfold unwritten. apply (count_rows_write W W' _ _ _ _ y xl xr); try lia.
      - intros i j. reflexivity.
      - intros i Hi. now rewrite run_W. }
    pose proof (ao_count _ _ _ _ _ _ _ _ _ _ _ Hadj). lia.
Qed.

End Step.

(* one iteration, soundness part only: every pattern *)
Lemma step_sinv W m xs xe y d rest :
  sinv W m ((xs, xe, y, d) :: rest) ->
  exists W' m' wl', step v p border m (xs, xe, y, d) rest = Some (m', wl') /\ sinv W' m' wl'.
Proof.
  intro Hinv.
  set (xl := extend_left v m border xs y). set (xr := extend_right v m border xe y).
  pose proof (head_view W m xs xe y d rest Hinv) as Hhv.
  destruct (head_entry W m xs xe y d rest Hinv) as (Hse & Hd & _).
  destruct (ext_left W m xs xe y d rest Hinv xl eq_refl) as (Hl & _).
  destruct (ext_right W m xs xe y d rest Hinv xr eq_refl) as (Hr & _).
  destruct (push_adjacent_spec v m p border xs xe y d xl xr rest Hd) as (news & Hq & Hadj); try lia.
  exists (written_by W y xl xr), (tile_range m y xl xr (fun x => tile_at p x y)), (news ++ rest).
  split.
  - unfold step. fold xl xr. now rewrite Hq.
  - exact (step_sound W m xs xe y d rest Hinv xl xr news eq_refl eq_refl Hadj).
Qed.

(* one iteration, full invariant and potential: patterns whose stop condition is "the run shows the tile" *)
Lemma step_inv W m xs xe y d rest : stops_on_tile p ->
  inv W m ((xs, xe, y, d) :: rest) ->
  exists W' m' wl', step v p border m (xs, xe, y, d) rest = Some (m', wl') /\ inv W' m' wl' /\
                    potential W' wl' <= potential W ((xs, xe, y, d) :: rest) - 1.
Proof.
  intros Hplain [Hinv Hx].
  set (xl := extend_left v m border xs y). set (xr := extend_right v m border xe y).
  pose proof (head_view W m xs xe y d rest Hinv) as Hhv.
  destruct (head_entry W m xs xe y d rest Hinv) as (Hse & Hd & _).
  destruct (ext_left W m xs xe y d rest Hinv xl eq_refl) as (Hl & _).
  destruct (ext_right W m xs xe y d rest Hinv xr eq_refl) as (Hr & _).
  destruct (push_adjacent_spec v m p border xs xe y d xl xr rest Hd) as (news & Hq & Hadj); try lia.
  exists (written_by W y xl xr), (tile_range m y xl xr (fun x => tile_at p x y)), (news ++ rest).
  split.
  - unfold step. fold xl xr. now rewrite Hq.
  - split; [split|].
    + exact (step_sound W m xs xe y d rest Hinv xl xr news eq_refl eq_refl Hadj).
    + exact (step_x W m xs xe y d rest Hinv Hx Hplain xl xr news eq_refl eq_refl Hadj).
    + exact (step_potential W m xs xe y d rest Hinv Hx Hplain xl xr news eq_refl eq_refl Hadj).
Qed.

Lemma unwritten_nonneg W : 0 <= unwritten W.
Proof. unfold unwritten. apply count_rows_bounds. Qed.

(* with enough fuel the loop ends, in a state satisfying the invariant with an empty work list *)
Lemma loop_total : stops_on_tile p -> forall fuel W m wl,
  inv W m wl -> potential W wl <= Z.of_nat fuel ->
  exists W' m', flood_loop fuel v p border m wl = Ok m' /\ inv W' m' [].
Proof.
  intro Hplain. induction fuel as [|f IH]; intros W m wl Hinv Hpot.
  - destruct wl as [|e rest].
    + exists W, m. split; [reflexivity|exact Hinv].
    + exfalso. unfold potential in Hpot. cbn [length] in Hpot. pose proof (unwritten_nonneg W). lia.
  - destruct wl as [|[[[xs xe] y] d] rest].
    + exists W, m. split; [reflexivity|exact Hinv].
    + destruct (step_inv W m xs xe y d rest Hplain Hinv) as (W1 & m1 & wl1 & Hs & Hinv1 & Hp1).
      cbn [flood_loop]. rewrite Hs. apply (IH W1); [exact Hinv1|].
      unfold seedt in *. lia.
Qed.

(* whatever the fuel: if the loop ends, it ends in such a state *)
Lemma loop_partial : stops_on_tile p -> forall fuel W m wl m',
  inv W m wl -> flood_loop fuel v p border m wl = Ok m' -> exists W', inv W' m' [].
Proof.
  intro Hplain. induction fuel as [|f IH]; intros W m wl m' Hinv Hrun.
  - destruct wl; [|discriminate]. cbn [flood_loop] in Hrun. exists W. congruence.
  - destruct wl as [|[[[xs xe] y] d] rest].
    + cbn [flood_loop] in Hrun. exists W. congruence.
    + destruct (step_inv W m xs xe y d rest Hplain Hinv) as (W1 & m1 & wl1 & Hs & Hinv1 & _).
      cbn [flood_loop] in Hrun. rewrite Hs in Hrun. exact (IH W1 m1 wl1 m' Hinv1 Hrun).
Qed.

(* the same for the soundness part alone, every pattern *)
Lemma loop_partial_s : forall fuel W m wl m',
  sinv W m wl -> flood_loop fuel v p border m wl = Ok m' -> exists W', sinv W' m' [].
Proof.
  induction fuel as [|f IH]; intros W m wl m' Hinv Hrun.
  - destruct wl; [|discriminate]. cbn [flood_loop] in Hrun. exists W. congruence.
  - destruct wl as [|[[[xs xe] y] d] rest].
    + cbn [flood_loop] in Hrun. exists W. congruence.
    + destruct (step_sinv W m xs xe y d rest Hinv) as (W1 & m1 & wl1 & Hs & Hinv1).
      cbn [flood_loop] in Hrun. rewrite Hs in Hrun. exact (IH W1 m1 wl1 m' Hinv1 Hrun).
Qed.

Lemma sinv_init : sinv (fun _ _ => false) m0 [(sx, sx, sy, 0)].
Proof.
  constructor; try discriminate; auto.
  intros xs xe y d [H|[]].
  assert (xs = sx /\ xe = sx /\ y = sy /\ d = 0) as (-> & -> & -> & ->) by (repeat split; congruence).
  split; [lia|]. split; [now left|]. intros i Hi. replace i with sx by lia. now apply region_seed.
Qed.

Lemma inv_init : inv (fun _ _ => false) m0 [(sx, sx, sy, 0)].
Proof.
  split; [exact sinv_init|].
  constructor; try discriminate; auto.
  - intros xs xe y d [H|[]] Hd. exfalso. apply Hd. congruence.
  - right. exists sx, sx, 0. split; [now left|lia].
Qed.

Lemma potential_init :
  potential (fun _ _ => false) [(sx, sx, sy, 0)] <= Z.of_nat (paint_fuel v).
Proof.
  unfold potential, unwritten, paint_fuel. cbn [length].
  pose proof (count_rows_bounds (fun _ _ => false) (bx0 v) (Z.to_nat (bx1 v - bx0 v + 1))
                (Z.to_nat (by1 v - by0 v + 1)) (by0 v)) as Hb.
  set (c := count_rows _ _ _ _ _) in *.
  set (A := Z.max 0 (bx1 v - bx0 v + 1)). set (B := Z.max 0 (by1 v - by0 v + 1)).
  assert (HA : Z.of_nat (Z.to_nat (bx1 v - bx0 v + 1)) = A) by lia.
  assert (HB : Z.of_nat (Z.to_nat (by1 v - by0 v + 1)) = B) by lia.
  rewrite HA, HB in Hb. rewrite Z2Nat.id by nia. nia.
Qed.

(* ---- what the final state says *)
Lemma final_sound W m' : sinv W m' [] ->
  forall x y, pix m' x y <> pix m0 x y -> reg x y /\ pix m' x y = tile_at p x y.
Proof.
  intros Hinv x y Hne. destruct (W x y) eqn:E.
  - split; [apply (i_wreg _ _ _ Hinv), E | apply (i_wfill _ _ _ Hinv), E].
  - exfalso. apply Hne. apply (i_unw _ _ _ Hinv), E.
Qed.

Lemma final_complete W m' : inv W m' [] ->
  (forall x y, reg x y -> pix m0 x y <> tile_at p x y) ->
  forall x y, reg x y -> pix m' x y = tile_at p x y.
Proof.
  intros [Hinv Hx] Hnofill.
  assert (HW : forall x y, reg x y -> W x y = true).
  { induction 1 as [Ho|x y x' y' Hr IH Hadj Ho].
    - destruct (i_seed _ _ _ Hx) as [H|H]; [exact H|]. exfalso. exact (covered_nil _ _ H).
    - pose proof (region_open _ _ _ _ _ _ _ Hr) as Hoxy.
      destruct Hadj as [(-> & [->| ->])|(-> & Hy)].
      + rewrite <- (i_dich _ _ _ Hx x y Hoxy Ho). exact IH.
      + rewrite (i_dich _ _ _ Hx (x - 1) y Ho) by (now replace (x - 1 + 1) with x by lia).
        now replace (x - 1 + 1) with x by lia.
      + assert (Hd : exists d', y' = y + d' /\ (d' = 1 \/ d' = -1)).
        { destruct Hy as [->| ->]; [exists 1|exists (-1)]; split; auto; lia. }
        destruct Hd as (d' & -> & Hd').
        pose proof (open0_view _ _ Ho) as Hv.
        destruct (i_vert _ _ _ Hx x y d' IH Hd' ltac:(lia)) as [Hc|Hc];
          [|exfalso; exact (covered_nil _ _ Hc)].
        destruct (W x (y + d')) eqn:E; [reflexivity|exfalso].
        pose proof (i_unw _ _ _ Hinv _ _ E) as Hsame.
        destruct Hc as [Hc|Hc].
        * destruct Ho as [_ Ho]. apply Ho. congruence.
        * apply (Hnofill x (y + d')).
          -- apply (region_step _ _ _ _ _ x y); [exact Hr| |exact Ho].
             right. split; [reflexivity|]. destruct Hd' as [->| ->]; [left|right]; lia.
          -- congruence. }
  intros x y Hr. apply (i_wfill _ _ _ Hinv), HW, Hr.
Qed.

End Flood.

(* ================================================================ the results for flood_fill *)

Lemma flood_fill_loop fuel v m sx sy p border m' :
  flood_fill_pat fuel v m sx sy p border = Ok m' ->
  m' = m \/ (open m v border sx sy /\ flood_loop fuel v p border m [(sx, sx, sy, 0)] = Ok m').
Proof.
  unfold flood_fill_pat. destruct (in_view v sx sy) eqn:Ev; cbn [negb]; [|intro H; left; congruence].
  destruct (pix m sx sy =? border) eqn:Eb; [intro H; left; congruence|].
  intro H. right. split; [|exact H]. split; [exact Ev|now apply Z.eqb_neq].
Qed.

Lemma flood_fill_open fuel v m sx sy p border :
  open m v border sx sy ->
  flood_fill_pat fuel v m sx sy p border = flood_loop fuel v p border m [(sx, sx, sy, 0)].
Proof.
  intros [Hv Hb]. unfold flood_fill_pat. rewrite Hv. cbn [negb]. apply Z.eqb_neq in Hb. now rewrite Hb.
Qed.

(* SOUNDNESS, every pattern (solid, tile, tile with background): every changed cell lies in the region of
   the seed and holds the tile's attribute for its position *)
Theorem flood_sound_pat fuel v m sx sy p border m' :
  covers m v -> flood_fill_pat fuel v m sx sy p border = Ok m' ->
  forall x y, pix m' x y <> pix m x y -> region m v border sx sy x y /\ pix m' x y = tile_at p x y.
Proof.
  intros Hcov Hrun x y Hne.
  destruct (flood_fill_loop _ _ _ _ _ _ _ _ Hrun) as [->|(Hseed & Hloop)]; [contradiction|].
  destruct (loop_partial_s v p border m sx sy fuel _ _ _ _ (sinv_init v p border m sx sy Hcov Hseed) Hloop)
    as (W & Hinv).
  exact (final_sound v p border m sx sy W m' Hinv x y Hne).
Qed.

(* no-op cases: seed outside the viewport or on a border cell *)
Theorem flood_noop_pat fuel v m sx sy p border :
  in_view v sx sy = false \/ pix m sx sy = border -> flood_fill_pat fuel v m sx sy p border = Ok m.
Proof.
  unfold flood_fill_pat. intros [H|H].
  - now rewrite H.
  - destruct (negb (in_view v sx sy)); [reflexivity|]. apply Z.eqb_eq in H. now rewrite H.
Qed.

(* TERMINATION for patterns whose stop condition is "the run shows the tile":
   (width+2)*(height+2)*2 iterations suffice *)
Theorem flood_terminates_pat fuel v m sx sy p border :
  stops_on_tile p -> covers m v -> (paint_fuel v <= fuel)%nat ->
  exists m', flood_fill_pat fuel v m sx sy p border = Ok m'.
Proof.
  intros Hplain Hcov Hfuel. unfold flood_fill_pat.
  destruct (in_view v sx sy) eqn:Ev; cbn [negb]; [|now exists m].
  destruct (pix m sx sy =? border) eqn:Eb; [now exists m|].
  assert (Hseed : open m v border sx sy) by (split; [exact Ev|now apply Z.eqb_neq]).
  pose proof (potential_init v sx sy) as Hp.
  destruct (loop_total v p border m sx sy Hseed Hplain fuel _ _ _
              (inv_init v p border m sx sy Hcov Hseed) ltac:(lia))
    as (W & m' & Hloop & _).
  now exists m'.
Qed.

(* COMPLETENESS for the same patterns: if no cell of the region shows the tile beforehand, the whole region
   is painted with the tile *)
Theorem flood_complete_pat fuel v m sx sy p border m' :
  stops_on_tile p -> covers m v -> flood_fill_pat fuel v m sx sy p border = Ok m' ->
  (forall x y, region m v border sx sy x y -> pix m x y <> tile_at p x y) ->
  forall x y, region m v border sx sy x y -> pix m' x y = tile_at p x y.
Proof.
  intros Hplain Hcov Hrun Hnofill x y Hr.
  assert (Hs : open m v border sx sy) by (clear - Hr; induction Hr; assumption).
  rewrite (flood_fill_open fuel v m sx sy p border Hs) in Hrun.
  destruct (loop_partial v p border m sx sy Hs Hplain fuel _ _ _ _
              (inv_init v p border m sx sy Hcov Hs) Hrun) as (W & Hinv).
  exact (final_complete v p border m sx sy W m' Hinv Hnofill x y Hr).
Qed.

(* ---- the solid case *)
Lemma solid_stops fill : stops_on_tile (solid_pat fill).
Proof. now apply stops_on_tile_solid. Qed.

Theorem flood_sound fuel v m sx sy fill border m' :
  covers m v -> flood_fill fuel v m sx sy fill border = Ok m' ->
  forall x y, pix m' x y <> pix m x y -> region m v border sx sy x y /\ pix m' x y = fill.
Proof.
  intros Hcov Hrun x y Hne.
  destruct (flood_sound_pat _ _ _ _ _ _ _ _ Hcov Hrun x y Hne) as [Hr Hp].
  split; [exact Hr|]. now rewrite tile_at_solid in Hp.
Qed.

Theorem flood_noop fuel v m sx sy fill border :
  in_view v sx sy = false \/ pix m sx sy = border ->
  flood_fill fuel v m sx sy fill border = Ok m.
Proof. apply flood_noop_pat. Qed.

Theorem flood_terminates v m sx sy fill border :
  covers m v -> exists m', flood_fill (paint_fuel v) v m sx sy fill border = Ok m'.
Proof. intro Hcov. apply flood_terminates_pat; [apply solid_stops|exact Hcov|lia]. Qed.

Theorem flood_complete fuel v m sx sy fill border m' :
  covers m v -> flood_fill fuel v m sx sy fill border = Ok m' ->
  (forall x y, region m v border sx sy x y -> pix m x y <> fill) ->
  forall x y, region m v border sx sy x y -> pix m' x y = fill.
Proof.
  intros Hcov Hrun Hnofill x y Hr.
  rewrite <- (tile_at_solid fill x y).
  apply (flood_complete_pat _ _ _ _ _ _ _ _ (solid_stops fill) Hcov Hrun); [|exact Hr].
  intros x0 y0 Hr0. rewrite tile_at_solid. now apply Hnofill.
Qed.

(* ---- the statement level: paint_ with its argument checks *)
Lemma paint_ok text_mode num_attr fg v m x y c b m' :
  paint text_mode num_attr fg v m x y c b = Ok m' ->
  flood_fill (paint_fuel v) v m x y (fill_of num_attr fg c) (border_of num_attr fg c b) = Ok m'.
Proof.
  unfold paint, fill_of, border_of, border_index, fill_index.
  destruct text_mode; [discriminate|].
  destruct c as [cv|]; destruct b as [bv|]; cbn [bind];
    repeat match goal with
           | |- context [if ?t then _ else _] => destruct t; cbn [bind]; try discriminate
           end; auto.
Qed.

Theorem paint_never_out_of_fuel text_mode num_attr fg v m x y c b :
  covers m v -> paint text_mode num_attr fg v m x y c b <> OutOfFuel.
Proof.
  intro Hcov. unfold paint.
  destruct text_mode; [discriminate|].
  destruct c as [cv|]; destruct b as [bv|]; cbn [bind];
    repeat match goal with
           | |- context [if ?t then _ else _] => destruct t; cbn [bind]; try discriminate
           end;
    match goal with
    | |- flood_fill _ ?v ?m ?x ?y ?f ?bd <> _ =>
        destruct (flood_terminates v m x y f bd Hcov) as (m' & ->); discriminate
    end.
Qed.

(* tiled statement: when it succeeds it is the flood fill with the given tile / background row *)
Lemma paint_tile_ok text_mode num_attr fg v m x y tile b bg m' :
  paint_tile text_mode num_attr fg v m x y tile b bg = Ok m' ->
  flood_fill_pat (tile_fuel v) v m x y (mkPat false tile bg)
             (attr_index num_attr fg (match b with Some bv => bv | None => -1 end)) = Ok m'.
Proof.
  unfold paint_tile.
  destruct text_mode; [discriminate|].
  destruct b as [bv|]; cbn [bind];
    repeat match goal with
           | |- context [if ?t then _ else _] => destruct t; cbn [bind]; try discriminate
           end; auto.
Qed.

(* ---- the last referenced point after a PAINT statement *)
Theorem paint_lp_spec text_mode num_attr fg v g st g' :
  paint_lp text_mode num_attr fg v g st = Ok g' ->
  let seed := stmt_seed (snd g) st in
  paint text_mode num_attr fg v (fst g) (fst seed) (snd seed) (s_c st) (s_b st) = Ok (fst g') /\
  snd g' = (if in_view v (fst seed) (snd seed) then seed else snd g).
Proof.
  unfold paint_lp. destruct (stmt_seed (snd g) st) as [sx sy] eqn:Es. cbn [fst snd].
  destruct (paint text_mode num_attr fg v (fst g) sx sy (s_c st) (s_b st)) as [m'| | |]; cbn [bind];
    try discriminate.
  intro H. assert (g' = (m', if in_view v sx sy then (sx, sy) else snd g)) as -> by congruence.
  cbn [fst snd]. split; reflexivity.
Qed.

(* ---- histories of PAINT statements *)
Lemma flood_covers fuel v m sx sy p border m' :
  covers m v -> flood_fill_pat fuel v m sx sy p border = Ok m' -> covers m' v.
Proof.
  intros Hcov Hrun.
  destruct (flood_fill_loop _ _ _ _ _ _ _ _ Hrun) as [->|(Hseed & Hloop)]; [exact Hcov|].
  destruct (loop_partial_s v p border m sx sy fuel _ _ _ _ (sinv_init v p border m sx sy Hcov Hseed) Hloop)
    as (W & Hinv).
  exact (i_cov _ _ _ _ _ _ _ _ _ Hinv).
Qed.

Lemma paint_step_facts text_mode num_attr fg v m x y c b m' :
  covers m v -> paint text_mode num_attr fg v m x y c b = Ok m' ->
  covers m' v /\
  forall px py, pix m' px py <> pix m px py ->
    in_view v px py = true /\ pix m' px py = fill_of num_attr fg c.
Proof.
  intros Hcov Hp. apply paint_ok in Hp. split.
  - exact (flood_covers _ _ _ _ _ _ _ _ Hcov Hp).
  - intros px py Hne. destruct (flood_sound _ _ _ _ _ _ _ _ Hcov Hp px py Hne) as [Hr Hf].
    split; [exact (proj1 (region_open _ _ _ _ _ _ _ Hr))|exact Hf].
Qed.

(* every history of PAINT / PAINT STEP statements: the viewport stays covered, every pixel that differs at the
   end lies inside the viewport and holds the fill attribute of one of the statements, and the last referenced
   point is the initial one or lies inside the viewport *)
Theorem paint_hist_sound text_mode num_attr fg v : forall l g g',
  covers (fst g) v -> paint_hist text_mode num_attr fg v g l = Ok g' ->
  covers (fst g') v /\
  (forall px py, pix (fst g') px py <> pix (fst g) px py ->
     in_view v px py = true /\ exists st, In st l /\ pix (fst g') px py = fill_of num_attr fg (s_c st)) /\
  (snd g' = snd g \/ in_view v (fst (snd g')) (snd (snd g')) = true).
Proof.
  induction l as [|st r IH]; intros g g' Hcov Hrun; cbn [paint_hist] in Hrun.
  - assert (g' = g) as -> by congruence. split; [exact Hcov|]. split; [intros px py H; contradiction|now left].
  - destruct (paint_lp text_mode num_attr fg v g st) as [g1| | |] eqn:E1; cbn [bind] in Hrun; try discriminate.
    destruct (paint_lp_spec _ _ _ _ _ _ _ E1) as [Hp Hlp]. cbv zeta in Hp, Hlp.
    destruct (paint_step_facts _ _ _ _ _ _ _ _ _ _ Hcov Hp) as [Hcov1 Hch1].
    destruct (IH g1 g' Hcov1 Hrun) as (Hcov' & Hch & Hl).
    split; [exact Hcov'|]. split.
    + intros px py Hne.
      destruct (Z.eq_dec (pix (fst g') px py) (pix (fst g1) px py)) as [Heq|Hne1].
      * rewrite Heq in Hne |- *. destruct (Hch1 px py Hne) as [Hv Hf].
        split; [exact Hv|]. exists st. split; [now left|exact Hf].
      * destruct (Hch px py Hne1) as [Hv (st' & Hin & Hf)].
        split; [exact Hv|]. exists st'. split; [now right|exact Hf].
    + destruct (in_view v (fst (stmt_seed (snd g) st)) (snd (stmt_seed (snd g) st))) eqn:Ev.
      * destruct Hl as [Hl|Hl]; [|now right]. right. rewrite Hl, Hlp. exact Ev.
      * destruct Hl as [Hl|Hl]; [left; congruence|now right].
Qed.

Theorem paint_hist_never_out_of_fuel text_mode num_attr fg v : forall l g,
  covers (fst g) v -> paint_hist text_mode num_attr fg v g l <> OutOfFuel.
Proof.
  induction l as [|st r IH]; intros g Hcov; cbn [paint_hist]; [discriminate|].
  destruct (paint_lp text_mode num_attr fg v g st) as [g1| | |] eqn:E1; cbn [bind]; try discriminate.
  - apply IH. destruct (paint_lp_spec _ _ _ _ _ _ _ E1) as [Hp _]. cbv zeta in Hp.
    exact (proj1 (paint_step_facts _ _ _ _ _ _ _ _ _ _ Hcov Hp)).
  - exfalso. unfold paint_lp in E1. destruct (stmt_seed (snd g) st) as [sx sy].
    destruct (paint text_mode num_attr fg v (fst g) sx sy (s_c st) (s_b st)) eqn:Ep; cbn [bind] in E1;
      try discriminate.
    exact (paint_never_out_of_fuel _ _ _ _ _ _ _ _ _ Hcov Ep).
Qed.

(* sharper: a pixel that differs at the end was painted by some statement st of the history, it lies in the
   region (of the picture at that moment) that contains st's start point - the start point being resolved from
   the last referenced point at that moment - and it holds st's fill attribute *)
Theorem paint_hist_regions text_mode num_attr fg v : forall l g g',
  covers (fst g) v -> paint_hist text_mode num_attr fg v g l = Ok g' ->
  forall px py, pix (fst g') px py <> pix (fst g) px py ->
  exists l1 st l2 gk,
    l = l1 ++ st :: l2 /\ paint_hist text_mode num_attr fg v g l1 = Ok gk /\
    region (fst gk) v (border_of num_attr fg (s_c st) (s_b st))
           (fst (stmt_seed (snd gk) st)) (snd (stmt_seed (snd gk) st)) px py /\
    pix (fst g') px py = fill_of num_attr fg (s_c st).
Proof.
  induction l as [|st r IH]; intros g g' Hcov Hrun px py Hne; cbn [paint_hist] in Hrun.
  - assert (g' = g) by congruence. subst. contradiction.
  - destruct (paint_lp text_mode num_attr fg v g st) as [g1| | |] eqn:E1; cbn [bind] in Hrun; try discriminate.
    destruct (paint_lp_spec _ _ _ _ _ _ _ E1) as [Hp Hlp]. cbv zeta in Hp, Hlp.
    destruct (paint_step_facts _ _ _ _ _ _ _ _ _ _ Hcov Hp) as [Hcov1 _].
    destruct (Z.eq_dec (pix (fst g') px py) (pix (fst g1) px py)) as [Heq|Hne1].
    + exists [], st, r, g. split; [reflexivity|]. split; [reflexivity|].
      rewrite Heq in Hne |- *. apply paint_ok in Hp.
      exact (flood_sound _ _ _ _ _ _ _ _ Hcov Hp px py Hne).
    + destruct (IH g1 g' Hcov1 Hrun px py Hne1) as (l1 & st' & l2 & gk & Hl & Hk & Hreg & Hf).
      exists (st :: l1), st', l2, gk. split; [now rewrite Hl|]. split; [|split; assumption].
      cbn [paint_hist]. rewrite E1. exact Hk.
Qed.
