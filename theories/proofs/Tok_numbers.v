(* C17: number texts.  dec_str / hex_str / oct_str of a 16-bit value read back to the same value (finite
   sweep over 0..65535 lifted to forall), and the run lemmas of the readers read_dec, read_linenum, span. *)
From Coq Require Import ZArith List Bool Lia.
From PCB Require Import lib.Result lib.PyInt lib.Harness gen.Gen_tokens model.Tok model.Lister model.Lines proofs.Tok_tables.
Import ListNotations.
Open Scope Z_scope.

(* ---- 16-bit sweep ---- *)
Definition sweep16 (P : Z -> bool) : bool :=
  forallb (fun hi => forallb (fun lo => P (256 * hi + lo)) (zrange 0 256)) (zrange 0 256).

Lemma sweep_forall P (a b : nat) :
  forallb (fun hi => forallb (fun lo => P (Z.of_nat b * hi + lo)) (zrange 0 b)) (zrange 0 a) = true ->
  forall n, 0 <= n < Z.of_nat a * Z.of_nat b -> P n = true.
Proof.
  intros H n Hn.
  assert (Hb : 0 < Z.of_nat b) by nia.
  pose proof (range_forall _ _ _ H (n / Z.of_nat b)) as H1. cbv beta in H1.
  assert (R1 : 0 <= n / Z.of_nat b < 0 + Z.of_nat a).
  { split; [apply Z.div_pos; lia|apply Z.div_lt_upper_bound; nia]. }
  specialize (H1 R1).
  pose proof (range_forall _ _ _ H1 (n mod Z.of_nat b)) as H2. cbv beta in H2.
  assert (R2 : 0 <= n mod Z.of_nat b < 0 + Z.of_nat b).
  { pose proof (Z.mod_pos_bound n (Z.of_nat b) Hb). lia. }
  specialize (H2 R2).
  replace (Z.of_nat b * (n / Z.of_nat b) + n mod Z.of_nat b) with n in H2
    by (apply Z_div_mod_eq_full). exact H2.
Qed.

Lemma sweep16_forall P : sweep16 P = true -> forall n, 0 <= n < 65536 -> P n = true.
Proof. intros H n Hn. exact (sweep_forall P 256 256 H n Hn). Qed.

(* every proper prefix of word ++ w that ends inside w has a value <= 6552 *)
Fixpoint small_prefixes (word w : list Z) : bool :=
  match w with
  | [] => true
  | c :: w' =>
      match w' with
      | [] => true
      | _ => (dec_val (word ++ [c]) <=? 6552) && small_prefixes (word ++ [c]) w'
      end
  end.

Definition nonempty (w : list Z) : bool := match w with [] => false | _ => true end.

Definition dec16_ok (n : Z) : bool :=
  let s := dec_str n in
  all_digits s && nonempty s && (dec_val s =? n) && (length s <=? 5)%nat
  && ((65529 <? n) || small_prefixes [] s).
Definition hex16_ok (n : Z) : bool :=
  let s := hex_str n in forallb is_hexdigit s && nonempty s && (hex_val s =? n).
Definition oct16_ok (n : Z) : bool :=
  let s := oct_str n in forallb is_octdigit s && nonempty s && (oct_val s =? n).

Lemma dec16_sweep : sweep16 dec16_ok = true.
Proof. vm_compute. reflexivity. Qed.
Lemma hex16_sweep : sweep16 hex16_ok = true.
Proof. vm_compute. reflexivity. Qed.
Lemma oct16_sweep : sweep16 oct16_ok = true.
Proof. vm_compute. reflexivity. Qed.

Lemma dec16_spec n : 0 <= n < 65536 ->
  all_digits (dec_str n) = true /\ dec_str n <> [] /\ dec_val (dec_str n) = n
  /\ (length (dec_str n) <= 5)%nat /\ (n <= 65529 -> small_prefixes [] (dec_str n) = true).
Proof.
  intro Hn. pose proof (sweep16_forall _ dec16_sweep n Hn) as H. unfold dec16_ok in H.
  repeat (apply andb_true_iff in H as [H ?]).
  repeat split; try assumption.
  - destruct (dec_str n); [discriminate|discriminate].
  - apply Z.eqb_eq. assumption.
  - apply Nat.leb_le. assumption.
  - intro Hle. match goal with X : (_ || _) = true |- _ => apply orb_true_iff in X as [X|X] end;
      [apply Z.ltb_lt in H0; lia|assumption].
Qed.

Lemma hex16_spec n : 0 <= n < 65536 ->
  forallb is_hexdigit (hex_str n) = true /\ hex_str n <> [] /\ hex_val (hex_str n) = n.
Proof.
  intro Hn. pose proof (sweep16_forall _ hex16_sweep n Hn) as H. unfold hex16_ok in H.
  repeat (apply andb_true_iff in H as [H ?]).
  repeat split; try assumption.
  - destruct (hex_str n); [discriminate|discriminate].
  - apply Z.eqb_eq. assumption.
Qed.

Lemma oct16_spec n : 0 <= n < 65536 ->
  forallb is_octdigit (oct_str n) = true /\ oct_str n <> [] /\ oct_val (oct_str n) = n.
Proof.
  intro Hn. pose proof (sweep16_forall _ oct16_sweep n Hn) as H. unfold oct16_ok in H.
  repeat (apply andb_true_iff in H as [H ?]).
  repeat split; try assumption.
  - destruct (oct_str n); [discriminate|discriminate].
  - apply Z.eqb_eq. assumption.
Qed.

(* ---- byte class facts ---- *)
Lemma is_digit_range c : is_digit c = true <-> 48 <= c <= 57.
Proof.
  split.
  - intro H. apply mem_In in H. simpl in H. lia.
  - intro H. apply mem_In. simpl. lia.
Qed.

Lemma is_blank_cases c : is_blank c = true <-> (c = 32 \/ c = 9 \/ c = 10).
Proof.
  split.
  - intro H. apply mem_In in H. simpl in H. lia.
  - intro H. apply mem_In. simpl. lia.
Qed.

Lemma digit_not_blank c : is_digit c = true -> is_blank c = false.
Proof.
  intro H. apply is_digit_range in H. destruct (is_blank c) eqn:E; [|reflexivity].
  apply is_blank_cases in E. lia.
Qed.

Lemma upper_digit c : is_digit c = true -> upper c = c.
Proof.
  intro H. apply is_digit_range in H. destruct (upper_cases c) as [[R E]|[R E]]; [lia|exact E].
Qed.

Lemma upper_blank c : is_blank c = true -> upper c = c.
Proof.
  intro H. apply is_blank_cases in H. destruct (upper_cases c) as [[R E]|[R E]]; [lia|exact E].
Qed.

(* ---- blanks ---- *)
Lemma blank_split rest :
  exists bl, forallb is_blank bl = true /\ rest = bl ++ drop_blanks rest.
Proof.
  induction rest as [|c r IH].
  - exists []. split; reflexivity.
  - cbn [drop_blanks]. destruct (is_blank c) eqn:E.
    + destruct IH as [bl [H1 H2]]. exists (c :: bl). split.
      * cbn [forallb]. rewrite E, H1. reflexivity.
      * cbn [app]. rewrite <- H2. reflexivity.
    + exists []. split; reflexivity.
Qed.

Lemma drop_blanks_head rest c r : drop_blanks rest = c :: r -> is_blank c = false.
Proof.
  induction rest as [|x rest IH]; cbn [drop_blanks]; [discriminate|].
  destruct (is_blank x) eqn:E.
  - exact IH.
  - intro H. inversion H; subst. exact E.
Qed.

(* ---- span ---- *)
Lemma span_app p w rest : forallb p w = true -> head_not p rest = true -> span p (w ++ rest) = (w, rest).
Proof.
  intros Hw Hr. induction w as [|c w IH].
  - cbn [app]. destruct rest as [|c r]; [reflexivity|]. cbn [head_not] in Hr. cbn [span].
    apply negb_true_iff in Hr. rewrite Hr. reflexivity.
  - cbn [forallb] in Hw. apply andb_true_iff in Hw as [H1 H2]. cbn [app span]. rewrite H1, (IH H2). reflexivity.
Qed.

(* ---- read_dec over digits ---- *)
Lemma read_dec_digit he hp rw rc c r : is_digit c = true ->
  read_dec he hp rw rc (c :: r) = read_dec he hp (c :: rw) (c :: rc) r.
Proof.
  intro H. cbn [read_dec]. rewrite (upper_digit c H). pose proof H as Hr. apply is_digit_range in Hr.
  replace (c =? 46) with false by (symmetry; apply Z.eqb_neq; lia).
  replace (c =? 69) with false by (symmetry; apply Z.eqb_neq; lia).
  replace (c =? 68) with false by (symmetry; apply Z.eqb_neq; lia).
  replace (c =? 45) with false by (symmetry; apply Z.eqb_neq; lia).
  replace (c =? 43) with false by (symmetry; apply Z.eqb_neq; lia).
  cbn [andb orb]. rewrite H. reflexivity.
Qed.

Lemma read_dec_digits w : forall he hp rw rc rest, all_digits w = true ->
  read_dec he hp rw rc (w ++ rest) = read_dec he hp (rev w ++ rw) (rev w ++ rc) rest.
Proof.
  induction w as [|c w IH]; intros he hp rw rc rest H; [reflexivity|].
  unfold all_digits in H. cbn [forallb] in H. apply andb_true_iff in H as [H1 H2].
  cbn [app]. rewrite read_dec_digit by exact H1. rewrite IH by exact H2.
  cbn [rev]. rewrite <- !app_assoc. reflexivity.
Qed.

(* what may follow a decimal number text: blanks, then the end or a character that stops the reader *)
Lemma read_dec_blank he hp rw rc c r : is_blank c = true ->
  read_dec he hp rw rc (c :: r) = read_dec he hp (c :: rw) (c :: rc) r.
Proof.
  intro H. cbn [read_dec]. rewrite (upper_blank c H). pose proof H as Hr. apply is_blank_cases in Hr.
  replace (c =? 46) with false by (symmetry; apply Z.eqb_neq; lia).
  replace (c =? 69) with false by (symmetry; apply Z.eqb_neq; lia).
  replace (c =? 68) with false by (symmetry; apply Z.eqb_neq; lia).
  replace (c =? 45) with false by (symmetry; apply Z.eqb_neq; lia).
  replace (c =? 43) with false by (symmetry; apply Z.eqb_neq; lia).
  cbn [andb orb]. rewrite H. rewrite orb_true_r. reflexivity.
Qed.

Lemma read_dec_blanks bl : forall he hp rw rc rest, forallb is_blank bl = true ->
  read_dec he hp rw rc (bl ++ rest) = read_dec he hp (rev bl ++ rw) (rev bl ++ rc) rest.
Proof.
  induction bl as [|c w IH]; intros he hp rw rc rest H; [reflexivity|].
  cbn [forallb] in H. apply andb_true_iff in H as [H1 H2].
  cbn [app]. rewrite read_dec_blank by exact H1. rewrite IH by exact H2.
  cbn [rev]. rewrite <- !app_assoc. reflexivity.
Qed.

(* the head of the reversed word is not E or D (so that a following sign does not continue the number) *)
Definition head_not_exp (rw : list Z) : bool :=
  match rw with [] => false | p :: _ => negb ((p =? 69) || (p =? 68)) end.

Lemma read_dec_stop he hp rw rc c r :
  dec_stopper c r = true -> head_not_exp rw = true ->
  read_dec he hp rw rc (c :: r) = dec_finish rw rc (c :: r).
Proof.
  unfold dec_stopper. intros H Hrw. cbv zeta in H.
  repeat (apply andb_true_iff in H as [H ?]).
  repeat match goal with X : negb _ = true |- _ => apply negb_true_iff in X end.
  cbn [read_dec].
  match goal with X : (upper c =? 46) = false |- _ => rewrite X end.
  match goal with X : (upper c =? 68) = false |- _ => rewrite X end.
  cbn [andb orb].
  destruct rw as [|p rw']; [discriminate|]. cbn [head_not_exp] in Hrw. apply negb_true_iff in Hrw.
  rewrite Hrw. rewrite andb_false_r.
  match goal with X : is_digit (upper c) = false |- _ => rewrite X end.
  match goal with X : is_blank (upper c) = false |- _ => rewrite X end.
  match goal with X : (upper c =? 28) = false |- _ => rewrite X end.
  match goal with X : (upper c =? 29) = false |- _ => rewrite X end.
  match goal with X : (upper c =? 31) = false |- _ => rewrite X end.
  match goal with X : (upper c =? 33) = false |- _ => rewrite X end.
  match goal with X : (upper c =? 35) = false |- _ => rewrite X end.
  match goal with X : (upper c =? 37) = false |- _ => rewrite X end.
  cbn [andb orb].
  destruct (upper c =? 69) eqn:E69; cbn [andb orb negb] in *.
  - match goal with X : negb _ = false |- _ => apply negb_false_iff in X; rewrite X end.
    destruct he; reflexivity.
  - reflexivity.
Qed.

Lemma count_blanks_app bl rw : forallb is_blank bl = true ->
  (match rw with [] => true | p :: _ => negb (is_blank p) end) = true ->
  count_blanks (rev bl ++ rw) = length bl.
Proof.
  intros Hb Hp. rewrite <- rev_length. assert (Hb' : forallb is_blank (rev bl) = true).
  { rewrite forallb_forall in *. intros x Hx. apply Hb. apply in_rev. exact Hx. }
  clear Hb. induction (rev bl) as [|c w IH]; cbn [app length count_blanks].
  - destruct rw as [|p rw']; [reflexivity|]. cbn [count_blanks]. apply negb_true_iff in Hp. rewrite Hp. reflexivity.
  - cbn [forallb] in Hb'. apply andb_true_iff in Hb' as [H1 H2]. rewrite H1, (IH H2). reflexivity.
Qed.

Lemma dec_finish_blanks bl rw rc rest : forallb is_blank bl = true ->
  (match rw with [] => true | p :: _ => negb (is_blank p) end) = true ->
  dec_finish (rev bl ++ rw) (rev bl ++ rc) rest = (drop_blanks (rev rw), bl ++ rest).
Proof.
  intros Hb Hp. unfold dec_finish. rewrite count_blanks_app by assumption.
  rewrite <- (rev_length bl). rewrite !skipn_app, !firstn_app, Nat.sub_diag.
  rewrite skipn_all, firstn_all. cbn [skipn firstn]. rewrite app_nil_r. cbn [app]. rewrite rev_involutive.
  reflexivity.
Qed.

(* the whole tail: blanks, then the end or a stopper *)
Lemma read_dec_follow he hp rw rc rest :
  follow_dec rest = true -> head_not_exp rw = true ->
  (match rw with [] => true | p :: _ => negb (is_blank p) end) = true ->
  read_dec he hp rw rc rest = (drop_blanks (rev rw), rest).
Proof.
  intros Hf Hx Hp. destruct (blank_split rest) as [bl [Hb Hr]].
  unfold follow_dec in Hf. remember (drop_blanks rest) as tl eqn:Et. clear Et. subst rest.
  rewrite read_dec_blanks by exact Hb.
  destruct tl as [|c r].
  - cbn [read_dec]. rewrite dec_finish_blanks by assumption. reflexivity.
  - rewrite read_dec_stop.
    + rewrite dec_finish_blanks by assumption. reflexivity.
    + exact Hf.
    + destruct (rev bl) as [|b bl'] eqn:Eb; cbn [app]; [exact Hx|].
      cbn [head_not_exp].
      assert (Hbb : is_blank b = true).
      { rewrite forallb_forall in Hb. apply Hb. apply in_rev. rewrite Eb. left. reflexivity. }
      apply is_blank_cases in Hbb. apply negb_true_iff. apply orb_false_iff.
      split; apply Z.eqb_neq; lia.
Qed.

(* a decimal integer text followed by a proper tail is read back as itself *)
Lemma read_dec_int w rest :
  all_digits w = true -> w <> [] -> follow_dec rest = true ->
  read_dec false false [] [] (w ++ rest) = (w, rest).
Proof.
  intros Hw Hne Hf. rewrite read_dec_digits by exact Hw. rewrite !app_nil_r.
  assert (Hl : exists p w', rev w = p :: w' /\ is_digit p = true).
  { destruct (rev w) as [|p w'] eqn:E.
    - exfalso. apply Hne. rewrite <- (rev_involutive w), E. reflexivity.
    - exists p, w'. split; [reflexivity|]. unfold all_digits in Hw. rewrite forallb_forall in Hw.
      apply Hw. apply in_rev. rewrite E. left. reflexivity. }
  destruct Hl as [p [w' [E Hp]]].
  rewrite read_dec_follow.
  - rewrite rev_involutive. destruct w as [|c w'']; [contradiction|].
    cbn [drop_blanks]. unfold all_digits in Hw. cbn [forallb] in Hw. apply andb_true_iff in Hw as [Hc _].
    rewrite (digit_not_blank c Hc). reflexivity.
  - exact Hf.
  - rewrite E. cbn [head_not_exp]. apply is_digit_range in Hp. apply negb_true_iff. apply orb_false_iff.
    split; apply Z.eqb_neq; lia.
  - rewrite E. rewrite (digit_not_blank p Hp). reflexivity.
Qed.

(* ---- read_linenum ---- *)
Lemma read_linenum_blanks bl : forall word nd mark rest,
  (nd < 5)%nat -> forallb is_blank bl = true ->
  (match rest with [] => true | c :: _ => negb (is_digit c) && negb (is_blank c) end) = true ->
  read_linenum word nd mark (bl ++ rest) = (word, chosen_rest mark (bl ++ rest)).
Proof.
  induction bl as [|b bl IH]; intros word nd mark rest Hnd Hb Hr.
  - cbn [app]. destruct rest as [|c r].
    + cbn [read_linenum]. destruct (5 <=? nd)%nat; reflexivity.
    + cbn [read_linenum]. apply andb_true_iff in Hr as [H1 H2].
      apply negb_true_iff in H1. apply negb_true_iff in H2. rewrite H1, H2.
      destruct (5 <=? nd)%nat; reflexivity.
  - cbn [forallb] in Hb. apply andb_true_iff in Hb as [H1 H2].
    cbn [app read_linenum].
    replace (5 <=? nd)%nat with false by (symmetry; apply Nat.leb_gt; exact Hnd).
    assert (Hd : is_digit b = false).
    { destruct (is_digit b) eqn:E; [|reflexivity]. rewrite (digit_not_blank b E) in H1. discriminate. }
    rewrite Hd, H1. rewrite IH by assumption.
    destruct mark; reflexivity.
Qed.

Lemma read_linenum_tail word nd rest :
  follow_linenum rest = true ->
  read_linenum word nd None rest = (word, rest).
Proof.
  intro Hf. destruct (Nat.ltb_spec nd 5) as [Hnd|Hnd].
  - destruct (blank_split rest) as [bl [Hb Hr]]. unfold follow_linenum in Hf.
    remember (drop_blanks rest) as tl eqn:Et.
    assert (Hh : match tl with [] => True | c :: _ => is_blank c = false end).
    { destruct tl as [|c r]; [exact I|]. symmetry in Et. exact (drop_blanks_head _ _ _ Et). }
    clear Et. subst rest. rewrite read_linenum_blanks.
    + reflexivity.
    + exact Hnd.
    + exact Hb.
    + destruct tl as [|c r]; [reflexivity|]. rewrite Hf, Hh. reflexivity.
  - destruct rest as [|c r]; cbn [read_linenum];
      replace (5 <=? nd)%nat with true by (symmetry; apply Nat.leb_le; exact Hnd); reflexivity.
Qed.

Lemma read_linenum_digits w : forall word nd rest,
  all_digits w = true -> w <> [] -> small_prefixes word w = true -> (nd + length w <= 5)%nat ->
  follow_linenum rest = true ->
  read_linenum word nd None (w ++ rest) = (word ++ w, rest).
Proof.
  induction w as [|c w IH]; intros word nd rest Hw Hne Hs Hlen Hf; [contradiction|].
  unfold all_digits in Hw. cbn [forallb] in Hw. apply andb_true_iff in Hw as [Hc Hw].
  cbn [app read_linenum]. cbn [length] in Hlen.
  replace (5 <=? nd)%nat with false by (symmetry; apply Nat.leb_gt; lia).
  rewrite Hc. destruct w as [|c2 w'].
  - cbn [app]. destruct (dec_val (word ++ [c]) >? 6552); [reflexivity|].
    apply read_linenum_tail. exact Hf.
  - cbn [small_prefixes] in Hs. apply andb_true_iff in Hs as [Hs1 Hs2].
    apply Z.leb_le in Hs1.
    replace (dec_val (word ++ [c]) >? 6552) with false by (rewrite Z.gtb_ltb; symmetry; apply Z.ltb_ge; lia).
    rewrite IH.
    + rewrite <- app_assoc. reflexivity.
    + exact Hw.
    + discriminate.
    + exact Hs2.
    + cbn [length] in *. lia.
    + exact Hf.
Qed.

Lemma read_linenum_dec16 n rest : 0 <= n <= 65529 -> follow_linenum rest = true ->
  read_linenum [] 0 None (dec_str n ++ rest) = (dec_str n, rest).
Proof.
  intros Hn Hf. destruct (dec16_spec n) as [H1 [H2 [H3 [H4 H5]]]]; [lia|].
  rewrite read_linenum_digits; try assumption; [reflexivity|apply H5; lia].
Qed.
