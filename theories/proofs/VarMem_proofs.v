(* C11: invariant of the variable area (scalars + arrays) and what PEEK / VARPTR return *)
From Coq Require Import ZArith List Bool Lia.
From PCB Require Import lib.Result lib.PyInt lib.Harness lib.ArraysLib gen.Gen_arrays model.Arrays model.VarMem.
From PCB Require Import proofs.Arrays_index_proofs proofs.Arrays_list_proofs proofs.Arrays_proofs.
Import ListNotations.
Open Scope Z_scope.

(* ---------- scalar table ---------- *)

Definition svar_ok (s : svar) : Prop :=
  sigil_ok (s_name s) /\ length (s_buf s) = Z.to_nat (size_bytes (s_name s)) /\ bytes_ok (s_buf s) /\
  s_vptr s = s_nptr s + scalars_record_size (s_name s).

Definition ssize (s : svar) : Z := scalars_memory_size (s_name s).

Fixpoint slaid (p : Z) (l : list svar) : Prop :=
  match l with
  | [] => True
  | s :: r => s_nptr s = p /\ slaid (p + ssize s) r
  end.

Fixpoint stotal (l : list svar) : Z :=
  match l with [] => 0 | s :: r => ssize s + stotal r end.

Record VInv (st : vstate) : Prop := mkVInv {
  vi_start : 0 <= v_start st;
  vi_nodup : NoDup (map s_name (v_svars st));
  vi_ok : Forall svar_ok (v_svars st);
  vi_laid : slaid (v_start st) (v_svars st);
  vi_cur : v_scur st = stotal (v_svars st);
  vi_arr : AInv (v_arr st)
}.

Lemma VInv_init start : 0 <= start -> VInv (v_init start).
Proof.
  intros H. constructor; simpl; [assumption | constructor | constructor | exact I | reflexivity | apply AInv_init].
Qed.

Lemma ssize_pos s : svar_ok s -> 5 <= ssize s /\ 4 <= scalars_record_size (s_name s).
Proof.
  intros (Hs & _). pose proof (size_bytes_pos _ Hs).
  unfold ssize, scalars_memory_size, scalars_buffer_size, scalars_record_size, zlen. lia.
Qed.

Lemma ssize_eq s : ssize s = scalars_record_size (s_name s) + size_bytes (s_name s).
Proof. reflexivity. Qed.

Lemma slaid_app : forall l p r, slaid p (l ++ r) <-> slaid p l /\ slaid (p + stotal l) r.
Proof.
  induction l as [|s l IH]; intros p r; simpl.
  - rewrite Z.add_0_r. tauto.
  - rewrite IH. replace (p + ssize s + stotal l) with (p + (ssize s + stotal l)) by lia. tauto.
Qed.

Lemma stotal_app l r : stotal (l ++ r) = stotal l + stotal r.
Proof. induction l as [|s l IH]; simpl; [reflexivity | rewrite IH; lia]. Qed.

Lemma stotal_nonneg l : Forall svar_ok l -> 0 <= stotal l.
Proof. induction 1 as [|s l Hs F IH]; simpl; [lia|]. pose proof (ssize_pos s Hs). lia. Qed.

Lemma slaid_bounds : forall l p, Forall svar_ok l -> slaid p l ->
  forall x, In x l -> p <= s_nptr x /\ s_nptr x + ssize x <= p + stotal l.
Proof.
  induction l as [|s l IH]; intros p F L x Hx; [contradiction|].
  inversion F as [|? ? Hs F']; subst. destruct L as [L1 L2].
  pose proof (ssize_pos s Hs). pose proof (stotal_nonneg l F'). simpl.
  destruct Hx as [Hx|Hx]; [subst x; lia|]. destruct (IH _ F' L2 x Hx). lia.
Qed.

Lemma slookup_some l n s : slookup l n = Some s -> In s l /\ s_name s = n.
Proof.
  induction l as [|x l IH]; simpl; [discriminate|].
  destruct (list_Z_eqb (s_name x) n) eqn:E; intros H.
  - inversion H; subst. apply list_Z_eqb_eq in E. auto.
  - destruct (IH H). auto.
Qed.

Lemma slookup_none l n : slookup l n = None <-> ~ In n (map s_name l).
Proof.
  induction l as [|x l IH]; simpl; [tauto|].
  destruct (list_Z_eqb (s_name x) n) eqn:E.
  - apply list_Z_eqb_eq in E. split; [discriminate | intros H; exfalso; auto].
  - assert (s_name x <> n) by (intros C; apply list_Z_eqb_eq in C; congruence). tauto.
Qed.

Lemma in_slookup l s : NoDup (map s_name l) -> In s l -> slookup l (s_name s) = Some s.
Proof.
  induction l as [|x l IH]; simpl; intros ND H; [contradiction|].
  inversion ND as [|? ? Hx ND']; subst. destruct H as [H|H].
  - subst. rewrite list_Z_eqb_refl. reflexivity.
  - rewrite list_Z_eqb_neq; [apply IH; assumption|].
    intros C. apply Hx. rewrite C. apply in_map, H.
Qed.

Lemma slookup_app l r n :
  slookup (l ++ r) n = match slookup l n with Some a => Some a | None => slookup r n end.
Proof.
  induction l as [|x l IH]; simpl; [reflexivity|].
  destruct (list_Z_eqb (s_name x) n); [reflexivity | apply IH].
Qed.

Lemma supdate_names l n buf : map s_name (supdate l n buf) = map s_name l.
Proof.
  induction l as [|x l IH]; simpl; [reflexivity|].
  destruct (list_Z_eqb (s_name x) n); simpl; [reflexivity | rewrite IH; reflexivity].
Qed.

Lemma supdate_in l n buf s' : NoDup (map s_name l) -> In s' (supdate l n buf) ->
  (In s' l /\ s_name s' <> n) \/
  (exists s, In s l /\ s_name s = n /\ s' = mkS (s_name s) buf (s_nptr s) (s_vptr s)).
Proof.
  induction l as [|x l IH]; simpl; [tauto|]. intros ND. inversion ND as [|? ? Hx ND']; subst.
  destruct (list_Z_eqb (s_name x) n) eqn:E; simpl; intros [H|H].
  - right. exists x. apply list_Z_eqb_eq in E. auto.
  - left. split; [auto|]. apply list_Z_eqb_eq in E. intros C. apply Hx. rewrite E, <- C. apply in_map, H.
  - left. subst. split; [auto|]. intros C. apply list_Z_eqb_eq in C. congruence.
  - destruct (IH ND' H) as [[H1 H2]|(a & H1 & H2 & H3)]; [left; auto | right; exists a; auto].
Qed.

Lemma slaid_supdate n buf : forall l p, slaid p (supdate l n buf) <-> slaid p l.
Proof.
  induction l as [|x l IH]; intros p; simpl; [tauto|].
  destruct (list_Z_eqb (s_name x) n); simpl; [tauto|]. rewrite IH. tauto.
Qed.

Lemma stotal_supdate n buf l : stotal (supdate l n buf) = stotal l.
Proof.
  induction l as [|x l IH]; simpl; [reflexivity|].
  destruct (list_Z_eqb (s_name x) n); simpl; [reflexivity | rewrite IH; reflexivity].
Qed.

Lemma supdate_slookup_same l n buf s : slookup l n = Some s ->
  slookup (supdate l n buf) n = Some (mkS (s_name s) buf (s_nptr s) (s_vptr s)).
Proof.
  induction l as [|x l IH]; simpl; [discriminate|].
  destruct (list_Z_eqb (s_name x) n) eqn:E; intros H.
  - inversion H; subst. simpl. rewrite E. reflexivity.
  - simpl. rewrite E. apply IH, H.
Qed.

Lemma supdate_slookup_other l n buf n' : n' <> n -> slookup (supdate l n buf) n' = slookup l n'.
Proof.
  intros Hn. induction l as [|x l IH]; simpl; [reflexivity|].
  destruct (list_Z_eqb (s_name x) n) eqn:E; simpl.
  - apply list_Z_eqb_eq in E. rewrite list_Z_eqb_neq by congruence. reflexivity.
  - destruct (list_Z_eqb (s_name x) n'); [reflexivity | apply IH].
Qed.

(* ---------- operations keep the invariant ---------- *)

Definition set_sbuf (st : vstate) (n buf : list Z) : vstate :=
  mkV (v_start st) (supdate (v_svars st) n buf) (v_scur st) (v_arr st).

Lemma VInv_set_sbuf st n s buf : VInv st -> slookup (v_svars st) n = Some s ->
  length buf = Z.to_nat (size_bytes n) -> bytes_ok buf -> VInv (set_sbuf st n buf).
Proof.
  intros [V0 V1 V2 V3 V4 V5] Ls Hl Hb. constructor; simpl; auto.
  - rewrite supdate_names. assumption.
  - apply Forall_forall. intros x Hx. rewrite Forall_forall in V2.
    destruct (supdate_in _ _ _ _ V1 Hx) as [[Hin _]|(y & Hin & Hn & Hx')]; [apply V2, Hin|].
    subst x. destruct (V2 y Hin) as (H1 & H2 & H3 & H4). unfold svar_ok; simpl.
    repeat split; auto. rewrite Hn. exact Hl.
  - apply slaid_supdate. assumption.
  - rewrite stotal_supdate. assumption.
Qed.

Lemma VInv_with_arr st a : VInv st -> AInv a -> VInv (with_arr st a).
Proof. intros [V0 V1 V2 V3 V4 V5] Ha. constructor; simpl; auto. Qed.

Definition new_svar (st : vstate) (n buf : list Z) : svar :=
  mkS n buf (var_current st) (var_current st + scalars_record_size n).

Definition spush (st : vstate) (s : svar) : vstate :=
  mkV (v_start st) (v_svars st ++ [s]) (v_scur st + ssize s) (v_arr st).

Lemma VInv_spush st n buf : VInv st -> slookup (v_svars st) n = None -> sigil_ok n ->
  length buf = Z.to_nat (size_bytes n) -> bytes_ok buf -> VInv (spush st (new_svar st n buf)).
Proof.
  intros [V0 V1 V2 V3 V4 V5] Ls Hs Hl Hb. constructor; simpl; auto.
  - rewrite map_app. simpl. apply NoDup_app_snoc; [assumption | apply slookup_none, Ls].
  - apply Forall_app. split; [assumption|]. constructor; [|constructor].
    unfold svar_ok, new_svar; simpl. auto.
  - apply slaid_app. split; [assumption|]. simpl. split; [unfold var_current; lia | exact I].
  - rewrite stotal_app. simpl. lia.
Qed.

(* what Scalars.set does *)
Lemma scalar_set_cases st limit n v :
  match slookup (v_svars st) n with
  | Some s => scalar_set st limit n v =
              (match v with None => st | Some b => set_sbuf st n b end, Ok tt)
  | None =>
      if limit - var_current st - a_cur (v_arr st) <=? scalars_memory_size n
      then scalar_set st limit n v = (st, Err err_OUT_OF_MEMORY)
      else scalar_set st limit n v =
           (spush st (new_svar st n (match v with Some b => b | None => zeros (size_bytes n) end)), Ok tt)
  end.
Proof.
  unfold scalar_set. destruct (slookup (v_svars st) n) as [s|] eqn:E.
  - destruct v; reflexivity.
  - destruct (_ <=? _); reflexivity.
Qed.

Definition val_ok (n : list Z) (v : option (list Z)) : Prop :=
  match v with None => True | Some b => length b = Z.to_nat (size_bytes n) /\ bytes_ok b end.

Lemma scalar_set_inv st limit n v : VInv st -> sigil_ok n -> val_ok n v ->
  VInv (fst (scalar_set st limit n v)).
Proof.
  intros V Hs Hv. pose proof (scalar_set_cases st limit n v) as C.
  destruct (slookup (v_svars st) n) as [s|] eqn:E.
  - rewrite C. simpl. destruct v as [b|]; [|assumption]. destruct Hv. eapply VInv_set_sbuf; eauto.
  - destruct (_ <=? _); rewrite C; simpl; [assumption|].
    apply VInv_spush; auto; destruct v as [b|]; try apply Hv; [apply zeros_length | apply zeros_bytes].
Qed.

Lemma let_scalar_inv st limit n v : VInv st -> sigil_ok n -> val_ok n (Some v) ->
  VInv (fst (let_scalar st limit n v)).
Proof.
  intros V Hs Hv. unfold let_scalar.
  pose proof (scalar_set_inv st limit n None V Hs I) as V1.
  destruct (scalar_set st limit n None) as [st1 [[]| | |]]; simpl in *; try assumption.
  apply scalar_set_inv; assumption.
Qed.

Lemma lift_inv {T} st (x : astate * res T) : VInv st -> AInv (fst x) -> VInv (fst (lift st x)).
Proof. intros V A. unfold lift. simpl. apply VInv_with_arr; assumption. Qed.

Lemma let_elem_inv st limit n idx v : VInv st -> sigil_ok n -> bytes_ok v ->
  VInv (fst (let_elem st limit n idx v)).
Proof.
  intros V Hs Hv. unfold let_elem.
  pose proof (check_dim_inv (v_arr st) (afree st limit) n idx (vi_arr st V) Hs) as [A1 _].
  pose proof (lift_inv st (check_dim (v_arr st) (afree st limit) n idx) V A1) as V1.
  destruct (lift st (check_dim (v_arr st) (afree st limit) n idx)) as [st1 [d| | |]]; simpl in *; try assumption.
  apply VInv_with_arr; [assumption|]. apply elem_set_inv; [apply V1 | assumption | assumption].
Qed.
