(* C30 along histories that also select pages: whatever pixel of whatever page differs after a history of graphics
   statements and page selections, some statement of the history was executed WHILE THAT PAGE WAS THE ACTIVE PAGE
   and the pixel lay inside the viewport in force while that statement drew.  Page selection itself changes no
   pixel and leaves the (single) viewport alone. *)
From Coq Require Import ZArith List Bool Lia ZifyBool.
From PCB Require Import lib.Result lib.PyInt lib.GfxPrims gen.Gen_viewport gen.Gen_raster
  model.Matrix model.Viewport model.Raster proofs.Matrix_proofs proofs.Viewport_proofs proofs.Raster_safe
  proofs.Raster_proofs.
Import ListNotations.
Open Scope Z_scope.

(* page p, absolute cell (x, y) may have been written during the history l started in st *)
Fixpoint touched (st : gstate) (l : list hstep) (p : nat) (x y : Z) : Prop :=
  match l with
  | [] => False
  | h :: r =>
    (match h with
     | HStmt s => p = g_apage st /\ in_rect (draw_vp st s) x y
     | HSelect _ => False
     end) \/ touched (hexec st h) r p x y
  end.

Inductive hsteps_ok : gstate -> list hstep -> Prop :=
| hsteps_nil : forall st, hsteps_ok st []
| hsteps_cons : forall st h r,
    (match h with HStmt s => stmt_ok st s | HSelect _ => True end) ->
    hsteps_ok (hexec st h) r -> hsteps_ok st (h :: r).

Lemma nth_of_nth_error : forall {A} (l l' : list A) p d,
  nth_error l p = nth_error l' p -> nth p l d = nth p l' d.
Proof.
  intros A l l' p d H. destruct (nth_error l p) as [a|] eqn:E.
  - rewrite (nth_error_nth _ _ _ E). symmetry in H. rewrite (nth_error_nth _ _ _ H). reflexivity.
  - symmetry in H. apply nth_error_None in E. apply nth_error_None in H. rewrite !nth_overflow by lia. reflexivity.
Qed.

Lemma optZ_dec : forall (a b : option Z), {a = b} + {a <> b}.
Proof. decide equality. apply Z.eq_dec. Qed.

(* selecting a page: no pixel of any page changes, the viewport is the same object as before *)
Lemma select_keeps : forall st a,
  g_pages (hexec st (HSelect a)) = g_pages st /\ g_vp (hexec st (HSelect a)) = g_vp st /\
  g_text (hexec st (HSelect a)) = g_text st /\ (good_state st -> good_state (hexec st (HSelect a))).
Proof.
  intros st a. cbn [hexec]. destruct (a <? length (g_pages st))%nat eqn:E; cbn [g_pages g_vp g_text].
  - split; [reflexivity|]. split; [reflexivity|]. split; [reflexivity|].
    intros [Hwf [Hap Hd]]. unfold good_state. cbn [g_pages g_vp g_apage].
    split; [exact Hwf|]. split; [lia | exact Hd].
  - split; [reflexivity|]. split; [reflexivity|]. split; [reflexivity|]. auto.
Qed.

Theorem history_cells : forall l st,
  good_state st -> g_text st = false -> hsteps_ok st l ->
  good_state (hrun st l) /\ g_text (hrun st l) = false /\
  forall p y x, cellZ (nth p (g_pages (hrun st l)) []) y x <> cellZ (nth p (g_pages st) []) y x ->
                touched st l p x y.
Proof.
  induction l as [|h r IH]; intros st Hg Ht Hok.
  - cbn [hrun]. split; [exact Hg|]. split; [exact Ht|]. intros p y x Hc. congruence.
  - inversion Hok as [|? ? ? Hh Hr]; subst. cbn [hrun touched].
    destruct h as [s|a].
    + destruct (exec_in_viewport st s Hg Ht Hh) as [res [st' [He [_ [Hch [Hg' [Hap Htx]]]]]]].
      assert (Est : hexec st (HStmt s) = st') by (cbn [hexec]; rewrite He; reflexivity).
      rewrite Est in *.
      destruct (IH st' Hg' ltac:(congruence) Hr) as [Hgf [Htf Hcells]].
      split; [exact Hgf|]. split; [exact Htf|]. intros p y x Hc.
      destruct (optZ_dec (cellZ (nth p (g_pages (hrun st' r)) []) y x) (cellZ (nth p (g_pages st') []) y x)) as [E|E].
      * (* changed by this statement *)
        left. rewrite E in Hc.
        destruct (Nat.eq_dec p (g_apage st)) as [Ep|Ep].
        -- split; [exact Ep|]. apply Hch. unfold the_page. rewrite Hap. subst p. exact Hc.
        -- exfalso. apply Hc. f_equal.
           apply nth_of_nth_error. eapply exec_other_pages; eauto.
      * right. apply Hcells. exact E.
    + destruct (select_keeps st a) as [Hp [Hv [Htx Hgood]]].
      destruct (IH (hexec st (HSelect a)) (Hgood Hg) ltac:(congruence) Hr) as [Hgf [Htf Hcells]].
      split; [exact Hgf|]. split; [exact Htf|]. intros p y x Hc.
      right. apply Hcells. rewrite Hp. exact Hc.
Qed.
