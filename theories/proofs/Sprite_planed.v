(* C31: unpack (pack s) = s for the planar (EGA, 1-4 colour planes) and the Tandy SCREEN 6 sprite builders. *)
From Coq Require Import ZArith List Bool Lia ZifyBool.
From PCB Require Import lib.Result lib.PyInt lib.Harness model.Matrix model.Sprite proofs.Sprite_proofs.
Import ListNotations.
Open Scope Z_scope.
Ltac Zify.zify_post_hook ::= Z.to_euclidean_division_equations.

(* ---------- one cell: OR of its plane bits shifted back *)
Definition cell_check (n : nat) (v : Z) : bool :=
  list_Z_eqb (or_planes 0 (row_planes n [v])) [v].

Lemma cells1 : forallb (cell_check 1) (vals 1) = true. Proof. vm_compute. reflexivity. Qed.
Lemma cells2 : forallb (cell_check 2) (vals 2) = true. Proof. vm_compute. reflexivity. Qed.
Lemma cells3 : forallb (cell_check 3) (vals 3) = true. Proof. vm_compute. reflexivity. Qed.
Lemma cells4 : forallb (cell_check 4) (vals 4) = true. Proof. vm_compute. reflexivity. Qed.

Definition planes_ok (n : nat) : Prop := n = 1%nat \/ n = 2%nat \/ n = 3%nat \/ n = 4%nat.

Lemma cell_roundtrip : forall n v, planes_ok n -> 0 <= v < 2 ^ Z.of_nat n ->
  or_planes 0 (row_planes n [v]) = [v].
Proof.
  intros n v Hn Hv.
  assert (Hin : In v (vals (Z.of_nat n))) by (apply vals_complete; lia).
  assert (Hs : forallb (cell_check n) (vals (Z.of_nat n)) = true).
  { destruct Hn as [E|[E|[E|E]]]; subst n; [exact cells1 | exact cells2 | exact cells3 | exact cells4]. }
  rewrite forallb_forall in Hs. specialize (Hs v Hin). apply list_Z_eqb_eq in Hs. exact Hs.
Qed.

(* planes of (v :: t) are the planes of [v] consed on the planes of t, plane by plane *)
Lemma lor_rows_nil_r : forall a, lor_rows a [] = a.
Proof. destruct a; reflexivity. Qed.

Lemma or_planes_cons_ex : forall ps v t, ps <> [] -> forall p,
  exists c, or_planes p (map (fun q => plane_bits q [v]) ps) = [c] /\
            or_planes p (map (fun q => plane_bits q (v :: t)) ps)
            = c :: or_planes p (map (fun q => plane_bits q t) ps).
Proof.
  induction ps as [|q ps IH]; intros v t Hne p; [congruence|].
  destruct ps as [|q' ps'].
  - cbn [map or_planes]. rewrite !lor_rows_nil_r. cbn [plane_bits map]. eexists. split; reflexivity.
  - destruct (IH v t ltac:(discriminate) (p + 1)) as [c' [H1 H2]].
    change (map (fun q0 => plane_bits q0 [v]) (q :: q' :: ps'))
      with (plane_bits q [v] :: map (fun q0 => plane_bits q0 [v]) (q' :: ps')).
    change (map (fun q0 => plane_bits q0 (v :: t)) (q :: q' :: ps'))
      with (plane_bits q (v :: t) :: map (fun q0 => plane_bits q0 (v :: t)) (q' :: ps')).
    change (map (fun q0 => plane_bits q0 t) (q :: q' :: ps'))
      with (plane_bits q t :: map (fun q0 => plane_bits q0 t) (q' :: ps')).
    cbn [or_planes]. rewrite H1, H2. cbn [plane_bits map lor_rows]. eexists. split; reflexivity.
Qed.

Lemma or_planes_cons : forall ps p v t,
  ps <> [] ->
  or_planes p (map (fun q => plane_bits q (v :: t)) ps)
  = or_planes p (map (fun q => plane_bits q [v]) ps) ++ or_planes p (map (fun q => plane_bits q t) ps).
Proof.
  intros ps p v t Hne. destruct (or_planes_cons_ex ps v t Hne p) as [c [H1 H2]]. rewrite H1, H2. reflexivity.
Qed.

Lemma row_planes_roundtrip : forall n row, planes_ok n ->
  Forall (fun v => 0 <= v < 2 ^ Z.of_nat n) row -> or_planes 0 (row_planes n row) = row.
Proof.
  intros n row Hn. induction row as [|v t IH]; intros Hf.
  - unfold row_planes. destruct Hn as [E|[E|[E|E]]]; subst n; reflexivity.
  - unfold row_planes in *. rewrite or_planes_cons.
    + pose proof (cell_roundtrip n v Hn (Forall_inv Hf)) as Hc. unfold row_planes in Hc. rewrite Hc.
      rewrite IH by exact (Forall_inv_tail Hf). reflexivity.
    + destruct Hn as [E|[E|[E|E]]]; subst n; discriminate.
Qed.

(* ---------- rows of planes *)
Lemma plane_bits_range : forall p row, Forall (fun b => 0 <= b < 2 ^ 1) (plane_bits p row).
Proof.
  intros p row. unfold plane_bits. apply Forall_forall. intros b Hb. apply in_map_iff in Hb.
  destruct Hb as [v [E _]]. subst b. change (2 ^ 1) with 2.
  change 1 with (Z.ones 1). rewrite Z.land_ones by lia. change (2 ^ 1) with 2. lia.
Qed.

Lemma concat_concat_map : forall {A B} (F : A -> list (list B)) l,
  concat (map (fun x => concat (F x)) l) = concat (concat (map F l)).
Proof.
  intros A B F l. induction l as [|a l IH]; [reflexivity|].
  cbn [map concat]. rewrite concat_app, IH. reflexivity.
Qed.

Lemma length_concat_const : forall {A} (rows : list (list A)) n,
  Forall (fun r => length r = n) rows -> length (concat rows) = (length rows * n)%nat.
Proof.
  intros A rows n H. induction rows as [|r rows IH]; [reflexivity|].
  cbn [concat length]. rewrite app_length, (Forall_inv H), IH by exact (Forall_inv_tail H). lia.
Qed.

Definition planed_ok (n : nat) (s : matrix) (w h : Z) : Prop :=
  zlen s = h /\ Forall (fun r => zlen r = w /\ Forall (fun v => 0 <= v < 2 ^ Z.of_nat n) r) s.

Theorem planed_roundtrip : forall n s w h extra,
  planes_ok n -> planed_ok n s w h -> 0 < w < 65536 -> 0 < h < 65536 ->
  unpack_planed n (pack_planed n s ++ extra) = s.
Proof.
  intros n s w h extra Hn [Hh Hrows] Hw Hh0.
  assert (Hn0 : (0 < n)%nat) by (destruct Hn as [E|[E|[E|E]]]; subst; lia).
  assert (Hsw : sprite_w s = w).
  { unfold sprite_w. destruct s as [|r s']; [unfold zlen in Hh; cbn in Hh; lia|]. exact (proj1 (Forall_inv Hrows)). }
  unfold unpack_planed, pack_planed. rewrite Hsw, Hh. rewrite <- !app_assoc.
  set (data := concat (map (fun row => concat (map (pack_row 1) (row_planes n row))) s)).
  rewrite le_header by lia.
  assert (Hs2 : skipn 2 (le_encode 2 w ++ le_encode 2 h ++ data ++ extra) = le_encode 2 h ++ data ++ extra).
  { rewrite skipn_app, le_encode_length. replace (2 - 2)%nat with 0%nat by reflexivity.
    rewrite skipn_all2 by (rewrite le_encode_length; lia). reflexivity. }
  rewrite Hs2. rewrite le_header by lia.
  assert (Hs4 : skipn 4 (le_encode 2 w ++ le_encode 2 h ++ data ++ extra) = data ++ extra).
  { rewrite (app_assoc (le_encode 2 w)). rewrite skipn_app, app_length, !le_encode_length.
    replace (4 - (2 + 2))%nat with 0%nat by reflexivity.
    rewrite skipn_all2 by (rewrite app_length, !le_encode_length; lia). reflexivity. }
  rewrite Hs4.
  set (rb := (w + 7) / 8). assert (Hrb : 0 < rb) by (subst rb; lia).
  (* the packed plane rows, in file order *)
  set (prow := concat (map (fun row => map (pack_row 1) (row_planes n row)) s)).
  assert (Hdata : data = concat prow).
  { subst data prow. apply (concat_concat_map (fun row => map (pack_row 1) (row_planes n row))). }
  assert (Hprow : Forall (fun r => length r = Z.to_nat rb) prow).
  { subst prow. apply Forall_forall. intros pr Hin. apply in_concat in Hin. destruct Hin as [l [Hl Hpr]].
    apply in_map_iff in Hl. destruct Hl as [row [E Hrow]]. subst l.
    apply in_map_iff in Hpr. destruct Hpr as [pl [E Hpl]]. subst pr.
    unfold row_planes in Hpl. apply in_map_iff in Hpl. destruct Hpl as [p [E _]]. subst pl.
    rewrite Forall_forall in Hrows. destruct (Hrows row Hrow) as [Hrl _].
    pose proof (pack_row_length 1 (plane_bits p row) (or_introl eq_refl)) as Hl.
    assert (Hpb : length (plane_bits p row) = length row) by (unfold plane_bits; apply map_length).
    unfold zlen in Hl, Hrl. rewrite Hpb in Hl. subst rb. lia. }
  assert (Hplen : length prow = (length s * n)%nat).
  { subst prow. rewrite (length_concat_const _ n); [rewrite map_length; reflexivity|].
    apply Forall_forall. intros l Hl. apply in_map_iff in Hl.
    destruct Hl as [row [E _]]. subst l. unfold row_planes. rewrite !map_length, seq_length. reflexivity. }
  assert (Hdl : length data = Z.to_nat (h * Z.of_nat n * rb)).
  { rewrite Hdata, (length_concat_const prow (Z.to_nat rb) Hprow), Hplen. unfold zlen in Hh. nia. }
  rewrite firstn_app, Hdl, Nat.sub_diag. cbn [firstn]. rewrite app_nil_r.
  rewrite firstn_all_eq by (symmetry; exact Hdl).
  assert (Hzl : zlen data = h * Z.of_nat n * rb) by (unfold zlen; rewrite Hdl; nia).
  rewrite Hzl.
  destruct (h * Z.of_nat n * rb =? 0) eqn:E1; [nia|]. destruct (h * Z.of_nat n =? 0) eqn:E2; [nia|]. cbn [orb].
  replace (h * Z.of_nat n * rb / (h * Z.of_nat n)) with rb by (symmetry; rewrite Z.mul_comm; apply Z.div_mul; nia).
  destruct (rb =? 0) eqn:E3; [lia|].
  rewrite Hdata. rewrite (chunks_concat (Z.to_nat rb) prow); [| lia | exact Hprow | lia].
  (* every plane row unpacks to its bits *)
  set (planes := concat (map (row_planes n) s)).
  assert (Hall : map (fun r => firstn (Z.to_nat w) (unpack_row 1 r)) prow = planes).
  { subst prow planes. rewrite concat_map, map_map. f_equal. apply map_ext_in. intros row Hrow.
    rewrite map_map. rewrite <- (map_id (row_planes n row)) at 2. apply map_ext_in. intros pl Hpl.
    unfold row_planes in Hpl. apply in_map_iff in Hpl. destruct Hpl as [p [E _]]. subst pl.
    rewrite Forall_forall in Hrows. destruct (Hrows row Hrow) as [Hrl _].
    replace (Z.to_nat w) with (length (plane_bits p row))
      by (unfold plane_bits; rewrite map_length; unfold zlen in Hrl; lia).
    apply row_roundtrip; [left; reflexivity | apply plane_bits_range]. }
  rewrite Hall.
  assert (Hpl : Forall (fun l => length l = n) (map (row_planes n) s)).
  { apply Forall_forall. intros l Hl. apply in_map_iff in Hl. destruct Hl as [row [E _]]. subst l.
    unfold row_planes. rewrite map_length, seq_length. reflexivity. }
  unfold planes. rewrite (chunks_concat n (map (row_planes n) s)); [| exact Hn0 | exact Hpl | lia].
  rewrite map_map.
  assert (Hid : forall (l : matrix), (forall r, In r l -> In r s) -> map (fun x => or_planes 0 (row_planes n x)) l = l).
  { induction l as [|r l IHl]; intros Hsub; [reflexivity|]. cbn [map]. f_equal.
    - rewrite Forall_forall in Hrows. destruct (Hrows r (Hsub r (or_introl eq_refl))) as [_ Hrf].
      apply row_planes_roundtrip; assumption.
    - apply IHl. intros r' Hr'. apply Hsub. right. exact Hr'. }
  apply Hid. intros r Hr. exact Hr.
Qed.

(* Tandy SCREEN 6: two planes, the size record holds half the (even) width *)
Theorem tandy6_roundtrip : forall s w h extra,
  planed_ok 2 s w h -> 0 < w < 65536 -> w mod 2 = 0 -> 0 < h < 65536 ->
  unpack_tandy6 (pack_tandy6 s ++ extra) = s.
Proof.
  intros s w h extra Hok Hw Hev Hh.
  assert (Hsw : sprite_w s = w).
  { destruct Hok as [Hl Hrows]. unfold sprite_w. destruct s as [|r s']; [unfold zlen in Hl; cbn in Hl; lia|].
    exact (proj1 (Forall_inv Hrows)). }
  unfold unpack_tandy6, pack_tandy6. rewrite Hsw. rewrite <- app_assoc.
  rewrite le_header by lia.
  replace (w / 2 * 2) with w by lia.
  assert (Hsk : skipn 2 (le_encode 2 (w / 2) ++ skipn 2 (pack_planed 2 s) ++ extra) = skipn 2 (pack_planed 2 s) ++ extra).
  { rewrite skipn_app, le_encode_length. replace (2 - 2)%nat with 0%nat by reflexivity.
    rewrite skipn_all2 by (rewrite le_encode_length; lia). reflexivity. }
  rewrite Hsk.
  assert (Hre : le_encode 2 w ++ skipn 2 (pack_planed 2 s) ++ extra = pack_planed 2 s ++ extra).
  { unfold pack_planed. rewrite Hsw. rewrite <- !app_assoc.
    rewrite skipn_app, le_encode_length. replace (2 - 2)%nat with 0%nat by reflexivity.
    rewrite skipn_all2 by (rewrite le_encode_length; lia). reflexivity. }
  rewrite Hre. apply (planed_roundtrip 2 s w h extra); [right; left; reflexivity | exact Hok | exact Hw | exact Hh].
Qed.
