(* C01: funnel theorems over the regenerated catch tables *)
From Coq Require Import ZArith List Bool Lia.
From PCB Require Import lib.Result lib.PyInt gen.Gen_funnel model.Funnel.
Import ListNotations.
Open Scope Z_scope.

(* side conditions on the regenerated tables, checked by computation *)
Definition tables_ok : bool :=
  (* _handle_exceptions handles BASICError and Break with a message and lets Exit through *)
  (match handle_exceptions (XBasic 5), handle_exceptions XBreak, handle_exceptions XExit, handle_exceptions XReset with
   | Message, Message, Propagated XExit, Propagated XReset => true | _, _, _, _ => false end)
  (* float_safe catches ValueError and every ArithmeticError *)
  && caught XValue funnel_float_safe_catches && caught XArith funnel_float_safe_catches
  && caught XOverflow funnel_float_safe_catches && caught XZeroDiv funnel_float_safe_catches
  (* every error number the tables can produce has a message *)
  && forallb (fun p => existsb (Z.eqb (snd p)) funnel_error_numbers) funnel_OS_ERROR
  && existsb (Z.eqb funnel_oserror_default) funnel_error_numbers
  && forallb (fun p => existsb (Z.eqb (snd p)) funnel_error_numbers) funnel_float_error_map
  && caught (XOs 0) funnel_safe_io_catches.

Lemma tables_ok_true : tables_ok = true.
Proof. vm_compute. reflexivity. Qed.

Lemma handle_basic n : handle_exceptions (XBasic n) = Message.
Proof. reflexivity. Qed.

(* every BASIC-level exception raised below the funnel is reported or propagated as allowed *)
Theorem funnel_total e :
  match e with XBasic _ | XBreak | XExit | XReset => True | _ => False end ->
  allowed (handle_exceptions e) = true.
Proof. destruct e; intros H; try contradiction; reflexivity. Qed.

(* the funnel itself converts nothing else: a host exception reaching it escapes (so the obligation is on the
   layers below) *)
Theorem funnel_escape e :
  match e with XBasic _ | XBreak | XExit | XReset => False | _ => True end ->
  handle_exceptions e = Propagated e /\ allowed (handle_exceptions e) = false.
Proof. destruct e; intros H; try contradiction; split; reflexivity. Qed.

(* float_safe: ValueError / OverflowError / ZeroDivisionError from a callee never leave as host exceptions *)
Theorem float_safe_no_host do_raise console e :
  match e with XValue | XOverflow | XZeroDiv => True | _ => False end ->
  match float_safe do_raise console e with
  | Continues => True
  | Raises (XBasic n) => In n funnel_error_numbers
  | Raises _ => False
  end.
Proof.
  destruct e; intros H; try contradiction; destruct do_raise, console; vm_compute; auto 60.
Qed.

Theorem float_safe_soft e console :
  match e with XOverflow | XZeroDiv => True | _ => False end ->
  float_safe false true e = Continues /\ exists n, float_safe true console e = Raises (XBasic n).
Proof. destruct e; intros H; try contradiction; split; try reflexivity; destruct console; eexists; reflexivity. Qed.

Lemma assoc_in k l b : assoc k l = Some b -> In (k, b) l.
Proof.
  induction l as [|[a c] l IH]; cbn [assoc]; [discriminate|].
  destruct (a =? k) eqn:E; intros H.
  - inversion H; subst. apply Z.eqb_eq in E. subst. left. reflexivity.
  - right. apply IH. exact H.
Qed.

(* every OS errno becomes a BASIC error with a message *)
Theorem oserror_total errno : exists n, handle_oserror errno = XBasic n /\ In n funnel_error_numbers.
Proof.
  unfold handle_oserror. destruct (assoc errno funnel_OS_ERROR) as [b|] eqn:E.
  - exists b. split; [reflexivity|]. apply assoc_in in E.
    pose proof tables_ok_true as T. unfold tables_ok in T.
    repeat (apply andb_true_iff in T as [T ?]).
    match goal with H : forallb _ funnel_OS_ERROR = true |- _ =>
      rewrite forallb_forall in H; specialize (H _ E); cbn [snd] in H;
      apply existsb_exists in H as [x [Hx Hq]]; apply Z.eqb_eq in Hq; subst; exact Hx end.
  - exists funnel_oserror_default. split; [reflexivity|]. vm_compute. auto 60.
Qed.

Theorem safe_io_os err errno : safe_io err (XOs errno) = XBasic err.
Proof. reflexivity. Qed.

(* PEEK preset table: with a dict (the repaired default is the empty dict) no host exception *)
Theorem peek_preset_no_host t addr x : peek_preset (Some t) addr <> Host x.
Proof. discriminate. Qed.
Example peek_preset_none_refuted : exists addr x, peek_preset None addr = Host x.
Proof. exists 0, host_TypeError. reflexivity. Qed.
