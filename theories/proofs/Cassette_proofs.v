(* C29: what is written to a tape (list of records) reads back intact; reading consumes exactly the
   records of the file read; searching passes over whole files. *)
From Coq Require Import ZArith List Bool Lia ZifyBool.
From PCB Require Import lib.Result lib.PyInt lib.Harness gen.Gen_cassette model.Cassette.
Import ListNotations.
Open Scope Z_scope.

(* ------------------------------------------------------------------------------------------------
   The regenerated framing decisions are what the proofs need them to be.  Each of these is closed by
   computation on gen/Gen_cassette.v: if cassette.py changes one of them, the proof below breaks. *)
Lemma flush_stop_spec d : cas_flush_stop d = (zlen d <=? 255).
Proof. reflexivity. Qed.
Lemma chunk_spec : nchunk = 255%nat.
Proof. reflexivity. Qed.
Lemma block_spec : nblock = 256%nat.
Proof. reflexivity. Qed.
Lemma full_prefix_spec : cas_full_prefix = [0].
Proof. reflexivity. Qed.
Lemma final_count_spec d : cas_final_count d = zlen d.
Proof. reflexivity. Qed.
Lemma final_present_spec d : cas_final_present d = negb (zlen d =? 0).
Proof. reflexivity. Qed.
Lemma is_last_spec n : cas_is_last n = negb (n =? 0).
Proof. reflexivity. Qed.
Lemma last_take_spec n : cas_last_take n = n - 1.
Proof. reflexivity. Qed.
Lemma magic_spec : cas_magic = 165.
Proof. reflexivity. Qed.
Lemma header_tail_spec : cas_header_tail = [0; 1].
Proof. reflexivity. Qed.
Lemma name_limit_spec : cas_req_name_limit = 8.
Proof. reflexivity. Qed.
Lemma eot_closes_spec : cas_search_eot_closes = true.
Proof. reflexivity. Qed.
Lemma skips_binary_spec : cas_search_skips_binary = true.
Proof. reflexivity. Qed.

Global Opaque cas_flush_stop cas_final_count cas_final_present cas_is_last cas_last_take
  cas_full_prefix cas_magic cas_header_tail nchunk nblock.

(* ------------------------------------------------------------------------------------------------ blocks *)

Lemma blocks_of_nil f : blocks_of f [] = [].
Proof. destruct f; reflexivity. Qed.

Lemma pad_block_length d : (0 < length d <= 256)%nat -> length (pad_block d) = 256%nat.
Proof. intros H. unfold pad_block. rewrite app_length, repeat_length, block_spec. lia. Qed.

Lemma pad_block_full d : length d = 256%nat -> pad_block d = d.
Proof.
  intros H. unfold pad_block. rewrite block_spec, H, Nat.sub_diag. simpl. apply app_nil_r.
Qed.

Lemma mk_record_single d : (0 < length d <= 256)%nat -> mk_record d = [pad_block d].
Proof.
  intros H. unfold mk_record. destruct d as [|z d]; [simpl in H; lia|].
  cbn [length blocks_of]. rewrite firstn_all2 by (rewrite block_spec; exact (proj2 H)).
  rewrite skipn_all2 by (rewrite block_spec; exact (proj2 H)). rewrite blocks_of_nil. reflexivity.
Qed.

(* ------------------------------------------------------------------------------------------------ text records *)

Lemma read_text_full c rest : length c = 255%nat ->
  read_text (mk_record (cas_full_prefix ++ c) :: rest) =
  match read_text rest with DData d r => DData (c ++ d) r | DIOErr r => DIOErr r end.
Proof.
  intros H. rewrite full_prefix_spec. cbn [app].
  rewrite mk_record_single by (cbn [length]; lia).
  rewrite pad_block_full by (cbn [length]; lia).
  cbn [read_text hd tl]. rewrite is_last_spec. reflexivity.
Qed.

Lemma read_text_final b rest : (0 < length b <= 255)%nat ->
  read_text (mk_record (cas_final_count b :: b) :: rest) = DData (removelast b) rest.
Proof.
  intros H. rewrite mk_record_single by (cbn [length]; lia).
  unfold pad_block. cbn [read_text app hd tl]. rewrite is_last_spec, last_take_spec, final_count_spec.
  unfold zlen. destruct (Z.of_nat (length b) =? 0) eqn:E; [lia|]. cbn [negb].
  replace (Z.to_nat (Z.of_nat (length b) - 1)) with (pred (length b)) by lia.
  rewrite firstn_app. replace (pred (length b) - length b)%nat with 0%nat by lia.
  cbn [firstn]. rewrite app_nil_r, <- removelast_firstn_len. reflexivity.
Qed.

(* ------------------------------------------------------------------------------------------------ flush *)

Lemma skipn_chunk_length (d : list Z) : 255 < zlen d -> length (skipn nchunk d) = (length d - 255)%nat.
Proof. intros H. rewrite skipn_length, chunk_spec. reflexivity. Qed.

Lemma flush_aux_irrel : forall f1 f2 d, (length d <= f1)%nat -> (length d <= f2)%nat ->
  flush_aux f1 d = flush_aux f2 d.
Proof.
  induction f1 as [|f1 IH]; intros f2 d H1 H2.
  - destruct d; [|simpl in H1; lia]. destruct f2; cbn [flush_aux]; [reflexivity|].
    rewrite flush_stop_spec. reflexivity.
  - destruct f2 as [|f2].
    + destruct d; [|simpl in H2; lia]. cbn [flush_aux]. rewrite flush_stop_spec. reflexivity.
    + cbn [flush_aux]. rewrite flush_stop_spec. destruct (zlen d <=? 255) eqn:E; [reflexivity|].
      assert (Hl : 255 < zlen d) by lia. pose proof (skipn_chunk_length d Hl) as Hs. unfold zlen in Hl.
      rewrite (IH f2 (skipn nchunk d)) by lia. reflexivity.
Qed.

Lemma flush_small d : zlen d <= 255 -> flush d = ([], d).
Proof.
  intros H. unfold flush. destruct (length d) eqn:L; cbn [flush_aux]; [reflexivity|].
  rewrite flush_stop_spec. destruct (zlen d <=? 255) eqn:E; [reflexivity|lia].
Qed.

Lemma flush_big d : 255 < zlen d ->
  flush d = let '(rs, rest) := flush (skipn nchunk d) in
            (mk_record (cas_full_prefix ++ firstn nchunk d) :: rs, rest).
Proof.
  intros H. pose proof (skipn_chunk_length d H) as Hs. unfold flush.
  destruct (length d) as [|n] eqn:L; [unfold zlen in H; lia|].
  cbn [flush_aux]. rewrite flush_stop_spec. destruct (zlen d <=? 255) eqn:E; [lia|].
  rewrite (flush_aux_irrel n (length (skipn nchunk d)) (skipn nchunk d)) by lia. reflexivity.
Qed.

Lemma flush_rest_small : forall fuel d rs b, (length d <= fuel)%nat -> flush_aux fuel d = (rs, b) ->
  zlen b <= 255.
Proof.
  induction fuel as [|fuel IH]; intros d rs b Hl H.
  - destruct d; [|simpl in Hl; lia]. cbn in H. inversion H. unfold zlen. simpl. lia.
  - cbn [flush_aux] in H. rewrite flush_stop_spec in H. destruct (zlen d <=? 255) eqn:E.
    + inversion H; subst. lia.
    + destruct (flush_aux fuel (skipn nchunk d)) as [rs' b'] eqn:F. inversion H; subst.
      assert (Hd : 255 < zlen d) by lia. pose proof (skipn_chunk_length d Hd) as Hs. unfold zlen in Hd.
      apply (IH (skipn nchunk d) rs' b); [lia|exact F].
Qed.

Lemma flush_rest_small' d rs b : flush d = (rs, b) -> zlen b <= 255.
Proof. apply flush_rest_small. lia. Qed.

(* the rest left in the buffer: 1..255 bytes, the number written so far minus the full chunks *)
Lemma flush_rest_len : forall fuel d rs b, (length d <= fuel)%nat -> d <> [] -> flush_aux fuel d = (rs, b) ->
  zlen b = (zlen d - 1) mod 255 + 1.
Proof.
  induction fuel as [|fuel IH]; intros d rs b Hl Hne H.
  - destruct d; [congruence|simpl in Hl; lia].
  - cbn [flush_aux] in H. rewrite flush_stop_spec in H. destruct (zlen d <=? 255) eqn:E.
    + inversion H; subst. assert (0 < zlen b) by (unfold zlen; destruct b; [congruence|simpl; lia]).
      rewrite Z.mod_small by lia. lia.
    + destruct (flush_aux fuel (skipn nchunk d)) as [rs' b'] eqn:F. inversion H; subst.
      assert (Hd : 255 < zlen d) by lia. pose proof (skipn_chunk_length d Hd) as Hs.
      assert (Hne' : skipn nchunk d <> []).
      { intros C. rewrite C in Hs. unfold zlen in Hd. simpl in Hs. lia. }
      rewrite (IH (skipn nchunk d) rs' b) by (try assumption; unfold zlen in Hd; lia).
      unfold zlen. rewrite Hs. unfold zlen in Hd.
      replace (Z.of_nat (length d - 255) - 1) with ((Z.of_nat (length d) - 1) + (-1) * 255) by lia.
      rewrite Z.mod_add by lia. reflexivity.
Qed.

(* reading back what flush + the final counted record produce *)
Lemma read_flush : forall fuel d rs b rest, (length d <= fuel)%nat -> d <> [] ->
  flush_aux fuel d = (rs, b) ->
  (0 < length b <= 255)%nat /\
  read_text (rs ++ mk_record (cas_final_count b :: b) :: rest) = DData (removelast d) rest.
Proof.
  induction fuel as [|fuel IH]; intros d rs b rest Hl Hne H.
  - destruct d; [congruence|simpl in Hl; lia].
  - cbn [flush_aux] in H. rewrite flush_stop_spec in H. destruct (zlen d <=? 255) eqn:E.
    + inversion H; subst.
      assert (Hb : (0 < length b <= 255)%nat).
      { unfold zlen in E. destruct b; [congruence|]. cbn [length] in *. lia. }
      split; [exact Hb|]. cbn [app]. apply read_text_final. exact Hb.
    + destruct (flush_aux fuel (skipn nchunk d)) as [rs' b'] eqn:F. inversion H; subst.
      assert (Hd : 255 < zlen d) by lia. pose proof (skipn_chunk_length d Hd) as Hs.
      assert (Hne' : skipn nchunk d <> []).
      { intros C. rewrite C in Hs. unfold zlen in Hd. simpl in Hs. lia. }
      destruct (IH (skipn nchunk d) rs' b rest) as [Hb Hr]; try assumption.
      { unfold zlen in Hd. lia. }
      split; [exact Hb|]. cbn [app].
      rewrite read_text_full by (rewrite firstn_length, chunk_spec; unfold zlen in Hd; lia).
      rewrite Hr. f_equal.
      rewrite <- (firstn_skipn nchunk d) at 3. rewrite removelast_app by exact Hne'. reflexivity.
Qed.

(* the records do not depend on how the bytes were split over write() calls *)
Lemma flush_app_aux : forall fuel d1, (length d1 <= fuel)%nat -> forall d2 rs1 b1 rs2 b2,
  flush_aux fuel d1 = (rs1, b1) -> flush (b1 ++ d2) = (rs2, b2) -> flush (d1 ++ d2) = (rs1 ++ rs2, b2).
Proof.
  induction fuel as [|fuel IH]; intros d1 Hl d2 rs1 b1 rs2 b2 H1 H2.
  - destruct d1; [|simpl in Hl; lia]. cbn in H1. inversion H1; subst. exact H2.
  - cbn [flush_aux] in H1. rewrite flush_stop_spec in H1. destruct (zlen d1 <=? 255) eqn:E.
    + inversion H1; subst. exact H2.
    + destruct (flush_aux fuel (skipn nchunk d1)) as [rs' b'] eqn:F. inversion H1; subst.
      assert (Hd : 255 < zlen d1) by lia. pose proof (skipn_chunk_length d1 Hd) as Hs.
      rewrite flush_big by (unfold zlen in *; rewrite app_length; lia).
      assert (Hn : (nchunk <= length d1)%nat) by (rewrite chunk_spec; unfold zlen in Hd; lia).
      rewrite skipn_app, firstn_app.
      replace (nchunk - length d1)%nat with 0%nat by lia. cbn [skipn firstn]. rewrite app_nil_r.
      rewrite (IH (skipn nchunk d1) ltac:(unfold zlen in Hd; lia) d2 rs' b1 rs2 b2 F H2). reflexivity.
Qed.

Lemma flush_app d1 d2 rs1 b1 rs2 b2 :
  flush d1 = (rs1, b1) -> flush (b1 ++ d2) = (rs2, b2) -> flush (d1 ++ d2) = (rs1 ++ rs2, b2).
Proof. apply flush_app_aux. lia. Qed.

Lemma fold_tw : forall chunks rs0 b0, zlen b0 <= 255 ->
  fold_left tw_write chunks (rs0, b0) =
  (rs0 ++ fst (flush (b0 ++ concat chunks)), snd (flush (b0 ++ concat chunks))).
Proof.
  induction chunks as [|c chunks IH]; intros rs0 b0 Hb.
  - cbn [fold_left concat]. rewrite app_nil_r, flush_small by exact Hb. cbn [fst snd].
    rewrite app_nil_r. reflexivity.
  - cbn [fold_left concat]. unfold tw_write at 2. cbn [fst snd].
    destruct (flush (b0 ++ c)) as [rs b] eqn:F.
    rewrite IH by (apply (flush_rest_small' _ _ _ F)).
    destruct (flush (b ++ concat chunks)) as [rs2 b2] eqn:F2.
    rewrite app_assoc. rewrite (flush_app (b0 ++ c) (concat chunks) rs b rs2 b2 F F2).
    cbn [fst snd]. rewrite app_assoc. reflexivity.
Qed.

(* the records of a text file in terms of its whole contents *)
Lemma text_records_eq chunks :
  exists rs b, flush (concat chunks ++ [0]) = (rs, b) /\ (0 < length b <= 255)%nat /\
    text_records chunks = rs ++ [mk_record (cas_final_count b :: b)].
Proof.
  unfold text_records. rewrite fold_tw by (unfold zlen; simpl; lia). cbn [app].
  destruct (flush (concat chunks)) as [rs1 b1] eqn:F1. cbn [fst snd app].
  unfold tw_close, tw_write. cbn [fst snd].
  destruct (flush (b1 ++ [0])) as [rs2 b2] eqn:F2. cbn [fst snd].
  pose proof (flush_app _ _ _ _ _ _ F1 F2) as F.
  assert (Hne : concat chunks ++ [0] <> []) by (intros C; apply app_eq_nil in C; destruct C; discriminate).
  destruct (read_flush _ _ _ _ [] (Nat.le_refl _) Hne F) as [Hb _].
  rewrite (flush_small b2) by (unfold zlen; lia).
  rewrite final_present_spec. destruct (zlen b2 =? 0) eqn:E; [unfold zlen in E; lia|].
  cbn [negb app]. exists (rs1 ++ rs2), b2. split; [exact F|]. split; [exact Hb|reflexivity].
Qed.

Theorem text_records_history chunks : text_records chunks = text_records [concat chunks].
Proof.
  destruct (text_records_eq chunks) as (rs & b & F & _ & E).
  destruct (text_records_eq [concat chunks]) as (rs' & b' & F' & _ & E').
  cbn [concat] in F'. rewrite app_nil_r in F'. rewrite F in F'. inversion F'; subst. congruence.
Qed.

Theorem text_roundtrip chunks rest :
  read_text (text_records chunks ++ rest) = DData (concat chunks) rest.
Proof.
  destruct (text_records_eq chunks) as (rs & b & F & _ & E). rewrite E.
  assert (Hne : concat chunks ++ [0] <> []) by (intros C; apply app_eq_nil in C; destruct C; discriminate).
  destruct (read_flush _ _ _ _ rest (Nat.le_refl _) Hne F) as [_ Hr].
  rewrite <- app_assoc. cbn [app]. rewrite Hr, removelast_last. reflexivity.
Qed.

(* ------------------------------------------------------------------------------------------------ binary records *)

Lemma read_rec_nil want got : read_rec [] want got = if want <=? got then Some [] else None.
Proof. reflexivity. Qed.

Lemma read_rec_cons b bs want got : got < want ->
  read_rec (b :: bs) want got = option_map (app b) (read_rec bs want (got + zlen b)).
Proof. intros H. cbn [read_rec]. destruct (want <=? got) eqn:E; [lia|reflexivity]. Qed.

Lemma read_rec_blocks : forall fuel d got, (length d <= fuel)%nat ->
  exists padding, read_rec (blocks_of fuel d) (got + zlen d) got = Some (d ++ padding).
Proof.
  induction fuel as [|fuel IH]; intros d got Hl.
  - destruct d; [|simpl in Hl; lia]. exists []. cbn [blocks_of]. rewrite read_rec_nil.
    unfold zlen. cbn [length]. destruct (got + Z.of_nat 0 <=? got) eqn:E; [reflexivity|lia].
  - destruct d as [|z d'] eqn:Ed.
    + exists []. cbn [blocks_of]. rewrite read_rec_nil.
      unfold zlen. cbn [length]. destruct (got + Z.of_nat 0 <=? got) eqn:E; [reflexivity|lia].
    + rewrite <- Ed in *. assert (Hpos : (0 < length d)%nat) by (rewrite Ed; cbn [length]; lia).
      replace (blocks_of (S fuel) d) with (pad_block (firstn nblock d) :: blocks_of fuel (skipn nblock d))
        by (rewrite Ed; reflexivity).
      rewrite read_rec_cons by (unfold zlen; lia).
      destruct (Nat.le_gt_cases (length d) 256) as [Hs|Hb].
      * rewrite firstn_all2 by (rewrite block_spec; exact Hs).
        rewrite skipn_all2 by (rewrite block_spec; exact Hs). rewrite blocks_of_nil, read_rec_nil.
        unfold zlen at 2. rewrite pad_block_length by lia.
        destruct (got + zlen d <=? got + Z.of_nat 256) eqn:E; [|unfold zlen in E; lia].
        cbn [option_map]. rewrite app_nil_r. unfold pad_block. eexists. reflexivity.
      * assert (Hf : length (firstn nblock d) = 256%nat) by (rewrite firstn_length, block_spec; lia).
        rewrite pad_block_full by exact Hf. unfold zlen at 2. rewrite Hf.
        assert (Hk : length (skipn nblock d) = (length d - 256)%nat) by (rewrite skipn_length, block_spec; reflexivity).
        destruct (IH (skipn nblock d) (got + Z.of_nat 256) ltac:(lia)) as [p Hp].
        replace (got + Z.of_nat 256 + zlen (skipn nblock d)) with (got + zlen d) in Hp
          by (unfold zlen; rewrite Hk; lia).
        rewrite Hp. cbn [option_map]. exists p. rewrite app_assoc, firstn_skipn. reflexivity.
Qed.

Theorem binary_roundtrip d rest : read_binary (zlen d) (mk_record d :: rest) = DData d rest.
Proof.
  unfold read_binary, mk_record. destruct (read_rec_blocks (length d) d 0 (Nat.le_refl _)) as [p Hp].
  rewrite Z.add_0_l in Hp. rewrite Hp. unfold zlen. rewrite Nat2Z.id, firstn_app, firstn_all, Nat.sub_diag.
  cbn [firstn]. rewrite app_nil_r. reflexivity.
Qed.

Lemma mk_record_hd d : d <> [] -> exists b bs, mk_record d = b :: bs /\ hd 0 b = hd 0 d.
Proof.
  intros H. destruct d as [|z d]; [congruence|]. unfold mk_record. cbn [length blocks_of].
  eexists. eexists. split; [reflexivity|]. unfold pad_block.
  destruct nblock eqn:N; [rewrite block_spec in N; discriminate|]. reflexivity.
Qed.

(* ------------------------------------------------------------------------------------------------ header *)

Definition u16 (z : Z) : Prop := 0 <= z < 65536.

Lemma u16b_true z : u16 z -> u16b z = true.
Proof. unfold u16, u16b. lia. Qed.

Lemma pad_name_length name : length (pad_name name) = 8%nat.
Proof. unfold pad_name. rewrite app_length, firstn_length, repeat_length. lia. Qed.

Lemma list8 (l : list Z) : length l = 8%nat ->
  exists a0 a1 a2 a3 a4 a5 a6 a7, l = [a0; a1; a2; a3; a4; a5; a6; a7].
Proof.
  intros H. do 8 (destruct l as [|? l]; [discriminate|]). destruct l; [|discriminate].
  repeat eexists.
Qed.

Lemma header_record name tok len seg offs : u16 len -> u16 seg -> u16 offs ->
  exists b, mk_record (header_bytes name tok len seg offs) = [b] /\ hd 0 b = cas_magic /\
            parse_header b = (pad_name name, tok, len, seg, offs).
Proof.
  intros Hl Hs Ho. destruct (list8 _ (pad_name_length name)) as (a0 & a1 & a2 & a3 & a4 & a5 & a6 & a7 & E).
  unfold header_bytes. rewrite E, header_tail_spec. cbn [app le2].
  rewrite mk_record_single by (cbn [length]; lia).
  eexists. split; [reflexivity|]. unfold pad_block. cbn [app hd]. split; [reflexivity|].
  unfold parse_header. cbn [skipn firstn nth].
  pose proof (Z.div_mod len 256 ltac:(lia)). pose proof (Z.div_mod seg 256 ltac:(lia)).
  pose proof (Z.div_mod offs 256 ltac:(lia)).
  repeat f_equal; lia.
Qed.

(* ------------------------------------------------------------------------------------------------ names and types *)

Lemma drop_ws_spaces k l : drop_ws (repeat 32 k ++ l) = drop_ws l.
Proof. induction k as [|k IH]; [reflexivity|]. cbn [repeat app drop_ws]. exact IH. Qed.

Lemma rev_repeat {A} (x : A) k : rev (repeat x k) = repeat x k.
Proof.
  induction k as [|k IH]; [reflexivity|]. cbn [repeat rev]. rewrite IH.
  clear IH. induction k as [|k IH]; [reflexivity|]. cbn [repeat app]. rewrite IH. reflexivity.
Qed.

Lemma rstrip_spaces l k : rstrip (l ++ repeat 32 k) = rstrip l.
Proof. unfold rstrip. rewrite rev_app_distr, rev_repeat, drop_ws_spaces. reflexivity. Qed.

(* every file is matched by the name it was written under (whatever its length) *)
Lemma name_match_own name : name_match name (pad_name name) = true.
Proof.
  unfold name_match. destruct name as [|c nm] eqn:E; [reflexivity|]. rewrite <- E.
  unfold pad_name, req_trunc. rewrite name_limit_spec. cbn [Z.ltb Z.compare Z.to_nat Pos.to_nat Pos.iter_op Nat.add].
  rewrite rstrip_spaces. apply list_Z_eqb_eq. reflexivity.
Qed.

Definition ftype_ok (t : Z) : Prop := t = tD \/ t = tA \/ t = tB \/ t = tP \/ t = tM.
Definition token_of (t : Z) : Z := match zassoc t cas_type_to_token with Some k => k | None => 0 end.

Lemma token_roundtrip t : ftype_ok t ->
  zassoc t cas_type_to_token = Some (token_of t) /\ zassoc (token_of t) cas_token_to_type = Some t.
Proof. intros [H|[H|[H|[H|H]]]]; subst; split; reflexivity. Qed.

Lemma ftype_cases t : ftype_ok t -> (is_ad t = true /\ is_binary t = false) \/ (is_ad t = false /\ is_binary t = true).
Proof. intros [H|[H|[H|[H|H]]]]; subst; [left|left|right|right|right]; split; reflexivity. Qed.

(* ------------------------------------------------------------------------------------------------ whole files *)

Definition last_ok (l : Z * Z * Z) : Prop := let '(s, o, n) := l in u16 s /\ u16 o /\ u16 n.

(* what CASDevice.open accepts for writing: no control characters in the name, one of the five types,
   and for B/P/M files an address and a length that fit the 16-bit header fields *)
Definition file_ok (f : wfile) : Prop :=
  illegal_name (wf_name f) = false /\ ftype_ok (wf_type f) /\
  (is_binary (wf_type f) = true -> u16 (wf_seg f) /\ u16 (wf_off f) /\ zlen (wf_data f) < 65536).

Definition hdr_fields (last : Z * Z * Z) (f : wfile) : Z * Z * Z :=
  if is_ad (wf_type f) then last else (wf_seg f, wf_off f, zlen (wf_data f)).

Definition body_records (f : wfile) : list record :=
  if is_binary (wf_type f) then binary_records (wf_chunks f) else text_records (wf_chunks f).

Definition file_records (last : Z * Z * Z) (f : wfile) : list record :=
  let '(seg, offs, len) := hdr_fields last f in
  mk_record (header_bytes (wf_name f) (token_of (wf_type f)) len seg offs) :: body_records f.

Fixpoint files_records (last : Z * Z * Z) (fs : list wfile) : list record :=
  match fs with
  | [] => []
  | f :: r => file_records last f ++ files_records (hdr_fields last f) r
  end.

Definition end_last (last : Z * Z * Z) (fs : list wfile) : Z * Z * Z := fold_left hdr_fields fs last.
Definition last_type (cur : Z) (fs : list wfile) : Z := fold_left (fun _ f => wf_type f) fs cur.

(* what reading a file back yields *)
Definition view (last : Z * Z * Z) (f : wfile) : rfile :=
  let '(seg, offs, len) := hdr_fields last f in
  let bin := negb (is_ad (wf_type f)) in
  {| rf_name := pad_name (wf_name f); rf_type := wf_type f; rf_bin := bin;
     rf_seg := if bin then seg else 0; rf_off := if bin then offs else 0; rf_len := if bin then len else 0;
     rf_data := wf_data f |}.

Fixpoint views (last : Z * Z * Z) (fs : list wfile) : list rfile :=
  match fs with
  | [] => []
  | f :: r => view last f :: views (hdr_fields last f) r
  end.

Lemma hdr_fields_ok last f : file_ok f -> last_ok last -> last_ok (hdr_fields last f).
Proof.
  intros (_ & Ht & Hb) Hl. unfold hdr_fields. destruct (ftype_cases _ Ht) as [[Ha Hbin]|[Ha Hbin]]; rewrite Ha.
  - exact Hl.
  - destruct (Hb Hbin) as (H1 & H2 & H3). unfold last_ok. repeat split; try apply H1; try apply H2;
      unfold zlen in *; lia.
Qed.

Lemma end_last_ok : forall fs last, Forall file_ok fs -> last_ok last -> last_ok (end_last last fs).
Proof.
  induction fs as [|f r IH]; intros last Hf Hl; [exact Hl|]. inversion Hf; subst.
  unfold end_last. cbn [fold_left]. apply IH; [assumption|]. apply hdr_fields_ok; assumption.
Qed.

Lemma write_file_ok st f : file_ok f -> last_ok (w_last st) ->
  write_file st f = ({| w_tape := w_tape st ++ file_records (w_last st) f;
                        w_last := hdr_fields (w_last st) f |}, [0]).
Proof.
  intros Hf Hl. pose proof (hdr_fields_ok _ _ Hf Hl) as Hl'. destruct Hf as (Hn & Ht & Hb).
  unfold write_file. rewrite Hn. change (header_fields st f) with (hdr_fields (w_last st) f).
  unfold file_records. destruct (hdr_fields (w_last st) f) as [[seg offs] len] eqn:E.
  destruct (token_roundtrip _ Ht) as [T1 _]. rewrite T1.
  destruct Hl' as (H1 & H2 & H3). rewrite !u16b_true by assumption. reflexivity.
Qed.

Lemma write_files_tape : forall fs st, Forall file_ok fs -> last_ok (w_last st) ->
  w_tape (fst (write_files st fs)) = w_tape st ++ files_records (w_last st) fs.
Proof.
  induction fs as [|f r IH]; intros st Hf Hl.
  - cbn. rewrite app_nil_r. reflexivity.
  - inversion Hf; subst. cbn [write_files files_records]. rewrite write_file_ok by assumption.
    match goal with |- context [write_files ?s r] => pose proof (IH s) as IH'; destruct (write_files s r) as [st2 cs] end.
    cbn [fst w_tape w_last] in *. rewrite IH' by (try assumption; apply hdr_fields_ok; assumption).
    rewrite app_assoc. reflexivity.
Qed.

Lemma write_tape_records fs : Forall file_ok fs -> write_tape fs = files_records (0, 0, 0) fs.
Proof.
  intros H. unfold write_tape. rewrite write_files_tape; [reflexivity|exact H|].
  unfold last_ok, u16. cbn. lia.
Qed.

(* ------------------------------------------------------------------------------------------------ searching *)

Lemma search_pass b bs nreq treq cur msgs seen rest : hd 0 b <> 165 ->
  search nreq treq cur msgs seen ((b :: bs) :: rest) = search nreq treq cur msgs seen rest.
Proof. intros H. cbn [search]. rewrite magic_spec. destruct (hd 0 b =? 165) eqn:E; [lia|reflexivity]. Qed.

Lemma search_pass_record d nreq treq cur msgs seen rest : d <> [] -> hd 0 d <> 165 ->
  search nreq treq cur msgs seen (mk_record d :: rest) = search nreq treq cur msgs seen rest.
Proof.
  intros Hne Hh. destruct (mk_record_hd d Hne) as (b & bs & E & Hb). rewrite E.
  apply search_pass. congruence.
Qed.

Lemma search_pass_text nreq treq cur msgs seen rest : forall fuel d rs b,
  (length d <= fuel)%nat -> d <> [] -> flush_aux fuel d = (rs, b) -> zlen b <> 165 ->
  search nreq treq cur msgs seen (rs ++ mk_record (cas_final_count b :: b) :: rest) =
  search nreq treq cur msgs seen rest.
Proof.
  induction fuel as [|fuel IH]; intros d rs b Hl Hne H Hb.
  - destruct d; [congruence|simpl in Hl; lia].
  - cbn [flush_aux] in H. rewrite flush_stop_spec in H. destruct (zlen d <=? 255) eqn:E.
    + inversion H; subst. cbn [app]. apply search_pass_record; [discriminate|].
      cbn [hd]. rewrite final_count_spec. exact Hb.
    + destruct (flush_aux fuel (skipn nchunk d)) as [rs' b'] eqn:F. inversion H; subst.
      assert (Hd : 255 < zlen d) by lia. pose proof (skipn_chunk_length d Hd) as Hs.
      assert (Hne' : skipn nchunk d <> []).
      { intros C. rewrite C in Hs. unfold zlen in Hd. simpl in Hs. lia. }
      cbn [app]. rewrite search_pass_record.
      * apply (IH (skipn nchunk d)); try assumption. unfold zlen in Hd. lia.
      * rewrite full_prefix_spec. discriminate.
      * rewrite full_prefix_spec. cbn [app hd]. lia.
Qed.

(* files the search can pass over: B/P/M files always (their data record is read, skip_data); a text/data
   file unless its last count byte is A5, which the scan for the next header takes for a header *)
Definition skippable (f : wfile) : Prop :=
  is_binary (wf_type f) = false -> (zlen (wf_data f)) mod 255 <> 164.

Lemma search_pass_body f nreq treq cur msgs seen rest : is_binary (wf_type f) = false -> skippable f ->
  search nreq treq cur msgs seen (body_records f ++ rest) = search nreq treq cur msgs seen rest.
Proof.
  unfold skippable, body_records. intros Hbin Hs. specialize (Hs Hbin). rewrite Hbin.
  destruct (text_records_eq (wf_chunks f)) as (rs & b & F & Hb & E). rewrite E.
  rewrite <- app_assoc. cbn [app].
  assert (Hne : concat (wf_chunks f) ++ [0] <> []) by (intros C; apply app_eq_nil in C; destruct C; discriminate).
  apply (search_pass_text _ _ _ _ _ _ _ _ rs b (Nat.le_refl _) Hne F).
  rewrite (flush_rest_len _ _ _ _ (Nat.le_refl _) Hne F).
  unfold zlen. rewrite app_length. cbn [length]. unfold wf_data, zlen in Hs.
  replace (Z.of_nat (length (concat (wf_chunks f)) + 1) - 1) with (Z.of_nat (length (concat (wf_chunks f)))) by lia.
  lia.
Qed.

Definition matches (nreq treq : list Z) (f : wfile) : bool :=
  name_match nreq (pad_name (wf_name f)) && type_match treq (wf_type f).

Lemma search_header last f nreq treq cur msgs seen rest : file_ok f -> last_ok last ->
  exists hb, parse_header hb = (pad_name (wf_name f), token_of (wf_type f),
                                snd (hdr_fields last f), fst (fst (hdr_fields last f)), snd (fst (hdr_fields last f))) /\
    search nreq treq cur msgs seen (file_records last f ++ rest) =
    if matches nreq treq f
    then SFound hb (wf_type f) (msgs ++ msg 1 (pad_name (wf_name f)) (wf_type f)) (body_records f ++ rest)
    else search nreq treq (wf_type f) (msgs ++ msg 2 (pad_name (wf_name f)) (wf_type f)) true
                (if is_binary (wf_type f) then rest else body_records f ++ rest).
Proof.
  intros Hf Hl. pose proof (hdr_fields_ok _ _ Hf Hl) as Hl'. destruct Hf as (Hn & Ht & Hb).
  unfold file_records. destruct (hdr_fields last f) as [[seg offs] len] eqn:E. destruct Hl' as (H1 & H2 & H3).
  destruct (header_record (wf_name f) (token_of (wf_type f)) len seg offs H3 H1 H2) as (hb & Er & Hm & Hp).
  exists hb. split; [exact Hp|]. rewrite Er. cbn [app search]. rewrite Hm, Z.eqb_refl, Hp.
  destruct (token_roundtrip _ Ht) as [_ T2]. rewrite T2. unfold matches.
  destruct (name_match nreq (pad_name (wf_name f)) && type_match treq (wf_type f)); [reflexivity|].
  rewrite skips_binary_spec. cbn [andb].
  destruct (ftype_cases _ Ht) as [[Ha Hbin]|[Ha Hbin]]; rewrite Hbin; [reflexivity|].
  unfold hdr_fields in E. rewrite Ha in E. inversion E; subst.
  unfold body_records. rewrite Hbin. unfold binary_records. cbn [app].
  unfold mk_record, wf_data.
  destruct (read_rec_blocks (length (concat (wf_chunks f))) (concat (wf_chunks f)) 0 (Nat.le_refl _)) as [p Hp'].
  rewrite Z.add_0_l in Hp'. rewrite Hp'. reflexivity.
Qed.

Definition skipped_msgs (fs : list wfile) : list Z :=
  flat_map (fun f => msg 2 (pad_name (wf_name f)) (wf_type f)) fs.

Definition passed_over (nreq treq : list Z) (f : wfile) : Prop :=
  file_ok f /\ skippable f /\ matches nreq treq f = false.

Lemma search_skip_files nreq treq rest : forall fs last cur msgs seen,
  Forall (passed_over nreq treq) fs -> last_ok last ->
  search nreq treq cur msgs seen (files_records last fs ++ rest) =
  search nreq treq (last_type cur fs) (msgs ++ skipped_msgs fs)
         (seen || match fs with [] => false | _ => true end) rest.
Proof.
  induction fs as [|f r IH]; intros last cur msgs seen Hf Hl.
  - cbn. rewrite app_nil_r, orb_false_r. reflexivity.
  - inversion Hf as [|? ? (Hok & Hsk & Hnm) Hr]; subst. cbn [files_records]. rewrite <- app_assoc.
    destruct (search_header last f nreq treq cur msgs seen (files_records (hdr_fields last f) r ++ rest) Hok Hl)
      as (hb & _ & Es).
    rewrite Es, Hnm.
    assert (Ebody : search nreq treq (wf_type f) (msgs ++ msg 2 (pad_name (wf_name f)) (wf_type f)) true
              (if is_binary (wf_type f) then files_records (hdr_fields last f) r ++ rest
               else body_records f ++ files_records (hdr_fields last f) r ++ rest) =
            search nreq treq (wf_type f) (msgs ++ msg 2 (pad_name (wf_name f)) (wf_type f)) true
              (files_records (hdr_fields last f) r ++ rest)).
    { destruct (is_binary (wf_type f)) eqn:Hbin; [reflexivity|]. apply search_pass_body; assumption. }
    rewrite Ebody.
    rewrite IH by (try assumption; apply hdr_fields_ok; assumption).
    unfold last_type, skipped_msgs. cbn [fold_left flat_map]. rewrite <- app_assoc, orb_true_r. reflexivity.
Qed.

(* ------------------------------------------------------------------------------------------------ main theorems *)

(* Searching for a file passes over whole files (one Skipped message each), finds the first match,
   returns exactly what was written, and leaves the head at the header of the following file. *)
Theorem find_file T cur nreq treq fs1 f rest last :
  Forall (passed_over nreq treq) fs1 -> file_ok f -> matches nreq treq f = true ->
  last_ok last -> illegal_name nreq = false ->
  open_read_all {| r_tape := T; r_rest := files_records last fs1 ++ file_records (end_last last fs1) f ++ rest;
                   r_type := cur; r_open := false |} nreq treq =
  ({| r_tape := T; r_rest := rest; r_type := wf_type f; r_open := false |},
   skipped_msgs fs1 ++ msg 1 (pad_name (wf_name f)) (wf_type f),
   OFile (view (end_last last fs1) f)).
Proof.
  intros H1 Hf Hm Hl Hn.
  assert (Hoks : Forall file_ok fs1) by (eapply Forall_impl; [|exact H1]; intros a Ha; apply Ha).
  pose proof (end_last_ok _ _ Hoks Hl) as Hl'.
  unfold open_read_all. cbn [r_open r_rest r_type r_tape]. rewrite Hn.
  rewrite search_skip_files by assumption.
  destruct (search_header (end_last last fs1) f nreq treq (last_type cur fs1) ([] ++ skipped_msgs fs1)
              (false || match fs1 with [] => false | _ => true end) rest Hf Hl') as (hb & Hp & Es).
  rewrite Es, Hm, Hp. cbn [app]. unfold view.
  destruct Hf as (_ & Ht & Hb). unfold hdr_fields, body_records in *.
  destruct (ftype_cases _ Ht) as [[Ha Hbin]|[Ha Hbin]]; rewrite Ha, Hbin in *.
  - destruct (end_last last fs1) as [[s o] n]. cbn [fst snd negb].
    rewrite text_roundtrip. reflexivity.
  - cbn [fst snd negb]. unfold binary_records. cbn [app].
    unfold wf_data. rewrite binary_roundtrip. reflexivity.
Qed.

(* no matching file ahead: Device Timeout, one Skipped message per file, tape rewound, device not open *)
Theorem not_found T cur nreq treq fs last :
  Forall (passed_over nreq treq) fs -> last_ok last -> illegal_name nreq = false ->
  open_read_all {| r_tape := T; r_rest := files_records last fs; r_type := cur; r_open := false |} nreq treq =
  ({| r_tape := T; r_rest := T; r_type := last_type cur fs; r_open := false |}, skipped_msgs fs, OErr 24).
Proof.
  intros H1 Hl Hn. unfold open_read_all. cbn [r_open r_rest r_type r_tape]. rewrite Hn.
  rewrite <- (app_nil_r (files_records last fs)), search_skip_files by assumption.
  cbn [search app]. rewrite eot_closes_spec. cbn [negb]. rewrite andb_false_r. reflexivity.
Qed.

Lemma files_records_length : forall fs last, (length fs <= length (files_records last fs))%nat.
Proof.
  induction fs as [|f r IH]; intros last; [cbn; lia|]. cbn [files_records length]. rewrite app_length.
  specialize (IH (hdr_fields last f)). unfold file_records. destruct (hdr_fields last f) as [[s o] n].
  cbn [length] in *. lia.
Qed.

Lemma read_seq_files : forall fs last T cur fuel, (length fs < fuel)%nat -> Forall file_ok fs -> last_ok last ->
  read_seq fuel {| r_tape := T; r_rest := files_records last fs; r_type := cur; r_open := false |} = views last fs.
Proof.
  induction fs as [|f r IH]; intros last T cur fuel Hfu Hf Hl; (destruct fuel as [|fuel]; [cbn [length] in Hfu; lia|]).
  - reflexivity.
  - inversion Hf; subst. cbn [read_seq files_records].
    pose proof (find_file T cur [] [] [] f (files_records (hdr_fields last f) r) last (Forall_nil _)) as Hfind.
    cbn [files_records app end_last fold_left skipped_msgs flat_map] in Hfind.
    rewrite Hfind; [|assumption|reflexivity|assumption|reflexivity].
    cbn [views]. f_equal. apply IH; [cbn [length] in Hfu; lia|assumption|apply hdr_fields_ok; assumption].
Qed.

(* reading a tape from the start, file by file, returns the files that were written *)
Theorem tape_roundtrip fs : Forall file_ok fs -> read_tape (write_tape fs) = views (0, 0, 0) fs.
Proof.
  intros H. rewrite write_tape_records by exact H. unfold read_tape, rst0.
  apply read_seq_files; [|exact H|unfold last_ok, u16; lia].
  pose proof (files_records_length fs (0, 0, 0)). lia.
Qed.

Lemma views_data : forall fs last, map rf_data (views last fs) = map wf_data fs.
Proof.
  induction fs as [|f r IH]; intros last; [reflexivity|]. cbn [views map]. rewrite IH. f_equal.
  unfold view. destruct (hdr_fields last f) as [[s o] n]. reflexivity.
Qed.

Lemma views_name_type : forall fs last,
  map (fun v => (rf_name v, rf_type v)) (views last fs) = map (fun f => (pad_name (wf_name f), wf_type f)) fs.
Proof.
  induction fs as [|f r IH]; intros last; [reflexivity|]. cbn [views map]. rewrite IH. f_equal.
  unfold view. destruct (hdr_fields last f) as [[s o] n]. reflexivity.
Qed.

(* address and length of B/P/M files come back as given *)
Lemma view_binary last f : is_ad (wf_type f) = false ->
  let v := view last f in (rf_bin v, rf_seg v, rf_off v, rf_len v) = (true, wf_seg f, wf_off f, zlen (wf_data f)).
Proof. intros H. unfold view, hdr_fields. rewrite H. reflexivity. Qed.

(* ------------------------------------------------------------------------------------------------ bounded reads (INPUT$) *)

(* the text records ahead end in a counted record before the tape ends or becomes unreadable *)
Fixpoint terminated (rest : list record) : bool :=
  match rest with
  | [] => false
  | r :: rest' => match r with
                  | [] => false
                  | b :: _ => if cas_is_last (hd 0 b) then true else terminated rest'
                  end
  end.

Definition ahead (rest : list record) : list Z :=
  match read_text rest with DData d _ => d | DIOErr _ => [] end.
Definition after (rest : list record) : list record :=
  match read_text rest with DData _ r => r | DIOErr r => r end.

(* what is still to be read from an open text file, and where the tape head ends up *)
Definition remaining (s : rdst) : list Z := rd_buf s ++ (if rd_done s then [] else ahead (rd_rest s)).
Definition final_rest (s : rdst) : list record := if rd_done s then rd_rest s else after (rd_rest s).
Definition good (s : rdst) : Prop := rd_done s = true \/ terminated (rd_rest s) = true.

Lemma terminated_readable : forall rest, terminated rest = true -> exists d r, read_text rest = DData d r.
Proof.
  induction rest as [|r rest' IH]; [discriminate|]. destruct r as [|b bs]; [discriminate|].
  cbn [terminated read_text]. destruct (cas_is_last (hd 0 b)); intros H.
  - eexists. eexists. reflexivity.
  - destruct (IH H) as (d & r'' & E). rewrite E. eexists. eexists. reflexivity.
Qed.

Lemma fill_text_spec rest : terminated rest = true ->
  exists s2, fill_text rest = FOk s2 /\ good s2 /\ remaining s2 = ahead rest /\ final_rest s2 = after rest /\
             (length (rd_rest s2) < length rest)%nat.
Proof.
  destruct rest as [|r rest']; [discriminate|]. destruct r as [|b bs]; [discriminate|].
  unfold ahead, after, remaining, final_rest, good. cbn [terminated fill_text read_text].
  destruct (cas_is_last (hd 0 b)) eqn:E; intros H.
  - eexists. split; [reflexivity|]. cbn [rd_buf rd_done rd_rest length]. rewrite app_nil_r.
    repeat split; auto.
  - eexists. split; [reflexivity|]. cbn [rd_buf rd_done rd_rest length].
    destruct (terminated_readable _ H) as (d & r'' & Er). unfold ahead, after. rewrite Er. repeat split; auto.
Qed.

(* one bounded read returns exactly the next n bytes of the file (fewer only when fewer remain),
   advances by what it returned, and a short answer means the file has been read to its last record *)
Lemma cs_read_spec : forall fuel n c s, good s -> (length (rd_rest s) < fuel)%nat ->
  exists s', cs_read fuel n c s = ROk (c ++ firstn (n - length c) (remaining s)) s' /\
             remaining s' = skipn (n - length c) (remaining s) /\ good s' /\ final_rest s' = final_rest s /\
             ((length (c ++ firstn (n - length c) (remaining s)) < n)%nat -> rd_done s' = true).
Proof.
  induction fuel as [|fuel IH]; intros n c s Hg Hf; [lia|].
  cbn [cs_read]. set (k := (n - length c)%nat).
  destruct (n <=? length (c ++ firstn k (rd_buf s)))%nat eqn:E.
  - apply Nat.leb_le in E. rewrite app_length, firstn_length in E.
    assert (Hk : (k <= length (rd_buf s))%nat) by lia.
    eexists. split; [|split; [|split; [|split]]].
    + unfold remaining. rewrite firstn_app. replace (k - length (rd_buf s))%nat with 0%nat by lia.
      cbn [firstn]. rewrite app_nil_r. reflexivity.
    + unfold remaining. cbn [rd_buf rd_done rd_rest]. rewrite skipn_app.
      replace (k - length (rd_buf s))%nat with 0%nat by lia. reflexivity.
    + exact Hg.
    + reflexivity.
    + unfold remaining. rewrite firstn_app. replace (k - length (rd_buf s))%nat with 0%nat by lia.
      cbn [firstn]. rewrite app_nil_r, app_length, firstn_length. lia.
  - apply Nat.leb_gt in E. rewrite app_length, firstn_length in E.
    assert (Hk : (length (rd_buf s) < k)%nat) by lia.
    destruct (rd_done s) eqn:Hd.
    + eexists. split; [|split; [|split; [|split]]].
      * unfold remaining. rewrite Hd, app_nil_r. reflexivity.
      * unfold remaining. cbn [rd_buf rd_done rd_rest]. rewrite Hd, !app_nil_r. reflexivity.
      * left. reflexivity.
      * unfold final_rest. cbn [rd_done rd_rest]. rewrite Hd. reflexivity.
      * intros _. reflexivity.
    + destruct Hg as [Hg|Hg]; [congruence|].
      destruct (fill_text_spec _ Hg) as (s2 & Ef & Hg2 & Hr2 & Hfr2 & Hl2). rewrite Ef.
      destruct (IH n (c ++ firstn k (rd_buf s)) s2 Hg2 ltac:(lia)) as (s' & Er & Hrem & Hg' & Hfr' & Hshort).
      assert (Efirst : firstn k (rd_buf s) = rd_buf s) by (apply firstn_all2; lia).
      assert (Ek : (n - length (c ++ firstn k (rd_buf s)) = k - length (rd_buf s))%nat)
        by (rewrite app_length, Efirst; lia).
      assert (Eout : (c ++ firstn k (rd_buf s)) ++ firstn (n - length (c ++ firstn k (rd_buf s))) (remaining s2) =
                     c ++ firstn k (remaining s)).
      { rewrite Ek, Hr2. unfold remaining. rewrite Hd, firstn_app, Efirst, app_assoc. reflexivity. }
      exists s'. split; [rewrite Er, Eout; reflexivity|]. split; [|split; [exact Hg'|split]].
      * rewrite Hrem, Ek, Hr2. unfold remaining. rewrite Hd, skipn_app.
        replace (skipn k (rd_buf s)) with (@nil Z) by (symmetry; apply skipn_all2; lia). reflexivity.
      * rewrite Hfr', Hfr2. unfold final_rest. rewrite Hd. reflexivity.
      * rewrite <- Eout. exact Hshort.
Qed.

(* the lengths a sequence of bounded reads must return: min (request, bytes left); a final 0 *)
Fixpoint lens_spec (fuel : nat) (plan : list nat) (i : nat) (left : nat) : list Z :=
  match fuel with
  | O => []
  | S f => let g := Nat.min (nth (i mod length plan) plan 1%nat) left in
           match g with
           | O => [0]
           | _ => Z.of_nat g :: lens_spec f plan (S i) (left - g)
           end
  end.

Lemma read_plan_spec : forall fuel plan i s data lens, good s -> Forall (fun n => (1 <= n)%nat) plan ->
  (length (remaining s) < fuel)%nat ->
  read_plan fuel plan i s data lens =
  Some (data ++ remaining s, lens ++ lens_spec fuel plan i (length (remaining s)), final_rest s).
Proof.
  induction fuel as [|fuel IH]; intros plan i s data lens Hg Hp Hf; [lia|].
  cbn [read_plan lens_spec]. set (n := nth (i mod length plan) plan 1%nat).
  assert (Hn : (1 <= n)%nat).
  { unfold n. destruct (nth_in_or_default (i mod length plan) plan 1%nat) as [Hin | Hdef]; [|rewrite Hdef; lia].
    rewrite Forall_forall in Hp. apply Hp, Hin. }
  unfold read_n. destruct (cs_read_spec (S (length (rd_rest s))) n [] s Hg ltac:(lia))
    as (s' & Er & Hrem & Hg' & Hfr & Hshort).
  cbn [app length] in *. rewrite Nat.sub_0_r in *. rewrite Er.
  destruct (firstn n (remaining s)) as [|x xs] eqn:Ec.
  - assert (Hz : remaining s = []).
    { destruct (remaining s); [reflexivity|]. destruct n; [lia|discriminate]. }
    rewrite Hz. cbn [length Nat.min]. rewrite Nat.min_0_r, app_nil_r.
    assert (Hd : rd_done s' = true) by (apply Hshort; cbn [length]; lia).
    f_equal. f_equal. rewrite <- Hfr. unfold final_rest. rewrite Hd. reflexivity.
  - assert (Hlen : length (x :: xs) = Nat.min n (length (remaining s))) by (rewrite <- Ec; apply firstn_length).
    rewrite <- Hlen. cbn [length]. 
    rewrite (IH plan (S i) s' (data ++ x :: xs) (lens ++ [zlen (x :: xs)]) Hg' Hp).
    + assert (E1 : (data ++ x :: xs) ++ remaining s' = data ++ remaining s)
        by (rewrite Hrem, <- Ec, <- app_assoc, firstn_skipn; reflexivity).
      assert (E2 : length (remaining s') = (length (remaining s) - S (length xs))%nat)
        by (rewrite Hrem, skipn_length; cbn [length] in Hlen; lia).
      rewrite E1, E2, Hfr, <- app_assoc. unfold zlen. cbn [length app]. reflexivity.
    + rewrite Hrem, skipn_length. cbn [length] in Hlen. lia.
Qed.

(* bytes on the tape bound the bytes of the file *)
Lemma ahead_le_bytes : forall rest, (length (ahead rest) <= tape_bytes rest)%nat.
Proof.
  unfold ahead, tape_bytes. induction rest as [|r rest' IH]; [cbn; lia|].
  destruct r as [|b bs].
  - cbn [read_text]. destruct rest'; cbn; lia.
  - cbn [read_text]. change (concat (concat ((b :: bs) :: rest'))) with (concat ((b :: bs) ++ concat rest')).
    rewrite concat_app. cbn [concat]. rewrite !app_length.
    assert (Ht : (length (tl b) <= length b)%nat) by (destruct b; cbn; lia).
    destruct (cas_is_last (hd 0 b)).
    + rewrite firstn_length. lia.
    + revert IH. destruct (read_text rest') as [d r''|r'']; intros IH; [rewrite app_length|cbn [length]]; lia.
Qed.

Lemma terminated_flush : forall fuel d rs b rest, (length d <= fuel)%nat -> d <> [] ->
  flush_aux fuel d = (rs, b) -> terminated (rs ++ mk_record (cas_final_count b :: b) :: rest) = true.
Proof.
  induction fuel as [|fuel IH]; intros d rs b rest Hl Hne H.
  - destruct d; [congruence|simpl in Hl; lia].
  - cbn [flush_aux] in H. rewrite flush_stop_spec in H. destruct (zlen d <=? 255) eqn:E.
    + inversion H; subst. cbn [app].
      assert (Hb : (0 < length b <= 255)%nat).
      { unfold zlen in E. destruct b; [congruence|]. cbn [length] in *. lia. }
      rewrite mk_record_single by (cbn [length]; lia). unfold pad_block. cbn [terminated app hd].
      rewrite is_last_spec, final_count_spec. unfold zlen. destruct (Z.of_nat (length b) =? 0) eqn:E0; [lia|reflexivity].
    + destruct (flush_aux fuel (skipn nchunk d)) as [rs' b'] eqn:F. inversion H; subst.
      assert (Hd : 255 < zlen d) by lia. pose proof (skipn_chunk_length d Hd) as Hs.
      assert (Hne' : skipn nchunk d <> []).
      { intros C. rewrite C in Hs. unfold zlen in Hd. simpl in Hs. lia. }
      cbn [app]. rewrite full_prefix_spec. cbn [app].
      rewrite mk_record_single by (cbn [length]; rewrite firstn_length, chunk_spec; unfold zlen in Hd; lia).
      unfold pad_block. cbn [terminated app hd]. rewrite is_last_spec. cbn [Z.eqb negb].
      apply (IH (skipn nchunk d)); try assumption. unfold zlen in Hd. lia.
Qed.

Lemma terminated_text_records chunks rest : terminated (text_records chunks ++ rest) = true.
Proof.
  destruct (text_records_eq chunks) as (rs & b & F & _ & E). rewrite E, <- app_assoc. cbn [app].
  assert (Hne : concat chunks ++ [0] <> []) by (intros C; apply app_eq_nil in C; destruct C; discriminate).
  exact (terminated_flush _ _ _ _ rest (Nat.le_refl _) Hne F).
Qed.

(* Reading a text/data file with bounded reads of ANY sizes >= 1 (INPUT$(n,#f)) returns the same contents and
   leaves the head at the same place as reading it in one go, and every read returns exactly the number of
   bytes asked for unless fewer remain in the file. *)
Theorem text_plan_roundtrip chunks rest plan fuel : Forall (fun n => (1 <= n)%nat) plan ->
  (length (concat chunks) < fuel)%nat ->
  read_plan fuel plan 0 (rd0 (text_records chunks ++ rest)) [] [] =
  Some (concat chunks, lens_spec fuel plan 0 (length (concat chunks)), rest).
Proof.
  intros Hp Hf.
  assert (Hrem : remaining (rd0 (text_records chunks ++ rest)) = concat chunks).
  { unfold remaining, rd0, ahead. cbn [rd_buf rd_done rd_rest app]. rewrite text_roundtrip. reflexivity. }
  rewrite read_plan_spec.
  - rewrite Hrem. unfold final_rest, rd0, after. cbn [rd_done rd_rest app]. rewrite text_roundtrip. reflexivity.
  - right. apply terminated_text_records.
  - exact Hp.
  - rewrite Hrem. exact Hf.
Qed.

(* find_file with bounded reads: same file, same messages, same head position, and the read lengths *)
Theorem find_file_plan T cur nreq treq fs1 f rest last plan :
  Forall (passed_over nreq treq) fs1 -> file_ok f -> matches nreq treq f = true ->
  last_ok last -> illegal_name nreq = false -> Forall (fun n => (1 <= n)%nat) plan ->
  open_read_plan plan
    {| r_tape := T; r_rest := files_records last fs1 ++ file_records (end_last last fs1) f ++ rest;
       r_type := cur; r_open := false |} nreq treq =
  ({| r_tape := T; r_rest := rest; r_type := wf_type f; r_open := false |},
   skipped_msgs fs1 ++ msg 1 (pad_name (wf_name f)) (wf_type f),
   OFile (view (end_last last fs1) f),
   if is_binary (wf_type f) then []
   else lens_spec (S (S (tape_bytes (body_records f ++ rest)))) plan 0 (length (wf_data f))).
Proof.
  intros H1 Hf Hm Hl Hn Hp.
  pose proof (find_file T cur nreq treq fs1 f rest last H1 Hf Hm Hl Hn) as Hall.
  assert (Hoks : Forall file_ok fs1) by (eapply Forall_impl; [|exact H1]; intros a Ha; apply Ha).
  pose proof (end_last_ok _ _ Hoks Hl) as Hl'.
  unfold open_read_plan. cbn [r_open r_rest r_type r_tape]. rewrite Hn.
  rewrite search_skip_files by assumption.
  destruct (search_header (end_last last fs1) f nreq treq (last_type cur fs1) ([] ++ skipped_msgs fs1)
              (false || match fs1 with [] => false | _ => true end) rest Hf Hl') as (hb & Hph & Es).
  rewrite Es, Hm. destruct (is_binary (wf_type f)) eqn:Hbin; [rewrite Hall; reflexivity|].
  rewrite Hph. cbn [app]. unfold view.
  destruct Hf as (_ & Ht & Hb). unfold hdr_fields, body_records in *.
  destruct (ftype_cases _ Ht) as [[Ha Hbin']|[Ha Hbin']]; [|congruence]. rewrite Ha, Hbin in *.
  destruct (end_last last fs1) as [[s0 o0] n0]. cbn [fst snd negb].
  rewrite text_plan_roundtrip; [reflexivity|exact Hp|].
  pose proof (ahead_le_bytes (text_records (wf_chunks f) ++ rest)) as Hle.
  unfold ahead in Hle. rewrite text_roundtrip in Hle. lia.
Qed.

(* ------------------------------------------------------------------------------------------------ sessions: any history of open requests *)

Lemma files_records_app : forall a b last,
  files_records last (a ++ b) = files_records last a ++ files_records (end_last last a) b.
Proof.
  induction a as [|f a IH]; intros b last; [reflexivity|].
  cbn [app files_records]. rewrite IH, <- app_assoc. reflexivity.
Qed.

Lemma end_last_app a b last : end_last last (a ++ b) = end_last (end_last last a) b.
Proof. unfold end_last. apply fold_left_app. Qed.

Lemma first_match (p : wfile -> bool) : forall l,
  Forall (fun x => p x = false) l \/
  exists l1 x l2, l = l1 ++ x :: l2 /\ Forall (fun x => p x = false) l1 /\ p x = true.
Proof.
  induction l as [|a l IH]; [left; constructor|]. destruct (p a) eqn:E.
  - right. exists [], a, l. repeat split; [constructor|exact E].
  - destruct IH as [IH|(l1 & x & l2 & El & Hl1 & Hx)].
    + left. constructor; assumption.
    + right. exists (a :: l1), x, l2. subst. repeat split; [constructor; assumption|exact Hx].
Qed.

Lemma passed_over_all nreq treq : forall l, Forall file_ok l -> Forall skippable l ->
  Forall (fun x => matches nreq treq x = false) l -> Forall (passed_over nreq treq) l.
Proof.
  induction l as [|a l IH]; intros H1 H2 H3; [constructor|].
  inversion H1; inversion H2; inversion H3; subst. constructor; [unfold passed_over; split; [assumption|split; assumption]|apply IH; assumption].
Qed.

(* the device between two requests: closed, and the head at the header of one of the files (or at the end) *)
Definition at_boundary (fs : list wfile) (st : rst) : Prop :=
  exists l0 l1, fs = l0 ++ l1 /\ r_rest st = files_records (end_last (0, 0, 0) l0) l1 /\
                r_open st = false /\ r_tape st = write_tape fs.

Definition response_ok (fs : list wfile) (nreq treq : list Z) (o : ores) : Prop :=
  o = OErr 24 \/ exists last f, In f fs /\ matches nreq treq f = true /\ o = OFile (view last f).

Lemma last_ok0 : last_ok (0, 0, 0).
Proof. unfold last_ok, u16. lia. Qed.

(* one request from a boundary state: answered by Device Timeout or by a matching file of the tape exactly as
   written, and the device is again closed with the head at a file boundary *)
Theorem session_step fs st nreq treq : Forall file_ok fs -> Forall skippable fs ->
  illegal_name nreq = false -> at_boundary fs st ->
  at_boundary fs (fst (fst (open_read_all st nreq treq))) /\
  response_ok fs nreq treq (snd (open_read_all st nreq treq)) /\
  (snd (open_read_all st nreq treq) = OErr 24 -> r_rest (fst (fst (open_read_all st nreq treq))) = write_tape fs).
Proof.
  intros Hok Hsk Hn (l0 & l1 & Efs & Hrest & Hopen & Htape).
  destruct st as [T R cur op]. cbn [r_rest r_open r_tape] in *. subst R op T.
  assert (Hok0 : Forall file_ok l0) by (rewrite Efs in Hok; apply Forall_app in Hok; apply Hok).
  assert (Hok1 : Forall file_ok l1) by (rewrite Efs in Hok; apply Forall_app in Hok; apply Hok).
  assert (Hsk1 : Forall skippable l1) by (rewrite Efs in Hsk; apply Forall_app in Hsk; apply Hsk).
  pose proof (end_last_ok _ _ Hok0 last_ok0) as Hl.
  destruct (first_match (matches nreq treq) l1) as [Hnone|(la & f & lb & El1 & Hla & Hf)].
  - rewrite (not_found _ cur nreq treq l1 _ (passed_over_all _ _ _ Hok1 Hsk1 Hnone) Hl Hn). cbn [fst snd].
    split; [|split; [left; reflexivity|intros _; reflexivity]].
    exists [], fs. cbn [app end_last fold_left r_rest r_open r_tape].
    repeat split; try reflexivity. apply write_tape_records, Hok.
  - subst l1. apply Forall_app in Hok1 as [Hoka Hokb]. apply Forall_app in Hsk1 as [Hska _].
    apply Forall_cons_iff in Hokb as [Hokf Hoklb].
    rewrite files_records_app. cbn [files_records].
    rewrite (find_file _ cur nreq treq la f _ _ (passed_over_all _ _ _ Hoka Hska Hla) Hokf Hf Hl Hn).
    cbn [fst snd]. split; [|split; [|discriminate]].
    + exists (l0 ++ la ++ [f]), lb. cbn [r_rest r_open r_tape]. repeat split; try reflexivity.
      * rewrite Efs, <- !app_assoc. reflexivity.
      * rewrite !end_last_app. unfold end_last at 1. cbn [fold_left]. reflexivity.
    + right. exists (end_last (end_last (0, 0, 0) l0) la), f. repeat split; [|exact Hf].
      rewrite Efs. apply in_or_app. right. apply in_or_app. right. left. reflexivity.
Qed.

(* the answers of a whole history of requests *)
Fixpoint session (st : rst) (reqs : list (list Z * list Z)) : list ores :=
  match reqs with
  | [] => []
  | (n, t) :: r => snd (open_read_all st n t) :: session (fst (fst (open_read_all st n t))) r
  end.

Theorem session_sound fs : Forall file_ok fs -> Forall skippable fs -> forall reqs st,
  Forall (fun q => illegal_name (fst q) = false) reqs -> at_boundary fs st ->
  Forall2 (fun q o => response_ok fs (fst q) (snd q) o) reqs (session st reqs).
Proof.
  intros Hok Hsk. induction reqs as [|[n t] reqs IH]; intros st Hq Hb; [constructor|].
  inversion Hq; subst. cbn [session]. destruct (session_step fs st n t Hok Hsk H1 Hb) as (Hb' & Hr & _).
  constructor; [exact Hr|apply IH; assumption].
Qed.

Lemma at_boundary_start fs : Forall file_ok fs -> at_boundary fs (rst0 (write_tape fs)).
Proof.
  intros Hok. exists [], fs. cbn [app end_last fold_left rst0 r_rest r_open r_tape].
  repeat split; try reflexivity. apply write_tape_records, Hok.
Qed.

(* whatever was asked before, a file that is on the tape is returned by the first or, after one Device
   Timeout (the tape is rewound), by the second request that matches it *)
Theorem found_within_two fs st nreq treq f : Forall file_ok fs -> Forall skippable fs ->
  illegal_name nreq = false -> at_boundary fs st -> In f fs -> matches nreq treq f = true ->
  let r1 := open_read_all st nreq treq in
  let r2 := open_read_all (fst (fst r1)) nreq treq in
  (exists last g, In g fs /\ matches nreq treq g = true /\ snd r1 = OFile (view last g)) \/
  (snd r1 = OErr 24 /\ exists last g, In g fs /\ matches nreq treq g = true /\ snd r2 = OFile (view last g)).
Proof.
  intros Hok Hsk Hn Hb Hin Hm. cbv zeta.
  destruct (session_step fs st nreq treq Hok Hsk Hn Hb) as (Hb1 & [E1|(last & g & Hg)] & Hrew).
  - right. split; [exact E1|]. specialize (Hrew E1).
    destruct Hb1 as (l0 & l1 & Efs & Hrest & Hopen & Htape).
    destruct (fst (fst (open_read_all st nreq treq))) as [T R cur op] eqn:Est.
    cbn [r_rest r_open r_tape] in *. subst op. rewrite Hrew. clear Hrest.
    destruct (first_match (matches nreq treq) fs) as [Hnone|(la & x & lb & El & Hla & Hx)].
    + rewrite Forall_forall in Hnone. rewrite (Hnone f Hin) in Hm. discriminate.
    + rewrite (write_tape_records fs Hok). clear Efs. subst fs.
      apply Forall_app in Hok as [Hoka Hokb]. apply Forall_app in Hsk as [Hska _].
      apply Forall_cons_iff in Hokb as [Hokx Hoklb].
      rewrite files_records_app. cbn [files_records].
      rewrite (find_file _ cur nreq treq la x _ _ (passed_over_all _ _ _ Hoka Hska Hla) Hokx Hx last_ok0 Hn).
      cbn [snd]. exists (end_last (0, 0, 0) la), x. repeat split; [|exact Hx].
      apply in_or_app. right. left. reflexivity.
  - left. exists last, g. exact Hg.
Qed.

(* ------------------------------------------------------------------------------------------------ decidable side conditions *)

Definition file_okb (f : wfile) : bool :=
  negb (illegal_name (wf_name f)) &&
  existsb (Z.eqb (wf_type f)) [tD; tA; tB; tP; tM] &&
  (if is_binary (wf_type f) then u16b (wf_seg f) && u16b (wf_off f) && (zlen (wf_data f) <? 65536) else true).

Lemma file_okb_ok f : file_okb f = true -> file_ok f.
Proof.
  unfold file_okb, file_ok. intros H. apply andb_true_iff in H as [H H3]. apply andb_true_iff in H as [H1 H2].
  split; [destruct (illegal_name (wf_name f)); [discriminate|reflexivity]|]. split.
  - unfold ftype_ok. cbn [existsb] in H2. rewrite !orb_true_iff, !Z.eqb_eq in H2.
    repeat (destruct H2 as [H2|H2]; [tauto|]). discriminate.
  - intros Hb. rewrite Hb in H3. unfold u16b in H3. unfold u16. lia.
Qed.

Definition skippableb (f : wfile) : bool :=
  is_binary (wf_type f) || negb ((zlen (wf_data f)) mod 255 =? 164).

Lemma skippableb_ok f : skippableb f = true -> skippable f.
Proof. unfold skippableb, skippable. intros H Hb. rewrite Hb in H. cbn [orb] in H. lia. Qed.

Lemma passed_overb_ok nreq treq f :
  file_okb f && skippableb f && negb (matches nreq treq f) = true -> passed_over nreq treq f.
Proof.
  intros H. apply andb_true_iff in H as [H H3]. apply andb_true_iff in H as [H1 H2].
  split; [apply file_okb_ok; exact H1|]. split; [apply skippableb_ok; exact H2|].
  destruct (matches nreq treq f); [discriminate|reflexivity].
Qed.

(* ------------------------------------------------------------------------------------------------ witness outside the search theorem (known finding K29a) *)

(* a data file of 164 bytes: its only record has count byte A5, and the contents look like the header of "B" *)
Definition fake_file : wfile :=
  {| wf_name := [65]; wf_type := tD; wf_seg := 0; wf_off := 0;
     wf_chunks := [[66; 32; 32; 32; 32; 32; 32; 32; 0] ++ repeat 9 155] |}.
Definition real_file : wfile :=
  {| wf_name := [66]; wf_type := tD; wf_seg := 0; wf_off := 0; wf_chunks := [[1; 2; 3]] |}.
(* BSAVE of zero bytes (a record without blocks) and a memory image that starts like a header of "B" *)
Definition empty_file : wfile :=
  {| wf_name := [65]; wf_type := tM; wf_seg := 0; wf_off := 0; wf_chunks := [] |}.
Definition a5_file : wfile :=
  {| wf_name := [67]; wf_type := tM; wf_seg := 0; wf_off := 0;
     wf_chunks := [[165; 66; 32; 32; 32; 32; 32; 32; 32; 0; 0; 0; 0; 0; 0; 0; 9; 9; 9]] |}.

Lemma witness_files_ok : file_ok fake_file /\ file_ok real_file /\
  matches [66] [] fake_file = false /\ matches [66] [] real_file = true.
Proof.
  do 2 (split; [apply file_okb_ok; reflexivity|]). repeat split; reflexivity.
Qed.

(* searching for "B" across the fake header returns the wrong file *)
Lemma fake_header_shadows :
  open_read_all (rst0 (write_tape [fake_file; real_file])) [66] [] <>
  ({| r_tape := write_tape [fake_file; real_file]; r_rest := []; r_type := tD; r_open := false |},
   skipped_msgs [fake_file] ++ msg 1 (pad_name [66]) tD, OFile (view (0, 0, 0) real_file)).
Proof. vm_compute. discriminate. Qed.
