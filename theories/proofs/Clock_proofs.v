(* C44 / C01: TIME$ and DATE$ read back what was set; no host exception for any byte string *)
From Coq Require Import ZArith List Bool Lia ZifyBool.
From PCB Require Import lib.Result lib.PyInt model.Clock proofs.Calendar_proofs.
Import ListNotations.
Open Scope Z_scope.
Ltac Zify.zify_post_hook ::= Z.to_euclidean_division_equations.

Ltac break_if :=
  match goal with
  | H : context [if ?c then _ else _] |- _ => destruct c eqn:?
  | |- context [if ?c then _ else _] => destruct c eqn:?
  end.

(* host clock contract: now = host + offset denotes a valid datetime *)
Definition valid_now (now : Z) : Prop :=
  let '(y, m, d) := civil_from_days (now / DAY_US) in valid_date y m d = true.

Lemma time_parse_range s h m sec : time_parse s = Ok (h, m, sec) ->
  0 <= h <= 23 /\ 0 <= m <= 59 /\ 0 <= sec <= 59.
Proof.
  unfold time_parse. intros H.
  repeat break_if; try discriminate.
  destruct (py_ints _) as [tl|]; try discriminate.
  break_if; try discriminate. inversion H; subst. lia.
Qed.

Lemma time_parse_not_host s x : time_parse s <> Host x.
Proof.
  unfold time_parse. repeat break_if; try discriminate.
  all: destruct (py_ints _); try discriminate; break_if; discriminate.
Qed.

Lemma date_parse_not_host s x : date_parse s <> Host x.
Proof.
  unfold date_parse. break_if; try discriminate.
  destruct (py_ints _); try discriminate. repeat break_if; discriminate.
Qed.

Lemma mod_us_range z : 0 <= z mod US < US.
Proof. unfold US. apply Z.mod_pos_bound. lia. Qed.

Theorem time_set_no_host host offset s x : valid_now (host + offset) ->
  time_set host offset s <> Host x.
Proof.
  unfold valid_now, time_set. intros Hv.
  destruct (time_parse s) as [[[h m] sec]| | |] eqn:E; cbn [bind]; try discriminate.
  - destruct (civil_from_days _) as [[y mo] d]. apply time_parse_range in E.
    unfold mk_datetime. pose proof (mod_us_range (host + offset)).
    rewrite Hv. break_if; cbn [bind]; [discriminate | exfalso; unfold US in *; lia].
  - exfalso. eapply time_parse_not_host; eauto.
Qed.

Theorem date_set_no_host host offset s x : date_set host offset s <> Host x.
Proof.
  unfold date_set.
  destruct (date_parse s) as [[[y mo] d]| | |] eqn:E; cbn [bind]; try discriminate.
  - destruct (mk_datetime _ _ _ _ _ _ _); discriminate.
  - exfalso. eapply date_parse_not_host; eauto.
Qed.

(* outcomes are only Ok or Illegal function call *)
Lemma mk_datetime_time_ok y mo d h m sec now :
  valid_date y mo d = true -> 0 <= h <= 23 /\ 0 <= m <= 59 /\ 0 <= sec <= 59 ->
  exists nt, mk_datetime y mo d h m sec (now mod US) = Ok nt.
Proof.
  intros Hv R. unfold mk_datetime. pose proof (mod_us_range now). rewrite Hv.
  break_if; [eexists; reflexivity | exfalso; unfold US in *; lia].
Qed.

Lemma time_parse_err s e : time_parse s = Err e -> e = 5.
Proof.
  unfold time_parse. intros E.
  repeat break_if; try discriminate; try (inversion E; reflexivity).
  all: destruct (py_ints _); try discriminate; try (inversion E; reflexivity);
    break_if; try discriminate; inversion E; reflexivity.
Qed.

Lemma time_parse_fuel s : time_parse s <> OutOfFuel.
Proof.
  unfold time_parse. repeat break_if; try discriminate.
  all: destruct (py_ints _); try discriminate; break_if; discriminate.
Qed.

Theorem time_set_outcomes host offset s : valid_now (host + offset) ->
  (exists o, time_set host offset s = Ok o) \/ time_set host offset s = Err 5.
Proof.
  intros Hv. unfold time_set. unfold valid_now in Hv.
  destruct (time_parse s) as [[[h m] sec]|e| |] eqn:E; cbn [bind].
  - destruct (civil_from_days _) as [[y mo] d].
    destruct (mk_datetime_time_ok y mo d h m sec (host + offset) Hv (time_parse_range _ _ _ _ E)) as [nt Hnt].
    rewrite Hnt. cbn [bind]. left. eexists. reflexivity.
  - right. apply time_parse_err in E. subst. reflexivity.
  - exfalso. eapply time_parse_not_host; eauto.
  - exfalso. eapply time_parse_fuel; eauto.
Qed.

(* ---- read back: TIME$ *)
Definition fmt_time (t : Z) : list Z :=   (* t = seconds since midnight *)
  two (t / 3600) ++ [58] ++ two (t / 60 mod 60) ++ [58] ++ two (t mod 60).

Lemma tod_arith D hms us0 delta : 0 <= hms < 86400 -> 0 <= us0 < 1000000 -> 0 <= delta ->
  ((D * 86400000000 + hms * 1000000 + us0 + delta) mod 86400000000) / 1000000
  = (hms + (us0 + delta) / 1000000) mod 86400.
Proof. intros. lia. Qed.

Theorem time_set_get host offset s o h m sec delta :
  time_set host offset s = Ok o -> time_parse s = Ok (h, m, sec) -> 0 <= delta ->
  time_fn (host + delta) o =
    fmt_time ((h * 3600 + m * 60 + sec + ((host + offset) mod US + delta) / US) mod 86400).
Proof.
  unfold time_set. intros H E Hd. rewrite E in H. cbn [bind] in H.
  apply time_parse_range in E.
  destruct (civil_from_days _) as [[y mo] d].
  unfold mk_datetime in H. break_if; cbn [bind] in H; try discriminate.
  inversion H; subst o; clear H.
  unfold time_fn, fmt_time.
  pose proof (mod_us_range (host + offset)) as Hus.
  set (D := days_from_civil y mo d).
  replace (((host + delta + (offset + (D * DAY_US + (h * 3600 + m * 60 + sec) * US + (host + offset) mod US
             - (host + offset)))) mod DAY_US) / US)
    with ((h * 3600 + m * 60 + sec + ((host + offset) mod US + delta) / US) mod 86400).
  - reflexivity.
  - unfold DAY_US, US in *. change (86400 * 1000000) with 86400000000.
    rewrite <- (tod_arith D (h * 3600 + m * 60 + sec) ((host + offset) mod 1000000) delta) by lia.
    do 2 f_equal. ring.
Qed.

(* ---- read back: DATE$ ; calendar round trip on the accepted range by a finite sweep *)
Lemma date_parse_year s y m d : date_parse s = Ok (y, m, d) -> y <= 2099.
Proof.
  unfold date_parse. intros H. break_if; try discriminate.
  destruct (py_ints _) as [dl|]; try discriminate. cbv zeta in H.
  repeat break_if; try discriminate;
    match goal with H : Ok (?a, _, _) = Ok (y, m, d) |- _ => assert (y = a) by congruence end; lia.
Qed.

Definition fmt_date (y m d : Z) : list Z := two m ++ [45] ++ two d ++ [45] ++ four y.

Theorem date_set_get host offset s o y m d :
  date_set host offset s = Ok o -> date_parse s = Ok (y, m, d) ->
  date_fn host o = fmt_date y m d /\ time_fn host o = time_fn host offset.
Proof.
  unfold date_set. intros H E. rewrite E in H. cbn [bind] in H.
  pose proof (date_parse_year _ _ _ _ E) as Hy.
  destruct (mk_datetime _ _ _ _ _ _ _) as [nt| | |] eqn:M; try discriminate.
  inversion H; subst o; clear H.
  unfold mk_datetime in M.
  destruct (valid_date y m d) eqn:Hv; cbn [andb] in M; [|discriminate].
  break_if; try discriminate. inversion M; subst nt; clear M.
  assert (Hy1 : 1 <= y) by (unfold valid_date in Hv; lia).
  set (now := host + offset) in *.
  set (D := days_from_civil y m d) in *.
  split.
  - unfold date_fn, fmt_date.
    match goal with |- context [civil_from_days (?X / DAY_US)] =>
      assert (HX : X / DAY_US = D) by (unfold DAY_US, US in *; subst now; lia); rewrite HX end.
    subst D. rewrite civil_roundtrip by (try assumption; lia). reflexivity.
  - unfold time_fn.
    match goal with |- context [(?X mod DAY_US) / US] =>
      assert (HX : (X mod DAY_US) / US = ((host + offset) mod DAY_US) / US)
        by (unfold DAY_US, US in *; subst now; lia); rewrite HX end.
    reflexivity.
Qed.

(* invalid input: Illegal function call, and no new offset is produced at all (the result carries none) *)
Theorem time_invalid_unchanged host offset s e : time_set host offset s = Err e -> e = 5.
Proof.
  unfold time_set. destruct (time_parse s) as [[[h m] sec]|e'| |] eqn:E; cbn [bind]; try discriminate.
  - destruct (civil_from_days _) as [[y mo] d]. unfold mk_datetime. break_if; cbn [bind]; discriminate.
  - intros H; inversion H; subst. unfold time_parse in E.
    repeat break_if; try discriminate; try (inversion E; reflexivity).
    all: destruct (py_ints _); try discriminate; try (inversion E; reflexivity);
      break_if; try discriminate; inversion E; reflexivity.
Qed.

Theorem date_invalid_unchanged host offset s e : date_set host offset s = Err e -> e = 5.
Proof.
  unfold date_set. destruct (date_parse s) as [[[y mo] d]|e'| |] eqn:E; cbn [bind]; try discriminate.
  - destruct (mk_datetime _ _ _ _ _ _ _); try discriminate; intros H; inversion H; reflexivity.
  - intros H; inversion H; subst. unfold date_parse in E. break_if; try (inversion E; reflexivity).
    destruct (py_ints _); try (inversion E; reflexivity). repeat break_if; try discriminate; inversion E; reflexivity.
Qed.

