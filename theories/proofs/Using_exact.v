(* C08 x C07: Float.to_decimal(k) (gen/Gen_dec.v core) with the limits of ANY precision k is exact on
   integer-valued numbers below 10^k; hence PRINT USING shows integers exactly in every fixed-point field.
   The proof follows proofs/Decimal_todec.v (to_decimal_int, which is the case k = digits). *)
From Coq Require Import ZArith List Bool Lia ZifyBool.
From PCB Require Import lib.Result lib.PyInt lib.Harness lib.MBFPrims gen.Gen_mbf gen.Gen_dec model.MBF
  model.Decimal proofs.MBF_base proofs.Decimal_den proofs.Decimal_todec proofs.Decimal_proofs
  gen.Gen_using model.Using model.UsingDec proofs.Using_proofs proofs.Using_digits proofs.Using_round.
Import ListNotations.
Open Scope Z_scope.
Ltac Zify.zify_post_hook ::= Z.to_euclidean_division_equations.

Lemma p10_S j : 0 <= j -> 10 ^ (j + 1) = 10 * 10 ^ j.
Proof. intros. rewrite Z.pow_add_r by lia. lia. Qed.

Section CoreInt.
Variable C : fconst.
Hypothesis HC : fmt_ok C.
(* any valid tuple for the section hypotheses of the auxiliary lemmas of Decimal_todec *)
Variables te0 tm0 be0 bm0 : Z.
Hypothesis HL0 : den_norm C tm0 /\ den_norm C bm0 /\ 1 <= be0 /\ be0 + 4 <= te0 /\ te0 <= 255.
(* the limits in use *)
Variables lb lt : list Z.
Variables texp tman bexp bman k : Z.
Hypothesis Htop : mbf_denormalise C lt = (texp, tman, false).
Hypothesis Hbot : mbf_denormalise C lb = (bexp, bman, false).
Hypothesis Hnt : den_norm C tman.
Hypothesis Hnb : den_norm C bman.
Hypothesis Hbe : 1 <= bexp <= 255.
Hypothesis Hte : 0 <= texp.
Hypothesis Hk : 1 <= k.
Hypothesis HD2 : 10 ^ k <= 2 * hb C.
Hypothesis Htv : forall V, 0 < V < 10 ^ k -> 256 * V * 2 ^ c_bias C <= tman * 2 ^ texp.
Hypothesis Hbv : forall V, 0 < V -> (256 * V * 2 ^ c_bias C < bman * 2 ^ bexp <-> V < 10 ^ (k - 1)).

Let order := den_order C HC te0 tm0 be0 bm0 HL0.

Lemma core_unfold b :
  mbf_to_decimal_core C b lb lt =
    bind (mbf_to_decimal_core_loop_103 1000 C b lb lt (texp, tman, false) (bexp, bman, false)
            (mbf_denormalise C b) 0) (fun r1 =>
    bind (mbf_to_decimal_core_loop_104 1000 C b lb lt (texp, tman, false) (bexp, bman, false)
            (mbf_apply_carry_den C (fst r1)) (snd r1)) (fun r3 =>
    let d4 := mbf_apply_carry_den C (fst r3) in
    Ok (tail_num C (den_exp d4) (den_man d4) (den_neg d4), snd r3))).
Proof.
  unfold mbf_to_decimal_core. rewrite Htop, Hbot.
  destruct (mbf_to_decimal_core_loop_103 _ _ _ _ _ _ _ _ _) as [[d1 x1]| | |]; cbn [bind fst snd]; try reflexivity.
  destruct (mbf_to_decimal_core_loop_104 _ _ _ _ _ _ _ _ _) as [[d3 x3]| | |]; cbn [bind fst snd]; try reflexivity.
  cbv zeta. destruct (mbf_apply_carry_den C d3) as [[e m] n]. cbn [den_exp den_man den_neg fst snd].
  unfold tail_num. cbv zeta.
  destruct (e - c_bias C >? 0); cbn [bind]; cbv beta iota;
    destruct (z2b (Z.land _ 128)); cbn [bind]; cbv beta iota; reflexivity.
Qed.

Definition inv_k (V0 : Z) (neg : bool) (d : Z * Z * bool) (e10 : Z) : Prop :=
  exists j, 0 <= j /\ e10 = - j /\ den_int C (V0 * 10 ^ j) d /\ den_neg d = neg /\ V0 * 10 ^ j < 10 ^ k.

Lemma inv_k_step V0 neg den e10 : 0 < V0 -> inv_k V0 neg den e10 ->
  mbf_abs_gt_den C (bexp, bman, false) den = true ->
  inv_k V0 neg (mbf_mul10_den C den) (e10 - 1) /\ den_exp den + 3 <= den_exp (mbf_mul10_den C den).
Proof.
  intros HV0 (j & Hj & He10 & Hi & Hneg & Hlt) Hgt. destruct den as [[e M] n].
  pose proof Hi as (Hn & He & Hv). cbn [den_exp den_man den_neg fst snd] in *.
  rewrite order in Hgt by (try assumption; lia). apply Z.ltb_lt in Hgt. rewrite Hv in Hgt.
  assert (Hpj : 0 < 10 ^ j) by (apply Z.pow_pos_nonneg; lia).
  assert (HVj : 0 < V0 * 10 ^ j) by (apply Z.mul_pos_pos; lia).
  apply (Hbv _ HVj) in Hgt.
  assert (Hd10 : 10 ^ k = 10 * 10 ^ (k - 1)).
  { replace k with ((k - 1) + 1) at 1 by lia. apply p10_S. lia. }
  destruct (mul10_int C HC te0 tm0 be0 bm0 HL0 (V0 * 10 ^ j) e M n Hi HVj ltac:(lia)) as (e' & M' & Hm & Hi' & He').
  rewrite Hm. cbn [den_exp fst]. split; [|exact He'].
  exists (j + 1). rewrite p10_S by lia.
  replace (V0 * (10 * 10 ^ j)) with (10 * (V0 * 10 ^ j)) by lia.
  split; [lia|]. split; [lia|]. split; [exact Hi'|]. split; [exact Hneg | lia].
Qed.

Theorem core_int b n : buf_ok C b -> f_sval C b = n * 2 ^ c_bias C -> n <> 0 ->
  Z.abs n < 10 ^ k ->
  exists j, 0 <= j /\ mbf_to_decimal_core C b lb lt = Ok (n * 10 ^ j, - j) /\
            10 ^ (k - 1) <= Z.abs n * 10 ^ j < 10 ^ k.
Proof.
  intros Hb Hval Hn0 Hnd.
  pose proof (bias_pos C HC) as Hbias. assert (Hpb : 0 < 2 ^ c_bias C) by (apply pow2_pos; lia).
  pose proof (hb_pos C HC) as Hhb.
  pose proof (f_man_bound C b HC) as Hfm. pose proof (f_exp_bound C b HC Hb) as Hfe.
  pose proof (mbits_ge C HC) as Hmb. rewrite (pow2_pred (mbits C)) in Hfm by lia. fold (hb C) in Hfm.
  assert (Hz : f_zero b = false).
  { destruct (f_zero b) eqn:E; [|reflexivity]. unfold f_sval in Hval. rewrite E in Hval. nia. }
  unfold f_sval in Hval. rewrite Hz in Hval. unfold f_zero in Hz. apply Z.eqb_neq in Hz.
  assert (Hpe : 0 < 2 ^ f_exp b) by (apply pow2_pos; lia).
  assert (Hsign : f_neg C b = (n <? 0) /\ f_man C b * 2 ^ f_exp b = Z.abs n * 2 ^ c_bias C).
  { destruct (f_neg C b); destruct (Z.ltb_spec n 0); split; try reflexivity; try nia. }
  destruct Hsign as [Hneg Habs]. set (V0 := Z.abs n) in *. assert (HV0 : 0 < V0) by (unfold V0; lia).
  assert (Hi0 : den_int C V0 (f_exp b, 256 * f_man C b, f_neg C b)).
  { apply (den_int_intro C HC te0 tm0 be0 bm0 HL0); [unfold den_norm; lia | lia | lia | lia]. }
  rewrite core_unfold, (denormalise_spec C b HC Hb).
  change 1000%nat with (S 999). rewrite loop103_S.
  rewrite order by (try assumption; try (unfold den_norm; lia); lia).
  destruct Hi0 as (Hn0' & He0 & Hv0). cbn [den_exp den_man fst snd] in *.
  pose proof (Htv V0 ltac:(lia)) as Htop'.
  destruct (Z.ltb_spec (tman * 2 ^ texp) (256 * f_man C b * 2 ^ f_exp b)) as [Hbad|_]; [lia|].
  cbn [bind fst snd].
  rewrite apply_carry_id by (try assumption; rewrite Z.mul_comm; apply Z.mod_mul; lia).
  assert (HI : inv_k V0 (f_neg C b) (f_exp b, 256 * f_man C b, f_neg C b) 0).
  { exists 0. change (10 ^ 0) with 1. rewrite Z.mul_1_r.
    split; [lia|]. split; [reflexivity|]. split; [split; [exact Hn0' | split; [exact He0 | exact Hv0]]|].
    split; [reflexivity | lia]. }
  destruct (loop104_inv C bexp (inv_k V0 (f_neg C b)) b lb lt (texp, tman, false) bman false
              (fun den e10 => inv_k_step V0 (f_neg C b) den e10 HV0) 90 (S 999) _ 0 ltac:(lia) HI)
    as (d3 & x3 & Hl3 & (j & Hj & Hx3 & Hi3 & Hneg3 & Hlt3) & Hgt3).
  { cbn [den_exp fst]. lia. }
  rewrite Hl3. cbn [bind fst snd]. cbv zeta.
  destruct d3 as [[e3 M3] n3]. pose proof (den_int_man _ _ _ _ _ Hi3) as HM3.
  pose proof Hi3 as (Hn3 & He3 & Hv3). cbn [den_exp den_man den_neg fst snd] in *.
  assert (Hpj : 0 < 10 ^ j) by (apply Z.pow_pos_nonneg; lia).
  assert (HVj : 0 < V0 * 10 ^ j) by (apply Z.mul_pos_pos; lia).
  rewrite order in Hgt3 by (try assumption; lia). apply Z.ltb_ge in Hgt3. rewrite Hv3 in Hgt3.
  assert (Hge : 10 ^ (k - 1) <= V0 * 10 ^ j).
  { destruct (Z.le_gt_cases (10 ^ (k - 1)) (V0 * 10 ^ j)) as [|Hlt]; [assumption|].
    apply (Hbv _ HVj) in Hlt. lia. }
  rewrite (apply_carry_id C HC e3 M3 n3 Hn3).
  2: { rewrite HM3. replace (256 * (V0 * 10 ^ j) * 2 ^ (c_bias C - e3)) with (V0 * 10 ^ j * 2 ^ (c_bias C - e3) * 256) by lia.
       apply Z.mod_mul. lia. }
  cbn [den_exp den_man den_neg fst snd].
  rewrite (tail_num_int C (V0 * 10 ^ j) e3 M3 n3 Hi3 ltac:(lia)).
  exists j. split; [exact Hj|]. split; [|lia].
  subst x3 n3. rewrite Hneg. f_equal. f_equal. unfold V0. destruct (Z.ltb_spec n 0); lia.
Qed.

End CoreInt.

(* ------------------------------------------------------------------ Float.iabs on the bytes *)
Lemma land127 x : 0 <= x < 256 -> Z.land x 127 = x mod 128 /\ 0 <= x mod 128 < 128.
Proof. intros H. change 127 with (Z.ones 7). rewrite Z.land_ones by lia. change (2 ^ 7) with 128. lia. Qed.

Lemma iabs_Single b : buf_ok Single_consts b ->
  exists a, mbf_iabs Single_consts b = Ok a /\ buf_ok Single_consts a
            /\ f_sval Single_consts a = Z.abs (f_sval Single_consts b).
Proof.
  intros [Hl Hb]. destruct b as [|b0 [|b1 [|b2 [|b3 [|x r]]]]]; try (cbv in Hl; discriminate Hl).
  2:{ unfold zlen in Hl. cbn [length] in Hl. change (c_size Single_consts) with 4 in Hl. lia. }
  inversion Hb as [|? ? H0 Hb1]; subst. inversion Hb1 as [|? ? H1 Hb2]; subst.
  inversion Hb2 as [|? ? H2 Hb3]; subst. inversion Hb3 as [|? ? H3 _]; subst.
  unfold byte_ok in *. destruct (land127 b2 H2) as [Hland Hr].
  unfold mbf_iabs. change (py_nth 0 [b0; b1; b2; b3] (- 2)) with b2. rewrite Hland.
  unfold set_byte. replace ((0 <=? b2 mod 128) && (b2 mod 128 <? 256)) with true by lia.
  cbn [bind]. change (list_set [b0; b1; b2; b3] (-2) (b2 mod 128)) with [b0; b1; b2 mod 128; b3].
  eexists. split; [reflexivity|]. split.
  - split; [reflexivity|]. repeat constructor; unfold byte_ok; lia.
  - unfold f_sval, f_zero, f_exp, f_neg, f_man, f_raw.
    change (py_nth 0 [b0; b1; b2 mod 128; b3] (-1)) with b3.
    change (py_nth 0 [b0; b1; b2; b3] (-1)) with b3.
    change (mbits Single_consts - 1) with 23. cbn [removelast le_decode].
    destruct (b3 =? 0); [reflexivity|].
    change (2 ^ 23) with 8388608.
    assert (Hp : 0 < 2 ^ b3) by (apply Z.pow_pos_nonneg; lia).
    destruct (8388608 <=? b0 + 256 * (b1 + 256 * (b2 + 256 * 0))) eqn:E1;
      destruct (8388608 <=? b0 + 256 * (b1 + 256 * (b2 mod 128 + 256 * 0))) eqn:E2; try lia;
      match goal with |- ?s * ?m1 * ?p = Z.abs (?s2 * ?m2 * ?p) =>
        assert (Hm : m1 = m2) by lia; rewrite Hm;
        assert (0 <= m2) by lia; nia end.
Qed.

Lemma iabs_Double b : buf_ok Double_consts b ->
  exists a, mbf_iabs Double_consts b = Ok a /\ buf_ok Double_consts a
            /\ f_sval Double_consts a = Z.abs (f_sval Double_consts b).
Proof.
  intros [Hl Hb].
  destruct b as [|b0 [|b1 [|b2 [|b3 [|b4 [|b5 [|b6 [|b7 [|x r]]]]]]]]]; try (cbv in Hl; discriminate Hl).
  2:{ unfold zlen in Hl. cbn [length] in Hl. change (c_size Double_consts) with 8 in Hl. lia. }
  repeat match goal with H : bytes_ok (_ :: _) |- _ => inversion H; clear H; subst end.
  repeat match goal with H : Forall byte_ok (_ :: _) |- _ => inversion H; clear H; subst end.
  unfold byte_ok in *.
  assert (Hb6 : 0 <= b6 < 256) by assumption.
  destruct (land127 b6 Hb6) as [Hland Hr].
  unfold mbf_iabs. change (py_nth 0 [b0; b1; b2; b3; b4; b5; b6; b7] (- 2)) with b6. rewrite Hland.
  unfold set_byte. replace ((0 <=? b6 mod 128) && (b6 mod 128 <? 256)) with true by lia.
  cbn [bind].
  change (list_set [b0; b1; b2; b3; b4; b5; b6; b7] (-2) (b6 mod 128)) with [b0; b1; b2; b3; b4; b5; b6 mod 128; b7].
  eexists. split; [reflexivity|]. split.
  - split; [reflexivity|]. repeat constructor; unfold byte_ok; lia.
  - unfold f_sval, f_zero, f_exp, f_neg, f_man, f_raw.
    change (py_nth 0 [b0; b1; b2; b3; b4; b5; b6 mod 128; b7] (-1)) with b7.
    change (py_nth 0 [b0; b1; b2; b3; b4; b5; b6; b7] (-1)) with b7.
    change (mbits Double_consts - 1) with 55. cbn [removelast le_decode].
    destruct (b7 =? 0); [reflexivity|].
    change (2 ^ 55) with 36028797018963968.
    assert (Hp : 0 < 2 ^ b7) by (apply Z.pow_pos_nonneg; lia).
    destruct (36028797018963968 <=? b0 + 256 * (b1 + 256 * (b2 + 256 * (b3 + 256 * (b4 + 256 * (b5 + 256 * (b6 + 256 * 0))))))) eqn:E1;
      destruct (36028797018963968 <=? b0 + 256 * (b1 + 256 * (b2 + 256 * (b3 + 256 * (b4 + 256 * (b5 + 256 * (b6 mod 128 + 256 * 0))))))) eqn:E2; try lia;
      match goal with |- ?s * ?m1 * ?p = Z.abs (?s2 * ?m2 * ?p) =>
        assert (Hm : m1 = m2) by lia; rewrite Hm;
        assert (0 <= m2) by lia; nia end.
Qed.

(* ------------------------------------------------------------------ the limits of every precision *)
Definition lim_okb (C : fconst) (k : Z) (lb lt : list Z) : bool :=
  let '(te, tm, tn) := mbf_denormalise C lt in
  let '(be, bm, bn) := mbf_denormalise C lb in
  negb tn && negb bn
  && (256 * hb C <=? tm) && (tm <? 512 * hb C) && (256 * hb C <=? bm) && (bm <? 512 * hb C)
  && (1 <=? be) && (be <=? 255) && (0 <=? te) && (1 <=? k) && (10 ^ k <=? 2 * hb C)
  && (256 * (10 ^ k - 1) * 2 ^ c_bias C <=? tm * 2 ^ te)
  && (256 * (10 ^ (k - 1) - 1) * 2 ^ c_bias C <? bm * 2 ^ be)
  && (bm * 2 ^ be <=? 256 * 10 ^ (k - 1) * 2 ^ c_bias C).

Lemma lim_ok_core C te0 tm0 be0 bm0 k lb lt :
  fmt_ok C ->
  den_norm C tm0 /\ den_norm C bm0 /\ 1 <= be0 /\ be0 + 4 <= te0 /\ te0 <= 255 ->
  lim_okb C k lb lt = true ->
  forall b n, buf_ok C b -> f_sval C b = n * 2 ^ c_bias C -> n <> 0 -> Z.abs n < 10 ^ k ->
  exists j, 0 <= j /\ mbf_to_decimal_core C b lb lt = Ok (n * 10 ^ j, - j) /\
            10 ^ (k - 1) <= Z.abs n * 10 ^ j < 10 ^ k.
Proof.
  intros HC HL0 Hok. unfold lim_okb in Hok.
  destruct (mbf_denormalise C lt) as [[te tm] tn] eqn:Et.
  destruct (mbf_denormalise C lb) as [[be bm] bn] eqn:Eb.
  repeat (apply andb_true_iff in Hok; destruct Hok as [Hok ?]).
  destruct tn; [discriminate|]. destruct bn; [discriminate|].
  pose proof (bias_pos C HC) as Hbias. assert (Hpb : 0 < 2 ^ c_bias C) by (apply pow2_pos; lia).
  apply (core_int C HC te0 tm0 be0 bm0 HL0 lb lt te tm be bm k Et Eb); try (unfold den_norm; lia); try lia.
  - intros V HV. assert (256 * V * 2 ^ c_bias C <= 256 * (10 ^ k - 1) * 2 ^ c_bias C) by nia. lia.
  - intros V HV. split; intros HH.
    + destruct (Z_lt_ge_dec V (10 ^ (k - 1))) as [|Hge]; [assumption|].
      assert (256 * 10 ^ (k - 1) * 2 ^ c_bias C <= 256 * V * 2 ^ c_bias C) by nia. lia.
    + assert (256 * V * 2 ^ c_bias C <= 256 * (10 ^ (k - 1) - 1) * 2 ^ c_bias C) by nia. lia.
Qed.

Lemma limits_Single : forallb (fun k => lim_okb Single_consts (Z.of_nat k)
                                 (fst (dec_limits false (Z.of_nat k))) (snd (dec_limits false (Z.of_nat k))))
                              (seq 1 7) = true.
Proof. vm_compute. reflexivity. Qed.

Lemma limits_Double : forallb (fun k => lim_okb Double_consts (Z.of_nat k)
                                 (fst (dec_limits true (Z.of_nat k))) (snd (dec_limits true (Z.of_nat k))))
                              (seq 1 16) = true.
Proof. vm_compute. reflexivity. Qed.

(* value.clone().iabs().to_decimal(k) of an integer-valued number n, 0 < |n| < 10^k, 1 <= k <= digits:
   exactly (|n| * 10^j, -j) with k significant digits - no rounding anywhere *)
Theorem buf_to_decimal_int dbl b n k :
  let C := dec_consts dbl in
  buf_ok C b -> f_sval C b = n * 2 ^ c_bias C -> n <> 0 -> 1 <= k <= c_digits C -> Z.abs n < 10 ^ k ->
  exists j, 0 <= j /\ buf_to_decimal dbl b k = Ok (Z.abs n * 10 ^ j, - j) /\
            10 ^ (k - 1) <= Z.abs n * 10 ^ j < 10 ^ k.
Proof.
  intros C Hb Hv Hn Hk Hlt. unfold buf_to_decimal. fold C.
  assert (Hin : In (Z.to_nat k) (seq 1 (Z.to_nat (c_digits C)))) by (apply in_seq; lia).
  destruct dbl.
  - destruct (iabs_Double b Hb) as [a [Ha [Hba Hva]]]. unfold C in *. cbn [dec_consts] in *.
    rewrite Ha. cbn [bind].
    pose proof limits_Double as HL. rewrite forallb_forall in HL. specialize (HL _ Hin).
    rewrite Z2Nat.id in HL by lia.
    assert (Hva' : f_sval Double_consts a = Z.abs n * 2 ^ c_bias Double_consts).
    { rewrite Hva, Hv, Z.abs_mul. rewrite (Z.abs_eq (2 ^ _)) by (apply Z.pow_nonneg; lia). reflexivity. }
    destruct (lim_ok_core Double_consts _ _ _ _ k _ _ Double_ok lims_Double HL a (Z.abs n) Hba Hva' ltac:(lia)
                ltac:(rewrite Z.abs_involutive; exact Hlt)) as [j [Hj [Hc Hbd]]].
    exists j. rewrite Z.abs_involutive in Hbd. auto.
  - destruct (iabs_Single b Hb) as [a [Ha [Hba Hva]]]. unfold C in *. cbn [dec_consts] in *.
    rewrite Ha. cbn [bind].
    pose proof limits_Single as HL. rewrite forallb_forall in HL. specialize (HL _ Hin).
    rewrite Z2Nat.id in HL by lia.
    assert (Hva' : f_sval Single_consts a = Z.abs n * 2 ^ c_bias Single_consts).
    { rewrite Hva, Hv, Z.abs_mul. rewrite (Z.abs_eq (2 ^ _)) by (apply Z.pow_nonneg; lia). reflexivity. }
    destruct (lim_ok_core Single_consts _ _ _ _ k _ _ Single_ok lims_Single HL a (Z.abs n) Hba Hva' ltac:(lia)
                ltac:(rewrite Z.abs_involutive; exact Hlt)) as [j [Hj [Hc Hbd]]].
    exists j. rewrite Z.abs_involutive in Hbd. auto.
Qed.

(* ------------------------------------------------------------------ PRINT USING of integers *)
Lemma assocz_flat_map (f : Z -> res (Z * Z)) k p : forall ks,
  In k ks -> f k = Ok p ->
  assocz k (flat_map (fun k' => match f k' with Ok q => [(k', q)] | _ => [] end) ks) = Some p.
Proof.
  induction ks as [|k0 ks IH]; intros Hin Hf; [contradiction|].
  cbn [flat_map]. destruct (Z.eq_dec k0 k) as [->|Hne].
  - rewrite Hf. cbn [app assocz]. rewrite Z.eqb_refl. reflexivity.
  - destruct Hin as [|Hin]; [contradiction|].
    destruct (f k0) as [q| | |]; cbn [app assocz]; try (apply IH; assumption).
    replace (k0 =? k) with false by lia. apply IH; assumption.
Qed.

Lemma to_decimal_of_bytes dbl b k p :
  0 <= k <= c_digits (dec_consts dbl) -> buf_to_decimal dbl b k = Ok p ->
  to_decimal (nval_of_bytes dbl b) k = Ok p.
Proof.
  intros Hk Hp. unfold to_decimal, nval_of_bytes, nval_of_buf. cbn [nv_tab nv_dbl].
  assert (Hd : nv_digits (mkNV (f_neg (dec_consts dbl) b) (f_zero b) dbl
                 (flat_map (fun k0 => match buf_to_decimal dbl b k0 with Ok q => [(k0, q)] | _ => [] end) (all_ks dbl)))
               = c_digits (dec_consts dbl)) by (destruct dbl; reflexivity).
  rewrite Hd. replace (Z.max 0 (Z.min k (c_digits (dec_consts dbl)))) with k by lia.
  rewrite (assocz_flat_map (buf_to_decimal dbl b) k p); [reflexivity| |exact Hp].
  unfold all_ks. apply in_map_iff. exists (Z.to_nat k). split; [lia|]. apply in_seq. lia.
Qed.

Lemma pow10_lt_inv a b : 0 <= b -> 10 ^ a < 10 ^ b -> a < b.
Proof.
  intros Hb H. destruct (Z_lt_ge_dec a b) as [|Hge]; [assumption|].
  assert (10 ^ b <= 10 ^ a) by (apply Z.pow_le_mono_r; lia). lia.
Qed.

(* An integer-valued single or double n, 0 < |n| < 10^7 / 10^16, in ANY fixed-point field: exactly n_dec
   decimals and the number shown is exactly |n| (the digits with the point removed are |n| * 10^n_dec) -
   with Float.to_decimal computed from the bytes by the regenerated core, nothing assumed *)
Theorem int_fixed_exact dbl b n n_dec fd g :
  let C := dec_consts dbl in
  buf_ok C b -> f_sval C b = n * 2 ^ c_bias C -> n <> 0 -> Z.abs n < 10 ^ c_digits C -> 0 <= n_dec ->
  exists ip fp,
    to_str_fixed (nval_of_bytes dbl b) n_dec fd g
      = Ok (grp g ip ++ (if (0 <? n_dec) || fd then [cDOT] else []) ++ fp)
    /\ Z.of_nat (length fp) = n_dec
    /\ Forall is_digit (ip ++ fp)
    /\ dval (ip ++ fp) = Z.abs n * 10 ^ n_dec.
Proof.
  intros C Hb Hv Hn Hlt Hnd.
  set (v := nval_of_bytes dbl b).
  assert (Hdig : nv_digits v = c_digits C) by (destruct dbl; reflexivity).
  assert (Hd1 : 1 <= c_digits C) by (destruct dbl; cbv; discriminate).
  assert (Hz : nv_zero v = false).
  { unfold v, nval_of_bytes, nval_of_buf. cbn [nv_zero]. destruct (f_zero b) eqn:E; [|reflexivity].
    unfold f_sval in Hv. rewrite E in Hv. assert (0 < 2 ^ c_bias C) by (unfold C; destruct dbl; reflexivity). nia. }
  destruct (buf_to_decimal_int dbl b n (c_digits C) Hb Hv Hn ltac:(fold C; lia) Hlt) as [j [Hj [Htop Hbd]]].
  fold C in Htop, Hbd.
  assert (Hn1 : 1 <= Z.abs n) by lia.
  assert (Hpj : 0 < 10 ^ j) by (apply Z.pow_pos_nonneg; lia).
  assert (Hjd : j < c_digits C).
  { apply pow10_lt_inv; [lia|]. nia. }
  assert (Htd : to_decimal v (nv_digits v) = Ok (Z.abs n * 10 ^ j, - j)).
  { rewrite Hdig. apply to_decimal_of_bytes; [fold C; lia|exact Htop]. }
  (* the pair the field shows *)
  assert (Hpair : exists j', 0 <= j' <= n_dec /\ fixed_pair v n_dec = Ok (Z.abs n * 10 ^ j', - j')).
  { unfold fixed_pair. rewrite Htd. cbn [bind fst snd]. rewrite Z.opp_involutive.
    destruct (j >? n_dec) eqn:Ej.
    - unfold using_n_work. rewrite Hdig. set (nw := c_digits C - (j - n_dec)).
      assert (Hnw : 1 <= nw <= c_digits C) by (unfold nw; lia).
      replace (nw >? 0) with true by lia.
      assert (Hlt2 : Z.abs n < 10 ^ nw).
      { assert (Z.abs n < 10 ^ (c_digits C - j)).
        { assert (Z.abs n * 10 ^ j < 10 ^ (c_digits C - j) * 10 ^ j).
          { rewrite <- Z.pow_add_r by lia. replace (c_digits C - j + j) with (c_digits C) by lia. lia. }
          nia. }
        assert (10 ^ (c_digits C - j) <= 10 ^ nw) by (apply Z.pow_le_mono_r; unfold nw; lia). lia. }
      destruct (buf_to_decimal_int dbl b n nw Hb Hv Hn ltac:(fold C; lia) Hlt2) as [j' [Hj' [Hw Hbw]]].
      exists j'. split.
      + split; [lia|].
        (* 10^(d-1-j) <= |n|  and  |n| * 10^j' < 10^nw *)
        assert (Hlow : 10 ^ (c_digits C - 1 - j) <= Z.abs n).
        { assert (10 ^ (c_digits C - 1 - j) * 10 ^ j <= Z.abs n * 10 ^ j).
          { rewrite <- Z.pow_add_r by lia. replace (c_digits C - 1 - j + j) with (c_digits C - 1) by lia. lia. }
          nia. }
        assert (Hpj' : 0 < 10 ^ j') by (apply Z.pow_pos_nonneg; lia).
        assert (H1 : 10 ^ (c_digits C - 1 - j + j') < 10 ^ nw).
        { rewrite Z.pow_add_r by lia. nia. }
        apply pow10_lt_inv in H1; [|lia]. unfold nw in H1. lia.
      + apply to_decimal_of_bytes; [fold C; lia|exact Hw].
    - exists j. split; [lia|reflexivity]. }
  destruct Hpair as [j' [Hj' Hp]].
  destruct (to_str_fixed_digits v n_dec fd g _ _ Hz Hp Hnd ltac:(lia)) as [ip [fp [E1 [E2 [E3 E4]]]]].
  exists ip, fp. repeat split; auto. rewrite E4.
  assert (0 < 10 ^ j') by (apply Z.pow_pos_nonneg; lia).
  rewrite Z.abs_mul, (Z.abs_eq (10 ^ j')), Z.abs_involutive by lia.
  rewrite <- Z.mul_assoc, <- Z.pow_add_r by lia. f_equal. f_equal. lia.
Qed.
