(* C43: proofs about model/Api.v - names, scalar set/get/evaluate, Integer pack/unpack, strings (bytes level),
   booleans.  Floats are in Api_float_proofs.v, arrays in Api_list_proofs.v, codepages in Api_str_proofs.v. *)
From Coq Require Import ZArith List Bool Lia ZifyBool.
From PCB Require Import lib.Result lib.PyInt lib.Harness lib.ArraysLib gen.Gen_arrays model.Api.
Import ListNotations.
Open Scope Z_scope.
Ltac Zify.zify_post_hook ::= Z.to_euclidean_division_equations.

(* ------------------------------------------------------------------------------------------------ *)
(* association lists                                                                                *)

Lemma leqb_refl l : list_Z_eqb l l = true.
Proof. apply list_Z_eqb_eq. reflexivity. Qed.

Lemma leqb_neq a b : a <> b -> list_Z_eqb a b = false.
Proof. intros H. destruct (list_Z_eqb a b) eqn:E; [apply list_Z_eqb_eq in E; contradiction | reflexivity]. Qed.

Lemma alookup_aupdate_same {A} (l : list (list Z * A)) n v : alookup (aupdate l n v) n = Some v.
Proof.
  induction l as [|[k w] l IH]; simpl.
  - rewrite leqb_refl. reflexivity.
  - destruct (list_Z_eqb k n) eqn:E; simpl; rewrite E; [reflexivity | exact IH].
Qed.

Lemma alookup_aupdate_other {A} (l : list (list Z * A)) n n' v : n' <> n ->
  alookup (aupdate l n v) n' = alookup l n'.
Proof.
  intros H. induction l as [|[k w] l IH]; simpl.
  - rewrite (leqb_neq n n') by congruence. reflexivity.
  - destruct (list_Z_eqb k n) eqn:E; simpl.
    + apply list_Z_eqb_eq in E. subst k. rewrite (leqb_neq n n') by congruence. reflexivity.
    + destruct (list_Z_eqb k n'); [reflexivity | exact IH].
Qed.

(* ------------------------------------------------------------------------------------------------ *)
(* names                                                                                            *)

(* a scalar name with sigil sg: no parenthesis after upper-casing, last byte is the sigil *)
Definition scalar_name (name : list Z) (sg : Z) : Prop :=
  has_paren (py_upper name) = false /\ sigil_of (py_upper name) = sg /\ is_sigil sg = true.

(* an array name `base()`: upper-cased it is base ++ "(" ++ anything, base has no parenthesis and ends in sg *)
Definition array_name (name base : list Z) (sg : Z) : Prop :=
  (exists rest, py_upper name = base ++ lparen :: rest) /\ has_paren base = false /\
  sigil_of base = sg /\ is_sigil sg = true.

Lemma before_paren_noparen n : has_paren n = false -> before_paren n = n.
Proof.
  unfold has_paren. induction n as [|c r IH]; simpl; [reflexivity|].
  intros H. apply orb_false_iff in H as [H1 H2].
  assert (E : (c =? lparen) = false) by (rewrite Z.eqb_sym; exact H1).
  rewrite E. f_equal. apply IH, H2.
Qed.

Lemma before_paren_app base rest : has_paren base = false -> before_paren (base ++ lparen :: rest) = base.
Proof.
  unfold has_paren. induction base as [|c r IH]; simpl.
  - reflexivity.
  - intros H. apply orb_false_iff in H as [H1 H2].
    assert (E : (c =? lparen) = false) by (rewrite Z.eqb_sym; exact H1).
    rewrite E. f_equal. apply IH, H2.
Qed.

Lemma has_paren_app base rest : has_paren (base ++ lparen :: rest) = true.
Proof.
  unfold has_paren. rewrite existsb_app. simpl. rewrite orb_true_r. reflexivity.
Qed.

Lemma scalar_sigil_explicit name sg : scalar_name name sg -> sigil_explicit (py_upper name) = true.
Proof.
  intros (H1 & H2 & H3). unfold sigil_explicit. rewrite before_paren_noparen by exact H1.
  unfold sigil_of in H2. rewrite H2. exact H3.
Qed.

Lemma array_sigil_explicit name base sg : array_name name base sg -> sigil_explicit (py_upper name) = true.
Proof.
  intros ((rest & E) & H1 & H2 & H3). unfold sigil_explicit. rewrite E, before_paren_app by exact H1.
  unfold sigil_of in H2. rewrite H2. exact H3.
Qed.

(* ------------------------------------------------------------------------------------------------ *)
(* Integer: pack / unpack                                                                           *)

Definition in16 (n : Z) : Prop := -32768 <= n <= 32767.

Lemma int_unpack_pack n : in16 n -> int_unpack (int_pack n) = n.
Proof.
  unfold in16, int_unpack, int_pack. intros H.
  rewrite le_decode_encode by (change (256 ^ Z.of_nat 2) with 65536; lia).
  destruct (n mod 65536 <? 32768) eqn:E; lia.
Qed.

Lemma int_from_value_ok n : in16 n -> int_from_value (PInt n) = Ok (int_pack n).
Proof.
  unfold in16, int_from_value. intros H.
  destruct ((-32768 <=? n) && (n <=? 32767)) eqn:E; [reflexivity | lia].
Qed.

Lemma int_from_value_overflow n : ~ in16 n -> int_from_value (PInt n) = Err err_OVERFLOW.
Proof.
  unfold in16, int_from_value. intros H.
  destruct ((-32768 <=? n) && (n <=? 32767)) eqn:E; [lia | reflexivity].
Qed.

(* ------------------------------------------------------------------------------------------------ *)
(* scalar set / get / evaluate                                                                      *)

Definition st_set (st : state) (name : list Z) (sv : sval) : state :=
  mkSt (s_base st) (aupdate (s_scalars st) (py_upper name) sv) (s_arrays st).

(* identity conversion *)
Lemma convert_none E v : convert E v 0 = Ok v.
Proof. unfold convert. simpl. reflexivity. Qed.

(* the general scalar round trip: whatever from_value stores, get_variable and evaluate return its to_value *)
Lemma scalar_set_ok E st name sg v v' sv : scalar_name name sg ->
  to_basic E v = Ok v' -> from_value E sg v' = Ok sv ->
  set_variable E st name v = (st_set st name sv, Ok tt).
Proof.
  intros Hn Hb Hf. pose proof (scalar_sigil_explicit _ _ Hn) as Hs. destruct Hn as (H1 & H2 & H3).
  unfold set_variable. rewrite Hs. cbn [negb]. rewrite Hb. cbn [bindS]. rewrite H1, H2, Hf. cbn [bindS].
  reflexivity.
Qed.

Lemma scalar_set_fails_err E st name sg v v' e : scalar_name name sg ->
  to_basic E v = Ok v' -> from_value E sg v' = Err e ->
  set_variable E st name v = (st, Err e).
Proof.
  intros Hn Hb Hf. pose proof (scalar_sigil_explicit _ _ Hn) as Hs. destruct Hn as (H1 & H2 & H3).
  unfold set_variable. rewrite Hs. cbn [negb]. rewrite Hb. cbn [bindS]. rewrite H1, H2, Hf. cbn [bindS].
  reflexivity.
Qed.

Lemma scalar_set_fails_host E st name sg v v' h : scalar_name name sg ->
  to_basic E v = Ok v' -> from_value E sg v' = Host h ->
  set_variable E st name v = (st, Host h).
Proof.
  intros Hn Hb Hf. pose proof (scalar_sigil_explicit _ _ Hn) as Hs. destruct Hn as (H1 & H2 & H3).
  unfold set_variable. rewrite Hs. cbn [negb]. rewrite Hb. cbn [bindS]. rewrite H1, H2, Hf. cbn [bindS].
  reflexivity.
Qed.

Lemma scalar_get_after_set E st name sg sv : scalar_name name sg ->
  get_variable E (st_set st name sv) name 0 = Ok (to_value sg sv) /\
  evaluate (st_set st name sv) name [] = (st_set st name sv, Ok (to_value sg sv)).
Proof.
  intros Hn. pose proof (scalar_sigil_explicit _ _ Hn) as Hs. destruct Hn as (H1 & H2 & H3).
  unfold get_variable, evaluate. rewrite Hs, H1, H2. cbn [negb].
  unfold scalar_get, st_set. cbn [s_scalars]. rewrite alookup_aupdate_same. rewrite convert_none.
  split; reflexivity.
Qed.

(* other scalars are not disturbed *)
Lemma scalar_get_other E st name name' sv ty : py_upper name' <> py_upper name ->
  has_paren (py_upper name') = false ->
  get_variable E (st_set st name sv) name' ty = get_variable E st name' ty.
Proof.
  intros Hne Hp. unfold get_variable. destruct (negb (sigil_explicit (py_upper name'))); [reflexivity|].
  rewrite Hp.
  unfold scalar_get, st_set. cbn [s_scalars]. rewrite alookup_aupdate_other by exact Hne. reflexivity.
Qed.

(* the round trip with from_value spelled out *)
Theorem scalar_roundtrip E st name sg v v' sv : scalar_name name sg ->
  to_basic E v = Ok v' -> from_value E sg v' = Ok sv ->
  let st' := fst (set_variable E st name v) in
  snd (set_variable E st name v) = Ok tt /\
  get_variable E st' name 0 = Ok (to_value sg sv) /\
  evaluate st' name [] = (st', Ok (to_value sg sv)).
Proof.
  intros Hn Hb Hf. rewrite (scalar_set_ok E st name sg v v' sv Hn Hb Hf). cbn [fst snd].
  split; [reflexivity | apply scalar_get_after_set, Hn].
Qed.

(* ------------------------------------------------------------------------------------------------ *)
(* integers, booleans, byte strings                                                                 *)

Lemma sg_int_facts : (sg_int =? sg_str) = false /\ (sg_int =? sg_int) = true.
Proof. split; reflexivity. Qed.

Theorem int_roundtrip E st name n : scalar_name name sg_int -> in16 n ->
  let st' := fst (set_variable E st name (PInt n)) in
  snd (set_variable E st name (PInt n)) = Ok tt /\
  get_variable E st' name 0 = Ok (PInt n) /\
  evaluate st' name [] = (st', Ok (PInt n)).
Proof.
  intros Hn Hr.
  assert (Hf : from_value E sg_int (PInt n) = Ok (SNum (int_pack n))).
  { unfold from_value. change (sg_int =? sg_str) with false. change (sg_int =? sg_int) with true.
    cbv iota. rewrite int_from_value_ok by exact Hr. reflexivity. }
  pose proof (scalar_roundtrip E st name sg_int (PInt n) (PInt n) _ Hn eq_refl Hf) as H.
  cbv zeta in H |- *. cbn [to_value] in H. change (sg_int =? sg_int) with true in H. cbv iota in H.
  rewrite int_unpack_pack in H by exact Hr. exact H.
Qed.

Theorem int_overflow E st name n : scalar_name name sg_int -> ~ in16 n ->
  set_variable E st name (PInt n) = (st, Err err_OVERFLOW).
Proof.
  intros Hn Hr. apply (scalar_set_fails_err E st name sg_int (PInt n) (PInt n)); [exact Hn | reflexivity |].
  unfold from_value. change (sg_int =? sg_str) with false. change (sg_int =? sg_int) with true. cbv iota.
  rewrite int_from_value_overflow by exact Hr. reflexivity.
Qed.

Theorem bool_int_roundtrip E st name b : scalar_name name sg_int ->
  let st' := fst (set_variable E st name (PBool b)) in
  snd (set_variable E st name (PBool b)) = Ok tt /\
  get_variable E st' name 0 = Ok (PInt (if b then -1 else 0)) /\
  evaluate st' name [] = (st', Ok (PInt (if b then -1 else 0))).
Proof.
  intros Hn.
  assert (Hr : in16 (if b then -1 else 0)) by (unfold in16; destruct b; lia).
  assert (Hf : from_value E sg_int (PInt (if b then -1 else 0)) = Ok (SNum (int_pack (if b then -1 else 0)))).
  { unfold from_value. change (sg_int =? sg_str) with false. change (sg_int =? sg_int) with true.
    cbv iota. rewrite int_from_value_ok by exact Hr. reflexivity. }
  pose proof (scalar_roundtrip E st name sg_int (PBool b) (PInt (if b then -1 else 0)) _ Hn eq_refl Hf) as H.
  cbv zeta in H |- *. cbn [to_value] in H. change (sg_int =? sg_int) with true in H. cbv iota in H.
  rewrite int_unpack_pack in H by exact Hr. exact H.
Qed.

(* byte strings: every string of at most 255 bytes comes back, longer ones are String too long *)
Theorem bytes_roundtrip E st name s : scalar_name name sg_str -> zlen s <= 255 ->
  let st' := fst (set_variable E st name (PBytes s)) in
  snd (set_variable E st name (PBytes s)) = Ok tt /\
  get_variable E st' name 0 = Ok (PBytes s) /\
  evaluate st' name [] = (st', Ok (PBytes s)).
Proof.
  intros Hn Hl.
  assert (Hf : from_value E sg_str (PBytes s) = Ok (SStr s)).
  { unfold from_value. change (sg_str =? sg_str) with true. cbv iota.
    destruct (255 <? zlen s) eqn:EL; [lia | reflexivity]. }
  exact (scalar_roundtrip E st name sg_str (PBytes s) (PBytes s) _ Hn eq_refl Hf).
Qed.

Theorem bytes_too_long E st name s : scalar_name name sg_str -> 255 < zlen s ->
  set_variable E st name (PBytes s) = (st, Err err_STRING_TOO_LONG).
Proof.
  intros Hn Hl. apply (scalar_set_fails_err E st name sg_str (PBytes s) (PBytes s)); [exact Hn | reflexivity |].
  unfold from_value. change (sg_str =? sg_str) with true. cbv iota.
  destruct (255 <? zlen s) eqn:EL; [reflexivity | lia].
Qed.

(* unicode strings: what is stored and returned is the codepage encoding of the string *)
Theorem unicode_set_get E st name u b : scalar_name name sg_str -> e_u2b E u = Ok b -> zlen b <= 255 ->
  let st' := fst (set_variable E st name (PUni u)) in
  snd (set_variable E st name (PUni u)) = Ok tt /\
  get_variable E st' name 0 = Ok (PBytes b) /\
  get_variable E st' name 5 = Ok (PUni (e_b2u E b)) /\
  evaluate st' name [] = (st', Ok (PBytes b)).
Proof.
  intros Hn Hu Hl.
  assert (Hb : to_basic E (PUni u) = Ok (PBytes b)) by (cbn [to_basic]; rewrite Hu; reflexivity).
  assert (Hf : from_value E sg_str (PBytes b) = Ok (SStr b)).
  { unfold from_value. change (sg_str =? sg_str) with true. cbv iota.
    destruct (255 <? zlen b) eqn:EL; [lia | reflexivity]. }
  pose proof (scalar_roundtrip E st name sg_str (PUni u) (PBytes b) _ Hn Hb Hf) as H.
  cbv zeta in H |- *. destruct H as (H1 & H2 & H3). repeat split; try assumption.
  (* as_type = unicode *)
  rewrite (scalar_set_ok E st name sg_str (PUni u) (PBytes b) _ Hn Hb Hf). cbn [fst].
  pose proof (scalar_sigil_explicit _ _ Hn) as Hs. destruct Hn as (N1 & N2 & N3).
  unfold get_variable. rewrite Hs, N1, N2. cbn [negb]. unfold scalar_get, st_set. cbn [s_scalars].
  rewrite alookup_aupdate_same. reflexivity.
Qed.

(* evaluate(name) and get_variable(name) return the same value, in every state *)
Theorem evaluate_agrees E st name sg : scalar_name name sg ->
  exists v, get_variable E st name 0 = Ok v /\ evaluate st name [] = (st, Ok v).
Proof.
  intros Hn. pose proof (scalar_sigil_explicit _ _ Hn) as Hs. destruct Hn as (H1 & H2 & H3).
  exists (to_value sg (scalar_get st (py_upper name))).
  unfold get_variable, evaluate. rewrite Hs, H1, H2. cbn [negb]. rewrite convert_none. split; reflexivity.
Qed.
