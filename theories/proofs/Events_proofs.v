(* C38 - proofs about the event-trapping model model/Events.v: trace properties over ALL schedules,
   by single-step lemmas and invariants over fold_left (run). *)
From Coq Require Import ZArith List Bool Lia Arith.
From PCB Require Import model.Events.
Import ListNotations.

(* ------------------------------------------------------------------------------------------------ *)
(* events *)

Lemma event_eqb_eq a b : event_eqb a b = true <-> a = b.
Proof.
  destruct a, b; simpl; split; intro H; try discriminate; try reflexivity;
    try (apply Nat.eqb_eq in H; subst; reflexivity);
    try (inversion H; subst; apply Nat.eqb_refl).
Qed.

Lemma event_eqb_refl e : event_eqb e e = true.
Proof. apply event_eqb_eq. reflexivity. Qed.

Lemma event_eqb_neq a b : event_eqb a b = false <-> a <> b.
Proof.
  split.
  - intros H E. apply event_eqb_eq in E. congruence.
  - intro H. destruct (event_eqb a b) eqn:E; [apply event_eqb_eq in E; contradiction | reflexivity].
Qed.

Lemma event_eqb_sym a b : event_eqb a b = event_eqb b a.
Proof.
  destruct (event_eqb a b) eqn:E.
  - apply event_eqb_eq in E. subst. symmetry. apply event_eqb_refl.
  - symmetry. apply event_eqb_neq. apply event_eqb_neq in E. congruence.
Qed.

Definition event_eq_dec (a b : event) : {a = b} + {a <> b}.
Proof. decide equality; apply Nat.eq_dec. Defined.

Definition tag_eq_dec (a b : option event) : {a = b} + {a <> b}.
Proof. decide equality. apply event_eq_dec. Defined.

Definition action_eq_dec (a b : action) : {a = b} + {a <> b}.
Proof. repeat decide equality. Defined.

Lemma upd_same f e v : upd f e v e = v.
Proof. unfold upd. rewrite event_eqb_refl. reflexivity. Qed.

Lemma upd_other f e v x : x <> e -> upd f e v x = f x.
Proof. intro H. unfold upd. apply event_eqb_neq in H. rewrite H. reflexivity. Qed.

(* ------------------------------------------------------------------------------------------------ *)
(* countb *)

Lemma countb_nil e : countb e [] = 0.
Proof. reflexivity. Qed.

Lemma countb_cons e x l : countb e (x :: l) = (if event_eqb e x then 1 else 0) + countb e l.
Proof. unfold countb. simpl. destruct (event_eqb e x); reflexivity. Qed.

Lemma countb_zero_iff e l : countb e l = 0 <-> ~ In e l.
Proof.
  induction l as [|x l IH].
  - simpl. split; [intros _ H; exact H | reflexivity].
  - rewrite countb_cons. destruct (event_eqb e x) eqn:E.
    + apply event_eqb_eq in E. subst. split; [discriminate | intro H; exfalso; apply H; left; reflexivity].
    + apply event_eqb_neq in E. simpl. rewrite IH. split.
      * intros H [H1 | H1]; [congruence | contradiction].
      * intros H H1. apply H. right. exact H1.
Qed.

Lemma countb_pos_in e l : countb e l <> 0 -> In e l.
Proof.
  intro H. destruct (in_dec event_eq_dec e l) as [I | N]; [exact I|].
  apply countb_zero_iff in N. contradiction.
Qed.

(* ------------------------------------------------------------------------------------------------ *)
(* run / count_entries / trace over appended schedules *)

Lemma run_app st s t : run st (s ++ t) = run (run st s) t.
Proof. unfold run. apply fold_left_app. Qed.

Lemma run_cons st a s : run st (a :: s) = run (next st a) s.
Proof. reflexivity. Qed.

Lemma run_snoc st s a : run st (s ++ [a]) = next (run st s) a.
Proof. rewrite run_app. reflexivity. Qed.

Lemma count_entries_app e s : forall st t,
  count_entries e st (s ++ t) = count_entries e st s + count_entries e (run st s) t.
Proof.
  induction s as [|a s IH]; intros st t.
  - reflexivity.
  - rewrite <- app_comm_cons. cbn [count_entries]. rewrite IH. rewrite run_cons. lia.
Qed.

Lemma run_inv (P : state -> Prop) :
  (forall st a, P st -> P (next st a)) -> forall s st, P st -> P (run st s).
Proof.
  intros Hstep s. induction s as [|a s IH]; intros st H; simpl.
  - exact H.
  - apply IH. apply Hstep. exact H.
Qed.

(* ------------------------------------------------------------------------------------------------ *)
(* handle_basic_events *)

Lemma handle_unfold st a o :
  handle st (a :: o) =
  if fires st a then (fst (handle (enter st a) o), a :: snd (handle (enter st a) o)) else handle st o.
Proof. simpl. destruct (fires st a); [destruct (handle (enter st a) o); reflexivity | reflexivity]. Qed.

Lemma ev_enter_same st e :
  ev (enter st e) e =
  mkE (enabled (ev st e)) true (if is_com e then trig (ev st e) else false) (gosub (ev st e)).
Proof. unfold enter. simpl. apply upd_same. Qed.

Lemma ev_enter_other st e x : x <> e -> ev (enter st e) x = ev st x.
Proof. intro H. unfold enter. simpl. apply upd_other. exact H. Qed.

Lemma fires_enter_same st e : fires (enter st e) e = false.
Proof. unfold fires. rewrite ev_enter_same. simpl. rewrite andb_false_r. reflexivity. Qed.

Lemma fires_enter_other st e x : x <> e -> fires (enter st e) x = fires st x.
Proof. intro H. unfold fires. rewrite (ev_enter_other st e x H). reflexivity. Qed.

Lemma handle_fires : forall o st e, In e (snd (handle st o)) -> fires st e = true.
Proof.
  induction o as [|a o IH]; intros st e H.
  - simpl in H. contradiction.
  - rewrite handle_unfold in H. destruct (fires st a) eqn:F.
    + simpl in H. destruct H as [H | H].
      * subst. exact F.
      * destruct (event_eq_dec e a) as [E | N]; [subst; exact F|].
        apply IH in H. rewrite fires_enter_other in H by exact N. exact H.
    + apply IH. exact H.
Qed.

Lemma handle_not_fires o st e : fires st e = false -> countb e (snd (handle st o)) = 0.
Proof.
  intro F. apply countb_zero_iff. intro H. apply handle_fires in H. congruence.
Qed.

Lemma handle_count_le1 : forall o st e, countb e (snd (handle st o)) <= 1.
Proof.
  induction o as [|a o IH]; intros st e.
  - simpl. rewrite countb_nil. lia.
  - rewrite handle_unfold. destruct (fires st a) eqn:F.
    + simpl. rewrite countb_cons. destruct (event_eqb e a) eqn:E.
      * apply event_eqb_eq in E. subst.
        rewrite (handle_not_fires o (enter st a) a (fires_enter_same st a)). lia.
      * specialize (IH (enter st a) e). lia.
    + apply IH.
Qed.

Lemma handle_count_1 : forall o st e, fires st e = true -> In e o -> countb e (snd (handle st o)) = 1.
Proof.
  induction o as [|a o IH]; intros st e F H.
  - contradiction.
  - rewrite handle_unfold. destruct (event_eq_dec e a) as [E | N].
    + subst. rewrite F. simpl. rewrite countb_cons, event_eqb_refl.
      rewrite (handle_not_fires o (enter st a) a (fires_enter_same st a)). reflexivity.
    + destruct H as [H | H]; [congruence|].
      destruct (fires st a) eqn:Fa.
      * simpl. rewrite countb_cons. apply event_eqb_neq in N. rewrite N. simpl.
        apply IH; [|exact H]. apply event_eqb_neq in N. rewrite fires_enter_other by exact N. exact F.
      * apply IH; assumption.
Qed.

Lemma handle_ev_other : forall o st e, ~ In e (snd (handle st o)) -> ev (fst (handle st o)) e = ev st e.
Proof.
  induction o as [|a o IH]; intros st e H.
  - reflexivity.
  - rewrite handle_unfold in *. destruct (fires st a) eqn:F.
    + simpl in *. assert (N : e <> a) by (intro; apply H; left; congruence).
      rewrite IH by (intro; apply H; right; assumption).
      apply ev_enter_other. exact N.
    + apply IH. exact H.
Qed.

Lemma handle_ev_entered : forall o st e, In e (snd (handle st o)) ->
  ev (fst (handle st o)) e =
  mkE (enabled (ev st e)) true (if is_com e then trig (ev st e) else false) (gosub (ev st e)).
Proof.
  induction o as [|a o IH]; intros st e H.
  - simpl in H. contradiction.
  - rewrite handle_unfold in *. destruct (fires st a) eqn:F.
    + simpl in *. destruct (event_eq_dec e a) as [E | N].
      * subst. rewrite handle_ev_other.
        -- apply ev_enter_same.
        -- apply countb_zero_iff. apply handle_not_fires. apply fires_enter_same.
      * destruct H as [H | H]; [congruence|].
        rewrite IH by exact H. rewrite (ev_enter_other st a e N). reflexivity.
    + apply IH. exact H.
Qed.

Lemma handle_globals : forall o st,
  suspend_all (fst (handle st o)) = suspend_all st /\
  error_handle_mode (fst (handle st o)) = error_handle_mode st /\
  on_error (fst (handle st o)) = on_error st /\
  error_resume (fst (handle st o)) = error_resume st.
Proof.
  induction o as [|a o IH]; intros st.
  - simpl. repeat split.
  - rewrite handle_unfold. destruct (fires st a).
    + simpl. destruct (IH (enter st a)) as (H1 & H2 & H3 & H4).
      rewrite H1, H2, H3, H4. repeat split.
    + apply IH.
Qed.

Lemma handle_run_mode : forall o st, run_mode st = true -> run_mode (fst (handle st o)) = true.
Proof.
  induction o as [|a o IH]; intros st H.
  - exact H.
  - rewrite handle_unfold. destruct (fires st a); [simpl; apply IH; reflexivity | apply IH; exact H].
Qed.

Lemma handle_stack : forall o st, exists fr,
  gosub_stack (fst (handle st o)) = fr ++ gosub_stack st /\
  map snd fr = map Some (rev (snd (handle st o))).
Proof.
  induction o as [|a o IH]; intros st.
  - exists []. split; reflexivity.
  - rewrite handle_unfold. destruct (fires st a).
    + simpl. destruct (IH (enter st a)) as (fr & H1 & H2).
      exists (fr ++ [(run_mode st, Some a)]). split.
      * rewrite H1. simpl. rewrite <- app_assoc. reflexivity.
      * rewrite map_app, H2, map_app. reflexivity.
    + apply IH.
Qed.

(* ------------------------------------------------------------------------------------------------ *)
(* what one action can do *)

Lemma entries_boundary st a e : In e (entries st a) ->
  exists o, a = Boundary o /\ suspend_all st = false /\ run_mode st = true /\ fires st e = true.
Proof.
  unfold entries. destruct a; simpl; try contradiction.
  intro H. exists order. unfold boundary in H.
  destruct (suspend_all st) eqn:S; [simpl in H; contradiction|].
  destruct (run_mode st) eqn:R; [|simpl in H; contradiction].
  simpl in H. repeat split. apply handle_fires in H. exact H.
Qed.

Lemma fires_true st e : fires st e = true ->
  enabled (ev st e) = true /\ trig (ev st e) = true /\ stopped (ev st e) = false /\ gosub (ev st e) <> None.
Proof.
  unfold fires. intro H. repeat (apply andb_true_iff in H; destruct H as [H ?]).
  destruct (stopped (ev st e)); [discriminate|]. destruct (gosub (ev st e)); [|discriminate].
  repeat split; try assumption. discriminate.
Qed.

Lemma fires_intro st e : enabled (ev st e) = true -> trig (ev st e) = true -> stopped (ev st e) = false ->
  gosub (ev st e) <> None -> fires st e = true.
Proof.
  intros H1 H2 H3 H4. unfold fires. rewrite H1, H2, H3. destruct (gosub (ev st e)); [reflexivity | congruence].
Qed.

Lemma entries_count_le1 st a e : countb e (entries st a) <= 1.
Proof.
  unfold entries. destruct a; simpl; try (rewrite countb_nil; lia).
  unfold boundary. destruct (suspend_all st || negb (run_mode st)); simpl.
  - rewrite countb_nil. lia.
  - apply handle_count_le1.
Qed.

Lemma boundary_next st o : suspend_all st = false -> run_mode st = true ->
  next st (Boundary o) = fst (handle st o) /\ entries st (Boundary o) = snd (handle st o).
Proof. intros S R. unfold next, entries. simpl. unfold boundary. rewrite S, R. simpl. split; reflexivity. Qed.

Lemma boundary_fires_once st e o : fires st e = true -> run_mode st = true -> suspend_all st = false ->
  In e o -> countb e (entries st (Boundary o)) = 1.
Proof.
  intros F R S I. destruct (boundary_next st o S R) as [_ E]. rewrite E. apply handle_count_1; assumption.
Qed.

Ltac unfold_step :=
  unfold next, entries, step, boundary, set_trig, set_enabled, set_stopped, set_gosub, with_ev, with_stack,
    set_pointer, with_on_error, raise_error, unstop, reset_events, accept in *.

Ltac split_ifs :=
  repeat match goal with
         | |- context [if ?c then _ else _] => destruct c eqn:?
         | |- context [match ?c with [] => _ | _ :: _ => _ end] => destruct c as [|[? [?|]] ?] eqn:?
         | |- context [match ?c with Some _ => _ | None => _ end] => destruct c eqn:?
         end.

(* the state of an event other than the ones an action names is changed only by entry and reset *)
Lemma ev_after_entry st a e : In e (entries st a) ->
  ev (next st a) e =
  mkE (enabled (ev st e)) true (if is_com e then trig (ev st e) else false) (gosub (ev st e)).
Proof.
  intro H. destruct (entries_boundary st a e H) as (o & -> & S & R & _).
  destruct (boundary_next st o S R) as [E1 E2]. rewrite E1. apply handle_ev_entered. rewrite <- E2. exact H.
Qed.

Lemma entry_clears_trig st a e : is_com e = false -> In e (entries st a) -> trig (ev (next st a) e) = false.
Proof. intros C H. rewrite (ev_after_entry st a e H). simpl. rewrite C. reflexivity. Qed.

Lemma entry_needs_trig st a e : In e (entries st a) -> trig (ev st e) = true.
Proof. intro H. destruct (entries_boundary st a e H) as (o & _ & _ & _ & F). apply fires_true in F. tauto. Qed.

Lemma entry_sets_stopped st a e : In e (entries st a) -> stopped (ev (next st a) e) = true.
Proof. intro H. rewrite (ev_after_entry st a e H). reflexivity. Qed.

Lemma boundary_ev_other st o e : ~ In e (entries st (Boundary o)) -> ev (next st (Boundary o)) e = ev st e.
Proof.
  intro H. unfold next, entries in *. simpl in *. unfold boundary in *.
  destruct (suspend_all st || negb (run_mode st)); simpl in *; [reflexivity|].
  apply handle_ev_other. exact H.
Qed.

(* a trigger of a non-COM event can only be set by an accepted occurrence *)
Lemma trig_rise st a e : is_com e = false -> trig (ev st e) = false -> trig (ev (next st a) e) = true ->
  a = Occur e /\ accept st e = true.
Proof.
  intros C T0 T1. destruct a.
  - (* Occur *)
    destruct (event_eq_dec e e0) as [E | N].
    + subst e0. split; [reflexivity|]. unfold_step. simpl in T1. rewrite C in T1.
      destruct (listening st && enabled (ev st e)) eqn:A; [reflexivity | congruence].
    + exfalso. unfold_step. simpl in T1.
      destruct (is_com e0); [| destruct (listening st && enabled (ev st e0))]; simpl in T1;
        try rewrite upd_other in T1 by exact N; congruence.
  - exfalso. unfold_step. simpl in T1. destruct (is_com e0); simpl in T1; [|congruence].
    destruct (event_eq_dec e e0) as [E | N]; [subst; rewrite upd_same in T1; simpl in T1; congruence|].
    rewrite upd_other in T1 by exact N. congruence.
  - exfalso. unfold_step. simpl in T1.
    destruct (event_eq_dec e e0) as [E | N].
    + subst. rewrite upd_same in T1. simpl in T1. rewrite upd_same in T1. simpl in T1. congruence.
    + rewrite upd_other in T1 by exact N. rewrite upd_other in T1 by exact N. congruence.
  - exfalso. unfold_step. simpl in T1. destruct (is_com e0); simpl in T1; [congruence|].
    destruct (event_eq_dec e e0) as [E | N]; [subst; rewrite upd_same in T1; simpl in T1; congruence|].
    rewrite upd_other in T1 by exact N. congruence.
  - exfalso. unfold_step. simpl in T1.
    destruct (event_eq_dec e e0) as [E | N]; [subst; rewrite upd_same in T1; simpl in T1; congruence|].
    rewrite upd_other in T1 by exact N. congruence.
  - exfalso. unfold_step. simpl in T1.
    destruct (event_eq_dec e e0) as [E | N]; [subst; rewrite upd_same in T1; simpl in T1; congruence|].
    rewrite upd_other in T1 by exact N. congruence.
  - exfalso. unfold_step. simpl in T1. congruence.
  - exfalso. destruct (in_dec event_eq_dec e (entries st (Boundary order))) as [I | N].
    + rewrite (entry_clears_trig st _ e C I) in T1. discriminate.
    + rewrite (boundary_ev_other st order e N) in T1. congruence.
  - exfalso. unfold_step. simpl in T1. congruence.
  - exfalso. unfold_step. simpl in T1. destruct (gosub_stack st) as [|[rm [x|]] k]; simpl in T1.
    + destruct (on_error st && negb (error_handle_mode st)); simpl in T1; congruence.
    + destruct (event_eq_dec e x) as [E | N]; [subst; rewrite upd_same in T1; simpl in T1; congruence|].
      rewrite upd_other in T1 by exact N. congruence.
    + congruence.
  - exfalso. unfold_step. simpl in T1. destruct (gosub_stack st) as [|[rm [x|]] k]; simpl in T1.
    + destruct (on_error st && negb (error_handle_mode st)); simpl in T1; congruence.
    + destruct (event_eq_dec e x) as [E | N]; [subst; rewrite upd_same in T1; simpl in T1; congruence|].
      rewrite upd_other in T1 by exact N. congruence.
    + congruence.
  - exfalso. unfold_step. simpl in T1. destruct b; simpl in T1; [congruence|].
    destruct (error_handle_mode st); simpl in T1; [|congruence].
    destruct (false && negb true); simpl in T1; congruence.
  - exfalso. unfold_step. simpl in T1.
    destruct (on_error st && negb (error_handle_mode st)); simpl in T1; congruence.
  - exfalso. unfold_step. simpl in T1. destruct (error_resume st); simpl in T1; [congruence|].
    destruct (false && negb (error_handle_mode st)); simpl in T1; congruence.
  - exfalso. unfold_step. simpl in T1. destruct (error_resume st); simpl in T1; [congruence|].
    destruct (false && negb (error_handle_mode st)); simpl in T1; congruence.
  - exfalso. unfold_step. simpl in T1. congruence.
  - exfalso. unfold_step. simpl in T1. congruence.
  - exfalso. unfold_step. simpl in T1. congruence.
  - exfalso. unfold_step. simpl in T1. rewrite C in T1. simpl in T1. congruence.
  - exfalso. unfold_step. simpl in T1. rewrite C in T1. simpl in T1. congruence.
  - exfalso. unfold_step. simpl in T1. rewrite C in T1. simpl in T1. congruence.
  - exfalso. unfold_step. simpl in T1. congruence.
Qed.

(* a pending trigger of a non-COM event survives every action except its own entry and RUN *)
Lemma trig_keep st a e : is_com e = false -> trig (ev st e) = true -> is_reset a = false ->
  countb e (entries st a) = 0 -> trig (ev (next st a) e) = true.
Proof.
  intros C T0 NR Z. destruct a; try discriminate NR.
  - unfold_step. simpl. destruct (is_com e0); [|destruct (listening st && enabled (ev st e0))]; simpl;
      try exact T0;
      (destruct (event_eq_dec e e0) as [E | N];
       [subst; rewrite upd_same; reflexivity | rewrite upd_other by exact N; exact T0]).
  - unfold_step. simpl. destruct (is_com e0) eqn:C0; simpl; [|exact T0].
    destruct (event_eq_dec e e0) as [E | N]; [subst; congruence|]. rewrite upd_other by exact N. exact T0.
  - unfold_step. simpl.
    destruct (event_eq_dec e e0) as [E | N].
    + subst. rewrite upd_same. simpl. rewrite upd_same. simpl. exact T0.
    + rewrite upd_other by exact N. rewrite upd_other by exact N. exact T0.
  - unfold_step. simpl. destruct (is_com e0); simpl; [exact T0|].
    destruct (event_eq_dec e e0) as [E | N]; [subst; rewrite upd_same; exact T0|].
    rewrite upd_other by exact N. exact T0.
  - unfold_step. simpl.
    destruct (event_eq_dec e e0) as [E | N]; [subst; rewrite upd_same; exact T0|].
    rewrite upd_other by exact N. exact T0.
  - unfold_step. simpl.
    destruct (event_eq_dec e e0) as [E | N]; [subst; rewrite upd_same; exact T0|].
    rewrite upd_other by exact N. exact T0.
  - unfold_step. simpl. exact T0.
  - apply countb_zero_iff in Z. rewrite (boundary_ev_other st order e Z). exact T0.
  - unfold_step. simpl. exact T0.
  - unfold_step. simpl. destruct (gosub_stack st) as [|[rm [x|]] k]; simpl.
    + destruct (on_error st && negb (error_handle_mode st)); simpl; exact T0.
    + destruct (event_eq_dec e x) as [E | N]; [subst; rewrite upd_same; exact T0|].
      rewrite upd_other by exact N. exact T0.
    + exact T0.
  - unfold_step. simpl. destruct (gosub_stack st) as [|[rm [x|]] k]; simpl.
    + destruct (on_error st && negb (error_handle_mode st)); simpl; exact T0.
    + destruct (event_eq_dec e x) as [E | N]; [subst; rewrite upd_same; exact T0|].
      rewrite upd_other by exact N. exact T0.
    + exact T0.
  - unfold_step. simpl. destruct b; simpl; [exact T0|].
    destruct (error_handle_mode st); simpl; [|exact T0].
    destruct (false && negb true); simpl; exact T0.
  - unfold_step. simpl. destruct (on_error st && negb (error_handle_mode st)); simpl; exact T0.
  - unfold_step. simpl. destruct (error_resume st); simpl; [exact T0|].
    destruct (false && negb (error_handle_mode st)); simpl; exact T0.
  - unfold_step. simpl. destruct (error_resume st); simpl; [exact T0|].
    destruct (false && negb (error_handle_mode st)); simpl; exact T0.
  - unfold_step. simpl. exact T0.
  - unfold_step. simpl. exact T0.
  - unfold_step. simpl. exact T0.
  - unfold_step. simpl. exact T0.
Qed.

(* ------------------------------------------------------------------------------------------------ *)
(* suspend_all covers the error handler *)

Definition eh_inv (st : state) : Prop := error_handle_mode st = true -> suspend_all st = true.

Lemma eh_inv_step st a : eh_inv st -> eh_inv (next st a).
Proof.
  unfold eh_inv. intro I. destruct a; try (unfold_step; simpl; exact I).
  - unfold_step. simpl. destruct (is_com e); [|destruct (listening st && enabled (ev st e))]; simpl; exact I.
  - unfold_step. simpl. destruct (is_com e); simpl; exact I.
  - unfold_step. simpl. destruct (is_com e); simpl; exact I.
  - unfold next. simpl. unfold boundary. destruct (suspend_all st || negb (run_mode st)); simpl; [exact I|].
    destruct (handle_globals order st) as (H1 & H2 & _). rewrite H1, H2. exact I.
  - unfold_step. simpl. destruct (gosub_stack st) as [|[rm [x|]] k]; simpl; try exact I.
    destruct (on_error st && negb (error_handle_mode st)); simpl; [reflexivity | discriminate].
  - unfold_step. simpl. destruct (gosub_stack st) as [|[rm [x|]] k]; simpl; try exact I.
    destruct (on_error st && negb (error_handle_mode st)); simpl; [reflexivity | discriminate].
  - unfold_step. simpl. destruct b; simpl; [exact I|].
    destruct (error_handle_mode st); simpl; [|exact I]. discriminate.
  - unfold_step. simpl. destruct (on_error st && negb (error_handle_mode st)); simpl; [reflexivity | discriminate].
  - unfold_step. simpl. destruct (error_resume st); simpl; discriminate.
  - unfold_step. simpl. destruct (error_resume st); simpl; discriminate.
  - unfold_step. simpl. discriminate.
  - unfold_step. simpl. discriminate.
  - unfold_step. simpl. discriminate.
  - unfold_step. simpl. discriminate.
Qed.

Lemma eh_inv_run s : eh_inv (run init s).
Proof. apply run_inv; [apply eh_inv_step | intro H; discriminate H]. Qed.

Lemma no_entry_in_error_handler s a : error_handle_mode (run init s) = true -> entries (run init s) a = [].
Proof.
  intro H. apply (eh_inv_run s) in H.
  destruct (entries (run init s) a) as [|e l] eqn:E; [reflexivity|].
  assert (I : In e (entries (run init s) a)) by (rewrite E; left; reflexivity).
  destruct (entries_boundary _ _ _ I) as (o & _ & S & _). congruence.
Qed.

(* ------------------------------------------------------------------------------------------------ *)
(* every entry consumes an occurrence made while the event was ON or STOPped *)

Lemma trig_has_cause e : is_com e = false -> forall st0, trig (ev st0 e) = false -> forall s,
  trig (ev (run st0 s) e) = true ->
  exists s1 s2, s = s1 ++ Occur e :: s2 /\ accept (run st0 s1) e = true /\
                count_entries e (run st0 (s1 ++ [Occur e])) s2 = 0.
Proof.
  intros C st0 T0 s. induction s as [|a s IH] using rev_ind; intro T.
  - simpl in T. congruence.
  - rewrite run_snoc in T. destruct (trig (ev (run st0 s) e)) eqn:Tb.
    + destruct (IH eq_refl) as (s1 & s2 & E & A & Z).
      exists s1, (s2 ++ [a]). split; [|split].
      * rewrite E. rewrite <- app_assoc. reflexivity.
      * exact A.
      * rewrite count_entries_app, Z. simpl.
        assert (R : run (run st0 (s1 ++ [Occur e])) s2 = run st0 s).
        { rewrite <- run_app. rewrite E. rewrite <- app_assoc. reflexivity. }
        rewrite R.
        assert (N : ~ In e (entries (run st0 s) a)).
        { intro I. rewrite (entry_clears_trig _ _ _ C I) in T. discriminate. }
        apply countb_zero_iff in N. lia.
    + destruct (trig_rise _ _ _ C Tb T) as [-> A].
      exists s, []. split; [reflexivity | split; [exact A | reflexivity]].
Qed.

Lemma entry_has_cause e : is_com e = false -> forall st0, trig (ev st0 e) = false -> forall s a,
  In e (entries (run st0 s) a) ->
  exists s1 s2, s = s1 ++ Occur e :: s2 /\ accept (run st0 s1) e = true /\
                count_entries e (run st0 (s1 ++ [Occur e])) s2 = 0.
Proof.
  intros C st0 T0 s a I. apply (trig_has_cause e C st0 T0 s). apply (entry_needs_trig _ _ _ I).
Qed.

Definition b2n (b : bool) : nat := if b then 1 else 0.

Definition acc1 (e : event) (st : state) (a : action) : nat :=
  match a with Occur e' => if event_eqb e e' && accept st e then 1 else 0 | _ => 0 end.

Lemma step_budget st a e : is_com e = false ->
  countb e (entries st a) + b2n (trig (ev (next st a) e)) <= acc1 e st a + b2n (trig (ev st e)).
Proof.
  intro C. destruct (in_dec event_eq_dec e (entries st a)) as [I | N].
  - pose proof (entries_count_le1 st a e) as L.
    rewrite (entry_clears_trig _ _ _ C I), (entry_needs_trig _ _ _ I). simpl. lia.
  - apply countb_zero_iff in N. rewrite N.
    destruct (trig (ev (next st a) e)) eqn:T1; simpl; [|lia].
    destruct (trig (ev st e)) eqn:T0; simpl; [lia|].
    destruct (trig_rise _ _ _ C T0 T1) as [-> A]. simpl. rewrite event_eqb_refl, A. simpl. lia.
Qed.

Lemma count_accepted_cons e st a r :
  count_accepted e st (a :: r) = acc1 e st a + count_accepted e (next st a) r.
Proof. reflexivity. Qed.

Lemma entries_le_accepted e : is_com e = false -> forall s st,
  count_entries e st s <= count_accepted e st s + b2n (trig (ev st e)).
Proof.
  intros C s. induction s as [|a r IH]; intro st.
  - simpl. lia.
  - rewrite count_accepted_cons. simpl count_entries.
    pose proof (step_budget st a e C). specialize (IH (next st a)). lia.
Qed.

(* ------------------------------------------------------------------------------------------------ *)
(* remembered while STOPped, handled once after ON *)

Lemma trig_persist e : is_com e = false -> forall s st, trig (ev st e) = true -> no_reset s ->
  count_entries e st s = 0 -> trig (ev (run st s) e) = true.
Proof.
  intros C s. induction s as [|a r IH]; intros st T NR Z.
  - exact T.
  - simpl in Z. rewrite run_cons. apply IH.
    + apply trig_keep; [exact C | exact T | apply NR; left; reflexivity | lia].
    + intros x Hx. apply NR. right. exact Hx.
    + lia.
Qed.

Lemma no_trig_no_entries e : is_com e = false -> forall s st, trig (ev st e) = false ->
  (forall a, In a s -> a <> Occur e) -> count_entries e st s = 0.
Proof.
  intros C s. induction s as [|a r IH]; intros st T NO.
  - reflexivity.
  - simpl. assert (N : ~ In e (entries st a)).
    { intro I. apply entry_needs_trig in I. congruence. }
    apply countb_zero_iff in N. rewrite N. simpl. apply IH.
    + destruct (trig (ev (next st a) e)) eqn:T1; [|reflexivity].
      destruct (trig_rise _ _ _ C T T1) as [-> _]. exfalso. apply (NO (Occur e)); [left|]; reflexivity.
    + intros x Hx. apply NO. right. exact Hx.
Qed.

Lemma occur_sets_trig st e : accept st e = true -> trig (ev (next st (Occur e)) e) = true.
Proof.
  intro A. unfold_step. simpl. destruct (is_com e); [|rewrite A]; simpl; rewrite upd_same; reflexivity.
Qed.

Lemma on_effect st e :
  ev (next st (On e)) e = mkE true false (trig (ev st e)) (gosub (ev st e)) /\
  run_mode (next st (On e)) = run_mode st /\ suspend_all (next st (On e)) = suspend_all st.
Proof. unfold_step. simpl. rewrite upd_same. simpl. rewrite upd_same. simpl. repeat split. Qed.

Lemma stop_remembered e : is_com e = false -> forall st mid o,
  accept st e = true ->
  no_reset mid ->
  count_entries e (next st (Occur e)) mid = 0 ->
  let st1 := run (next st (Occur e)) mid in
  let st2 := next st1 (On e) in
  run_mode st2 = true -> suspend_all st2 = false -> gosub (ev st2 e) <> None -> In e o ->
  countb e (entries st2 (Boundary o)) = 1 /\
  forall rest, (forall a, In a rest -> a <> Occur e) -> count_entries e (next st2 (Boundary o)) rest = 0.
Proof.
  intros C st mid o A NR Z st1 st2 R S G I.
  assert (T1 : trig (ev st1 e) = true).
  { apply trig_persist; [exact C | apply occur_sets_trig; exact A | exact NR | exact Z]. }
  destruct (on_effect st1 e) as (E & _ & _). fold st2 in E.
  assert (F : fires st2 e = true).
  { apply fires_intro; try (rewrite E; simpl; try reflexivity; exact T1). exact G. }
  assert (K : countb e (entries st2 (Boundary o)) = 1) by (apply boundary_fires_once; assumption).
  split; [exact K|]. intros rest NO. apply no_trig_no_entries; [exact C | | exact NO].
  apply entry_clears_trig; [exact C|]. apply countb_pos_in. lia.
Qed.

(* while the event stays stopped nothing is entered *)
Lemma stopped_no_entry st a e : stopped (ev st e) = true -> ~ In e (entries st a).
Proof.
  intros S I. destruct (entries_boundary _ _ _ I) as (o & _ & _ & _ & F). apply fires_true in F.
  destruct F as (_ & _ & F & _). congruence.
Qed.

(* ------------------------------------------------------------------------------------------------ *)
(* an occurrence while OFF (or while no statement loop is active) is lost *)

Lemma off_lost_step st e : is_com e = false -> accept st e = false -> step st (Occur e) = (st, []).
Proof. intros C A. unfold step. rewrite C, A. reflexivity. Qed.

Lemma off_lost st e s : is_com e = false -> accept st e = false ->
  run st (Occur e :: s) = run st s /\ trace st (Occur e :: s) = [] :: trace st s.
Proof.
  intros C A. rewrite run_cons. simpl. unfold next, entries. rewrite (off_lost_step st e C A). simpl.
  split; reflexivity.
Qed.

Lemma accept_enabled st e : enabled (ev st e) = false -> accept st e = false.
Proof. intro H. unfold accept. rewrite H. apply andb_false_r. Qed.

(* ------------------------------------------------------------------------------------------------ *)
(* no re-entry before RETURN unless ON is executed *)

Section NoReentry.
  Variable e : event.
  Variable base : list (bool * option event).   (* the stack up to and including e's frame *)
  Hypothesis base_top : exists rm below, base = (rm, Some e) :: below.

  Definition alive (st : state) : Prop := exists ab, gosub_stack st = ab ++ base.
  Definition rinv (st : state) : Prop :=
    exists ab, gosub_stack st = ab ++ base /\ ~ In (Some e) (map snd ab) /\ stopped (ev st e) = true.

  Lemma app_self_absurd {A} (x : A) (l ab : list A) : l = ab ++ x :: l -> False.
  Proof. intro H. apply (f_equal (@length A)) in H. rewrite app_length in H. simpl in H. lia. Qed.

  Lemma rinv_step st a : rinv st -> a <> On e -> alive (next st a) ->
    rinv (next st a) /\ ~ In e (entries st a).
  Proof.
    intros (ab & K & NI & S) NA AL.
    split; [| apply stopped_no_entry; exact S].
    destruct a.
    - exists ab. unfold_step. simpl.
      destruct (is_com e0); [|destruct (listening st && enabled (ev st e0))]; simpl;
        (split; [exact K | split; [exact NI|]]); try exact S;
        (destruct (event_eq_dec e e0) as [E | N];
         [subst; rewrite upd_same; exact S | rewrite upd_other by exact N; exact S]).
    - exists ab. unfold_step. simpl. destruct (is_com e0); simpl;
        (split; [exact K | split; [exact NI|]]); try exact S.
      destruct (event_eq_dec e e0) as [E | N];
        [subst; rewrite upd_same; exact S | rewrite upd_other by exact N; exact S].
    - assert (N : e <> e0) by (intro; subst; apply NA; reflexivity).
      exists ab. unfold_step. simpl. split; [exact K | split; [exact NI|]].
      rewrite upd_other by exact N. rewrite upd_other by exact N. exact S.
    - exists ab. unfold_step. simpl. destruct (is_com e0); simpl;
        (split; [exact K | split; [exact NI|]]); try exact S.
      destruct (event_eq_dec e e0) as [E | N];
        [subst; rewrite upd_same; exact S | rewrite upd_other by exact N; exact S].
    - exists ab. unfold_step. simpl. split; [exact K | split; [exact NI|]].
      destruct (event_eq_dec e e0) as [E | N];
        [subst; rewrite upd_same; reflexivity | rewrite upd_other by exact N; exact S].
    - exists ab. unfold_step. simpl. split; [exact K | split; [exact NI|]].
      destruct (event_eq_dec e e0) as [E | N];
        [subst; rewrite upd_same; exact S | rewrite upd_other by exact N; exact S].
    - exists ab. unfold_step. simpl. split; [exact K | split; [exact NI | exact S]].
    - (* Boundary *)
      assert (NE : ~ In e (entries st (Boundary order))) by (apply stopped_no_entry; exact S).
      unfold next, entries in *. simpl in *. unfold boundary in *.
      destruct (suspend_all st || negb (run_mode st)); simpl in *.
      + exists ab. split; [exact K | split; [exact NI | exact S]].
      + destruct (handle_stack order st) as (fr & H1 & H2).
        exists (fr ++ ab). split; [|split].
        * rewrite H1, K. apply app_assoc.
        * rewrite map_app, H2. intro I. apply in_app_or in I. destruct I as [I | I]; [|contradiction].
          apply in_map_iff in I. destruct I as (x & Ex & Ix). inversion Ex; subst.
          apply in_rev in Ix. contradiction.
        * rewrite handle_ev_other by exact NE. exact S.
    - exists ((run_mode st, None) :: ab). unfold_step. simpl. split; [rewrite K; reflexivity | split; [|exact S]].
      intros [I | I]; [discriminate | contradiction].
    - (* Return *)
      unfold alive in AL. unfold_step. simpl in *. rewrite K in *.
      destruct ab as [|[rm1 tag1] ab2]; simpl in *.
      + destruct base_top as (rm & below & B). rewrite B in *. simpl in *.
        destruct AL as (ab' & AL). exfalso. destruct (Some e); simpl in AL; exact (app_self_absurd _ _ _ AL).
      + exists ab2. destruct tag1 as [x|]; simpl.
        * assert (N : e <> x) by (intro; subst; apply NI; left; reflexivity).
          split; [reflexivity | split; [intro I; apply NI; right; exact I|]].
          rewrite upd_other by exact N. exact S.
        * split; [reflexivity | split; [intro I; apply NI; right; exact I | exact S]].
    - (* ReturnTo *)
      unfold alive in AL. unfold_step. simpl in *. rewrite K in *.
      destruct ab as [|[rm1 tag1] ab2]; simpl in *.
      + destruct base_top as (rm & below & B). rewrite B in *. simpl in *.
        destruct AL as (ab' & AL). exfalso. destruct (Some e); simpl in AL; exact (app_self_absurd _ _ _ AL).
      + exists ab2. destruct tag1 as [x|]; simpl.
        * assert (N : e <> x) by (intro; subst; apply NI; left; reflexivity).
          split; [reflexivity | split; [intro I; apply NI; right; exact I|]].
          rewrite upd_other by exact N. exact S.
        * split; [reflexivity | split; [intro I; apply NI; right; exact I | exact S]].
    - exists ab. unfold_step. simpl. destruct b; simpl; [split; [exact K | split; [exact NI | exact S]]|].
      destruct (error_handle_mode st); simpl; [|split; [exact K | split; [exact NI | exact S]]].
      destruct (false && negb true); simpl; split; try exact K; split; try exact NI; exact S.
    - exists ab. unfold_step. simpl. destruct (on_error st && negb (error_handle_mode st)); simpl;
        (split; [exact K | split; [exact NI | exact S]]).
    - exists ab. unfold_step. simpl. destruct (error_resume st); simpl;
        [split; [exact K | split; [exact NI | exact S]]|].
      destruct (false && negb (error_handle_mode st)); simpl; (split; [exact K | split; [exact NI | exact S]]).
    - exists ab. unfold_step. simpl. destruct (error_resume st); simpl;
        [split; [exact K | split; [exact NI | exact S]]|].
      destruct (false && negb (error_handle_mode st)); simpl; (split; [exact K | split; [exact NI | exact S]]).
    - exists ab. unfold_step. simpl. split; [exact K | split; [exact NI | exact S]].
    - exists ab. unfold_step. simpl. split; [exact K | split; [exact NI | exact S]].
    - exists ab. unfold_step. simpl. split; [exact K | split; [exact NI | exact S]].
    - (* RunClear empties the stack: the frame is gone *)
      exfalso. destruct AL as (ab' & AL). unfold_step. simpl in AL.
      destruct base_top as (rm & below & B). rewrite B in AL. destruct ab'; discriminate AL.
    - (* Clear *)
      exfalso. destruct AL as (ab' & AL). unfold_step. simpl in AL.
      destruct base_top as (rm & below & B). rewrite B in AL. destruct ab'; discriminate AL.
    - (* New *)
      exfalso. destruct AL as (ab' & AL). unfold_step. simpl in AL.
      destruct base_top as (rm & below & B). rewrite B in AL. destruct ab'; discriminate AL.
    - (* Renum *)
      exfalso. destruct AL as (ab' & AL). unfold_step. simpl in AL.
      destruct base_top as (rm & below & B). rewrite B in AL. destruct ab'; discriminate AL.
  Qed.

  Lemma rinv_run : forall mid st, rinv st -> ~ In (On e) mid ->
    (forall p q, mid = p ++ q -> alive (run st p)) ->
    rinv (run st mid) /\ count_entries e st mid = 0.
  Proof.
    induction mid as [|a r IH]; intros st I NO AL.
    - split; [exact I | reflexivity].
    - assert (A1 : alive (next st a)) by (apply (AL [a] r); reflexivity).
      assert (NA : a <> On e) by (intro; subst; apply NO; left; reflexivity).
      destruct (rinv_step st a I NA A1) as [I1 NE].
      destruct (IH (next st a) I1) as [I2 Z].
      + intro H. apply NO. right. exact H.
      + intros p q E. apply (AL (a :: p) q). rewrite E. reflexivity.
      + split; [exact I2|]. simpl. apply countb_zero_iff in NE. lia.
  Qed.
End NoReentry.

Lemma in_split_first {A} (dec : forall a b : A, {a = b} + {a <> b}) (x : A) l :
  In x l -> exists l1 l2, l = l1 ++ x :: l2 /\ ~ In x l1.
Proof.
  induction l as [|a l IH]; intro H; [contradiction|].
  destruct (dec x a) as [E | N].
  - subst. exists [], l. split; [reflexivity | intros []].
  - destruct H as [H | H]; [congruence|]. destruct (IH H) as (l1 & l2 & E & NI).
    exists (a :: l1), l2. split; [rewrite E; reflexivity|]. intros [I | I]; [congruence | contradiction].
Qed.

Lemma map_split_at {A B} (f : A -> B) l : forall m1 y m2, map f l = m1 ++ y :: m2 ->
  exists l1 x l2, l = l1 ++ x :: l2 /\ map f l1 = m1 /\ f x = y /\ map f l2 = m2.
Proof.
  induction l as [|a l IH]; intros m1 y m2 H.
  - destruct m1; discriminate.
  - destruct m1 as [|b m1]; simpl in H; inversion H; subst.
    + exists [], a, l. repeat split.
    + destruct (IH _ _ _ H2) as (l1 & x & l2 & E & E1 & E2 & E3).
      exists (a :: l1), x, l2. subst. repeat split.
Qed.

(* the entry pushes a frame tagged with the event; no frame above it carries the same tag *)
Lemma entry_pushes_frame st o e : In e (entries st (Boundary o)) ->
  exists rm below above,
    gosub_stack (next st (Boundary o)) = above ++ (rm, Some e) :: below /\
    ~ In (Some e) (map snd above) /\
    exists k, below = k ++ gosub_stack st.
Proof.
  intro I. destruct (entries_boundary _ _ _ I) as (o' & Eo & S & R & _). inversion Eo; subst o'.
  destruct (boundary_next st o S R) as [E1 E2]. rewrite E1. rewrite E2 in I.
  destruct (handle_stack o st) as (fr & H1 & H2).
  assert (IT : In (Some e) (map snd fr)).
  { rewrite H2. apply in_map. apply in_rev in I. exact I. }
  destruct (in_split_first tag_eq_dec _ _ IT) as (m1 & m2 & EM & NI).
  destruct (map_split_at _ _ _ _ _ EM) as (l1 & [rm tag] & l2 & EL & M1 & M2 & M3).
  simpl in M2. subst tag.
  exists rm, (l2 ++ gosub_stack st), l1. split; [|split].
  - rewrite H1, EL. rewrite <- app_assoc. reflexivity.
  - rewrite M1. exact NI.
  - exists l2. reflexivity.
Qed.

Lemma no_reentry st o1 e rm below above mid o2 :
  In e (entries st (Boundary o1)) ->
  let st1 := next st (Boundary o1) in
  gosub_stack st1 = above ++ (rm, Some e) :: below ->
  ~ In (Some e) (map snd above) ->
  (forall p q, mid = p ++ q -> exists ab, gosub_stack (run st1 p) = ab ++ (rm, Some e) :: below) ->
  In e (entries (run st1 mid) (Boundary o2)) ->
  In (On e) mid.
Proof.
  intros I st1 K NI AL I2.
  destruct (in_dec action_eq_dec (On e) mid) as [Y | N]; [exact Y|].
  exfalso.
  assert (BT : exists rm' below', (rm, Some e) :: below = (rm', Some e) :: below') by (eexists; eexists; reflexivity).
  assert (R0 : rinv e ((rm, Some e) :: below) st1).
  { exists above. split; [exact K | split; [exact NI|]]. apply entry_sets_stopped. exact I. }
  destruct (rinv_run e _ BT mid st1 R0 N AL) as [(ab & _ & _ & S) _].
  exact (stopped_no_entry _ _ _ S I2).
Qed.

(* ------------------------------------------------------------------------------------------------ *)
(* the TIMER source layer: a timed schedule is the core schedule `texpand`, with the same entries; hence
   every theorem about core schedules speaks about timed runs, `Occur Timer` being a Poll that hits *)

Lemma core_retime x c st' : core (retime x c st') = st'.
Proof.
  unfold retime. destruct (is_reset c); [reflexivity|].
  destruct c; try reflexivity; destruct e; try reflexivity.
  - destruct (enabled (ev (core x) Timer)); reflexivity.
  - destruct (enabled (ev (core x) Play)); reflexivity.
Qed.

(* D38a: what happened while the trap was OFF does not count after ON *)
Lemma timer_on_from_off x : enabled (ev (core x) Timer) = false ->
  poll_hits (tnext x (Core (On Timer))) = false.
Proof.
  intro H. unfold poll_hits, tnext, tstep, retime. simpl. rewrite H. simpl.
  rewrite andb_false_r, andb_false_r. reflexivity.
Qed.

Lemma play_on_from_off x : enabled (ev (core x) Play) = false ->
  play_hits (tnext x (Core (On Play))) = false.
Proof.
  intro H. unfold play_hits, tnext, tstep, retime. simpl. rewrite H. simpl.
  destruct (ptrig x <=? pq x)%Z eqn:A; destruct (pq x <? ptrig x)%Z eqn:B; simpl;
    try (rewrite andb_false_r; reflexivity).
  apply Z.leb_le in A. apply Z.ltb_lt in B. lia.
Qed.

Lemma timer_needs_period x : period_set x = false -> poll_hits x = false.
Proof. intro H. unfold poll_hits. rewrite H. simpl. apply andb_false_r. Qed.

Lemma tnext_core_Core x c : core (tnext x (Core c)) = next (core x) c /\
  snd (tstep x (Core c)) = entries (core x) c.
Proof. unfold tnext, next, entries. simpl. rewrite core_retime. split; reflexivity. Qed.

Lemma trace_app st s t : trace st (s ++ t) = trace st s ++ trace (run st s) t.
Proof.
  revert st. induction s as [|a s IH]; intro st.
  - reflexivity.
  - rewrite <- app_comm_cons. cbn [trace]. rewrite IH, run_cons. reflexivity.
Qed.

Lemma occur_no_entries st e : entries st (Occur e) = [].
Proof. reflexivity. Qed.

Lemma tstep_expand x a :
  core (tnext x a) = run (core x) (expand1 x a) /\
  snd (tstep x a) = concat (trace (core x) (expand1 x a)).
Proof.
  destruct a.
  - destruct (tnext_core_Core x a) as [E1 E2]. rewrite E1, E2. simpl. rewrite app_nil_r. split; reflexivity.
  - split; reflexivity.
  - unfold tnext, tstep, expand1, poll_play, poll_timer, play_hits.
    destruct (poll_hits x) eqn:P1; cbn [fst snd core];
      match goal with |- context [play_polled ?y] => destruct (play_polled y) eqn:P2 end;
      cbn [andb fst snd core];
      try match goal with |- context [(?u <=? ?v)%Z && (?w <? ?z)%Z] =>
            destruct ((u <=? v)%Z && (w <? z)%Z) eqn:P3 end;
      simpl; split; reflexivity.
  - split; reflexivity.
  - split; reflexivity.
  - unfold tnext, tstep, expand1. destruct (key_hits x e); simpl; split; reflexivity.
  - split; reflexivity.
Qed.

Lemma texpand_cons x a s : texpand x (a :: s) = expand1 x a ++ texpand (tnext x a) s.
Proof. reflexivity. Qed.

Lemma texpand_run : forall s x,
  core (trun x s) = run (core x) (texpand x s) /\
  concat (ttrace x s) = concat (trace (core x) (texpand x s)).
Proof.
  induction s as [|a s IH]; intro x.
  - split; reflexivity.
  - rewrite texpand_cons. destruct (IH (tnext x a)) as [H1 H2].
    destruct (tstep_expand x a) as [E1 E2].
    rewrite run_app, trace_app, concat_app, <- E1, <- E2, <- H1, <- H2. split; reflexivity.
Qed.
