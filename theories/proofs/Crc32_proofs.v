(* C40: every single-byte change of a byte string of any length changes its CRC-32 *)
From Coq Require Import ZArith List Bool Lia.
From PCB Require Import lib.PyInt model.Crc32.
Import ListNotations.
Open Scope Z_scope.

(* ---------- finite sweeps over 0..255 ---------- *)
Definition idx256 : list Z := Eval vm_compute in map Z.of_nat (seq 0 256).

Lemma idx256_in i : 0 <= i < 256 -> In i idx256.
Proof.
  intros Hi. replace i with (Z.of_nat (Z.to_nat i)) by lia.
  change idx256 with (map Z.of_nat (seq 0 256)).
  apply in_map, in_seq. lia.
Qed.

Lemma sweep256 (P : Z -> bool) : forallb P idx256 = true -> forall i, 0 <= i < 256 -> P i = true.
Proof. intros H i Hi. rewrite forallb_forall in H. apply H, idx256_in, Hi. Qed.

Definition two32 : Z := 4294967296.

Lemma crc_T_range i : 0 <= i < 256 -> 0 <= crc_T i < two32.
Proof.
  intros Hi.
  pose proof (sweep256 (fun i => (0 <=? crc_T i) && (crc_T i <? two32)) eq_refl i Hi) as H.
  cbv beta in H. apply andb_true_iff in H as [H1 H2].
  apply Z.leb_le in H1. apply Z.ltb_lt in H2. lia.
Qed.

(* the top bytes of the 256 table entries are pairwise different *)
Lemma crc_T_top_inj i j : 0 <= i < 256 -> 0 <= j < 256 ->
  Z.shiftr (crc_T i) 24 = Z.shiftr (crc_T j) 24 -> i = j.
Proof.
  intros Hi Hj E.
  pose proof (sweep256
    (fun i => forallb (fun j => implb (Z.shiftr (crc_T i) 24 =? Z.shiftr (crc_T j) 24) (i =? j)) idx256)
    ltac:(vm_compute; reflexivity) i Hi) as H.
  cbv beta in H. rewrite forallb_forall in H. specialize (H j (idx256_in j Hj)).
  apply Z.eqb_eq in E. rewrite E in H. simpl in H. apply Z.eqb_eq in H. exact H.
Qed.

(* ---------- bit-level helpers ---------- *)
Lemma lxor_cancel_r a b c : Z.lxor a c = Z.lxor b c -> a = b.
Proof.
  intros H. apply (f_equal (fun x => Z.lxor x c)) in H.
  rewrite !Z.lxor_assoc, Z.lxor_nilpotent, !Z.lxor_0_r in H. exact H.
Qed.

Lemma lxor_cancel_l a b c : Z.lxor c a = Z.lxor c b -> a = b.
Proof. rewrite !(Z.lxor_comm c). apply lxor_cancel_r. Qed.

Lemma land_lxor_distr_l a b c : Z.land (Z.lxor a b) c = Z.lxor (Z.land a c) (Z.land b c).
Proof.
  apply Z.bits_inj'. intros n Hn.
  rewrite Z.land_spec, !Z.lxor_spec, !Z.land_spec.
  destruct (Z.testbit a n), (Z.testbit b n), (Z.testbit c n); reflexivity.
Qed.

Lemma lxor_range32 a b : 0 <= a < two32 -> 0 <= b < two32 -> 0 <= Z.lxor a b < two32.
Proof.
  intros Ha Hb.
  assert (Hn : 0 <= Z.lxor a b) by (apply Z.lxor_nonneg; lia).
  split; [exact Hn|].
  destruct (Z.eq_dec (Z.lxor a b) 0) as [E|NE]; [rewrite E; reflexivity|].
  change two32 with (2 ^ 32). apply Z.log2_lt_pow2; [lia|].
  pose proof (Z.log2_lxor a b ltac:(lia) ltac:(lia)) as Hl.
  assert (Hla : Z.log2 a < 32).
  { destruct (Z.eq_dec a 0) as [->|]; [reflexivity|]. apply Z.log2_lt_pow2; [lia|]. exact (proj2 Ha). }
  assert (Hlb : Z.log2 b < 32).
  { destruct (Z.eq_dec b 0) as [->|]; [reflexivity|]. apply Z.log2_lt_pow2; [lia|]. exact (proj2 Hb). }
  lia.
Qed.

Lemma land255_range x : 0 <= Z.land x 255 < 256.
Proof.
  change 255 with (Z.ones 8). rewrite Z.land_ones by lia.
  change (2 ^ 8) with 256. apply Z.mod_pos_bound. lia.
Qed.

Lemma land255_byte b : byte_ok b -> Z.land b 255 = b.
Proof.
  intros Hb. change 255 with (Z.ones 8). rewrite Z.land_ones by lia.
  change (2 ^ 8) with 256. apply Z.mod_small. exact Hb.
Qed.

Lemma shiftr8_range c : 0 <= c < two32 -> 0 <= Z.shiftr c 8 < two32.
Proof.
  intros Hc. rewrite Z.shiftr_div_pow2 by lia. change (2 ^ 8) with 256. unfold two32 in *.
  split; [apply Z.div_pos; lia|]. apply Z.div_lt_upper_bound; lia.
Qed.

Lemma shiftr32_zero c : 0 <= c < two32 -> Z.shiftr (Z.shiftr c 8) 24 = 0.
Proof.
  intros Hc. rewrite Z.shiftr_shiftr by lia. change (8 + 24) with 32.
  rewrite Z.shiftr_div_pow2 by lia. apply Z.div_small. exact Hc.
Qed.

Lemma split_low8 c c' : Z.shiftr c 8 = Z.shiftr c' 8 -> Z.land c 255 = Z.land c' 255 -> c = c'.
Proof.
  change 255 with (Z.ones 8). rewrite !Z.land_ones, !Z.shiftr_div_pow2 by lia.
  change (2 ^ 8) with 256. intros H1 H2.
  rewrite (Z.div_mod c 256), (Z.div_mod c' 256) by lia. rewrite H1, H2. reflexivity.
Qed.

(* ---------- the per-byte step ---------- *)
Lemma crc_step_range c b : 0 <= c < two32 -> 0 <= crc_step c b < two32.
Proof.
  intros Hc. unfold crc_step. apply lxor_range32.
  - apply crc_T_range, land255_range.
  - apply shiftr8_range, Hc.
Qed.

Lemma crc_step_top c b : 0 <= c < two32 ->
  Z.shiftr (crc_step c b) 24 = Z.shiftr (crc_T (Z.land (Z.lxor c b) 255)) 24.
Proof.
  intros Hc. unfold crc_step. rewrite Z.shiftr_lxor, shiftr32_zero by exact Hc. apply Z.lxor_0_r.
Qed.

(* equal next states (after possibly different bytes) force equal table indices *)
Lemma crc_step_index c c' b b' : 0 <= c < two32 -> 0 <= c' < two32 ->
  crc_step c b = crc_step c' b' ->
  Z.land (Z.lxor c b) 255 = Z.land (Z.lxor c' b') 255.
Proof.
  intros Hc Hc' E.
  apply crc_T_top_inj; try apply land255_range.
  rewrite <- !crc_step_top by assumption. rewrite E. reflexivity.
Qed.

(* injective in the state for a fixed byte *)
Lemma crc_step_inj_state c c' b : 0 <= c < two32 -> 0 <= c' < two32 ->
  crc_step c b = crc_step c' b -> c = c'.
Proof.
  intros Hc Hc' E.
  pose proof (crc_step_index c c' b b Hc Hc' E) as Hi.
  unfold crc_step in E. rewrite Hi in E. apply lxor_cancel_l in E.
  apply split_low8; [exact E|].
  rewrite !land_lxor_distr_l in Hi. apply lxor_cancel_r in Hi. exact Hi.
Qed.

(* injective in the byte for a fixed state *)
Lemma crc_step_inj_byte c b b' : 0 <= c < two32 -> byte_ok b -> byte_ok b' ->
  crc_step c b = crc_step c b' -> b = b'.
Proof.
  intros Hc Hb Hb' E.
  pose proof (crc_step_index c c b b' Hc Hc E) as Hi.
  rewrite !land_lxor_distr_l in Hi. apply lxor_cancel_l in Hi.
  rewrite !land255_byte in Hi by assumption. exact Hi.
Qed.

(* ---------- whole strings ---------- *)
Lemma crc_run_range l : forall c, 0 <= c < two32 -> 0 <= crc_run c l < two32.
Proof.
  induction l as [|x r IH]; intros c Hc; [exact Hc|].
  cbn [crc_run fold_left]. apply IH, crc_step_range, Hc.
Qed.

Lemma crc_run_inj l : forall c c', 0 <= c < two32 -> 0 <= c' < two32 ->
  crc_run c l = crc_run c' l -> c = c'.
Proof.
  induction l as [|x r IH]; intros c c' Hc Hc' E; [exact E|].
  cbn [crc_run fold_left] in E.
  apply (crc_step_inj_state c c' x Hc Hc').
  apply IH; [apply crc_step_range, Hc | apply crc_step_range, Hc' | exact E].
Qed.

Lemma crc_run_detects_byte l : forall c i b', 0 <= c < two32 -> bytes_ok l -> byte_ok b' ->
  (i < length l)%nat -> nth i l 0 <> b' ->
  crc_run c (set_nth i b' l) <> crc_run c l.
Proof.
  induction l as [|x r IH]; intros c i b' Hc Hl Hb' Hi Hne; [simpl in Hi; lia|].
  inversion Hl as [|x0 r0 Hx Hr]; subst.
  destruct i as [|i].
  - cbn [set_nth crc_run fold_left nth] in *. intros E.
    apply crc_run_inj in E; try (apply crc_step_range, Hc).
    apply crc_step_inj_byte in E; try assumption. congruence.
  - cbn [set_nth crc_run fold_left nth] in *.
    apply IH; try assumption; [apply crc_step_range, Hc | simpl in Hi; lia].
Qed.

Lemma crc32_range l : 0 <= crc32 l < two32.
Proof.
  unfold crc32. apply lxor_range32; [|unfold crc_mask, two32; lia].
  apply crc_run_range. unfold crc_mask, two32. lia.
Qed.

Theorem crc32_detects_byte l i b' : bytes_ok l -> byte_ok b' ->
  (i < length l)%nat -> nth i l 0 <> b' ->
  crc32 (set_nth i b' l) <> crc32 l.
Proof.
  intros Hl Hb' Hi Hne E. unfold crc32 in E. apply lxor_cancel_r in E.
  revert E. apply crc_run_detects_byte; try assumption. unfold crc_mask, two32. lia.
Qed.

(* more generally: strings of equal length that differ in exactly one position *)
Lemma set_nth_length i b l : length (set_nth i b l) = length l.
Proof. revert i; induction l as [|x r IH]; intros [|i]; simpl; auto. Qed.

Lemma set_nth_bytes i b l : bytes_ok l -> byte_ok b -> bytes_ok (set_nth i b l).
Proof.
  revert i; induction l as [|x r IH]; intros [|i] Hl Hb; simpl; auto;
    inversion Hl; subst; constructor; auto. apply IH; auto.
Qed.

Lemma set_nth_app_r i b l1 l2 : (length l1 <= i)%nat ->
  set_nth i b (l1 ++ l2) = l1 ++ set_nth (i - length l1) b l2.
Proof.
  revert i; induction l1 as [|x r IH]; intros i Hi; simpl in *.
  - rewrite Nat.sub_0_r. reflexivity.
  - destruct i as [|i]; [lia|]. simpl. rewrite IH by lia. reflexivity.
Qed.

Lemma set_nth_app_l i b l1 l2 : (i < length l1)%nat ->
  set_nth i b (l1 ++ l2) = set_nth i b l1 ++ l2.
Proof.
  revert i; induction l1 as [|x r IH]; intros i Hi; simpl in *; [lia|].
  destruct i as [|i]; [reflexivity|]. simpl. rewrite IH by lia. reflexivity.
Qed.
