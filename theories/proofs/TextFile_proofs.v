(* C24: proofs about model/TextFile.v *)
From Coq Require Import ZArith List Bool Lia.
From PCB Require Import lib.Result lib.PyInt gen.Gen_textfile model.TextFile.
Import ListNotations.
Open Scope Z_scope.

(* ------------------------------------------------------------------ small facts *)

Lemma zlen_app {A} (a b : list A) : zlen (a ++ b) = zlen a + zlen b.
Proof. unfold zlen. rewrite app_length. lia. Qed.
Lemma zlen_cons {A} (x : A) l : zlen (x :: l) = 1 + zlen l.
Proof. unfold zlen. cbn [length]. lia. Qed.
Lemma zlen_nil {A} : zlen (@nil A) = 0.
Proof. reflexivity. Qed.
Lemma zlen_nonneg {A} (l : list A) : 0 <= zlen l.
Proof. unfold zlen. lia. Qed.

Lemma qchar_facts c : qchar c = true ->
  c =? NONE = false /\ c =? EOFB = false /\ c =? QUOTE = false /\ c =? NUL = false.
Proof.
  unfold qchar, byteb, NONE, EOFB, QUOTE, NUL. intro H.
  repeat (apply andb_true_iff in H; destruct H as [H ?]).
  repeat split; lia.
Qed.

Lemma nchar_facts c : nchar c = true ->
  c =? NONE = false /\ c =? EOFB = false /\ c =? QUOTE = false /\ c =? NUL = false /\
  c =? CR = false /\ c =? LF = false /\ c =? COMMA = false /\ c =? SPACE = false.
Proof.
  unfold nchar, NONE, EOFB, QUOTE, NUL, CR, LF, COMMA, SPACE. intro H.
  repeat (apply orb_true_iff in H; destruct H as [H | H]);
    try (apply andb_true_iff in H; destruct H as [H H']); repeat split; lia.
Qed.

Lemma lchar_facts c : lchar c = true ->
  c =? NONE = false /\ c =? EOFB = false /\ c =? CR = false.
Proof.
  unfold lchar, byteb, NONE, EOFB, CR. intro H.
  repeat (apply andb_true_iff in H; destruct H as [H ?]).
  repeat split; lia.
Qed.

(* ------------------------------------------------------------------ read1 / read_one on known heads *)

Lemma read1_cons b t cu pr : b =? EOFB = false ->
  read1 (mkR (b :: t) cu pr) = (b, mkR t b cu).
Proof. intro H. unfold read1. cbn [rest cur]. rewrite H. reflexivity. Qed.

Lemma read1_eof t cu pr : read1 (mkR (EOFB :: t) cu pr) = (NONE, mkR (EOFB :: t) NONE cu).
Proof. reflexivity. Qed.

(* a character that is not CR is read as it is *)
Lemma read_one_plain b t cu pr : b =? EOFB = false -> b =? NONE = false -> b =? CR = false ->
  read_one (mkR (b :: t) cu pr) = (b, mkR t b cu).
Proof.
  intros He Hn Hc. unfold read_one. rewrite read1_cons by exact He. rewrite Hn, Hc. reflexivity.
Qed.

(* a character that may be CR, when no LF follows it *)
Lemma read_one_nolf b t cu pr : b =? EOFB = false -> b =? NONE = false ->
  hd NONE t =? LF = false ->
  read_one (mkR (b :: t) cu pr) = (b, mkR t b cu).
Proof.
  intros He Hn Hl. unfold read_one. rewrite read1_cons by exact He. rewrite Hn.
  unfold peek1. cbn [rest prev cur].
  assert (Hp : (match t with [] => NONE | b0 :: _ => b0 end =? LF) = false).
  { destruct t; [reflexivity | exact Hl]. }
  rewrite Hp. rewrite andb_false_r. reflexivity.
Qed.

(* the line ends the reader can meet: CR LF (soft_linefeed) or a CR not followed by LF (NewlineWrapper) *)
Definition eol_ok (eol more : list Z) : Prop :=
  eol = [CR; LF] \/ (eol = [CR] /\ hd NONE more =? LF = false).

Lemma read_one_eol eol more cu pr : eol_ok eol more -> cu =? LF = false ->
  read_one (mkR (eol ++ more) cu pr) = (CR, mkR more CR cu).
Proof.
  intros [He | [He Hm]] Hcu; subst eol.
  - unfold read_one. cbn [app]. rewrite read1_cons by reflexivity.
    cbn [prev cur rest peek1]. rewrite Hcu. reflexivity.
  - cbn [app]. apply read_one_nolf; [reflexivity | reflexivity | exact Hm].
Qed.

Lemma skip_ws_stop ws r : memZ (peek1 r) ws = false -> skip_ws ws r = Ok (NONE, r).
Proof.
  intro H. unfold skip_ws. cbn [skip_ws_loop]. rewrite H. rewrite orb_true_r. reflexivity.
Qed.

(* ------------------------------------------------------------------ the INPUT# loop on a quoted string *)

Lemma entry_loop_q_step f c r word : qchar c = true -> zlen word <= 253 ->
  entry_loop (S f) true true c r word [] =
  (let (c1, r1) := read1 r in entry_loop f true true c1 r1 (word ++ [c]) []).
Proof.
  intros Hq Hlen. destruct (qchar_facts c Hq) as (Hn & He & Hqu & Hz).
  cbn [entry_loop]. rewrite Hn. cbn [negb andb orb]. rewrite !andb_false_r. cbn [orb].
  rewrite Hqu. cbn [andb]. rewrite Hz. cbn [app].
  assert (Hl : (255 <=? zlen (word ++ [c]) + zlen (@nil Z)) = false).
  { rewrite zlen_app, zlen_cons, !zlen_nil. apply Z.leb_gt. lia. }
  rewrite Hl. reflexivity.
Qed.

Lemma entry_loop_q_end f r word : entry_loop (S f) true true QUOTE r word [] = Ok (word, QUOTE, r).
Proof. reflexivity. Qed.

Lemma entry_loop_quoted : forall s c word t cu pr fuel,
  qchar c = true -> forallb qchar s = true -> zlen word + 1 + zlen s <= 254 ->
  (length s + 2 <= fuel)%nat ->
  exists pr', entry_loop fuel true true c (mkR (s ++ QUOTE :: t) cu pr) word [] =
              Ok (word ++ c :: s, QUOTE, mkR t QUOTE pr').
Proof.
  induction s as [|a s IH]; intros c word t cu pr fuel Hc Hs Hlen Hfuel.
  - destruct fuel as [|[|f]]; try (cbn in Hfuel; lia).
    rewrite entry_loop_q_step; [| exact Hc | rewrite zlen_nil in Hlen; lia].
    cbn [app]. rewrite read1_cons by reflexivity. rewrite entry_loop_q_end.
    exists cu. reflexivity.
  - cbn [forallb] in Hs. apply andb_true_iff in Hs as [Ha Hs].
    destruct fuel as [|f]; [cbn in Hfuel; lia|].
    rewrite zlen_cons in Hlen. pose proof (zlen_nonneg s) as Hs0.
    rewrite entry_loop_q_step; [| exact Hc | lia].
    cbn [app]. destruct (qchar_facts a Ha) as (_ & Hae & _ & _).
    rewrite read1_cons by exact Hae.
    destruct (IH a (word ++ [c]) t a cu f Ha Hs) as [pr' Hr].
    + rewrite zlen_app, zlen_cons, zlen_nil. lia.
    + cbn [length] in Hfuel. lia.
    + exists pr'. rewrite Hr. rewrite <- app_assoc. reflexivity.
Qed.

(* what follows an item in the file: a comma, or a line end *)
Definition sep_ok (sepb more : list Z) : Prop := sepb = [COMMA] \/ eol_ok sepb more.

(* reading the separator: one read_one that leaves the reader at `more` *)
Lemma read_sep sepb more cu pr : sep_ok sepb more -> cu =? LF = false ->
  exists c, read_one (mkR (sepb ++ more) cu pr) = (c, mkR more c cu) /\ (c = COMMA \/ c = CR).
Proof.
  intros [Hs | Hs] Hcu.
  - subst sepb. exists COMMA. split; [|left; reflexivity].
    cbn [app]. apply read_one_plain; reflexivity.
  - exists CR. split; [|right; reflexivity]. apply read_one_eol; assumption.
Qed.

Lemma peek_sep sepb more cu pr : sep_ok sepb more ->
  peek1 (mkR (sepb ++ more) cu pr) = COMMA \/ peek1 (mkR (sepb ++ more) cu pr) = CR.
Proof.
  intros [Hs | [Hs | [Hs _]]]; subst sepb; cbn; auto.
Qed.

(* the tail of input_entry after a closing quote *)
Lemma entry_finish_quoted (word : list Z) sepb more cu pr : sep_ok sepb more -> cu =? LF = false ->
  exists c, (c = COMMA \/ c = CR) /\
  (do (_, r5) <- skip_ws [SPACE] (mkR (sepb ++ more) cu pr);
   let p := peek1 r5 in
   if (p =? NONE) || (p =? COMMA) || (p =? CR)
   then let (c'', r6) := read_one r5 in Ok (word, c'', r6)
   else Ok (word, QUOTE, r5)) = Ok (word, c, mkR more c cu).
Proof.
  intros Hs Hcu.
  destruct (read_sep sepb more cu pr Hs Hcu) as (c & Hr & Hc).
  exists c. split; [exact Hc|].
  assert (Hp : memZ (peek1 (mkR (sepb ++ more) cu pr)) [SPACE] = false).
  { destruct (peek_sep sepb more cu pr Hs) as [E | E]; rewrite E; reflexivity. }
  rewrite (skip_ws_stop _ _ Hp). cbn [bind].
  assert (Hq : let p := peek1 (mkR (sepb ++ more) cu pr) in (p =? NONE) || (p =? COMMA) || (p =? CR) = true).
  { destruct (peek_sep sepb more cu pr Hs) as [E | E]; cbn zeta; rewrite E; reflexivity. }
  cbn zeta in Hq |- *. rewrite Hq. rewrite Hr. reflexivity.
Qed.

(* INPUT#n, A$ on a string written by WRITE# *)
Lemma input_entry_str s sepb more cu pr :
  forallb qchar s = true -> zlen s <= 254 -> starts_crlf s = false -> sep_ok sepb more ->
  exists c cu' pr',
    input_entry true (mkR (QUOTE :: s ++ QUOTE :: sepb ++ more) cu pr) = Ok (s, c, mkR more cu' pr').
Proof.
  intros Hs Hlen Hcrlf Hsep.
  unfold input_entry, entry_prefix.
  rewrite skip_ws_stop by reflexivity. cbn [bind].
  rewrite read_one_plain by reflexivity.
  change ((QUOTE =? QUOTE) && true && negb (is_lf_or_nul NONE)) with true. cbv iota.
  destruct s as [|a s].
  - cbn [app]. rewrite read_one_plain by reflexivity. cbn [bind].
    change ((QUOTE =? NONE) && negb (is_lf_or_nul NONE)) with false. cbv iota.
    cbn [rest]. rewrite entry_loop_q_end. cbn [bind].
    change ((negb (QUOTE =? NONE) && memZ QUOTE tf_INPUT_WHITESPACE) || (true && (QUOTE =? QUOTE))) with true.
    cbv iota.
    destruct (entry_finish_quoted [] sepb more QUOTE QUOTE Hsep eq_refl) as (c & _ & Hf).
    cbv zeta in Hf. rewrite Hf. eauto.
  - cbn [forallb] in Hs. apply andb_true_iff in Hs as [Ha Hs].
    destruct (qchar_facts a Ha) as (Han & Hae & Haq & Haz).
    cbn [app].
    assert (Hr1 : read_one (mkR (a :: s ++ QUOTE :: sepb ++ more) QUOTE cu) =
                  (a, mkR (s ++ QUOTE :: sepb ++ more) a QUOTE)).
    { destruct (a =? CR) eqn:Hacr.
      - apply read_one_nolf; [exact Hae | exact Han |].
        destruct s as [|b s']; [reflexivity|].
        cbn [starts_crlf] in Hcrlf. rewrite Hacr in Hcrlf. cbn [andb] in Hcrlf. exact Hcrlf.
      - apply read_one_plain; assumption. }
    rewrite Hr1. cbn [bind]. rewrite Han. cbn [andb]. cbv iota. cbn [rest].
    rewrite zlen_cons in Hlen.
    destruct (entry_loop_quoted s a [] (sepb ++ more) a QUOTE
                (S (S (length (s ++ QUOTE :: sepb ++ more)))) Ha Hs) as [pr' Hl].
    + rewrite zlen_nil. lia.
    + rewrite app_length. lia.
    + rewrite Hl. cbn [bind app].
      change (negb (QUOTE =? NONE) && memZ QUOTE tf_INPUT_WHITESPACE || (QUOTE =? QUOTE)) with true.
      cbv iota.
      destruct (entry_finish_quoted (a :: s) sepb more QUOTE pr' Hsep eq_refl) as (c & _ & Hf).
      cbv zeta in Hf. rewrite Hf. eauto.
Qed.

(* ------------------------------------------------------------------ the INPUT# loop on a number text *)

Lemma entry_loop_n_step f c r word : nchar c = true -> zlen word <= 253 ->
  entry_loop (S f) false false c r word [] =
  (let (c1, r1) := read_one r in entry_loop f false false c1 r1 (word ++ [c]) []).
Proof.
  intros Hc Hlen.
  destruct (nchar_facts c Hc) as (Hn & He & Hq & Hz & Hcr & Hlf & Hco & Hsp).
  cbn [entry_loop]. unfold tf_soft_sep, tf_INPUT_WHITESPACE. cbn [memZ negb andb].
  change 32 with SPACE. change 0 with NUL. change 10 with LF.
  rewrite Hn, Hsp, Hco, Hcr, Hq, Hlf, Hz. cbn [andb orb app].
  assert (Hl : (255 <=? zlen (word ++ [c]) + zlen (@nil Z)) = false).
  { rewrite zlen_app, zlen_cons, !zlen_nil. apply Z.leb_gt. lia. }
  rewrite Hl. reflexivity.
Qed.

Lemma entry_loop_n_end f c r word : c = COMMA \/ c = CR ->
  entry_loop (S f) false false c r word [] = Ok (word, c, r).
Proof. intros [H | H]; subst c; reflexivity. Qed.

Lemma entry_loop_number : forall t c word sepb more cu pr fuel,
  nchar c = true -> forallb nchar t = true -> zlen word + 1 + zlen t <= 254 ->
  sep_ok sepb more -> cu = c -> (length t + 2 <= fuel)%nat ->
  exists c' pr', (c' = COMMA \/ c' = CR) /\
    entry_loop fuel false false c (mkR (t ++ sepb ++ more) cu pr) word [] =
    Ok (word ++ c :: t, c', mkR more c' pr').
Proof.
  induction t as [|a t IH]; intros c word sepb more cu pr fuel Hc Ht Hlen Hsep Hcu Hfuel.
  - destruct fuel as [|[|f]]; try (cbn in Hfuel; lia).
    rewrite entry_loop_n_step; [| exact Hc | rewrite zlen_nil in Hlen; lia].
    cbn [app]. destruct (nchar_facts c Hc) as (_ & _ & _ & _ & _ & Hlf & _ & _).
    subst cu. destruct (read_sep sepb more c pr Hsep Hlf) as (c' & Hr & Hc').
    rewrite Hr. rewrite entry_loop_n_end by exact Hc'. eauto.
  - cbn [forallb] in Ht. apply andb_true_iff in Ht as [Ha Ht].
    destruct fuel as [|f]; [cbn in Hfuel; lia|].
    rewrite zlen_cons in Hlen. pose proof (zlen_nonneg t) as Ht0.
    rewrite entry_loop_n_step; [| exact Hc | lia].
    cbn [app]. destruct (nchar_facts a Ha) as (Han & Hae & _ & _ & Hacr & _ & _ & _).
    rewrite read_one_plain by assumption.
    destruct (IH a (word ++ [c]) sepb more a cu f Ha Ht) as (c' & pr' & Hc' & Hr).
    + rewrite zlen_app, zlen_cons, zlen_nil. lia.
    + exact Hsep.
    + reflexivity.
    + cbn [length] in Hfuel. lia.
    + exists c', pr'. split; [exact Hc'|]. rewrite Hr. rewrite <- app_assoc. reflexivity.
Qed.

(* INPUT#n, A (numeric variable) on a number written by WRITE# *)
Lemma input_entry_num t sepb more cu pr :
  num_ok t = true -> sep_ok sepb more ->
  exists c cu' pr',
    input_entry false (mkR (t ++ sepb ++ more) cu pr) = Ok (t, c, mkR more cu' pr').
Proof.
  intros Hok Hsep. unfold num_ok in Hok.
  apply andb_true_iff in Hok as [Hok Hlen]. apply andb_true_iff in Hok as [Hch Hne].
  apply Z.leb_le in Hlen.
  destruct t as [|a t]; [discriminate Hne|].
  cbn [forallb] in Hch. apply andb_true_iff in Hch as [Ha Ht].
  destruct (nchar_facts a Ha) as (Han & Hae & Haq & Haz & Hacr & Half & Haco & Hasp).
  unfold input_entry, entry_prefix. cbn [app].
  rewrite skip_ws_stop.
  2:{ unfold peek1. cbn [rest]. unfold tf_INPUT_WHITESPACE. cbn [memZ].
      change 32 with SPACE. change 0 with NUL. change 10 with LF. rewrite Hasp, Haz, Half. reflexivity. }
  cbn [bind]. rewrite read_one_plain by assumption.
  rewrite Haq. cbn [andb]. cbv iota. cbn [bind]. rewrite Han. cbn [andb]. cbv iota. cbn [rest].
  rewrite zlen_cons in Hlen.
  destruct (entry_loop_number t a [] sepb more a cu (S (S (length (t ++ sepb ++ more)))) Ha Ht)
    as (c' & pr' & Hc' & Hl).
  - rewrite zlen_nil. lia.
  - exact Hsep.
  - reflexivity.
  - rewrite app_length. lia.
  - rewrite Hl. cbn [bind app].
    assert (Hfin : (negb (c' =? NONE) && memZ c' tf_INPUT_WHITESPACE) || (false && (c' =? QUOTE)) = false).
    { destruct Hc'; subst c'; reflexivity. }
    cbn [andb] in Hfin |- *. rewrite Hfin. eauto.
Qed.

(* ------------------------------------------------------------------ a file as a flat sequence of items *)

(* (item, is-last-of-its-statement) *)
Definition sep_bytes (eol : list Z) (e : bool) : list Z := if e then eol else [COMMA].
Fixpoint stream (eol : list Z) (fl : list (item * bool)) : list Z :=
  match fl with
  | [] => []
  | (it, e) :: r => fmt_item it ++ sep_bytes eol e ++ stream eol r
  end.

Definition eol_good (eol : list Z) : Prop := eol = [CR; LF] \/ eol = [CR].

(* what the reader needs of an item (both modes) *)
Definition item_rd (it : item) : bool :=
  match it with
  | IStr s => forallb qchar s && (zlen s <=? 254) && negb (starts_crlf s)
  | INum t => num_ok t
  end.

Lemma memZ_starts_crlf s : memZ LF s = false -> starts_crlf s = false.
Proof.
  destruct s as [|a [|b s]]; try reflexivity. cbn [memZ starts_crlf]. intro H.
  apply orb_false_iff in H as [_ H]. apply orb_false_iff in H as [H _].
  rewrite Z.eqb_sym in H. rewrite Z.eqb_sym. rewrite H. apply andb_false_r.
Qed.

Lemma item_ok_rd soft it : item_ok soft it = true -> item_rd it = true.
Proof.
  destruct it as [s | t]; [| exact (fun H => H)].
  cbn [item_ok item_rd]. unfold str_ok. intro H.
  apply andb_true_iff in H as [H1 H2]. rewrite H1. cbn [andb].
  destruct soft; [exact H2|].
  apply negb_true_iff in H2. rewrite (memZ_starts_crlf s H2). reflexivity.
Qed.

Lemma hd_fmt_item it x : item_rd it = true ->
  let h := hd NONE (fmt_item it ++ x) in
  h =? LF = false /\ h =? NONE = false /\ h =? EOFB = false.
Proof.
  destruct it as [s | t]; cbn [item_rd fmt_item]; intro H.
  - cbn. auto.
  - unfold num_ok in H. apply andb_true_iff in H as [H _]. apply andb_true_iff in H as [Hch Hne].
    destruct t as [|a t]; [discriminate Hne|]. cbn [forallb] in Hch.
    apply andb_true_iff in Hch as [Ha _].
    destruct (nchar_facts a Ha) as (Han & Hae & _ & _ & _ & Half & _ & _). cbn. auto.
Qed.

Definition all_rd (fl : list (item * bool)) : Prop := Forall (fun p => item_rd (fst p) = true) fl.

Lemma hd_stream eol fl : all_rd fl -> hd NONE (stream eol fl ++ [EOFB]) =? LF = false.
Proof.
  intros H. destruct fl as [|[it e] r]; [reflexivity|].
  inversion H as [|p q Hit Hr]; subst. cbn [stream fst] in *. rewrite <- app_assoc.
  apply (hd_fmt_item it _ Hit).
Qed.

Lemma eof_stream eol fl cu pr : all_rd fl ->
  eof (mkR (stream eol fl ++ [EOFB]) cu pr) = match fl with [] => true | _ :: _ => false end.
Proof.
  intros H. destruct fl as [|[it e] r]; [reflexivity|].
  inversion H as [|p q Hit Hr]; subst. cbn [stream fst] in *. rewrite <- !app_assoc.
  destruct (hd_fmt_item it (sep_bytes eol e ++ stream eol r ++ [EOFB]) Hit) as (_ & Hn & He).
  unfold eof, peek1. cbn [rest].
  destruct (fmt_item it ++ sep_bytes eol e ++ stream eol r ++ [EOFB]) as [|h tl] eqn:E.
  - destruct it; cbn in E; [discriminate E|]. cbn in Hn. discriminate Hn.
  - cbn [hd] in Hn, He. cbv beta iota. rewrite Hn, He. reflexivity.
Qed.

Lemma sep_ok_stream eol e fl : eol_good eol -> all_rd fl ->
  sep_ok (sep_bytes eol e) (stream eol fl ++ [EOFB]).
Proof.
  intros Hg Hfl. destruct e; cbn [sep_bytes]; [right | left; reflexivity].
  destruct Hg as [Hg | Hg]; subst eol; [left; reflexivity | right].
  split; [reflexivity | apply hd_stream; exact Hfl].
Qed.

Lemma eof_flags_SS n : eof_flags (S (S n)) = false :: eof_flags (S n).
Proof. reflexivity. Qed.

(* INPUT# over the whole file: every item comes back, EOF turns true exactly after the last one *)
Lemma read_items_stream eol : eol_good eol -> forall fl cu pr, all_rd fl ->
  read_items (map (fun p => item_is_str (fst p)) fl) (mkR (stream eol fl ++ [EOFB]) cu pr)
  = Ok (combine (map (fun p => item_text (fst p)) fl) (eof_flags (length fl))).
Proof.
  intros Hg. induction fl as [|[it e] r IH]; intros cu pr Hall; [reflexivity|].
  inversion Hall as [|p q Hit Hr]; subst. cbn [fst] in Hit.
  cbn [map fst read_items stream]. rewrite <- !app_assoc.
  pose proof (sep_ok_stream eol e r Hg Hr) as Hsep.
  assert (Hone : exists c cu' pr',
    input_entry (item_is_str it) (mkR (fmt_item it ++ sep_bytes eol e ++ stream eol r ++ [EOFB]) cu pr)
    = Ok (item_text it, c, mkR (stream eol r ++ [EOFB]) cu' pr')).
  { destruct it as [s | t]; cbn [item_rd item_is_str item_text fmt_item] in *.
    - apply andb_true_iff in Hit as [Hit Hcrlf]. apply andb_true_iff in Hit as [Hq Hlen].
      apply Z.leb_le in Hlen. apply negb_true_iff in Hcrlf.
      replace ((QUOTE :: s ++ [QUOTE]) ++ sep_bytes eol e ++ stream eol r ++ [EOFB])
        with (QUOTE :: s ++ QUOTE :: sep_bytes eol e ++ stream eol r ++ [EOFB])
        by (cbn [app]; rewrite <- app_assoc; reflexivity).
      apply input_entry_str; assumption.
    - apply input_entry_num; assumption. }
  destruct Hone as (c & cu' & pr' & Hone). rewrite Hone. cbn [bind].
  rewrite IH by exact Hr. cbn [bind]. rewrite eof_stream by exact Hr.
  destruct r as [|x r']; [reflexivity|].
  cbn [length]. rewrite eof_flags_SS. reflexivity.
Qed.

(* ------------------------------------------------------------------ what WRITE# sessions put on disk *)

Lemma fold_fwrite {A} (g : A -> list Z) l start :
  fold_left (fun f x => fwrite f (g x)) l start = start ++ concat (map g l).
Proof.
  revert start. induction l as [|x l IH]; intro start; cbn [fold_left map concat].
  - rewrite app_nil_r. reflexivity.
  - rewrite IH. unfold fwrite. rewrite <- app_assoc. reflexivity.
Qed.

Lemma write_session_bytes start stmts :
  write_session start stmts = start ++ concat (map write_stmt stmts) ++ [EOFB].
Proof. unfold write_session, close_out. rewrite fold_fwrite. rewrite <- app_assoc. reflexivity. Qed.

Lemma print_session_bytes start ls :
  print_session start ls = start ++ concat (map print_line ls) ++ [EOFB].
Proof. unfold print_session, close_out. rewrite fold_fwrite. rewrite <- app_assoc. reflexivity. Qed.

Fixpoint flat_stmt (st : list item) : list (item * bool) :=
  match st with
  | [] => []
  | x :: r => match r with [] => [(x, true)] | _ :: _ => (x, false) :: flat_stmt r end
  end.

Lemma map_fst_flat_stmt st : map fst (flat_stmt st) = st.
Proof.
  induction st as [|x r IH]; [reflexivity|].
  destruct r as [|y r']; [reflexivity|].
  change (flat_stmt (x :: y :: r')) with ((x, false) :: flat_stmt (y :: r')).
  cbn [map fst]. rewrite IH. reflexivity.
Qed.

Lemma write_stmt_stream st : st <> [] -> write_stmt st = stream [CR; LF] (flat_stmt st).
Proof.
  unfold write_stmt, line_bytes.
  induction st as [|x r IH]; intro Hne; [contradiction|].
  destruct r as [|y r'].
  - cbn [map join_comma flat_stmt stream sep_bytes]. rewrite app_nil_r. reflexivity.
  - change (flat_stmt (x :: y :: r')) with ((x, false) :: flat_stmt (y :: r')).
    cbn [stream sep_bytes]. rewrite <- IH by discriminate.
    change (map fmt_item (x :: y :: r')) with (fmt_item x :: map fmt_item (y :: r')).
    change (join_comma (fmt_item x :: map fmt_item (y :: r')))
      with (fmt_item x ++ COMMA :: join_comma (map fmt_item (y :: r'))).
    rewrite <- app_assoc. reflexivity.
Qed.

Lemma stream_app eol a b : stream eol (a ++ b) = stream eol a ++ stream eol b.
Proof.
  induction a as [|[it e] a IH]; [reflexivity|].
  cbn [app stream]. rewrite IH. rewrite <- !app_assoc. reflexivity.
Qed.

Definition flat_stmts (stmts : list (list item)) : list (item * bool) := concat (map flat_stmt stmts).

Lemma stmts_stream stmts : Forall (fun st => st <> []) stmts ->
  concat (map write_stmt stmts) = stream [CR; LF] (flat_stmts stmts).
Proof.
  unfold flat_stmts. induction stmts as [|st r IH]; intro H; [reflexivity|].
  inversion H as [|p q Hst Hr]; subst. cbn [map concat].
  rewrite stream_app. rewrite IH by exact Hr. rewrite write_stmt_stream by exact Hst. reflexivity.
Qed.

Lemma map_fst_flat_stmts stmts : map fst (flat_stmts stmts) = concat stmts.
Proof.
  unfold flat_stmts. induction stmts as [|st r IH]; [reflexivity|].
  cbn [map concat]. rewrite map_app, IH, map_fst_flat_stmt. reflexivity.
Qed.

Lemma stmt_ok_ne soft st : stmt_ok soft st = true -> st <> [].
Proof. intros H E. subst st. discriminate H. Qed.

Lemma stmts_all_rd soft stmts : forallb (stmt_ok soft) stmts = true -> all_rd (flat_stmts stmts).
Proof.
  intro H. unfold all_rd. apply Forall_forall. intros [it e] Hin.
  assert (Hin' : In it (concat stmts)).
  { rewrite <- map_fst_flat_stmts. change it with (fst (it, e)). apply in_map. exact Hin. }
  apply in_concat in Hin' as (st & Hst & Hit).
  rewrite forallb_forall in H. specialize (H st Hst). unfold stmt_ok in H.
  apply andb_true_iff in H as [_ H]. rewrite forallb_forall in H.
  cbn [fst]. apply (item_ok_rd soft). apply H. exact Hit.
Qed.

(* ------------------------------------------------------------------ the NewlineWrapper on written files *)

Lemma last_cons {A} : forall (a : list A) x d, last (x :: a) d = last a x.
Proof.
  induction a as [|y a IH]; intros x d; [reflexivity|].
  change (last (x :: y :: a) d) with (last (y :: a) d). rewrite (IH y d), (IH y x). reflexivity.
Qed.

Lemma nlfilter_nolf : forall a lst b, memZ LF a = false ->
  nlfilter lst (a ++ b) = a ++ nlfilter (last a lst) b.
Proof.
  induction a as [|x a IH]; intros lst b H; [reflexivity|].
  cbn [memZ] in H. apply orb_false_iff in H as [Hx Ha]. rewrite Z.eqb_sym in Hx.
  cbn [app nlfilter]. rewrite Hx. rewrite andb_false_r. rewrite IH by exact Ha.
  rewrite last_cons. reflexivity.
Qed.

Definition item_nolf (it : item) : bool := negb (memZ LF (fmt_item it)).

Lemma memZ_app c a b : memZ c (a ++ b) = memZ c a || memZ c b.
Proof. induction a as [|x a IH]; [reflexivity|]. cbn [app memZ]. rewrite IH. apply orb_assoc. Qed.

Lemma nchar_nolf t : forallb nchar t = true -> memZ LF t = false.
Proof.
  induction t as [|a t IH]; [reflexivity|]. cbn [forallb memZ]. intro H.
  apply andb_true_iff in H as [Ha Ht]. rewrite (IH Ht).
  destruct (nchar_facts a Ha) as (_ & _ & _ & _ & _ & Hlf & _ & _).
  rewrite Z.eqb_sym. rewrite Hlf. reflexivity.
Qed.

Lemma item_ok_nolf it : item_ok false it = true -> memZ LF (fmt_item it) = false.
Proof.
  destruct it as [s | t]; cbn [item_ok fmt_item].
  - unfold str_ok. intro H. apply andb_true_iff in H as [_ H]. apply negb_true_iff in H.
    cbn [memZ]. rewrite memZ_app. rewrite H. reflexivity.
  - unfold num_ok. intro H. apply andb_true_iff in H as [H _]. apply andb_true_iff in H as [H _].
    apply nchar_nolf. exact H.
Qed.

Lemma nlfilter_stream : forall fl lst,
  Forall (fun p => memZ LF (fmt_item (fst p)) = false) fl ->
  nlfilter lst (stream [CR; LF] fl ++ [EOFB]) = stream [CR] fl ++ [EOFB].
Proof.
  induction fl as [|[it e] r IH]; intros lst H.
  - cbn [stream app nlfilter]. rewrite andb_false_r. reflexivity.
  - inversion H as [|p q Hit Hr]; subst. cbn [fst] in Hit. cbn [stream]. rewrite <- !app_assoc.
    rewrite nlfilter_nolf by exact Hit. f_equal.
    destruct e; cbn [sep_bytes app nlfilter].
    + (* CR LF: the LF is absorbed *)
      rewrite andb_false_r. cbn [andb Z.eqb CR LF]. 
      change ((CR =? CR) && (LF =? LF)) with true. cbv iota.
      change (CR =? LF) with false. cbv iota.
      f_equal. apply IH. exact Hr.
    + rewrite andb_false_r. change (COMMA =? LF) with false. cbv iota. f_equal. apply IH. exact Hr.
Qed.

(* ------------------------------------------------------------------ WRITE# / INPUT# round trip *)

Theorem write_input_roundtrip soft stmts : forallb (stmt_ok soft) stmts = true ->
  read_items (map item_is_str (concat stmts)) (open_input soft (write_file stmts)) =
  Ok (combine (map item_text (concat stmts)) (eof_flags (length (concat stmts)))).
Proof.
  intro Hok.
  assert (Hne : Forall (fun st => st <> []) stmts).
  { apply Forall_forall. intros st Hin. rewrite forallb_forall in Hok.
    apply (stmt_ok_ne soft). apply Hok. exact Hin. }
  pose proof (stmts_all_rd soft stmts Hok) as Hrd.
  unfold write_file, open_output. rewrite write_session_bytes. cbn [app].
  rewrite stmts_stream by exact Hne.
  rewrite <- map_fst_flat_stmts. rewrite !map_map. rewrite map_length.
  unfold open_input, stream_of. destruct soft.
  - apply read_items_stream; [left; reflexivity | exact Hrd].
  - rewrite nlfilter_stream.
    + apply read_items_stream; [right; reflexivity | exact Hrd].
    + apply Forall_forall. intros [it e] Hin. cbn [fst].
      assert (Hin' : In it (concat stmts)).
      { rewrite <- map_fst_flat_stmts. change it with (fst (it, e)). apply in_map. exact Hin. }
      apply in_concat in Hin' as (st & Hst & Hit).
      rewrite forallb_forall in Hok. specialize (Hok st Hst). unfold stmt_ok in Hok.
      apply andb_true_iff in Hok as [_ Hok]. rewrite forallb_forall in Hok.
      apply item_ok_nolf. apply Hok. exact Hit.
Qed.

(* ------------------------------------------------------------------ APPEND, LOF *)

Lemma strip_eof_app l : strip_eof (l ++ [EOFB]) = l.
Proof.
  induction l as [|b r IH]; [reflexivity|].
  cbn [app strip_eof]. destruct (r ++ [EOFB]) as [|x y] eqn:E.
  - destruct r; discriminate E.
  - rewrite IH. reflexivity.
Qed.

Theorem append_bytes old stmts :
  append_file old stmts = strip_eof old ++ concat (map write_stmt stmts) ++ [EOFB].
Proof. unfold append_file, open_append. apply write_session_bytes. Qed.

Theorem append_after_write s1 s2 : append_file (write_file s1) s2 = write_file (s1 ++ s2).
Proof.
  rewrite append_bytes. unfold write_file, open_output. rewrite !write_session_bytes. cbn [app].
  rewrite strip_eof_app. rewrite map_app, concat_app. rewrite <- app_assoc. reflexivity.
Qed.

Theorem lof_fwrite f s : lof (fwrite f s) = lof f + zlen s.
Proof. unfold lof, fwrite. apply zlen_app. Qed.

Theorem lof_close f : lof (close_out f) = lof f + 1.
Proof. unfold lof, close_out. rewrite zlen_app. reflexivity. Qed.

(* ------------------------------------------------------------------ PRINT# / LINE INPUT# *)

Lemma lseq_facts p a t : lseq_ok p (a :: t) = true ->
  a =? NONE = false /\ a =? EOFB = false /\ (negb (a =? CR) || (p =? LF)) = true /\ lseq_ok a t = true.
Proof.
  cbn [lseq_ok]. intro H. apply andb_true_iff in H as [H Hl]. apply andb_true_iff in H as [H Hs].
  apply andb_true_iff in H as [Hb He]. apply negb_true_iff in He.
  unfold byteb in Hb. apply andb_true_iff in Hb as [Hb _].
  repeat split; try assumption. unfold NONE. lia.
Qed.

(* a byte of a line: a CR only after an LF, and then it is neither a line end nor merged with a following LF *)
Lemma read_one_seq a t cu pr : a =? EOFB = false -> a =? NONE = false ->
  (negb (a =? CR) || (cu =? LF)) = true ->
  read_one (mkR (a :: t) cu pr) = (a, mkR t a cu) /\ ((a =? CR) && negb (cu =? LF)) = false.
Proof.
  intros He Hn Hs. unfold read_one. rewrite read1_cons by exact He. rewrite Hn. cbn [prev].
  destruct (a =? CR); cbn [negb orb andb] in *; [rewrite Hs; cbn; auto | auto].
Qed.

Lemma read_line_loop_ok : forall l acc eol more cu pr fuel,
  lseq_ok cu l = true -> zlen acc + zlen l <= 254 -> eol_ok eol more ->
  last l cu =? LF = false -> (length l + 1 <= fuel)%nat ->
  read_line_loop fuel (mkR (l ++ eol ++ more) cu pr) acc = Ok (acc ++ l, CR, mkR more CR (last l cu)).
Proof.
  induction l as [|a l IH]; intros acc eol more cu pr fuel Hl Hlen Heol Hlast Hfuel.
  - destruct fuel as [|f]; [cbn in Hfuel; lia|]. cbn [app last] in *.
    cbn [read_line_loop]. rewrite read_one_eol by assumption.
    cbn [prev]. rewrite Hlast. rewrite app_nil_r. reflexivity.
  - destruct fuel as [|f]; [cbn in Hfuel; lia|].
    destruct (lseq_facts _ _ _ Hl) as (Han & Hae & Hs & Hl').
    destruct (read_one_seq a (l ++ eol ++ more) cu pr Hae Han Hs) as [Hr Hbrk].
    cbn [app read_line_loop]. rewrite Hr. cbn [prev].
    rewrite Han, Hbrk. cbn [orb].
    rewrite zlen_cons in Hlen. pose proof (zlen_nonneg l) as Hl0. pose proof (zlen_nonneg acc) as Hacc0.
    assert (H255 : (zlen (acc ++ [a]) =? 255) = false).
    { rewrite zlen_app, zlen_cons, zlen_nil. apply Z.eqb_neq. lia. }
    rewrite H255. rewrite last_cons in Hlast |- *.
    rewrite IH; try assumption.
    + rewrite <- app_assoc. reflexivity.
    + rewrite zlen_app, zlen_cons, zlen_nil. lia.
    + cbn [length] in Hfuel. lia.
Qed.

Lemma line_input_ok l eol more cu pr :
  lseq_ok cu l = true -> zlen l <= 254 -> eol_ok eol more -> last l cu =? LF = false ->
  line_input (mkR (l ++ eol ++ more) cu pr) = Ok (l, mkR more CR (last l cu)).
Proof.
  intros Hl Hlen Heol Hlast. unfold line_input, read_line. cbn [rest].
  rewrite (read_line_loop_ok l [] eol more cu pr); try assumption.
  - cbn [app]. destruct l; reflexivity.
  - rewrite app_length. lia.
Qed.

Lemma lseq_start cu l : cu =? LF = false -> lseq_ok cu l = lseq_ok NONE l.
Proof. intro H. destruct l as [|a t]; [reflexivity|]. cbn [lseq_ok]. rewrite H. reflexivity. Qed.

Lemma lchar_lseq : forall l p, forallb lchar l = true -> lseq_ok p l = true.
Proof.
  induction l as [|a t IH]; intros p H; [reflexivity|]. cbn [forallb] in H.
  apply andb_true_iff in H as [Ha Ht]. cbn [lseq_ok]. rewrite (IH a Ht).
  unfold lchar in Ha. apply andb_true_iff in Ha as [Ha He]. apply andb_true_iff in Ha as [Hb Hc].
  rewrite Hb, He, Hc. reflexivity.
Qed.

Definition lstream (eol : list Z) (ls : list (list Z)) : list Z := concat (map (fun l => l ++ eol) ls).

(* what the reader needs of a line *)
Definition line_rd (l : list Z) : bool :=
  lseq_ok NONE l && (zlen l <=? 254) && negb (last l NONE =? LF).
Definition lines_eol_ok (eol : list Z) (ls : list (list Z)) : Prop :=
  eol = [CR; LF] \/ (eol = [CR] /\ Forall (fun l => memZ LF l = false) ls).

Lemma lines_eol_ok_tl eol l ls : lines_eol_ok eol (l :: ls) -> lines_eol_ok eol ls.
Proof. intros [H | [H1 H2]]; [left; exact H | right]. split; [exact H1|]. inversion H2; assumption. Qed.

Lemma eol_ok_lstream eol ls : lines_eol_ok eol ls -> eol_ok eol (lstream eol ls ++ [EOFB]).
Proof.
  intros [H | [H1 H2]]; [left; exact H | right]. split; [exact H1|]. subst eol.
  destruct ls as [|l r]; [reflexivity|]. inversion H2 as [|p q Hl Hr]; subst.
  unfold lstream. cbn [map concat]. destruct l as [|a l]; [reflexivity|].
  cbn [memZ] in Hl. apply orb_false_iff in Hl as [Hl _]. rewrite Z.eqb_sym in Hl. exact Hl.
Qed.

Lemma eof_lstream eol ls cu pr : eol_good eol -> Forall (fun l => line_rd l = true) ls ->
  eof (mkR (lstream eol ls ++ [EOFB]) cu pr) = match ls with [] => true | _ :: _ => false end.
Proof.
  intros Hg H. destruct ls as [|l r]; [reflexivity|].
  inversion H as [|p q Hl Hr]; subst. unfold lstream. cbn [map concat].
  destruct l as [|a l].
  - destruct Hg; subst eol; reflexivity.
  - unfold line_rd in Hl. apply andb_true_iff in Hl as [Hl _]. apply andb_true_iff in Hl as [Hl _].
    destruct (lseq_facts _ _ _ Hl) as (Han & Hae & _ & _).
    unfold eof, peek1. cbn [app rest]. rewrite Han, Hae. reflexivity.
Qed.

Lemma last_default_irrel {A} (l : list A) d1 d2 : l <> [] -> last l d1 = last l d2.
Proof. destruct l as [|x l]; [contradiction|]. intros _. rewrite !last_cons. reflexivity. Qed.

Lemma read_lines_stream eol : eol_good eol -> forall ls cu pr,
  Forall (fun l => line_rd l = true) ls -> lines_eol_ok eol ls -> cu =? LF = false ->
  read_lines (length ls) (mkR (lstream eol ls ++ [EOFB]) cu pr) =
  Ok (combine ls (eof_flags (length ls))).
Proof.
  intros Hg. induction ls as [|l r IH]; intros cu pr Hall Heol Hcu; [reflexivity|].
  inversion Hall as [|p q Hl Hr]; subst.
  pose proof (lines_eol_ok_tl _ _ _ Heol) as Heol'.
  cbn [length read_lines]. unfold lstream. cbn [map concat]. fold (lstream eol r).
  rewrite <- !app_assoc.
  pose proof Hl as Hl'. unfold line_rd in Hl'.
  apply andb_true_iff in Hl' as [Hl' Hlast]. apply andb_true_iff in Hl' as [Hch Hlen].
  apply Z.leb_le in Hlen. apply negb_true_iff in Hlast.
  assert (Hlast' : last l cu =? LF = false).
  { destruct l as [|a l]; [exact Hcu|]. rewrite last_cons in Hlast |- *. exact Hlast. }
  rewrite line_input_ok; try assumption;
    [| rewrite lseq_start by exact Hcu; exact Hch | apply eol_ok_lstream; exact Heol'].
  cbn [bind]. rewrite IH; [| exact Hr | exact Heol' | reflexivity].
  cbn [bind]. rewrite eof_lstream by assumption.
  destruct r as [|x r']; [reflexivity|].
  cbn [length]. rewrite eof_flags_SS. reflexivity.
Qed.

Lemma nlfilter_lstream : forall ls lst, Forall (fun l => memZ LF l = false) ls ->
  nlfilter lst (lstream [CR; LF] ls ++ [EOFB]) = lstream [CR] ls ++ [EOFB].
Proof.
  induction ls as [|l r IH]; intros lst H.
  - cbn [lstream map concat app nlfilter]. rewrite andb_false_r. reflexivity.
  - inversion H as [|p q Hl Hr]; subst. unfold lstream. cbn [map concat].
    fold (lstream [CR; LF] r). fold (lstream [CR] r). rewrite <- !app_assoc.
    rewrite nlfilter_nolf by exact Hl. f_equal.
    cbn [app nlfilter]. rewrite andb_false_r.
    change (CR =? LF) with false. cbv iota.
    change ((CR =? CR) && (LF =? LF)) with true. cbv iota.
    f_equal. apply IH. exact Hr.
Qed.

Lemma nolf_last l : memZ LF l = false -> last l NONE =? LF = false.
Proof.
  induction l as [|a l IH]; [reflexivity|]. intro H. cbn [memZ] in H.
  apply orb_false_iff in H as [Ha Hl]. rewrite last_cons.
  destruct l as [|b l']; [cbn [last]; rewrite Z.eqb_sym; exact Ha|].
  rewrite last_cons. rewrite <- (last_cons l' b NONE). apply IH. exact Hl.
Qed.

Lemma line_ok_rd soft l : line_ok soft l = true -> line_rd l = true.
Proof.
  unfold line_ok, line_rd. intro H. apply andb_true_iff in H as [H1 H2]. rewrite H1.
  destruct soft.
  - apply andb_true_iff in H2 as [H2 H3]. rewrite H2, H3. reflexivity.
  - apply andb_true_iff in H2 as [H2 H3]. apply negb_true_iff in H3.
    rewrite (lchar_lseq l NONE H2), (nolf_last l H3). reflexivity.
Qed.

Lemma print_lines_bytes ls : concat (map print_line ls) = lstream [CR; LF] ls.
Proof. reflexivity. Qed.

Theorem print_lineinput_roundtrip soft ls : forallb (line_ok soft) ls = true ->
  read_lines (length ls) (open_input soft (print_file ls)) = Ok (combine ls (eof_flags (length ls))).
Proof.
  intro Hok.
  assert (Hrd : Forall (fun l => line_rd l = true) ls).
  { apply Forall_forall. intros l Hin. rewrite forallb_forall in Hok. apply (line_ok_rd soft), Hok, Hin. }
  unfold print_file, open_output. rewrite print_session_bytes. cbn [app]. rewrite print_lines_bytes.
  unfold open_input, stream_of. destruct soft.
  - apply read_lines_stream; [left; reflexivity | exact Hrd | left; reflexivity | reflexivity].
  - assert (Hnolf : Forall (fun l => memZ LF l = false) ls).
    { apply Forall_forall. intros l Hin. rewrite forallb_forall in Hok. specialize (Hok l Hin).
      unfold line_ok in Hok. apply andb_true_iff in Hok as [_ Hok]. apply andb_true_iff in Hok as [_ Hok].
      apply negb_true_iff in Hok. exact Hok. }
    rewrite nlfilter_lstream by exact Hnolf.
    apply read_lines_stream; [right; reflexivity | exact Hrd | right; split; [reflexivity | exact Hnolf]
                             | reflexivity].
Qed.

(* ------------------------------------------------------------------ the fuel always suffices *)

Lemma read1_len r :
  (length (rest (snd (read1 r))) <= length (rest r))%nat /\
  (fst (read1 r) =? NONE = false -> (length (rest (snd (read1 r))) < length (rest r))%nat).
Proof.
  unfold read1. destruct (rest r) as [|b t] eqn:E.
  - cbn. split; [lia | discriminate].
  - destruct (b =? EOFB); cbn [fst snd rest]; rewrite ?E; cbn [length]; split; try lia; try discriminate.
Qed.

Lemma read_one_len r :
  (length (rest (snd (read_one r))) <= length (rest r))%nat /\
  (fst (read_one r) =? NONE = false -> (length (rest (snd (read_one r))) < length (rest r))%nat).
Proof.
  unfold read_one. pose proof (read1_len r) as [H1 H2].
  destruct (read1 r) as [c r1]. cbn [fst snd] in *.
  destruct (c =? NONE) eqn:Hc; cbn [fst snd].
  - split; [exact H1 | intro H; rewrite H in Hc; discriminate].
  - destruct ((c =? CR) && negb (prev r1 =? LF) && (peek1 r1 =? LF)); cbn [fst snd rest].
    + assert (Ht : (length (tl (rest r1)) <= length (rest r1))%nat) by (destruct (rest r1); cbn; lia).
      specialize (H2 eq_refl). split; [lia | intros _; lia].
    + split; [exact H1 | intros _; exact (H2 eq_refl)].
Qed.

Lemma skip_ws_loop_total : forall fuel ws r c, memZ EOFB ws = false ->
  (length (rest r) < fuel)%nat ->
  exists c' r', skip_ws_loop fuel ws r c = Ok (c', r') /\ (length (rest r') <= length (rest r))%nat.
Proof.
  induction fuel as [|f IH]; intros ws r c Hws Hf; [lia|].
  cbn [skip_ws_loop].
  destruct ((peek1 r =? NONE) || negb (memZ (peek1 r) ws)) eqn:Hstop.
  - exists c, r. split; [reflexivity | lia].
  - apply orb_false_iff in Hstop as [Hn Hm]. apply negb_false_iff in Hm.
    assert (Hne : peek1 r =? EOFB = false).
    { destruct (peek1 r =? EOFB) eqn:E; [|reflexivity]. apply Z.eqb_eq in E. rewrite E in Hm.
      rewrite Hm in Hws. discriminate. }
    assert (Hfst : fst (read_one r) =? NONE = false).
    { unfold read_one, read1, peek1 in *. destruct (rest r) as [|b t]; [discriminate Hn|].
      rewrite Hne. rewrite Hn. destruct (_ && _ && _); exact Hn. }
    pose proof (read_one_len r) as [_ Hlt]. specialize (Hlt Hfst).
    destruct (read_one r) as [c1 r1]. cbn [fst snd] in *.
    set (r2 := if (c1 =? LF) && (peek1 r1 =? CR) then snd (read_one r1) else r1).
    assert (Hr2 : (length (rest r2) <= length (rest r1))%nat).
    { subst r2. destruct ((c1 =? LF) && (peek1 r1 =? CR)); [apply read_one_len | lia]. }
    destruct (IH ws r2 c1 Hws) as (c' & r' & He & Hl); [lia|].
    exists c', r'. split; [exact He | lia].
Qed.

Lemma skip_ws_total ws r : memZ EOFB ws = false ->
  exists c' r', skip_ws ws r = Ok (c', r') /\ (length (rest r') <= length (rest r))%nat.
Proof. intro H. unfold skip_ws. apply skip_ws_loop_total; [exact H | lia]. Qed.

Definition some1 (c : Z) : nat := if c =? NONE then 0%nat else 1%nat.

Lemma entry_loop_total : forall fuel str quoted c r word blanks,
  (length (rest r) + some1 c < fuel)%nat ->
  exists w c' r', entry_loop fuel str quoted c r word blanks = Ok (w, c', r') /\
                  (length (rest r') <= length (rest r))%nat.
Proof.
  induction fuel as [|f IH]; intros str quoted c r word blanks Hf; [lia|].
  cbn [entry_loop]. unfold some1 in Hf.
  destruct (c =? NONE) eqn:Hc; [exists word, c, r; split; [reflexivity | lia]|].
  destruct ((negb str && memZ c tf_soft_sep) || (((c =? COMMA) || (c =? CR)) && negb quoted));
    [exists word, c, r; split; [reflexivity | lia]|].
  destruct ((c =? QUOTE) && quoted); [exists word, c, r; split; [reflexivity | lia]|].
  destruct ((c =? LF) && negb quoted).
  - pose proof (read_one_len r) as [Hle Hlt].
    destruct (read_one r) as [c1 r1]. cbn [fst snd] in *.
    destruct (c1 =? CR) eqn:Hcr.
    + assert (Hc1 : c1 =? NONE = false) by (apply Z.eqb_eq in Hcr; subst c1; reflexivity).
      specialize (Hlt Hc1). pose proof (read_one_len r1) as [Hle2 _].
      destruct (read_one r1) as [c2 r2]. cbn [fst snd] in *.
      destruct (IH str quoted c2 r2 word blanks) as (w & c' & r' & He & Hl).
      { unfold some1. destruct (c2 =? NONE); lia. }
      exists w, c', r'. split; [exact He | lia].
    + destruct (IH str quoted c1 r1 word blanks) as (w & c' & r' & He & Hl).
      { unfold some1. destruct (c1 =? NONE) eqn:Hc1; [lia | specialize (Hlt eq_refl); lia]. }
      exists w, c', r'. split; [exact He | lia].
  - destruct (if c =? NUL then (word, blanks)
              else if memZ c tf_INPUT_WHITESPACE && negb quoted
                   then (word, if str then blanks ++ [c] else blanks)
                   else (word ++ blanks ++ [c], [])) as [word' blanks'].
    destruct (255 <=? zlen word' + zlen blanks'); [exists word', c, r; split; [reflexivity | lia]|].
    assert (Hrd : (length (rest (snd (if quoted then read1 r else read_one r))) <= length (rest r))%nat /\
                  (fst (if quoted then read1 r else read_one r) =? NONE = false ->
                   (length (rest (snd (if quoted then read1 r else read_one r))) < length (rest r))%nat)).
    { destruct quoted; [apply read1_len | apply read_one_len]. }
    destruct Hrd as [Hle Hlt].
    destruct (if quoted then read1 r else read_one r) as [c1 r1]. cbn [fst snd] in *.
    destruct (IH str quoted c1 r1 word' blanks') as (w & c' & r' & He & Hl).
    { unfold some1. destruct (c1 =? NONE) eqn:Hc1; [lia | specialize (Hlt eq_refl); lia]. }
    exists w, c', r'. split; [exact He | lia].
Qed.

Theorem input_entry_total str r :
  (exists w c r', input_entry str r = Ok (w, c, r')) \/ input_entry str r = Err tf_err_INPUT_PAST_END.
Proof.
  unfold input_entry, entry_prefix.
  destruct (skip_ws_total tf_INPUT_WHITESPACE r eq_refl) as (lastc & r1 & Hs & _).
  rewrite Hs. cbn [bind].
  destruct (read_one r1) as [c0 r2].
  set (quoted := (c0 =? QUOTE) && str && negb (is_lf_or_nul lastc)).
  destruct (if quoted then read_one r2 else (c0, r2)) as [c r3]. cbn [bind].
  destruct ((c =? NONE) && negb (is_lf_or_nul lastc)); [right; reflexivity | left].
  destruct (entry_loop_total (S (S (length (rest r3)))) str quoted c r3 [] []) as (w & c' & r4 & He & _).
  { unfold some1. destruct (c =? NONE); lia. }
  rewrite He. cbn [bind].
  destruct ((negb (c' =? NONE) && memZ c' tf_INPUT_WHITESPACE) || (quoted && (c' =? QUOTE))); [|eauto].
  destruct (skip_ws_total [SPACE] r4 eq_refl) as (x & r5 & Hs5 & _).
  rewrite Hs5. cbn [bind].
  destruct ((peek1 r5 =? NONE) || (peek1 r5 =? COMMA) || (peek1 r5 =? CR)); [|eauto].
  destruct (read_one r5) as [c'' r6]. eauto.
Qed.

Lemma read_line_loop_total : forall fuel r acc, (length (rest r) < fuel)%nat ->
  exists l c r', read_line_loop fuel r acc = Ok (l, c, r').
Proof.
  induction fuel as [|f IH]; intros r acc Hf; [lia|].
  cbn [read_line_loop]. pose proof (read_one_len r) as [Hle Hlt].
  destruct (read_one r) as [c r1]. cbn [fst snd] in *.
  destruct (c =? NONE) eqn:Hc; cbn [orb]; [eauto|].
  destruct ((c =? CR) && negb (prev r1 =? LF)); [eauto|].
  destruct (zlen (acc ++ [c]) =? 255); [eauto|].
  apply IH. specialize (Hlt eq_refl). lia.
Qed.

Theorem line_input_total r :
  (exists l r', line_input r = Ok (l, r')) \/ line_input r = Err tf_err_INPUT_PAST_END.
Proof.
  unfold line_input, read_line.
  destruct (read_line_loop_total (S (length (rest r))) r []) as (l & c & r' & H); [lia|].
  rewrite H. destruct l; [|eauto]. destruct ((c =? NONE) || (c =? PYNONE)); eauto.
Qed.

(* ------------------------------------------------------------------ EOF before the first read *)

Lemma flat_stmts_nonempty stmts : stmts <> [] -> Forall (fun st => st <> []) stmts -> flat_stmts stmts <> [].
Proof.
  destruct stmts as [|st r]; [contradiction|]. intros _ H. inversion H as [|p q Hst Hr]; subst.
  unfold flat_stmts. cbn [map concat]. destruct st as [|x [|y t]]; [contradiction | discriminate | discriminate].
Qed.

Theorem eof_before_first soft stmts : forallb (stmt_ok soft) stmts = true -> stmts <> [] ->
  eof (open_input soft (write_file stmts)) = false.
Proof.
  intros Hok Hne.
  assert (Hnes : Forall (fun st => st <> []) stmts).
  { apply Forall_forall. intros st Hin. rewrite forallb_forall in Hok.
    apply (stmt_ok_ne soft). apply Hok. exact Hin. }
  pose proof (stmts_all_rd soft stmts Hok) as Hrd.
  pose proof (flat_stmts_nonempty stmts Hne Hnes) as Hfl.
  unfold write_file, open_output. rewrite write_session_bytes. cbn [app].
  rewrite stmts_stream by exact Hnes.
  unfold open_input, stream_of. destruct soft.
  - rewrite eof_stream by exact Hrd. destruct (flat_stmts stmts); [contradiction | reflexivity].
  - rewrite nlfilter_stream.
    + rewrite eof_stream by exact Hrd. destruct (flat_stmts stmts); [contradiction | reflexivity].
    + apply Forall_forall. intros [it e] Hin. cbn [fst].
      assert (Hin' : In it (concat stmts)).
      { rewrite <- map_fst_flat_stmts. change it with (fst (it, e)). apply in_map. exact Hin. }
      apply in_concat in Hin' as (st & Hst & Hit).
      rewrite forallb_forall in Hok. specialize (Hok st Hst). unfold stmt_ok in Hok.
      apply andb_true_iff in Hok as [_ Hok]. rewrite forallb_forall in Hok.
      apply item_ok_nolf. apply Hok. exact Hit.
Qed.

(* ------------------------------------------------------------------ the script interpreter does the same *)

Lemma exec_app soft a b s : exec soft (a ++ b) s = exec soft b (exec soft a s).
Proof. revert s. induction a as [|o a IH]; intro s; [reflexivity|]. cbn [app exec]. apply IH. Qed.

(* at WIDTH 255 (the default) the writer only appends *)
Lemma wwrite_255 w s b : wwidth w = 255 -> wwrite w s b = put_bytes w s.
Proof.
  intro H. unfold wwrite. destruct (first_width s) as [sw nl]. rewrite H.
  change (255 =? 255) with true. cbn [negb]. rewrite andb_false_r. reflexivity.
Qed.

Lemma wwrite_line_255 w s : wwidth w = 255 ->
  wbytes (wwrite_line w s) = wbytes w ++ s ++ [CR; LF] /\ wwidth (wwrite_line w s) = 255.
Proof. intro H. unfold wwrite_line. rewrite wwrite_255 by exact H. split; [reflexivity | exact H]. Qed.

Lemma exec_writes soft stmts d : forall w, wwidth w = 255 ->
  exists w', exec soft (map OpWrite stmts) (mkF d (HOut w)) = mkF d (HOut w') /\ wwidth w' = 255 /\
             wbytes w' = fold_left (fun f st => fwrite f (write_stmt st)) stmts (wbytes w).
Proof.
  induction stmts as [|st r IH]; intros w Hw; [exists w; auto|].
  cbn [map exec step hnd snd disk fold_left].
  destruct (wwrite_line_255 w (join_comma (map fmt_item st)) Hw) as [Hb Hw'].
  destruct (IH _ Hw') as (w' & He & Hw2 & Hb2).
  exists w'. split; [exact He|]. split; [exact Hw2|]. rewrite Hb2, Hb. reflexivity.
Qed.

Lemma pprint_single_255 w l : wwidth w = 255 ->
  wbytes (pprint w [PV l]) = wbytes w ++ print_line l /\ wwidth (pprint w [PV l]) = 255.
Proof.
  intro H. unfold pprint. cbn [pformat]. 
  assert (H1 : wwidth (wwrite w l true) = 255) by (rewrite wwrite_255 by exact H; exact H).
  destruct (wwrite_line_255 _ [] H1) as [Hb Hw]. split; [|exact Hw].
  rewrite Hb. rewrite wwrite_255 by exact H. cbn [put_bytes wbytes]. unfold print_line, line_bytes.
  rewrite <- app_assoc. reflexivity.
Qed.

Lemma exec_prints soft ls d : forall w, wwidth w = 255 ->
  exists w', exec soft (map OpPrint ls) (mkF d (HOut w)) = mkF d (HOut w') /\ wwidth w' = 255 /\
             wbytes w' = fold_left (fun f l => fwrite f (print_line l)) ls (wbytes w).
Proof.
  induction ls as [|l r IH]; intros w Hw; [exists w; auto|].
  cbn [map exec step hnd snd disk fold_left].
  destruct (pprint_single_255 w l Hw) as [Hb Hw'].
  destruct (IH _ Hw') as (w' & He & Hw2 & Hb2).
  exists w'. split; [exact He|]. split; [exact Hw2|]. rewrite Hb2, Hb. reflexivity.
Qed.

Theorem script_output_session soft stmts d :
  exec soft (OpOpenO :: map OpWrite stmts ++ [OpClose]) (mkF d HClosed) =
  mkF (Some (write_file stmts)) HClosed.
Proof.
  cbn [exec step hnd snd]. rewrite exec_app.
  destruct (exec_writes soft stmts (Some []) (open_w open_output) eq_refl) as (w' & He & _ & Hb).
  rewrite He. cbn [exec step hnd snd]. rewrite Hb. reflexivity.
Qed.

Theorem script_append_session soft stmts old :
  exec soft (OpOpenA :: map OpWrite stmts ++ [OpClose]) (mkF (Some old) HClosed) =
  mkF (Some (append_file old stmts)) HClosed.
Proof.
  cbn [exec step hnd snd disk]. rewrite exec_app.
  destruct (exec_writes soft stmts (Some (open_append old)) (open_w (open_append old)) eq_refl)
    as (w' & He & _ & Hb).
  rewrite He. cbn [exec step hnd snd]. rewrite Hb. reflexivity.
Qed.

Theorem script_print_session soft ls d :
  exec soft (OpOpenO :: map OpPrint ls ++ [OpClose]) (mkF d HClosed) =
  mkF (Some (print_file ls)) HClosed.
Proof.
  cbn [exec step hnd snd]. rewrite exec_app.
  destruct (exec_prints soft ls (Some []) (open_w open_output) eq_refl) as (w' & He & _ & Hb).
  rewrite He. cbn [exec step hnd snd]. rewrite Hb. reflexivity.
Qed.

Theorem script_open_input soft d :
  step soft OpOpenI (mkF (Some d) HClosed) = ([0], mkF (Some d) (HIn d (open_input soft d) false)).
Proof. reflexivity. Qed.

Theorem script_lof soft d w raw r att :
  fst (step soft OpLof (mkF d (HOut w))) = [0; zlen (wbytes w)] /\
  fst (step soft OpLof (mkF d (HIn raw r att))) = [0; zlen raw].
Proof. split; reflexivity. Qed.

(* ------------------------------------------------------------------ the boundary of the classes (witnesses) *)

Definition x255 : list Z := repeat 120 255.
Definition w_next : list Z := [110; 101; 120; 116].

(* K3: WRITE#1,STRING$(255,"x"),"next" : INPUT#1,A$,B$ gives B$ = "," (both newline modes) *)
Lemma k3_witness soft :
  read_items [true; true] (open_input soft (write_file [[IStr x255; IStr w_next]])) =
  Ok [(x255, false); ([COMMA], false)].
Proof. destruct soft; vm_compute; reflexivity. Qed.

(* K24a: PRINT#1,STRING$(255,"x") : PRINT#1,"next" : a spurious empty line is read in between *)
Lemma k24a_witness soft :
  read_lines 3 (open_input soft (print_file [x255; w_next])) =
  Ok [(x255, false); ([], false); (w_next, true)].
Proof. destruct soft; vm_compute; reflexivity. Qed.

(* each clause of str_ok / line_ok is needed *)
Lemma class_boundary_witnesses :
  (* a double quote ends the string *)
  read_items [true] (open_input true (write_file [[IStr [97; 34; 98]]])) = Ok [([97], false)] /\
  (* NUL is dropped *)
  read_items [true] (open_input true (write_file [[IStr [97; 0; 98]]])) = Ok [([97; 98], true)] /\
  (* 1A ends the file *)
  read_items [true] (open_input true (write_file [[IStr [97; 26; 98]]])) = Ok [([97], true)] /\
  (* default mode: LF comes back as CR *)
  read_items [true] (open_input false (write_file [[IStr [97; 10; 98]]])) = Ok [([97; 13; 98], true)] /\
  (* soft_linefeed mode: LF after a leading CR is lost, any other LF is kept *)
  read_items [true] (open_input true (write_file [[IStr [13; 10; 97]]])) = Ok [([13; 97], true)] /\
  read_items [true] (open_input true (write_file [[IStr [97; 13; 10; 10]]])) = Ok [([97; 13; 10; 10], true)] /\
  (* a line ending in LF swallows the line end (soft_linefeed mode) *)
  read_lines 1 (open_input true (print_file [[97; 10]; [98]])) = Ok [([97; 10; 13; 10; 98], true)] /\
  (* a CR splits a line *)
  read_lines 2 (open_input true (print_file [[97; 13; 98]])) = Ok [([97], false); ([98], true)].
Proof. vm_compute. repeat split; reflexivity. Qed.

(* ------------------------------------------------------------------ LOC: 128-byte blocks *)

Lemma loc_out_spec f : 128 * loc_out f <= zlen f < 128 * loc_out f + 128.
Proof. unfold loc_out. pose proof (Z.div_mod (zlen f) 128). pose proof (Z.mod_pos_bound (zlen f) 128). lia. Qed.

(* blocks n = number of 128-byte blocks needed for n bytes, at least 1 *)
Lemma blocks_spec n : 0 <= n ->
  1 <= blocks n /\ (n <= 128 -> blocks n = 1) /\ (128 < n -> 128 * (blocks n - 1) < n <= 128 * blocks n).
Proof.
  intro Hn. unfold blocks.
  pose proof (Z.div_mod (127 + n) 128). pose proof (Z.mod_pos_bound (127 + n) 128). lia.
Qed.

Lemma loc_in_soft raw r att : loc_in true raw r att = blocks (zlen raw - zlen (rest r)).
Proof. reflexivity. Qed.

(* raw_skip finds the raw prefix that the NewlineWrapper turns into the first k bytes *)
Lemma raw_skip_spec : forall raw lst k pos, 0 <= k ->
  exists p lst', raw_skip raw lst k pos = (pos + Z.of_nat p, lst', skipn p raw) /\
    (p <= length raw)%nat /\
    nlfilter lst (firstn p raw) = firstn (Z.to_nat k) (nlfilter lst raw).
Proof.
  induction raw as [|b r IH]; intros lst k pos Hk.
  - exists 0%nat, lst. cbn. rewrite Z.add_0_r. repeat split; [lia | destruct (Z.to_nat k); reflexivity].
  - cbn [raw_skip]. destruct (k <=? 0) eqn:Hk0.
    + apply Z.leb_le in Hk0. assert (k = 0) by lia. subst k.
      exists 0%nat, lst. cbn [skipn firstn nlfilter Z.of_nat Z.to_nat]. rewrite Z.add_0_r.
      repeat split. cbn. lia.
    + apply Z.leb_gt in Hk0. destruct ((lst =? CR) && (b =? LF)) eqn:Hab.
      * destruct (IH b k (pos + 1) Hk) as (p & lst' & He & Hp & Hf).
        exists (S p), lst'. rewrite He. cbn [skipn firstn length nlfilter]. rewrite Hab.
        repeat split; [f_equal; f_equal; lia | lia | exact Hf].
      * destruct (IH b (k - 1) (pos + 1)) as (p & lst' & He & Hp & Hf); [lia|].
        exists (S p), lst'. rewrite He. cbn [skipn firstn length nlfilter]. rewrite Hab.
        repeat split; [f_equal; f_equal; lia | lia |].
        rewrite Hf. replace (Z.to_nat k) with (S (Z.to_nat (k - 1))) by lia. reflexivity.
Qed.

(* LOC on an input file behind the NewlineWrapper: the blocks of the raw prefix consumed so far, where one
   absorbed LF may already be counted *)
Theorem loc_in_default raw r att : zlen (rest r) <= zlen (nlfilter NONE raw) ->
  exists p, (p <= length raw)%nat /\
    nlfilter NONE (firstn p raw) =
      firstn (Z.to_nat (zlen (nlfilter NONE raw) - zlen (rest r))) (nlfilter NONE raw) /\
    (loc_in false raw r att = blocks (Z.of_nat p) \/ loc_in false raw r att = blocks (Z.of_nat p + 1)).
Proof.
  intro Hle. unfold loc_in, stream_of.
  destruct (raw_skip_spec raw NONE (zlen (nlfilter NONE raw) - zlen (rest r)) 0) as (p & lst' & He & Hp & Hf);
    [lia|].
  exists p. split; [exact Hp|]. split; [exact Hf|]. rewrite He. rewrite Z.add_0_l.
  destruct (skipn p raw) as [|b rr]; [left; rewrite Z.add_0_r; reflexivity|].
  destruct (att && (lst' =? CR) && (b =? LF)); [right | left; rewrite Z.add_0_r]; reflexivity.
Qed.

(* ------------------------------------------------------------------ INPUT$ *)

Lemma cut_eof_noeof l : memZ EOFB l = false -> cut_eof l = l.
Proof.
  induction l as [|b t IH]; [reflexivity|]. cbn [memZ cut_eof]. intro H.
  apply orb_false_iff in H as [Hb Ht]. rewrite Z.eqb_sym in Hb. rewrite Hb, (IH Ht). reflexivity.
Qed.

Lemma cut_eof_short l : memZ EOFB l = true -> (length (cut_eof l) < length l)%nat.
Proof.
  induction l as [|b t IH]; [discriminate|]. cbn [memZ cut_eof length]. intro H.
  destruct (b =? EOFB) eqn:Hb; [cbn; lia|].
  rewrite Z.eqb_sym in H. rewrite Hb in H. cbn [orb] in H. specialize (IH H). cbn [length]. lia.
Qed.

Lemma cut_eof_le l : (length (cut_eof l) <= length l)%nat.
Proof. induction l as [|b t IH]; [cbn; lia|]. cbn [cut_eof]. destruct (b =? EOFB); cbn [length]; lia. Qed.

(* INPUT$(n,#f) returns exactly the next n bytes, whatever they are, when no 1A is among them ... *)
Theorem input_str_ok n r : (n <= length (rest r))%nat -> memZ EOFB (firstn n (rest r)) = false ->
  fst (input_str n r) = Ok (firstn n (rest r)) /\ rest (snd (input_str n r)) = skipn n (rest r).
Proof.
  intros Hn He. unfold input_str, read_n. rewrite (cut_eof_noeof _ He).
  rewrite firstn_length_le by exact Hn. rewrite Nat.ltb_irrefl. split; reflexivity.
Qed.

(* ... and Input past end when fewer than n bytes precede the 1A or the end of the file *)
Theorem input_str_past_end n r :
  (length (rest r) < n)%nat \/ memZ EOFB (firstn n (rest r)) = true ->
  fst (input_str n r) = Err tf_err_INPUT_PAST_END.
Proof.
  intro H. unfold input_str, read_n.
  assert (Hlt : (length (cut_eof (firstn n (rest r))) < n)%nat).
  { destruct H as [H | H].
    - pose proof (cut_eof_le (firstn n (rest r))) as Hc. rewrite firstn_length in Hc. lia.
    - pose proof (cut_eof_short _ H) as Hc. pose proof (firstn_le_length n (rest r)) as Hf.
      rewrite firstn_length in Hc. lia. }
  apply Nat.ltb_lt in Hlt. rewrite Hlt. reflexivity.
Qed.

(* ------------------------------------------------------------------ PRINT# with several expressions *)

(* the text a PRINT# statement produces at WIDTH 255, starting in column col *)
Definition zone_pad (col : Z) : list Z := repeat SPACE (Z.to_nat (1 + 14 * ((col - 1) / 14 + 1) - col)).
Fixpoint ptext (col : Z) (es : list pelem) : list Z :=
  match es with
  | [] => []
  | PV s :: r => s ++ ptext (fold_left col_step s col) r
  | PSemi :: r => ptext col r
  | PComma :: r => zone_pad col ++ ptext (fold_left col_step (zone_pad col) col) r
  end.
(* is the statement followed by a line break: its last element is a value (or there is none) *)
Fixpoint pnl (es : list pelem) (nl : bool) : bool :=
  match es with [] => nl | PV _ :: r => pnl r true | _ :: r => pnl r false end.

Lemma pformat_255 : forall es w nl, wwidth w = 255 ->
  wbytes (pformat w es nl) = wbytes w ++ ptext (wcol w) es ++ (if pnl es nl then [CR; LF] else []) /\
  wwidth (pformat w es nl) = 255 /\ (pnl es nl = true -> wcol (pformat w es nl) = 1).
Proof.
  induction es as [|e r IH]; intros w nl Hw.
  - cbn [pformat ptext pnl app]. destruct nl.
    + unfold wwrite_line. rewrite wwrite_255 by exact Hw. cbn [put_bytes wbytes wwidth wcol app].
      split; [reflexivity|]. split; [exact Hw|]. intros _. reflexivity.
    + rewrite app_nil_r. split; [reflexivity|]. split; [exact Hw | discriminate].
  - destruct e as [s | |]; cbn [pformat ptext pnl].
    + rewrite wwrite_255 by exact Hw.
      destruct (IH (put_bytes w s) true Hw) as (Hb & Hw' & Hc).
      cbn [put_bytes wbytes wcol] in Hb. rewrite Hb. rewrite <- !app_assoc. auto.
    + apply IH. exact Hw.
    + assert (Hpc : print_comma w = put_bytes w (zone_pad (wcol w))).
      { unfold print_comma. rewrite Hw. change (255 =? 255) with true. cbn [negb]. rewrite andb_false_r.
        rewrite wwrite_255 by exact Hw. reflexivity. }
      rewrite Hpc. destruct (IH (put_bytes w (zone_pad (wcol w))) false Hw) as (Hb & Hw' & Hc).
      cbn [put_bytes wbytes wcol] in Hb. rewrite Hb. rewrite <- !app_assoc. auto.
Qed.

(* a session of PRINT# statements that all end in a value, at WIDTH 255: the file is the file of the lines
   ptext 1 es, so LINE INPUT# reads exactly those lines back whenever they are in the class *)
Definition pprint_session (stmts : list (list pelem)) : list Z :=
  close_out (wbytes (fold_left pprint stmts (open_w open_output))).

Lemma fold_pprint : forall stmts w, wwidth w = 255 -> wcol w = 1 ->
  Forall (fun es => pnl es true = true) stmts ->
  wbytes (fold_left pprint stmts w) = wbytes w ++ concat (map (fun es => print_line (ptext 1 es)) stmts).
Proof.
  induction stmts as [|es r IH]; intros w Hw Hc Hall.
  - cbn. rewrite app_nil_r. reflexivity.
  - inversion Hall as [|x y Hes Hr]; subst. cbn [fold_left map concat].
    destruct (pformat_255 es w true Hw) as (Hb & Hw' & Hc'). fold (pprint w es) in Hb, Hw', Hc'.
    rewrite IH; [| exact Hw' | exact (Hc' Hes) | exact Hr].
    rewrite Hb, Hes, Hc. unfold print_line, line_bytes. cbn [app]. rewrite <- !app_assoc. reflexivity.
Qed.

Theorem pprint_session_lines stmts : Forall (fun es => pnl es true = true) stmts ->
  pprint_session stmts = print_file (map (ptext 1) stmts).
Proof.
  intro H. unfold pprint_session. rewrite fold_pprint by (try reflexivity; exact H).
  unfold print_file, open_output. rewrite print_session_bytes. cbn [open_w wbytes app].
  unfold close_out. rewrite map_map. reflexivity.
Qed.

Theorem pprint_lineinput_roundtrip soft stmts : Forall (fun es => pnl es true = true) stmts ->
  forallb (line_ok soft) (map (ptext 1) stmts) = true ->
  read_lines (length stmts) (open_input soft (pprint_session stmts)) =
  Ok (combine (map (ptext 1) stmts) (eof_flags (length stmts))).
Proof.
  intros H Hok. rewrite pprint_session_lines by exact H.
  rewrite <- (map_length (ptext 1) stmts). apply print_lineinput_roundtrip. exact Hok.
Qed.

(* WIDTH#: a value is never split; at most one line break is put in front of it *)
Theorem wwrite_no_split w s b :
  wbytes (wwrite w s b) = wbytes w ++ s \/ wbytes (wwrite w s b) = wbytes w ++ [CR; LF] ++ s.
Proof.
  unfold wwrite. destruct (first_width s) as [sw nl].
  destruct (b && negb (wwidth w =? 255) && negb (wcol w =? 1) && (wwidth w <? wcol w - 1 + sw) && negb nl).
  - right. cbn [put_bytes wbytes]. rewrite <- app_assoc. reflexivity.
  - left. reflexivity.
Qed.

(* ... and the break is only made when the value would not fit: col-1 + printable width > WIDTH *)
Theorem wwrite_break_only_if_needed w s b :
  wbytes (wwrite w s b) <> wbytes w ++ s ->
  b = true /\ wwidth w <> 255 /\ wcol w <> 1 /\ wwidth w < wcol w - 1 + fst (first_width s).
Proof.
  unfold wwrite. destruct (first_width s) as [sw nl]. cbn [fst].
  destruct (b && negb (wwidth w =? 255) && negb (wcol w =? 1) && (wwidth w <? wcol w - 1 + sw) && negb nl) eqn:E.
  - intros _. repeat (apply andb_true_iff in E; destruct E as [E ?]).
    repeat match goal with H : negb _ = true |- _ => apply negb_true_iff in H end.
    repeat split; try assumption; try (apply Z.eqb_neq; assumption). apply Z.ltb_lt. assumption.
  - intro H. exfalso. apply H. reflexivity.
Qed.

(* ------------------------------------------------------------------ line_ok is exact (necessity by sweep) *)

Fixpoint all_lists (alpha : list Z) (n : nat) : list (list Z) :=
  match n with
  | O => [[]]
  | S m => [] :: flat_map (fun l => map (fun a => a :: l) alpha) (all_lists alpha m)
  end.

Fixpoint lines_eqb (a b : list (list Z * bool)) : bool :=
  match a, b with
  | [], [] => true
  | (x, e) :: a', (y, f) :: b' => PCB.lib.Harness.list_Z_eqb x y && Bool.eqb e f && lines_eqb a' b'
  | _, _ => false
  end.
(* do these lines come back (with the right EOF flags)? *)
Definition lines_roundtrip (soft : bool) (ls : list (list Z)) : bool :=
  match read_lines (length ls) (open_input soft (print_file ls)) with
  | Ok res => lines_eqb res (combine ls (eof_flags (length ls)))
  | _ => false
  end.

(* one representative per byte class: ordinary byte, CR, LF, 1A *)
Definition sweep_alpha : list Z := [97; CR; LF; EOFB].

Lemma line_ok_exact_sweep1 :
  forallb (fun l => Bool.eqb (lines_roundtrip true [l]) (line_ok true l)
                    && Bool.eqb (lines_roundtrip false [l]) (line_ok false l))
          (all_lists sweep_alpha 6) = true.
Proof. vm_compute. reflexivity. Qed.

Lemma line_ok_exact_sweep2 :
  forallb (fun l1 => forallb (fun l2 =>
     Bool.eqb (lines_roundtrip true [l1; l2]) (line_ok true l1 && line_ok true l2)
     && Bool.eqb (lines_roundtrip false [l1; l2]) (line_ok false l1 && line_ok false l2))
     (all_lists sweep_alpha 3)) (all_lists sweep_alpha 3) = true.
Proof. vm_compute. reflexivity. Qed.

Theorem line_ok_exact_upto6 soft l : In l (all_lists sweep_alpha 6) ->
  lines_roundtrip soft [l] = line_ok soft l.
Proof.
  intro Hin. pose proof line_ok_exact_sweep1 as H. rewrite forallb_forall in H. specialize (H l Hin).
  apply andb_true_iff in H as [H1 H2]. destruct soft; apply Bool.eqb_prop; assumption.
Qed.

Theorem line_ok_exact_pairs_upto3 soft l1 l2 :
  In l1 (all_lists sweep_alpha 3) -> In l2 (all_lists sweep_alpha 3) ->
  lines_roundtrip soft [l1; l2] = line_ok soft l1 && line_ok soft l2.
Proof.
  intros H1 H2. pose proof line_ok_exact_sweep2 as H. rewrite forallb_forall in H. specialize (H l1 H1).
  rewrite forallb_forall in H. specialize (H l2 H2).
  apply andb_true_iff in H as [Ha Hb]. destruct soft; apply Bool.eqb_prop; assumption.
Qed.

(* ------------------------------------------------------------------ a refused OPEN changes nothing *)
Theorem refused_open_unchanged soft o s : hnd s <> HClosed -> o = OpOpenO \/ o = OpOpenA \/ o = OpOpenI ->
  step soft o s = ([1; tf_err_FILE_ALREADY_OPEN], s).
Proof.
  intros Hh [Ho | [Ho | Ho]]; subst o; unfold step; destruct (hnd s); try reflexivity; contradiction.
Qed.

(* ------------------------------------------------------------------ a refused statement changes nothing
   every operation that ends in a BASIC error leaves the disk contents, the open file and its bytes as they
   were; only Input past end (62) moves the read position of the input file (onto the end) *)
Lemma input_entry_err k r e : input_entry k r = Err e -> e = tf_err_INPUT_PAST_END.
Proof.
  intro H. destruct (input_entry_total k r) as [(w & c & r' & Hok) | He].
  - rewrite H in Hok. discriminate Hok.
  - rewrite H in He. injection He as He. exact He.
Qed.
Lemma line_input_err r e : line_input r = Err e -> e = tf_err_INPUT_PAST_END.
Proof.
  intro H. destruct (line_input_total r) as [(l & r' & Hok) | He].
  - rewrite H in Hok. discriminate Hok.
  - rewrite H in He. injection He as He. exact He.
Qed.

Definition same_files (s s' : fstate) : Prop :=
  disk s' = disk s /\
  match hnd s, hnd s' with
  | HClosed, HClosed => True
  | HOut w, HOut w' => w' = w
  | HIn raw _ _, HIn raw' _ _ => raw' = raw
  | _, _ => False
  end.

Ltac ecn_fin Hh := split; [intros _; reflexivity | split; [reflexivity | rewrite ?Hh; cbn; first [exact I | reflexivity]]].

Theorem error_changes_nothing soft o s e : fst (step soft o s) = [1; e] ->
  (e <> tf_err_INPUT_PAST_END -> snd (step soft o s) = s) /\ same_files s (snd (step soft o s)).
Proof.
  unfold step, same_files. destruct o; destruct (hnd s) as [|w|raw r att] eqn:Hh; cbn [fst snd];
    try discriminate; try (intro H; ecn_fin Hh; fail).
  all: try (destruct (disk s) eqn:Hd; cbn [fst snd]; try discriminate; intro H; ecn_fin Hh; fail).
  all: try (destruct ((0 <=? n) && (n <=? 255)); cbn [fst snd]; try discriminate; intro H; ecn_fin Hh; fail).
  all: try (destruct ((Z.of_nat n <? 1) || (255 <? Z.of_nat n)); cbn [fst snd]; intro H; ecn_fin Hh; fail).
  - (* OPEN FOR INPUT, file not found *)
    destruct (disk s) eqn:Hd; cbn [fst snd hnd disk]; [discriminate|]. intro H.
    split; [intros _; reflexivity|]. split; [exact Hd|]. rewrite Hh. exact I.
  - (* INPUT# *)
    destruct kinds as [|k ks]; cbn [input_vars fst snd]; [discriminate|].
    destruct (input_entry k r) as [[[w c] r'] | e0 | x |] eqn:He; cbn [fst snd].
    + destruct (input_vars ks r' (negb ((zlen w =? 255) && (c =? CR)))) as [[o r''] a]. cbn [fst snd].
      discriminate.
    + intro H. injection H as H. subst e0. rewrite (input_entry_err _ _ _ He). cbn [hnd disk].
      split; [intro Hc; contradiction | auto].
    + discriminate.
    + discriminate.
  - (* LINE INPUT# *)
    destruct (line_input r) as [[l r'] | e0 | x |] eqn:He; cbn [fst snd]; try discriminate.
    intro H. injection H as H. subst e0. rewrite (line_input_err _ _ He). cbn [hnd disk].
    split; [intro Hc; contradiction | auto].
  - (* INPUT$ *)
    destruct ((Z.of_nat n <? 1) || (255 <? Z.of_nat n)); cbn [fst snd]; [intro H; ecn_fin Hh|].
    destruct (negb soft && (1 <? Z.of_nat n)); cbn [fst snd]; [discriminate|].
    unfold input_str. destruct (read_n n r) as [out r'].
    destruct (length out <? n)%nat; cbn [fst snd]; [|discriminate].
    intro H. injection H as H. subst e. cbn [hnd disk]. split; [intro Hc; contradiction | auto].
Qed.
