(* C17, tokeniser side: the tokeniser turns the text of a canonical item sequence back into its tokens. *)
From Coq Require Import ZArith List Bool Lia.
From PCB Require Import lib.Result lib.PyInt lib.Harness gen.Gen_tokens model.Tok model.Lister model.Lines
  proofs.Tok_tables proofs.Tok_words proofs.Tok_numbers proofs.Lines_tables proofs.Lines_lister.
Import ListNotations.
Open Scope Z_scope.

(* ---- readers on raw tails ---- *)
Lemma read_to_run stop w rest :
  forallb (fun c => negb (mem c stop)) w = true ->
  (match rest with [] => true | c :: _ => mem c stop end) = true ->
  read_to stop (w ++ rest) = (w, rest).
Proof.
  intros Hw Hr. induction w as [|c w IH].
  - cbn [app]. destruct rest as [|c r]; [reflexivity|]. cbn [read_to]. rewrite Hr. reflexivity.
  - cbn [forallb] in Hw. apply andb_true_iff in Hw as [H1 H2]. apply negb_true_iff in H1.
    cbn [app read_to]. rewrite H1, (IH H2). reflexivity.
Qed.

Lemma raw_not_eol c : raw_char c = true -> negb (mem c [13; 0]) = true.
Proof.
  intro H. destruct (raw_char_spec c H) as [R0 [R13 _]]. unfold mem. cbn [existsb]. rewrite R0, R13. reflexivity.
Qed.

Lemma str_not_stop c : str_char c = true -> negb (mem c [34; 0; 13]) = true.
Proof.
  unfold str_char. intro H. apply andb_true_iff in H as [H Hq]. apply negb_true_iff in Hq.
  destruct (raw_char_spec c H) as [R0 [R13 _]]. unfold mem. cbn [existsb]. rewrite R0, R13, Hq. reflexivity.
Qed.

Lemma data_tail_run w : forall instr fin rest,
  data_scan instr w = Some fin ->
  (match rest with [] => true | c :: _ => negb fin && (c =? 58) end) = true ->
  data_tail instr (w ++ rest) = (w, rest).
Proof.
  induction w as [|c w IH]; intros instr fin rest H Hr.
  - cbn [data_scan] in H. inversion H; subst fin. cbn [app].
    destruct rest as [|c r]; [destruct instr; reflexivity|].
    apply andb_true_iff in Hr as [Hi Hc]. apply negb_true_iff in Hi. subst instr.
    cbn [data_tail]. rewrite Hc. rewrite !orb_true_r. reflexivity.
  - cbn [data_scan] in H. cbn [app data_tail]. destruct instr.
    + destruct (c =? 34) eqn:Eq.
      * rewrite (IH _ _ _ H Hr). reflexivity.
      * destruct (raw_char c) eqn:Er; [|discriminate].
        destruct (raw_char_spec c Er) as [R0 [R13 _]]. rewrite R0, R13. cbn [orb].
        rewrite (IH _ _ _ H Hr). reflexivity.
    + destruct (c =? 34) eqn:Eq.
      * apply Z.eqb_eq in Eq. subst c. change ((34 =? 0) || (34 =? 13) || (34 =? 58)) with false. cbv iota.
        rewrite (IH _ _ _ H Hr). reflexivity.
      * destruct (plain_ascii c && negb (c =? 58)) eqn:Ep; [|discriminate].
        apply andb_true_iff in Ep as [Ep E58]. apply negb_true_iff in E58.
        apply plain_ascii_range in Ep as [Ep _].
        replace (c =? 0) with false by (symmetry; apply Z.eqb_neq; lia).
        replace (c =? 13) with false by (symmetry; apply Z.eqb_neq; lia).
        rewrite E58. cbn [orb]. rewrite (IH _ _ _ H Hr). reflexivity.
Qed.

(* ---- float texts ---- *)
Lemma ends_with_sigil_cons c x w : ends_with_sigil (c :: x :: w) = ends_with_sigil (x :: w).
Proof.
  unfold ends_with_sigil. cbn [rev]. destruct (rev w ++ [x]) eqn:E.
  - destruct (rev w); discriminate.
  - reflexivity.
Qed.

Lemma shape_run w : forall he hp last rw rc rest,
  shape he hp last w = true ->
  (match rw with [] => True | p :: _ => p = last end) ->
  (ends_with_sigil w = true /\
     read_dec he hp rw rc (w ++ rest) = dec_finish (rev w ++ rw) (rev w ++ rc) rest)
  \/ (ends_with_sigil w = false /\ exists he' hp',
     read_dec he hp rw rc (w ++ rest) = read_dec he' hp' (rev w ++ rw) (rev w ++ rc) rest).
Proof.
  induction w as [|c w IH]; intros he hp last rw rc rest H Hinv.
  - right. split; [reflexivity|]. exists he, hp. reflexivity.
  - cbn [shape] in H. cbn [app].
    assert (Hnext : forall he2 hp2 last2 rw2 rc2,
              shape he2 hp2 last2 w = true ->
              (match rw2 with [] => True | p :: _ => p = last2 end) ->
              read_dec he hp rw rc (c :: w ++ rest) = read_dec he2 hp2 rw2 rc2 (w ++ rest) ->
              rw2 = c :: rw -> rc2 = c :: rc -> w <> [] \/ negb ((c =? 33) || (c =? 35)) = true ->
              (ends_with_sigil (c :: w) = true /\
                 read_dec he hp rw rc (c :: w ++ rest) = dec_finish (rev (c :: w) ++ rw) (rev (c :: w) ++ rc) rest)
              \/ (ends_with_sigil (c :: w) = false /\ exists he' hp',
                 read_dec he hp rw rc (c :: w ++ rest)
                 = read_dec he' hp' (rev (c :: w) ++ rw) (rev (c :: w) ++ rc) rest)).
    { intros he2 hp2 last2 rw2 rc2 Hs Hi Hstep Erw Erc Hns. subst rw2 rc2.
      destruct (IH he2 hp2 last2 (c :: rw) (c :: rc) rest Hs Hi) as [[S1 S2]|[S1 [he' [hp' S2]]]].
      - left. split.
        + destruct w as [|x w']; [discriminate|]. rewrite ends_with_sigil_cons. exact S1.
        + rewrite Hstep, S2. cbn [rev]. rewrite <- !app_assoc. reflexivity.
      - right. split.
        + destruct w as [|x w'].
          * destruct Hns as [Hns|Hns]; [contradiction|]. unfold ends_with_sigil. cbn [rev app].
            apply negb_true_iff in Hns. exact Hns.
          * rewrite ends_with_sigil_cons. exact S1.
        + exists he', hp'. rewrite Hstep, S2. cbn [rev]. rewrite <- !app_assoc. reflexivity. }
    destruct (is_digit c) eqn:Ed.
    { (* digit *)
      apply (Hnext he hp c (c :: rw) (c :: rc)); try reflexivity; try assumption.
      - apply read_dec_digit. exact Ed.
      - right. apply is_digit_range in Ed. apply negb_true_iff. apply orb_false_iff. split; apply Z.eqb_neq; lia. }
    destruct ((c =? 46) && negb hp && negb he) eqn:Ep.
    { (* point *)
      apply andb_true_iff in Ep as [Ep Ehe]. apply andb_true_iff in Ep as [Ec Ehp].
      apply Z.eqb_eq in Ec. subst c. apply negb_true_iff in Ehp. apply negb_true_iff in Ehe. subst he hp.
      apply (Hnext false true 46 (46 :: rw) (46 :: rc)); try reflexivity; try assumption.
      right. reflexivity. }
    destruct (((c =? 69) || (c =? 68)) && negb he) eqn:Ee.
    { (* exponent letter, followed by a sign *)
      apply andb_true_iff in H as [Hs H]. apply andb_true_iff in Ee as [Ec Ehe]. apply negb_true_iff in Ehe. subst he.
      destruct w as [|sg w']; [discriminate|].
      assert (Hup : upper c = c).
      { apply orb_true_iff in Ec as [Ec|Ec]; apply Z.eqb_eq in Ec; subst c; reflexivity. }
      assert (Hsg : upper sg = sg /\ (upper sg =? 76) || (upper sg =? 81) = false).
      { apply orb_true_iff in Hs as [Hs|Hs]; apply Z.eqb_eq in Hs; subst sg; split; reflexivity. }
      apply (Hnext true hp c (c :: rw) (c :: rc)); try reflexivity; try assumption.
      - cbn [app read_dec]. rewrite Hup. rewrite Ep.
        rewrite Ec. cbn [andb negb]. destruct Hsg as [_ Hsg]. rewrite Hsg. rewrite andb_false_r. reflexivity.
      - left. discriminate. }
    destruct (((c =? 43) || (c =? 45)) && ((last =? 69) || (last =? 68))) eqn:Es.
    { (* sign after the exponent letter *)
      apply andb_true_iff in H as [Hd H]. apply andb_true_iff in Es as [Ec El].
      destruct w as [|d w']; [discriminate|].
      assert (Hup : upper c = c).
      { apply orb_true_iff in Ec as [Ec|Ec]; apply Z.eqb_eq in Ec; subst c; reflexivity. }
      apply (Hnext he hp c (c :: rw) (c :: rc)); try reflexivity; try assumption.
      - cbn [app read_dec]. rewrite Hup.
        assert (E46 : (c =? 46) = false)
          by (apply orb_true_iff in Ec as [Ec|Ec]; apply Z.eqb_eq in Ec; subst c; reflexivity).
        assert (E69 : (c =? 69) || (c =? 68) = false)
          by (apply orb_true_iff in Ec as [Ec|Ec]; apply Z.eqb_eq in Ec; subst c; reflexivity).
        assert (E45 : (c =? 45) || (c =? 43) = true)
          by (apply orb_true_iff in Ec as [Ec|Ec]; apply Z.eqb_eq in Ec; subst c; reflexivity).
        rewrite E46, E69, E45. cbn [andb].
        destruct rw as [|p rw']; [reflexivity|]. subst p. rewrite El. reflexivity.
      - left. discriminate. }
    destruct (((c =? 33) || (c =? 35)) && negb he) eqn:Eg; [|discriminate].
    { (* type sigil: last character *)
      destruct w as [|x w']; [|discriminate].
      apply andb_true_iff in Eg as [Ec Ehe]. apply negb_true_iff in Ehe. subst he.
      left. split.
      - unfold ends_with_sigil. cbn [rev app]. exact Ec.
      - cbn [app read_dec].
        assert (Hup : upper c = c)
          by (apply orb_true_iff in Ec as [Ec|Ec]; apply Z.eqb_eq in Ec; subst c; reflexivity).
        rewrite Hup.
        assert (E46 : (c =? 46) = false)
          by (apply orb_true_iff in Ec as [Ec|Ec]; apply Z.eqb_eq in Ec; subst c; reflexivity).
        assert (E69 : (c =? 69) || (c =? 68) = false)
          by (apply orb_true_iff in Ec as [Ec|Ec]; apply Z.eqb_eq in Ec; subst c; reflexivity).
        assert (E45 : (c =? 45) || (c =? 43) = false)
          by (apply orb_true_iff in Ec as [Ec|Ec]; apply Z.eqb_eq in Ec; subst c; reflexivity).
        assert (Edg : is_digit c || is_blank c || (c =? 28) || (c =? 29) || (c =? 31) = false)
          by (apply orb_true_iff in Ec as [Ec|Ec]; apply Z.eqb_eq in Ec; subst c; reflexivity).
        rewrite E46, E69, E45, Edg. cbn [andb]. rewrite Ec. cbn [negb andb]. reflexivity. }
Qed.

Lemma float_last_facts c : float_last c = true ->
  is_blank c = false /\ negb ((c =? 69) || (c =? 68)) = true.
Proof.
  unfold float_last. intro H.
  assert (R : 48 <= c <= 57 \/ c = 46 \/ c = 33 \/ c = 35).
  { apply orb_true_iff in H as [H|H]; [|apply Z.eqb_eq in H; lia].
    apply orb_true_iff in H as [H|H]; [|apply Z.eqb_eq in H; lia].
    apply orb_true_iff in H as [H|H]; [apply is_digit_range in H; lia|apply Z.eqb_eq in H; lia]. }
  split.
  - destruct (is_blank c) eqn:E; [|reflexivity]. apply is_blank_cases in E. lia.
  - apply negb_true_iff. apply orb_false_iff. split; apply Z.eqb_neq; lia.
Qed.

Lemma float_start_not_blank c : float_start c = true -> is_blank c = false.
Proof.
  unfold float_start. intro H. destruct (is_blank c) eqn:E; [|reflexivity]. apply is_blank_cases in E.
  apply orb_true_iff in H as [H|H]; [apply is_digit_range in H|apply Z.eqb_eq in H]; lia.
Qed.

Lemma read_dec_float txt rest :
  float_shape txt = true -> ends_with_sigil txt || follow_dec rest = true ->
  read_dec false false [] [] (txt ++ rest) = (txt, rest).
Proof.
  unfold float_shape. intros H Hf. repeat (apply andb_true_iff in H as [H ?]).
  destruct txt as [|c0 txt']; [discriminate|].
  assert (Hdrop : drop_blanks (c0 :: txt') = c0 :: txt').
  { cbn [drop_blanks]. rewrite float_start_not_blank by assumption. reflexivity. }
  destruct (rev (c0 :: txt')) as [|cl rt] eqn:Er; [discriminate|].
  match goal with X : float_last cl = true |- _ => destruct (float_last_facts cl X) as [Lb Le] end.
  destruct (shape_run (c0 :: txt') false false 0 [] [] rest H I) as [[S1 S2]|[S1 [he' [hp' S2]]]].
  - rewrite S2. rewrite !app_nil_r. unfold dec_finish. rewrite Er. cbn [count_blanks]. rewrite Lb.
    cbn [skipn firstn]. rewrite <- Er. rewrite rev_involutive. rewrite Hdrop. reflexivity.
  - rewrite S1 in Hf. cbn [orb] in Hf. rewrite S2. rewrite !app_nil_r.
    rewrite read_dec_follow.
    + rewrite rev_involutive. rewrite Hdrop. reflexivity.
    + exact Hf.
    + rewrite Er. cbn [head_not_exp]. exact Le.
    + rewrite Er. rewrite Lb. reflexivity.
Qed.

Lemma strip_blanks_id w : forallb (fun c => negb (is_blank c)) w = true -> strip_blanks w = w.
Proof.
  intro H. unfold strip_blanks.
  assert (D : forall l, forallb (fun c => negb (is_blank c)) l = true -> drop_blanks l = l).
  { intros l Hl. destruct l as [|c l']; [reflexivity|]. cbn [forallb] in Hl. apply andb_true_iff in Hl as [Hc _].
    apply negb_true_iff in Hc. cbn [drop_blanks]. rewrite Hc. reflexivity. }
  rewrite (D w H). rewrite D.
  - apply rev_involutive.
  - rewrite forallb_forall in *. intros x Hx. apply H. apply in_rev. exact Hx.
Qed.

Lemma filter_id (A : Type) (p : A -> bool) l : forallb p l = true -> filter p l = l.
Proof.
  induction l as [|c l IH]; cbn [forallb filter]; [reflexivity|]. intro H. apply andb_true_iff in H as [H1 H2].
  rewrite H1, (IH H2). reflexivity.
Qed.

Lemma octdigit_not_blank c : is_octdigit c = true -> is_blank c = false.
Proof.
  intro H. apply mem_In in H. unfold tk_OCTDIGITS in H. simpl in H.
  repeat (destruct H as [H|H]; [subst; reflexivity|]). contradiction.
Qed.

Lemma existsb_false (A : Type) (p : A -> bool) l : forallb (fun c => negb (p c)) l = true -> existsb p l = false.
Proof.
  induction l as [|c l IH]; cbn [forallb existsb]; [reflexivity|]. intro H. apply andb_true_iff in H as [H1 H2].
  apply negb_true_iff in H1. rewrite H1, (IH H2). reflexivity.
Qed.

(* ---- dispatch facts of the main loop by first character ---- *)
Definition not_structural (c : Z) : Prop :=
  (c =? 0) = false /\ (c =? 13) = false /\ is_blank c = false /\ (c =? 34) = false.

Lemma letter_facts c : is_letter c = true ->
  not_structural c /\ is_digit c = false /\ (c =? 46) = false /\ (c =? 38) = false
  /\ mem c tok_ascii_operators = false /\ (c =? 39) = false /\ (c =? 63) = false.
Proof.
  intro H. apply mem_In in H. unfold tk_LETTERS in H. simpl in H. unfold not_structural.
  repeat (destruct H as [H|H]; [subst; repeat split; reflexivity|]). contradiction.
Qed.

Lemma op_facts c : mem c tok_ascii_operators = true ->
  not_structural c /\ is_digit c = false /\ (c =? 46) = false /\ (c =? 38) = false.
Proof.
  intro H. apply mem_In in H. unfold tok_ascii_operators in H. simpl in H. unfold not_structural.
  repeat (destruct H as [H|H]; [subst; repeat split; reflexivity|]). contradiction.
Qed.

Lemma digit_facts c : is_digit c = true -> not_structural c /\ (c =? 38) = false.
Proof.
  intro H. apply mem_In in H. unfold tk_DIGITS in H. simpl in H. unfold not_structural.
  repeat (destruct H as [H|H]; [subst; repeat split; reflexivity|]). contradiction.
Qed.

Lemma consumed_app (w rest : list Z) : consumed (w ++ rest) rest = length w.
Proof. unfold consumed. rewrite app_length. lia. Qed.

Section TokSide.
Variable tkw kw : list (list Z * list Z).
Variable fl_tok : list Z -> res (list Z).
Variable fl_str : list Z -> res (list Z).
Hypothesis Htab : tables_ok tkw kw = true.

Notation TL := (tok_loop kw fl_tok).

Lemma TL_step aj an sot c r :
  TL aj an sot O (c :: r) =
  let l := c :: r in
  if (c =? 0) || (c =? 13) then Ok []
  else if is_blank c then rcons [c] (TL aj an sot O r)
  else if c =? 34 then
    let (s, r') := read_string l in rcons s (TL aj an sot (pred (consumed l r')) r)
  else if an && aj && (is_digit c || (c =? 46)) then
    let (o, r') := tokenise_jump l in rcons o (TL aj an sot (pred (consumed l r')) r)
  else if (c =? 38) || (an && negb aj && (is_digit c || (c =? 46))) then
    let (t, r') := tokenise_number fl_tok l in
    bind t (fun tb => rcons tb (TL aj an sot (pred (consumed l r')) r))
  else if mem c tok_ascii_operators then
    match assoc [c] kw with
    | Some t => rcons t (TL aj true sot O r)
    | None => Host host_KeyError
    end
  else if c =? 39 then
    let (t, r') := read_to [13; 0] r in
    rcons ([58] ++ tk_REM ++ tk_O_REM ++ t) (TL aj an sot (consumed r r') r)
  else if c =? 63 then rcons tk_PRINT (TL aj true sot O r)
  else if is_letter c then
    let '(o, word, r') := word_loop kw [] O l in
    if list_Z_eqb word tk_KW_REM || list_Z_eqb word tk_KW_O_REM then
      let (t, r'') := read_to [13; 0] r' in
      rcons (o ++ t) (TL aj an sot (pred (consumed l r'')) r)
    else if list_Z_eqb word tk_KW_DATA then
      let (t, r'') := data_tail false r' in
      rcons (o ++ t) (TL aj an sot (pred (consumed l r'')) r)
    else
      rcons o (TL (lmem word tok_linenum_words) (has_key word kw)
                  (sot || list_Z_eqb word tk_KW_SPC || list_Z_eqb word tk_KW_TAB)
                  (pred (consumed l r')) r)
  else
    let o := if (32 <=? c) && (c <=? 127) then c else 32 in
    if (c =? 44) || (c =? 35) || (c =? 59) || (c =? 40) || (c =? 91) then
      rcons [o] (TL aj true sot O r)
    else if c =? 41 then
      rcons [o] (TL (if sot then false else aj) true false O r)
    else rcons [o] (TL false false sot O r).
Proof. reflexivity. Qed.

Lemma TL_skip w : forall aj an sot rest, TL aj an sot (length w) (w ++ rest) = TL aj an sot O rest.
Proof.
  induction w as [|c w IH]; intros; [reflexivity|]. cbn [length app tok_loop]. apply IH.
Qed.

(* a reader consumed the text c :: w of l = (c :: w) ++ rest *)
Lemma TL_after aj an sot c w rest :
  TL aj an sot (pred (consumed ((c :: w) ++ rest) rest)) (w ++ rest) = TL aj an sot O rest.
Proof. rewrite consumed_app. cbn [length pred]. apply TL_skip. Qed.

Lemma rcons_app a b r : rcons a (rcons b r) = rcons (a ++ b) r.
Proof. destruct r; cbn [rcons]; try reflexivity. rewrite app_assoc. reflexivity. Qed.

(* ---- words ---- *)
Lemma TL_word aj an sot c w rest o word :
  is_letter c = true ->
  word_loop kw [] O ((c :: w) ++ rest) = (o, word, rest) ->
  list_Z_eqb word tk_KW_REM = false -> list_Z_eqb word tk_KW_O_REM = false ->
  list_Z_eqb word tk_KW_DATA = false ->
  TL aj an sot O ((c :: w) ++ rest) =
  rcons o (TL (lmem word tok_linenum_words) (has_key word kw)
              (sot || list_Z_eqb word tk_KW_SPC || list_Z_eqb word tk_KW_TAB) O rest).
Proof.
  intros Hc Hw H1 H2 H3.
  destruct (letter_facts c Hc) as [[F0 [F13 [Fb F34]]] [Fd [F46 [F38 [Fop [F39 F63]]]]]].
  change ((c :: w) ++ rest) with (c :: (w ++ rest)) at 1. rewrite TL_step. cbv zeta.
  rewrite F0, F13, Fb, F34, Fd, F46, F38, Fop, F39, F63, Hc. cbn [orb andb]. rewrite !andb_false_r. cbn [orb].
  change (c :: w ++ rest) with ((c :: w) ++ rest). rewrite Hw. rewrite H1, H2, H3. cbn [orb].
  rewrite TL_after. reflexivity.
Qed.

Lemma not_special_facts k : not_special_word k = true ->
  list_Z_eqb k tk_KW_REM = false /\ list_Z_eqb k tk_KW_O_REM = false /\ list_Z_eqb k tk_KW_DATA = false
  /\ list_Z_eqb k tk_KW_ELSE = false /\ list_Z_eqb k tk_KW_WHILE = false.
Proof.
  unfold not_special_word. intro H. repeat (apply andb_true_iff in H as [H ?]).
  repeat match goal with X : negb _ = true |- _ => apply negb_true_iff in X end. auto.
Qed.

Lemma kw_upper k : kw_word_ok kw k = true -> map upper k = k.
Proof.
  unfold kw_word_ok. intro H. repeat (apply andb_true_iff in H as [H ?]).
  apply list_Z_eqb_eq. assumption.
Qed.


Lemma TL_letter aj an sot c r : is_letter c = true ->
  TL aj an sot O (c :: r) =
  let '(o, word, r') := word_loop kw [] O (c :: r) in
  if list_Z_eqb word tk_KW_REM || list_Z_eqb word tk_KW_O_REM then
    let (t, r'') := read_to [13; 0] r' in
    rcons (o ++ t) (TL aj an sot (pred (consumed (c :: r) r'')) r)
  else if list_Z_eqb word tk_KW_DATA then
    let (t, r'') := data_tail false r' in
    rcons (o ++ t) (TL aj an sot (pred (consumed (c :: r) r'')) r)
  else
    rcons o (TL (lmem word tok_linenum_words) (has_key word kw)
                (sot || list_Z_eqb word tk_KW_SPC || list_Z_eqb word tk_KW_TAB)
                (pred (consumed (c :: r) r')) r).
Proof.
  intro Hc. destruct (letter_facts c Hc) as [[F0 [F13 [Fb F34]]] [Fd [F46 [F38 [Fop [F39 F63]]]]]].
  rewrite TL_step. cbv zeta.
  rewrite F0, F13, Fb, F34, Fd, F46, F38, Fop, F39, F63, Hc. cbn [orb andb]. rewrite !andb_false_r. reflexivity.
Qed.

Lemma TL_consume aj an sot c r pre rest :
  r = pre ++ rest -> TL aj an sot (pred (consumed (c :: r) rest)) r = TL aj an sot O rest.
Proof. intro H. subst r. change (c :: pre ++ rest) with ((c :: pre) ++ rest). apply TL_after. Qed.

Lemma TL_all aj an sot w : TL aj an sot (length w) w = Ok [].
Proof. rewrite <- (app_nil_r w) at 2. rewrite TL_skip. reflexivity. Qed.

(* number branch: allow_number, not allow_jumpnum *)
Lemma TL_num sot c w rest t :
  not_structural c -> (c =? 38) || (is_digit c || (c =? 46)) = true ->
  tokenise_number fl_tok ((c :: w) ++ rest) = (Ok t, rest) ->
  TL false true sot O ((c :: w) ++ rest) = rcons t (TL false true sot O rest).
Proof.
  intros [F0 [F13 [Fb F34]]] Hc Ht.
  change ((c :: w) ++ rest) with (c :: (w ++ rest)) at 1. rewrite TL_step. cbv zeta.
  rewrite F0, F13, Fb, F34. cbn [orb andb negb]. rewrite Hc.
  change (c :: w ++ rest) with ((c :: w) ++ rest). rewrite Ht. cbn [bind]. rewrite TL_after. reflexivity.
Qed.

Lemma nonempty_cons (w : list Z) : w <> [] -> exists c w', w = c :: w'.
Proof. destruct w as [|c w']; [contradiction|]. eauto. Qed.

Lemma tokenise_number_int v rest : 0 <= v <= 32767 -> follow_dec rest = true ->
  tokenise_number fl_tok (dec_str v ++ rest) = (Ok (int_token v), rest).
Proof.
  intros Hv Hf. destruct (dec16_spec v) as [H1 [H2 [H3 [H4 H5]]]]; [lia|].
  destruct (nonempty_cons _ H2) as [c [w E]].
  assert (Hc : is_digit c = true).
  { rewrite E in H1. unfold all_digits in H1. cbn [forallb] in H1. apply andb_true_iff in H1 as [Hc _]. exact Hc. }
  destruct (digit_facts c Hc) as [_ F38].
  unfold tokenise_number. rewrite E at 1. cbn [app]. rewrite F38.
  rewrite read_dec_int by assumption. rewrite H1, H3.
  replace (v <=? 32767) with true by (symmetry; apply Z.leb_le; lia).
  rewrite E at 1. reflexivity.
Qed.

Lemma tokenise_number_hex v rest : 0 <= v <= 65535 -> head_not is_hexdigit rest = true ->
  tokenise_number fl_tok (([38; 72] ++ hex_str v) ++ rest) = (Ok (tk_T_HEX ++ le16 v), rest).
Proof.
  intros Hv Hf. destruct (hex16_spec v) as [H1 [H2 H3]]; [lia|].
  unfold tokenise_number. cbn [app]. change (38 =? 38) with true. cbv iota.
  change (upper 72 =? 72) with true. cbv iota.
  rewrite span_app by assumption. rewrite H3.
  replace (v <=? 65535) with true by (symmetry; apply Z.leb_le; lia). reflexivity.
Qed.

Lemma tokenise_number_oct v rest : 0 <= v <= 65535 ->
  head_not (fun c => is_octdigit c || is_blank c) rest = true ->
  tokenise_number fl_tok (([38; 79] ++ oct_str v) ++ rest) = (Ok (tk_T_OCT ++ le16 v), rest).
Proof.
  intros Hv Hf. destruct (oct16_spec v) as [H1 [H2 H3]]; [lia|].
  unfold tokenise_number. cbn [app]. change (38 =? 38) with true. cbv iota.
  change (upper 79 =? 72) with false. change (upper 79 =? 79) with true. cbv iota.
  rewrite span_app; [|apply (forallb_impl _ is_octdigit); [intros x Hx; rewrite Hx; reflexivity|exact H1]|exact Hf].
  assert (Hnb : forallb (fun c => negb (is_blank c)) (oct_str v) = true).
  { apply (forallb_impl _ is_octdigit); [|exact H1]. intros x Hx. rewrite (octdigit_not_blank x Hx). reflexivity. }
  rewrite filter_id by exact Hnb. rewrite H3.
  replace (v <=? 65535) with true by (symmetry; apply Z.leb_le; lia). reflexivity.
Qed.

Lemma float_start_facts c : float_start c = true -> not_structural c /\ (c =? 38) = false.
Proof.
  unfold float_start. intro H. apply orb_true_iff in H as [H|H].
  - apply digit_facts. exact H.
  - apply Z.eqb_eq in H. subst c. unfold not_structural. repeat split; reflexivity.
Qed.

Lemma tokenise_number_float txt tok rest :
  float_shape txt = true -> ends_with_sigil txt || follow_dec rest = true -> fl_tok txt = Ok tok ->
  tokenise_number fl_tok (txt ++ rest) = (Ok tok, rest).
Proof.
  intros Hs Hf Ho. pose proof Hs as Hs'. unfold float_shape in Hs'.
  repeat (apply andb_true_iff in Hs' as [Hs' ?]).
  destruct txt as [|c w]; [discriminate|].
  match goal with X : float_start c = true |- _ => destruct (float_start_facts c X) as [_ F38] end.
  unfold tokenise_number. cbn [app]. rewrite F38.
  change (c :: w ++ rest) with ((c :: w) ++ rest). rewrite read_dec_float by assumption.
  match goal with X : negb (all_digits (c :: w)) = true |- _ => apply negb_true_iff in X; rewrite X end.
  cbn [andb]. rewrite Ho. reflexivity.
Qed.

(* ---- one item ---- *)
Lemma item_tok s rout it rest :
  item_ok kw s rout it (toks kw rest) (text rest) = true ->
  item_oracle fl_tok fl_str it ->
  (item_last it = true -> rest = []) ->
  TL (st_aj s) (st_an s) (st_sot s) O (item_text it ++ text rest) =
  rcons (item_toks kw it)
        (TL (st_aj (item_state kw s it)) (st_an (item_state kw s it)) (st_sot (item_state kw s it)) O (text rest)).
Proof.
  intros Hok Hor Hlast. destruct s as [[aj an] sot].
  destruct it as [ |c|c|k|n|x|n|body closed| | |tail|tail|tail];
    cbn [item_toks item_text item_ok item_state st_aj st_an st_sot fst snd] in *.
  - (* ISpace *) reflexivity.
  - (* IPunct *)
    repeat (apply andb_true_iff in Hok as [Hok ?]).
    apply Z.ltb_lt in Hok.
    match goal with X : (c <? 127) = true |- _ => apply Z.ltb_lt in X end.
    repeat match goal with X : negb _ = true |- _ => apply negb_true_iff in X end.
    cbn [app]. rewrite TL_step. cbv zeta.
    replace (c =? 0) with false by (symmetry; apply Z.eqb_neq; lia).
    replace (c =? 13) with false by (symmetry; apply Z.eqb_neq; lia).
    assert (Fb : is_blank c = false).
    { destruct (is_blank c) eqn:E; [|reflexivity]. apply is_blank_cases in E. lia. }
    rewrite Fb. cbn [orb].
    match goal with X : (c =? 34) = false |- _ => rewrite X end.
    match goal with X : (c =? 38) = false |- _ => rewrite X end.
    match goal with X : (c =? 39) = false |- _ => rewrite X end.
    match goal with X : (c =? 63) = false |- _ => rewrite X end.
    match goal with X : mem c tok_ascii_operators = false |- _ => rewrite X end.
    match goal with X : is_letter c = false |- _ => rewrite X end.
    assert (Hd : an && aj && (is_digit c || (c =? 46)) = false /\
                 an && negb aj && (is_digit c || (c =? 46)) = false).
    { match goal with X : _ || negb an = true |- _ => apply orb_true_iff in X as [X|X];
        apply negb_true_iff in X; rewrite X end.
      - rewrite !andb_false_r. split; reflexivity.
      - split; reflexivity. }
    destruct Hd as [Hd1 Hd2]. rewrite Hd1, Hd2. cbn [orb].
    replace (32 <=? c) with true by (symmetry; apply Z.leb_le; lia).
    replace (c <=? 127) with true by (symmetry; apply Z.leb_le; lia). cbn [andb].
    unfold punct_state. cbn [st_aj st_an st_sot fst snd].
    destruct ((c =? 44) || (c =? 35) || (c =? 59) || (c =? 40) || (c =? 91)); [reflexivity|].
    destruct (c =? 41); reflexivity.
  - (* IOp *)
    destruct (tab_op tkw kw Htab c Hok) as [t [Ha _]].
    destruct (op_facts c Hok) as [[F0 [F13 [Fb F34]]] [Fd [F46 F38]]].
    unfold tok_of_kw. rewrite Ha. cbn [app]. rewrite TL_step. cbv zeta.
    rewrite F0, F13, Fb, F34, Fd, F46, F38, Hok, Ha. cbn [orb andb]. rewrite !andb_false_r. reflexivity.
  - (* IKw *)
    repeat (apply andb_true_iff in Hok as [Hok ?]).
    destruct (has_key_assoc _ _ Hok) as [t Ha]. unfold tok_of_kw in *. rewrite Ha in *.
    destruct k as [|c k']; [discriminate|].
    match goal with X : not_special_word _ = true |- _ => destruct (not_special_facts _ X) as [N1 [N2 [N3 [N4 N5]]]] end.
    pose proof (entry_word tkw kw Htab _ _ Ha ltac:(assumption)) as Hw.
    rewrite (TL_word aj an sot c k' (text rest) t (c :: k')); try assumption.
    + reflexivity.
    + rewrite (word_loop_keyword kw (c :: k') t (c :: k')); try assumption.
      * unfold emit_keyword. rewrite N4, N5. reflexivity.
      * apply kw_upper. exact Hw.
  - (* IName *)
    apply andb_true_iff in Hok as [Hok Hns]. apply andb_true_iff in Hok as [Hn Hf].
    destruct (not_special_facts _ Hns) as [N1 [N2 [N3 _]]].
    destruct n as [|c n'].
    { unfold name_ok in Hn. rewrite !andb_false_r in Hn. discriminate. }
    assert (Hc : is_letter c = true).
    { unfold name_ok in Hn. repeat (apply andb_true_iff in Hn as [Hn ?]). assumption. }
    rewrite (TL_word aj an sot c n' (text rest) (c :: n') (c :: n')); try assumption.
    + reflexivity.
    + apply word_loop_name; assumption.
  - (* INum *)
    apply andb_true_iff in Hok as [Hst Hok]. apply andb_true_iff in Hst as [Han Haj].
    apply negb_true_iff in Haj. subst an aj.
    destruct x as [v|v|v|lead trail txt]; cbn [num_ok num_toks num_text] in *.
    + repeat (apply andb_true_iff in Hok as [Hok ?]). apply Z.leb_le in Hok.
      match goal with X : (v <=? 32767) = true |- _ => apply Z.leb_le in X end.
      destruct (dec16_spec v) as [D1 [D2 _]]; [lia|].
      destruct (nonempty_cons _ D2) as [c [w E]].
      assert (Hc : is_digit c = true).
      { rewrite E in D1. unfold all_digits in D1. cbn [forallb] in D1. apply andb_true_iff in D1 as [Hc _]. exact Hc. }
      pose proof (tokenise_number_int v (text rest) ltac:(lia) ltac:(assumption)) as Ht.
      rewrite E in *. apply TL_num; [apply digit_facts; exact Hc|rewrite Hc; apply orb_true_r|exact Ht].
    + repeat (apply andb_true_iff in Hok as [Hok ?]). apply Z.leb_le in Hok.
      match goal with X : (v <=? 65535) = true |- _ => apply Z.leb_le in X end.
      pose proof (tokenise_number_hex v (text rest) ltac:(lia) ltac:(assumption)) as Ht.
      apply (TL_num sot 38 (72 :: hex_str v)); [unfold not_structural; repeat split; reflexivity|reflexivity|exact Ht].
    + repeat (apply andb_true_iff in Hok as [Hok ?]). apply Z.leb_le in Hok.
      match goal with X : (v <=? 65535) = true |- _ => apply Z.leb_le in X end.
      pose proof (tokenise_number_oct v (text rest) ltac:(lia) ltac:(assumption)) as Ht.
      apply (TL_num sot 38 (79 :: oct_str v)); [unfold not_structural; repeat split; reflexivity|reflexivity|exact Ht].
    + apply andb_true_iff in Hok as [Hok Hf]. apply andb_true_iff in Hok as [_ Hs].
      cbn [item_oracle] in Hor. destruct Hor as [_ Ho].
      pose proof (tokenise_number_float txt (lead :: trail) (text rest) Hs Hf Ho) as Ht.
      pose proof Hs as Hs'. unfold float_shape in Hs'. repeat (apply andb_true_iff in Hs' as [Hs' ?]).
      destruct txt as [|c w]; [discriminate|].
      match goal with X : float_start c = true |- _ =>
        destruct (float_start_facts c X) as [Fs _]; unfold float_start in X; rename X into Hfs end.
      apply TL_num; [exact Fs|rewrite Hfs; apply orb_true_r|exact Ht].
  - (* IJump *)
    repeat (apply andb_true_iff in Hok as [Hok ?]). subst an.
    match goal with X : aj = true |- _ => subst aj end.
    match goal with X : (0 <=? n) = true |- _ => apply Z.leb_le in X end.
    match goal with X : (n <=? 65529) = true |- _ => apply Z.leb_le in X end.
    destruct (dec16_spec n) as [D1 [D2 [D3 _]]]; [lia|].
    destruct (nonempty_cons _ D2) as [c [w E]].
    assert (Hc : is_digit c = true).
    { rewrite E in D1. unfold all_digits in D1. cbn [forallb] in D1. apply andb_true_iff in D1 as [Hc _]. exact Hc. }
    destruct (digit_facts c Hc) as [[F0 [F13 [Fb F34]]] _].
    pose proof (read_linenum_dec16 n (text rest) ltac:(lia) ltac:(assumption)) as Hr.
    rewrite E in *. cbn [app]. rewrite TL_step. cbv zeta. rewrite F0, F13, Fb, F34, Hc. cbn [orb andb].
    unfold tokenise_jump. change (c :: w ++ text rest) with ((c :: w) ++ text rest). rewrite Hr.
    rewrite D3. rewrite TL_after. reflexivity.
  - (* IStr *)
    cbn [app]. rewrite TL_step. cbv zeta.
    change ((34 =? 0) || (34 =? 13)) with false. change (is_blank 34) with false. change (34 =? 34) with true.
    cbv iota. unfold read_string. change (34 =? 34) with true. cbv iota.
    destruct closed.
    + rewrite <- app_assoc. cbn [app].
      rewrite read_to_run; [|apply (forallb_impl _ str_char); [apply str_not_stop|exact Hok]|reflexivity].
      change (34 =? 34) with true. cbv iota.
      rewrite (TL_consume aj an sot 34 _ (body ++ [34]) (text rest)); [reflexivity|].
      rewrite <- app_assoc. reflexivity.
    + cbn [item_last negb] in Hlast. rewrite (Hlast eq_refl). cbn [text flat_map]. rewrite !app_nil_r.
      rewrite <- (app_nil_r body) at 1.
      rewrite read_to_run; [|apply (forallb_impl _ str_char); [apply str_not_stop|exact Hok]|reflexivity].
      rewrite (TL_consume aj an sot 34 _ body []); [reflexivity|]. rewrite app_nil_r. reflexivity.
  - (* IElse *)
    apply andb_true_iff in Hok as [_ Hf].
    pose proof (entry_word tkw kw Htab _ _ (tab_else tkw kw Htab) eq_refl) as Hw.
    change (tk_KW_ELSE ++ text rest) with ((69 :: [76; 83; 69]) ++ text rest).
    rewrite (TL_word aj an sot 69 [76; 83; 69] (text rest) (58 :: tk_ELSE) tk_KW_ELSE); try reflexivity.
    apply (word_loop_keyword kw tk_KW_ELSE tk_ELSE tk_KW_ELSE);
      [exact Hw|exact (tab_else tkw kw Htab)|reflexivity|rewrite Hf; apply orb_true_r].
  - (* IWhile *)
    apply andb_true_iff in Hok as [_ Hf].
    pose proof (entry_word tkw kw Htab _ _ (tab_while tkw kw Htab) eq_refl) as Hw.
    change (tk_KW_WHILE ++ text rest) with ((87 :: [72; 73; 76; 69]) ++ text rest).
    rewrite (TL_word aj an sot 87 [72; 73; 76; 69] (text rest) (tk_WHILE ++ tk_O_PLUS) tk_KW_WHILE); try reflexivity.
    apply (word_loop_keyword kw tk_KW_WHILE tk_WHILE tk_KW_WHILE);
      [exact Hw|exact (tab_while tkw kw Htab)|reflexivity|rewrite Hf; apply orb_true_r].
  - (* IRem *)
    cbn [item_last] in Hlast. rewrite (Hlast eq_refl). cbn [text flat_map]. rewrite app_nil_r.
    apply andb_true_iff in Hok as [Hok Hhead]. apply andb_true_iff in Hok as [_ Hraw].
    pose proof (entry_word tkw kw Htab _ _ (tab_rem tkw kw Htab) eq_refl) as Hw.
    assert (Hf : lmem tk_KW_REM tok_no_longer_name || next_not_name tail = true).
    { apply orb_true_iff. right. destruct tail as [|c t']; [reflexivity|].
      apply andb_true_iff in Hhead as [Hh _]. exact Hh. }
    pose proof (word_loop_keyword kw tk_KW_REM tk_REM tk_KW_REM tail Hw (tab_rem tkw kw Htab) eq_refl Hf) as Hwl.
    change (tk_KW_REM ++ tail) with (82 :: ([69; 77] ++ tail)) at 1.
    rewrite TL_letter by reflexivity.
    change (82 :: [69; 77] ++ tail) with (tk_KW_REM ++ tail). rewrite Hwl.
    change (list_Z_eqb tk_KW_REM tk_KW_REM || list_Z_eqb tk_KW_REM tk_KW_O_REM) with true. cbv iota.
    rewrite <- (app_nil_r tail) at 1.
    rewrite read_to_run; [|apply (forallb_impl _ raw_char); [apply raw_not_eol|exact Hraw]|reflexivity].
    change (emit_keyword tk_KW_REM tk_REM) with tk_REM.
    change (tk_KW_REM ++ tail) with (82 :: ([69; 77] ++ tail)).
    rewrite (TL_consume aj an sot 82 _ ([69; 77] ++ tail) []); [reflexivity|]. rewrite app_nil_r. reflexivity.
  - (* IQuote *)
    cbn [item_last] in Hlast. rewrite (Hlast eq_refl). cbn [text flat_map]. rewrite app_nil_r.
    cbn [tk_KW_O_REM app]. rewrite TL_step. cbv zeta.
    change ((39 =? 0) || (39 =? 13)) with false. change (is_blank 39) with false. change (39 =? 34) with false.
    change (is_digit 39) with false. change (39 =? 46) with false. change (39 =? 38) with false.
    change (mem 39 tok_ascii_operators) with false. change (39 =? 39) with true.
    cbn [orb andb]. rewrite !andb_false_r. cbv iota.
    rewrite <- (app_nil_r tail) at 1.
    rewrite read_to_run; [|apply (forallb_impl _ raw_char); [apply raw_not_eol|exact Hok]|reflexivity].
    unfold consumed. cbn [length]. rewrite Nat.sub_0_r. rewrite TL_all. reflexivity.
  - (* IData *)
    repeat (apply andb_true_iff in Hok as [Hok ?]).
    pose proof (entry_word tkw kw Htab _ _ (tab_data tkw kw Htab) eq_refl) as Hw.
    assert (Hf : lmem tk_KW_DATA tok_no_longer_name || next_not_name (tail ++ text rest) = true).
    { apply orb_true_iff. right. assumption. }
    pose proof (word_loop_keyword kw tk_KW_DATA tk_DATA tk_KW_DATA (tail ++ text rest) Hw
                  (tab_data tkw kw Htab) eq_refl Hf) as Hwl.
    rewrite <- app_assoc.
    change (tk_KW_DATA ++ tail ++ text rest) with (68 :: ([65; 84; 65] ++ tail ++ text rest)) at 1.
    rewrite TL_letter by reflexivity.
    change (68 :: [65; 84; 65] ++ tail ++ text rest) with (tk_KW_DATA ++ tail ++ text rest). rewrite Hwl.
    change (list_Z_eqb tk_KW_DATA tk_KW_REM || list_Z_eqb tk_KW_DATA tk_KW_O_REM) with false.
    change (list_Z_eqb tk_KW_DATA tk_KW_DATA) with true. cbv iota.
    destruct (data_scan false tail) as [fin|] eqn:Ed; [|discriminate].
    rewrite (data_tail_run tail false fin (text rest) Ed).
    + change (emit_keyword tk_KW_DATA tk_DATA) with tk_DATA.
      change (tk_KW_DATA ++ tail ++ text rest) with (68 :: ([65; 84; 65] ++ tail ++ text rest)).
      rewrite (TL_consume aj an sot 68 _ ([65; 84; 65] ++ tail) (text rest)); [reflexivity|].
      rewrite <- app_assoc. reflexivity.
    + destruct (text rest) as [|c r] eqn:Et; [reflexivity|].
      destruct fin.
      * cbn [item_last] in Hlast. rewrite Ed in Hlast. rewrite (Hlast eq_refl) in Et. discriminate.
      * cbn [negb andb]. assumption.
Qed.

(* ---- the whole item sequence ---- *)
Theorem tok_lines : forall items s rout,
  Lines kw fl_tok fl_str s rout items ->
  TL (st_aj s) (st_an s) (st_sot s) O (text items) = Ok (toks kw items).
Proof.
  intros items s rout H. induction H as [s rout|s rout it rest Hok Hor Hlast HL IH].
  - reflexivity.
  - cbn [toks text flat_map]. fold (toks kw rest). fold (text rest).
    rewrite (item_tok s rout it rest Hok Hor Hlast). rewrite IH. reflexivity.
Qed.

End TokSide.
