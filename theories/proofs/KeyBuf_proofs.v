(* C37: the keyboard buffer refines a bounded FIFO of capacity 15 and is mirrored in the BIOS data area *)
From Coq Require Import ZArith List Bool Lia ZifyBool.
From PCB Require Import lib.Result lib.PyInt gen.Gen_keybuf model.KeyBuf.
Import ListNotations.
Open Scope Z_scope.
Ltac Zify.zify_post_hook ::= Z.to_euclidean_division_equations.

(* ------------------------------------------------------------------------------------------------ *)
(* lists *)

Lemma zlen_nonneg {A} (l : list A) : 0 <= zlen l.
Proof. unfold zlen. lia. Qed.

Lemma zlen_app {A} (l1 l2 : list A) : zlen (l1 ++ l2) = zlen l1 + zlen l2.
Proof. unfold zlen. rewrite app_length. lia. Qed.

Lemma zlen_cons {A} (x : A) l : zlen (x :: l) = 1 + zlen l.
Proof. unfold zlen. cbn [length]. lia. Qed.

Lemma zlen_map {A B} (f : A -> B) l : zlen (map f l) = zlen l.
Proof. unfold zlen. rewrite map_length. reflexivity. Qed.

Lemma zlen_zrange n : zlen (zrange n) = Z.max 0 n.
Proof. unfold zlen, zrange. rewrite map_length, seq_length. lia. Qed.

Lemma zlen_skipn {A} n (l : list A) : zlen (skipn n l) = zlen l - Z.min (Z.of_nat n) (zlen l).
Proof. unfold zlen. rewrite skipn_length. lia. Qed.

Lemma in_zrange n x : In x (zrange n) <-> 0 <= x < n.
Proof.
  unfold zrange. rewrite in_map_iff. split.
  - intros [k [Hk Hin]]. apply in_seq in Hin. lia.
  - intros H. exists (Z.to_nat x). split; [lia|]. apply in_seq. lia.
Qed.

Lemma nth_map_zrange {B} (f : Z -> B) n p d : 0 <= p < n ->
  nth (Z.to_nat p) (map f (zrange n)) d = f p.
Proof.
  intros H. unfold zrange. rewrite map_map.
  rewrite nth_indep with (d' := f (Z.of_nat 0)) by (rewrite map_length, seq_length; lia).
  rewrite (map_nth (fun k => f (Z.of_nat k)) (seq 0 (Z.to_nat n)) 0%nat).
  rewrite seq_nth by lia. f_equal. lia.
Qed.

Lemma skipn_map_seq {B} (g : nat -> B) k n s0 :
  skipn k (map g (seq s0 (k + n))) = map g (seq (s0 + k) n).
Proof.
  revert s0. induction k as [|k IH]; intros s0.
  - cbn [skipn Nat.add]. rewrite Nat.add_0_r. reflexivity.
  - cbn [Nat.add seq map skipn]. rewrite IH. f_equal. f_equal. lia.
Qed.

Lemma map_seq_shift {B} (g : nat -> B) k n s0 :
  map g (seq (s0 + k) n) = map (fun x => g (x + k)%nat) (seq s0 n).
Proof.
  revert s0. induction n as [|n IH]; intros s0; [reflexivity|].
  cbn [seq map]. f_equal. apply (IH (S s0)).
Qed.

Lemma skipn_map_zrange {B} (f : Z -> B) k n : 0 <= k -> 0 <= n ->
  skipn (Z.to_nat k) (map f (zrange (k + n))) = map (fun j => f (k + j)) (zrange n).
Proof.
  intros Hk Hn. unfold zrange. rewrite !map_map.
  replace (Z.to_nat (k + n)) with (Z.to_nat k + Z.to_nat n)%nat by lia.
  rewrite skipn_map_seq. rewrite map_seq_shift. apply map_ext. intros a. f_equal. lia.
Qed.

Lemma skipn_nth_cons {A} (l : list A) n d : (n < length l)%nat ->
  skipn n l = nth n l d :: skipn (S n) l.
Proof.
  revert n. induction l as [|x l IH]; intros n H; cbn [length] in H; [lia|].
  destruct n as [|n]; [reflexivity|]. cbn [skipn nth]. rewrite (IH n) by lia. reflexivity.
Qed.

Lemma nth_skipn_add {A} (l : list A) n j d : nth j (skipn n l) d = nth (n + j) l d.
Proof.
  revert n. induction l as [|x l IH]; intros n.
  - rewrite skipn_nil. destruct j, n; reflexivity.
  - destruct n as [|n]; [reflexivity|]. cbn [skipn Nat.add nth]. apply IH.
Qed.

Lemma set_nth_length {A} k (x : A) l : length (set_nth k x l) = length l.
Proof.
  revert k. induction l as [|y l IH]; intros k; [destruct k; reflexivity|].
  destruct k; cbn [set_nth length]; [reflexivity|]. rewrite IH. reflexivity.
Qed.

Lemma skipn_set_nth {A} k n (x : A) l : (k < n)%nat -> skipn n (set_nth k x l) = skipn n l.
Proof.
  revert k n. induction l as [|y l IH]; intros k n H.
  - destruct k; reflexivity.
  - destruct n as [|n]; [lia|]. destruct k as [|k]; cbn [set_nth skipn]; [reflexivity|].
    apply IH. lia.
Qed.

Lemma nth_set_nth_same {A} k (x : A) l d : (k < length l)%nat -> nth k (set_nth k x l) d = x.
Proof.
  revert k. induction l as [|y l IH]; intros k H; cbn [length] in H; [lia|].
  destruct k; cbn [set_nth nth]; [reflexivity|]. apply IH. lia.
Qed.

Lemma nth_set_nth_other {A} k j (x : A) l d : k <> j -> nth j (set_nth k x l) d = nth j l d.
Proof.
  revert k j. induction l as [|y l IH]; intros k j H.
  - destruct k; reflexivity.
  - destruct k, j; cbn [set_nth nth]; try reflexivity; try lia. apply IH. lia.
Qed.

Lemma mapM_ok {A B} (f : A -> res B) (g : A -> B) l :
  (forall x, In x l -> f x = Ok (g x)) -> mapM f l = Ok (map g l).
Proof.
  induction l as [|x l IH]; intros H; [reflexivity|].
  cbn [mapM map]. rewrite (H x) by (left; reflexivity). cbn [bind].
  rewrite IH by (intros y Hy; apply H; right; exact Hy). reflexivity.
Qed.

(* Python indexing inside the list *)
Lemma py_get_in {A} (l : list A) i d : 0 <= i < zlen l -> py_get l i = Ok (nth (Z.to_nat i) l d).
Proof.
  intros H. unfold py_get, py_index.
  destruct ((0 <=? i) && (i <? zlen l)) eqn:E; [|lia].
  destruct (nth_error l (Z.to_nat i)) eqn:En.
  - f_equal. symmetry. apply nth_error_nth. exact En.
  - apply nth_error_None in En. unfold zlen in H. lia.
Qed.

Lemma py_get_past {A} (l : list A) i : zlen l <= i -> py_get l i = Host host_IndexError.
Proof.
  intros H. pose proof (zlen_nonneg l) as Hn. unfold py_get, py_index.
  destruct ((0 <=? i) && (i <? zlen l)) eqn:E; [lia|].
  destruct ((i <? 0) && (- zlen l <=? i)) eqn:E2; [lia|]. reflexivity.
Qed.

Lemma py_set_in {A} (l : list A) i x : 0 <= i < zlen l -> py_set l i x = Ok (set_nth (Z.to_nat i) x l).
Proof.
  intros H. unfold py_set, py_index.
  destruct ((0 <=? i) && (i <? zlen l)) eqn:E; [reflexivity|lia].
Qed.

Lemma py_slice_to_all {A} (l : list A) n : zlen l <= n -> py_slice_to l n = l.
Proof.
  intros H. pose proof (zlen_nonneg l) as Hn. unfold py_slice_to.
  destruct (n <? 0) eqn:E; [lia|]. apply firstn_all2. unfold zlen in H. lia.
Qed.

Lemma zlen_py_slice_to {A} (l : list A) n : 0 <= n -> zlen (py_slice_to l n) = Z.min n (zlen l).
Proof.
  intros H. unfold py_slice_to. destruct (n <? 0) eqn:E; [lia|].
  unfold zlen. rewrite firstn_length. lia.
Qed.

Lemma skipn_firstn_waiting {A} (l : list A) k n : (k <= n)%nat ->
  skipn k (firstn n l) = firstn (n - k) (skipn k l).
Proof. intros H. rewrite skipn_firstn_comm. reflexivity. Qed.

(* ------------------------------------------------------------------------------------------------ *)
(* regenerated arithmetic *)

Lemma ring_length_16 : keybuf_ring_length = 16.
Proof. reflexivity. Qed.

(* _ring_index(i): the one position of the last 16 entries that is congruent to i *)
Lemma ring_index_range len st i : 16 <= len -> 0 <= i < 16 ->
  len - 16 <= keybuf_ring_index len st i < len /\ (keybuf_ring_index len st i) mod 16 = i.
Proof.
  intros Hl Hi. unfold keybuf_ring_index. rewrite ring_length_16.
  destruct (len mod 16 - i <=? 0) eqn:E; lia.
Qed.

Lemma ring_index_unique len st p : 16 <= len -> len - 16 <= p < len ->
  keybuf_ring_index len st (p mod 16) = p.
Proof.
  intros Hl Hp.
  pose proof (ring_index_range len st (p mod 16) Hl ltac:(lia)) as [Hr Hm].
  remember (keybuf_ring_index len st (p mod 16)) as q. lia.
Qed.

(* ------------------------------------------------------------------------------------------------ *)
(* invariants *)

(* start never drops below one ring length and never passes the end of the list *)
Definition inv (s : kb) : Prop := 16 <= start s <= buflen s.
(* at most 15 keystrokes wait: the state of a buffer fed by key events only *)
Definition ring_ok (s : kb) : Prop := inv s /\ buflen s - start s <= 15.

(* contents of ring slot i *)
Definition rr (s : kb) (i : Z) : key :=
  nth (Z.to_nat (keybuf_ring_index (buflen s) (start s) i)) (buf s) blank.

Lemma inv_init : ring_ok init.
Proof.
  unfold ring_ok, inv. change (buflen init) with 16. change (start init) with 16. lia.
Qed.

Lemma zlen_waiting s : inv s -> zlen (waiting s) = buflen s - start s.
Proof. unfold inv, waiting, buflen. intros H. rewrite zlen_skipn. lia. Qed.

Lemma ring_read_ok s i : inv s -> 0 <= i < 16 -> ring_read s i = Ok (rr s i).
Proof.
  intros H Hi. unfold ring_read, rr.
  pose proof (ring_index_range (buflen s) (start s) i ltac:(unfold inv in H; lia) Hi) as [Hr _].
  apply py_get_in. unfold buflen in *. unfold inv, buflen in H. lia.
Qed.

(* ------------------------------------------------------------------------------------------------ *)
(* FIFO refinement *)

Lemma getc_spec s : inv s ->
  match waiting s with
  | [] => getc s = ([], s)
  | k :: r => exists s', getc s = (fst k, s') /\ waiting s' = r /\ inv s'
                         /\ buf s' = buf s /\ start s' = start s + 1
  end.
Proof.
  intros H. pose proof (zlen_waiting s H) as Hw. unfold inv in H.
  unfold getc, keybuf_getc_index, keybuf_getc_next.
  destruct (Z.eq_dec (start s) (buflen s)) as [He|Hne].
  - assert (waiting s = []) as ->.
    { destruct (waiting s); [reflexivity|]. rewrite zlen_cons in Hw. pose proof (zlen_nonneg l). lia. }
    rewrite py_get_past by (unfold buflen in He; lia). reflexivity.
  - rewrite (py_get_in (buf s) (start s) blank) by (unfold buflen in *; lia).
    unfold waiting in *.
    rewrite (skipn_nth_cons (buf s) (Z.to_nat (start s)) blank) by (unfold buflen, zlen in *; lia).
    eexists. split; [reflexivity|]. cbn [buf start]. unfold inv, buflen. cbn [buf start].
    repeat split; try (unfold buflen in *; lia).
    f_equal. lia.
Qed.

Lemma append_spec cf c scan s : inv s ->
  exists s', append cf c scan s = Ok s' /\ inv s' /\ start s' = start s
    /\ waiting s' = (if zlen c =? 0 then waiting s
                     else if cf && (capacity <=? zlen (waiting s)) then waiting s
                     else waiting s ++ [(c, scan)]).
Proof.
  intros H. pose proof (zlen_waiting s H) as Hw. unfold inv in H. unfold append.
  destruct (zlen c =? 0) eqn:Ec; cbn [negb].
  - exists s. unfold inv. repeat split; lia.
  - assert (Happ : exists s', Ok {| buf := buf s ++ [(c, scan)]; start := start s |} = Ok s' /\ inv s'
                     /\ start s' = start s /\ waiting s' = waiting s ++ [(c, scan)]).
    { eexists. split; [reflexivity|]. unfold inv, buflen, waiting. cbn [buf start].
      rewrite zlen_app. unfold buflen in H. change (zlen [(c, scan)]) with 1.
      split; [lia|]. split; [reflexivity|].
      rewrite skipn_app. replace (Z.to_nat (start s) - length (buf s))%nat with 0%nat by (unfold zlen in H; lia).
      reflexivity. }
    unfold keybuf_append_full, keybuf_append_cr_index. rewrite ring_length_16. unfold capacity. rewrite Hw.
    destruct cf; cbn [andb]; [|exact Happ].
    destruct (buflen s - start s >=? 16 - 1) eqn:Ef.
    + replace (15 <=? buflen s - start s) with true by lia.
      rewrite py_set_in by (unfold buflen in *; lia). cbn [bind].
      eexists. split; [reflexivity|]. unfold inv, buflen, waiting. cbn [buf start].
      unfold zlen. rewrite set_nth_length. fold (zlen (buf s)). unfold buflen in H.
      split; [lia|]. split; [reflexivity|]. apply skipn_set_nth. lia.
    + replace (15 <=? buflen s - start s) with false by lia. exact Happ.
Qed.

Lemma impl_fop_refines o s : inv s ->
  exists s', impl_fop o s = Ok (fst (fifo_step o (waiting s)), s')
             /\ waiting s' = snd (fifo_step o (waiting s)) /\ inv s'.
Proof.
  intros H. destruct o as [c scan|c|]; cbn [impl_fop fifo_step].
  - destruct (append_spec true c scan s H) as [s' [Ha [Hi [_ Hw]]]]. rewrite Ha. cbn [bind andb] in *.
    exists s'. destruct (zlen c =? 0); [|destruct (capacity <=? zlen (waiting s))]; cbn [fst snd]; auto.
  - destruct (append_spec false c 0 s H) as [s' [Ha [Hi [_ Hw]]]]. rewrite Ha. cbn [bind andb] in *.
    exists s'. destruct (zlen c =? 0); cbn [fst snd]; auto.
  - pose proof (getc_spec s H) as Hg. destruct (waiting s) as [|k r] eqn:Ew.
    + rewrite Hg. exists s. cbn [fst snd]. auto.
    + destruct Hg as [s' [Hg [Hw [Hi _]]]]. rewrite Hg. exists s'. cbn [fst snd]. auto.
Qed.

Theorem fifo_refines : forall ops s, inv s ->
  exists sf, impl_run ops s = Ok (fst (fifo_run ops (waiting s)), sf)
             /\ waiting sf = snd (fifo_run ops (waiting s)) /\ inv sf.
Proof.
  induction ops as [|o r IH]; intros s H.
  - exists s. cbn. auto.
  - destruct (impl_fop_refines o s H) as [s1 [H1 [Hw1 Hi1]]].
    destruct (IH s1 Hi1) as [sf [Hr [Hwf Hif]]].
    exists sf. cbn [impl_run fifo_run]. rewrite H1. cbn [bind].
    rewrite Hr. cbn [bind]. rewrite Hw1 in *.
    destruct (fifo_step o (waiting s)) as [out q1]. cbn [fst snd] in *.
    destruct (fifo_run r q1) as [outs qf]. cbn [fst snd] in *. auto.
Qed.

(* properties of the specification itself *)
Lemma fifo_conservation : forall ops q,
  fifo_delivered ops q ++ snd (fifo_run ops q) = q ++ fifo_accepted ops q.
Proof.
  induction ops as [|o r IH]; intros q.
  - cbn. rewrite app_nil_r. reflexivity.
  - cbn [fifo_delivered fifo_run fifo_accepted].
    specialize (IH (snd (fifo_step o q))).
    destruct o as [c scan|c|]; cbn [fifo_step] in *.
    + destruct (zlen c =? 0) eqn:Ec; cbn [orb snd] in *.
      * destruct (fifo_run r q) as [outs qf]. cbn [snd] in *. destruct q; exact IH.
      * destruct (capacity <=? zlen q) eqn:Ef; cbn [snd] in *.
        -- destruct (fifo_run r q) as [outs qf]. cbn [snd] in *. destruct q; exact IH.
        -- destruct (fifo_run r (q ++ [(c, scan)])) as [outs qf]. cbn [snd] in *.
           rewrite <- app_assoc in IH. destruct q; exact IH.
    + destruct (zlen c =? 0) eqn:Ec; cbn [snd] in *.
      * destruct (fifo_run r q) as [outs qf]. cbn [snd] in *. destruct q; exact IH.
      * destruct (fifo_run r (q ++ [(c, 0)])) as [outs qf]. cbn [snd] in *.
        rewrite <- app_assoc in IH. destruct q; exact IH.
    + destruct q as [|k q']; cbn [snd] in *.
      * destruct (fifo_run r []) as [outs qf]. cbn [snd] in *. exact IH.
      * destruct (fifo_run r q') as [outs qf]. cbn [snd app] in *. f_equal. exact IH.
Qed.

Definition no_finject (o : fop) : bool := match o with FInject _ => false | _ => true end.

Lemma fifo_capacity : forall ops q, forallb no_finject ops = true -> zlen q <= capacity ->
  zlen (snd (fifo_run ops q)) <= capacity.
Proof.
  induction ops as [|o r IH]; intros q Hn Hq; [exact Hq|].
  cbn [forallb] in Hn. apply andb_true_iff in Hn as [Ho Hr].
  cbn [fifo_run]. specialize (IH (snd (fifo_step o q)) Hr).
  destruct (fifo_step o q) as [out q1] eqn:Es. cbn [snd] in IH.
  destruct (fifo_run r q1) as [outs qf]. cbn [snd] in *. apply IH.
  destruct o as [c scan|c|]; cbn [fifo_step] in Es; [| discriminate |].
  - destruct (zlen c =? 0); [inversion Es; subst; exact Hq|].
    destruct (capacity <=? zlen q) eqn:Ef; inversion Es; subst; [exact Hq|].
    rewrite zlen_app. cbn. unfold capacity in *. lia.
  - destruct q as [|k q']; inversion Es; subst; [exact Hq|]. rewrite zlen_cons in Hq. lia.
Qed.

(* every read returns the char of the key delivered, or b'' when nothing waits *)
Lemma fifo_outputs : forall ops q,
  fst (fifo_run ops q) =
  (fix outs (ops : list fop) (q : list key) : list (list Z) :=
     match ops with
     | [] => []
     | o :: r => let q1 := snd (fifo_step o q) in
                 match o with
                 | FRead => (match q with [] => [] | k :: _ => fst k end) :: outs r q1
                 | _ => outs r q1
                 end
     end) ops q.
Proof.
  induction ops as [|o r IH]; intros q; [reflexivity|].
  cbn [fifo_run]. specialize (IH (snd (fifo_step o q))).
  destruct o as [c scan|c|]; cbn [fifo_step] in *.
  - destruct (zlen c =? 0); [|destruct (capacity <=? zlen q)]; cbn [snd] in *;
      match goal with |- context [fifo_run r ?x] => destruct (fifo_run r x) end; cbn [fst] in *; exact IH.
  - destruct (zlen c =? 0); cbn [snd] in *;
      match goal with |- context [fifo_run r ?x] => destruct (fifo_run r x) end; cbn [fst] in *; exact IH.
  - destruct q as [|k q']; cbn [snd] in *;
      match goal with |- context [fifo_run r ?x] => destruct (fifo_run r x) end; cbn [fst] in *;
      rewrite IH; reflexivity.
Qed.

(* ------------------------------------------------------------------------------------------------ *)
(* the BIOS view *)

Lemma start_stop_spec s : inv s -> buflen s - start s <= 16 ->
  start_ s = start s mod 16 /\ stop_ s = buflen s mod 16.
Proof.
  unfold inv, start_, stop_, keybuf_start, keybuf_stop, keybuf_length. rewrite ring_length_16.
  intros H Hw. split; [reflexivity|].
  replace (Z.min 16 (buflen s - start s)) with (buflen s - start s) by lia. f_equal. lia.
Qed.

Lemma rr_waiting s j : inv s -> buflen s - start s <= 16 -> 0 <= j < buflen s - start s ->
  rr s ((start s + j) mod 16) = nth (Z.to_nat j) (waiting s) blank.
Proof.
  unfold inv. intros H Hw Hj. unfold rr. rewrite ring_index_unique by lia.
  unfold waiting. rewrite nth_skipn_add. f_equal. lia.
Qed.

Lemma list_as_map_nth {A} (l : list A) d : l = map (fun j => nth (Z.to_nat j) l d) (zrange (zlen l)).
Proof.
  apply (nth_ext _ _ d d).
  - rewrite map_length. unfold zrange. rewrite map_length, seq_length. unfold zlen. lia.
  - intros n Hn. rewrite <- (Nat2Z.id n) at 2.
    rewrite (nth_map_zrange (fun j => nth (Z.to_nat j) l d)) by (unfold zlen; lia).
    rewrite Nat2Z.id. reflexivity.
Qed.

Lemma in_slots_from a n i : In i (slots_from a n) -> 0 <= i < 16.
Proof.
  unfold slots_from. rewrite ring_length_16. intros H. apply in_map_iff in H as [j [Hj _]]. lia.
Qed.

Lemma waiting_slots s : inv s -> buflen s - start s <= 16 ->
  map (rr s) (slots_from (start s mod 16) (zlen (waiting s))) = waiting s.
Proof.
  intros H Hw. rewrite (list_as_map_nth (waiting s) blank) at 2.
  unfold slots_from. rewrite map_map. rewrite ring_length_16. apply map_ext_in.
  intros j Hj. apply in_zrange in Hj. rewrite Z.add_mod_idemp_l by lia.
  apply rr_waiting; auto. rewrite <- zlen_waiting by exact H. exact Hj.
Qed.

Lemma ring_read_slots s a n : inv s ->
  mapM (ring_read s) (slots_from a n) = Ok (map (rr s) (slots_from a n)).
Proof.
  intros H. apply mapM_ok. intros i Hi. apply ring_read_ok; [exact H|]. exact (in_slots_from a n i Hi).
Qed.

Lemma peek_pointers s : inv s -> buflen s - start s <= 16 ->
  peek_mem s 1050 = Ok (30 + 2 * (start s mod 16)) /\ peek_mem s 1051 = Ok 0 /\
  peek_mem s 1052 = Ok (30 + 2 * ((start s + zlen (waiting s)) mod 16)) /\ peek_mem s 1053 = Ok 0.
Proof.
  intros H Hw. destruct (start_stop_spec s H Hw) as [Hs Ht].
  rewrite (zlen_waiting s H). replace (start s + (buflen s - start s)) with (buflen s) by lia.
  unfold peek_mem. cbn [Z.eqb Pos.eqb]. rewrite Hs, Ht.
  unfold keybuf_peek_1050, keybuf_peek_1051, keybuf_peek_1052, keybuf_peek_1053, keybuf_offset.
  repeat split; f_equal; lia.
Qed.

Lemma peek_slot_char s i : inv s -> 0 <= i < 16 ->
  peek_mem s (1054 + 2 * i) = Ok (hd 0 (fst (rr s i))).
Proof.
  intros H Hi. unfold peek_mem.
  destruct (1054 + 2 * i =? 1050) eqn:E0; [lia|]. destruct (1054 + 2 * i =? 1051) eqn:E1; [lia|].
  destruct (1054 + 2 * i =? 1052) eqn:E2; [lia|]. destruct (1054 + 2 * i =? 1053) eqn:E3; [lia|].
  unfold keybuf_peek_slot_lo, keybuf_peek_slot_hi, keybuf_peek_slot_index, keybuf_peek_slot_odd, keybuf_offset.
  destruct ((1024 + 30 <=? 1054 + 2 * i) && (1054 + 2 * i <? 1024 + 30 + 32)) eqn:E4; [|lia].
  replace ((1054 + 2 * i - 1024 - 30) / 2) with i by lia.
  replace ((1054 + 2 * i - 1024 - 30) mod 2) with 0 by lia.
  rewrite ring_read_ok by assumption. cbn [bind]. change (z2b 0) with false. cbv iota.
  destruct (fst (rr s i)); reflexivity.
Qed.

Lemma peek_slot_scan s i : inv s -> 0 <= i < 16 ->
  peek_mem s (1055 + 2 * i) = Ok (snd (rr s i)).
Proof.
  intros H Hi. unfold peek_mem.
  destruct (1055 + 2 * i =? 1050) eqn:E0; [lia|]. destruct (1055 + 2 * i =? 1051) eqn:E1; [lia|].
  destruct (1055 + 2 * i =? 1052) eqn:E2; [lia|]. destruct (1055 + 2 * i =? 1053) eqn:E3; [lia|].
  unfold keybuf_peek_slot_lo, keybuf_peek_slot_hi, keybuf_peek_slot_index, keybuf_peek_slot_odd, keybuf_offset.
  destruct ((1024 + 30 <=? 1055 + 2 * i) && (1055 + 2 * i <? 1024 + 30 + 32)) eqn:E4; [|lia].
  replace ((1055 + 2 * i - 1024 - 30) / 2) with i by lia.
  replace ((1055 + 2 * i - 1024 - 30) mod 2) with 1 by lia.
  rewrite ring_read_ok by assumption. reflexivity.
Qed.

Lemma peek_mem_ok s a : inv s -> exists v, peek_mem s a = Ok v.
Proof.
  intros H. unfold peek_mem.
  destruct (a =? 1050); [eexists; reflexivity|]. destruct (a =? 1051); [eexists; reflexivity|].
  destruct (a =? 1052); [eexists; reflexivity|]. destruct (a =? 1053); [eexists; reflexivity|].
  unfold keybuf_peek_slot_lo, keybuf_peek_slot_hi, keybuf_peek_slot_index, keybuf_offset.
  destruct ((1024 + 30 <=? a) && (a <? 1024 + 30 + 32)) eqn:E; [|eexists; reflexivity].
  rewrite ring_read_ok by (try assumption; lia). cbn [bind].
  destruct (z2b (keybuf_peek_slot_odd a)); [eexists; reflexivity|].
  destruct (fst (rr s ((a - 1024 - 30) / 2))); eexists; reflexivity.
Qed.

(* ------------------------------------------------------------------------------------------------ *)
(* ring_set_boundaries *)

Definition moved (s : kb) (a n : Z) : kb :=
  {| buf := map (fun p => rr s (p mod 16)) (zrange (16 + a + n)); start := 16 + a |}.

Lemma set_boundaries_eq s a0 b0 : inv s -> buflen s - start s <= 16 ->
  set_boundaries a0 b0 s = Ok (moved s (a0 mod 16) ((b0 mod 16 - a0 mod 16) mod 16)).
Proof.
  intros H Hw. destruct s as [b st]. unfold inv, buflen in *. cbn [buf start] in *.
  unfold set_boundaries, keybuf_setb_norm, keybuf_setb_keep, keybuf_setb_ring_n, keybuf_setb_start,
    keybuf_setb_newlen, keybuf_setb_slot. rewrite ring_length_16. cbv beta iota zeta. cbn [buf start].
  unfold buflen. cbn [buf start].
  rewrite py_slice_to_all by lia.
  rewrite (mapM_ok _ (rr {| buf := b; start := st |})).
  2:{ intros i Hi. apply in_zrange in Hi. apply ring_read_ok; [unfold inv, buflen; cbn [buf start]; lia | lia]. }
  cbn [bind].
  rewrite (mapM_ok _ (fun p => rr {| buf := b; start := st |} (p mod 16))).
  2:{ intros p Hp. apply in_zrange in Hp.
      rewrite (py_get_in _ _ blank) by (rewrite zlen_map, zlen_zrange; lia).
      rewrite nth_map_zrange by lia. reflexivity. }
  cbn [bind]. unfold moved. reflexivity.
Qed.

Lemma moved_props s a n : inv s -> 0 <= a < 16 -> 0 <= n < 16 ->
  let s' := moved s a n in
  ring_ok s' /\ start s' mod 16 = a /\ zlen (waiting s') = n
  /\ (forall i, 0 <= i < 16 -> rr s' i = rr s i)
  /\ waiting s' = map (rr s) (slots_from a n).
Proof.
  intros H Ha Hn s'.
  assert (Hlen : buflen s' = 16 + a + n).
  { unfold s', moved, buflen. cbn [buf]. rewrite zlen_map, zlen_zrange. lia. }
  assert (Hst : start s' = 16 + a) by reflexivity.
  assert (Hi' : inv s') by (unfold inv; lia).
  split; [unfold ring_ok; split; [exact Hi'|lia]|].
  split; [rewrite Hst; lia|].
  split; [rewrite zlen_waiting by exact Hi'; lia|].
  split.
  - intros i Hi. unfold rr at 1. rewrite Hlen, Hst.
    pose proof (ring_index_range (16 + a + n) (16 + a) i ltac:(lia) Hi) as [Hr Hm].
    unfold s', moved. cbn [buf]. rewrite nth_map_zrange by lia. rewrite Hm. reflexivity.
  - unfold waiting. rewrite Hst. unfold s', moved. cbn [buf].
    rewrite (skipn_map_zrange (fun p => rr s (p mod 16)) (16 + a) n) by lia.
    unfold slots_from. rewrite map_map. rewrite ring_length_16. apply map_ext. intros j.
    f_equal. lia.
Qed.

(* states with an extended buffer (press_keys beyond the ring): only the first 16 waiting keys are kept *)
Definition trunc (s : kb) : kb := {| buf := py_slice_to (buf s) (start s + 16); start := start s |}.

Lemma trunc_inv s : inv s -> inv (trunc s) /\ buflen (trunc s) - start (trunc s) <= 16.
Proof.
  unfold inv, trunc, buflen. cbn [buf start]. intros H. rewrite zlen_py_slice_to by lia. lia.
Qed.

Lemma trunc_id s : inv s -> buflen s - start s <= 16 -> trunc s = s.
Proof.
  intros H Hw. destruct s as [b st]. unfold trunc, inv, buflen in *. cbn [buf start] in *.
  rewrite py_slice_to_all by lia. reflexivity.
Qed.

Lemma set_boundaries_trunc s a0 b0 : inv s -> set_boundaries a0 b0 s = set_boundaries a0 b0 (trunc s).
Proof.
  intros H. unfold set_boundaries, trunc, keybuf_setb_keep. rewrite ring_length_16. cbn [buf start].
  destruct (keybuf_setb_norm a0 b0) as [[a b] len].
  rewrite (py_slice_to_all (py_slice_to (buf s) (start s + 16))); [reflexivity|].
  unfold inv in H. rewrite zlen_py_slice_to by lia. lia.
Qed.

Lemma set_boundaries_general s a0 b0 : inv s ->
  set_boundaries a0 b0 s = Ok (moved (trunc s) (a0 mod 16) ((b0 mod 16 - a0 mod 16) mod 16)).
Proof.
  intros H. rewrite set_boundaries_trunc by exact H.
  destruct (trunc_inv s H) as [Hi Hw]. apply set_boundaries_eq; assumption.
Qed.

(* ------------------------------------------------------------------------------------------------ *)
(* pokes *)

Lemma poke_1050_eq s v : poke_mem 1050 v s = set_boundaries ((v - 30) / 2) (stop_ s) s.
Proof. reflexivity. Qed.

Lemma poke_1052_eq s v : poke_mem 1052 v s = set_boundaries (start_ s) ((v - 30) / 2) s.
Proof. reflexivity. Qed.

Lemma ring_write_spec s i k : inv s -> 0 <= i < 16 ->
  exists s', ring_write i k s = Ok s' /\ inv s' /\ start s' = start s /\ buflen s' = buflen s
    /\ rr s' i = k /\ (forall j, 0 <= j < 16 -> j <> i -> rr s' j = rr s j).
Proof.
  intros H Hi. unfold ring_write.
  pose proof (ring_index_range (buflen s) (start s) i ltac:(unfold inv in H; lia) Hi) as [Hr Hm].
  unfold inv in H. rewrite py_set_in by (unfold buflen in *; lia). cbn [bind].
  eexists. split; [reflexivity|].
  assert (Hl : buflen {| buf := set_nth (Z.to_nat (keybuf_ring_index (buflen s) (start s) i))
                                  k (buf s); start := start s |} = buflen s).
  { unfold buflen, zlen. cbn [buf]. rewrite set_nth_length. reflexivity. }
  unfold inv. rewrite Hl. cbn [start]. repeat split; try lia.
  - unfold rr. rewrite Hl. cbn [buf start]. apply nth_set_nth_same. unfold buflen, zlen in *. lia.
  - intros j Hj Hne. unfold rr. rewrite Hl. cbn [buf start]. apply nth_set_nth_other.
    pose proof (ring_index_range (buflen s) (start s) j ltac:(lia) Hj) as [Hrj Hmj].
    intros Heq. apply Hne. rewrite <- Hmj, <- Hm. f_equal. lia.
Qed.

Lemma poke_mem_inv a v s : inv s ->
  exists s', poke_mem a v s = Ok s' /\ inv s'
             /\ (buflen s' - start s' <= 15 \/ buflen s' - start s' = buflen s - start s).
Proof.
  intros H. unfold poke_mem.
  destruct (a =? 1050).
  { destruct (keybuf_poke_1050 (start_ s) (stop_ s) v) as [x y]. rewrite set_boundaries_general by exact H.
    eexists. split; [reflexivity|].
    destruct (moved_props (trunc s) (x mod 16) ((y mod 16 - x mod 16) mod 16)
                (proj1 (trunc_inv s H)) ltac:(lia) ltac:(lia)) as [[Hi Hw] _].
    split; [exact Hi|]. left. exact Hw. }
  destruct (a =? 1052).
  { destruct (keybuf_poke_1052 (start_ s) (stop_ s) v) as [x y]. rewrite set_boundaries_general by exact H.
    eexists. split; [reflexivity|].
    destruct (moved_props (trunc s) (x mod 16) ((y mod 16 - x mod 16) mod 16)
                (proj1 (trunc_inv s H)) ltac:(lia) ltac:(lia)) as [[Hi Hw] _].
    split; [exact Hi|]. left. exact Hw. }
  unfold keybuf_poke_slot_lo, keybuf_poke_slot_hi, keybuf_poke_slot_index, keybuf_offset.
  destruct ((1024 + 30 <=? a) && (a <? 1024 + 30 + 32)) eqn:E.
  - assert (Hidx : 0 <= (a - 1024 - 30) / 2 < 16) by lia.
    rewrite ring_read_ok by assumption. cbn [bind].
    match goal with |- context [ring_write _ ?k s] =>
      destruct (ring_write_spec s ((a - 1024 - 30) / 2) k H Hidx) as [s' [Hw [Hi [Hs [Hl _]]]]] end.
    exists s'. split; [exact Hw|]. split; [exact Hi|]. right. lia.
  - exists s. split; [reflexivity|]. split; [exact H|]. right. reflexivity.
Qed.

(* ------------------------------------------------------------------------------------------------ *)
(* histories *)

Lemma getn_spec n : forall s, inv s ->
  exists c s', getn n s = (c, s') /\ inv s' /\ buflen s' - start s' <= buflen s - start s.
Proof.
  induction n as [|n IH]; intros s H.
  - exists [], s. split; [reflexivity|]. split; [exact H|]. lia.
  - cbn [getn]. pose proof (getc_spec s H) as Hg. pose proof (zlen_waiting s H) as Hw.
    destruct (waiting s) as [|k r] eqn:Ew.
    + rewrite Hg. destruct (IH s H) as [c [s' [Hn [Hi Hl]]]]. rewrite Hn. eexists _, s'. auto.
    + destruct Hg as [s1 [Hg [Hw1 [Hi1 [Hb Hs]]]]]. rewrite Hg.
      destruct (IH s1 Hi1) as [c [s' [Hn [Hi Hl]]]]. rewrite Hn. eexists _, s'.
      split; [reflexivity|]. split; [exact Hi|]. unfold buflen in *. rewrite Hb in Hl. lia.
Qed.

Lemma step_inv o s : inv s ->
  exists out s', step o s = Ok (out, s') /\ inv s'
    /\ (is_inject o = false -> buflen s - start s <= 15 -> buflen s' - start s' <= 15).
Proof.
  intros H. pose proof (zlen_waiting s H) as Hw. destruct o as [c scan|c| |n|a|a v|d a]; cbn [step is_inject].
  - destruct (append_spec true c scan s H) as [s' [Ha [Hi [Hs Hwt]]]]. rewrite Ha. cbn [bind].
    eexists _, s'. split; [reflexivity|]. split; [exact Hi|]. intros _ Hb.
    rewrite <- (zlen_waiting s' Hi), Hwt. unfold capacity. cbn [andb].
    destruct (zlen c =? 0); [lia|]. destruct (15 <=? zlen (waiting s)) eqn:E; [lia|].
    rewrite zlen_app. change (zlen [(c, scan)]) with 1. lia.
  - destruct (append_spec false c 0 s H) as [s' [Ha [Hi [Hs Hwt]]]]. rewrite Ha. cbn [bind].
    eexists _, s'. split; [reflexivity|]. split; [exact Hi|]. intros Hc. discriminate.
  - destruct (getn_spec 1 s H) as [c [s' [Hg [Hi Hl]]]]. cbn [getn] in Hg.
    destruct (getc s) as [c1 s1]. inversion Hg; subst. eexists _, s'. split; [reflexivity|].
    split; [exact Hi|]. intros _ Hb. lia.
  - destruct (getn_spec (Z.to_nat n) s H) as [c [s' [Hg [Hi Hl]]]]. rewrite Hg.
    eexists _, s'. split; [reflexivity|]. split; [exact Hi|]. intros _ Hb. lia.
  - destruct (peek_mem_ok s a H) as [v Hv]. rewrite Hv. cbn [bind]. eexists _, s.
    split; [reflexivity|]. split; [exact H|]. auto.
  - destruct ((0 <=? v) && (v <=? 255)).
    + destruct (poke_mem_inv a v s H) as [s' [Hp [Hi Hb]]]. rewrite Hp. cbn [bind]. eexists _, s'.
      split; [reflexivity|]. split; [exact Hi|]. intros _ Hc. lia.
    + eexists _, s. split; [reflexivity|]. split; [exact H|]. auto.
  - destruct (peek_mem_ok s a H) as [v Hv]. rewrite Hv. cbn [bind]. cbv zeta.
    destruct ((0 <=? Z.max 0 v) && (Z.max 0 v <=? 255)).
    + destruct (poke_mem_inv d (Z.max 0 v) s H) as [s' [Hp [Hi Hb]]]. rewrite Hp. cbn [bind]. eexists _, s'.
      split; [reflexivity|]. split; [exact Hi|]. intros _ Hc. lia.
    + eexists _, s. split; [reflexivity|]. split; [exact H|]. auto.
Qed.

Theorem run_state_inv : forall ops s, inv s -> exists sf, run_state ops s = Ok sf /\ inv sf.
Proof.
  induction ops as [|o r IH]; intros s H; [exists s; cbn; auto|].
  destruct (step_inv o s H) as [out [s' [Hs [Hi _]]]]. cbn [run_state]. rewrite Hs. cbn [bind].
  apply IH. exact Hi.
Qed.

Theorem run_state_ring_ok : forall ops s, forallb (fun o => negb (is_inject o)) ops = true -> ring_ok s ->
  exists sf, run_state ops s = Ok sf /\ ring_ok sf.
Proof.
  induction ops as [|o r IH]; intros s Hn [H Hb]; [exists s; cbn; unfold ring_ok; auto|].
  cbn [forallb] in Hn. apply andb_true_iff in Hn as [Ho Hr].
  destruct (step_inv o s H) as [out [s' [Hs [Hi Hk]]]]. cbn [run_state]. rewrite Hs. cbn [bind].
  apply IH; [exact Hr|]. split; [exact Hi|]. apply Hk; [|exact Hb]. destruct (is_inject o); [discriminate|reflexivity].
Qed.

(* a host exception never ends a history (the -1 marker of `run` is unreachable) *)
Lemma run_no_marker : forall ops s, inv s -> exists sf, run_state ops s = Ok sf /\ snd (run ops s) = sf.
Proof.
  induction ops as [|o r IH]; intros s H; [exists s; cbn; auto|].
  destruct (step_inv o s H) as [out [s' [Hs [Hi _]]]]. cbn [run_state run]. rewrite Hs. cbn [bind].
  destruct (IH s' Hi) as [sf [Hr Hf]]. exists sf. split; [exact Hr|].
  destruct (run r s') as [outs sf']. cbn [snd] in *. exact Hf.
Qed.

(* ------------------------------------------------------------------------------------------------ *)
(* assembled statements (exported by props/C37.v) *)

Lemma waiting_init : waiting init = [].
Proof. reflexivity. Qed.

Theorem fifo_from_init : forall ops,
  exists sf, impl_run ops init = Ok (fst (fifo_run ops []), sf)
             /\ waiting sf = snd (fifo_run ops []) /\ inv sf.
Proof. intros ops. rewrite <- waiting_init. apply fifo_refines. exact (proj1 inv_init). Qed.

Theorem bios_view s : ring_ok s ->
  let n := zlen (waiting s) in
  let head := 30 + 2 * (start s mod 16) in
  let tail := 30 + 2 * ((start s + n) mod 16) in
  peek_mem s 1050 = Ok head /\ peek_mem s 1051 = Ok 0 /\
  peek_mem s 1052 = Ok tail /\ peek_mem s 1053 = Ok 0 /\
  n <= 15 /\ n = ((tail - head) / 2) mod 16 /\
  mapM (ring_read s) (slots_from ((head - 30) / 2) n) = Ok (waiting s).
Proof.
  intros [H Hb] n head tail. pose proof (zlen_waiting s H) as Hw. fold n in Hw.
  destruct (peek_pointers s H ltac:(lia)) as [P0 [P1 [P2 P3]]]. fold n in P2.
  repeat split; try assumption; try lia.
  - unfold head, tail. unfold inv in H. lia.
  - replace ((head - 30) / 2) with (start s mod 16) by (unfold head; lia).
    rewrite ring_read_slots by exact H. f_equal. unfold n. apply waiting_slots; [exact H | lia].
Qed.

Theorem bios_slot_bytes s j : ring_ok s -> 0 <= j < zlen (waiting s) ->
  let i := (start s + j) mod 16 in
  let k := nth (Z.to_nat j) (waiting s) blank in
  peek_mem s (1054 + 2 * i) = Ok (hd 0 (fst k)) /\ peek_mem s (1055 + 2 * i) = Ok (snd k).
Proof.
  intros [H Hb] Hj i k. pose proof (zlen_waiting s H) as Hw.
  assert (Hi : 0 <= i < 16) by (unfold i; lia).
  rewrite peek_slot_char, peek_slot_scan by assumption.
  unfold i, k. rewrite rr_waiting by (try assumption; lia). split; reflexivity.
Qed.

Theorem set_boundaries_thm s a b : inv s -> buflen s - start s <= 16 ->
  exists s', set_boundaries a b s = Ok s' /\ ring_ok s'
    /\ start_ s' = a mod 16 /\ stop_ s' = b mod 16
    /\ zlen (waiting s') = (b - a) mod 16
    /\ (forall i, 0 <= i < 16 -> ring_read s' i = ring_read s i)
    /\ mapM (ring_read s) (slots_from (a mod 16) ((b - a) mod 16)) = Ok (waiting s').
Proof.
  intros H Hw. rewrite set_boundaries_eq by assumption.
  replace ((b mod 16 - a mod 16) mod 16) with ((b - a) mod 16) by lia.
  set (a' := a mod 16). set (n := (b - a) mod 16).
  destruct (moved_props s a' n H ltac:(unfold a'; lia) ltac:(unfold n; lia)) as [Hok [Hs [Hn [Hr Hwt]]]].
  exists (moved s a' n). split; [reflexivity|]. split; [exact Hok|].
  destruct Hok as [Hi' Hb']. destruct (start_stop_spec (moved s a' n) Hi' ltac:(lia)) as [E1 E2].
  split; [rewrite E1; exact Hs|].
  split.
  { rewrite E2. rewrite (zlen_waiting _ Hi') in Hn. unfold a', n in *. lia. }
  split; [exact Hn|].
  split.
  - intros i Hi. rewrite !ring_read_ok by assumption. f_equal. apply Hr. exact Hi.
  - rewrite ring_read_slots by exact H. f_equal. symmetry. exact Hwt.
Qed.

(* POKE 1050, v: the head pointer moves, the ring memory and the tail pointer stay *)
Theorem poke_head_thm s v : ring_ok s ->
  let tail := (start s + zlen (waiting s)) mod 16 in
  let a := ((v - 30) / 2) mod 16 in
  exists s', poke_mem 1050 v s = Ok s' /\ ring_ok s'
    /\ peek_mem s' 1050 = Ok (30 + 2 * a) /\ peek_mem s' 1052 = peek_mem s 1052
    /\ (forall i, 0 <= i < 16 -> ring_read s' i = ring_read s i)
    /\ mapM (ring_read s) (slots_from a ((tail - a) mod 16)) = Ok (waiting s').
Proof.
  intros [H Hb] tail a. rewrite poke_1050_eq.
  destruct (start_stop_spec s H ltac:(lia)) as [_ Et].
  destruct (set_boundaries_thm s ((v - 30) / 2) (stop_ s) H ltac:(lia))
    as [s' [Hs [Hok [E1 [E2 [Hn [Hr Hm]]]]]]].
  exists s'. split; [exact Hs|]. split; [exact Hok|].
  pose proof (zlen_waiting s H) as Hw.
  assert (Htail : stop_ s = tail) by (rewrite Et; unfold tail; rewrite Hw; f_equal; lia).
  destruct Hok as [Hi' Hb']. destruct (start_stop_spec s' Hi' ltac:(lia)) as [F1 F2].
  destruct (peek_pointers s' Hi' ltac:(lia)) as [P0 [_ [P2 _]]].
  destruct (peek_pointers s H ltac:(lia)) as [_ [_ [Q2 _]]].
  split; [rewrite P0; f_equal; rewrite <- F1, E1; reflexivity|].
  split.
  { rewrite P2, Q2. f_equal. f_equal. f_equal.
    rewrite (zlen_waiting s' Hi'). replace (start s' + (buflen s' - start s')) with (buflen s') by lia.
    rewrite <- F2, E2, Htail. unfold tail. lia. }
  split; [exact Hr|].
  replace ((tail - a) mod 16) with ((stop_ s - (v - 30) / 2) mod 16); [exact Hm|].
  rewrite Htail. unfold a, tail. lia.
Qed.

(* the documented idiom: DEF SEG=0: POKE 1050, PEEK(1052) *)
Theorem clear_poke_thm s : ring_ok s ->
  exists v s', peek_mem s 1052 = Ok v /\ 0 <= v <= 255
    /\ poke_mem 1050 v s = Ok s' /\ step (PokeFrom 1050 1052) s = Ok ([], s')
    /\ waiting s' = [] /\ getc s' = ([], s') /\ ring_ok s'
    /\ (forall i, 0 <= i < 16 -> ring_read s' i = ring_read s i).
Proof.
  intros Hok. pose proof Hok as [H Hb].
  destruct (peek_pointers s H ltac:(lia)) as [_ [_ [P2 _]]].
  set (tail := (start s + zlen (waiting s)) mod 16) in *.
  destruct (poke_head_thm s (30 + 2 * tail) Hok) as [s' [Hp [Hok' [_ [_ [Hr Hm]]]]]].
  fold tail in Hm. replace ((30 + 2 * tail - 30) / 2) with tail in Hm by lia.
  replace ((tail - tail mod 16) mod 16) with 0 in Hm by (unfold tail; lia).
  cbn in Hm. inversion Hm as [Hw].
  exists (30 + 2 * tail), s'. split; [exact P2|]. split; [unfold tail; lia|]. split; [exact Hp|].
  split.
  { cbn [step]. rewrite P2. cbn [bind]. cbv zeta.
    replace (Z.max 0 (30 + 2 * tail)) with (30 + 2 * tail) by (unfold tail; lia).
    destruct ((0 <=? 30 + 2 * tail) && (30 + 2 * tail <=? 255)) eqn:E; [|unfold tail in E; lia].
    rewrite Hp. reflexivity. }
  split; [symmetry; exact Hw|].
  split.
  { pose proof (getc_spec s' (proj1 Hok')) as Hg. rewrite <- Hw in Hg. exact Hg. }
  split; [exact Hok'|exact Hr].
Qed.

(* the mirror image: POKE 1052, PEEK(1050) *)
Theorem clear_poke_tail_thm s : ring_ok s ->
  exists v s', peek_mem s 1050 = Ok v /\ poke_mem 1052 v s = Ok s'
    /\ waiting s' = [] /\ getc s' = ([], s') /\ ring_ok s'
    /\ (forall i, 0 <= i < 16 -> ring_read s' i = ring_read s i).
Proof.
  intros [H Hb]. destruct (peek_pointers s H ltac:(lia)) as [P0 _].
  destruct (start_stop_spec s H ltac:(lia)) as [Es _].
  exists (30 + 2 * (start s mod 16)). rewrite poke_1052_eq.
  destruct (set_boundaries_thm s (start_ s) ((30 + 2 * (start s mod 16) - 30) / 2) H ltac:(lia))
    as [s' [Hs [Hok [_ [_ [Hn [Hr _]]]]]]].
  exists s'. split; [exact P0|]. split; [exact Hs|].
  replace ((30 + 2 * (start s mod 16) - 30) / 2) with (start s mod 16) in Hn by lia.
  rewrite Es in Hn. replace ((start s mod 16 - start s mod 16) mod 16) with 0 in Hn by lia.
  assert (Hw : waiting s' = []).
  { destruct (waiting s'); [reflexivity|]. rewrite zlen_cons in Hn. pose proof (zlen_nonneg l). lia. }
  split; [exact Hw|]. split.
  { pose proof (getc_spec s' (proj1 Hok)) as Hg. rewrite Hw in Hg. exact Hg. }
  split; [exact Hok|exact Hr].
Qed.

Theorem reachable_no_exception : forall ops, exists sf, run_state ops init = Ok sf /\ inv sf.
Proof. intros ops. apply run_state_inv. exact (proj1 inv_init). Qed.

Theorem reachable_ring_ok : forall ops, forallb (fun o => negb (is_inject o)) ops = true ->
  exists sf, run_state ops init = Ok sf /\ ring_ok sf.
Proof. intros ops Hn. apply run_state_ring_ok; [exact Hn | exact inv_init]. Qed.

(* what "dropped" and "accepted" mean in the specification *)
Lemma fifo_press_full c scan q : capacity <= zlen q -> fifo_step (FPress c scan) q = (None, q).
Proof. intros H. cbn [fifo_step]. destruct (zlen c =? 0); [reflexivity|]. destruct (capacity <=? zlen q) eqn:E; [reflexivity|lia]. Qed.

Lemma fifo_press_room c scan q : zlen q < capacity -> zlen c <> 0 ->
  fifo_step (FPress c scan) q = (None, q ++ [(c, scan)]).
Proof.
  intros H Hc. cbn [fifo_step]. destruct (zlen c =? 0) eqn:Ec; [lia|].
  destruct (capacity <=? zlen q) eqn:E; [lia|reflexivity].
Qed.

(* ------------------------------------------------------------------------------------------------ *)
(* what each operation writes into the 16 mirrored slots (extension round) *)

Definition cr_key : key := (keybuf_append_cr_char, keybuf_append_cr_scan).

Lemma rr_buf_only s1 s2 i : buf s1 = buf s2 -> rr s1 i = rr s2 i.
Proof. intros E. unfold rr, buflen, keybuf_ring_index. rewrite E. reflexivity. Qed.

(* a limit-checked key press: the slot at tail receives the key, or the uncounted CR when 15 keys wait;
   no other slot, no pointer changes *)
Theorem press_ring_thm s c scan : ring_ok s -> zlen c <> 0 ->
  let n := zlen (waiting s) in
  let t := (start s + n) mod 16 in
  exists s', append true c scan s = Ok s' /\ ring_ok s' /\ start s' = start s
    /\ waiting s' = (if capacity <=? n then waiting s else waiting s ++ [(c, scan)])
    /\ ring_read s' t = Ok (if capacity <=? n then cr_key else (c, scan))
    /\ (forall i, 0 <= i < 16 -> i <> t -> ring_read s' i = ring_read s i).
Proof.
  intros [H Hb] Hc n t. pose proof (zlen_waiting s H) as Hw. fold n in Hw.
  destruct (append_spec true c scan s H) as [s' [Ha [Hi [Hs Hwt]]]].
  destruct (zlen c =? 0) eqn:Ec; [lia|]. cbn [andb] in Hwt. fold n in Hwt.
  exists s'. split; [exact Ha|].
  assert (Ht : 0 <= t < 16) by (unfold t; lia).
  unfold append in Ha. rewrite Ec in Ha. cbn [negb] in Ha.
  unfold keybuf_append_full, keybuf_append_cr_index in Ha. rewrite ring_length_16 in Ha. cbn [andb] in Ha.
  unfold inv in H. unfold capacity in *.
  destruct (15 <=? n) eqn:Ef.
  - (* full: CR into the free slot *)
    destruct (buflen s - start s >=? 16 - 1) eqn:Eg; [|lia].
    rewrite py_set_in in Ha by (unfold buflen in *; lia). cbn [bind] in Ha. injection Ha as Hs'.
    assert (Hl : buflen s' = buflen s).
    { rewrite <- Hs'. unfold buflen, zlen. cbn [buf]. rewrite set_nth_length. reflexivity. }
    assert (Hidx : keybuf_ring_index (buflen s) (start s) t = start s - 1).
    { replace t with ((start s - 1) mod 16) by (unfold t; lia). apply ring_index_unique; lia. }
    split; [split; [exact Hi | lia]|]. split; [exact Hs|]. split; [exact Hwt|].
    split.
    + rewrite ring_read_ok by assumption. f_equal. unfold rr. rewrite Hl, Hs, Hidx. rewrite <- Hs'. cbn [buf].
      apply nth_set_nth_same. unfold buflen, zlen in *. lia.
    + intros i Hi0 Hne. rewrite !ring_read_ok by (try assumption; unfold inv; lia). f_equal.
      unfold rr. rewrite Hl, Hs. rewrite <- Hs'. cbn [buf]. apply nth_set_nth_other.
      pose proof (ring_index_range (buflen s) (start s) i ltac:(lia) Hi0) as [Hr Hm].
      intros Heq. apply Hne. rewrite <- Hm. replace (keybuf_ring_index (buflen s) (start s) i) with (start s - 1) by lia.
      unfold t. lia.
  - (* room: the key goes into the slot at tail *)
    destruct (buflen s - start s >=? 16 - 1) eqn:Eg; [lia|].
    injection Ha as Hs'.
    assert (Hl : buflen s' = buflen s + 1).
    { rewrite <- Hs'. unfold buflen. cbn [buf]. rewrite zlen_app. reflexivity. }
    split.
    { split; [exact Hi|]. rewrite Hl, Hs. lia. }
    split; [exact Hs|]. split; [exact Hwt|].
    assert (Htl : t = buflen s mod 16) by (unfold t; f_equal; lia).
    split.
    + rewrite ring_read_ok by assumption. f_equal. unfold rr. rewrite Hl, Hs.
      replace t with (buflen s mod 16) by exact (eq_sym Htl).
      rewrite ring_index_unique by lia. rewrite <- Hs'. cbn [buf].
      rewrite app_nth2 by (unfold buflen, zlen; lia).
      replace (Z.to_nat (buflen s) - length (buf s))%nat with 0%nat by (unfold buflen, zlen; lia). reflexivity.
    + intros i Hi0 Hne. rewrite !ring_read_ok by (try assumption; unfold inv; lia). f_equal.
      unfold rr. rewrite Hl, Hs.
      pose proof (ring_index_range (buflen s + 1) (start s) i ltac:(lia) Hi0) as [Hr Hm].
      remember (keybuf_ring_index (buflen s + 1) (start s) i) as p.
      assert (Hp : p <> buflen s) by (intros E; apply Hne; rewrite Htl, <- Hm, E; reflexivity).
      replace (keybuf_ring_index (buflen s) (start s) i) with p
        by (rewrite <- Hm; symmetry; apply ring_index_unique; lia).
      rewrite <- Hs'. cbn [buf]. apply app_nth1. unfold buflen, zlen in *. lia.
Qed.

(* a read changes no slot *)
Theorem read_ring_thm s : inv s -> forall i, ring_read (snd (getc s)) i = ring_read s i.
Proof.
  intros H i. pose proof (getc_spec s H) as Hg. destruct (waiting s) as [|k r].
  - rewrite Hg. reflexivity.
  - destruct Hg as [s' [Hg [_ [_ [Hb _]]]]]. rewrite Hg. cbn [snd].
    unfold ring_read, buflen, keybuf_ring_index. rewrite Hb. reflexivity.
Qed.

(* the mirror covers exactly the 16 slots 1054..1085: every slot (slot 15 at 1084/1085 included) reads as
   char byte / scancode, a poke into a slot byte changes that byte of that slot only and no pointer, and a
   poke outside 1050, 1052, 1054..1085 does not touch the buffer *)
Theorem mirror_read_thm s i : inv s -> 0 <= i < 16 ->
  exists k, ring_read s i = Ok k
    /\ peek_mem s (1054 + 2 * i) = Ok (hd 0 (fst k)) /\ peek_mem s (1055 + 2 * i) = Ok (snd k).
Proof.
  intros H Hi. exists (rr s i). split; [apply ring_read_ok; assumption|].
  split; [apply peek_slot_char | apply peek_slot_scan]; assumption.
Qed.

Theorem mirror_poke_thm s i odd v : inv s -> 0 <= i < 16 -> 0 <= odd <= 1 ->
  exists s' k, ring_read s i = Ok k /\ poke_mem (1054 + 2 * i + odd) v s = Ok s' /\ inv s'
    /\ start s' = start s /\ buflen s' = buflen s
    /\ ring_read s' i = Ok (if odd =? 1 then (fst k, v)
                            else if keybuf_poke_slot_blank v then ([], snd k) else ([v], snd k))
    /\ (forall j, 0 <= j < 16 -> j <> i -> ring_read s' j = ring_read s j).
Proof.
  intros H Hi Ho. unfold poke_mem.
  destruct (1054 + 2 * i + odd =? 1050) eqn:E0; [lia|]. destruct (1054 + 2 * i + odd =? 1052) eqn:E2; [lia|].
  unfold keybuf_poke_slot_lo, keybuf_poke_slot_hi, keybuf_poke_slot_index, keybuf_poke_slot_odd, keybuf_offset.
  destruct ((1024 + 30 <=? 1054 + 2 * i + odd) && (1054 + 2 * i + odd <? 1024 + 30 + 32)) eqn:E4; [|lia].
  replace ((1054 + 2 * i + odd - 1024 - 30) / 2) with i by lia.
  replace ((1054 + 2 * i + odd - 1024 - 30) mod 2) with odd by lia.
  rewrite ring_read_ok by assumption. cbn [bind].
  match goal with |- context [ring_write i ?k s] =>
    destruct (ring_write_spec s i k H Hi) as [s' [Hw [Hi' [Hs [Hl [Hk Ho']]]]]] end.
  exists s', (rr s i). split; [reflexivity|]. split; [exact Hw|]. split; [exact Hi'|].
  split; [exact Hs|]. split; [exact Hl|]. split.
  - rewrite ring_read_ok by assumption. f_equal. rewrite Hk.
    assert (odd = 0 \/ odd = 1) as [-> | ->] by lia; reflexivity.
  - intros j Hj Hne. rewrite !ring_read_ok by assumption. f_equal. apply Ho'; assumption.
Qed.

Theorem mirror_extent_thm s a v : a <> 1050 -> a <> 1052 -> (a < 1054 \/ 1086 <= a) -> poke_mem a v s = Ok s.
Proof.
  intros H0 H2 Hr. unfold poke_mem.
  destruct (a =? 1050) eqn:E0; [lia|]. destruct (a =? 1052) eqn:E2; [lia|].
  unfold keybuf_poke_slot_lo, keybuf_poke_slot_hi, keybuf_offset.
  destruct ((1024 + 30 <=? a) && (a <? 1024 + 30 + 32)) eqn:E4; [lia|]. reflexivity.
Qed.
