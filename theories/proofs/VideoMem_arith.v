(* C34: address arithmetic of the regenerated memory mappers (gen/Gen_vmem.v):
   normal form of _get_coords for the three graphics mappers, injectivity, the "same scan line" lemma. *)
From Coq Require Import ZArith List Bool Lia ZifyBool.
From PCB Require Import lib.Result lib.PyInt gen.Gen_vmem model.VideoMem.
Import ListNotations.
Open Scope Z_scope.

(* ---------------------------------------------------------------- division facts *)
Lemma div_mod_add_small a b j : 0 < b -> 0 <= j -> a mod b + j < b ->
  (a + j) / b = a / b /\ (a + j) mod b = a mod b + j.
Proof.
  intros Hb Hj Hlt.
  pose proof (Z.mod_pos_bound a b Hb) as Hr.
  pose proof (Z.div_mod a b ltac:(lia)) as Hdm.
  assert (Hq : (a + j) / b = a / b).
  { symmetry. apply Z.div_unique with (a mod b + j); lia. }
  split; [exact Hq|].
  pose proof (Z.div_mod (a + j) b ltac:(lia)) as Hdm2. rewrite Hq in Hdm2. lia.
Qed.

Lemma mod_mul_mod a b c : 0 < b -> 0 < c -> (a mod (b * c)) mod b = a mod b.
Proof.
  intros Hb Hc. rewrite Z.rem_mul_r by lia.
  rewrite Z.mul_comm, Z_mod_plus_full. apply Z.mod_mod. lia.
Qed.

Lemma mod_mul_div a b c : 0 < b -> 0 < c -> (a mod (b * c)) / b = (a / b) mod c.
Proof.
  intros Hb Hc. rewrite Z.rem_mul_r by lia.
  rewrite Z.add_comm, Z.mul_comm, Z_div_plus_full_l by lia.
  rewrite (Z.div_small (a mod b) b) by (apply Z.mod_pos_bound; lia). lia.
Qed.

Lemma euclid_unique d u1 v1 u2 v2 : 0 <= u1 < d -> 0 <= u2 < d -> u1 + d * v1 = u2 + d * v2 ->
  u1 = u2 /\ v1 = v2.
Proof.
  intros H1 H2 He.
  assert (Hv : v1 = v2).
  { assert (E1 : (u1 + d * v1) / d = v1).
    { symmetry. apply Z.div_unique with u1; lia. }
    assert (E2 : (u2 + d * v2) / d = v2).
    { symmetry. apply Z.div_unique with u2; lia. }
    rewrite He in E1. congruence. }
  subst v2. split; [lia|reflexivity].
Qed.

Lemma even_half a : a mod 2 = 0 -> a = 2 * (a / 2).
Proof. intros H. pose proof (Z.div_mod a 2 ltac:(lia)). lia. Qed.

(* ---------------------------------------------------------------- mode parameters *)
(* _walk_memory's `factor`: 2 for Tandy mode 6 (it walks byte pairs), 1 otherwise *)
Definition fac (m : vmode) : Z := if vm_kind m =? 2 then 2 else 1.
Definition peff (m : vmode) : Z := fac m * vm_ppb m.           (* ppb = factor * self._ppb *)
Definition bsz (m : vmode) : Z := vm_bank_size m / fac m.      (* bank_size = self._bank_size // factor *)
Definition rsz (m : vmode) : Z := vm_bytes_per_row m / fac m.  (* row_size = self._bytes_per_row // factor *)

(* what the proofs need from a graphics mode (checked for every entry of the regenerated table) *)
Definition wf_gmode (m : vmode) : bool :=
  (0 <? vm_bank_size m) && (0 <? vm_interleave m) && (0 <? vm_bytes_per_row m) &&
  (vm_page_size m =? vm_interleave m * vm_bank_size m) &&
  (if vm_kind m =? 0 then
     (0 <? vm_bpp m) && (vm_bpp m * vm_ppb m =? 8) && (vm_bytes_per_row m * vm_ppb m =? vm_width m)
   else if vm_kind m =? 1 then
     (vm_ppb m =? 8) && (vm_interleave m =? 1) && (vm_bytes_per_row m * 8 =? vm_width m)
   else if vm_kind m =? 2 then
     (vm_ppb m =? 4) && (vm_interleave m =? 4) && (vm_bank_size m mod 2 =? 0) &&
     (vm_bytes_per_row m mod 2 =? 0) && (vm_bytes_per_row m / 2 * 8 =? vm_width m)
   else false).

(* item number q (byte, or byte pair in Tandy mode 6) of the video segment -> (page, x, y) *)
Definition layN (BS IL BPR P q : Z) : Z * Z * Z :=
  (q / BS / IL, (q mod BS) mod BPR * P, (q / BS) mod IL + IL * ((q mod BS) / BPR)).

Definition itemno (m : vmode) (addr : Z) : Z := (addr - vm_seg m * 16) / fac m.
Definition lay (m : vmode) (q : Z) : Z * Z * Z := layN (bsz m) (vm_interleave m) (rsz m) (peff m) q.

Lemma wf_pos m : wf_gmode m = true ->
  0 < bsz m /\ 0 < vm_interleave m /\ 0 < rsz m /\ 0 < peff m /\ rsz m * peff m = vm_width m /\
  (fac m = 1 \/ fac m = 2).
Proof.
  unfold wf_gmode, bsz, rsz, peff, fac. intros H.
  repeat (apply andb_true_iff in H; destruct H as [H ?]).
  destruct (vm_kind m =? 0) eqn:K0.
  - apply Z.eqb_eq in K0. rewrite K0. cbn [Z.eqb Pos.eqb].
    repeat (apply andb_true_iff in H0; destruct H0 as [H0 ?]).
    rewrite !Z.div_1_r. lia.
  - destruct (vm_kind m =? 1) eqn:K1.
    + apply Z.eqb_eq in K1. rewrite K1. cbn [Z.eqb Pos.eqb].
      repeat (apply andb_true_iff in H0; destruct H0 as [H0 ?]).
      rewrite !Z.div_1_r. assert (vm_ppb m = 8) as -> by lia. lia.
    + destruct (vm_kind m =? 2) eqn:K2; [|discriminate].
      repeat (apply andb_true_iff in H0; destruct H0 as [H0 ?]).
      assert (EB : vm_bank_size m mod 2 = 0) by lia.
      assert (ER : vm_bytes_per_row m mod 2 = 0) by lia.
      pose proof (even_half _ EB). pose proof (even_half _ ER).
      assert (vm_ppb m = 4) as -> by lia. lia.
Qed.

(* ---------------------------------------------------------------- normal form of _get_coords *)
Lemma cga_coords_norm m A : wf_gmode m = true -> vm_kind m = 0 ->
  vmem_cga_get_coords m A = lay m (itemno m A).
Proof.
  intros W K. unfold wf_gmode in W. rewrite K in W. cbn [Z.eqb Pos.eqb] in W.
  repeat (apply andb_true_iff in W; destruct W as [W ?]).
  unfold vmem_cga_get_coords, lay, layN, itemno, bsz, rsz, peff, fac. rewrite K. cbn [Z.eqb Pos.eqb].
  rewrite !Z.div_1_r.
  set (q := A - vm_seg m * 16).
  assert (HBS : 0 < vm_bank_size m) by lia. assert (HIL : 0 < vm_interleave m) by lia.
  assert (HPS : vm_page_size m = vm_bank_size m * vm_interleave m) by lia.
  rewrite HPS.
  rewrite mod_mul_mod, mod_mul_div by lia.
  rewrite <- Z.div_div by lia.
  assert (Hx : forall c, c * 8 / vm_bpp m = c * (1 * vm_ppb m)).
  { intros c. replace 8 with (vm_ppb m * vm_bpp m) by lia.
    rewrite Z.mul_assoc, Z.div_mul by lia. lia. }
  cbv zeta. cbn [Z.mul Z.add Z.sub]. rewrite Hx. reflexivity.
Qed.

Lemma ega_coords_norm m A : wf_gmode m = true -> vm_kind m = 1 ->
  vmem_ega_get_coords m A = lay m (itemno m A).
Proof.
  intros W K. unfold wf_gmode in W. rewrite K in W. cbn [Z.eqb Pos.eqb] in W.
  repeat (apply andb_true_iff in W; destruct W as [W ?]).
  unfold vmem_ega_get_coords, lay, layN, itemno, bsz, rsz, peff, fac. rewrite K. cbn [Z.eqb Pos.eqb].
  rewrite !Z.div_1_r.
  set (q := A - vm_seg m * 16).
  assert (HIL : vm_interleave m = 1) by lia.
  assert (HPS : vm_page_size m = vm_bank_size m) by lia.
  assert (HP : vm_ppb m = 8) by lia.
  rewrite HPS, HIL, HP. rewrite Z.div_1_r, Z.mod_1_r. cbv zeta.
  f_equal; lia.
Qed.

Lemma tandy_coords_norm m A : wf_gmode m = true -> vm_kind m = 2 ->
  vmem_tandy6_get_coords m A = lay m (itemno m A).
Proof.
  intros W K. unfold wf_gmode in W. rewrite K in W. cbn [Z.eqb Pos.eqb] in W.
  repeat (apply andb_true_iff in W; destruct W as [W ?]).
  unfold vmem_tandy6_get_coords, lay, layN, itemno, bsz, rsz, peff, fac. rewrite K. cbn [Z.eqb Pos.eqb].
  set (q := A - vm_seg m * 16).
  assert (EB0 : vm_bank_size m mod 2 = 0) by lia.
  assert (ER0 : vm_bytes_per_row m mod 2 = 0) by lia.
  pose proof (even_half _ EB0) as EB. pose proof (even_half _ ER0) as ER.
  set (B := vm_bank_size m / 2) in *. set (R := vm_bytes_per_row m / 2) in *.
  assert (HB : 0 < B) by lia. assert (HR : 0 < R) by lia.
  assert (HIL : vm_interleave m = 4) by lia.
  assert (HP : vm_ppb m = 4) by lia.
  assert (HPS : vm_page_size m = vm_bank_size m * 4) by lia.
  rewrite HPS, HIL, HP, EB, ER.
  rewrite mod_mul_mod, (mod_mul_div q (2 * B) 4) by lia.
  rewrite <- !Z.div_div by lia.
  rewrite !mod_mul_div by lia.
  cbv zeta. reflexivity.
Qed.

Lemma coords_norm m A : wf_gmode m = true -> vmem_get_coords m A = lay m (itemno m A).
Proof.
  intros W. unfold vmem_get_coords.
  destruct (vm_kind m =? 0) eqn:K0.
  - apply cga_coords_norm; [exact W | apply Z.eqb_eq; exact K0].
  - destruct (vm_kind m =? 1) eqn:K1.
    + apply ega_coords_norm; [exact W | apply Z.eqb_eq; exact K1].
    + apply tandy_coords_norm; [exact W|].
      unfold wf_gmode in W. rewrite K0, K1 in W.
      destruct (vm_kind m =? 2) eqn:K2; [apply Z.eqb_eq; exact K2|].
      rewrite andb_false_r in W. discriminate.
Qed.

(* ---------------------------------------------------------------- injectivity *)
Lemma layN_inj BS IL BPR P q1 q2 : 0 < BS -> 0 < IL -> 0 < BPR -> 0 < P ->
  layN BS IL BPR P q1 = layN BS IL BPR P q2 -> q1 = q2.
Proof.
  intros HBS HIL HBPR HP E. unfold layN in E.
  assert (E1 : q1 / BS / IL = q2 / BS / IL) by congruence.
  assert (E2 : (q1 mod BS) mod BPR * P = (q2 mod BS) mod BPR * P) by congruence.
  assert (E3 : (q1 / BS) mod IL + IL * ((q1 mod BS) / BPR) = (q2 / BS) mod IL + IL * ((q2 mod BS) / BPR))
    by congruence.
  apply euclid_unique in E3; try (apply Z.mod_pos_bound; lia).
  destruct E3 as [E3 E4].
  apply Z.mul_cancel_r in E2; [|lia].
  assert (Ea : q1 / BS = q2 / BS).
  { rewrite (Z.div_mod (q1 / BS) IL), (Z.div_mod (q2 / BS) IL) by lia. congruence. }
  assert (Er : q1 mod BS = q2 mod BS).
  { rewrite (Z.div_mod (q1 mod BS) BPR), (Z.div_mod (q2 mod BS) BPR) by lia. congruence. }
  rewrite (Z.div_mod q1 BS), (Z.div_mod q2 BS) by lia. congruence.
Qed.

Lemma lay_inj m q1 q2 : wf_gmode m = true -> lay m q1 = lay m q2 -> q1 = q2.
Proof.
  intros W. pose proof (wf_pos m W) as (H1 & H2 & H3 & H4 & _). unfold lay.
  apply layN_inj; assumption.
Qed.

(* ---------------------------------------------------------------- items of one scan line *)
Lemma layN_row BS IL BPR P q j : 0 < BS -> 0 < BPR -> 0 <= j ->
  (q mod BS) mod BPR + j < BPR -> q mod BS + j < BS ->
  layN BS IL BPR P (q + j) =
  (q / BS / IL, (q mod BS) mod BPR * P + j * P, (q / BS) mod IL + IL * ((q mod BS) / BPR)).
Proof.
  intros HBS HBPR Hj H1 H2. unfold layN.
  destruct (div_mod_add_small q BS j HBS Hj H2) as [Ed Em].
  rewrite Ed, Em.
  destruct (div_mod_add_small (q mod BS) BPR j HBPR Hj H1) as [Ed2 Em2].
  rewrite Ed2, Em2. f_equal. f_equal. lia.
Qed.

(* x of an item is a multiple of the effective pixels per byte, below the width *)
Lemma lay_x m q : wf_gmode m = true ->
  let '(p, x, y) := lay m q in
  x = (q mod bsz m) mod rsz m * peff m /\ 0 <= x /\ x + peff m <= vm_width m /\ x / peff m = (q mod bsz m) mod rsz m.
Proof.
  intros W. pose proof (wf_pos m W) as (H1 & H2 & H3 & H4 & H5 & _).
  unfold lay, layN.
  pose proof (Z.mod_pos_bound (q mod bsz m) (rsz m) H3) as Hc.
  split; [reflexivity|]. split; [nia|]. split; [nia|].
  apply Z.div_mul. lia.
Qed.
