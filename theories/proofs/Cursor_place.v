(* C36: plain-text placement.  The reference is a linear layout on an unbounded virtual page (no scrolling);
   the screen window shows that page shifted by the number of scrolls. *)
From Coq Require Import ZArith List Bool Lia ZifyBool Arith.
From PCB Require Import lib.Result lib.PyInt model.Cursor proofs.Cursor_lists proofs.Cursor_inv.
Import ListNotations.
Open Scope Z_scope.

(* ---- reference: deferred-wrap linear layout on a virtual page (row, col) -> byte; vc may be W+1 *)
Definition vgrid := Z -> Z -> Z.

Fixpoint layout (W : Z) (g : vgrid) (vr vc : Z) (str : list Z) : vgrid * (Z * Z) :=
  match str with
  | [] => (g, (vr, vc))
  | ch :: t =>
      let vr1 := if vc >? W then vr + 1 else vr in
      let vc1 := if vc >? W then 1 else vc in
      layout W (fun r c => if (r =? vr1) && (c =? vc1) then ch else g r c) vr1 (vc1 + 1) t
  end.

(* ---- record equalities *)
Lemma set_bra_id s : bra s = false -> set_bra s false = s.
Proof. destruct s. cbn. intros ->. reflexivity. Qed.

(* ---- evaluation lemmas for the pieces of write_char *)
Lemma wrap_scroll_noop ok s : bra s = false -> 1 <= col s <= width s -> top s <= row s <= bot s ->
  wrap_scroll ok s = s.
Proof.
  intros Hb Hc Hr. unfold wrap_scroll. rewrite Hb. cbn [andb].
  rewrite (set_bra_id s Hb).
  replace (col s >? width s) with false by lia.
  replace (col s <? 1) with false by lia.
  replace (row s >? bot s) with false by lia.
  replace (row s <? top s) with false by lia. reflexivity.
Qed.

Lemma wrap_scroll_scrolls s : bra s = false -> 1 <= col s <= width s -> row s = bot s + 1 -> top s <= bot s ->
  wrap_scroll true s = set_row (b_scroll_up s (top s) (bot s)) (bot s).
Proof.
  intros Hb Hc Hr Ht. unfold wrap_scroll. rewrite Hb. cbn [andb].
  rewrite (set_bra_id s Hb).
  replace (col s >? width s) with false by lia.
  replace (col s <? 1) with false by lia.
  replace (row s >? bot s) with true by lia.
  unfold scroll, b_scroll_up. setters. proj.
  replace (row s >? top s) with true by lia. proj. reflexivity.
Qed.

Lemma consume_noop d s : ovf s = false -> col s <= width s -> consume_overflow d s = s.
Proof.
  intros Ho Hc. unfold consume_overflow. rewrite Ho.
  replace (col s >? width s) with false by lia. reflexivity.
Qed.

Lemma consume_pending s : ovf s = true -> col s = width s -> row s < height s -> wraps_at s (row s) = false ->
  consume_overflow false s =
    set_rc (set_wrap (set_ovf (set_col s (width s + 1)) false) (row s) true) (row s + 1) 1.
Proof.
  intros Ho Hc Hr Hw. unfold consume_overflow. rewrite Ho.
  set (s1 := set_ovf (set_col s (col s + 1)) false).
  assert (E1 : col s1 >? width s1 = true) by (unfold s1; setters; proj; lia).
  assert (E2 : row s1 <? height s1 = true) by (unfold s1; setters; proj; lia).
  assert (E3 : wraps_at s1 (row s1) = false) by (unfold s1, wraps_at in *; setters; proj; exact Hw).
  rewrite E1, E2, E3. cbn [negb andb].
  unfold s1. rewrite Hc. setters. proj. reflexivity.
Qed.

(* ---- wrap flags *)
Definition nowrap_from (s : st) (k : Z) : Prop := forall r, k <= r <= height s -> wraps_at s r = false.

Lemma pyidx_nonneg i n : 0 <= i -> pyidx i n = i.
Proof. intros H. unfold pyidx. replace (i <? 0) with false by lia. reflexivity. Qed.

Lemma wraps_at_set_wrap_other s r0 r b : 1 <= r0 -> 1 <= r -> r <> r0 ->
  wraps_at (set_wrap s r0 b) r = wraps_at s r.
Proof.
  intros H0 H1 Hne. unfold wraps_at, set_wrap. setters. proj.
  rewrite upd_length. rewrite !pyidx_nonneg by lia.
  apply nth_upd_other. unfold zn. lia.
Qed.

Lemma nowrap_scroll_up s a b : length (wraps s) = zn (height s) -> 1 <= a <= b -> b < height s ->
  (forall r, b < r <= height s -> wraps_at s r = false) ->
  forall r, b <= r <= height s -> wraps_at (b_scroll_up s a b) r = false.
Proof.
  intros Hl Ha Hb Hn r Hr. unfold wraps_at, b_scroll_up. setters. proj.
  set (w1 := insert_at (zn b) false (wraps s)).
  assert (L1 : length w1 = S (zn (height s))) by (unfold w1; rewrite insert_at_length; unfold zn in *; lia).
  set (i := zn (pyidx (a - 2) (length w1))).
  set (w2 := if nth i w1 false then upd i (nth (zn (a - 1)) w1 false) w1 else w1).
  assert (L2 : length w2 = S (zn (height s))) by (unfold w2; destruct (nth i w1 false); [rewrite upd_length|]; exact L1).
  rewrite pyidx_nonneg by lia.
  rewrite nth_delete_at.
  replace (Nat.ltb (zn (r - 1)) (zn (a - 1))) with false by (symmetry; apply Nat.ltb_ge; unfold zn; lia).
  replace (S (zn (r - 1))) with (zn r) by (unfold zn; lia).
  assert (N1 : nth (zn r) w1 false = false).
  { unfold w1. rewrite nth_insert_at by (unfold zn in *; lia).
    destruct (Nat.ltb (zn r) (zn b)) eqn:E1; [apply Nat.ltb_lt in E1; unfold zn in *; lia|].
    destruct (Nat.eqb (zn r) (zn b)) eqn:E2; [reflexivity|].
    apply Nat.eqb_neq in E2. assert (b < r) by (unfold zn in *; lia).
    specialize (Hn r ltac:(lia)). unfold wraps_at in Hn. rewrite pyidx_nonneg in Hn by lia.
    replace (zn r - 1)%nat with (zn (r - 1)) by (unfold zn; lia). exact Hn. }
  unfold w2. destruct (nth i w1 false) eqn:Ei; [|exact N1].
  destruct (Nat.eq_dec (zn r) i) as [Heq|Hne].
  - rewrite Heq in N1. congruence.
  - rewrite nth_upd_other by auto. exact N1.
Qed.

(* ---- the simulation relation between the model state and the reference layout *)
Section Placement.
Variable s0 : st.
Let W := width s0.
Let H := height s0.
Let T := top s0.
Let B := bot s0.

Definition shifted (s : st) (g : vgrid) (K : Z) : Prop :=
  forall R C, 1 <= R <= H -> 1 <= C <= W ->
    get_cell (cells s) R C = if (T <=? R) && (R <=? B) then g (R + K) C else get_cell (cells s0) R C.

Record rel (s : st) (g : vgrid) (vr vc : Z) : Prop := mkrel {
  r_env : same_env s0 s;
  r_GG : GG s;
  r_bra : bra s = false;
  r_row : row s = vr - Z.max 0 (vr - B) /\ T <= row s <= B;
  r_col : (1 <= vc <= W /\ col s = vc /\ ovf s = false) \/ (vc = W + 1 /\ col s = W /\ ovf s = true);
  r_cells : shifted s g (Z.max 0 (vr - B));
  r_below : forall r c, r > Z.max vr B -> g r c = 32;
  r_nowrap : nowrap_from s (row s)
}.

Hypothesis G0 : geom_ok s0.

Lemma env_fields s : same_env s0 s -> width s = W /\ height s = H /\ top s = T /\ bot s = B.
Proof. intros (?&?&?&?&?). auto. Qed.

Lemma rel_step s g vr vc ch : rel s g vr vc ->
  let vr1 := if vc >? W then vr + 1 else vr in
  let vc1 := if vc >? W then 1 else vc in
  rel (write_char false s ch) (fun r c => if (r =? vr1) && (c =? vc1) then ch else g r c) vr1 (vc1 + 1).
Proof.
  intros [Henv HGG Hbra [Hrow Hrw] Hcol Hcells Hbelow Hnow].
  destruct (env_fields s Henv) as (EW & EH & ET & EB).
  destruct G0 as (G1 & G2 & G3 & G4 & G5 & G6). fold H W T B in G1, G2, G3, G4, G5.
  pose proof HGG as [_ (Hshape & Hwl & _)]. rewrite EH, EW in Hshape. rewrite EH in Hwl.
  destruct Hcol as [(Hvc & Hc & Ho) | (Hvc & Hc & Ho)].
  - (* the character goes to the current cell *)
    replace (vc >? W) with false by lia. cbv zeta.
    unfold write_char.
    rewrite (consume_noop false s Ho) by lia.
    rewrite (wrap_scroll_noop true s Hbra) by lia.
    set (s3 := b_put s (row s) (col s) ch).
    assert (P3 : GG s3) by (apply GG_put; auto; lia).
    assert (C3 : shifted s3 (fun r c => if (r =? vr) && (c =? vc) then ch else g r c) (Z.max 0 (vr - B))).
    { intros R C HR HC. unfold s3, b_put. setters. proj.
      rewrite (get_put (cells s) H W) by (auto; lia).
      rewrite (Hcells R C HR HC).
      destruct ((T <=? R) && (R <=? B)) eqn:EW1.
      - replace (R + Z.max 0 (vr - B) =? vr) with (R =? row s) by lia. rewrite Hc. reflexivity.
      - replace (R =? row s) with false by lia. reflexivity. }
    assert (B3 : forall r c, r > Z.max vr B -> (if (r =? vr) && (c =? vc) then ch else g r c) = 32).
    { intros r c Hr. replace (r =? vr) with false by lia. cbn [andb]. apply Hbelow; auto. }
    destruct (col s3 <? width s3) eqn:E4.
    + (* not in the last column *)
      assert (E4' : col s < W) by (unfold s3, b_put in E4; setters; proj; lia).
      rewrite wrap_scroll_noop; unfold s3, b_put; setters; proj; try lia; auto.
      constructor; proj; auto.
      * left. lia.
    + (* last column: pending overflow *)
      assert (E4' : col s = W) by (unfold s3, b_put in E4; setters; proj; lia).
      assert (E5 : wraps_at s3 (row s3) = false).
      { unfold s3, b_put, wraps_at. setters. proj. apply (Hnow (row s)). lia. }
      rewrite E5.
      rewrite wrap_scroll_noop; unfold s3, b_put; setters; proj; try lia; auto.
      constructor; proj; auto.
      * right. lia.
  - (* pending overflow: the character goes to the first cell of the next row *)
    replace (vc >? W) with true by lia. cbv zeta.
    assert (Hw0 : wraps_at s (row s) = false) by (apply Hnow; lia).
    unfold write_char.
    rewrite (consume_pending s Ho) by (auto; lia).
    set (s1 := set_rc (set_wrap (set_ovf (set_col s (width s + 1)) false) (row s) true) (row s + 1) 1).
    assert (P1 : GG s1) by (apply (GG_set_wrap s (row s) true HGG)).
    assert (N1 : nowrap_from s1 (row s + 1)).
    { intros r Hr. unfold s1. change (wraps_at (set_wrap s (row s) true) r = false).
      rewrite wraps_at_set_wrap_other by lia. apply Hnow. unfold s1, set_wrap in Hr. setters. proj. lia. }
    assert (F1 : bra s1 = false /\ col s1 = 1 /\ width s1 = W /\ height s1 = H /\ top s1 = T /\ bot s1 = B
                 /\ row s1 = row s + 1 /\ cells s1 = cells s /\ ovf s1 = false /\ same_env s0 s1).
    { unfold s1, set_wrap. setters. proj. repeat split; auto; apply Henv. }
    destruct F1 as (F1 & F2 & F3 & F4 & F5 & F6 & F7 & F8 & F9 & F10).
    destruct (Z_le_gt_dec (row s + 1) B) as [Hle | Hgt].
    + (* the next row is inside the window *)
      rewrite (wrap_scroll_noop true s1 F1) by lia.
      set (s3 := b_put s1 (row s1) (col s1) ch).
      assert (P3 : GG s3) by (apply GG_put; auto; lia).
      assert (K0 : Z.max 0 (vr - B) = 0 /\ Z.max 0 (vr + 1 - B) = 0) by lia.
      destruct K0 as [K0 K1].
      assert (E4 : col s3 <? width s3 = true) by (unfold s3, b_put; setters; proj; lia).
      rewrite E4.
      rewrite wrap_scroll_noop; unfold s3, b_put; setters; proj; try lia; auto.
      constructor; proj; auto.
      * lia.
      * left. lia.
      * intros R C HR HC. proj. rewrite F2, F7, F8, K1.
        rewrite (get_put (cells s) H W) by (auto; lia).
        rewrite (Hcells R C HR HC). rewrite K0.
        destruct ((T <=? R) && (R <=? B)) eqn:EW1.
        -- replace (R + 0 =? vr + 1) with (R =? row s + 1) by lia. reflexivity.
        -- replace (R =? row s + 1) with false by lia. reflexivity.
      * intros r c Hr. replace (r =? vr + 1) with false by lia. cbn [andb]. apply Hbelow. lia.
    + (* the window scrolls *)
      assert (Hrb : row s = B) by lia.
      rewrite (wrap_scroll_scrolls s1 F1) by lia.
      set (s2 := set_row (b_scroll_up s1 (top s1) (bot s1)) (bot s1)).
      assert (P2 : GG s2) by (apply (GG_scroll_up s1 (top s1) (bot s1) P1); lia).
      assert (F2' : bra s2 = false /\ col s2 = 1 /\ width s2 = W /\ height s2 = H /\ top s2 = T /\ bot s2 = B
                    /\ row s2 = B /\ ovf s2 = false /\ same_env s0 s2
                    /\ cells s2 = scroll_up_l W (cells s) T B).
      { unfold s2, b_scroll_up. setters. proj. rewrite F3, F5, F6, F8. repeat split; auto; apply F10. }
      destruct F2' as (A1 & A2 & A3 & A4 & A5 & A6 & A7 & A8 & A9 & A10).
      assert (N2 : nowrap_from s2 B).
      { intros r Hr. change (wraps_at (b_scroll_up s1 (top s1) (bot s1)) r = false).
        rewrite F5, F6. rewrite A4 in Hr. apply nowrap_scroll_up.
        - rewrite F4. unfold s1, set_wrap. setters. proj. rewrite upd_length. exact Hwl.
        - lia.
        - lia.
        - intros r' Hr'. apply N1. lia.
        - rewrite F4. exact Hr. }
      set (s3 := b_put s2 (row s2) (col s2) ch).
      assert (P3 : GG s3) by (apply GG_put; auto; lia).
      assert (KK : Z.max 0 (vr + 1 - B) = Z.max 0 (vr - B) + 1) by lia.
      assert (E4 : col s3 <? width s3 = true) by (unfold s3, b_put; setters; proj; lia).
      rewrite E4.
      rewrite wrap_scroll_noop; unfold s3, b_put; setters; proj; try lia; auto.
      constructor; proj; auto.
      * lia.
      * left. lia.
      * intros R C HR HC. proj. rewrite A2, A7, A10, KK.
        assert (Hsh : shape (scroll_up_l W (cells s) T B) H W) by (apply shape_scroll_up; auto; lia).
        rewrite (get_put _ H W) by (auto; lia).
        rewrite (get_scroll_up (cells s) H W) by (try apply Hshape; lia).
        destruct ((T <=? R) && (R <=? B)) eqn:EW1.
        -- destruct ((R =? B) && (C =? 1)) eqn:EP.
           ++ replace (R + (Z.max 0 (vr - B) + 1) =? vr + 1) with true by lia.
              replace (C =? 1) with true by lia. reflexivity.
           ++ destruct ((T <=? R) && (R <? B)) eqn:EW2.
              ** rewrite (Hcells (R + 1) C) by lia.
                 replace ((T <=? R + 1) && (R + 1 <=? B)) with true by lia.
                 replace (R + (Z.max 0 (vr - B) + 1) =? vr + 1) with false by lia. cbn [andb].
                 f_equal. lia.
              ** replace (R =? B) with true by lia.
                 replace (R =? B) with true in EP by lia. cbn [andb] in EP. rewrite EP.
                 rewrite andb_false_r. symmetry. apply Hbelow. lia.
        -- replace ((R =? B) && (C =? 1)) with false by lia.
           replace ((T <=? R) && (R <? B)) with false by lia.
           replace (R =? B) with false by lia.
           rewrite (Hcells R C HR HC). rewrite EW1. reflexivity.
      * intros r c Hr. replace (r =? vr + 1) with false by lia. cbn [andb]. apply Hbelow. lia.
      * intros r Hr. proj. change (wraps_at s2 r = false). apply N2. rewrite A4 in *. rewrite A7 in Hr. exact Hr.
Qed.

Lemma rel_steps str : forall s g vr vc, rel s g vr vc ->
  rel (write_chars false s str) (fst (layout W g vr vc str)) (fst (snd (layout W g vr vc str)))
      (snd (snd (layout W g vr vc str))).
Proof.
  induction str as [|ch t IH]; intros s g vr vc Hrel.
  - exact Hrel.
  - cbn [layout]. cbv zeta.
    apply (IH (write_char false s ch)). apply rel_step. exact Hrel.
Qed.

End Placement.

(* the page the printing starts on: the rows of the screen down to the last row of the window, blank below *)
Definition page0 (s0 : st) : vgrid := fun r c => if r <=? bot s0 then get_cell (cells s0) r c else 32.

Lemma rel_init s0 : INV s0 -> bra s0 = false -> ovf s0 = false -> top s0 <= row s0 <= bot s0 ->
  nowrap_from s0 (row s0) -> rel s0 s0 (page0 s0) (row s0) (col s0).
Proof.
  intros [[Hg Hgr] [Hr Hc]] Hb Ho Hrow Hn.
  assert (K0 : Z.max 0 (row s0 - bot s0) = 0) by lia.
  constructor.
  - apply same_env_refl.
  - split; auto.
  - exact Hb.
  - lia.
  - left. auto.
  - intros R C HR HC. rewrite K0. unfold page0. cbv beta.
    destruct ((top s0 <=? R) && (R <=? bot s0)) eqn:E; auto.
    replace (R + 0 <=? bot s0) with true by lia. f_equal. lia.
  - intros r c Hgt. unfold page0. cbv beta. replace (r <=? bot s0) with false by lia. reflexivity.
  - exact Hn.
Qed.

(* ---- the layout in closed form: character i of the string is at linear position lin0 + i *)
Definition lin (W r c : Z) : Z := r * W + (c - 1).

Lemma lin_inj W r c r' c' : 1 <= c <= W -> 1 <= c' <= W -> lin W r c = lin W r' c' -> r = r' /\ c = c'.
Proof. unfold lin. intros Hc Hc' E. assert (r = r') by nia. subst. lia. Qed.

Lemma layout_closed W str : 2 <= W -> forall g vr vc, 1 <= vc <= W + 1 ->
  (forall r c, 1 <= c <= W ->
     fst (layout W g vr vc str) r c =
       let p := lin W r c - lin W vr vc in
       if (0 <=? p) && (p <? Z.of_nat (length str)) then nth (Z.to_nat p) str 32 else g r c) /\
  lin W (fst (snd (layout W g vr vc str))) (snd (snd (layout W g vr vc str))) = lin W vr vc + Z.of_nat (length str) /\
  (str <> [] -> 2 <= snd (snd (layout W g vr vc str)) <= W + 1) /\
  (str = [] -> snd (layout W g vr vc str) = (vr, vc)).
Proof.
  intros HW. induction str as [|ch t IH]; intros g vr vc Hvc.
  - cbn [layout fst snd length]. split; [|split; [|split]]; try congruence.
    + intros r c Hc. cbv zeta.
      match goal with |- _ = (if ?b then _ else _) => destruct b eqn:E end; [simpl in E; lia | reflexivity].
    + lia.
  - cbn [layout]. cbv zeta.
    set (vr1 := if vc >? W then vr + 1 else vr).
    set (vc1 := if vc >? W then 1 else vc).
    assert (Hv1 : 1 <= vc1 <= W /\ lin W vr1 vc1 = lin W vr vc).
    { unfold vr1, vc1, lin. destruct (vc >? W) eqn:E; [|lia]. assert (vc = W + 1) by lia. subst. split; [lia|]. ring. }
    destruct Hv1 as [Hv1 Hl1].
    destruct (IH (fun r c => if (r =? vr1) && (c =? vc1) then ch else g r c) vr1 (vc1 + 1) ltac:(lia))
      as (I1 & I2 & I3 & I4).
    assert (Hl2 : lin W vr1 (vc1 + 1) = lin W vr vc + 1) by (unfold lin in *; lia).
    split; [|split; [|split]].
    + intros r c Hc. rewrite (I1 r c Hc). cbv zeta. rewrite Hl2. cbn [length].
      destruct ((0 <=? lin W r c - (lin W vr vc + 1)) && (lin W r c - (lin W vr vc + 1) <? Z.of_nat (length t))) eqn:E.
      * replace ((0 <=? lin W r c - lin W vr vc) && (lin W r c - lin W vr vc <? Z.of_nat (S (length t)))) with true by lia.
        replace (Z.to_nat (lin W r c - lin W vr vc)) with (S (Z.to_nat (lin W r c - (lin W vr vc + 1)))) by lia.
        reflexivity.
      * destruct ((r =? vr1) && (c =? vc1)) eqn:E2.
        -- assert (r = vr1 /\ c = vc1) as [-> ->] by lia. rewrite Hl1.
           replace (lin W vr vc - lin W vr vc) with 0 by lia. cbn. reflexivity.
        -- destruct ((0 <=? lin W r c - lin W vr vc) && (lin W r c - lin W vr vc <? Z.of_nat (S (length t)))) eqn:E3; auto.
           assert (lin W r c = lin W vr1 vc1) by lia.
           destruct (lin_inj W r c vr1 vc1 Hc Hv1 H). subst. lia.
    + rewrite I2. rewrite Hl2. cbn [length]. lia.
    + intros _. destruct t as [|ch' t'].
      * rewrite (I4 eq_refl). cbn [snd]. lia.
      * apply I3. congruence.
    + congruence.
Qed.

(* the position in rows and columns of a linear index *)
Lemma lin_divmod W r c q : 1 <= W -> 1 <= c <= W -> 0 <= q -> lin W r c = q -> r = q / W /\ c = q mod W + 1.
Proof.
  unfold lin. intros HW Hc Hq E.
  assert (E' : q = W * r + (c - 1)) by lia.
  assert (r = q / W) by (apply (Z.div_unique_pos q W r (c - 1)); lia).
  assert (c - 1 = q mod W) by (apply (Z.mod_unique_pos q W r (c - 1)); lia).
  lia.
Qed.
