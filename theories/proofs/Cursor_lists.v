(* C36: list-level facts about the row operations of the text buffer (insert / delete / item assignment),
   and their reading as re-indexing of cells. *)
From Coq Require Import ZArith List Bool Lia ZifyBool Arith.
From PCB Require Import lib.Result lib.PyInt model.Cursor.
Import ListNotations.
Open Scope Z_scope.

Section Generic.
Context {A : Type}.

Lemma upd_length n (x : A) l : length (upd n x l) = length l.
Proof. revert n; induction l as [|y t IH]; intros [|n]; simpl; auto. Qed.

Lemma nth_upd n m (x d : A) l : (n < length l)%nat ->
  nth m (upd n x l) d = if Nat.eqb m n then x else nth m l d.
Proof.
  revert n m; induction l as [|y t IH]; intros n m Hn; simpl in Hn; [lia|].
  destruct n as [|n]; destruct m as [|m]; simpl; auto.
  apply IH. lia.
Qed.

Lemma nth_upd_other n m (x d : A) l : m <> n -> nth m (upd n x l) d = nth m l d.
Proof.
  revert n m; induction l as [|y t IH]; intros n m Hn.
  - destruct n; reflexivity.
  - destruct n as [|n]; destruct m as [|m]; simpl; auto; try congruence.
Qed.

Lemma insert_at_length n (x : A) l : (n <= length l)%nat -> length (insert_at n x l) = S (length l).
Proof.
  intros H. unfold insert_at. rewrite app_length. simpl. rewrite firstn_length, skipn_length. lia.
Qed.

Lemma nth_insert_at n m (x d : A) l : (n <= length l)%nat ->
  nth m (insert_at n x l) d =
    if Nat.ltb m n then nth m l d else if Nat.eqb m n then x else nth (m - 1) l d.
Proof.
  revert n m; induction l as [|y t IH]; intros n m Hn; simpl in Hn.
  - assert (n = 0)%nat by lia. subst. unfold insert_at. simpl.
    destruct m as [|m]; simpl; auto. destruct m; reflexivity.
  - destruct n as [|n].
    + unfold insert_at. simpl. destruct m as [|m]; simpl; auto. rewrite Nat.sub_0_r. reflexivity.
    + unfold insert_at in *. simpl. destruct m as [|m]; simpl; auto.
      rewrite IH by lia.
      change (Nat.ltb (S m) (S n)) with (Nat.ltb m n). change (Nat.eqb (S m) (S n)) with (Nat.eqb m n).
      destruct (Nat.ltb m n) eqn:E1; auto. destruct (Nat.eqb m n) eqn:E2; auto.
      rewrite Nat.sub_0_r. destruct m as [|m]; [lia|]. simpl. rewrite Nat.sub_0_r. reflexivity.
Qed.

Lemma delete_at_length n (l : list A) : (n < length l)%nat -> length (delete_at n l) = pred (length l).
Proof.
  intros H. unfold delete_at. rewrite app_length, firstn_length, skipn_length. lia.
Qed.

Lemma nth_delete_at n m (d : A) l :
  nth m (delete_at n l) d = if Nat.ltb m n then nth m l d else nth (S m) l d.
Proof.
  revert n m; induction l as [|y t IH]; intros n m.
  - unfold delete_at. rewrite firstn_nil, skipn_nil. simpl.
    destruct (Nat.ltb m n); destruct m; reflexivity.
  - destruct n as [|n].
    + unfold delete_at. simpl. reflexivity.
    + unfold delete_at in *. simpl. destruct m as [|m]; simpl; auto.
      rewrite IH. change (Nat.ltb (S m) (S n)) with (Nat.ltb m n). reflexivity.
Qed.

Lemma mapi_from_length i f (l : list A) : length (mapi_from i f l) = length l.
Proof. revert i; induction l as [|y t IH]; intros i; simpl; auto. Qed.

Lemma nth_mapi_from i f n (d : A) l : (n < length l)%nat ->
  nth n (mapi_from i f l) d = f (i + Z.of_nat n) (nth n l d).
Proof.
  revert i n; induction l as [|y t IH]; intros i n Hn; simpl in Hn; [lia|].
  destruct n as [|n]; simpl.
  - f_equal. lia.
  - rewrite IH by lia. f_equal. lia.
Qed.

Lemma nth_repeat_in (x d : A) n m : (m < n)%nat -> nth m (repeat x n) d = x.
Proof. revert m; induction n as [|n IH]; intros m H; [lia|]. destruct m; simpl; auto. apply IH. lia. Qed.

End Generic.

(* ---- the character grid *)
Definition shape (cs : list (list Z)) (h w : Z) : Prop :=
  length cs = zn h /\ forall n, (n < zn h)%nat -> length (nth n cs []) = zn w.

Lemma blank_row_length w : length (blank_row w) = zn w.
Proof. unfold blank_row. apply repeat_length. Qed.

Lemma nth_blank_row w n : nth n (blank_row w) 32 = 32.
Proof.
  unfold blank_row. destruct (Nat.ltb n (zn w)) eqn:E.
  - apply nth_repeat_in. apply Nat.ltb_lt; auto.
  - apply nth_overflow. rewrite repeat_length. apply Nat.ltb_ge; auto.
Qed.

Lemma get_blank cs r c w : nth (zn (r - 1)) cs [] = blank_row w -> get_cell cs r c = 32.
Proof. intros H. unfold get_cell. rewrite H. apply nth_blank_row. Qed.

Lemma shape_put cs h w r c ch : shape cs h w -> shape (put_l cs r c ch) h w.
Proof.
  intros [Hl Hr]. unfold put_l. split.
  - rewrite upd_length; auto.
  - intros n Hn. destruct (Nat.eq_dec n (zn (r - 1))) as [->|Hne].
    + rewrite nth_upd by lia. rewrite Nat.eqb_refl. rewrite upd_length. apply Hr; auto.
    + rewrite nth_upd_other by auto. apply Hr; auto.
Qed.

Lemma get_put cs h w r c ch R C : shape cs h w ->
  1 <= r <= h -> 1 <= c <= w -> 1 <= R <= h -> 1 <= C <= w ->
  get_cell (put_l cs r c ch) R C = if (R =? r) && (C =? c) then ch else get_cell cs R C.
Proof.
  intros [Hl Hr] Hr1 Hc1 HR HC. unfold get_cell, put_l.
  rewrite nth_upd by (unfold zn in *; lia).
  destruct (Nat.eqb (zn (R - 1)) (zn (r - 1))) eqn:E1.
  - apply Nat.eqb_eq in E1. assert (R = r) by (unfold zn in *; lia). subst R.
    rewrite Z.eqb_refl. simpl.
    rewrite nth_upd by (rewrite Hr by (unfold zn in *; lia); unfold zn in *; lia).
    destruct (Nat.eqb (zn (C - 1)) (zn (c - 1))) eqn:E2.
    + apply Nat.eqb_eq in E2. assert (C = c) by (unfold zn in *; lia). subst. rewrite Z.eqb_refl. reflexivity.
    + apply Nat.eqb_neq in E2. destruct (C =? c) eqn:E3; auto. apply Z.eqb_eq in E3. subst. congruence.
  - apply Nat.eqb_neq in E1. destruct (R =? r) eqn:E3; auto. apply Z.eqb_eq in E3. subst. congruence.
Qed.

(* scroll_up(a, b) = insert a blank row behind row b, delete row a *)
Definition scroll_up_l (w : Z) (cs : list (list Z)) (a b : Z) : list (list Z) :=
  delete_at (zn (a - 1)) (insert_at (zn b) (blank_row w) cs).
(* scroll_down(a, b) = insert a blank row before row a, delete what was row b *)
Definition scroll_down_l (w : Z) (cs : list (list Z)) (a b : Z) : list (list Z) :=
  delete_at (zn b) (insert_at (zn (a - 1)) (blank_row w) cs).

Lemma nth_scroll_up_l w cs h a b R : length cs = zn h -> 1 <= a <= b -> b <= h -> 1 <= R <= h ->
  nth (zn (R - 1)) (scroll_up_l w cs a b) [] =
    if (a <=? R) && (R <? b) then nth (zn R) cs []
    else if R =? b then blank_row w else nth (zn (R - 1)) cs [].
Proof.
  intros Hl Ha Hb HR. unfold scroll_up_l. rewrite nth_delete_at.
  destruct (Nat.ltb (zn (R - 1)) (zn (a - 1))) eqn:E1.
  - apply Nat.ltb_lt in E1. rewrite nth_insert_at by (unfold zn in *; lia).
    assert (R < a) by (unfold zn in *; lia).
    replace (Nat.ltb (zn (R - 1)) (zn b)) with true by (symmetry; apply Nat.ltb_lt; unfold zn in *; lia).
    replace (a <=? R) with false by lia. cbn [andb].
    replace (R =? b) with false by lia. reflexivity.
  - apply Nat.ltb_ge in E1. assert (a <= R) by (unfold zn in *; lia).
    rewrite nth_insert_at by (unfold zn in *; lia).
    replace (a <=? R) with true by lia. cbn [andb].
    destruct (R <? b) eqn:E2.
    + replace (Nat.ltb (S (zn (R - 1))) (zn b)) with true by (symmetry; apply Nat.ltb_lt; unfold zn in *; lia).
      f_equal. unfold zn in *; lia.
    + replace (Nat.ltb (S (zn (R - 1))) (zn b)) with false by (symmetry; apply Nat.ltb_ge; unfold zn in *; lia).
      destruct (R =? b) eqn:E3.
      * replace (Nat.eqb (S (zn (R - 1))) (zn b)) with true by (symmetry; apply Nat.eqb_eq; unfold zn in *; lia).
        reflexivity.
      * replace (Nat.eqb (S (zn (R - 1))) (zn b)) with false by (symmetry; apply Nat.eqb_neq; unfold zn in *; lia).
        f_equal. unfold zn in *; lia.
Qed.

Lemma nth_scroll_down_l w cs h a b R : length cs = zn h -> 1 <= a <= b -> b <= h -> 1 <= R <= h ->
  nth (zn (R - 1)) (scroll_down_l w cs a b) [] =
    if (a <? R) && (R <=? b) then nth (zn (R - 2)) cs []
    else if R =? a then blank_row w else nth (zn (R - 1)) cs [].
Proof.
  intros Hl Ha Hb HR. unfold scroll_down_l. rewrite nth_delete_at.
  destruct (Nat.ltb (zn (R - 1)) (zn b)) eqn:E1.
  - apply Nat.ltb_lt in E1. assert (R <= b) by (unfold zn in *; lia).
    rewrite nth_insert_at by (unfold zn in *; lia).
    destruct (Nat.ltb (zn (R - 1)) (zn (a - 1))) eqn:E2.
    + apply Nat.ltb_lt in E2. replace (a <? R) with false by (unfold zn in *; lia). cbn [andb].
      replace (R =? a) with false by (unfold zn in *; lia). reflexivity.
    + apply Nat.ltb_ge in E2. destruct (Nat.eqb (zn (R - 1)) (zn (a - 1))) eqn:E3.
      * apply Nat.eqb_eq in E3. replace (a <? R) with false by (unfold zn in *; lia). cbn [andb].
        replace (R =? a) with true by (unfold zn in *; lia). reflexivity.
      * apply Nat.eqb_neq in E3. replace (a <? R) with true by (unfold zn in *; lia).
        replace (R <=? b) with true by lia. cbn [andb]. f_equal. unfold zn in *; lia.
  - apply Nat.ltb_ge in E1. assert (b < R) by (unfold zn in *; lia).
    rewrite nth_insert_at by (unfold zn in *; lia).
    replace (Nat.ltb (S (zn (R - 1))) (zn (a - 1))) with false by (symmetry; apply Nat.ltb_ge; unfold zn in *; lia).
    replace (Nat.eqb (S (zn (R - 1))) (zn (a - 1))) with false by (symmetry; apply Nat.eqb_neq; unfold zn in *; lia).
    replace (R <=? b) with false by lia. rewrite andb_false_r.
    replace (R =? a) with false by lia. f_equal. unfold zn in *; lia.
Qed.

Lemma shape_scroll_up cs h w a b : shape cs h w -> 1 <= a <= b -> b <= h -> shape (scroll_up_l w cs a b) h w.
Proof.
  intros [Hl Hr] Ha Hb. split.
  - unfold scroll_up_l. rewrite delete_at_length; rewrite insert_at_length; unfold zn in *; lia.
  - intros n Hn. replace n with (zn (Z.of_nat n + 1 - 1)) by (unfold zn; lia).
    rewrite (nth_scroll_up_l w cs h) by (unfold zn in *; lia).
    destruct ((a <=? Z.of_nat n + 1) && (Z.of_nat n + 1 <? b)) eqn:E.
    + apply Hr. unfold zn in *; lia.
    + destruct (Z.of_nat n + 1 =? b); [apply blank_row_length | apply Hr; unfold zn in *; lia].
Qed.

Lemma shape_scroll_down cs h w a b : shape cs h w -> 1 <= a <= b -> b <= h -> shape (scroll_down_l w cs a b) h w.
Proof.
  intros [Hl Hr] Ha Hb. split.
  - unfold scroll_down_l. rewrite delete_at_length; rewrite insert_at_length; unfold zn in *; lia.
  - intros n Hn. replace n with (zn (Z.of_nat n + 1 - 1)) by (unfold zn; lia).
    rewrite (nth_scroll_down_l w cs h) by (unfold zn in *; lia).
    destruct ((a <? Z.of_nat n + 1) && (Z.of_nat n + 1 <=? b)) eqn:E.
    + apply Hr. unfold zn in *; lia.
    + destruct (Z.of_nat n + 1 =? a); [apply blank_row_length | apply Hr; unfold zn in *; lia].
Qed.

Lemma get_scroll_up cs h w a b R C : length cs = zn h -> 1 <= a <= b -> b <= h -> 1 <= R <= h ->
  get_cell (scroll_up_l w cs a b) R C =
    if (a <=? R) && (R <? b) then get_cell cs (R + 1) C
    else if R =? b then 32 else get_cell cs R C.
Proof.
  intros Hl Ha Hb HR. unfold get_cell at 1. rewrite (nth_scroll_up_l w cs h) by auto.
  destruct ((a <=? R) && (R <? b)).
  - unfold get_cell. do 2 f_equal. unfold zn; lia.
  - destruct (R =? b); [apply nth_blank_row | reflexivity].
Qed.

Lemma get_scroll_down cs h w a b R C : length cs = zn h -> 1 <= a <= b -> b <= h -> 1 <= R <= h ->
  get_cell (scroll_down_l w cs a b) R C =
    if (a <? R) && (R <=? b) then get_cell cs (R - 1) C
    else if R =? a then 32 else get_cell cs R C.
Proof.
  intros Hl Ha Hb HR. unfold get_cell at 1. rewrite (nth_scroll_down_l w cs h) by auto.
  destruct ((a <? R) && (R <=? b)).
  - unfold get_cell. do 2 f_equal. unfold zn; lia.
  - destruct (R =? a); [apply nth_blank_row | reflexivity].
Qed.

Definition clear_l (w : Z) (cs : list (list Z)) (a b : Z) : list (list Z) :=
  mapi_from 1 (fun i rw => if in_rows a b i then blank_row w else rw) cs.

Lemma shape_clear cs h w a b : shape cs h w -> shape (clear_l w cs a b) h w.
Proof.
  intros [Hl Hr]. unfold clear_l. split.
  - rewrite mapi_from_length; auto.
  - intros n Hn. rewrite nth_mapi_from by lia.
    destruct (in_rows a b (1 + Z.of_nat n)); [apply blank_row_length | apply Hr; auto].
Qed.

Lemma get_clear cs h w a b R C : length cs = zn h -> 1 <= R <= h ->
  get_cell (clear_l w cs a b) R C = if in_rows a b R then 32 else get_cell cs R C.
Proof.
  intros Hl HR. unfold get_cell at 1, clear_l. rewrite nth_mapi_from by (unfold zn in *; lia).
  replace (1 + Z.of_nat (zn (R - 1))) with R by (unfold zn; lia).
  destruct (in_rows a b R); [apply nth_blank_row | reflexivity].
Qed.

Lemma shape_new h w : 0 <= h -> shape (repeat (blank_row w) (zn h)) h w.
Proof.
  intros Hh. split.
  - apply repeat_length.
  - intros n Hn. rewrite nth_repeat_in by auto. apply blank_row_length.
Qed.

Lemma get_new h w R C : 1 <= R <= h -> get_cell (repeat (blank_row w) (zn h)) R C = 32.
Proof.
  intros HR. apply (get_blank _ _ _ w). apply nth_repeat_in. unfold zn; lia.
Qed.
