(* C31: pixelwise semantics of PUT with every action verb (PSET, PRESET, AND, OR, XOR): after an accepted PUT the
   rectangle reads back as the action applied cell by cell to the old contents and the sprite, and every cell
   outside the rectangle keeps its value. *)
From Coq Require Import ZArith List Bool Lia ZifyBool.
From PCB Require Import lib.Result lib.PyInt lib.GfxPrims gen.Gen_viewport gen.Gen_raster
  model.Matrix model.Viewport model.Raster model.Sprite
  proofs.Matrix_proofs proofs.Viewport_proofs proofs.Raster_safe proofs.Raster_proofs proofs.Sprite_proofs
  proofs.Sprite_put proofs.Put_xor proofs.Raster_cells.
Import ListNotations.
Open Scope Z_scope.

(* what PUT writes: op 0 PSET, 1 PRESET (complement within the mode's bit depth), 2 AND, 3 OR, else XOR *)
Definition put_block (op bpp : Z) (cur sprite : matrix) : matrix :=
  if op =? 0 then sprite
  else if op =? 1 then map (map (fun v => Z.lxor v (2 ^ bpp - 1))) sprite
  else if op =? 2 then mat_zip Z.land cur sprite
  else if op =? 3 then mat_zip Z.lor cur sprite
  else mat_zip Z.lxor cur sprite.

Lemma put_block_shape : forall op bpp cur sprite n c,
  length cur = n -> length sprite = n ->
  Forall (fun r => length r = c) cur -> Forall (fun r => length r = c) sprite ->
  length (put_block op bpp cur sprite) = n /\ Forall (fun r => length r = c) (put_block op bpp cur sprite).
Proof.
  intros op bpp cur sprite n c Hc Hs Fc Fs. unfold put_block.
  destruct (op =? 0); [split; assumption|].
  destruct (op =? 1).
  { split; [rewrite map_length; exact Hs|]. apply Forall_forall. intros r Hr. apply in_map_iff in Hr.
    destruct Hr as [r0 [E Hr0]]. subst r. rewrite map_length. rewrite Forall_forall in Fs. apply Fs. exact Hr0. }
  destruct (op =? 2); [apply mat_zip_shape; assumption|].
  destruct (op =? 3); apply mat_zip_shape; assumption.
Qed.

Theorem exec_put_semantics : forall st x y sprite op,
  good_state st -> g_text st = false -> rect_sprite sprite ->
  fst (exec st (SPut x y sprite op)) = Ok tt ->
  let vp := g_vp st in
  let x1 := x + sprite_width sprite - 1 in
  let y1 := y + zlen sprite - 1 in
  exists st', exec st (SPut x y sprite op) = (Ok tt, st')
    /\ vp_getslice vp (the_page st') y (y1 + 1) x (x1 + 1)
       = put_block op (g_bpp st) (vp_getslice vp (the_page st) y (y1 + 1) x (x1 + 1)) sprite
    /\ (forall x' y', ~ (x <= x' <= x1 /\ y <= y' <= y1) ->
          vp_cell vp (the_page st') x' y' = vp_cell vp (the_page st) x' y').
Proof.
  intros st x y sprite op [Hwf [Hap Hdims]] Ht Hs Hok. cbv zeta.
  assert (Hpage : same_dims (g_vp st) (the_page st)).
  { rewrite Forall_forall in Hdims. apply Hdims. unfold the_page. apply nth_In. exact Hap. }
  destruct Hpage as [Hph Hpw].
  set (vp := g_vp st) in *. set (m := the_page st) in *.
  set (x1 := x + sprite_width sprite - 1). set (y1 := y + zlen sprite - 1).
  assert (Hcont : vp_contains vp x y = true /\ vp_contains vp x1 y1 = true).
  { unfold exec in Hok. rewrite Ht, guard_graphics in Hok. cbn [stmt_reqs] in Hok. rewrite (rectify_id sprite Hs) in Hok.
    unfold put_reqs in Hok. fold vp x1 y1 in Hok.
    destruct (vp_contains vp x y); [|cbn in Hok; discriminate].
    destruct (vp_contains vp x1 y1); [split; reflexivity | cbn in Hok; discriminate]. }
  destruct Hcont as [Hc0 Hc1].
  assert (Hsw : 0 <= sprite_width sprite) by (unfold sprite_width, zlen; destruct sprite; lia).
  assert (Hsh : 0 <= zlen sprite) by (unfold zlen; lia).
  destruct (convert_inside vp x y x1 y1 Hwf Hc0 Hc1) as [Y0 [Y1 [X0 [X1 [Hcv [HY [HY1 [HYd [HX [HX1 HXd]]]]]]]]]];
    [subst x1; lia | subst y1; lia|].
  (* the offsets of the viewport *)
  assert (Hoff : exists ox oy, (forall a b, vp_convert_coords vp a b = (a + ox, b + oy)) /\ X0 = x + ox /\ Y0 = y + oy).
  { clear - Hcv Hwf Hc0 Hc1. destruct vp as [ab vx0 vy0 vx1 vy1 mw mh]. unfold wf_vp in Hwf. unfold_vp.
    cbn [vp_abs vp_x0 vp_y0 vp_x1 vp_y1 vp_maxw vp_maxh] in *.
    cbn [is_slice negb andb slice_start slice_stop opt_default] in Hcv.
    destruct ab.
    - exists 0, 0. split; [intros; f_equal; lia|]. injection Hcv as E1 E2 E3 E4. lia.
    - exists vx0, vy0. split; [intros; reflexivity|]. injection Hcv as E1 E2 E3 E4. lia. }
  destruct Hoff as [ox [oy [Hconv [EX0 EY0]]]].
  assert (Hrows : slice_bounds (zlen m) (Some Y0) (Some Y1) = (Z.to_nat Y0, Z.to_nat Y1)).
  { rewrite slice_bounds_nonneg by (unfold zlen; lia). rewrite Hph. f_equal; f_equal; lia. }
  assert (Hcols : slice_bounds (vp_maxw vp) (Some X0) (Some X1) = (Z.to_nat X0, Z.to_nat X1)).
  { rewrite slice_bounds_nonneg by lia. f_equal; f_equal; lia. }
  assert (Hmw : 0 <= vp_maxw vp) by (unfold wf_vp in Hwf; lia).
  set (ra := Z.to_nat Y0) in *. set (rb := Z.to_nat Y1) in *. set (ca := Z.to_nat X0) in *. set (cb := Z.to_nat X1) in *.
  assert (Hab : (ra <= rb)%nat) by lia. assert (Hb : (rb <= length m)%nat) by (unfold zlen in Hph; lia).
  assert (Hsl : length sprite = (rb - ra)%nat) by (unfold zlen in *; subst y1; lia).
  assert (Hsf : Forall (fun r => length r = (cb - ca)%nat) sprite).
  { eapply Forall_impl; [|exact Hs]. intros r Hr. cbv beta in Hr. unfold zlen in Hr. subst x1. lia. }
  set (cur := getrows (Some X0) (Some X1) m ra rb).
  destruct (getrows_shape (Some X0) (Some X1) (vp_maxw vp) ca cb m ra rb Hcols Hmw Hpw Hab Hb) as [Hcl Hcf].
  fold cur in Hcl, Hcf.
  set (blk := put_block op (g_bpp st) cur sprite).
  destruct (put_block_shape op (g_bpp st) cur sprite _ _ Hcl Hsl Hcf Hsf) as [Hbl Hbf]. fold blk in Hbl, Hbf.
  set (m' := setrows (Some X0) (Some X1) m ra (rb - ra) blk).
  assert (Hget : vp_getslice vp m y (y1 + 1) x (x1 + 1) = cur).
  { unfold vp_getslice. rewrite Hcv. unfold mat_getslice. rewrite Hrows. reflexivity. }
  (* the execution *)
  assert (He : exec st (SPut x y sprite op)
               = (Ok tt, GS (g_text st) (g_bpp st) (set_page (g_pages st) (g_apage st) m') (g_apage st) vp)).
  { unfold exec. rewrite Ht, guard_graphics. cbn [stmt_reqs]. rewrite (rectify_id sprite Hs).
    unfold put_reqs. fold vp x1 y1. rewrite Hc0, Hc1. cbn [negb bind vp_run].
    fold m. rewrite Hget. fold (put_block op (g_bpp st) cur sprite). fold blk.
    unfold vp_setitem. cbn [rq_y rq_x rq_data]. rewrite Hcv. cbn [mat_setitem]. rewrite Hrows. cbn [bind stmt_err Z.eqb].
    reflexivity. }
  eexists. split; [exact He|].
  rewrite the_page_set' by exact Hap.
  assert (Hm'l : zlen m' = zlen m) by (unfold m', setrows, zlen; rewrite length_upd_rows; reflexivity).
  split.
  - (* read back *)
    unfold vp_getslice. rewrite Hcv. unfold mat_getslice. rewrite Hm'l, Hrows.
    fold (getrows (Some X0) (Some X1) m' ra rb). unfold m'.
    apply (get_set (Some X0) (Some X1) (vp_maxw vp) ca cb Hcols m ra rb blk Hpw Hab Hb Hbl Hbf).
  - (* nothing else changes *)
    intros x' y' Hout. unfold vp_cell. rewrite Hconv.
    destruct (cell_dec (cellZ m' (y' + oy) (x' + ox)) (cellZ m (y' + oy) (x' + ox))) as [E|E]; [exact E|].
    exfalso. destruct (cellZ_neg _ _ _ _ E) as [Hcy Hcx]. rewrite !cellZ_cell in E by assumption.
    assert (Hset : mat_setitem m (ISlice (Some Y0) (Some Y1)) (ISlice (Some X0) (Some X1)) (Block blk) = Ok m').
    { cbn [mat_setitem]. rewrite Hrows. reflexivity. }
    assert (Hfit : let '(a, b) := slice_bounds (vp_maxw vp) (Some X0) (Some X1) in
                   Forall (fun s0 => length s0 = (b - a)%nat) blk) by (rewrite Hcols; exact Hbf).
    pose proof (mat_setitem_rect m Y0 Y1 X0 X1 (Block blk) m' (vp_maxw vp) (Z.to_nat (y' + oy)) (Z.to_nat (x' + ox))
                  ltac:(lia) ltac:(lia) ltac:(lia) ltac:(lia) Hmw Hpw Hfit Hset) as [_ Hin].
    specialize (Hin E). apply Hout. subst x1 y1. lia.
Qed.
