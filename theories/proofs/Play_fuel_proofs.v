(* C42: the scanner `lex` is total on strings without X substrings: one fuel unit per byte suffices, CFuel never
   appears.  (With X the string can grow; the real code loops forever on a self-referencing substring.) *)
From Coq Require Import ZArith List Bool Lia ZifyBool.
From PCB Require Import lib.Result lib.PyInt gen.Gen_play model.Play proofs.Play_proofs.
Import ListNotations.
Open Scope Z_scope.

Definition suffix (r s : list Z) : Prop := exists p, s = p ++ r.

Lemma suffix_refl s : suffix s s.
Proof. exists []. reflexivity. Qed.

Lemma suffix_cons c r s : suffix r s -> suffix r (c :: s).
Proof. intros [p ->]. exists (c :: p). reflexivity. Qed.

Lemma suffix_trans a b c : suffix a b -> suffix b c -> suffix a c.
Proof. intros [p ->] [q ->]. exists (q ++ p). rewrite app_assoc. reflexivity. Qed.

Lemma suffix_length r s : suffix r s -> (length r <= length s)%nat.
Proof. intros [p ->]. rewrite app_length. lia. Qed.

Lemma suffix_tail c r s : suffix (c :: r) s -> suffix r s.
Proof. intros [p ->]. exists (p ++ [c]). rewrite <- app_assoc. reflexivity. Qed.

Lemma suffix_nil s : suffix [] s.
Proof. exists s. rewrite app_nil_r. reflexivity. Qed.

(* no X / x anywhere *)
Definition no_x (s : list Z) : Prop := Forall (fun c => c <> 88 /\ c <> 120) s.

Lemma no_x_suffix r s : suffix r s -> no_x s -> no_x r.
Proof. intros [p ->] H. apply Forall_app in H. tauto. Qed.

Lemma skip_blank_suffix s : suffix (skip_blank s) s.
Proof.
  induction s as [|a s IH]; simpl; [apply suffix_refl|].
  destruct (a =? 32); [apply suffix_cons, IH|apply suffix_refl].
Qed.

Lemma lit_digits_suffix s : forall acc, suffix (snd (lit_digits acc s)) s.
Proof.
  induction s as [|a s IH]; intros acc; simpl; [apply suffix_refl|].
  destruct (a =? 32); [apply suffix_cons, IH|].
  destruct (is_digit a); [apply suffix_cons, IH|apply suffix_refl].
Qed.

Lemma read_dots_suffix s : suffix (snd (read_dots s)) s.
Proof.
  induction s as [|a s IH]; simpl; [apply suffix_refl|].
  destruct (a =? 32); [apply suffix_cons, IH|].
  destruct (a =? 46); [|apply suffix_refl].
  destruct (read_dots s) as [n r']. simpl in *. apply suffix_cons, IH.
Qed.

Lemma span_name_suffix s : suffix (snd (span_name s)) s.
Proof.
  induction s as [|a s IH]; simpl; [apply suffix_refl|].
  destruct (is_name_char a); [|apply suffix_refl].
  destruct (span_name s) as [x y]. simpl in *. apply suffix_cons, IH.
Qed.

Lemma read_name_suffix s : suffix (snd (read_name s)) s.
Proof.
  unfold read_name. pose proof (skip_blank_suffix s) as Hs.
  destruct (skip_blank s) as [|c r]; [exact Hs|].
  destruct (is_letter c); [|exact Hs].
  pose proof (span_name_suffix (c :: r)) as Hn. destruct (span_name (c :: r)) as [nm r']. cbn [snd] in Hn.
  destruct r' as [|d r'']; [apply suffix_nil|].
  destruct (is_sigil d); cbn [snd].
  - eapply suffix_trans; [apply (suffix_tail d); exact Hn|exact Hs].
  - eapply suffix_trans; eassumption.
Qed.

(* the sub-parsers return Ok with a suffix of their input, or an error; never OutOfFuel *)
Definition parsed {A} (s : list Z) (r : res (A * list Z)) : Prop :=
  match r with
  | Ok (_, rest) => suffix rest s
  | Err _ => True
  | Host _ => True
  | OutOfFuel => False
  end.

Lemma parse_variable_parsed e s : parsed s (parse_variable e s).
Proof.
  unfold parse_variable. pose proof (read_name_suffix s) as Hn.
  destruct (read_name s) as [nm r0]. cbn [snd] in Hn. destruct nm as [|n0 nm]; [exact I|].
  pose proof (skip_blank_suffix r0) as Hb. destruct (skip_blank r0) as [|c r1]; cbn [parsed].
  - apply suffix_nil.
  - destruct ((c =? 91) || (c =? 40)); cbn [parsed]; [exact I|]. eapply suffix_trans; eassumption.
Qed.

Lemma require_semicolon_parsed s :
  match require_semicolon s with Ok r => suffix r s | Err _ => True | _ => False end.
Proof.
  unfold require_semicolon. pose proof (skip_blank_suffix s) as Hs.
  destruct (skip_blank s) as [|c r]; [exact I|].
  destruct (c =? 59); [|exact I]. apply (suffix_tail c). exact Hs.
Qed.

Lemma parse_number_parsed e s : parsed s (parse_number e s).
Proof.
  unfold parse_number. pose proof (skip_blank_suffix s) as Hs.
  destruct (skip_blank s) as [|c r0]; [exact I|].
  remember (if (c =? 43) || (c =? 45) then r0 else c :: r0) as s2 eqn:E2.
  assert (H2 : suffix s2 s).
  { subst s2. destruct ((c =? 43) || (c =? 45)); [apply (suffix_tail c); exact Hs|exact Hs]. }
  clear E2. destruct s2 as [|c2 r2]; [exact I|].
  destruct (c2 =? 61).
  - destruct r2 as [|c3 r3]; [exact I|]. destruct (c3 >? 8); [|exact I].
    pose proof (parse_variable_parsed e (c3 :: r3)) as Hv.
    destruct (parse_variable e (c3 :: r3)) as [[v r4]| | |]; cbn [bind parsed fst snd] in *; try exact I;
      [|contradiction].
    destruct v as [z|b]; [|exact I].
    pose proof (require_semicolon_parsed r4) as Hq.
    destruct (require_semicolon r4) as [r5| | |]; cbn [bind parsed] in *; try exact I; try contradiction.
    eapply suffix_trans; [exact Hq|]. eapply suffix_trans; [exact Hv|].
    apply (suffix_tail c2). exact H2.
  - destruct (is_digit c2); [|exact I].
    pose proof (lit_digits_suffix (c2 :: r2) 0) as Hd.
    destruct (lit_digits 0 (c2 :: r2)) as [z r3]. cbn [snd parsed] in *.
    eapply suffix_trans; eassumption.
Qed.

Lemma note_suffix_suffix r acc len d rest : note_suffix r = (acc, len, d, rest) -> suffix rest r.
Proof.
  unfold note_suffix. pose proof (skip_blank_suffix r) as H1.
  destruct (skip_blank r) as [|c r'].
  - cbn. intros H. assert (rest = []) by congruence. subst. apply suffix_nil.
  - remember (if (c =? 35) || (c =? 43) then (AccSharp, r')
              else if c =? 45 then (AccFlat, r') else (AccNone, c :: r')) as p eqn:Ep.
    assert (Hp : suffix (snd p) r).
    { subst p. destruct ((c =? 35) || (c =? 43)); cbn [snd]; [apply (suffix_tail c); exact H1|].
      destruct (c =? 45); cbn [snd]; [apply (suffix_tail c); exact H1|exact H1]. }
    clear Ep. destruct p as [acc0 s2]. cbn [snd] in Hp.
    pose proof (skip_blank_suffix s2) as H3. destruct (skip_blank s2) as [|c3 r3].
    + cbn. intros H. assert (rest = []) by congruence. subst. apply suffix_nil.
    + destruct (is_digit c3).
      * pose proof (lit_digits_suffix (c3 :: r3) 0) as Hd. destruct (lit_digits 0 (c3 :: r3)) as [z r4].
        cbn [snd] in Hd. pose proof (read_dots_suffix r4) as H5. destruct (read_dots r4) as [n s5].
        cbn [snd] in H5. intros H. assert (rest = s5) by congruence. subst.
        eapply suffix_trans; [exact H5|]. eapply suffix_trans; [exact Hd|].
        eapply suffix_trans; [exact H3|exact Hp].
      * pose proof (read_dots_suffix (c3 :: r3)) as H5. destruct (read_dots (c3 :: r3)) as [n s5].
        cbn [snd] in H5. intros H. assert (rest = s5) by congruence. subst.
        eapply suffix_trans; [exact H5|]. eapply suffix_trans; [exact H3|exact Hp].
Qed.

Lemma in_single_neq (c : cmd) : c <> CFuel -> ~ In CFuel [c].
Proof. intros H [E|[]]. congruence. Qed.

Lemma lex_cmd_no_fuel rec e c r :
  c <> 88 -> (forall r', suffix r' r -> ~ In CFuel (rec r')) -> ~ In CFuel (lex_cmd rec e c r).
Proof.
  intros Hc Hrec. unfold lex_cmd.
  assert (Hnum : forall k : Z -> list Z -> list cmd,
             (forall n rest, suffix rest r -> ~ In CFuel (k n rest)) ->
             ~ In CFuel (res_cmd (parse_number e r) k)).
  { intros k Hk. pose proof (parse_number_parsed e r) as Hp. unfold res_cmd.
    destruct (parse_number e r) as [[n rest]| | |]; cbn [parsed] in Hp.
    - apply Hk. exact Hp.
    - apply in_single_neq. discriminate.
    - apply in_single_neq. discriminate.
    - contradiction. }
  destruct (c =? 88) eqn:E1; [lia|].
  destruct (c =? 78).
  { apply Hnum. intros n rest Hs. pose proof (read_dots_suffix rest) as Hd.
    destruct (read_dots rest) as [d rest']. cbn [snd] in Hd. intros [E|Hin]; [discriminate|].
    apply (Hrec rest'); [eapply suffix_trans; eassumption|exact Hin]. }
  destruct (c =? 76).
  { apply Hnum. intros n rest Hs [E|Hin]; [discriminate|]. exact (Hrec rest Hs Hin). }
  destruct (c =? 84).
  { apply Hnum. intros n rest Hs [E|Hin]; [discriminate|]. exact (Hrec rest Hs Hin). }
  destruct (c =? 79).
  { apply Hnum. intros n rest Hs [E|Hin]; [discriminate|]. exact (Hrec rest Hs Hin). }
  destruct (c =? 62).
  { intros [E|Hin]; [discriminate|]. exact (Hrec r (suffix_refl r) Hin). }
  destruct (c =? 60).
  { intros [E|Hin]; [discriminate|]. exact (Hrec r (suffix_refl r) Hin). }
  destruct (((65 <=? c) && (c <=? 71)) || (c =? 80)).
  { destruct (note_suffix r) as [[[acc len] d] rest] eqn:En.
    pose proof (note_suffix_suffix _ _ _ _ _ En) as Hs.
    intros [E|Hin]; [destruct (c =? 80); discriminate|]. exact (Hrec rest Hs Hin). }
  destruct (c =? 77); [|apply in_single_neq; discriminate].
  pose proof (skip_blank_suffix r) as Hs. destruct (skip_blank r) as [|m r']; [apply in_single_neq; discriminate|].
  assert (Hr' : suffix r' r) by (apply (suffix_tail m); exact Hs).
  destruct (upper m =? 78); [intros [E|Hin]; [discriminate|]; exact (Hrec r' Hr' Hin)|].
  destruct (upper m =? 76); [intros [E|Hin]; [discriminate|]; exact (Hrec r' Hr' Hin)|].
  destruct (upper m =? 83); [intros [E|Hin]; [discriminate|]; exact (Hrec r' Hr' Hin)|].
  destruct (upper m =? 70); [intros [E|Hin]; [discriminate|]; exact (Hrec r' Hr' Hin)|].
  destruct (upper m =? 66); [intros [E|Hin]; [discriminate|]; exact (Hrec r' Hr' Hin)|].
  apply in_single_neq. discriminate.
Qed.

Lemma upper_not_x c : c <> 88 -> c <> 120 -> upper c <> 88.
Proof. intros H1 H2. unfold upper. destruct ((97 <=? c) && (c <=? 122)) eqn:E; lia. Qed.

Theorem lex_fuel_suffices e : forall fuel s,
  no_x s -> (length s < fuel)%nat -> ~ In CFuel (lex fuel e s).
Proof.
  induction fuel as [|f IH]; intros s Hx Hl; [lia|].
  cbn [lex]. pose proof (skip_blank_suffix s) as Hs.
  destruct (skip_blank s) as [|c0 r0]; [intros []|].
  pose proof (no_x_suffix _ _ Hs Hx) as Hx0. pose proof (suffix_length _ _ Hs) as Hl0. cbn [length] in Hl0.
  assert (Hc0 : c0 <> 88 /\ c0 <> 120) by (inversion Hx0; assumption).
  assert (Hxr0 : no_x r0) by (inversion Hx0; assumption).
  destruct (c0 =? 59).
  - pose proof (skip_blank_suffix r0) as Hs1. destruct (skip_blank r0) as [|c1 r1]; [apply in_single_neq; discriminate|].
    pose proof (no_x_suffix _ _ Hs1 Hxr0) as Hx1. pose proof (suffix_length _ _ Hs1) as Hl1. cbn [length] in Hl1.
    assert (Hc1 : c1 <> 88 /\ c1 <> 120) by (inversion Hx1; assumption).
    assert (Hxr1 : no_x r1) by (inversion Hx1; assumption).
    apply lex_cmd_no_fuel; [apply upper_not_x; tauto|].
    intros r' Hr'. apply IH; [exact (no_x_suffix _ _ Hr' Hxr1)|].
    pose proof (suffix_length _ _ Hr'). lia.
  - apply lex_cmd_no_fuel; [apply upper_not_x; tauto|].
    intros r' Hr'. apply IH; [exact (no_x_suffix _ _ Hr' Hxr0)|].
    pose proof (suffix_length _ _ Hr'). lia.
Qed.

(* hence a PLAY statement on an X-free string never ends OutOfFuel *)
Lemma step_fuel_only st c : step st c = OutOfFuel -> c = CFuel.
Proof.
  destruct c; cbn [step];
    repeat match goal with
           | |- (if ?b then _ else _) = _ -> _ => destruct b
           | |- match ?x with _ => _ end = _ -> _ => destruct x
           end; intros H; try discriminate; reflexivity.
Qed.

Lemma run_fuel_only cs : forall st, snd (run st cs) = OutOfFuel -> In CFuel cs.
Proof.
  induction cs as [|c r IH]; intros st; cbn [run].
  - cbn. discriminate.
  - destruct (step st c) as [[st1 e1]| | |] eqn:E; cbn [snd]; try discriminate.
    + specialize (IH st1). destruct (run st1 r) as [[e2 st2] s2]. cbn [snd] in *.
      intros H. right. apply IH. exact H.
    + intros _. left. exact (step_fuel_only _ _ E).
Qed.

Theorem play_total_without_x e st s :
  no_x s -> snd (play (S (length s)) e st s) <> OutOfFuel.
Proof.
  intros Hx H. unfold play in H. destruct s as [|c r]; [discriminate|].
  apply run_fuel_only in H. revert H. apply lex_fuel_suffices; [exact Hx|lia].
Qed.
