(* C17, lister side: the lister lists a canonical item sequence as the concatenation of the item texts. *)
From Coq Require Import ZArith List Bool Lia.
From PCB Require Import lib.Result lib.PyInt lib.Harness gen.Gen_tokens model.Tok model.Lister model.Lines
  proofs.Tok_tables proofs.Tok_words proofs.Tok_numbers proofs.Lines_tables.
Import ListNotations.
Open Scope Z_scope.

(* ---- byte classes ---- *)
Lemma not_number_byte s : 32 <= s -> lmem [s] tk_NUMBER = false /\ lmem [s] tk_LINE_NUMBER = false.
Proof.
  intro H. split.
  - destruct (lmem [s] tk_NUMBER) eqn:E; [|reflexivity]. apply lmem_In in E. unfold tk_NUMBER in E. simpl in E.
    repeat (destruct E as [E|E]; [inversion E; lia|]). contradiction.
  - destruct (lmem [s] tk_LINE_NUMBER) eqn:E; [|reflexivity]. apply lmem_In in E. unfold tk_LINE_NUMBER in E.
    simpl in E. repeat (destruct E as [E|E]; [inversion E; lia|]). contradiction.
Qed.

Lemma plain_ascii_range c : plain_ascii c = true -> 32 <= c <= 126 /\ c <> 34.
Proof.
  unfold plain_ascii. intro H. apply andb_true_iff in H as [H H3]. apply andb_true_iff in H as [H1 H2].
  apply Z.leb_le in H1. apply Z.leb_le in H2. apply negb_true_iff in H3. apply Z.eqb_neq in H3. lia.
Qed.

Lemma name_char_plain c : is_name_char c = true -> plain_ascii c = true.
Proof.
  intro H. apply mem_In in H. unfold tk_NAME_CHARS in H. simpl in H.
  repeat (destruct H as [H|H]; [subst; reflexivity|]). contradiction.
Qed.

Lemma raw_char_spec c : raw_char c = true ->
  (c =? 0) = false /\ (c =? 13) = false /\ lmem [c] tk_NUMBER = false /\ lmem [c] tk_LINE_NUMBER = false.
Proof.
  unfold raw_char. intro H. repeat (apply andb_true_iff in H as [H ?]).
  repeat match goal with X : negb _ = true |- _ => apply negb_true_iff in X end. auto.
Qed.

Section ListerSide.
Variable tkw kw : list (list Z * list Z).
Variable fl_str : list Z -> res (list Z).
Hypothesis Htab : tables_ok tkw kw = true.

Notation DL := (detok_loop tkw fl_str).

Lemma DL_step lit com rout s r :
  DL lit com rout O (s :: r) =
  if s =? 0 then Ok rout
  else if s =? 34 then DL (negb lit) com (s :: rout) O r
  else if lmem [s] tk_NUMBER || lmem [s] tk_LINE_NUMBER then
    let raw := firstn (plus_bytes s) r in
    bind (detok_number fl_str s (pad_trail (plus_bytes s) raw))
         (fun t => DL lit com (rev t ++ rout) (length raw) r)
  else if com || lit || ((32 <=? s) && (s <=? 126)) then DL lit com (s :: rout) O r
  else if s =? 10 then DL lit com (13 :: 10 :: rout) O r
  else if s <=? 9 then DL lit com (s :: rout) O r
  else let '(rout', com', k) := detok_keyword tkw s r rout in DL lit com' rout' k r.
Proof. reflexivity. Qed.

Lemma DL_nil lit com rout k : DL lit com rout k [] = Ok rout.
Proof. destruct k; reflexivity. Qed.

Lemma DL_skip w : forall lit com rout rest, DL lit com rout (length w) (w ++ rest) = DL lit com rout O rest.
Proof.
  induction w as [|c w IH]; intros; [reflexivity|]. cbn [length app detok_loop]. apply IH.
Qed.

Lemma DL_plain lit com rout c r : plain_ascii c = true -> DL lit com rout O (c :: r) = DL lit com (c :: rout) O r.
Proof.
  intro H. apply plain_ascii_range in H as [H1 H2]. rewrite DL_step.
  replace (c =? 0) with false by (symmetry; apply Z.eqb_neq; lia).
  replace (c =? 34) with false by (symmetry; apply Z.eqb_neq; lia).
  destruct (not_number_byte c) as [N1 N2]; [lia|]. rewrite N1, N2. cbn [orb].
  replace (32 <=? c) with true by (symmetry; apply Z.leb_le; lia).
  replace (c <=? 126) with true by (symmetry; apply Z.leb_le; lia).
  cbn [andb]. rewrite orb_true_r. reflexivity.
Qed.

Lemma DL_plain_run w : forall lit com rout rest, forallb plain_ascii w = true ->
  DL lit com rout O (w ++ rest) = DL lit com (rev w ++ rout) O rest.
Proof.
  induction w as [|c w IH]; intros lit com rout rest H; [reflexivity|].
  cbn [forallb] in H. apply andb_true_iff in H as [H1 H2].
  cbn [app]. rewrite DL_plain by exact H1. rewrite IH by exact H2. cbn [rev]. rewrite <- app_assoc. reflexivity.
Qed.

(* inside a string literal *)
Lemma DL_lit_run w : forall com rout rest, forallb str_char w = true ->
  DL true com rout O (w ++ rest) = DL true com (rev w ++ rout) O rest.
Proof.
  induction w as [|c w IH]; intros com rout rest H; [reflexivity|].
  cbn [forallb] in H. apply andb_true_iff in H as [H1 H2].
  unfold str_char in H1. apply andb_true_iff in H1 as [Hr Hq]. apply negb_true_iff in Hq.
  destruct (raw_char_spec c Hr) as [R0 [R13 [RN RL]]].
  cbn [app]. rewrite DL_step. rewrite R0, Hq, RN, RL. cbn [orb]. rewrite orb_true_r. cbn [orb].
  rewrite IH by exact H2. cbn [rev]. rewrite <- app_assoc. reflexivity.
Qed.

(* inside a comment, to the end of the line *)
Lemma DL_com_run w : forall lit rout, forallb raw_char w = true -> DL lit true rout O w = Ok (rev w ++ rout).
Proof.
  induction w as [|c w IH]; intros lit rout H; [reflexivity|].
  cbn [forallb] in H. apply andb_true_iff in H as [H1 H2].
  destruct (raw_char_spec c H1) as [R0 [R13 [RN RL]]].
  rewrite DL_step. rewrite R0, RN, RL. cbn [orb].
  destruct (c =? 34); rewrite IH by exact H2; cbn [rev]; rewrite <- app_assoc; reflexivity.
Qed.

(* a DATA tail: the lister is in its ordinary mode, literals toggle litstring *)
Lemma DL_data_run w : forall instr fin rout rest, data_scan instr w = Some fin ->
  DL instr false rout O (w ++ rest) = DL fin false (rev w ++ rout) O rest.
Proof.
  induction w as [|c w IH]; intros instr fin rout rest H.
  - cbn [data_scan] in H. inversion H. reflexivity.
  - cbn [data_scan] in H. cbn [app]. destruct instr.
    + destruct (c =? 34) eqn:Eq.
      * rewrite DL_step. apply Z.eqb_eq in Eq. subst c. cbn [Z.eqb Pos.eqb negb].
        change (34 =? 0) with false. change (34 =? 34) with true. cbv iota.
        rewrite (IH _ _ _ _ H). cbn [rev]. rewrite <- app_assoc. reflexivity.
      * destruct (raw_char c) eqn:Er; [|discriminate].
        destruct (raw_char_spec c Er) as [R0 [R13 [RN RL]]].
        rewrite DL_step. rewrite R0, Eq, RN, RL. cbn [orb].
        rewrite (IH _ _ _ _ H). cbn [rev]. rewrite <- app_assoc. reflexivity.
    + destruct (c =? 34) eqn:Eq.
      * rewrite DL_step. apply Z.eqb_eq in Eq. subst c.
        change (34 =? 0) with false. change (34 =? 34) with true. cbv iota. cbn [negb].
        rewrite (IH _ _ _ _ H). cbn [rev]. rewrite <- app_assoc. reflexivity.
      * destruct (plain_ascii c && negb (c =? 58)) eqn:Ep; [|discriminate].
        apply andb_true_iff in Ep as [Ep _].
        rewrite DL_plain by exact Ep. rewrite (IH _ _ _ _ H). cbn [rev]. rewrite <- app_assoc. reflexivity.
Qed.

(* ---- number tokens ---- *)
Lemma pad_full n raw : length raw = n -> pad_trail n raw = raw.
Proof. intro H. unfold pad_trail. rewrite H, Nat.sub_diag. apply app_nil_r. Qed.

(* a number token whose trail is complete *)
Lemma DL_number lit com rout s r :
  lmem [s] tk_NUMBER || lmem [s] tk_LINE_NUMBER = true -> (s =? 0) = false -> (s =? 34) = false ->
  length (firstn (plus_bytes s) r) = plus_bytes s ->
  DL lit com rout O (s :: r) =
  bind (detok_number fl_str s (firstn (plus_bytes s) r))
       (fun t => DL lit com (rev t ++ rout) (length (firstn (plus_bytes s) r)) r).
Proof. intros H H0 H34 Hl. rewrite DL_step, H0, H34, H. cbv zeta. rewrite pad_full by exact Hl. reflexivity. Qed.

Lemma le16_u16 v : 0 <= v < 65536 -> u16 (le16 v) = v.
Proof.
  intro H. unfold le16, u16. pose proof (Z_div_mod_eq_full v 256). lia.
Qed.

Lemma DL_const v rout rest : 0 <= v < 10 ->
  DL false false rout O ([17 + v] ++ rest) = DL false false (rev (dec_str v) ++ rout) O rest.
Proof.
  intro H. assert (C : v = 0 \/ v = 1 \/ v = 2 \/ v = 3 \/ v = 4 \/ v = 5 \/ v = 6 \/ v = 7 \/ v = 8 \/ v = 9) by lia.
  repeat (destruct C as [C|C]; [subst v; reflexivity|]). subst v. reflexivity.
Qed.

Lemma DL_byte v rout rest : 10 <= v < 256 ->
  DL false false rout O ((tk_T_BYTE ++ [v]) ++ rest) = DL false false (rev (dec_str v) ++ rout) O rest.
Proof. intro H. reflexivity. Qed.

Lemma DL_int16 v rout rest : 256 <= v < 32768 ->
  DL false false rout O ((tk_T_INT ++ le16 v) ++ rest) = DL false false (rev (dec_str v) ++ rout) O rest.
Proof.
  intro H. cbn [tk_T_INT app le16]. rewrite DL_number; [|reflexivity|reflexivity|reflexivity|reflexivity].
  change (plus_bytes 28) with 2%nat. cbn [firstn length].
  unfold detok_number. cbn [tk_T_OCT tk_T_HEX tk_T_BYTE list_Z_eqb Z.eqb Pos.eqb andb].
  change (list_Z_eqb [28] [11]) with false. change (list_Z_eqb [28] [12]) with false.
  change (list_Z_eqb [28] [15]) with false. cbv iota.
  change ((hd 0 tk_C_0 <=? 28) && (28 <=? hd 0 tk_C_10)) with false.
  change (lmem [28] tk_LINE_NUMBER) with false. cbv iota.
  unfold value_str. cbn [length bind].
  assert (E : s16 [v mod 256; v / 256] = v).
  { unfold s16. change [v mod 256; v / 256] with (le16 v). rewrite le16_u16 by lia.
    replace (v <? 32768) with true by (symmetry; apply Z.ltb_lt; lia). reflexivity. }
  rewrite E. cbn [detok_loop]. reflexivity.
Qed.

Lemma DL_int_token v rout rest : 0 <= v <= 32767 ->
  DL false false rout O (int_token v ++ rest) = DL false false (rev (dec_str v) ++ rout) O rest.
Proof.
  intro H. unfold int_token. destruct (v / 256 =? 0) eqn:E.
  - apply Z.eqb_eq in E. assert (v < 256).
    { pose proof (Z_div_mod_eq_full v 256). pose proof (Z.mod_pos_bound v 256). lia. }
    destruct (v <? 10) eqn:E10.
    + apply Z.ltb_lt in E10. apply DL_const. lia.
    + apply Z.ltb_ge in E10. apply DL_byte. lia.
  - apply Z.eqb_neq in E. apply DL_int16. split; [|lia].
    destruct (Z_lt_le_dec v 256) as [L|L]; [|exact L]. exfalso. apply E. apply Z.div_small. lia.
Qed.

Lemma DL_hex v rout rest : 0 <= v < 65536 ->
  DL false false rout O ((tk_T_HEX ++ le16 v) ++ rest) =
  DL false false (rev ([38; 72] ++ hex_str v) ++ rout) O rest.
Proof.
  intro H. cbn [tk_T_HEX app le16]. rewrite DL_number; [|reflexivity|reflexivity|reflexivity|reflexivity].
  change (plus_bytes 12) with 2%nat. cbn [firstn length].
  unfold detok_number. change (list_Z_eqb [12] tk_T_OCT) with false. change (list_Z_eqb [12] tk_T_HEX) with true.
  cbv iota. cbn [length bind].
  change [v mod 256; v / 256] with (le16 v). rewrite le16_u16 by lia. cbn [detok_loop]. reflexivity.
Qed.

Lemma DL_oct v rout rest : 0 <= v < 65536 ->
  DL false false rout O ((tk_T_OCT ++ le16 v) ++ rest) =
  DL false false (rev ([38; 79] ++ oct_str v) ++ rout) O rest.
Proof.
  intro H. cbn [tk_T_OCT app le16]. rewrite DL_number; [|reflexivity|reflexivity|reflexivity|reflexivity].
  change (plus_bytes 11) with 2%nat. cbn [firstn length].
  unfold detok_number. change (list_Z_eqb [11] tk_T_OCT) with true. cbv iota. cbn [length bind].
  change [v mod 256; v / 256] with (le16 v). rewrite le16_u16 by lia. cbn [detok_loop]. reflexivity.
Qed.

Lemma DL_jump v rout rest : 0 <= v < 65536 ->
  DL false false rout O ((tk_T_UINT ++ le16 v) ++ rest) = DL false false (rev (dec_str v) ++ rout) O rest.
Proof.
  intro H. cbn [tk_T_UINT app le16]. rewrite DL_number; [|reflexivity|reflexivity|reflexivity|reflexivity].
  change (plus_bytes 14) with 2%nat. cbn [firstn length].
  unfold detok_number. change (list_Z_eqb [14] tk_T_OCT) with false. change (list_Z_eqb [14] tk_T_HEX) with false.
  change (list_Z_eqb [14] tk_T_BYTE) with false. cbv iota.
  change ((hd 0 tk_C_0 <=? 14) && (14 <=? hd 0 tk_C_10)) with false.
  change (lmem [14] tk_LINE_NUMBER) with true. cbv iota. cbn [length bind].
  change [v mod 256; v / 256] with (le16 v). rewrite le16_u16 by lia. cbn [detok_loop]. reflexivity.
Qed.

Lemma firstn_exact (A : Type) (w rest : list A) : firstn (length w) (w ++ rest) = w.
Proof. rewrite firstn_app, Nat.sub_diag, firstn_all. cbn [firstn]. apply app_nil_r. Qed.

Lemma DL_float lead trail txt rout rest :
  ((lead =? 29) && (length trail =? 4)%nat) || ((lead =? 31) && (length trail =? 8)%nat) = true ->
  fl_str trail = Ok txt ->
  DL false false rout O ((lead :: trail) ++ rest) = DL false false (rev txt ++ rout) O rest.
Proof.
  intros H Hs. apply orb_true_iff in H as [H|H]; apply andb_true_iff in H as [H1 H2];
    apply Z.eqb_eq in H1; apply Nat.eqb_eq in H2; subst lead.
  - cbn [app]. rewrite DL_number; [|reflexivity|reflexivity|reflexivity|
      change (plus_bytes 29) with 4%nat; rewrite <- H2, firstn_exact; reflexivity].
    change (plus_bytes 29) with 4%nat. rewrite <- H2. rewrite firstn_exact.
    unfold detok_number. change (list_Z_eqb [29] tk_T_OCT) with false. change (list_Z_eqb [29] tk_T_HEX) with false.
    change (list_Z_eqb [29] tk_T_BYTE) with false. cbv iota.
    change ((hd 0 tk_C_0 <=? 29) && (29 <=? hd 0 tk_C_10)) with false.
    change (lmem [29] tk_LINE_NUMBER) with false. cbv iota.
    unfold value_str. rewrite H2. rewrite Hs. cbn [bind]. rewrite <- H2. apply DL_skip.
  - cbn [app]. rewrite DL_number; [|reflexivity|reflexivity|reflexivity|
      change (plus_bytes 31) with 8%nat; rewrite <- H2, firstn_exact; reflexivity].
    change (plus_bytes 31) with 8%nat. rewrite <- H2. rewrite firstn_exact.
    unfold detok_number. change (list_Z_eqb [31] tk_T_OCT) with false. change (list_Z_eqb [31] tk_T_HEX) with false.
    change (list_Z_eqb [31] tk_T_BYTE) with false. cbv iota.
    change ((hd 0 tk_C_0 <=? 31) && (31 <=? hd 0 tk_C_10)) with false.
    change (lmem [31] tk_LINE_NUMBER) with false. cbv iota.
    unfold value_str. rewrite H2. rewrite Hs. cbn [bind]. rewrite <- H2. apply DL_skip.
Qed.

(* ---- keyword tokens ---- *)
Lemma high_byte b : 126 < b ->
  (b =? 0) = false /\ (b =? 34) = false /\ lmem [b] tk_NUMBER = false /\ lmem [b] tk_LINE_NUMBER = false
  /\ ((32 <=? b) && (b <=? 126)) = false /\ (b =? 10) = false /\ (b <=? 9) = false.
Proof.
  intro H. destruct (not_number_byte b) as [N1 N2]; [lia|].
  repeat split; try assumption; try (apply Z.eqb_neq; lia).
  - apply andb_false_iff. right. apply Z.leb_gt. lia.
  - apply Z.leb_gt. lia.
Qed.

Lemma DL_token t k rout rest :
  assoc t tkw = Some k -> tok_shape tkw t = true ->
  DL false false rout O (t ++ rest) =
  let '(rout', com', e) := keyword_effect t k rest rout in DL false com' rout' e rest.
Proof.
  intros Ha Hs. destruct t as [|b1 [|b2 [|b3 t']]]; try discriminate.
  - cbn [tok_shape] in Hs. apply Z.ltb_lt in Hs.
    destruct (high_byte b1 Hs) as [E0 [E34 [EN [EL [EA [E10 E9]]]]]].
    cbn [app]. rewrite DL_step, E0, E34, EN, EL, EA, E10, E9. cbn [orb].
    unfold detok_keyword, lookup_token. rewrite Ha. cbn [skipn].
    destruct (keyword_effect [b1] k rest rout) as [[r' c'] e]. reflexivity.
  - cbn [tok_shape] in Hs. apply andb_true_iff in Hs as [Hs Hk]. apply Z.ltb_lt in Hs.
    apply negb_true_iff in Hk. unfold has_key in Hk.
    destruct (high_byte b1 Hs) as [E0 [E34 [EN [EL [EA [E10 E9]]]]]].
    cbn [app]. rewrite DL_step, E0, E34, EN, EL, EA, E10, E9. cbn [orb].
    unfold detok_keyword, lookup_token.
    destruct (assoc [b1] tkw); [discriminate|]. rewrite Ha. cbn [skipn].
    destruct (keyword_effect [b1; b2] k rest rout) as [[r' c'] e]. reflexivity.
Qed.

Lemma effect_plain t k r1 rout :
  needs_space_before t rout = false -> needs_space_after t (firstn 1 r1) = false ->
  list_Z_eqb t tk_REM = false -> list_Z_eqb t tk_WHILE = false -> list_Z_eqb t tk_ELSE = false ->
  keyword_effect t k r1 rout = (rev k ++ rout, lmem t tk_COMMENT, O).
Proof.
  intros H1 H2 H3 H4 H5. unfold keyword_effect. rewrite H1, H2, H3, H4, H5. reflexivity.
Qed.

(* the keyword token of an ordinary keyword *)
Lemma DL_keyword k t rout rest :
  assoc k kw = Some t -> not_special_word k = true ->
  needs_space_before t rout = false -> needs_space_after t (firstn 1 rest) = false ->
  DL false false rout O (t ++ rest) = DL false false (rev k ++ rout) O rest.
Proof.
  intros Ha Hn Hb Hf.
  destruct (entry_not_special tkw kw Htab k t Ha Hn) as [N1 [N2 [N3 N4]]].
  rewrite (DL_token t k) by (first [exact (tab_kw_tkw tkw kw Htab k t Ha) | exact (entry_shape tkw kw Htab k t Ha)]).
  rewrite effect_plain by assumption. rewrite N4. reflexivity.
Qed.


(* ---- one item ---- *)
Variable fl_tok : list Z -> res (list Z).

Lemma nsb_colon t rout : needs_space_before t (58 :: rout) = false.
Proof. unfold needs_space_before. change (mem 58 tk_ALPHANUMERIC) with false. rewrite andb_false_r. reflexivity. Qed.

Lemma op_not_special c : mem c tok_ascii_operators = true -> not_special_word [c] = true.
Proof.
  intro H. apply mem_In in H. unfold tok_ascii_operators in H. simpl in H.
  repeat (destruct H as [H|H]; [subst; reflexivity|]). contradiction.
Qed.

Lemma forallb_impl (A : Type) (p q : A -> bool) l :
  (forall x, p x = true -> q x = true) -> forallb p l = true -> forallb q l = true.
Proof.
  intros Hpq H. rewrite forallb_forall in *. intros x Hx. apply Hpq. apply H. exact Hx.
Qed.

Lemma has_key_assoc k d : has_key k d = true -> exists t, assoc k d = Some t.
Proof. unfold has_key. destruct (assoc k d) as [t|]; [eauto|discriminate]. Qed.

Lemma item_lister s rout it rest :
  item_ok kw s rout it (toks kw rest) (text rest) = true ->
  item_oracle fl_tok fl_str it ->
  (item_last it = true -> rest = []) ->
  DL false false rout O (item_toks kw it ++ toks kw rest) =
  DL false false (rev (item_text it) ++ rout) O (toks kw rest).
Proof.
  intros Hok Hor Hlast. destruct it as [ |c|c|k|n|x|n|body closed| | |tail|tail|tail];
    cbn [item_toks item_text item_ok] in *.
  - (* ISpace *) apply (DL_plain_run [32]). reflexivity.
  - (* IPunct *)
    repeat (apply andb_true_iff in Hok as [Hok ?]).
    apply (DL_plain_run [c]). cbn [forallb]. rewrite andb_true_r. unfold plain_ascii.
    apply Z.ltb_lt in Hok.
    match goal with X : (c <? 127) = true |- _ => apply Z.ltb_lt in X end.
    match goal with X : negb (c =? 34) = true |- _ => rewrite X end.
    replace (32 <=? c) with true by (symmetry; apply Z.leb_le; lia).
    replace (c <=? 126) with true by (symmetry; apply Z.leb_le; lia). reflexivity.
  - (* IOp *)
    destruct (tab_op tkw kw Htab c Hok) as [t [Ha [H1 H2]]]. unfold tok_of_kw. rewrite Ha.
    apply (DL_keyword [c] t); [exact Ha|apply op_not_special; exact Hok| |].
    + unfold needs_space_before. rewrite H1. reflexivity.
    + unfold needs_space_after. rewrite H2. reflexivity.
  - (* IKw *)
    repeat (apply andb_true_iff in Hok as [Hok ?]).
    destruct (has_key_assoc _ _ Hok) as [t Ha]. unfold tok_of_kw in *. rewrite Ha in *.
    apply (DL_keyword k t); [exact Ha|assumption| |].
    + apply negb_true_iff. assumption.
    + apply negb_true_iff. assumption.
  - (* IName *)
    apply andb_true_iff in Hok as [Hok _]. apply andb_true_iff in Hok as [Hok _].
    unfold name_ok in Hok. apply andb_true_iff in Hok as [_ Hn].
    apply DL_plain_run. apply (forallb_impl _ is_name_char); [apply name_char_plain|exact Hn].
  - (* INum *)
    apply andb_true_iff in Hok as [_ Hok]. destruct x as [v|v|v|lead trail txt]; cbn [num_ok num_toks num_text] in *.
    + repeat (apply andb_true_iff in Hok as [Hok ?]). apply Z.leb_le in Hok.
      match goal with X : (v <=? 32767) = true |- _ => apply Z.leb_le in X end.
      apply DL_int_token. lia.
    + repeat (apply andb_true_iff in Hok as [Hok ?]). apply Z.leb_le in Hok.
      match goal with X : (v <=? 65535) = true |- _ => apply Z.leb_le in X end.
      apply DL_hex. lia.
    + repeat (apply andb_true_iff in Hok as [Hok ?]). apply Z.leb_le in Hok.
      match goal with X : (v <=? 65535) = true |- _ => apply Z.leb_le in X end.
      apply DL_oct. lia.
    + apply andb_true_iff in Hok as [Hok _]. apply andb_true_iff in Hok as [Hok _].
      cbn [item_oracle] in Hor. destruct Hor as [Hs _]. apply DL_float; assumption.
  - (* IJump *)
    repeat (apply andb_true_iff in Hok as [Hok ?]).
    match goal with X : (0 <=? n) = true |- _ => apply Z.leb_le in X end.
    match goal with X : (n <=? 65529) = true |- _ => apply Z.leb_le in X end.
    apply DL_jump. lia.
  - (* IStr *)
    cbn [app]. rewrite DL_step. change (34 =? 0) with false. change (34 =? 34) with true. cbv iota. cbn [negb].
    rewrite <- app_assoc. rewrite DL_lit_run by exact Hok.
    destruct closed.
    + cbn [app]. rewrite DL_step. change (34 =? 0) with false. change (34 =? 34) with true. cbv iota. cbn [negb].
      cbn [rev]. rewrite rev_app_distr. cbn [rev app]. rewrite <- !app_assoc. reflexivity.
    + cbn [item_last negb] in Hlast. rewrite (Hlast eq_refl). cbn [toks flat_map app]. rewrite !DL_nil.
      cbn [rev]. rewrite app_nil_r. rewrite <- app_assoc. reflexivity.
  - (* IElse *)
    apply andb_true_iff in Hok as [Hf _]. apply negb_true_iff in Hf.
    cbn [app]. rewrite DL_plain by reflexivity.
    rewrite (DL_token tk_ELSE tk_KW_ELSE);
      [|exact (tab_kw_tkw tkw kw Htab _ _ (tab_else tkw kw Htab))|exact (entry_shape tkw kw Htab _ _ (tab_else tkw kw Htab))].
    unfold keyword_effect. rewrite nsb_colon, Hf. reflexivity.
  - (* IWhile *)
    apply andb_true_iff in Hok as [Hb _]. apply negb_true_iff in Hb.
    rewrite <- app_assoc.
    rewrite (DL_token tk_WHILE tk_KW_WHILE);
      [|exact (tab_kw_tkw tkw kw Htab _ _ (tab_while tkw kw Htab))|exact (entry_shape tkw kw Htab _ _ (tab_while tkw kw Htab))].
    unfold keyword_effect. rewrite Hb. reflexivity.
  - (* IRem *)
    cbn [item_last] in Hlast. rewrite (Hlast eq_refl). cbn [toks flat_map]. rewrite app_nil_r.
    apply andb_true_iff in Hok as [Hok Hhead]. apply andb_true_iff in Hok as [Hb Hraw]. apply negb_true_iff in Hb.
    rewrite (DL_token tk_REM tk_KW_REM);
      [|exact (tab_kw_tkw tkw kw Htab _ _ (tab_rem tkw kw Htab))|exact (entry_shape tkw kw Htab _ _ (tab_rem tkw kw Htab))].
    unfold keyword_effect. rewrite Hb.
    assert (Hn : list_Z_eqb (firstn 1 tail) tk_O_REM = false).
    { destruct tail as [|c tail']; [reflexivity|]. cbn [firstn]. apply andb_true_iff in Hhead as [_ Hh].
      apply negb_true_iff in Hh. exact Hh. }
    rewrite Hn. rewrite andb_false_r. cbn [andb].
    change (list_Z_eqb tk_REM tk_WHILE) with false. change (list_Z_eqb tk_REM tk_ELSE) with false. cbn [andb].
    change (needs_space_after tk_REM (firstn 1 tail)) with false.
    change (lmem tk_REM tk_COMMENT) with true.
    rewrite DL_com_run by exact Hraw. rewrite DL_nil. rewrite rev_app_distr, app_assoc. reflexivity.
  - (* IQuote *)
    cbn [item_last] in Hlast. rewrite (Hlast eq_refl). cbn [toks flat_map]. rewrite app_nil_r.
    cbn [app]. rewrite DL_plain by reflexivity.
    rewrite (DL_token tk_REM tk_KW_REM);
      [|exact (tab_kw_tkw tkw kw Htab _ _ (tab_rem tkw kw Htab))|exact (entry_shape tkw kw Htab _ _ (tab_rem tkw kw Htab))].
    unfold keyword_effect. rewrite nsb_colon.
    cbn [tk_O_REM app firstn]. change (list_Z_eqb tk_REM tk_REM) with true.
    change (list_Z_eqb [217] tk_O_REM) with true. change (58 =? 58) with true. cbn [andb tl].
    change (needs_space_after tk_REM [217]) with false. change (lmem tk_REM tk_COMMENT) with true.
    cbv beta iota zeta. cbn [detok_loop]. rewrite DL_com_run by exact Hok. rewrite ?DL_nil.
    cbn [tk_KW_O_REM rev app]. rewrite <- app_assoc. reflexivity.
  - (* IData *)
    repeat (apply andb_true_iff in Hok as [Hok ?]).
    apply negb_true_iff in Hok.
    match goal with X : negb (needs_space_after _ _) = true |- _ => apply negb_true_iff in X; rename X into Hf end.
    rewrite <- app_assoc.
    rewrite (DL_token tk_DATA tk_KW_DATA);
      [|exact (tab_kw_tkw tkw kw Htab _ _ (tab_data tkw kw Htab))|exact (entry_shape tkw kw Htab _ _ (tab_data tkw kw Htab))].
    rewrite effect_plain; [|exact Hok|exact Hf|reflexivity|reflexivity|reflexivity].
    change (lmem tk_DATA tk_COMMENT) with false.
    destruct (data_scan false tail) as [fin|] eqn:Ed; [|discriminate].
    rewrite (DL_data_run tail false fin) by exact Ed.
    destruct fin.
    + cbn [item_last] in Hlast. rewrite Ed in Hlast. rewrite (Hlast eq_refl). cbn [toks flat_map].
      rewrite !DL_nil. rewrite rev_app_distr, app_assoc. reflexivity.
    + rewrite rev_app_distr, app_assoc. reflexivity.
Qed.

(* ---- the whole item sequence ---- *)
Theorem lister_lines : forall items s rout,
  Lines kw fl_tok fl_str s rout items ->
  DL false false rout O (toks kw items) = Ok (rev (text items) ++ rout).
Proof.
  intros items s rout H. induction H as [s rout|s rout it rest Hok Hor Hlast HL IH].
  - reflexivity.
  - cbn [toks text flat_map]. fold (toks kw rest). fold (text rest).
    rewrite (item_lister s rout it rest Hok Hor Hlast). rewrite IH.
    rewrite rev_app_distr, app_assoc. reflexivity.
Qed.

End ListerSide.
