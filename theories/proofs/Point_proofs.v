(* C31: POINT never leaves the page matrix (no IndexError for any integer coordinates and any viewport) and
   returns the attribute that PSET just wrote. *)
From Coq Require Import ZArith List Bool Lia ZifyBool.
From PCB Require Import lib.Result lib.PyInt lib.GfxPrims gen.Gen_viewport gen.Gen_point
  model.Matrix model.Viewport model.Point proofs.Matrix_proofs proofs.Viewport_proofs.
Import ListNotations.
Open Scope Z_scope.

Lemma cellZ_some : forall m y x h w, zlen m = h -> width_is w m -> 0 <= y < h -> 0 <= x < w ->
  exists v, cellZ m y x = Some v.
Proof.
  intros m y x h w Hh Hw Hy Hx. rewrite cellZ_cell by lia. unfold cell.
  destruct (nth_error m (Z.to_nat y)) as [r|] eqn:En.
  - assert (Hr : zlen r = w) by (eapply width_nth_error; eauto).
    destruct (nth_error r (Z.to_nat x)) as [v|] eqn:Ex; [eauto|].
    apply nth_error_None in Ex. unfold zlen in *. lia.
  - apply nth_error_None in En. unfold zlen in *. lia.
Qed.

Theorem point_total : forall vp m x y,
  wf_vp vp -> same_dims vp m -> exists v, point vp m (vp_maxw vp) (vp_maxh vp) x y = Ok v.
Proof.
  intros vp m x y Hwf [Hh Hw]. unfold point.
  destruct (vp_offscreen vp (vp_maxw vp) (vp_maxh vp) x y) eqn:Eo; [eauto|].
  unfold vp_cell. destruct (vp_convert_coords vp x y) as [ax ay] eqn:Ec.
  assert (Hr : 0 <= ay < vp_maxh vp /\ 0 <= ax < vp_maxw vp).
  { unfold vp_offscreen, point_offscreen, viewport_is_on_screen in Eo.
    unfold vp_convert_coords, on_vp in Ec. rewrite Ec in Eo. lia. }
  destruct (cellZ_some m ay ax _ _ Hh Hw (proj1 Hr) (proj2 Hr)) as [v Hv]. rewrite Hv. eauto.
Qed.

Theorem point_reads_cell : forall vp m x y a,
  vp_contains vp x y = true -> wf_vp vp -> vp_cell vp m x y = Some a ->
  point vp m (vp_maxw vp) (vp_maxh vp) x y = Ok a.
Proof.
  intros [ab vx0 vy0 vx1 vy1 mw mh] m x y a Hc Hwf Hcell. unfold point.
  replace (vp_offscreen _ _ _ x y) with false; [rewrite Hcell; reflexivity|].
  symmetry. unfold wf_vp in Hwf. unfold vp_offscreen, point_offscreen, viewport_is_on_screen.
  unfold_vp. cbn [vp_abs vp_x0 vp_y0 vp_x1 vp_y1 vp_maxw vp_maxh] in *. destruct ab; lia.
Qed.
