(* C10 / C20: what the pointwise relation Rel means for the values BASIC can observe. *)
From Coq Require Import ZArith List Bool Lia.
From PCB Require Import lib.Result lib.PyInt model.StrSpace model.UserFn
     proofs.StrSpace_base proofs.StrSpace_gc proofs.StrSpace_inv proofs.StrSpace_ops proofs.UserFn_proofs proofs.UserFn_stmt.
Import ListNotations.
Open Scope Z_scope.

Lemma deref_len0 c st p : fst p = 0 -> deref c st p = Ok [].
Proof. destruct p as [l a]. simpl. intros ->. reflexivity. Qed.

(* every scalar reads the same: string scalars the same bytes, numeric scalars the same number, variables that
   were created meanwhile read as the empty string / zero, exactly like variables that do not exist *)
Lemma Rel_sval c st st' : Rel c st st' -> forall n, sval_of c st' n = sval_of c st n.
Proof.
  intros H n. unfold sval_of. destruct (lookup n (scal st)) as [[p|z]|] eqn:E.
  - destruct (r_scal _ _ _ _ H n p (fun x => x) E) as (p' & -> & (_ & Hd & _)). rewrite Hd. reflexivity.
  - rewrite (r_num _ _ _ _ H n z (fun x => x) E). reflexivity.
  - destruct (r_new _ _ _ _ H n (fun x => x) E) as [->|(v & -> & Hz)]; [reflexivity|].
    destruct v as [p|z]; simpl in Hz; [rewrite (deref_len0 _ _ _ Hz); reflexivity|subst; reflexivity].
Qed.

Lemma Forall2_nth_default {A} (R : A -> A -> Prop) l l' d i : Forall2 R l l' -> R d d -> R (nth i l d) (nth i l' d).
Proof. intros H Hd. revert i. induction H; intros [|i]; simpl; auto. Qed.

(* every array element reads the same; arrays dimensioned meanwhile hold empty strings *)
Lemma Rel_aval c st st' : Rel c st st' -> forall n i, aval_of c st' n i = aval_of c st n i.
Proof.
  intros H n i. unfold aval_of, arr_ptr. destruct (lookup n (arrs st)) as [[d els]|] eqn:E.
  - destruct (r_arrs _ _ _ _ H n d els E) as (els' & -> & HF).
    assert (HR : RP c st st' (nth i els (0, 0)) (nth i els' (0, 0))) by (apply Forall2_nth_default; [exact HF|split; [reflexivity|split; [reflexivity|intros _; apply zero_Jp]]]).
    destruct HR as (_ & Hd & _). exact Hd.
  - destruct (r_newarr _ _ _ _ H n E) as [->|(d & els & -> & Hz)]; [reflexivity|].
    destruct (nth_in_or_default i els (0, 0)) as [Hin|Hd]; [|rewrite Hd; reflexivity].
    rewrite (deref_len0 _ _ _ (Hz _ Hin)). reflexivity.
Qed.

(* the collector keeps every value *)
Theorem collect_values c st : Good c st ->
  exists st', collect c st = Ok st' /\ Good c st' /\
              (forall n, sval_of c st' n = sval_of c st n) /\ (forall n i, aval_of c st' n i = aval_of c st n i).
Proof.
  intros G. destruct (collect_good c st G) as (st' & Hc & G' & _ & R & _). exists st'.
  split; [exact Hc|]. split; [exact G'|]. split; [apply Rel_sval, R|apply Rel_aval, R].
Qed.

(* Out of string space is raised only if even a collection does not leave more than the requested size *)
Theorem store_oss_only_when_full c st bs st' :
  Good c st -> store c st bs = (st', Err 14) ->
  zlen bs <= 255 /\ exists st1, collect c st = Ok st1 /\ st' = st1 /\ free c st1 <= zlen bs /\ free c st <= zlen bs.
Proof.
  intros G. unfold store. destruct (255 <? zlen bs) eqn:E255; [unfold errR; intros H; inversion H|].
  apply Z.ltb_ge in E255. unfold check_free. destruct (free c st <=? zlen bs) eqn:Ef.
  - apply Z.leb_le in Ef. destruct (collect_good c st G) as (st1 & Hc & _). rewrite Hc.
    destruct (free c st1 <=? zlen bs) eqn:Ef1.
    + apply Z.leb_le in Ef1. unfold errR, bindR. intros H. inversion H; subst. split; [exact E255|]. exists st'. auto.
    + unfold retR, bindR. destruct (store_raw st1 bs). unfold retR. intros H; inversion H.
  - unfold retR, bindR. destruct (store_raw st bs). unfold retR. intros H; inversion H.
Qed.

(* ... and conversely a store succeeds whenever a collection leaves more than the requested size *)
Theorem store_succeeds_when_room c st bs :
  Good c st -> zlen bs <= 255 ->
  (zlen bs < free c st \/ exists st1, collect c st = Ok st1 /\ zlen bs < free c st1) ->
  exists st' p, store c st bs = (st', Ok p).
Proof.
  intros G H255 Hroom. unfold store. assert (E : (255 <? zlen bs) = false) by (apply Z.ltb_ge; exact H255). rewrite E.
  unfold check_free. destruct (free c st <=? zlen bs) eqn:Ef.
  - apply Z.leb_le in Ef. destruct Hroom as [Hr|(st1 & Hc & Hr)]; [lia|]. rewrite Hc.
    assert (E1 : (free c st1 <=? zlen bs) = false) by (apply Z.leb_gt; exact Hr). rewrite E1.
    unfold retR, bindR. destruct (store_raw st1 bs) as [s p]. eauto.
  - unfold retR, bindR. destruct (store_raw st bs) as [s p]. eauto.
Qed.
