(* C17: the keyword <-> token dictionaries of every dialect are bijections: finite check by vm_compute on the
   regenerated tables, lifted to the Prop statement by bijective_tablesb_sound. *)
From Coq Require Import ZArith List Bool.
From PCB Require Import lib.Result lib.PyInt lib.Harness gen.Gen_tokens model.Tok proofs.Tok_tables.
Import ListNotations.
Open Scope Z_scope.

Lemma tables_bijective_advanced : bijective_tables to_keyword_advanced to_token_advanced.
Proof. apply bijective_tablesb_sound. vm_compute. reflexivity. Qed.
Lemma tables_bijective_pcjr : bijective_tables to_keyword_pcjr to_token_pcjr.
Proof. apply bijective_tablesb_sound. vm_compute. reflexivity. Qed.
Lemma tables_bijective_tandy : bijective_tables to_keyword_tandy to_token_tandy.
Proof. apply bijective_tablesb_sound. vm_compute. reflexivity. Qed.

Lemma tables_bijective_all :
  Forall (fun p => bijective_tables (fst p) (snd p)) tk_syntaxes.
Proof.
  unfold tk_syntaxes.
  apply Forall_cons; [exact tables_bijective_advanced|].
  apply Forall_cons; [exact tables_bijective_pcjr|].
  apply Forall_cons; [exact tables_bijective_tandy|].
  apply Forall_nil.
Qed.

