(* C21: error trapping - the machine's trap/resume registers against the mode-structured reference semantics,
   and the individual trap / RESUME facts *)
From Coq Require Import ZArith List Bool Lia.
From PCB Require Import gen.Gen_flow model.Flow model.FlowTrap proofs.Flow_proofs.
Import ListNotations.
Open Scope Z_scope.

(* ------------------------------------------------------------------ statements other than RESUME leave the
   mode registers alone *)

Definition same_flags (st st' : state) : Prop :=
  handling (ds st') = handling (ds st) /\ resume_at (ds st') = resume_at (ds st).

Definition pres_ok (Q : state -> Prop) (r : pres) : Prop :=
  match r with PGo st' _ => Q st' | PRaise st' _ _ => Q st' | PHalt _ => True end.

Lemma same_flags_refl st : same_flags st st.
Proof. split; reflexivity. Qed.

Lemma pwith_val_ok (Q : state -> Prop) st epos r k : Q st -> (forall z, pres_ok Q (k z)) -> pres_ok Q (pwith_val st epos r k).
Proof. intros H Hk. destruct r; simpl; auto. Qed.

Lemma pwith_int_ok (Q : state -> Prop) st i r k : Q st -> (forall z, pres_ok Q (k z)) -> pres_ok Q (pwith_int st i r k).
Proof.
  intros H Hk. unfold pwith_int. apply pwith_val_ok; auto. intros z. destruct (in16 z); simpl; auto.
Qed.

Lemma pjump_ok (Q : state -> Prop) code st i n k : Q st -> (forall j, pres_ok Q (k j)) -> pres_ok Q (pjump code st i n k).
Proof. intros H Hk. unfold pjump. destruct (find_line code n); simpl; auto. Qed.

Lemma iterate_flags st j k nm :
  match iterate st j k nm with ILoop st' => same_flags st st' | IEnded st' => same_flags st st'
                             | IErr st' _ => same_flags st st' end.
Proof.
  unfold iterate. destruct (find_for (fors st) j k) as [[f below]|]; [|apply same_flags_refl].
  destruct (negb _); [apply same_flags_refl|].
  destruct (negb (in16 _)); [split; reflexivity|].
  destruct (if flow_next_dir _ then _ else _); split; reflexivity.
Qed.

Lemma next_vars_flags names : forall st j k,
  match next_vars st j k names with ILoop st' => same_flags st st' | IEnded st' => same_flags st st'
                                  | IErr st' _ => same_flags st st' end.
Proof.
  induction names as [|nm names IH]; intros st j k; simpl; [apply same_flags_refl|].
  pose proof (iterate_flags st j k nm) as H. destruct (iterate st j k nm) as [st'|st'|st' c]; auto.
  pose proof (IH st' j (S k)) as H2. destruct H as [Ha Hb].
  destruct (next_vars st' j (S k) names); destruct H2 as [Hc Hd]; split; congruence.
Qed.

Lemma pcheck_while_ok code st0 st w : same_flags st0 st -> pres_ok (same_flags st0) (pcheck_while code st w).
Proof.
  intros H. unfold pcheck_while. destruct (nth_error code w) as [[]|]; simpl; auto.
  apply pwith_val_ok; auto. intros z. destruct (z =? 0); simpl; auto.
  destruct (whiles st) as [|[? ?] ?]; simpl; auto.
Qed.

Lemma read_vars_flags code vs : forall st,
  match read_vars code st vs with RdOk st' => same_flags st st' | RdErr st' _ => same_flags st st'
                                | RdUnmodelled => True end.
Proof.
  induction vs as [|v vs IH]; intros st; simpl; [apply same_flags_refl|].
  destruct (read_item code (dptr st)) as [[z dp']|]; [|apply same_flags_refl].
  destruct (negb (exact24 z)); [exact I|]. destruct (in16 z); [|apply same_flags_refl].
  specialize (IH (set_dptr (set_var st v z) dp')).
  destruct (read_vars code (set_dptr (set_var st v z) dp') vs); auto; destruct IH as [Ha Hb]; split; assumption.
Qed.

Lemma pstep_flags code st s : nth_error code (pc st) = Some s -> (forall r, s <> SResume r) ->
  pres_ok (same_flags st) (pstep code st).
Proof.
  intros H Hs. unfold pstep. rewrite H. cbv zeta.
  pose proof (same_flags_refl st) as R.
  assert (Rp : forall p, same_flags st (set_pc st p)) by (intros; split; reflexivity).
  destruct s.
  - (* line header *) exact R.
  - (* end of program *) destruct (resume_at (ds st)); exact I.
  - (* PRINT *) destruct (soft_div (ds st) e); [exact R|]. apply pwith_val_ok; [exact R | intros z; exact R].
  - (* LET *) apply pwith_val_ok; [exact R | intros z].
    destruct (in16 z); [split; reflexivity | exact R].
  - (* FOR *)
    apply pwith_int_ok; [exact R | intros va]. apply pwith_int_ok; [exact R | intros vb].
    apply pwith_int_ok; [exact R | intros vs].
    destruct (scan_next _ _ _) as [[j k]|]; [|exact R].
    destruct (negb _); [exact R|].
    destruct (if flow_for_dir _ then _ else _); [|split; reflexivity].
    match goal with |- context [next_vars ?x ?j ?k ?n] =>
      pose proof (next_vars_flags n x j k) as Hn; destruct (next_vars x j k n) end;
      destruct Hn as [Ha Hb]; split; simpl in *; congruence.
  - (* NEXT *)
    pose proof (next_vars_flags (next_names vs) st (pc st) 0) as Hn.
    destruct (next_vars st (pc st) 0 (next_names vs)); [exact Hn | | exact Hn].
    destruct Hn as [Ha Hb]. split; simpl; assumption.
  - (* WHILE *)
    destruct (scan_wend _ _ _); [|exact R]. apply pcheck_while_ok. split; reflexivity.
  - (* WEND *)
    destruct (pop_to_wend _ _) as [[|[w e] rest]|].
    + exact I.
    + apply pcheck_while_ok. split; reflexivity.
    + split; reflexivity.
  - (* GOSUB *) apply pjump_ok; [exact R | intros j; split; reflexivity].
  - (* RETURN *)
    destruct (gosubs st) as [|r rest]; [exact R|]. destruct n; [|split; reflexivity].
    apply pjump_ok; [split; reflexivity | intros j; split; reflexivity].
  - (* GOTO *) apply pjump_ok; [exact R | intros j; exact R].
  - (* IF *)
    apply pwith_val_ok; [exact R | intros z]. destruct (negb _).
    + destruct j; [apply pjump_ok; [exact R | intros; exact R] | exact R].
    + destruct (find_else_from _ _ _) as [k [n|]|k]; try exact R.
      apply pjump_ok; [exact R | intros; exact R].
  - (* ELSE *) exact R.
  - (* ON *)
    apply pwith_int_ok; [exact R | intros z]. destruct (negb _); [exact R|].
    destruct (_ && _); [|exact R]. apply pjump_ok; [exact R | intros j]. destruct gosub; split; reflexivity.
  - (* END *) exact I.
  - (* ERROR *) apply pwith_int_ok; [exact R | intros z]. destruct (negb _); exact R.
  - (* ON ERROR GOTO *)
    destruct (n =? 0).
    + destruct (handling (ds st)) eqn:Eh; [exact I | split; simpl; congruence].
    + destruct (find_line code n); [split; reflexivity | exact R].
  - exfalso. eapply Hs. reflexivity.
  - (* READ *)
    pose proof (read_vars_flags code vs st) as Hr. destruct (read_vars code st vs); [|exact Hr|exact I].
    destruct Hr as [Ha Hb]. split; simpl; assumption.
  - (* DATA *) exact R.
  - (* RESTORE *)
    destruct n; [apply pjump_ok; [exact R | intros j; split; reflexivity] | split; reflexivity].
Qed.

(* ------------------------------------------------------------------ the machine follows the reference *)

Definition mode_ok (m : mode) (st : state) : Prop :=
  handling (ds st) = match m with MMain => false | MHandler _ => true end /\
  resume_at (ds st) = match m with MMain => None | MHandler i => Some i end.

Definition step_matches (code : list stmt) (st : state) (r : rres) : Prop :=
  match r with
  | RGo m' st' out => step code st = Go st' out /\ mode_ok m' st'
  | RHalt o => step code st = Halt o
  end.

Lemma raise_main_matches code st0 st' c epos :
  mode_ok MMain st' ->
  match raise_main code st' (pc st0) c epos with
  | RGo m' st'' out => trap code st' (pc st0) c epos = Go st'' out /\ mode_ok m' st''
  | RHalt o => trap code st' (pc st0) c epos = Halt o
  end.
Proof.
  intros [Hh Hr]. unfold raise_main, trap. rewrite Hh.
  destruct (onerr (ds st') =? 0); simpl; [reflexivity|].
  destruct (find_line code (onerr (ds st'))); [|reflexivity].
  split; [reflexivity | split; reflexivity].
Qed.

Lemma plain_matches code m st s : nth_error code (pc st) = Some s -> (forall r, s <> SResume r) ->
  mode_ok m st ->
  step_matches code st
    match pstep code st with
    | PGo st' out => RGo m st' out
    | PHalt o => RHalt o
    | PRaise st' c epos =>
        match m with
        | MMain => raise_main code st' (pc st) c epos
        | MHandler _ => RHalt (Stopped c (line_of code epos))
        end
    end.
Proof.
  intros H Hs Hm. pose proof (pstep_flags code st s H Hs) as Hf. unfold step_matches.
  rewrite step_resolve. destruct (pstep code st) as [st' out|o|st' c epos]; simpl in *.
  - split; [reflexivity|]. destruct Hf as [Ha Hb], Hm as [Hc Hd]. split; congruence.
  - reflexivity.
  - assert (Hm' : mode_ok m st') by (destruct Hf as [Ha Hb], Hm as [Hc Hd]; split; congruence).
    destruct m.
    + apply raise_main_matches. exact Hm'.
    + apply trap_untrapped. right. apply Hm'.
Qed.

Theorem ref_step_matches code m st : mode_ok m st -> step_matches code st (ref_step code m st).
Proof.
  intros Hm. unfold ref_step. cbv zeta.
  destruct (nth_error code (pc st)) as [s|] eqn:H.
  - destruct s; try (apply (plain_matches code m st _ H); [intros; discriminate | exact Hm]).
    + (* end of program *)
      unfold step_matches. rewrite (step_at code st _ H). destruct Hm as [Hh Hr]. cbv zeta. rewrite Hr.
      destruct m; reflexivity.
    + (* ON ERROR GOTO *)
      destruct (n =? 0) eqn:En.
      * unfold step_matches. rewrite (step_at code st _ H). cbv zeta. rewrite En. destruct Hm as [Hh Hr].
        apply Z.eqb_eq in En. subst n. unfold clear_handler. cbv zeta.
        destruct m.
        -- destruct (handling (ds st)) eqn:Eh; [discriminate|].
           split; [reflexivity|]. split; simpl; [reflexivity | assumption].
        -- rewrite Hh. reflexivity.
      * apply (plain_matches code m st _ H); [intros; discriminate | exact Hm].
    + (* RESUME *)
      unfold step_matches. destruct Hm as [Hh Hr]. destruct m as [|p].
      * rewrite (step_at code st _ H). cbv zeta. rewrite Hr.
        rewrite trap_untrapped by (left; reflexivity). reflexivity.
      * destruct r as [| |n].
        -- rewrite (step_at code st _ H). cbv zeta. rewrite Hr. split; [reflexivity | split; reflexivity].
        -- rewrite (step_at code st _ H). cbv zeta. rewrite Hr. split; [reflexivity | split; reflexivity].
        -- destruct (find_line code n) as [j|] eqn:Ej.
           ++ rewrite (step_at code st _ H). cbv zeta. rewrite Hr. unfold jump. rewrite Ej.
              split; [reflexivity | split; reflexivity].
           ++ pose proof (raise_main_matches code st
                 (with_mode (set_err st 0 (erl (ds st))) MMain) flow_E_UNDEFINED_LINE_NUMBER (pc st)
                 ltac:(split; reflexivity)) as R.
              rewrite (step_at code st _ H). cbv zeta. rewrite Hr. unfold jump. rewrite Ej. exact R.
  - (* end of the direct line *)
    unfold step_matches. rewrite step_resolve. unfold pstep. rewrite H. reflexivity.
Qed.

(* trace and outcome are the same, for every program, start and fuel *)
Theorem ref_run_eq code : forall fuel m st, mode_ok m st -> run code fuel st = ref_run code fuel m st.
Proof.
  induction fuel as [|f IH]; intros m st Hm; [reflexivity|].
  simpl. pose proof (ref_step_matches code m st Hm) as H.
  destruct (ref_step code m st) as [m' st' out|o]; simpl in H.
  - destruct H as [Hs Hm']. rewrite Hs. rewrite (IH m' st' Hm'). reflexivity.
  - rewrite H. reflexivity.
Qed.

Theorem trap_refines code fuel start :
  run code fuel (init_at start) = ref_run code fuel MMain (init_at start).
Proof. apply ref_run_eq. split; reflexivity. Qed.

(* ------------------------------------------------------------------ the individual facts *)

(* the state in which the handler starts *)
Definition handler_state (st : state) (i : nat) (c l : Z) (h : nat) : state :=
  let d := ds st in
  set_pc (set_ds st {| env := env d; err := c; erl := l; onerr := onerr d; handling := true;
                       resume_at := Some i; susp := susp d |}) h.

Lemma trap_to_handler code st i c epos h :
  onerr (ds st) <> 0 -> handling (ds st) = false -> find_line code (onerr (ds st)) = Some h ->
  trap code st i c epos = Go (handler_state st i c (line_of code epos) h) [].
Proof.
  intros Ho Hh Hf. unfold trap. rewrite Hh, Hf.
  assert (E : (onerr (ds st) =? 0) = false) by (apply Z.eqb_neq; exact Ho). rewrite E. reflexivity.
Qed.

(* any statement that raises c, with a handler set and not already handling an error *)
Lemma raise_traps code st st' c epos h :
  pstep code st = PRaise st' c epos ->
  onerr (ds st') <> 0 -> handling (ds st') = false -> find_line code (onerr (ds st')) = Some h ->
  step code st = Go (handler_state st' (pc st) c (line_of code epos) h) [].
Proof.
  intros Hp Ho Hh Hf. rewrite step_resolve, Hp. simpl. apply trap_to_handler; assumption.
Qed.

(* ... in particular ERROR c *)
Lemma error_stmt_raises code st e c : nth_error code (pc st) = Some (SError e) ->
  eval (ds st) e = EV c -> 1 <= c <= 255 -> pstep code st = PRaise st c (pc st).
Proof.
  intros H He Hc. unfold pstep. rewrite H. cbv zeta. rewrite He. unfold pwith_int, pwith_val.
  assert (E : in16 c = true) by (unfold in16; lia). rewrite E.
  destruct error_range as [-> ->].
  assert (E2 : negb ((1 <=? c) && (c <=? 255)) = false) by lia. rewrite E2. reflexivity.
Qed.

(* ... and an assignment that does not fit the integer variable *)
Lemma let_overflow_raises code st v e z : nth_error code (pc st) = Some (SLet v e) ->
  eval (ds st) e = EV z -> in16 z = false -> pstep code st = PRaise st flow_E_OVERFLOW (pc st).
Proof.
  intros H He Hz. unfold pstep. rewrite H. cbv zeta. rewrite He. unfold pwith_val. rewrite Hz. reflexivity.
Qed.

(* RESUME, RESUME NEXT, RESUME n *)
Definition resumed (st : state) : state :=
  let d := ds st in
  set_ds st {| env := env d; err := 0; erl := erl d; onerr := onerr d; handling := false;
               resume_at := None; susp := susp d |}.

Lemma resume_same code st p : nth_error code (pc st) = Some (SResume RSame) -> resume_at (ds st) = Some p ->
  step code st = Go (set_pc (resumed st) p) [].
Proof. intros H Hr. rewrite (step_at code st _ H). cbv zeta. rewrite Hr. reflexivity. Qed.

Lemma resume_next code st p : nth_error code (pc st) = Some (SResume RNext) -> resume_at (ds st) = Some p ->
  step code st = Go (set_pc (resumed st) (next_colon code p)) [].
Proof. intros H Hr. rewrite (step_at code st _ H). cbv zeta. rewrite Hr. reflexivity. Qed.

Lemma resume_line code st p n j : nth_error code (pc st) = Some (SResume (RLine n)) ->
  resume_at (ds st) = Some p -> find_line code n = Some j ->
  step code st = Go (set_pc (resumed st) j) [].
Proof. intros H Hr Hj. rewrite (step_at code st _ H). cbv zeta. rewrite Hr. unfold jump. rewrite Hj. reflexivity. Qed.

(* the statement after p: for a statement that is not an IF head or ELSE, the next slot (which may be the
   header of the next line) *)
Lemma next_colon_plain code p s : nth_error code p = Some s -> then_joined s = false ->
  next_colon code p = S p.
Proof.
  intros H Ht. unfold next_colon. rewrite (nth_error_skipn _ _ _ H).
  destruct (skipn (S p) code) as [|s' r]; [reflexivity|]. simpl. rewrite Ht. destruct s'; reflexivity.
Qed.

(* after IF c THEN a : b ... an error in the condition resumes at b (the next statement after a colon) *)
Lemma next_colon_if code p c a s' : nth_error code p = Some (SIf c None) ->
  nth_error code (S p) = Some a -> then_joined a = false ->
  (forall n, a <> SLine n) -> a <> SEndProg -> (forall j, a <> SElse j) ->
  nth_error code (S (S p)) = Some s' ->
  next_colon code p = S (S p).
Proof.
  intros H Ha Hta Hl He Hel Hs. unfold next_colon.
  rewrite (nth_error_skipn _ _ _ H), (nth_error_skipn _ _ _ Ha), (nth_error_skipn _ _ _ Hs).
  set (R := skipn (S (S (S p))) code).
  assert (E1 : next_colon_from (a :: s' :: R) (S p) (SIf c None) = next_colon_from (s' :: R) (S (S p)) a).
  { destruct a; try reflexivity; exfalso;
      [eapply Hl; reflexivity | apply He; reflexivity | eapply Hel; reflexivity]. }
  rewrite E1. destruct s'; simpl; rewrite ?Hta; reflexivity.
Qed.

(* IF c THEN ELSE ...: the ELSE itself is the next statement after a colon (and skips the line) *)
Lemma next_colon_else code p s j : nth_error code p = Some s -> nth_error code (S p) = Some (SElse j) ->
  next_colon code p = S p.
Proof.
  intros H Ha. unfold next_colon. rewrite (nth_error_skipn _ _ _ H), (nth_error_skipn _ _ _ Ha). reflexivity.
Qed.

Lemma resume_without_error code st r : nth_error code (pc st) = Some (SResume r) ->
  resume_at (ds st) = None ->
  step code st = Halt (Stopped flow_E_RESUME_WITHOUT_ERROR (line_of code (pc st))).
Proof.
  intros H Hr. rewrite (step_at code st _ H). cbv zeta. rewrite Hr.
  apply trap_untrapped. left. reflexivity.
Qed.

Lemma on_error_goto_0_in_handler code st : nth_error code (pc st) = Some (SOnErrorGoto 0) ->
  handling (ds st) = true -> step code st = Halt (Stopped (err (ds st)) (erl (ds st))).
Proof. intros H Hh. rewrite (step_at code st _ H). cbv zeta. rewrite Hh. reflexivity. Qed.

Lemma no_resume code st p : nth_error code (pc st) = Some SEndProg -> resume_at (ds st) = Some p ->
  step code st = Halt (Stopped flow_E_NO_RESUME (line_of code (Nat.pred (pc st)))).
Proof. intros H Hr. rewrite (step_at code st _ H). cbv zeta. rewrite Hr. reflexivity. Qed.

(* positions in the direct line report as line 65535 *)
Lemma line_of_from_direct prog direct : forall epos cur, ~ In SEndProg prog -> (length prog <= epos)%nat ->
  line_of_from (prog ++ SEndProg :: direct) epos cur = 65535.
Proof.
  induction prog as [|s prog IH]; intros epos cur Hne Hle; simpl.
  - reflexivity.
  - assert (Hs : s <> SEndProg) by (intros ->; apply Hne; left; reflexivity).
    assert (Hne' : ~ In SEndProg prog) by (intros Hin; apply Hne; right; exact Hin).
    simpl in Hle. destruct epos as [|epos]; [lia|].
    destruct s; try congruence; apply IH; auto; lia.
Qed.

Lemma line_of_direct prog direct epos : ~ In SEndProg prog -> (length prog <= epos)%nat ->
  line_of (prog ++ SEndProg :: direct) epos = 65535.
Proof. intros. unfold line_of. apply line_of_from_direct; assumption. Qed.

(* ------------------------------------------------------------------ what a stop leaves behind *)

(* run_st is run, plus the state *)
Lemma run_st_run code : forall fuel st, (let '(t, o, _) := run_st code fuel st in (t, o)) = run code fuel st.
Proof.
  induction fuel as [|f IH]; intros st; simpl; [reflexivity|].
  destruct (step code st) as [st' out|o]; [|reflexivity].
  specialize (IH st'). destruct (run_st code f st') as [[t o] s]. destruct (run code f st').
  inversion IH; subst. reflexivity.
Qed.

(* statements end the program with an error message by themselves only at the end of the program inside a
   handler (No RESUME) and for ON ERROR GOTO 0 inside a handler; everything else raises *)
Definition no_stop (r : pres) : Prop := match r with PHalt (Stopped _ _) => False | _ => True end.

Lemma pwith_val_ns st epos r k : (forall z, no_stop (k z)) -> no_stop (pwith_val st epos r k).
Proof. intros H. destruct r; simpl; auto. Qed.
Lemma pwith_int_ns st i r k : (forall z, no_stop (k z)) -> no_stop (pwith_int st i r k).
Proof. intros H. unfold pwith_int. apply pwith_val_ns. intros z. destruct (in16 z); simpl; auto. Qed.
Lemma pjump_ns code st i n k : (forall j, no_stop (k j)) -> no_stop (pjump code st i n k).
Proof. intros H. unfold pjump. destruct (find_line code n); simpl; auto. Qed.
Lemma pcheck_while_ns code st w : no_stop (pcheck_while code st w).
Proof.
  unfold pcheck_while. destruct (nth_error code w) as [[]|]; simpl; auto.
  apply pwith_val_ns. intros z. destruct (z =? 0); simpl; auto. destruct (whiles st) as [|[? ?] ?]; simpl; auto.
Qed.

Lemma pstep_stop_shape code st c l : pstep code st = PHalt (Stopped c l) ->
  nth_error code (pc st) = Some SEndProg \/ exists n, nth_error code (pc st) = Some (SOnErrorGoto n).
Proof.
  intros H. destruct (nth_error code (pc st)) as [s|] eqn:E.
  - assert (Hns : (s = SEndProg \/ exists n, s = SOnErrorGoto n) \/ no_stop (pstep code st)).
    { unfold pstep. rewrite E. cbv zeta.
      destruct s; try (left; left; reflexivity); try (left; right; eexists; reflexivity); right;
        try exact I.
      - destruct (soft_div (ds st) e); [exact I|]. apply pwith_val_ns; intros; exact I.
      - apply pwith_val_ns; intros z; destruct (in16 z); exact I.
      - apply pwith_int_ns; intros va. apply pwith_int_ns; intros vb. apply pwith_int_ns; intros vs.
        destruct (scan_next _ _ _) as [[j k]|]; [|exact I]. destruct (negb _); [exact I|].
        destruct (if flow_for_dir _ then _ else _); [|exact I].
        destruct (next_vars _ _ _ _); exact I.
      - destruct (next_vars _ _ _ _); exact I.
      - destruct (scan_wend _ _ _); [apply pcheck_while_ns | exact I].
      - destruct (pop_to_wend _ _) as [[|[w e] rest]|]; try exact I. apply pcheck_while_ns.
      - apply pjump_ns; intros; exact I.
      - destruct (gosubs st); [exact I|]. destruct n; [apply pjump_ns; intros; exact I | exact I].
      - apply pjump_ns; intros; exact I.
      - apply pwith_val_ns; intros z. destruct (negb _).
        + destruct j; [apply pjump_ns; intros; exact I | exact I].
        + destruct (find_else_from _ _ _) as [k [n|]|k]; try exact I. apply pjump_ns; intros; exact I.
      - apply pwith_int_ns; intros z. destruct (negb _); [exact I|]. destruct (_ && _); [|exact I].
        apply pjump_ns; intros; exact I.
      - apply pwith_int_ns; intros z. destruct (negb _); exact I.
      - destruct (resume_at (ds st)); [|exact I]. destruct r; try exact I. apply pjump_ns; intros; exact I.
      - destruct (read_vars code st vs); exact I.
      - destruct n; [apply pjump_ns; intros; exact I | exact I]. }
    destruct Hns as [[-> | [n ->]] | Hns]; [left; reflexivity | right; exists n; reflexivity |].
    rewrite H in Hns. destruct Hns.
  - unfold pstep in H. rewrite E in H. discriminate.
Qed.

(* whatever error message ended the program - an error without handler, an error inside the handler, No RESUME,
   ON ERROR GOTO 0 inside the handler, RESUME without error - the interpreter is not "handling an error" any
   more when the next command starts *)
Theorem stop_leaves_handler_mode code st c l :
  step code st = Halt (Stopped c l) -> handling (ds (after_halt code st)) = false.
Proof.
  intros H. unfold after_halt. rewrite step_resolve in H.
  destruct (pstep code st) as [st' out|o|st' c' epos] eqn:Ep; simpl in H.
  - discriminate.
  - inversion H; subst. destruct (pstep_stop_shape code st c l Ep) as [E | [n E]]; rewrite E.
    + unfold pstep in Ep. rewrite E in Ep. cbv zeta in Ep. destruct (resume_at (ds st)); [reflexivity | discriminate].
    + reflexivity.
  - reflexivity.
Qed.

(* an error that was not trapped leaves ERR and ERL of that error, the handler line and the statement to resume
   as they were, variables and stacks as the raise left them *)
Theorem untrapped_error_state code st st' c epos :
  pstep code st = PRaise st' c epos ->
  after_halt code st = stopped_state st' c (line_of code epos).
Proof. intros H. unfold after_halt. rewrite H. reflexivity. Qed.

(* END forgets the error being handled *)
Theorem end_leaves_handler_mode code st : nth_error code (pc st) = Some SEnd ->
  handling (ds (after_halt code st)) = false /\ resume_at (ds (after_halt code st)) = None.
Proof.
  intros H. unfold after_halt, pstep. rewrite H. cbv zeta. rewrite ?H. split; reflexivity.
Qed.

(* hence: the next error that is raised with a handler line set is trapped again (C21_trap applies), as long
   as the statements in between leave the mode registers alone (pstep_flags: all but RESUME do) *)
Theorem trapped_again code st c l st2 st2' c2 epos2 h :
  step code st = Halt (Stopped c l) ->
  handling (ds st2') = handling (ds (after_halt code st)) ->
  pstep code st2 = PRaise st2' c2 epos2 -> onerr (ds st2') <> 0 -> find_line code (onerr (ds st2')) = Some h ->
  step code st2 = Go (handler_state st2' (pc st2) c2 (line_of code epos2) h) [].
Proof.
  intros Hs Hh Hp Ho Hf. apply raise_traps; auto.
  rewrite Hh. exact (stop_leaves_handler_mode code st c l Hs).
Qed.

(* ------------------------------------------------------------------ READ: errors belong to the READ line *)

(* whatever a READ statement raises (Out of DATA, Overflow of an assignment - for the first or a later variable,
   with the DATA item on any line), the error position is the READ statement itself *)
Theorem read_raises_at_read code st vs st' c epos :
  nth_error code (pc st) = Some (SRead vs) -> pstep code st = PRaise st' c epos -> epos = pc st.
Proof.
  intros H Hp. unfold pstep in Hp. rewrite H in Hp. cbv zeta in Hp.
  destruct (read_vars code st vs); inversion Hp; reflexivity.
Qed.

Theorem read_overflow_raises code st v vs z dp' :
  nth_error code (pc st) = Some (SRead (v :: vs)) -> read_item code (dptr st) = Some (z, dp') ->
  exact24 z = true -> in16 z = false -> pstep code st = PRaise st flow_E_OVERFLOW (pc st).
Proof.
  intros H Hr Hx Hz. unfold pstep. rewrite H. cbv zeta. simpl. rewrite Hr, Hx, Hz. reflexivity.
Qed.

Theorem read_out_of_data code st v vs :
  nth_error code (pc st) = Some (SRead (v :: vs)) -> read_item code (dptr st) = None ->
  pstep code st = PRaise st flow_E_OUT_OF_DATA (pc st).
Proof. intros H Hr. unfold pstep. rewrite H. cbv zeta. simpl. rewrite Hr. reflexivity. Qed.


(* RUN starts from the state of a fresh session: nothing of the previous command survives - variables, stacks,
   DATA pointer, ON ERROR line, error registers, and the switch that makes math errors hard (fixes/D23e) *)
Theorem run_command_resets prog st :
  start_command prog st CRun = (prog ++ [SEndProg], init_at 0).
Proof. reflexivity. Qed.

(* a direct line keeps everything but the position *)
Theorem direct_command_keeps prog st line :
  start_command prog st (CDirect line) = (prog ++ SEndProg :: line, set_pc st (S (length prog))).
Proof. reflexivity. Qed.

(* ------------------------------------------------------------------ RUN forgets the history *)

(* every command of the session came to an end (finished or stopped with a message) within the fuel *)
Fixpoint session_completes (prog : list stmt) (cmds : list command) (fuel : nat) (st : state) : bool :=
  match cmds with
  | [] => true
  | c :: rest =>
      let (code, st0) := start_command prog st c in
      let '(_, o, st') := run_st code fuel st0 in
      match o with
      | OutOfFuel => false
      | Unmodelled => false
      | _ => session_completes prog rest fuel st'
      end
  end.

(* what RUN and the commands after it print does not depend on the state RUN is typed in ... *)
Theorem run_forgets_state prog rest fuel st1 st2 :
  run_session prog (CRun :: rest) fuel st1 = run_session prog (CRun :: rest) fuel st2.
Proof. reflexivity. Qed.

(* ... so, for EVERY history of commands that came to an end, the output of the session is the output of that
   history followed by the output that RUN and the later commands give in a fresh session *)
Theorem run_forgets_history prog cmds2 fuel : forall cmds1 st,
  session_completes prog cmds1 fuel st = true ->
  run_session prog (cmds1 ++ CRun :: cmds2) fuel st =
  run_session prog cmds1 fuel st ++ run_session prog (CRun :: cmds2) fuel (init_at 0).
Proof.
  induction cmds1 as [|c cmds1 IH]; intros st Hc.
  - simpl app. apply (run_forgets_state prog cmds2 fuel st (init_at 0)).
  - cbn [app]. cbn [run_session session_completes] in *.
    destruct (start_command prog st c) as [code st0].
    destruct (run_st code fuel st0) as [[t o] st'].
    destruct o; try discriminate.
    + rewrite (IH st' Hc). rewrite app_assoc. reflexivity.
    + rewrite (IH st' Hc). rewrite app_assoc. reflexivity.
Qed.

(* the state a history of commands leaves behind *)
Fixpoint session_state (prog : list stmt) (cmds : list command) (fuel : nat) (st : state) : state :=
  match cmds with
  | [] => st
  | c :: rest =>
      let (code, st0) := start_command prog st c in
      let '(_, _, st') := run_st code fuel st0 in
      session_state prog rest fuel st'
  end.

(* a session is the composition of its parts: the later commands see exactly the state the earlier ones left *)
Theorem session_app prog cmds2 fuel : forall cmds1 st,
  session_completes prog cmds1 fuel st = true ->
  run_session prog (cmds1 ++ cmds2) fuel st =
  run_session prog cmds1 fuel st ++ run_session prog cmds2 fuel (session_state prog cmds1 fuel st).
Proof.
  induction cmds1 as [|c cmds1 IH]; intros st Hc.
  - reflexivity.
  - cbn [app]. cbn [run_session session_completes session_state] in *.
    destruct (start_command prog st c) as [code st0].
    destruct (run_st code fuel st0) as [[t o] st'].
    destruct o; try discriminate.
    + rewrite (IH st' Hc). rewrite app_assoc. reflexivity.
    + rewrite (IH st' Hc). rewrite app_assoc. reflexivity.
Qed.
