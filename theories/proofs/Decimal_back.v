(* Decimal_back.v - reading a printed integer back (clause 1 of C07, second half):
   Values.from_repr on the text  [blank | -] digits  gives a value equal to the integer. *)
From Coq Require Import ZArith List Bool Lia ZifyBool.
From PCB Require Import lib.Result lib.PyInt lib.Harness lib.MBFPrims gen.Gen_mbf gen.Gen_dec model.MBF
  model.Decimal proofs.MBF_base proofs.MBF_round proofs.MBF_convert proofs.MBF_digits
  proofs.Decimal_print proofs.Decimal_parse.
Import ListNotations.
Open Scope Z_scope.
Ltac Zify.zify_post_hook ::= Z.to_euclidean_division_equations.

(* ------------------------------------------------------------------------------------------------ *)
(* from_decimal with exponent 0 stores an integer that fits the mantissa exactly *)

Lemma from_decimal_int C n : fmt_ok C -> n <> 0 -> Z.abs n < 2 ^ mbits C ->
  exists b, mbf_from_decimal C (zeros (c_size C)) n 0 = Ok b /\ buf_ok C b /\ f_sval C b = n * 2 ^ c_bias C.
Proof.
  intros HC Hn0 Hn. pose proof (mbits_ge C HC) as Hg. pose proof (mbits_le C HC) as Hl.
  assert (Hz : zlen (zeros (c_size C)) = c_size C).
  { unfold zeros, zlen. rewrite repeat_length. pose proof (ok_size C HC). lia. }
  assert (H127 : Z.abs n < 2 ^ 127).
  { assert (2 ^ mbits C <= 2 ^ 127) by (apply pow2_le; lia). lia. }
  destruct (from_int_exact C (zeros (c_size C)) n (Z.abs n) 0 HC Hz) as (b1 & Hfi & Hb1 & Hv1);
    [change (2 ^ 0) with 1; lia | lia | lia | exact H127 |].
  unfold mbf_from_decimal. rewrite Hfi. cbn [bind]. destruct (Z.eqb_spec n 0) as [|_]; [contradiction|].
  change (Z.to_nat (Z.abs 0)) with O.
  cbn [mbf_from_decimal_loop_105]. change (0 <? 0) with false. cbv iota. cbn [bind]. cbv beta iota.
  change (Z.to_nat (Z.abs 0)) with O.
  cbn [mbf_from_decimal_loop_106]. change (0 >? 0) with false. cbv iota. cbn [bind]. cbv beta iota.
  rewrite (denormalise_spec C b1 HC Hb1).
  (* b1 is not zero *)
  assert (Hpb : 0 < 2 ^ c_bias C) by (apply pow2_pos; rewrite (ok_bias C HC); lia).
  assert (Hnz : f_zero b1 = false).
  { destruct (f_zero b1) eqn:E; [|reflexivity]. unfold f_sval in Hv1. rewrite E in Hv1. nia. }
  pose proof (f_man_bound C b1 HC) as Hm. pose proof (f_exp_bound C b1 HC Hb1) as He.
  unfold f_zero in Hnz. apply Z.eqb_neq in Hnz.
  destruct Hb1 as [Hlen1 Hbytes1].
  rewrite normalise_norm_spec; [| exact HC | exact Hlen1 | lia |].
  2:{ rewrite (ok_den_mask C HC), (ok_den_upper C HC).
      replace (mbits C + 7) with (8 + (mbits C - 1)) by lia. replace (mbits C + 8) with (8 + mbits C) by lia.
      rewrite !pow2_split by lia. change (2 ^ 8) with 256. lia. }
  unfold norm_result. rewrite round_even8_exact.
  destruct (Z.eqb_spec (f_man C b1) (2 ^ mbits C)) as [|_]; [lia|].
  destruct (Z.gtb_spec (f_exp b1) 255) as [|_]; [lia|]. cbn [bind].
  exists (f_encode C (f_neg C b1) (f_exp b1) (f_man C b1)). split; [reflexivity|].
  split; [apply f_encode_ok; [exact HC | unfold byte_ok; lia | exact Hm]|].
  rewrite f_encode_sval by (try assumption; lia). rewrite <- Hv1. unfold f_sval, f_zero.
  destruct (Z.eqb_spec (f_exp b1) 0); [lia|]. reflexivity.
Qed.

(* ------------------------------------------------------------------------------------------------ *)
(* the declarative reading of a string of digits *)

Lemma digit_char_small d : 0 <= d < 10 -> digit_char d = 48 + d.
Proof. intros. unfold digit_char. destruct (Z.ltb_spec d 10); lia. Qed.

Lemma to_digits_head n : 0 < n -> exists d t, to_digits 10 n = d :: t /\ 0 < d < 10.
Proof.
  intros Hn. pose proof (to_digits_range 10 n ltac:(lia) ltac:(lia)) as Hr.
  pose proof (digits_roundtrip 10 n ltac:(lia) ltac:(lia)) as Hv.
  pose proof (to_digits_nonempty 10 n) as Hne.
  destruct (to_digits 10 n) as [|d t] eqn:E; [contradiction|].
  exists d, t. split; [reflexivity|]. apply Forall_cons_iff in Hr as [Hd Ht].
  destruct (Z.eq_dec d 0) as [->|Hd0]; [exfalso | lia].
  (* a leading zero would make the string longer than the number *)
  assert (Hvt : of_digits 10 t = n).
  { unfold of_digits in *. cbn [fold_left] in Hv. exact Hv. }
  pose proof (of_digits_lt t Ht) as Hlt. rewrite Hvt in Hlt.
  assert (HL : zlen (dec_str n) = zlen t + 1).
  { unfold dec_str, fmt_base. rewrite E. unfold zlen. rewrite map_length. cbn [length]. lia. }
  pose proof (dec_str_length n (zlen t) ltac:(unfold zlen; lia) ltac:(lia)) as Hup.
  rewrite HL in Hup. assert (zlen t = 0) by (unfold zlen in *; lia).
  destruct t; [cbn in Hvt; lia | unfold zlen in *; cbn [length] in *; lia].
Qed.

Lemma flag_digits_plain : forall l p, Forall (fun d => 0 <= d < 10) l ->
  flag_digits p (map digit_char l) = map (fun d => (d, p)) l.
Proof.
  induction l as [|d l IH]; intros p H; [reflexivity|]. apply Forall_cons_iff in H as [Hd Hl].
  cbn [map flag_digits]. rewrite digit_char_small by exact Hd.
  destruct (Z.eqb_spec (48 + d) 46); [lia|]. rewrite IH by exact Hl. f_equal. f_equal. lia.
Qed.

Lemma filter_false_map (l : list Z) : filter snd (map (fun d0 : Z => (d0, false)) l) = [].
Proof. induction l as [|x l IHl]; [reflexivity|]. cbn [map filter snd]. exact IHl. Qed.

Lemma dec_str_reading n : 0 < n ->
  forallb is_digit (dec_str n) = true /\ sig_digits (dec_str n) = zlen (dec_str n) /\
  mant_int (dec_str n) = n /\ mant_scale (dec_str n) = 0 /\ n < 10 ^ zlen (dec_str n).
Proof.
  intros Hn. split; [apply dec_str_digits; lia|].
  pose proof (to_digits_range 10 n ltac:(lia) ltac:(lia)) as Hr.
  destruct (to_digits_head n Hn) as (d & t & E & Hd).
  pose proof (of_digits_lt _ Hr) as Hlt. rewrite digits_roundtrip in Hlt by lia.
  assert (HL : zlen (dec_str n) = zlen (to_digits 10 n)) by (unfold dec_str, fmt_base, zlen; rewrite map_length; reflexivity).
  unfold sig_digits, sig_part, mant_int, mant_scale, dec_str, fmt_base in *.
  rewrite flag_digits_plain by exact Hr. rewrite map_map. cbn [fst].
  rewrite map_id. rewrite digits_roundtrip by lia.
  split; [|split; [reflexivity|split; [|rewrite HL; lia]]].
  - rewrite E. cbn [map dropwhile fst]. destruct (Z.eqb_spec d 0); [lia|].
    set (l' := (d, false) :: map (fun d0 => (d0, false)) t).
    assert (Hrev : takewhile (fun x : Z * bool => (fst x =? 0) && snd x) (rev l') = []).
    { assert (Hall : Forall (fun x : Z * bool => snd x = false) (rev l')).
      { apply Forall_rev. unfold l'. constructor; [reflexivity|]. apply Forall_forall. intros x Hx.
        apply in_map_iff in Hx as (y & <- & _). reflexivity. }
      destruct (rev l') as [|x r]; [reflexivity|]. inversion Hall as [|? ? Hx _]; subst.
      cbn [takewhile]. rewrite Hx, andb_false_r. reflexivity. }
    rewrite Hrev. unfold l', zlen. cbn [length]. rewrite !map_length. lia.
  - rewrite filter_false_map. reflexivity.
Qed.

(* ------------------------------------------------------------------------------------------------ *)
(* from_repr on a printed integer *)

Lemma map_upper_id l : forallb (fun c => c <? 97) l = true -> map upper l = l.
Proof.
  induction l as [|c l IH]; [reflexivity|]. cbn [forallb map]. intros H. apply andb_prop in H as [Hc Hl].
  rewrite IH by exact Hl. unfold upper. destruct (Z.leb_spec 97 c); [lia|]. reflexivity.
Qed.

Lemma digits_lt97 l : forallb is_digit l = true -> forallb (fun c => c <? 97) l = true.
Proof. apply forallb_imp. unfold is_digit. intros. lia. Qed.

Lemma digits_bfree l : forallb is_digit l = true -> bfree l.
Proof. unfold bfree. apply forallb_imp. intros x. rewrite blank_cases. unfold is_digit. lia. Qed.

Lemma dropwhile_bfree l : bfree l -> dropwhile is_blank l = l.
Proof. intros H. apply bfree_head in H. destruct l as [|c r]; [reflexivity|]. cbn [dropwhile]. rewrite H. reflexivity. Qed.

Lemma bfree_rev l : bfree l -> bfree (rev l).
Proof. unfold bfree. rewrite forallb_rev. auto. Qed.

Lemma strip_blanks_id l : bfree l -> strip_blanks l = l.
Proof.
  intros H. unfold strip_blanks. rewrite (dropwhile_bfree l H), (dropwhile_bfree _ (bfree_rev l H)).
  apply rev_involutive.
Qed.

Lemma nonblank_id l : bfree l -> nonblank l = l.
Proof. unfold bfree, nonblank. apply filter_all. Qed.

Lemma dec_str_values n : 0 <= n -> map (fun c => c - 48) (dec_str n) = to_digits 10 n.
Proof.
  intros Hn. unfold dec_str, fmt_base. rewrite map_map.
  pose proof (to_digits_range 10 n ltac:(lia) Hn) as Hr.
  induction Hr as [|d l Hd _ IH]; [reflexivity|]. cbn [map]. rewrite IH, digit_char_small by exact Hd. f_equal. lia.
Qed.

Lemma i_val_encode n : 0 <= n <= 32767 -> i_val (i_encode n) = n.
Proof.
  intros Hn. unfold i_val, i_encode. rewrite Z.mod_small by lia.
  rewrite le_decode_encode by (cbn; lia). destruct (Z.ltb_spec n 32768); lia.
Qed.

Lemma digits_unsigned l : forallb is_digit l = true -> unsigned_part l = l /\ lit_neg l = false.
Proof.
  destruct l as [|c r]; [split; reflexivity|]. cbn [forallb unsigned_part lit_neg]. intros H.
  apply andb_prop in H as [Hc _]. destruct (digit_not_special c Hc) as (_ & _ & Hp). rewrite Hp.
  split; [reflexivity|]. unfold is_digit in Hc. lia.
Qed.

(* the float branch on [-]digits *)
Lemma float_of_digits hard allow (neg : bool) V : 0 < V < 10 ^ 16 ->
  let w := (if neg then [45] else []) ++ dec_str V in
  exists v, from_repr_float hard w allow = Ok v /\
            value_scaled v = (if neg then - V else V) * 2 ^ 184.
Proof.
  intros HV. cbv zeta. set (ds := dec_str V).
  destruct (dec_str_reading V ltac:(lia)) as (Hdig & Hsig & Hmi & Hms & Hlt). fold ds in Hdig, Hsig, Hmi, Hms, Hlt.
  set (w := (if neg then [45] else []) ++ ds).
  assert (Hbf : bfree w).
  { unfold w, bfree. rewrite forallb_app. fold (bfree ds). rewrite (digits_bfree ds Hdig). destruct neg; reflexivity. }
  assert (Hmant : forallb is_mant ds = true) by (apply digits_are_mant, Hdig).
  destruct (digits_unsigned ds Hdig) as [Hu0 Hn0].
  assert (Hun : unsigned_part w = ds) by (unfold w; destruct neg; [reflexivity | exact Hu0]).
  assert (Hneg : lit_neg w = neg) by (unfold w; destruct neg; [reflexivity | exact Hn0]).
  assert (Hlm : lit_mant w = ds) by (unfold lit_mant; rewrite Hun; apply takewhile_all, Hmant).
  assert (Hlr : lit_rest w = []).
  { unfold lit_rest. rewrite Hun. rewrite <- (app_nil_r ds). rewrite dropwhile_app_all by exact Hmant. reflexivity. }
  pose proof (str_to_decimal_spec w allow) as Hspec. cbv zeta in Hspec. rewrite (nonblank_id w Hbf) in Hspec.
  unfold doc_is_double, has_nonnum, doc_mantissa, doc_exp10, lit_ending in Hspec. rewrite Hlr, Hlm, Hneg, Hsig, Hmi, Hms in Hspec.
  unfold from_repr_float.
  destruct (str_to_decimal w allow) as [[[dbl m] e]|e|x|]; try contradiction.
  2:{ destruct Hspec as (_ & _ & Hbad). discriminate. }
  destruct Hspec as (_ & -> & -> & ->).
  set (F := if zlen ds >? 7 then Double_fmt else Single_fmt).
  set (n := (if neg then -1 else 1) * V).
  assert (Hn : n = if neg then - V else V) by (unfold n; destruct neg; lia).
  assert (Hfit : Z.abs n < 2 ^ mbits (d_C F)).
  { rewrite Hn. assert (Ha : Z.abs (if neg then - V else V) = V) by (destruct neg; lia). rewrite Ha. unfold F. destruct (Z.gtb_spec (zlen ds) 7) as [Hd|Hd].
    - change (2 ^ mbits (d_C Double_fmt)) with 72057594037927936. change (10 ^ 16) with 10000000000000000 in HV. clear - HV. lia.
    - change (2 ^ mbits (d_C Single_fmt)) with 16777216.
      assert (10 ^ zlen ds <= 10 ^ 7) by (apply Z.pow_le_mono_r; unfold zlen in *; lia).
      change (10 ^ 7) with 10000000 in H. clear - Hlt H. lia. }
  assert (HCF : fmt_ok (d_C F)) by (unfold F; destruct (zlen ds >? 7); [exact Double_ok | exact Single_ok]).
  assert (Hnz : n <> 0) by (rewrite Hn; destruct neg; lia).
  destruct (from_decimal_int (d_C F) n HCF Hnz Hfit) as (b & Hfd & Hb & Hv).
  unfold from_decimal_safe. rewrite Hfd. unfold float_safe, rmap. cbn [bind].
  exists (d_mk F b). split; [reflexivity|]. rewrite <- Hn.
  unfold F in *. destruct (zlen ds >? 7); cbn [d_mk d_C value_scaled Double_fmt Single_fmt] in *; rewrite Hv.
  - reflexivity.
  - change (c_bias Single_consts) with 152. rewrite <- Z.mul_assoc. f_equal.
Qed.

(* CLAUSE 1, reading: the printed form of an integer reads back as that integer *)
Theorem read_back_int hard allow n ls : Z.abs n < 10 ^ 16 ->
  exists v, from_repr hard (sign_str (n <? 0) ls ++ dec_str (Z.abs n)) allow = Ok v /\
            value_scaled v = n * 2 ^ 184.
Proof.
  intros Hn. destruct (Z.eq_dec n 0) as [->|Hn0].
  { exists (VInt [0; 0]). destruct ls; split; vm_compute; reflexivity. }
  set (V := Z.abs n) in *. assert (HV : 0 < V) by (unfold V; lia).
  set (ds := dec_str V).
  destruct (dec_str_reading V HV) as (Hdig & _ & _ & _ & _). fold ds in Hdig.
  set (neg := n <? 0).
  (* the word after lstrip and upper *)
  assert (Hstrip : map upper (dropwhile (fun c => (c =? 32) || (c =? 10)) (sign_str neg ls ++ ds))
                   = (if neg then [45] else []) ++ ds).
  { assert (Hds : dropwhile (fun c => (c =? 32) || (c =? 10)) ds = ds).
    { destruct ds as [|c r]; [reflexivity|]. cbn [forallb dropwhile] in *. apply andb_prop in Hdig as [Hc _].
      unfold is_digit in Hc. destruct (Z.eqb_spec c 32), (Z.eqb_spec c 10); cbn [orb]; try lia. reflexivity. }
    unfold sign_str. destruct neg.
    - cbn [app dropwhile]. change ((45 =? 32) || (45 =? 10)) with false. cbv iota.
      cbn [map]. rewrite (map_upper_id ds (digits_lt97 ds Hdig)). reflexivity.
    - destruct ls; cbn [app dropwhile]; [change ((32 =? 32) || (32 =? 10)) with true; cbv iota|];
        rewrite Hds, (map_upper_id ds (digits_lt97 ds Hdig)); reflexivity. }
  unfold from_repr. rewrite Hstrip. set (w := (if neg then [45] else []) ++ ds).
  assert (Hbf : bfree w).
  { unfold w, bfree. rewrite forallb_app. fold (bfree ds). rewrite (digits_bfree ds Hdig). destruct neg; reflexivity. }
  assert (Hne : ds <> []) by apply dec_str_nonempty.
  (* the float branch gives the right value *)
  destruct (float_of_digits hard allow neg V ltac:(lia)) as (vf & Hvf & Hvalf). fold ds w in Hvf.
  assert (Hnv : (if neg then - V else V) = n) by (unfold neg, V; destruct (Z.ltb_spec n 0); lia).
  rewrite Hnv in Hvalf.
  destruct w as [|c0 r0] eqn:Ew.
  { exfalso. unfold w in Ew. destruct neg; [discriminate|]. cbn [app] in Ew. contradiction. }
  rewrite <- Ew in *.
  assert (Hc0 : (c0 =? 38) = false).
  { unfold w in Ew. destruct neg; cbn [app] in Ew.
    - injection Ew as <- _. reflexivity.
    - destruct ds as [|c r]; [contradiction|]. injection Ew as <- _. cbn [forallb] in Hdig.
      apply andb_prop in Hdig as [Hc _]. unfold is_digit in Hc. lia. }
  rewrite Hc0. unfold int_from_str. rewrite (strip_blanks_id w Hbf).
  destruct neg eqn:Eneg.
  - (* minus sign: not an integer literal *)
    assert (Hnd : forallb is_digit w = false) by (unfold w; reflexivity).
    rewrite Hnd. cbn [negb]. change (host_ValueError =? host_ValueError) with true. cbv iota.
    exists vf. split; assumption.
  - assert (Hwd : w = ds) by reflexivity. rewrite Hwd in *. rewrite Hdig. cbn [negb].
    destruct ds as [|c r] eqn:Eds; [contradiction|]. rewrite <- Eds in *.
    unfold ds at 1. rewrite (dec_str_values V ltac:(lia)), digits_roundtrip by lia.
    unfold i_from_int. cbn [andb]. cbv iota.
    destruct (Z.leb_spec (-32768) V); [|lia]. destruct (Z.leb_spec V 32767) as [Hsmall|Hbig]; cbn [andb].
    + exists (VInt (i_encode V)). split; [reflexivity|]. cbn [value_scaled]. rewrite i_val_encode by lia.
      unfold neg in Eneg. apply Z.ltb_ge in Eneg. unfold V. rewrite Z.abs_eq by lia. reflexivity.
    + change (err_overflow =? err_overflow) with true. cbv iota. exists vf. split; assumption.
Qed.

Print Assumptions read_back_int.
