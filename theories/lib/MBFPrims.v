(* Primitives used by the regenerated numbers.py code (gen/Gen_mbf.v): the closed table of
   value-buffer idioms of translate/targets/gen_mbf.py, and the record of per-class constants.

   A Value's `self._buffer` (a memoryview of fixed length `size`) is modelled as an immutable
   `list Z` of bytes; every mutating method returns the new buffer.

   Class invariant assumed by the idiom layer (structure, not data, dependent): the buffer of a
   Single/Double/Integer object has exactly `size` bytes, so that whole-buffer slice assignments
   `self._buffer[:] = x` with `len x = size` and `struct.unpack(fmt, ...)` on `size` bytes cannot raise.
   Data-dependent Python errors ARE modelled: `struct.pack_into` of a value outside the format's
   range and `int2byte(e)` (= struct.Struct(">B").pack) of e outside 0..255 give `Host 7`
   (struct.error). *)
From Coq Require Import ZArith List Bool.
From PCB Require Import lib.Result lib.PyInt.
Import ListNotations.
Open Scope Z_scope.

(* class constants of numbers.Single / numbers.Double, filled in by the generator *)
Record fconst := {
  c_size : Z;          (* size *)
  c_intsize : Z;       (* struct.calcsize(_intformat) ('<L' -> 4, '<Q' -> 8) *)
  c_digits : Z;
  c_bias : Z;
  c_shift : Z;
  c_den_mask : Z;
  c_den_upper : Z;
  c_carrymask : Z;
  c_signmask : Z;
  c_mask : Z;
  c_posmask : Z;
  c_pos_max : list Z;
  c_neg_max : list Z;
  c_one : list Z;
  c_ten : list Z;
  c_lim_top : list Z;
  c_lim_bot : list Z
}.

(* b'\0' * n *)
Definition zeros (n : Z) : list Z := repeat 0 (Z.to_nat n).

(* Python slice l[lo:hi] with optional (possibly negative) constant bounds, step 1 *)
Definition norm_index (len i : Z) : Z :=
  if i <? 0 then Z.max 0 (len + i) else Z.min len i.
Definition py_slice (l : list Z) (lo hi : option Z) : list Z :=
  let len := zlen l in
  let a := match lo with None => 0 | Some i => norm_index len i end in
  let b := match hi with None => len | Some i => norm_index len i end in
  firstn (Z.to_nat (b - a)) (skipn (Z.to_nat a) l).

(* struct.unpack('<L' | '<Q', bytes)[0]: unsigned little-endian (length = n by the class invariant) *)
Definition unpack_le (n : Z) (l : list Z) : Z := le_decode l.

(* struct.pack_into(fmt, buf, 0, e): unsigned little-endian of n bytes written at offset 0;
   struct.error when e is outside 0 .. 256^n - 1 or the buffer is shorter than n *)
Definition pack_into_le (n : Z) (buf : list Z) (e : Z) : res (list Z) :=
  if (0 <=? e) && (e <? 256 ^ n) && (n <=? zlen buf)
  then Ok (le_encode (Z.to_nat n) e ++ skipn (Z.to_nat n) buf)
  else Host host_StructError.

(* buf[i] = e for a list (i may be negative, must be in range) *)
Fixpoint list_set_nat (l : list Z) (i : nat) (e : Z) : list Z :=
  match l, i with
  | [], _ => []
  | _ :: r, O => e :: r
  | x :: r, S i' => x :: list_set_nat r i' e
  end.
Definition list_set (l : list Z) (i e : Z) : list Z :=
  list_set_nat l (Z.to_nat (if i <? 0 then zlen l + i else i)) e.

(* self._buffer[-1:] = int2byte(e)   and   self._buffer[-2:-1] = int2byte(e) *)
Definition set_byte (buf : list Z) (i e : Z) : res (list Z) :=
  if (0 <=? e) && (e <? 256) then Ok (list_set buf i e) else Host host_StructError.

(* for l, r in reversed(list(zip(a, b))): if l > r: return True / elif l < r: return False ; return False *)
Fixpoint lex_gt (l : list (Z * Z)) : bool :=
  match l with
  | [] => false
  | (a, b) :: r => if a >? b then true else if a <? b then false else lex_gt r
  end.
Definition zip_rev_gt (a b : list Z) : bool := lex_gt (rev (combine a b)).

(* buffer equality self._buffer == other *)
Fixpoint bytes_eqb (a b : list Z) : bool :=
  match a, b with
  | [], [] => true
  | x :: a', y :: b' => Z.eqb x y && bytes_eqb a' b'
  | _, _ => false
  end.
