(* Python primitives used by the regenerated array / scalar memory arithmetic (C11, C12).
   Variable names are byte strings (list Z). *)
From Coq Require Import ZArith List Bool Lia.
From PCB Require Import lib.PyInt.
Import ListNotations.
Open Scope Z_scope.

(* bytes.upper() *)
Definition py_upper (l : list Z) : list Z :=
  map (fun c => if (97 <=? c) && (c <=? 122) then c - 32 else c) l.

(* s[:-1] *)
Definition py_droplast (l : list Z) : list Z := removelast l.

(* s[-1:] as a byte: the last byte, -1 for the empty string (never a key of a table) *)
Definition py_last (l : list Z) : Z := last l (-1).

(* D[k] for a constant dict given as an association list; a missing key is a KeyError in Python, the
   models only use it on keys that are present (names always end in a sigil) and it yields 0 otherwise *)
Fixpoint table_lookup (t : list (Z * Z)) (k : Z) : Z :=
  match t with
  | [] => 0
  | (k', v) :: r => if k =? k' then v else table_lookup r k
  end.

(* any(p(x) for x in l) *)
Definition py_any (p : Z -> bool) (l : list Z) : bool := existsb p l.

Lemma py_upper_length l : length (py_upper l) = length l.
Proof. apply map_length. Qed.
