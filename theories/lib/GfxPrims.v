(* Primitive types of the graphics write funnel (C30/C31): Python subscript indices (int or slice
   without step), write requests `graph_view[yidx, xidx] = data`, Python range() trip counts.
   Used by the regenerated gen/Gen_viewport.v, gen/Gen_raster.v and by model/{Matrix,Viewport,Raster}.v. *)
From Coq Require Import ZArith List Bool.
Import ListNotations.
Open Scope Z_scope.

(* a Python subscript component: an int, or slice(start, stop) with optional (None) bounds, step None *)
Inductive idx : Type :=
| IInt (i : Z)
| ISlice (lo hi : option Z).

Definition is_slice (i : idx) : bool := match i with ISlice _ _ => true | IInt _ => false end.
(* the int value of an index that is used as a number (only meaningful for IInt) *)
Definition idx_int (i : idx) : Z := match i with IInt z => z | ISlice _ _ => 0 end.
Definition slice_start (i : idx) : option Z := match i with ISlice lo _ => lo | IInt _ => None end.
Definition slice_stop (i : idx) : option Z := match i with ISlice _ hi => hi | IInt _ => None end.
Definition opt_default (o : option Z) (d : Z) : Z := match o with Some z => z | None => d end.

(* data of a write: an int attribute, or a matrix (rows of bytes) *)
Inductive wdata : Type :=
| Fill (a : Z)
| Block (rows : list (list Z)).

(* one statement `self.graph_view[yidx, xidx] = data` *)
Record wreq : Type := WReq { rq_y : idx; rq_x : idx; rq_data : wdata }.

(* len(range(a, b, s)) for s <> 0 *)
Definition py_range_len (a b s : Z) : Z :=
  if 0 <? s then Z.max 0 ((b - a + s - 1) / s)
  else Z.max 0 ((a - b - s - 1) / (- s)).

(* flat encoding of request lists for the correspondence harness:
   [0; y; x; a] single pixel fill; [1; y0; y1; x0; x1; a] slice fill (all bounds present);
   [2; y0; y1; x0; x1; h; w; cells...] slice block write *)
Fixpoint take_rows (h : nat) (w : nat) (l : list Z) : list (list Z) * list Z :=
  match h with
  | O => ([], l)
  | S h' => let '(rs, rest) := take_rows h' w (skipn w l) in (firstn w l :: rs, rest)
  end.

Fixpoint decode_reqs (fuel : nat) (l : list Z) : list wreq :=
  match fuel with
  | O => []
  | S fuel' =>
    match l with
    | 0 :: y :: x :: a :: r => WReq (IInt y) (IInt x) (Fill a) :: decode_reqs fuel' r
    | 1 :: y0 :: y1 :: x0 :: x1 :: a :: r =>
        WReq (ISlice (Some y0) (Some y1)) (ISlice (Some x0) (Some x1)) (Fill a) :: decode_reqs fuel' r
    | 2 :: y0 :: y1 :: x0 :: x1 :: h :: w :: r =>
        let '(rows, rest) := take_rows (Z.to_nat h) (Z.to_nat w) r in
        WReq (ISlice (Some y0) (Some y1)) (ISlice (Some x0) (Some x1)) (Block rows) :: decode_reqs fuel' rest
    | 3 :: y :: x0 :: x1 :: a :: r =>
        WReq (IInt y) (ISlice (Some x0) (Some x1)) (Fill a) :: decode_reqs fuel' r
    | 4 :: y :: x0 :: x1 :: w :: r =>
        WReq (IInt y) (ISlice (Some x0) (Some x1)) (Block [firstn (Z.to_nat w) r])
          :: decode_reqs fuel' (skipn (Z.to_nat w) r)
    | _ => []
    end
  end.

(* flat (y, x, attr) triples *)
Fixpoint decode_pts (fuel : nat) (l : list Z) : list (Z * Z * Z) :=
  match fuel with
  | O => []
  | S f => match l with
           | y :: x :: a :: r => (y, x, a) :: decode_pts f r
           | _ => []
           end
  end.

Definition enc_idx (i : idx) : list Z :=
  match i with
  | IInt z => [0; z]
  | ISlice lo hi => [1; match lo with Some a => 1 | None => 0 end; opt_default lo 0;
                        match hi with Some a => 1 | None => 0 end; opt_default hi 0]
  end.
