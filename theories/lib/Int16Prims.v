(* Python primitives on a 2-byte buffer used by the regenerated code of numbers.Integer (Gen_int16.v).
   The buffer (a memoryview of 2 bytes) is a pair (lo, hi) of bytes.  These definitions are the trusted
   models of struct.pack_into / struct.unpack / bytearray([..]) / slice assignment / dynamic dispatch;
   they are exercised by the correspondence runs of C02.  No proofs here. *)
From Coq Require Import ZArith List Bool.
From PCB Require Import lib.Result lib.PyInt.
Import ListNotations.
Open Scope Z_scope.

Definition buf16 : Type := (Z * Z)%type.

(* struct format strings '<h' (signed short) and '<H' (unsigned short) *)
Inductive fmt16 : Type := fmt_h | fmt_H.

(* struct.unpack(fmt, buffer)[0] *)
Definition int16_unpack (f : fmt16) (b : buf16) : Z :=
  let u := fst b + 256 * snd b in
  match f with
  | fmt_H => u
  | fmt_h => if u <? 32768 then u else u - 65536
  end.

(* struct.pack_into(fmt, buffer, 0, z): struct.error when z does not fit the format *)
Definition int16_pack (f : fmt16) (z : Z) : res buf16 :=
  match f with
  | fmt_H => if (0 <=? z) && (z <=? 65535) then Ok (z mod 256, z / 256) else Host host_StructError
  | fmt_h => if (-32768 <=? z) && (z <=? 32767)
             then Ok ((z mod 65536) mod 256, (z mod 65536) / 256) else Host host_StructError
  end.

(* buffer[:] = bytearray([a, b]): ValueError when an element is not in range(256) *)
Definition int16_mkbuf (a b : Z) : res buf16 :=
  if byteb a && byteb b then Ok (a, b) else Host host_ValueError.

(* buffer == b'xy' *)
Definition buf16_eqb (b : buf16) (c : buf16) : bool := (fst b =? fst c) && (snd b =? snd c).

(* a fresh Integer(None, values) / values.new_integer(): bytearray(2) *)
Definition int16_fresh : buf16 := (0, 0).

(* raise ZeroDivisionError(payload): host exception class 6 carrying the 4 bytes of an MBF single *)
Definition int16_zde (payload : list Z) : Z := host_ZeroDivisionError + 256 * le_decode payload.

(* An operand as an operator function of values.py sees it: an Integer (its buffer), a Float (Single or
   Double; only Float.to_int(), the CINT-rounded Python int, matters here - that rounding is C03's
   subject) or a String. *)
Inductive operand : Type :=
| OpInt (b : buf16)
| OpFlt (cint : Z)
| OpStr.

Definition operand_is_string (o : operand) : bool := match o with OpStr => true | _ => false end.
