(* Data types of the regenerated RESET TABLE (gen/Gen_clear.v, property C23).
   A table is the flattened statement list of one Python method: every statement that touches `self`
   becomes one guarded operation, in source order; guards are the (unparsed) `if` tests on the path to it.
   Nothing here is interpreted: the meaning of target / guard / expression strings is given by
   model/ClearChain.v, which fails closed (Unsupported) on every string it does not know. *)
From Coq Require Import ZArith List String.
Import ListNotations.

Inductive rhs : Type :=
| RNone | RBool (b : bool) | RInt (z : Z) | REmptyList | REmptyDict | REmptySet
| RExpr (e : string).                 (* any other right-hand side, as source text *)

Inductive arg : Type :=
| APos (e : string)                   (* positional argument, source text *)
| AKw (k : string) (e : string).      (* keyword argument *)

Inductive op : Type :=
| OCall (target : string) (args : list arg)                   (* self.<target>(args) *)
| OBind (names : list string) (target : string) (args : list arg)   (* names = self.<target>(args) *)
| OAssign (target : string) (v : rhs)                        (* self.<target> = v *)
| ORaise (err : Z)                                            (* raise error.BASICError(err) *)
| OEnter (target : string) (args : list arg)                  (* with self.<target>(args): *)
| OExit (target : string)                                     (* end of that with block *)
| OYield.                                                     (* yield of a @contextmanager *)

(* a guard is the source text of an `if` test; "!" ++ text for the else branch;
   "<args>" for statements inside `try: ... except StopIteration: pass`;
   "<finally>" for statements inside a `finally:` block *)
Record gop : Type := { g_guards : list string; g_op : op }.

Record fn : Type := { fn_params : list (string * rhs); fn_body : list gop }.
