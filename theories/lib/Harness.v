(* Correspondence harness: compare model outputs with the outputs recorded from the implementation *)
From Coq Require Import ZArith List Bool.
Import ListNotations.
Open Scope Z_scope.

Fixpoint list_Z_eqb (a b : list Z) : bool :=
  match a, b with
  | [], [] => true
  | x :: a', y :: b' => Z.eqb x y && list_Z_eqb a' b'
  | _, _ => false
  end.

(* cases are (model output, implementation output); result: index and model output of each mismatch *)
Fixpoint mismatches_from (i : Z) (cs : list (list Z * list Z)) : list (Z * list Z) :=
  match cs with
  | [] => []
  | (m, e) :: cs' =>
      if list_Z_eqb m e then mismatches_from (i + 1) cs'
      else (i, m) :: mismatches_from (i + 1) cs'
  end.
Definition mismatches := mismatches_from 0.

Lemma list_Z_eqb_eq a b : list_Z_eqb a b = true <-> a = b.
Proof.
  revert b; induction a as [|x a IH]; intros [|y b]; simpl; split; intro H;
    try reflexivity; try discriminate.
  - apply andb_true_iff in H as [H1 H2]. apply Z.eqb_eq in H1. apply IH in H2. congruence.
  - inversion H; subst. rewrite Z.eqb_refl. simpl. apply IH. reflexivity.
Qed.
