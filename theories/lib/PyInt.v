(* Python integer / sequence primitives used by translated code.
   Python ints -> Z; // -> Z.div; % -> Z.modulo (floor semantics, as Python);
   >> << -> Z.shiftr Z.shiftl; & | ^ ~ -> Z.land Z.lor Z.lxor Z.lnot. *)
From Coq Require Import ZArith List Bool Lia.
Import ListNotations.
Open Scope Z_scope.

Definition byte_ok (b : Z) : Prop := 0 <= b < 256.
Definition byteb (b : Z) : bool := (0 <=? b) && (b <? 256).
Definition bytes_ok (l : list Z) : Prop := Forall byte_ok l.
Definition bytesb (l : list Z) : bool := forallb byteb l.

Definition zlen {A} (l : list A) : Z := Z.of_nat (length l).

(* Python sequence indexing l[i] incl. negative indices; out of range -> default d
   (translated code must only use it where the index is shown in range) *)
Definition py_nth {A} (d : A) (l : list A) (i : Z) : A :=
  if i <? 0 then nth (Z.to_nat (zlen l + i)) l d else nth (Z.to_nat i) l d.

Definition b2z (b : bool) : Z := if b then 1 else 0.
Definition z2b (z : Z) : bool := negb (z =? 0).

(* little-endian decode / encode *)
Fixpoint le_decode (l : list Z) : Z :=
  match l with [] => 0 | b :: r => b + 256 * le_decode r end.
Fixpoint le_encode (n : nat) (z : Z) : list Z :=
  match n with O => [] | S n' => (z mod 256) :: le_encode n' (z / 256) end.

Lemma byteb_ok b : byteb b = true <-> byte_ok b.
Proof. unfold byteb, byte_ok. rewrite andb_true_iff, Z.leb_le, Z.ltb_lt. tauto. Qed.

Lemma bytesb_ok l : bytesb l = true <-> bytes_ok l.
Proof.
  unfold bytesb, bytes_ok. rewrite forallb_forall, Forall_forall.
  split; intros H x Hx; apply byteb_ok, H, Hx.
Qed.

Lemma le_decode_encode n z : 0 <= z < 256 ^ Z.of_nat n -> le_decode (le_encode n z) = z.
Proof.
  revert z; induction n as [|n IH]; intros z Hz.
  - simpl in *. lia.
  - cbn [le_encode le_decode]. rewrite IH.
    + pose proof (Z.div_mod z 256). lia.
    + rewrite Nat2Z.inj_succ, Z.pow_succ_r in Hz by lia.
      split; [apply Z.div_pos; lia | apply Z.div_lt_upper_bound; lia].
Qed.

Lemma le_encode_length n z : length (le_encode n z) = n.
Proof. revert z; induction n; intros; simpl; auto. Qed.

Lemma le_encode_bytes n z : bytes_ok (le_encode n z).
Proof.
  revert z; induction n as [|n IH]; intros z; simpl; constructor.
  - unfold byte_ok. apply Z.mod_pos_bound. lia.
  - apply IH.
Qed.
