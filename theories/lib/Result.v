(* Result type shared by all models: Ok | BASIC error | host (Python) exception | out of fuel *)
From Coq Require Import ZArith List.
Import ListNotations.
Open Scope Z_scope.

Inductive res (A : Type) : Type :=
| Ok (a : A)
| Err (e : Z)        (* BASICError with GW-BASIC error number e *)
| Host (x : Z)       (* a Python exception that is not a BASICError, see host_* below *)
| OutOfFuel.
Arguments Ok {A} a.
Arguments Err {A} e.
Arguments Host {A} x.
Arguments OutOfFuel {A}.

(* host exception classes *)
Definition host_ValueError : Z := 1.
Definition host_KeyError : Z := 2.
Definition host_TypeError : Z := 3.
Definition host_IndexError : Z := 4.
Definition host_OverflowError : Z := 5.
Definition host_ZeroDivisionError : Z := 6.
Definition host_StructError : Z := 7.
Definition host_Other : Z := 8.

Definition bind {A B} (r : res A) (f : A -> res B) : res B :=
  match r with
  | Ok a => f a
  | Err e => Err e
  | Host x => Host x
  | OutOfFuel => OutOfFuel
  end.

Definition rmap {A B} (f : A -> B) (r : res A) : res B :=
  bind r (fun a => Ok (f a)).

Notation "'do' x <- r ; k" := (bind r (fun x => k))
  (at level 200, x pattern, r at level 100, k at level 200, right associativity).

Definition is_ok {A} (r : res A) : bool := match r with Ok _ => true | _ => false end.
Definition is_host {A} (r : res A) : bool := match r with Host _ => true | _ => false end.

(* canonical encoding of a result as a list of Z for the correspondence harness:
   Ok l  -> 0 :: l ; Err e -> [1; e] ; Host x -> [2; x] ; OutOfFuel -> [3] *)
Definition enc_res (r : res (list Z)) : list Z :=
  match r with
  | Ok l => 0 :: l
  | Err e => [1; e]
  | Host x => [2; x]
  | OutOfFuel => [3]
  end.

Definition enc_resZ (r : res Z) : list Z := enc_res (rmap (fun z => [z]) r).
Definition enc_bool (b : bool) : Z := if b then 1 else 0.
