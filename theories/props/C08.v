(* C08 - PRINT USING produces fields of the declared width with correctly rounded digits.
   Only statements, `exact`, Print Assumptions and non-vacuity examples here.
   Model: model/Using.v (formatter.py + the digit-string assembly of numbers.py, defects D08a-d fixed);
   the (mantissa, exponent) pairs of Float.to_decimal are inputs of the model (property C07). *)
From Coq Require Import ZArith List Bool QArith Qabs.
From PCB Require Import lib.Result lib.PyInt lib.Harness lib.MBFPrims gen.Gen_mbf model.MBF
  gen.Gen_using model.Using model.UsingDec
  proofs.Using_proofs proofs.Using_digits proofs.Using_cycle proofs.Using_round proofs.Using_exact
  proofs.Using_scival.
Import ListNotations.
Open Scope Z_scope.

(* ------------------------------------------------------------------ field grammar *)

(* A number field recognised at a position of the format string is a prefix of it of the shape
   [+] [** | $$ | **$] [#(#|,)*] [. #*] [^^^^] [+|-]   (trailing sign only without leading +) with at least
   one digit position; digit positions before the point: 2 for **, 1 for $$, 2 for **$, one per # and , ;
   after the point one per #.  Its declared width is the length of that text. *)
Theorem C08_field_grammar : forall s f r,
  parse_number_field s = Some (f, r) ->
  exists sh, shape_ok sh /\ f = field_of_shape sh /\ s = nf_tokens f ++ r.
Proof. exact parse_number_field_shape. Qed.
Print Assumptions C08_field_grammar.

(* what NumberField.format reads off the token text is what the grammar says *)
Theorem C08_field_flags : forall sh, shape_ok sh ->
  let f := field_of_shape sh in
  nf_lead_plus f = sh_plus sh
  /\ nf_trail_plus f = list_Z_eqb (sh_sign sh) [cPLUS]
  /\ nf_trail_minus f = list_Z_eqb (sh_sign sh) [cMINUS]
  /\ nf_dollar f = memz cDOLLAR (sh_pre sh)
  /\ nf_star f = memz cSTAR (sh_pre sh)
  /\ nf_dot f = sh_dot sh
  /\ nf_exp f = sh_exp sh.
Proof. exact shape_flags. Qed.
Print Assumptions C08_field_flags.

(* string fields: ! & and \ n spaces \ (width n+2); anything else is not a string field *)
Theorem C08_string_field_grammar : forall s w r,
  parse_string_field s = Some (w, r) ->
  s = w ++ r /\ (w = [cEXCL] \/ w = [cAMP] \/ exists n, w = cBSL :: repeat cSPACE n ++ [cBSL]).
Proof. exact parse_string_field_spec. Qed.
Print Assumptions C08_string_field_grammar.

(* the format string is cut into items by iterating the recogniser: `_` escapes the next character,
   a string field, else a number field, else a literal character *)
Theorem C08_tokenize : forall s,
  tokenize s = match next_item s with Some (it, r) => it :: tokenize r | None => [] end.
Proof. exact tokenize_unfold. Qed.
Print Assumptions C08_tokenize.

(* ------------------------------------------------------------------ width rule *)

(* for every field, every number and every digit string delivered by the numeric layer: exactly the
   declared width, or `%` followed by the whole number which is then longer than the field *)
Theorem C08_width : forall f v out,
  format_number f v = Ok out ->
  length out = length (nf_tokens f)
  \/ exists t, out = cPCT :: t /\ (length (nf_tokens f) < length t)%nat.
Proof. exact format_number_width. Qed.
Print Assumptions C08_width.

(* the overflow mark appears exactly when the number text (after trying a leading zero) is longer than the
   field; otherwise the text is right-justified, filled with `*` iff the field has `**`, else with spaces *)
Theorem C08_fill_overflow : forall f t,
  let t' := if (length t <? length (nf_tokens f))%nat then add_leading_zero t else t in
  ((length t' <= length (nf_tokens f))%nat /\
   fit_field f t = repeat (if nf_star f then cSTAR else cSPACE) (length (nf_tokens f) - length t') ++ t')
  \/ ((length (nf_tokens f) < length t')%nat /\ fit_field f t = cPCT :: t').
Proof. exact fit_field_cases. Qed.
Print Assumptions C08_fill_overflow.

(* more than 24 digit positions: Illegal function call whatever the value; and that is the only error *)
Theorem C08_too_many_digits : forall f v,
  (nf_before f + nf_decimals f > 24 -> format_number f v = Err 5)
  /\ (forall e, format_number f v = Err e -> e = 5 /\ nf_before f + nf_decimals f > 24).
Proof. intros f v. split; [exact (format_number_too_many f v) | exact (format_number_ifc_only f v)]. Qed.
Print Assumptions C08_too_many_digits.

(* ------------------------------------------------------------------ sign, dollar *)

(* the number text is: leading sign, `$` immediately before the digits, the digit text of the numeric
   layer (scientific iff the field has ^^^^, grouped iff it has a comma), trailing sign *)
Theorem C08_sign_dollar : forall f v t,
  number_text f v = Ok t ->
  exists core,
    (if nf_exp f then to_str_scientific v (sci_before f) (nf_decimals f) (nf_dot f)
     else to_str_fixed v (nf_decimals f) (nf_dot f) (nf_comma f)) = Ok core
    /\ t = lead_sign f (nv_neg v) ++ (if nf_dollar f then [cDOLLAR] else []) ++ core ++ post_sign f (nv_neg v).
Proof.
  intros f v t H. unfold number_text in H.
  destruct (if nf_exp f then _ else _) as [core| | |]; simpl in H; try discriminate.
  exists core. split; [reflexivity|]. congruence.
Qed.
Print Assumptions C08_sign_dollar.

(* leading `+`: sign always shown in front; trailing `+`: sign always shown behind; trailing `-`: `-` or a
   space behind; no sign position: `-` in front of negative numbers only *)
Theorem C08_sign_placement : forall f neg,
  (nf_lead_plus f = true -> lead_sign f neg = [if neg then cMINUS else cPLUS] /\ post_sign f neg = [])
  /\ (nf_lead_plus f = false -> nf_trail_plus f = true ->
      lead_sign f neg = [] /\ post_sign f neg = [if neg then cMINUS else cPLUS])
  /\ (nf_lead_plus f = false -> nf_trail_plus f = false -> nf_trail_minus f = true ->
      lead_sign f neg = [] /\ post_sign f neg = [if neg then cMINUS else cSPACE])
  /\ (nf_lead_plus f = false -> nf_trail_plus f = false -> nf_trail_minus f = false ->
      lead_sign f neg = (if neg then [cMINUS] else []) /\ post_sign f neg = []).
Proof.
  intros f neg. unfold lead_sign, post_sign. repeat split; intros;
    repeat match goal with H : _ = _ |- _ => rewrite H end; simpl; destruct neg; reflexivity.
Qed.
Print Assumptions C08_sign_placement.

(* ------------------------------------------------------------------ thousands separators *)
Theorem C08_commas : forall d, d <> [] ->
  exists first chunks,
    d = first ++ concat chunks
    /\ (1 <= length first <= 3)%nat
    /\ Forall (fun c => length c = 3%nat) chunks
    /\ group_thousands d = first ++ flat_map (fun x => cCOMMA :: x) chunks.
Proof. exact group_thousands_spec. Qed.
Print Assumptions C08_commas.

(* ------------------------------------------------------------------ digits *)

(* fixed-point field, non-zero value: integer digits (grouped iff the field has a comma), the point iff the
   field has one or has decimals, exactly n_dec decimals, and the number shown is exactly
   mantissa * 10^exponent for the (mantissa, exponent) the code selects (C08_fixed_pair) *)
Theorem C08_digits_fixed : forall v n_dec fd g m e,
  nv_zero v = false -> fixed_pair v n_dec = Ok (m, e) -> 0 <= n_dec -> - e <= n_dec ->
  exists ip fp,
    to_str_fixed v n_dec fd g
      = Ok (grp g ip ++ (if (0 <? n_dec) || fd then [cDOT] else []) ++ fp)
    /\ Z.of_nat (length fp) = n_dec
    /\ Forall is_digit (ip ++ fp)
    /\ dval (ip ++ fp) = Z.abs m * 10 ^ (n_dec + e).
Proof. exact to_str_fixed_digits. Qed.
Print Assumptions C08_digits_fixed.

(* which pair that is: the full-precision conversion if it has no more decimals than the field; else the
   conversion to n_work significant digits (= rounding at the last decimal of the field); below one unit of
   the last decimal: 0, or 1 unit if the value is at least half a unit (D08a) *)
Theorem C08_fixed_pair : forall v n_dec q,
  fixed_pair v n_dec = Ok q ->
  exists m0 e0, to_decimal v (nv_digits v) = Ok (m0, e0) /\
    let n_work := nv_digits v - (- e0 - n_dec) in
    (- e0 <= n_dec /\ q = (m0, e0))
    \/ (n_dec < - e0 /\ 0 < n_work /\ to_decimal v n_work = Ok q)
    \/ (n_dec < - e0 /\ n_work <= 0
        /\ q = (b2z ((n_work =? 0) && (10 ^ nv_digits v <=? 2 * Z.abs m0)), - n_dec)).
Proof. exact fixed_pair_spec. Qed.
Print Assumptions C08_fixed_pair.

(* ^^^^ field, non-zero value: db digits, the point, da digits, E (single) or D (double), the sign of the
   exponent, at least two exponent digits; digits * 10^(shown exponent - da) = mantissa * 10^(radix - w):
   with radix = exponent + w  the number shown is mantissa * 10^exponent *)
Theorem C08_digits_scientific : forall v db da fd m radix,
  nv_zero v = false -> 0 <= db -> 0 <= da ->
  let req := db + da in
  let w := Z.min (nv_digits v) req in
  sci_pair v w = Ok (m, radix) -> (0 < w -> Z.abs m < 10 ^ w) ->
  exists ip fp dd,
    to_str_scientific v db da fd
      = Ok (ip ++ (if (0 <? da) || fd then [cDOT] else []) ++ fp
            ++ exp_sign v :: (if radix - db <? 0 then cMINUS else cPLUS) :: dd)
    /\ Z.of_nat (length ip) = db /\ Z.of_nat (length fp) = da
    /\ Forall is_digit (ip ++ fp)
    /\ (0 < w -> dval (ip ++ fp) = Z.abs m * 10 ^ (req - w))
    /\ (2 <= length dd)%nat /\ Forall is_digit dd /\ dval dd = Z.abs (radix - db).
Proof. exact to_str_scientific_digits. Qed.
Print Assumptions C08_digits_scientific.

(* the mantissa is renormalised when rounding carried into an extra digit (D08c): it has at most w digits
   and denotes the same number *)
Theorem C08_sci_pair : forall v w m0 e0,
  to_decimal v w = Ok (m0, e0) -> 0 < w -> Z.abs m0 <= 10 ^ w ->
  exists m e, sci_pair v w = Ok (m, e + w) /\ Z.abs m < 10 ^ w /\ m * 10 ^ (e - e0) = m0 /\ e0 <= e.
Proof. exact sci_pair_spec. Qed.
Print Assumptions C08_sci_pair.

(* the radix position and exponent of a ^^^^ field, end to end from to_decimal(work_digits) = (m0, e0), for
   every field (also with more digit positions than the type has digits: zero padding; also when rounding
   carried into an extra digit): db digits, point, da digits, E/D, sign and >= 2 digits of the exponent X, and
   the number shown, digits * 10^(X - da), is exactly |m0| * 10^e0 *)
Theorem C08_scientific_value : forall v db da fd m0 e0,
  nv_zero v = false -> 0 <= db -> 0 <= da -> 1 <= db + da ->
  let req := db + da in
  let w := Z.min (nv_digits v) req in
  to_decimal v w = Ok (m0, e0) -> Z.abs m0 <= 10 ^ w ->
  exists ip fp dd X,
    to_str_scientific v db da fd
      = Ok (ip ++ (if (0 <? da) || fd then [cDOT] else []) ++ fp
            ++ exp_sign v :: (if X <? 0 then cMINUS else cPLUS) :: dd)
    /\ Z.of_nat (length ip) = db /\ Z.of_nat (length fp) = da
    /\ Forall is_digit (ip ++ fp) /\ Forall is_digit dd /\ (2 <= length dd)%nat /\ dval dd = Z.abs X
    /\ forall K, 0 <= K + (X - da) -> 0 <= K + e0 ->
         dval (ip ++ fp) * 10 ^ (K + (X - da)) = Z.abs m0 * 10 ^ (K + e0).
Proof. exact to_str_scientific_value. Qed.
Print Assumptions C08_scientific_value.

(* ---- the rounding arithmetic of to_str_fixed itself, for ALL pairs ---- *)

(* round_half_up_scaled m s = m * 10^s rounded to the nearest integer, halves up (m >= 0) *)
Theorem C08_round_half_up : forall m s, 0 <= m -> s < 0 ->
  let N := round_half_up_scaled m s in
  (2 * N - 1) * 10 ^ (- s) <= 2 * m < (2 * N + 1) * 10 ^ (- s).
Proof. exact round_half_up_scaled_spec. Qed.
Print Assumptions C08_round_half_up.

(* the regenerated D08a arithmetic is that rounding *)
Theorem C08_round_small : forall d nw m nd, 0 < d -> nw <= 0 -> 0 <= m <= 10 ^ d ->
  using_round_small d nw m nd = (round_half_up_scaled m (nw - d), - nd).
Proof. exact using_round_small_spec. Qed.
Print Assumptions C08_round_small.

(* whenever to_str_fixed does the arithmetic itself (the full-precision pair has no more decimals than the
   field, or the value is below one unit of the field's last decimal) the number shown is
   mantissa * 10^exponent rounded half up at the last decimal - for every pair with |mantissa| <= 10^digits.
   (In the remaining case the code asks to_decimal for n_work digits: C08_fixed_pair.) *)
Theorem C08_fixed_rounding : forall v n_dec fd g m0 e0,
  nv_zero v = false -> to_decimal v (nv_digits v) = Ok (m0, e0) -> 0 <= n_dec ->
  Z.abs m0 <= 10 ^ nv_digits v ->
  (- e0 <= n_dec \/ nv_digits v - (- e0 - n_dec) <= 0) ->
  exists ip fp,
    to_str_fixed v n_dec fd g
      = Ok (grp g ip ++ (if (0 <? n_dec) || fd then [cDOT] else []) ++ fp)
    /\ Z.of_nat (length fp) = n_dec
    /\ Forall is_digit (ip ++ fp)
    /\ dval (ip ++ fp) = round_half_up_scaled (Z.abs m0) (e0 + n_dec).
Proof. exact to_str_fixed_rounding. Qed.
Print Assumptions C08_fixed_rounding.

(* `#^^^^` (the only digit position goes to the sign): no digits; the exponent shown is the decimal exponent
   of to_decimal(0) = the number of divisions by ten that bring the value below 1: the count of integer
   digits for |x| >= 1 (" E+01" for 1, as the code documents for GW-BASIC), 0 for every |x| < 1 *)
Theorem C08_no_digit_exponent : forall v fd m e,
  nv_zero v = false -> to_decimal v 0 = Ok (m, e) ->
  exists dd,
    to_str_scientific v 0 0 fd
      = Ok ((if fd then [cDOT] else []) ++ exp_sign v :: (if e <? 0 then cMINUS else cPLUS) :: dd)
    /\ (2 <= length dd)%nat /\ Forall is_digit dd /\ dval dd = Z.abs e.
Proof. exact sci_no_digit_positions. Qed.
Print Assumptions C08_no_digit_exponent.

(* ---- connection with C07: to_decimal computed from the MBF bytes by the regenerated core ---- *)

(* Float.to_decimal(k) of an integer-valued number, 0 < |n| < 10^k, for EVERY precision 1 <= k <= digits
   (limits just under 10^(k-1) and 10^k from the regenerated table): exact, k significant digits *)
Theorem C08_to_decimal_int : forall dbl b n k,
  let C := dec_consts dbl in
  buf_ok C b -> f_sval C b = n * 2 ^ c_bias C -> n <> 0 -> 1 <= k <= c_digits C -> Z.abs n < 10 ^ k ->
  exists j, 0 <= j /\ buf_to_decimal dbl b k = Ok (Z.abs n * 10 ^ j, - j) /\
            10 ^ (k - 1) <= Z.abs n * 10 ^ j < 10 ^ k.
Proof. exact buf_to_decimal_int. Qed.
Print Assumptions C08_to_decimal_int.

(* digits clause, no input assumed: an integer-valued single/double n, 0 < |n| < 10^7 / 10^16 (this includes
   every BASIC integer), in ANY fixed-point field shows exactly n_dec decimals and exactly the value |n| *)
Theorem C08_int_fixed_exact : forall dbl b n n_dec fd g,
  let C := dec_consts dbl in
  buf_ok C b -> f_sval C b = n * 2 ^ c_bias C -> n <> 0 -> Z.abs n < 10 ^ c_digits C -> 0 <= n_dec ->
  exists ip fp,
    to_str_fixed (nval_of_bytes dbl b) n_dec fd g
      = Ok (grp g ip ++ (if (0 <? n_dec) || fd then [cDOT] else []) ++ fp)
    /\ Z.of_nat (length fp) = n_dec
    /\ Forall is_digit (ip ++ fp)
    /\ dval (ip ++ fp) = Z.abs n * 10 ^ n_dec.
Proof. exact int_fixed_exact. Qed.
Print Assumptions C08_int_fixed_exact.

(* PARTIAL: the clause "the digits shown equal the value rounded to the field's decimal places (within the
   accuracy of decimal conversion)" for values that are not integers needs an error bound for the scaling
   loops of Float.to_decimal (open in C07: C07_print_err_statement).  Full statement for fixed-point fields,
   relative to a value q and a conversion that is exact to half a unit of the last digit asked for; NOT
   proved (tested by the oracle of harness/C08.py against an exact rational reference). *)
Definition Qpow10 (e : Z) : Q := Qpower (10 # 1) e.
Definition is_digitb (c : Z) : bool := (cZERO <=? c) && (c <=? cZERO + 9).
Fixpoint after_dot (l : list Z) : list Z :=
  match l with [] => [] | c :: r => if c =? cDOT then r else after_dot r end.
Definition shown_value (out : list Z) : Q :=
  inject_Z (dval (filter is_digitb out)) * Qpow10 (- Z.of_nat (length (filter is_digitb (after_dot out)))).
Definition C08_digits_statement : Prop :=
  forall (v : nval) (q : Q) n_dec fd g out,
    nv_zero v = false -> 0 <= n_dec -> (0 < q)%Q ->
    (forall n m e, to_decimal v n = Ok (m, e) ->
                   (Qabs (inject_Z m * Qpow10 e - q) <= (1 # 2) * Qpow10 e)%Q) ->
    to_str_fixed v n_dec fd g = Ok out ->
    exists m0 e0, to_decimal v (nv_digits v) = Ok (m0, e0)
      /\ (Qabs (shown_value out - q) <= (1 # 2) * Qpow10 (- n_dec) + Qpow10 e0)%Q.

(* ------------------------------------------------------------------ string fields *)
Theorem C08_string_fields : forall s,
  format_string [cEXCL] s = [match s with c :: _ => c | [] => cSPACE end]
  /\ format_string [cAMP] s = s
  /\ forall n, let w := cBSL :: repeat cSPACE n ++ [cBSL] in
       format_string w s = firstn (n + 2) s ++ repeat cSPACE (n + 2 - length s)
       /\ length (format_string w s) = (n + 2)%nat.
Proof.
  intros s. split; [exact (format_string_excl s)|]. split; [exact (format_string_amp s)|].
  intros n. exact (format_string_backslash n s).
Qed.
Print Assumptions C08_string_fields.

(* a string in a number field or a number in a string field: Type mismatch *)
Theorem C08_type_mismatch : forall w f s n,
  format_item (IStr w) (UNum n) = Err 13 /\ format_item (INum f) (UStr s) = Err 13.
Proof. intros. split; reflexivity. Qed.
Print Assumptions C08_type_mismatch.

(* ------------------------------------------------------------------ cycling through the format string *)

(* PRINT USING fmt; vals  (trailing = the list ends with a separator): with h0 the literal text before the
   first field and sg the fields each with the literal text following it, the output is that of spec_run:
   values are consumed left to right, each by the next field followed by its literal text; when the fields
   are exhausted and values remain the format restarts (h0 is written again); the statement stops at the
   first error with the text written so far; no field at all: the literal text, then Illegal function call *)
Theorem C08_cycle : forall fmt vals trailing,
  fmt <> [] ->
  print_using fmt vals trailing =
  match snd (segs (tokenize fmt)) with
  | [] => (fst (segs (tokenize fmt)), Err 5)
  | sg => spec_run trailing (fst (segs (tokenize fmt))) sg [] vals
  end.
Proof. exact print_using_spec. Qed.
Print Assumptions C08_cycle.

Theorem C08_empty_format : forall vals trailing, print_using [] vals trailing = ([], Err 5).
Proof. exact print_using_empty. Qed.
Print Assumptions C08_empty_format.

(* one step of the specification, spelled out: the next value goes to the next field of the cycle *)
Theorem C08_cycle_step : forall tr h0 all s rest v vs t,
  format_item (fst s) v = Ok t ->
  spec_run tr h0 all (s :: rest) (v :: vs) = prep (t ++ snd s) (spec_run tr h0 all rest vs)
  /\ (all = s :: rest ->
      spec_run tr h0 all [] (v :: vs) = prep (h0 ++ t ++ snd s) (spec_run tr h0 all rest vs))
  /\ spec_run tr h0 all rest [] = ([], Ok (negb tr)).
Proof.
  intros tr h0 all s rest v vs t H. split; [|split].
  - cbn [spec_run]. rewrite H. reflexivity.
  - intros ->. cbn [spec_run hd tl]. rewrite H. reflexivity.
  - reflexivity.
Qed.
Print Assumptions C08_cycle_step.

(* ------------------------------------------------------------------ non-vacuity: concrete runs of the model *)
(* 2337.3 as a single: to_decimal(7) = (2337300, -3); GW-BASIC test vector of tests/basic/unsorted/PrintUSING *)
Example C08_example_fields :
  let v1 := UNum (mkNV false false false [(7, (1000000, -6)); (1, (1, 0))]) in
  let v2 := UStr [67; 72; 65; 82; 73; 84; 89] in
  let v3 := UNum (mkNV false false false [(7, (2337300, -3)); (6, (233730, -2))]) in
  (* " ## \ \ #######.##" *)
  print_using [32;35;35;32;92;32;92;32;35;35;35;35;35;35;35;46;35;35] [v1; v2; v3] false
  = ([32;32;49;32;67;72;65;32;32;32;32;50;51;51;55;46;51;48], Ok true).    (* "  1 CHA    2337.30" *)
Proof. vm_compute. reflexivity. Qed.

(* D08a / D08c / D08b witnesses on the fixed model: 0.06 in #.# is 0.1; 9.996 in ##.##^^^^ is 1.00E+01;
   a single $ at the end is a literal *)
Example C08_example_defects :
  print_using [35;46;35] [UNum (mkNV false false false [(7, (6000000, -8)); (0, (0, 0))])] true
    = ([48;46;49], Ok false)
  /\ print_using [35;35;46;35;35;94;94;94;94] [UNum (mkNV false false false [(3, (1000, -2))])] true
    = ([32;49;46;48;48;69;43;48;49], Ok false)
  /\ print_using [35;35;32;36] [UNum (mkNV false false false [(7, (5000000, -6)); (1, (5, 0))])] true
    = ([32;53;32;36], Ok false)
  (* D08d: "$$#.##";.5 is " $0.50" *)
  /\ print_using [36;36;35;46;35;35] [UNum (mkNV false false false [(7, (5000000, -7)); (2, (50, -2))])] true
    = ([32;36;48;46;53;48], Ok false).
Proof. vm_compute. repeat split; reflexivity. Qed.

(* hypotheses of the main theorems are satisfiable *)
Example C08_nonvacuous_shape :
  exists f r, parse_number_field [43;42;42;36;35;44;35;35;35;46;35;35;94;94;94;94;120] = Some (f, r)
    /\ nf_before f = 7 /\ nf_decimals f = 2 /\ nf_comma f = true /\ r = [120].
Proof. eexists. eexists. vm_compute. repeat split; reflexivity. Qed.

Example C08_nonvacuous_digits :
  let v := mkNV false false false [(7, (2337300, -3)); (6, (233730, -2))] in
  nv_zero v = false /\ fixed_pair v 2 = Ok (233730, -2) /\ - (-2) <= 2
  /\ sci_pair (mkNV false false false [(3, (1000, -2))]) 3 = Ok (100, 2).
Proof. vm_compute. repeat split; try reflexivity; discriminate. Qed.

(* the integer 5 as a single (bytes 00 00 20 83) satisfies the hypotheses of C08_int_fixed_exact; in ##.## it
   is "5.00" with to_decimal computed from the bytes *)
Example C08_nonvacuous_int :
  let b := [0; 0; 32; 131] in
  buf_okb Single_consts b = true /\ f_sval Single_consts b = 5 * 2 ^ c_bias Single_consts
  /\ to_str_fixed (nval_of_bytes false b) 2 true false = Ok [53; 46; 48; 48]
  /\ buf_to_decimal false b 3 = Ok (500, -2).
Proof. vm_compute. repeat split; reflexivity. Qed.

(* the values are arguments, not state: nothing is threaded from one field to the next, so a value (variable)
   that occurs again in the list is formatted to the same text again (seeded change C08d: iabs() on the
   variable itself; the harness additionally reads every variable back after the statement) *)
Theorem C08_same_value_again : forall tr h0 s v t,
  format_item (fst s) v = Ok t ->
  spec_run tr h0 [s] [] [v; v] = (h0 ++ t ++ snd s ++ h0 ++ t ++ snd s, Ok (negb tr)).
Proof.
  intros tr h0 s v t H. cbn [spec_run hd tl]. rewrite !H. cbn [spec_run hd tl]. rewrite ?H.
  unfold prep. cbn [fst snd]. rewrite !app_nil_r. rewrite <- !app_assoc. reflexivity.
Qed.
Print Assumptions C08_same_value_again.
