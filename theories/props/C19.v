(* C19 - Structured control flow follows its reference semantics.
   Only statements, `exact`, Print Assumptions and non-vacuity examples here.
   Machine: model/Flow.v (step, steps, run);  reference semantics and layout: model/FlowRef.v. *)
From Coq Require Import ZArith List Bool.
From PCB Require Import lib.Result lib.PyInt lib.MBFPrims gen.Gen_mbf gen.Gen_flow model.MBF model.Flow model.FlowRef
  model.FlowSingle proofs.Flow_proofs proofs.FlowFor_proofs proofs.FlowRef_proofs proofs.FlowSingle_proofs.
Import ListNotations.
Open Scope Z_scope.

(* ---- refinement: any nesting depth ------------------------------------------------------------------
   For every well-formed structured program (nested FOR/NEXT, WHILE/WEND, one-line IF/THEN/ELSE, GOSUB and
   ON..GOSUB to subroutines, any depth, any line layout) the machine run on its layout produces exactly the
   output trace and the outcome (finished / error number and line / still running) that the reference
   semantics prescribes - for every amount of fuel, so also for programs that never end. *)
Theorem C19_nested_refines : forall p fuel, wf_prog p ->
  run_program (compile_prog p) fuel = exec_prog p fuel.
Proof. intros p fuel H. exact (refines p H fuel). Qed.
Print Assumptions C19_nested_refines.

(* ---- FOR: trip count --------------------------------------------------------------------------------
   FOR v = a TO b STEP s : PRINT v : NEXT [v]   with 16-bit a, b, s and s <> 0, reached in any state:
   after 1 + 2n statements the loop has been left, the output is a, a+s, ..., a+(n-1)s with
   n = max 0 (floor((b-a)/s) + 1)  (n = 0: the body is not executed at all), the stacks are as before and
   v holds the first value past the end.  (The counter must stay a 16-bit integer up to that value; otherwise
   the program stops with Overflow, see C19_nested_refines / correspondence.) *)
Theorem C19_for_trip_count : forall code i v a b s vs st,
  nth_error code i = Some (SFor v (EConst a) (EConst b) (EConst s)) ->
  nth_error code (S i) = Some (SPrint (EVar v)) ->
  nth_error code (S (S i)) = Some (SNext vs) -> (vs = [] \/ vs = [v]) ->
  in16 a = true -> in16 b = true -> in16 s = true -> s <> 0 -> pc st = i ->
  let n := trip_count a b s in
  in16 (a + Z.max n 1 * s) = true ->
  steps code (1 + 2 * Z.to_nat n) st =
    Some (for_values a s 0 (Z.to_nat n), exit_state i v st (a + Z.max n 1 * s)).
Proof. intros code i v a b s vs st H1 H2 H3 H4 H5 H6 H7 H8 H9. exact (for_trip_count code i v a b s vs H1 H2 H3 H4 H5 H6 H7 st H8 H9). Qed.
Print Assumptions C19_for_trip_count.

(* STEP 0 has the direction "not negative" at FOR and at NEXT alike (D17):
   start past the end -> the body is not executed; otherwise the counter never passes the end and the loop
   has no finite trip count: the body is repeated for ever. *)
Theorem C19_for_step0_skip : forall code i v a b vs st,
  nth_error code i = Some (SFor v (EConst a) (EConst b) (EConst 0)) ->
  nth_error code (S i) = Some (SPrint (EVar v)) ->
  nth_error code (S (S i)) = Some (SNext vs) -> (vs = [] \/ vs = [v]) ->
  in16 a = true -> in16 b = true -> pc st = i -> a > b ->
  steps code 1 st = Some ([], exit_state i v st a).
Proof. intros code i v a b vs st H1 H2 H3 H4 H5 H6 H7 H8. exact (for_step0_skip code i v a b 0 vs H1 H2 H3 H4 H5 H6 eq_refl st eq_refl H7 H8). Qed.
Print Assumptions C19_for_step0_skip.

Theorem C19_for_step0_forever : forall code i v a b vs st,
  nth_error code i = Some (SFor v (EConst a) (EConst b) (EConst 0)) ->
  nth_error code (S i) = Some (SPrint (EVar v)) ->
  nth_error code (S (S i)) = Some (SNext vs) -> (vs = [] \/ vs = [v]) ->
  in16 a = true -> in16 b = true -> pc st = i -> a <= b ->
  (forall m, steps code (1 + 2 * m) st = Some (repeat a m, body_state i v b 0 st a)) /\
  (forall fuel, snd (run code fuel st) = OutOfFuel).
Proof.
  intros code i v a b vs st H1 H2 H3 H4 H5 H6 H7 H8. split.
  - exact (for_step0_forever code i v a b 0 vs H1 H2 H3 H4 H5 H6 eq_refl st eq_refl H7 H8).
  - exact (for_step0_diverges code i v a b 0 vs H1 H2 H3 H4 H5 H6 eq_refl st eq_refl H7 H8).
Qed.
Print Assumptions C19_for_step0_forever.

(* ---- FOR reads its end and step once ----------------------------------------------------------------
   The end and the step of a FOR may be any expressions, e.g. variables that the body - or a subroutine the
   body calls - assigns to.  The loop keeps the VALUES they had when FOR was executed: in the reference
   semantics the loop is the same loop with those values written in as constants (whatever body and rest
   are), and the machine's loop record holds numbers, not references.  With C19_nested_refines: changing the
   variable that was the bound does not change the trip count. *)
Theorem C19_for_bounds_captured : forall subs g f cur v a b s nm body rest d vb vs,
  eval d b = EV vb -> exact24 vb = true -> eval d s = EV vs -> exact24 vs = true ->
  exec subs (S g) (S f) cur (TFor v a b s nm body :: rest) d =
  exec subs (S g) (S f) cur (TFor v a (EConst vb) (EConst vs) nm body :: rest) d.
Proof. exact for_bounds_captured. Qed.
Print Assumptions C19_for_bounds_captured.

Theorem C19_for_record_holds_values : forall code st v a b s va vb vs j k,
  nth_error code (pc st) = Some (SFor v a b s) ->
  eval (ds st) a = EV va -> eval (ds st) b = EV vb -> eval (ds st) s = EV vs ->
  in16 va = true -> in16 vb = true -> in16 vs = true ->
  scan_next (skipn (S (pc st)) code) (S (pc st)) 0 = Some (j, k) ->
  match nth_error (vars_of_next code j) k with Some v' => Nat.eqb v' v | None => true end = true ->
  (if vs >=? 0 then va >? vb else vb >? va) = false ->
  step code st =
    Go (set_pc (set_fors (set_var st v va)
                 ({| f_var := v; f_stop := vb; f_step := vs; f_forpos := S (pc st); f_nidx := j; f_nk := k |}
                  :: fors st)) (S (pc st))) [].
Proof. exact for_step_record. Qed.
Print Assumptions C19_for_record_holds_values.

(* 10 N%=6:FOR I%=1 TO N%:PRINT I%:N%=N%-1:NEXT  prints 1..6 (machine and reference semantics) *)
Example C19_for_bounds_nonvacuous :
  let p := {| p_main := [TLine 10; TLet 7%nat (EConst 6);
                         TFor 4%nat (EConst 1) (EVar 7%nat) (EConst 1) false
                           [TPrint (EVar 4%nat); TLet 7%nat (ESub (EVar 7%nat) (EConst 1))]];
              p_subs := [] |} in
  wf_prog p /\ run_program (compile_prog p) 100 = ([1; 2; 3; 4; 5; 6], Finished) /\
  exec_prog p 100 = ([1; 2; 3; 4; 5; 6], Finished).
Proof. split; [apply wf_progb_ok; vm_compute; reflexivity|]. split; vm_compute; reflexivity. Qed.

(* ---- NEXT uses the most recent FOR record ------------------------------------------------------------
   A loop left from inside its body (RETURN, GOTO) leaves its record on the FOR stack.  When the same FOR is
   executed again, NEXT finds the new record first (top-first search), drops the records above it and keeps
   the stale ones below: the re-entered loop runs with its own end and step. *)
Theorem C19_next_most_recent : forall newer f older j k,
  (forall g, In g newer -> rec_at j k g = false) -> rec_at j k f = true ->
  find_for (newer ++ f :: older) j k = Some (f, older).
Proof. exact find_for_most_recent. Qed.
Print Assumptions C19_next_most_recent.

(* 10 A%=5:GOSUB 500:A%=3:GOSUB 500:END / 500 FOR I%=1 TO A%:PRINT I%:IF C%=0 THEN C%=1:RETURN / 510 NEXT:RETURN
   the second call counts to 3 although the abandoned record (end 5) is still on the stack *)
Example C19_abandoned_loop_nonvacuous :
  run_program [SLine 10; SLet 0%nat (EConst 5); SGosub 500; SLet 0%nat (EConst 3); SGosub 500; SEnd;
               SLine 500; SFor 4%nat (EConst 1) (EVar 0%nat) (EConst 1); SPrint (EVar 4%nat);
               SIf (ECmp CEq (EVar 2%nat) (EConst 0)) None; SLet 2%nat (EConst 1); SReturn None;
               SLine 510; SNext []; SReturn None; SEndProg] 100 = ([1; 1; 2; 3], Finished).
Proof. vm_compute. reflexivity. Qed.

(* ---- IF c THEN n / ELSE n: the implicit GOTO, for every line number (0 and 65529 included) ------------- *)
Theorem C19_if_then_jump : forall code st c n z j,
  nth_error code (pc st) = Some (SIf c (Some n)) -> eval (ds st) c = EV z -> z <> 0 ->
  find_line code n = Some j -> step code st = Go (set_pc st j) [].
Proof. exact if_then_jump. Qed.
Print Assumptions C19_if_then_jump.

Theorem C19_if_else_jump : forall code st c tj k n j,
  nth_error code (pc st) = Some (SIf c tj) -> eval (ds st) c = EV 0 ->
  find_else_from (skipn (S (pc st)) code) (S (pc st)) 0 = ElseAt k (Some n) ->
  find_line code n = Some j -> step code st = Go (set_pc st j) [].
Proof. exact if_else_jump. Qed.
Print Assumptions C19_if_else_jump.

(* 0 PRINT 7:END / 10 IF 1 THEN 0 , started at line 10: the jump to line 0 is taken *)
Example C19_if_line0_nonvacuous :
  run [SLine 0; SPrint (EConst 7); SEnd; SLine 10; SIf (EConst 1) (Some 0); SPrint (EConst 11); SEndProg] 20 (init_at 3)
  = ([7], Finished).
Proof. vm_compute. reflexivity. Qed.

(* ---- jumps and NEXT lists, for all programs ----------------------------------------------------------
   (outside the structured language of C19_nested_refines; these hold in every state of every program) *)
Theorem C19_goto : forall code st n j,
  nth_error code (pc st) = Some (SGoto n) -> find_line code n = Some j ->
  exists st', step code st = Go st' [] /\ pc st' = j /\ fors st' = fors st /\ whiles st' = whiles st /\
              gosubs st' = gosubs st /\ ds st' = ds st.
Proof. exact goto_keeps_state. Qed.
Print Assumptions C19_goto.

Theorem C19_next_list : forall st j k nm rest,
  next_vars st j k (nm :: rest) =
    match iterate st j k nm with IEnded st' => next_vars st' j (S k) rest | r => r end.
Proof. exact next_vars_cons. Qed.
Print Assumptions C19_next_list.

Theorem C19_wend_drops_stale : forall stale w older j,
  (forall w' e', In (w', e') stale -> e' <> j) ->
  pop_to_wend (stale ++ (w, j) :: older) j = Some ((w, j) :: older).
Proof. exact pop_to_wend_stale. Qed.
Print Assumptions C19_wend_drops_stale.

(* ---- single-precision counters (model/FlowSingle.v on the regenerated Float.iadd / Float.gt) ----------
   The passes of the body are the ACCUMULATED values c, c (+) step, (c (+) step) (+) step, ... - each one the
   rounded sum of the previous one and the step - as long as the value has not passed the end; a finished
   loop leaves the first value that has passed it. *)
Theorem C19_single_recurrence : forall susp step stop fuel c t e,
  s_loop fuel susp step stop c = (t, e) -> s_chain susp step stop c (body_values t).
Proof. intros susp step stop. exact (s_loop_chain susp step stop). Qed.
Print Assumptions C19_single_recurrence.

Theorem C19_single_finished : forall susp step stop fuel c t,
  s_loop fuel susp step stop c = (t, S_finished) ->
  exists c' soft, s_add susp (last (body_values t) c) step = SN_ok c' soft /\
                  s_passed flow_next_dir step c' stop = true /\ In (EvAfter c') t.
Proof. intros susp step stop. exact (s_loop_finished susp step stop). Qed.
Print Assumptions C19_single_finished.

Theorem C19_single_for : forall fuel susp start stop step,
  (s_passed flow_for_dir step start stop = false ->
   s_for fuel susp start stop step =
     (EvBody start :: fst (s_loop fuel susp step stop start), snd (s_loop fuel susp step stop start))) /\
  (forall c', s_passed flow_for_dir step start stop = true ->
   s_add susp start step = SN_ok c' false -> s_passed flow_next_dir step c' stop = true ->
   s_for fuel susp start stop step = ([EvAfter c'], S_finished)).
Proof.
  intros. split; [exact (s_for_enters fuel susp start stop step) | intros c'; exact (s_for_skips fuel susp start stop step c')].
Qed.
Print Assumptions C19_single_for.

(* a step that does not move the counter (below half a unit in the last place): the loop has no end *)
Theorem C19_single_stuck_forever : forall susp step stop c,
  s_add susp c step = SN_ok c false -> s_passed flow_next_dir step c stop = false ->
  forall fuel, s_loop fuel susp step stop c = (repeat (EvBody c) fuel, S_no_end).
Proof. exact s_loop_stuck. Qed.
Print Assumptions C19_single_stuck_forever.

(* termination: an upward loop in which every addition raises the value by at least delta > 0 ends within
   (stop - c) / delta + 1 passes (values on the scale f_sval = value * 2^152) *)
Theorem C19_single_terminates_under_progress : forall susp step stop delta,
  flow_next_dir (mbf_sign SC step) = true -> buf_ok SC stop -> 0 < delta ->
  (forall x, buf_ok SC x -> f_sval SC x <= f_sval SC stop ->
     exists x', s_add susp x step = SN_ok x' false /\ buf_ok SC x' /\ f_sval SC x + delta <= f_sval SC x') ->
  forall n c, buf_ok SC c -> f_sval SC c <= f_sval SC stop ->
    f_sval SC stop - f_sval SC c < Z.of_nat n * delta ->
    forall fuel, (n <= fuel)%nat -> snd (s_loop fuel susp step stop c) = S_finished.
Proof. exact s_loop_terminates. Qed.
Print Assumptions C19_single_terminates_under_progress.

(* NOT proved (kept as a statement): the progress hypothesis follows from the error bound of Float.iadd
   (MBFArith_addbound.iadd_sval) whenever the step is at least four units in the last place of the larger of
   |start| and |stop| + |step| *)
Definition C19_single_terminates_statement : Prop :=
  forall susp start stop step, buf_ok SC start -> buf_ok SC stop -> buf_ok SC step ->
    0 < f_sval SC step -> f_sval SC start <= f_sval SC stop ->
    4 * 2 ^ (Z.max (f_exp start) (Z.max (f_exp stop) (f_exp step)) + 1) <= f_sval SC step ->
    exists fuel, snd (s_for fuel susp start stop step) <> S_no_end.

(* FOR X=0 TO 1 STEP .1: ten passes, the accumulated values .7000001, .8000001, .9000001 included, X ends
   as 1.0000001;  FOR X=1 TO 2 STEP 1E-8 and FOR X=16777215 TO 16777218 never end;
   FOR X=1E38 TO 1.7E38 STEP 1E38 prints the Overflow message once and ends with machine infinity *)
Example C19_single_nonvacuous :
  let one := [0; 0; 0; 129] in let tenth := [205; 204; 76; 125] in
  s_for 100 false [0;0;0;0] one tenth =
    ([EvBody [0; 0; 0; 0]; EvBody [205; 204; 76; 125]; EvBody [205; 204; 76; 126]; EvBody [154; 153; 25; 127];
      EvBody [205; 204; 76; 127]; EvBody [0; 0; 0; 128]; EvBody [154; 153; 25; 128]; EvBody [52; 51; 51; 128];
      EvBody [206; 204; 76; 128]; EvBody [104; 102; 102; 128]; EvAfter [1; 0; 0; 129]], S_finished) /\
  (forall fuel, s_loop fuel false [119; 204; 43; 102] [0; 0; 0; 130] one = (repeat (EvBody one) fuel, S_no_end)) /\
  (forall fuel, s_loop fuel false one [1; 0; 0; 153] [0; 0; 0; 153]
                = (repeat (EvBody [0; 0; 0; 153]) fuel, S_no_end)) /\
  enc_sfor (s_for 100 false [153; 118; 22; 255] [158; 201; 127; 255] [153; 118; 22; 255])
    = [0; 30361; -234; 77777; -1; -129].
Proof.
  split; [vm_compute; reflexivity|].
  split; [apply s_loop_stuck; vm_compute; reflexivity|].
  split; [apply s_loop_stuck; vm_compute; reflexivity|].
  vm_compute. reflexivity.
Qed.

(* ---- GOSUB / RETURN ---------------------------------------------------------------------------------
   GOSUB records the calling statement on top of the stack and jumps; RETURN removes the top record and
   continues after the statement it names (at any depth: C19_nested_refines treats GOSUB as a call). *)
Theorem C19_gosub : forall code st n j,
  nth_error code (pc st) = Some (SGosub n) -> find_line code n = Some j ->
  step code st = Go (set_pc (set_gosubs st (pc st :: gosubs st)) j) [].
Proof. exact gosub_step. Qed.
Print Assumptions C19_gosub.

Theorem C19_return : forall code st r rest,
  nth_error code (pc st) = Some (SReturn None) -> gosubs st = r :: rest ->
  step code st = Go (set_pc (set_gosubs st rest) (S r)) [].
Proof. exact return_step. Qed.
Print Assumptions C19_return.

(* ---- ON n GOTO / GOSUB ------------------------------------------------------------------------------ *)
Theorem C19_on_select : forall code st e gosub ns z j,
  nth_error code (pc st) = Some (SOn e gosub ns) -> eval (ds st) e = EV z ->
  1 <= z <= Z.of_nat (length ns) -> z <= 255 ->
  find_line code (nth (Z.to_nat (z - 1)) ns 0) = Some j ->
  step code st = Go (set_pc (if gosub then set_gosubs st (pc st :: gosubs st) else st) j) [].
Proof. intros code st e gosub ns z j H1 H2. exact (on_select code st e gosub ns z H1 H2 j). Qed.
Print Assumptions C19_on_select.

Theorem C19_on_fall_through : forall code st e gosub ns z,
  nth_error code (pc st) = Some (SOn e gosub ns) -> eval (ds st) e = EV z ->
  z = 0 \/ Z.of_nat (length ns) < z <= 255 ->
  step code st = Go (set_pc st (S (pc st))) [].
Proof. exact on_fall_through. Qed.
Print Assumptions C19_on_fall_through.

Theorem C19_on_out_of_range : forall code st e gosub ns z,
  nth_error code (pc st) = Some (SOn e gosub ns) -> eval (ds st) e = EV z ->
  (in16 z = true -> z < 0 \/ z > 255 ->
     step code st = trap code st (pc st) flow_E_ILLEGAL_FUNCTION_CALL (pc st)) /\
  (in16 z = false -> step code st = trap code st (pc st) flow_E_OVERFLOW (pc st)).
Proof.
  intros code st e gosub ns z H1 H2. split.
  - exact (on_ifc code st e gosub ns z H1 H2).
  - exact (on_overflow code st e gosub ns z H1 H2).
Qed.
Print Assumptions C19_on_out_of_range.

(* ---- mismatched NEXT / WEND / RETURN / FOR / WHILE --------------------------------------------------
   (`trap` is the error entry of the machine: without an active handler it ends the program with the
   message of that error and the line, lemma trap_untrapped) *)
Theorem C19_mismatch_errors : forall code st,
  (* RETURN with an empty GOSUB stack *)
  (forall tgt, nth_error code (pc st) = Some (SReturn tgt) -> gosubs st = [] ->
     step code st = trap code st (pc st) flow_E_RETURN_WITHOUT_GOSUB (pc st)) /\
  (* NEXT that no FOR record points at *)
  (forall vs, nth_error code (pc st) = Some (SNext vs) -> find_for (fors st) (pc st) 0 = None ->
     step code st = trap code st (pc st) flow_E_NEXT_WITHOUT_FOR (pc st)) /\
  (* NEXT v reached by the loop of another variable *)
  (forall v vs f below, nth_error code (pc st) = Some (SNext (v :: vs)) ->
     find_for (fors st) (pc st) 0 = Some (f, below) -> v <> f_var f ->
     step code st = trap code st (pc st) flow_E_NEXT_WITHOUT_FOR (pc st)) /\
  (* FOR with no NEXT after it *)
  (forall v a b s va vb vs, nth_error code (pc st) = Some (SFor v a b s) ->
     eval (ds st) a = EV va -> eval (ds st) b = EV vb -> eval (ds st) s = EV vs ->
     in16 va = true -> in16 vb = true -> in16 vs = true ->
     scan_next (skipn (S (pc st)) code) (S (pc st)) 0 = None ->
     step code st = trap code st (pc st) flow_E_FOR_WITHOUT_NEXT (pc st)) /\
  (* WHILE with no WEND after it *)
  (forall c, nth_error code (pc st) = Some (SWhile c) ->
     scan_wend (skipn (S (pc st)) code) (S (pc st)) 0 = None ->
     step code st = trap code st (pc st) flow_E_WHILE_WITHOUT_WEND (pc st)) /\
  (* WEND that no WHILE record points at *)
  (nth_error code (pc st) = Some SWend -> (forall w e, In (w, e) (whiles st) -> e <> pc st) ->
     step code st = trap code (set_whiles st []) (pc st) flow_E_WEND_WITHOUT_WHILE (pc st)).
Proof.
  intros code st. repeat split.
  - exact (return_without_gosub code st).
  - exact (next_step_without_for code st).
  - exact (next_step_wrong_var code st).
  - exact (for_step_without_next code st).
  - exact (while_step_without_wend code st).
  - exact (wend_step_without_while code st).
Qed.
Print Assumptions C19_mismatch_errors.

(* a bare NEXT raises NEXT without FOR only in that shape (its other error is Overflow of the counter) *)
Theorem C19_next_error_exact : forall st st' c,
  next_vars st (pc st) 0 [None] = IErr st' c ->
  (c = flow_E_NEXT_WITHOUT_FOR <-> find_for (fors st) (pc st) 0 = None).
Proof. exact next_without_for. Qed.
Print Assumptions C19_next_error_exact.

Theorem C19_untrapped_error_stops : forall code st i c epos,
  onerr (ds st) = 0 \/ handling (ds st) = true ->
  trap code st i c epos = Halt (Stopped c (line_of code epos)).
Proof. exact trap_untrapped. Qed.
Print Assumptions C19_untrapped_error_stops.

Theorem C19_error_numbers :
  flow_E_NEXT_WITHOUT_FOR = 1 /\ flow_E_RETURN_WITHOUT_GOSUB = 3 /\ flow_E_ILLEGAL_FUNCTION_CALL = 5 /\
  flow_E_OVERFLOW = 6 /\ flow_E_UNDEFINED_LINE_NUMBER = 8 /\ flow_E_DIVISION_BY_ZERO = 11 /\
  flow_E_NO_RESUME = 19 /\ flow_E_RESUME_WITHOUT_ERROR = 20 /\ flow_E_FOR_WITHOUT_NEXT = 26 /\
  flow_E_WHILE_WITHOUT_WEND = 29 /\ flow_E_WEND_WITHOUT_WHILE = 30.
Proof. exact error_numbers. Qed.

(* ---- non-vacuity ------------------------------------------------------------------------------------ *)

(* 10 FOR A%=1 TO 10 STEP 3:PRINT A%:NEXT A% : four passes *)
Example C19_for_nonvacuous :
  let code := [SLine 10; SFor 0%nat (EConst 1) (EConst 10) (EConst 3); SPrint (EVar 0%nat); SNext [0%nat]; SEndProg] in
  trip_count 1 10 3 = 4 /\
  steps code (1 + 2 * 4) (init_at 1) = Some ([1; 4; 7; 10], exit_state 1 0%nat (init_at 1) 13) /\
  run_program code 100 = ([1; 4; 7; 10], Finished).
Proof. repeat split; vm_compute; reflexivity. Qed.

(* nested loops in a WHILE, an IF with a loop in its branch, GOSUB from inside a loop to a subroutine that
   loops and calls another one, ON..GOSUB: well-formed, and both semantics give this trace *)
Definition C19_example : sprog :=
  {| p_main :=
       [TLine 10; TLet 0%nat (EConst 0);
        TWhile (ECmp CLt (EVar 0%nat) (EConst 2))
          [TFor 4%nat (EConst 1) (EConst 2) (EConst 1) true
             [TLine 20; TFor 5%nat (EConst 3) (EConst 1) (EConst (-2)) false
                [TPrint (EAdd (EVar 4%nat) (EVar 5%nat)); TGosub 1000]];
           TLet 0%nat (EAdd (EVar 0%nat) (EConst 1))];
        TLine 30;
        TIf (ECmp CEq (EVar 0%nat) (EConst 2))
          [TFor 4%nat (EConst 5) (EConst 1) (EConst 1) true [TPrint (EConst 99)]; TPrint (EConst 7)]
          [TPrint (EConst 8)] 40;
        TOnGosub (EConst 2) [1000; 1100]; TOnGosub (EConst 3) [1000; 1100]; TPrint (EConst 5)];
     p_subs :=
       [(1000, [TFor 6%nat (EConst 1) (EConst 2) (EConst 1) true [TGosub 1100]]);
        (1100, [TPrint (EConst (-1))])] |}.

Example C19_refines_nonvacuous :
  wf_prog C19_example /\
  exec_prog C19_example 1000 =
    ([4; -1; -1; 2; -1; -1; 5; -1; -1; 3; -1; -1; 4; -1; -1; 2; -1; -1; 5; -1; -1; 3; -1; -1; 7; -1; 5], Finished) /\
  run_program (compile_prog C19_example) 1000 = exec_prog C19_example 1000.
Proof.
  split; [apply wf_progb_ok; vm_compute; reflexivity|].
  split; vm_compute; reflexivity.
Qed.
