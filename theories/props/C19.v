(* C19 - placeholder while the proofs are being built *)
From Coq Require Import ZArith List.
From PCB Require Import gen.Gen_flow model.Flow model.FlowRef.
