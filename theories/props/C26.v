(* C26 - File sharing and record locks exclude each other.
   Only statements, `exact`, Print Assumptions and non-vacuity examples here.
   Model: model/Locks.v (Locks / LockingParameters of devices/diskfiles.py + the OPEN/CLOSE/LOCK/UNLOCK/GET/PUT
   glue of devices/files.py) over the regenerated gen/Gen_locks.v (range test, limits, decision tables). *)
From Coq Require Import ZArith List Bool Lia.
From PCB Require Import lib.Result lib.PyInt gen.Gen_locks model.Locks proofs.Locks_proofs.
From PCB Require Import model.RandomFile model.SharedFile proofs.SharedFrame_proofs.
Import ListNotations.
Open Scope Z_scope.

(* ---- "A file open for OUTPUT or APPEND cannot be opened again": in every state, OPEN FOR OUTPUT/APPEND of
   a name that some file number has open (in any mode) is refused and changes nothing; with valid arguments
   the error is File already open *)
Theorem C26_output_exclusive : forall st nm n m a lt reclen k e,
  is_oa m = true -> In (k, e) (st_files st) -> lp_name e = nm ->
  (exists err, open_stmt st nm n m a lt reclen = (st, Err err)) /\
  (valid_open_args n m a reclen -> open_stmt st nm n m a lt reclen = (st, Err locks_err_FILE_ALREADY_OPEN)).
Proof. exact output_open_refused. Qed.
Print Assumptions C26_output_exclusive.

(* ---- for ALL histories of OPEN/CLOSE/LOCK/UNLOCK/GET/PUT statements (any arguments, errors included):
   the file numbers are distinct, lock sets have no duplicates,
   any two locks held on one name (through different numbers or the same one) have no record in common,
   and at most one file number has the name open for OUTPUT/APPEND *)
Theorem C26_locks_disjoint : forall ops,
  let fs := st_files (run init ops) in
  wf fs /\ disjoint_locks fs /\ oa_unique fs.
Proof. exact invariant_all_histories. Qed.
Print Assumptions C26_locks_disjoint.

(* the same, unfolded for the reader *)
Theorem C26_locks_disjoint_unfolded : forall ops nm n1 e1 r1 n2 e2 r2,
  let fs := st_files (run init ops) in
  In (n1, e1) fs -> lp_name e1 = nm -> In r1 (lp_set e1) ->
  In (n2, e2) fs -> lp_name e2 = nm -> In r2 (lp_set e2) ->
  (n1 <> n2 \/ r1 <> r2) ->
  ~ exists k, in_range k r1 /\ in_range k r2.
Proof.
  intros ops nm n1 e1 r1 n2 e2 r2 fs H1 N1 S1 H2 N2 S2 Hne.
  destruct (invariant_all_histories ops) as [_ [Hd _]].
  apply (Hd nm n1 r1 n2 r2); [exists e1 | exists e2 | exact Hne]; auto.
Qed.
Print Assumptions C26_locks_disjoint_unfolded.

(* ---- an attempt to lock a range that overlaps a held one (held through any file number, also the
   requesting one) fails with Permission denied and changes nothing - in every state *)
Theorem C26_overlap_denied : forall st n so eo this r m r2,
  0 < n <= 255 -> find n (st_files st) = Some this -> lock_limits so eo = Ok r ->
  held (st_files st) (lp_name this) m r2 -> overlap (effective_range this r) r2 ->
  lock_stmt false st n so eo = (st, Err locks_err_PERMISSION_DENIED).
Proof. exact lock_overlap_denied. Qed.
Print Assumptions C26_overlap_denied.

(* the regenerated range test reports every overlap, and on proper ranges only overlaps *)
Theorem C26_range_test_exact : forall s e s1 e1,
  (overlap (Some (s, e)) (Some (s1, e1)) -> locks_range_conflict s e s1 e1 = true) /\
  (s <= e -> s1 <= e1 -> locks_range_conflict s e s1 e1 = true -> overlap (Some (s, e)) (Some (s1, e1))).
Proof.
  intros s e s1 e1. split; [exact (conflict_sound s e (Some (s1, e1))) | exact (conflict_complete s e s1 e1)].
Qed.
Print Assumptions C26_range_test_exact.

(* a proper range that overlaps nothing held on the name is granted *)
Theorem C26_disjoint_granted : forall fs n this s e,
  find n fs = Some this -> s <= e ->
  (forall m r2, held fs (lp_name this) m r2 -> proper r2 /\ ~ overlap (Some (s, e)) r2) ->
  exists fs', acquire_record_lock fs n (Some (s, e)) = Ok fs'.
Proof. exact acquire_granted. Qed.
Print Assumptions C26_disjoint_granted.

(* ---- GET/PUT of a record inside a range held through ANOTHER file number fails (Permission denied, or
   Path/file access error when an ACCESS/LOCK clause already forbids it); the one coded exception is a GET
   while the holder has the file open for OUTPUT/APPEND (GW-BASIC behaviour, tests LockFilesOutput) *)
Theorem C26_access_denied : forall put st n pos this p m e2 r2,
  0 < n <= 255 -> find n (st_files st) = Some this -> lp_mode this = MR -> check_pos pos = Ok p ->
  NoDup (map fst (st_files st)) ->
  In (m, e2) (st_files st) -> m <> n -> lp_name e2 = lp_name this -> In r2 (lp_set e2) ->
  in_range (accessed_record this p) r2 ->
  (is_oa (lp_mode e2) && negb put) = false ->
  snd (getput_stmt put st n pos) = Err locks_err_PERMISSION_DENIED \/
  snd (getput_stmt put st n pos) = Err locks_err_PATH_FILE_ACCESS_ERROR.
Proof. exact getput_locked_record_fails. Qed.
Print Assumptions C26_access_denied.

(* ---- UNLOCK succeeds only for a range locked before with exactly the same bounds through this number;
   then exactly that range is released; otherwise Permission denied and nothing changes *)
Theorem C26_unlock_exact : forall st n so eo this r,
  0 < n <= 255 -> find n (st_files st) = Some this -> lock_limits so eo = Ok r ->
  let r0 := effective_range this r in
  (In r0 (lp_set this) ->
     snd (lock_stmt true st n so eo) = Ok tt /\
     (forall x, In x (lp_set this) -> x <> r0 ->
        exists e', find n (st_files (fst (lock_stmt true st n so eo))) = Some e' /\ In x (lp_set e')) /\
     (exists e', find n (st_files (fst (lock_stmt true st n so eo))) = Some e' /\ ~ In r0 (lp_set e'))) /\
  (~ In r0 (lp_set this) -> lock_stmt true st n so eo = (st, Err locks_err_PERMISSION_DENIED)).
Proof. exact unlock_exact. Qed.
Print Assumptions C26_unlock_exact.

(* ---- the OPEN decision table: in every reachable state an OPEN that is not OUTPUT/APPEND is accepted by
   Locks.open_file exactly when the readable rule holds against every number that has the name open;
   the rule and the model's condition equal the table dumped from the running class (400 combinations) *)
Theorem C26_open_table : forall ops nm n m lt a, n <> 0 -> is_oa m = false ->
  let fs := st_files (run init ops) in
  (exists fs', locks_open_file fs nm n m lt a = Ok fs') <->
  (forall k e, In (k, e) fs -> lp_name e = nm -> open_allowed_spec lt a (lp_lock e) (lp_access e) = true).
Proof.
  intros ops nm n m lt a Hn Hm fs. apply open_accepted_iff; [exact Hn | apply access_stored_all_histories | exact Hm].
Qed.
Print Assumptions C26_open_table.

Theorem C26_tables_match_code :
  (forall lt a flt fa,
     nth (Z.to_nat (((lock_code lt * 4 + acc_code a) * 5 + lock_code flt) * 4 + acc_code fa)) locks_open_table (-1)
     = err_if (open_conflict lt a flt fa) locks_err_PERMISSION_DENIED) /\
  (forall m fm, nth (Z.to_nat (mode_code m * 4 + mode_code fm)) locks_open_mode_table (-1)
     = err_if (is_oa m) locks_err_FILE_ALREADY_OPEN) /\
  (forall lt a, nth (Z.to_nat (lock_code lt * 4 + acc_code a)) locks_stored_access_table (-1)
     = acc_code (stored_access lt a)) /\
  (forall a (w : bool), nth (Z.to_nat (acc_code a * 2 + (if w then 1 else 0))) locks_own_access_table (-1)
     = err_if (own_denied a w) locks_err_PATH_FILE_ACCESS_ERROR) /\
  (forall l (w : bool), nth (Z.to_nat (lock_code l * 2 + (if w then 1 else 0))) locks_other_lock_table (-1)
     = err_if (other_lock_denies l w) locks_err_PATH_FILE_ACCESS_ERROR) /\
  (forall m (w : bool), nth (Z.to_nat (mode_code m * 2 + (if w then 1 else 0))) locks_holder_mode_table (-1)
     = err_if (negb (is_oa m && negb w)) locks_err_PERMISSION_DENIED) /\
  locks_own_lock_blocks_access = 0 /\ locks_own_lock_blocks_lock = locks_err_PERMISSION_DENIED.
Proof.
  repeat split.
  - exact open_conflict_table.
  - exact open_mode_table.
  - exact stored_access_table.
  - exact own_access_table.
  - exact other_lock_table.
  - exact holder_mode_table.
Qed.
Print Assumptions C26_tables_match_code.

(* ================= locks and data together (model/SharedFile.v: lock table + shared file bytes) =========
   FRAME: a GET/PUT of a record locked through another file number is refused AND leaves every file, every
   FIELD buffer and every stream position exactly as they were (only the record pointer has moved) *)
Theorem C26_denied_access_changes_nothing : forall put cs n pos this p m e2 r2,
  0 < n <= 255 -> find n (st_files (c_st cs)) = Some this -> lp_mode this = MR -> check_pos pos = Ok p ->
  NoDup (map fst (st_files (c_st cs))) ->
  In (m, e2) (st_files (c_st cs)) -> m <> n -> lp_name e2 = lp_name this -> In r2 (lp_set e2) ->
  in_range (accessed_record this p) r2 -> (is_oa (lp_mode e2) && negb put) = false ->
  let cs' := fst (cstep cs (if put then CPut n pos else CGet n pos)) in
  c_bytes cs' = c_bytes cs /\ c_bufs cs' = c_bufs cs /\ c_h cs' = c_h cs /\
  (snd (cstep cs (if put then CPut n pos else CGet n pos)) = Err locks_err_PERMISSION_DENIED \/
   snd (cstep cs (if put then CPut n pos else CGet n pos)) = Err locks_err_PATH_FILE_ACCESS_ERROR).
Proof. exact locked_record_frame. Qed.
Print Assumptions C26_denied_access_changes_nothing.

(* the same for every refusal (ACCESS/LOCK clause, bad record number, bad file number, wrong mode) *)
Theorem C26_refused_access_frame : forall put cs n pos,
  snd (getput_stmt put (c_st cs) n pos) <> Ok tt ->
  let cs' := fst (getput_c put cs n pos) in
  c_bytes cs' = c_bytes cs /\ c_bufs cs' = c_bufs cs /\ c_h cs' = c_h cs /\
  c_st cs' = fst (getput_stmt put (c_st cs) n pos) /\
  (forall l, snd (getput_c put cs n pos) <> Ok l).
Proof. exact refused_access_frame. Qed.
Print Assumptions C26_refused_access_frame.

(* CLOSE releases exactly the locks held through that file number *)
Theorem C26_close_releases : forall cs n, 0 <= n <= 255 ->
  let fs' := st_files (c_st (fst (cstep cs (CClose n)))) in
  (forall nm r, ~ held fs' nm n r) /\
  (forall nm m r, m <> n -> (held fs' nm m r <-> held (st_files (c_st cs)) nm m r)) /\
  find n fs' = None.
Proof. exact close_releases. Qed.
Print Assumptions C26_close_releases.

(* ================= sequential-mode numbers, OPEN-time LOCK clauses, mutual exclusion =================
   (seeds C26f / C26e) LOCK / UNLOCK through a number open FOR INPUT / OUTPUT / APPEND ignore their bounds:
   the statement IS the whole-file statement; UNLOCK there matches whatever bounds are given *)
Theorem C26_text_lock_whole_file : forall u st n so eo this r,
  find n (st_files st) = Some this -> lp_mode this <> MR -> lock_limits so eo = Ok r ->
  lock_stmt u st n so eo = lock_stmt u st n None None.
Proof. exact text_lock_ignores_bounds. Qed.
Print Assumptions C26_text_lock_whole_file.

Theorem C26_text_unlock_any_bounds : forall st n so eo this r,
  0 < n <= 255 -> find n (st_files st) = Some this -> lp_mode this <> MR -> lock_limits so eo = Ok r ->
  (In None (lp_set this) -> snd (lock_stmt true st n so eo) = Ok tt) /\
  (~ In None (lp_set this) -> lock_stmt true st n so eo = (st, Err locks_err_PERMISSION_DENIED)).
Proof. exact text_unlock_matches_any_bounds. Qed.
Print Assumptions C26_text_unlock_any_bounds.

(* a whole-file lock refuses every LOCK request on the name, through every number, whatever its range *)
Theorem C26_whole_file_lock_excludes_requests : forall fs n this m r0,
  find n fs = Some this -> held fs (lp_name this) m None ->
  acquire_record_lock fs n r0 = Err locks_err_PERMISSION_DENIED.
Proof. exact whole_file_lock_excludes_requests. Qed.
Print Assumptions C26_whole_file_lock_excludes_requests.

(* the LOCK READ / LOCK WRITE / LOCK READ WRITE clause that ANOTHER number gave at OPEN forbids GET resp. PUT
   (every record, locked or not) and reading a sequential file: Path/file access error; nothing is transferred
   (C26_refused_access_frame) *)
Theorem C26_open_clause_forbids_access : forall put st n pos this p m e2,
  0 < n <= 255 -> find n (st_files st) = Some this -> lp_mode this = MR -> check_pos pos = Ok p ->
  In (m, e2) (st_files st) -> m <> n -> lp_name e2 = lp_name this ->
  other_lock_denies (lp_lock e2) put = true ->
  snd (getput_stmt put st n pos) = Err locks_err_PATH_FILE_ACCESS_ERROR.
Proof. exact open_clause_forbids_getput. Qed.
Print Assumptions C26_open_clause_forbids_access.

Theorem C26_open_clause_forbids_text_read : forall st n this m e2,
  0 < n <= 255 -> find n (st_files st) = Some this -> lp_mode this = MI ->
  In (m, e2) (st_files st) -> m <> n -> lp_name e2 = lp_name this ->
  other_lock_denies (lp_lock e2) false = true ->
  textread_stmt st n = (st, Err locks_err_PATH_FILE_ACCESS_ERROR).
Proof. exact open_clause_forbids_textread. Qed.
Print Assumptions C26_open_clause_forbids_text_read.

Theorem C26_which_clause_forbids_what :
  other_lock_denies LR false = true /\ other_lock_denies LRW false = true /\ other_lock_denies LW true = true /\
  other_lock_denies LRW true = true /\ other_lock_denies LR true = false /\ other_lock_denies LW false = false /\
  (forall w, other_lock_denies LNone w = false) /\ (forall w, other_lock_denies LShared w = false).
Proof. exact other_lock_denies_table. Qed.
Print Assumptions C26_which_clause_forbids_what.

(* MUTUAL EXCLUSION, for EVERY history of OPEN / CLOSE / LOCK / UNLOCK / GET / PUT / INPUT$ statements: while a
   number holds a lock containing record k of a file (range lock, whole-file lock, lock through a sequential
   number), (1) no other held lock on that file - through any number, also its own - contains k,
   (2) GET / PUT of k through every other number fails (GET passes only while the holder has the file open for
   OUTPUT/APPEND), (3) every LOCK request containing k is refused, through every number *)
Theorem C26_mutual_exclusion : forall ops nm n1 e1 r1 k,
  let st := run init ops in let fs := st_files st in
  In (n1, e1) fs -> lp_name e1 = nm -> In r1 (lp_set e1) -> in_range k r1 ->
  (forall n2 e2 r2, In (n2, e2) fs -> lp_name e2 = nm -> In r2 (lp_set e2) -> in_range k r2 -> n2 = n1 /\ r2 = r1) /\
  (forall put n2 this pos p, 0 < n2 <= 255 -> n2 <> n1 -> find n2 fs = Some this -> lp_name this = nm ->
     lp_mode this = MR -> check_pos pos = Ok p -> accessed_record this p = k ->
     (is_oa (lp_mode e1) && negb put) = false ->
     snd (getput_stmt put st n2 pos) = Err locks_err_PERMISSION_DENIED \/
     snd (getput_stmt put st n2 pos) = Err locks_err_PATH_FILE_ACCESS_ERROR) /\
  (forall n2 this so eo r, 0 < n2 <= 255 -> find n2 fs = Some this -> lp_name this = nm ->
     lock_limits so eo = Ok r -> in_range k (effective_range this r) ->
     lock_stmt false st n2 so eo = (st, Err locks_err_PERMISSION_DENIED)).
Proof. exact mutual_exclusion. Qed.
Print Assumptions C26_mutual_exclusion.

(* ---- defect D8 (fixed by fixes/D8.patch): the endpoint test that was in the code accepts a range that
   strictly contains a held one *)
Theorem C26_endpoint_test_refuted :
  endpoint_test 1 4 2 3 = false /\ overlap (Some (1, 4)) (Some (2, 3)).
Proof. exact endpoint_test_misses_containing_range. Qed.
Print Assumptions C26_endpoint_test_refuted.

(* ---- the literal reading "cannot be opened again in ANY mode" does not hold (GW-BASIC 3.23 behaviour
   kept on purpose, tests/basic/unsorted/LockFilesOutput; fixes/K26a.json) *)
Definition C26_no_reopen_at_all_statement : Prop :=
  forall st nm n m a lt reclen k e, In (k, e) (st_files st) -> lp_name e = nm -> is_oa (lp_mode e) = true ->
    snd (open_stmt st nm n m a lt reclen) <> Ok tt.
Theorem C26_no_reopen_at_all_refuted : ~ C26_no_reopen_at_all_statement.
Proof.
  intro H.
  apply (H (run init [OpOpen 1 1 MO ANone LNone 128]) 1 2 MR ANone LNone 128 1 (mkEnt 1 MO LNone ANone [] 0)).
  - vm_compute. left. reflexivity.
  - reflexivity.
  - reflexivity.
  - vm_compute. reflexivity.
Qed.
Print Assumptions C26_no_reopen_at_all_refuted.

(* ---- non-vacuity: a history in which locks are granted through two numbers, an overlapping and a
   containing request are denied, a record access is denied, and UNLOCK needs the exact bounds *)
Example C26_nonvacuous :
  let ops := [OpOpen 1 1 MR ANone LShared 2; OpOpen 1 2 MR ANone LShared 2;
              OpLock 1 (Some 2) (Some 3); OpLock 2 (Some 5) (Some 6)] in
  let st := run init ops in
  enc_state st = [1;1;3;1;3;0;1;2;3; 1;1;3;1;3;0;1;5;6; 0; 1;0] /\
  snd (step st (OpLock 2 (Some 1) (Some 4))) = Err 70 /\
  snd (step st (OpLock 2 (Some 3) (Some 5))) = Err 70 /\
  snd (step st (OpLock 2 (Some 4) None)) = Ok tt /\
  snd (step st (OpGet 2 (Some 3))) = Err 70 /\
  snd (step st (OpGet 1 (Some 3))) = Ok tt /\
  snd (step st (OpUnlock 1 (Some 2) None)) = Err 70 /\
  snd (step st (OpUnlock 1 (Some 2) (Some 3))) = Ok tt /\
  snd (step st (OpOpen 1 3 MO ANone LNone 128)) = Err 55.
Proof. vm_compute. repeat split; reflexivity. Qed.
