(* C36 - The text cursor and screen content stay consistent.
   Only statements, `exact`, Print Assumptions and non-vacuity examples here.
   Model: model/Cursor.v (with fixes D36a, D36b).  `run init_st ops` is the state after ANY list of statements
   (PRINT with ; and , of arbitrary byte strings incl. control codes, LOCATE, CLS, VIEW PRINT, WIDTH, KEY ON/OFF,
   SCREEN n, SCREEN(r,c), typed text); INV is the invariant all of them keep. *)
From Coq Require Import ZArith List Bool.
From PCB Require Import lib.Result lib.PyInt model.Cursor
  proofs.Cursor_lists proofs.Cursor_inv proofs.Cursor_place proofs.Cursor_flags proofs.Cursor_term proofs.Cursor_proofs.
Import ListNotations.
Open Scope Z_scope.

(* every history keeps the invariant (geometry, cursor in the screen, grid = replay of the write history) *)
Theorem C36_reachable : forall ops, INV (run init_st ops).
Proof. exact reachable_INV. Qed.
Print Assumptions C36_reachable.

(* the cursor is always within the screen *)
Theorem C36_in_screen : forall ops,
  let s := run init_st ops in 1 <= row s <= height s /\ 1 <= col s <= width s.
Proof. exact in_screen_all. Qed.
Print Assumptions C36_in_screen.

(* CSRLIN and POS report it; with a pending overflow in the last column they report column 1 of the next row
   (the same row on the last row of the window) *)
Theorem C36_csrlin_pos : forall ops, let s := run init_st ops in
  1 <= csrlin s <= height s /\ 1 <= pos s <= width s /\
  (ovf s = false -> csrlin s = row s /\ pos s = col s) /\
  (ovf s = true -> col s = width s ->
     pos s = 1 /\ csrlin s = if row s <? bot s then row s + 1 else row s) /\
  (col s <> width s -> csrlin s = row s /\ pos s = col s).
Proof. intros ops. exact (csrlin_pos_rule _ (reachable_INV ops)). Qed.
Print Assumptions C36_csrlin_pos.

(* LOCATE with accepted arguments moves the cursor to exactly the requested cell (omitted arguments = current
   value), changes no character, and after an explicit column CSRLIN/POS report the request; the third
   argument can still be rejected afterwards *)
Theorem C36_locate_moves : forall ops r c cur, let s := run init_st ops in
  oint16 r && oint16 c && oint16 cur = true ->
  locate_accepts s (odef r (row s)) (odef c (col s)) = true ->
  let s' := fst (locate s r c cur) in
  row s' = odef r (row s) /\ col s' = odef c (col s) /\ cells s' = cells s /\
  (c <> None -> ovf s' = false /\ csrlin s' = odef r (row s) /\ pos s' = odef c (col s)) /\
  (c = None -> ovf s' = if col s <? width s then false else ovf s) /\
  snd (locate s r c cur) =
    match cur with Some v => if rng 0 1 v then Ok tt else Err 5 | None => Ok tt end.
Proof. intros ops r c cur. exact (locate_moves _ r c cur (reachable_INV ops)). Qed.
Print Assumptions C36_locate_moves.

(* otherwise: Overflow / Illegal function call and nothing changes *)
Theorem C36_locate_rejects : forall s r c cur,
  (oint16 r && oint16 c && oint16 cur = false -> locate s r c cur = (s, Err 6)) /\
  (oint16 r && oint16 c && oint16 cur = true ->
   locate_accepts s (odef r (row s)) (odef c (col s)) = false -> locate s r c cur = (s, Err 5)).
Proof. exact locate_rejects. Qed.
Print Assumptions C36_locate_rejects.

(* SCREEN(row, col) returns the character last written at that cell: `lastw` replays the history of buffer
   primitives (put / scroll up / scroll down / clear rows / new pages) with scrolling as re-indexing *)
Theorem C36_screen_fn : forall ops r c v, let s := run init_st ops in
  screen_fn s r c = Ok v -> v = lastw (hist s) (if r =? 0 then 1 else r) (if c =? 0 then 1 else c).
Proof. intros ops r c v. exact (screen_fn_last _ r c v (reachable_INV ops)). Qed.
Print Assumptions C36_screen_fn.

Theorem C36_screen_fn_defined : forall ops r c, let s := run init_st ops in
  int16 r = true -> int16 c = true -> 1 <= r <= height s -> 1 <= c <= width s ->
  (act s = true -> top s <= r <= bot s) -> screen_fn s r c = Ok (lastw (hist s) r c).
Proof. intros ops r c. exact (screen_fn_defined _ r c (reachable_INV ops)). Qed.
Print Assumptions C36_screen_fn_defined.

(* plain text placement at the text screen: the model agrees with the reference layout (linear, deferred wrap,
   no scrolling, on an unbounded page) shown through the window shifted by K = the number of scrolls;
   rows outside [top, bottom] are unchanged *)
Theorem C36_plain_text_layout : forall s0 str, INV s0 -> bra s0 = false -> ovf s0 = false ->
  top s0 <= row s0 <= bot s0 -> nowrap_from s0 (row s0) ->
  let W := width s0 in
  let res := layout W (page0 s0) (row s0) (col s0) str in
  let g := fst res in let vr := fst (snd res) in let vc := snd (snd res) in
  let K := Z.max 0 (vr - bot s0) in
  let s := write_chars false s0 str in
  same_env s0 s /\
  row s = vr - K /\ top s0 <= row s <= bot s0 /\
  ((1 <= vc <= W /\ col s = vc /\ ovf s = false) \/ (vc = W + 1 /\ col s = W /\ ovf s = true)) /\
  forall R C, 1 <= R <= height s0 -> 1 <= C <= W ->
    get_cell (cells s) R C =
      if (top s0 <=? R) && (R <=? bot s0) then g (R + K) C else get_cell (cells s0) R C.
Proof. exact write_chars_layout. Qed.
Print Assumptions C36_plain_text_layout.

(* closed form: character i is shown at linear position L0 + i (L0 = row*W + col - 1 of the start), i.e. at
   row (L0+i)/W - K and column (L0+i) mod W + 1 (C36_linear_position), K = number of scrolls *)
Theorem C36_plain_text : forall s0 str, INV s0 -> bra s0 = false -> ovf s0 = false ->
  top s0 <= row s0 <= bot s0 -> nowrap_from s0 (row s0) ->
  let W := width s0 in
  let n := Z.of_nat (length str) in
  let L0 := lin W (row s0) (col s0) in
  let K := if n =? 0 then 0 else Z.max 0 ((L0 + n - 1) / W - bot s0) in
  let s := write_chars false s0 str in
  same_env s0 s /\
  forall R C, 1 <= R <= height s0 -> 1 <= C <= W ->
    get_cell (cells s) R C =
      if (top s0 <=? R) && (R <=? bot s0) then
        let p := lin W (R + K) C - L0 in
        if (0 <=? p) && (p <? n) then nth (Z.to_nat p) str 32 else page0 s0 (R + K) C
      else get_cell (cells s0) R C.
Proof. exact write_chars_placement. Qed.
Print Assumptions C36_plain_text.

Theorem C36_linear_position : forall W r c q, 1 <= W -> 1 <= c <= W -> 0 <= q ->
  lin W r c = q -> r = q / W /\ c = q mod W + 1.
Proof. exact lin_divmod. Qed.
Print Assumptions C36_linear_position.

(* the same for Console.write (what PRINT output reaches) of a string without control characters on a screen
   without line-continuation flags (as CLS leaves it) *)
Theorem C36_plain_text_console : forall s0 str, INV s0 -> bra s0 = false -> ovf s0 = false ->
  top s0 <= row s0 <= bot s0 -> (forall r, 1 <= r <= height s0 -> wraps_at s0 r = false) ->
  Forall (fun c => is_ctrl c = false) str -> str <> [] ->
  let W := width s0 in
  let n := Z.of_nat (length str) in
  let L0 := lin W (row s0) (col s0) in
  let K := Z.max 0 ((L0 + n - 1) / W - bot s0) in
  let s := console_write s0 str in
  same_env s0 s /\
  forall R C, 1 <= R <= height s0 -> 1 <= C <= W ->
    get_cell (cells s) R C =
      if (top s0 <=? R) && (R <=? bot s0) then
        let p := lin W (R + K) C - L0 in
        if (0 <=? p) && (p <? n) then nth (Z.to_nat p) str 32 else page0 s0 (R + K) C
      else get_cell (cells s0) R C.
Proof. exact console_write_placement. Qed.
Print Assumptions C36_plain_text_console.

(* PRINT of a printable string = Console.write of it, preceded by a line break exactly when it does not fit on
   the rest of the line, the cursor is not in column 1 and not on the bottom row *)
Theorem C36_print_plain : forall s str, INV s -> Forall (fun c => printable c = true) str -> str <> [] ->
  let breaks := negb (width s =? 255) && negb (row s =? height s) && negb (col s =? 1)
                && (col s - 1 + Z.of_nat (length str) >? width s) in
  scrn_write s str true =
    if breaks then console_write (console_write s [13]) str else console_write s str.
Proof. exact scrn_write_plain. Qed.
Print Assumptions C36_print_plain.

(* ---- extension: any start width >= 2 (WIDTH 40, text_width option) and the vga adapter (SCREEN 7/8/9), incl. the
   cursor keys of the line editor (SEdit) and typed text (STyped) *)
Theorem C36_reachable_any : forall w v ops, 2 <= w -> INV (run (init_with w v) ops).
Proof. exact reachable_INV_with. Qed.
Print Assumptions C36_reachable_any.

Theorem C36_in_screen_any : forall w v ops, 2 <= w ->
  let s := run (init_with w v) ops in 1 <= row s <= height s /\ 1 <= col s <= width s.
Proof. intros w v ops Hw. destruct (reachable_INV_with w v ops Hw) as [_ H]. exact H. Qed.
Print Assumptions C36_in_screen_any.

(* the invariant is all the CSRLIN/POS, LOCATE and SCREEN() theorems need: they hold in every such state *)
Theorem C36_csrlin_pos_any : forall s, INV s ->
  1 <= csrlin s <= height s /\ 1 <= pos s <= width s /\
  (ovf s = false -> csrlin s = row s /\ pos s = col s) /\
  (ovf s = true -> col s = width s ->
     pos s = 1 /\ csrlin s = if row s <? bot s then row s + 1 else row s) /\
  (col s <> width s -> csrlin s = row s /\ pos s = col s).
Proof. exact csrlin_pos_rule. Qed.
Print Assumptions C36_csrlin_pos_any.

(* ---- extension: plain text from ANY state with the cursor in the window - stale line-continuation flags and a
   pending overflow at the start included.  `layoutw` is the reference layout that knows the flags of the rows
   ahead (flags0: those of the start screen by virtual row): a character put in the last column of a flagged row
   takes the cursor to the next row at once, so the window scrolls one step earlier than on a flag-free screen. *)
Theorem C36_plain_text_layout_any_flags : forall s0 str, INV s0 -> bra s0 = false ->
  top s0 <= row s0 <= bot s0 -> (ovf s0 = true -> col s0 = width s0) ->
  let W := width s0 in
  let res := layoutw W (flags0 s0) (page0 s0) (row s0) (if ovf s0 then W + 1 else col s0) str in
  let g := fst res in let vr := fst (snd res) in let vc := snd (snd res) in
  let K := Z.max 0 (vr - bot s0) in
  let s := write_chars false s0 str in
  same_env s0 s /\
  row s = vr - K /\ top s0 <= row s <= bot s0 /\
  ((1 <= vc <= W /\ col s = vc /\ ovf s = false) \/ (vc = W + 1 /\ col s = W /\ ovf s = true)) /\
  forall R C, 1 <= R <= height s0 -> 1 <= C <= W ->
    get_cell (cells s) R C =
      if (top s0 <=? R) && (R <=? bot s0) then g (R + K) C else get_cell (cells s0) R C.
Proof. exact write_chars_layout_gen. Qed.
Print Assumptions C36_plain_text_layout_any_flags.

(* closed form: the characters sit exactly where they sit on a flag-free screen; the number of scrolls K is one
   more exactly when the last character landed in the last column of a row whose continuation flag was set *)
Theorem C36_plain_text_any_flags : forall s0 str, INV s0 -> bra s0 = false ->
  top s0 <= row s0 <= bot s0 -> (ovf s0 = true -> col s0 = width s0) ->
  let W := width s0 in
  let n := Z.of_nat (length str) in
  let L0 := lin W (row s0) (if ovf s0 then W + 1 else col s0) in
  let q := L0 + n - 1 in
  let vl := q / W in
  let K := if n =? 0 then 0
           else Z.max 0 ((if (q mod W =? W - 1) && flags0 s0 vl then vl + 1 else vl) - bot s0) in
  let s := write_chars false s0 str in
  same_env s0 s /\
  forall R C, 1 <= R <= height s0 -> 1 <= C <= W ->
    get_cell (cells s) R C =
      if (top s0 <=? R) && (R <=? bot s0) then
        let p := lin W (R + K) C - L0 in
        if (0 <=? p) && (p <? n) then nth (Z.to_nat p) str 32 else page0 s0 (R + K) C
      else get_cell (cells s0) R C.
Proof. exact write_chars_placement_gen. Qed.
Print Assumptions C36_plain_text_any_flags.

(* Console.write of control-free text = write_chars after clearing the flag of the cursor row (any state) *)
Theorem C36_console_write_plain : forall s str, Forall (fun c => is_ctrl c = false) str -> str <> [] ->
  console_write s str = write_chars false (set_wrap s (row s) false) str.
Proof. exact console_write_plain. Qed.
Print Assumptions C36_console_write_plain.

(* non-vacuity: VIEW PRINT 5 TO 10 : CLS : LOCATE 9,70 satisfies the hypotheses of the placement theorems, and
   100 characters from there wrap twice and scroll the window once: character 11 (the first of the second row)
   is shown at (9, 1) after the scroll, row 4 above the window is untouched *)
Example C36_nonvacuous :
  let s0 := run init_st [SPrint [PV [88; 89]]; SViewPrint (Some (5, 10)); SCls None; SLocate (Some 9) (Some 70) None] in
  let str := map (fun i => 33 + Z.of_nat i) (seq 0 100) in
  INV s0 /\ bra s0 = false /\ ovf s0 = false /\ top s0 <= row s0 <= bot s0 /\
  (forall r, 1 <= r <= height s0 -> wraps_at s0 r = false) /\
  Forall (fun c => is_ctrl c = false) str /\
  get_cell (cells (console_write s0 str)) 9 1 = 33 + 11 /\
  get_cell (cells (console_write s0 str)) 1 1 = 88 /\
  (csrlin (console_write s0 str), pos (console_write s0 str)) = (10, 10).
Proof.
  cbv zeta. split; [apply reachable_INV|].
  split; [vm_compute; reflexivity|]. split; [vm_compute; reflexivity|].
  split; [vm_compute; split; discriminate|].
  split; [intros r _; apply (all_false_nowrap _ 25%nat); vm_compute; reflexivity|].
  split; [apply forallb_not_ctrl; vm_compute; reflexivity|].
  vm_compute. repeat split; reflexivity.
Qed.

Example C36_locate_nonvacuous :
  let s := run init_st [SPrint [PV (repeat 88 80); PSemi]] in
  locate_accepts s 3 80 = true /\ ovf s = true /\
  (csrlin s, pos s) = (2, 1) /\
  (csrlin (fst (locate s (Some 3) (Some 80) None)), pos (fst (locate s (Some 3) (Some 80) None))) = (3, 80) /\
  locate s (Some 26) (Some 1) None = (s, Err 5).
Proof. vm_compute. repeat split; reflexivity. Qed.

(* non-vacuity of the any-flags theorem: row 23 carries a stale continuation flag (from a 100-character PRINT that
   scrolled up), the cursor is brought back to it and 80 characters fill it: no pending overflow, the cursor is on
   row 24 column 1 at once *)
Example C36_flags_nonvacuous :
  let s0 := run init_st [SLocate (Some 24) (Some 1) None; SPrint [PV (repeat 65 100); PSemi];
                         SLocate (Some 23) (Some 1) None] in
  let s := write_chars false s0 (repeat 66 80) in
  INV s0 /\ bra s0 = false /\ ovf s0 = false /\ top s0 <= row s0 <= bot s0 /\
  flags0 s0 23 = true /\
  (row s, col s, ovf s) = (24, 1, false) /\ get_cell (cells s) 23 80 = 66 /\ get_cell (cells s) 24 1 = 65.
Proof.
  cbv zeta. split; [apply reachable_INV|]. vm_compute. repeat split; try reflexivity; discriminate.
Qed.

(* ---- control characters.  `term` (proofs/Cursor_term.v) is a reference terminal written as a specification: a
   grid function, a cursor with deferred wrap (column W+1 = line full), logical-line flags; `t_write` interprets
   printable characters, CR, LF (next row, scrolling only the window), TAB (spaces up to the next 8-column stop,
   written as spaces), BEL, HOME (11: window top) and CLS (12: window cleared).  Console.write of ANY text over that
   alphabet (everything but the cursor codes 28-31), from any state with the cursor in the window - continuation
   flags of any kind included, a screen without stale flags is the special case - gives exactly the cells, the
   cursor row and the CSRLIN / POS values of the reference terminal. *)
Theorem C36_console_text : forall s0 str, INV s0 -> bra s0 = false -> top s0 <= row s0 <= bot s0 ->
  (ovf s0 = true -> col s0 = width s0) -> Forall (fun c => term_char c = true) str ->
  let W := width s0 in let T := top s0 in let B := bot s0 in
  let s := console_write s0 str in
  let t := t_write W T B (term0 s0) str in
  same_env s0 s /\
  (forall R C, 1 <= R <= height s0 -> 1 <= C <= W -> get_cell (cells s) R C = tg t R C) /\
  row s = tr t /\ T <= row s <= B /\ csrlin s = t_csrlin W B t /\ pos s = t_pos W t.
Proof. exact console_write_refines. Qed.
Print Assumptions C36_console_text.

(* plain CLS with no VIEW PRINT window (key bar off) blanks every row, row 25 included, and homes the cursor *)
Theorem C36_cls_clears_all : forall s, INV s -> act s = false -> barvis s = false ->
  let s' := fst (cls s None) in
  snd (cls s None) = Ok tt /\
  (forall R C, 1 <= R <= height s -> 1 <= C <= width s -> get_cell (cells s') R C = 32) /\
  row s' = 1 /\ col s' = 1 /\ ovf s' = false /\ same_env s s'.
Proof. exact cls_plain_clears_all. Qed.
Print Assumptions C36_cls_clears_all.

(* non-vacuity: "AB<TAB>C<CR>" + 78 x "D" + <HOME> + "E" on the start screen: the reference terminal has C at (1,9),
   D from (2,1), E over the A, cursor (1,2) - and so has the model *)
Example C36_console_text_nonvacuous :
  let str := [65; 66; 9; 67; 13] ++ repeat 68 78 ++ [11; 69] in
  let t := t_write 80 1 24 (term0 init_st) str in
  Forall (fun c => term_char c = true) str /\
  (tg t 1 9, tg t 1 3, tg t 2 78, tg t 1 1, tr t, tc t) = (67, 32, 68, 69, 1, 2) /\
  (get_cell (cells (console_write init_st str)) 1 9, csrlin (console_write init_st str), pos (console_write init_st str))
    = (67, 1, 2).
Proof.
  cbv zeta. split; [|vm_compute; split; reflexivity].
  apply Forall_forall. intros c Hc. apply in_app_or in Hc. destruct Hc as [Hc | Hc].
  - simpl in Hc. repeat (destruct Hc as [<- | Hc]; [reflexivity|]). contradiction.
  - apply in_app_or in Hc. destruct Hc as [Hc | Hc].
    + apply repeat_spec in Hc. subst. reflexivity.
    + simpl in Hc. repeat (destruct Hc as [<- | Hc]; [reflexivity|]). contradiction.
Qed.
