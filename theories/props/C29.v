(* C29 - Files written to a cassette image read back intact.
   Only statements, `exact`, Print Assumptions and non-vacuity examples here.
   Tape = list of records of 256-byte blocks (model/Cassette.v); the framing decisions come from the
   regenerated gen/Gen_cassette.v.  The bit layer of CAS images (leader, sync byte, MSB-first bytes,
   CRC words, trailer) is model/CassetteBits.v; the pulse layer of WAV images is not modelled. *)
From Coq Require Import ZArith List Bool.
From PCB Require Import lib.PyInt gen.Gen_cassette model.Cassette model.CassetteBits
  proofs.Cassette_proofs proofs.CassetteBits_proofs.
Import ListNotations.
Open Scope Z_scope.

(* Text/data files: whatever the contents, of EVERY length, and however they were split over write()
   calls, the records written (255-byte chunks with count bytes, NUL terminator at close) read back as
   exactly the contents, and reading stops exactly at the end of the file's own records. *)
Theorem C29_text_roundtrip : forall chunks rest,
  read_text (text_records chunks ++ rest) = DData (concat chunks) rest.
Proof. exact text_roundtrip. Qed.
Print Assumptions C29_text_roundtrip.

Theorem C29_text_history_independent : forall chunks,
  text_records chunks = text_records [concat chunks].
Proof. exact text_records_history. Qed.
Print Assumptions C29_text_history_independent.

(* B/P/M files: the multi-block record reads back as the data, for every length *)
Theorem C29_binary_roundtrip : forall d rest,
  read_binary (zlen d) (mk_record d :: rest) = DData d rest.
Proof. exact binary_roundtrip. Qed.
Print Assumptions C29_binary_roundtrip.

(* Whole tapes: any list of acceptable files (any names, the five types, contents of every length)
   written to a fresh tape and read back file by file gives the same names (padded to 8), types,
   contents, and for B/P/M files the same segment, offset and length. *)
Theorem C29_roundtrip : forall fs, Forall file_ok fs ->
  read_tape (write_tape fs) = views (0, 0, 0) fs /\
  map rf_data (read_tape (write_tape fs)) = map wf_data fs /\
  map (fun v => (rf_name v, rf_type v)) (read_tape (write_tape fs)) =
  map (fun f => (pad_name (wf_name f), wf_type f)) fs.
Proof.
  intros fs H. rewrite (tape_roundtrip fs H).
  split; [reflexivity|]. split; [apply views_data | apply views_name_type].
Qed.
Print Assumptions C29_roundtrip.

Theorem C29_binary_address_kept : forall last f, is_ad (wf_type f) = false ->
  let v := view last f in (rf_bin v, rf_seg v, rf_off v, rf_len v) = (true, wf_seg f, wf_off f, zlen (wf_data f)).
Proof. exact view_binary. Qed.
Print Assumptions C29_binary_address_kept.

(* Search by name and ISOLATION: with the head at the header of some file, a request passes over whole
   files (one Skipped message each), finds the first file that matches, returns exactly its contents, and
   leaves the head exactly at the header of the file after it (r_rest = rest): no record of another
   file is consumed or mixed in.  fs1 = [] is the isolation statement for reading a file in place. *)
Theorem C29_search_isolation : forall T cur nreq treq fs1 f rest last,
  Forall (passed_over nreq treq) fs1 -> file_ok f -> matches nreq treq f = true ->
  last_ok last -> illegal_name nreq = false ->
  open_read_all {| r_tape := T; r_rest := files_records last fs1 ++ file_records (end_last last fs1) f ++ rest;
                   r_type := cur; r_open := false |} nreq treq =
  ({| r_tape := T; r_rest := rest; r_type := wf_type f; r_open := false |},
   skipped_msgs fs1 ++ msg 1 (pad_name (wf_name f)) (wf_type f),
   OFile (view (end_last last fs1) f)).
Proof. exact find_file. Qed.
Print Assumptions C29_search_isolation.

(* Bounded reads (INPUT$(n,#f) = file.read(n)): one read of n bytes from an open text/data file returns
   exactly the next n bytes of what remains (fewer only if fewer remain), also across the 255-byte record
   boundaries, advances by exactly what it returned and never disturbs where the file ends on the tape. *)
Theorem C29_bounded_read : forall n s, good s ->
  exists s', read_n n s = ROk (firstn n (remaining s)) s' /\ remaining s' = skipn n (remaining s) /\
             good s' /\ final_rest s' = final_rest s.
Proof.
  intros n s Hg. destruct (cs_read_spec (S (length (rd_rest s))) n [] s Hg (Nat.lt_succ_diag_r _))
    as (s' & E & Hr & Hg' & Hf & _).
  cbn [app length] in *. rewrite Nat.sub_0_r in *. exists s'. repeat split; assumption.
Qed.
Print Assumptions C29_bounded_read.

(* a text/data file read back with ANY sequence of request sizes >= 1 gives the contents written, every
   request answered with min(request, bytes left) bytes, and the head ends after the file's own records *)
Theorem C29_text_plan_roundtrip : forall chunks rest plan fuel, Forall (fun n => (1 <= n)%nat) plan ->
  (length (concat chunks) < fuel)%nat ->
  read_plan fuel plan 0 (rd0 (text_records chunks ++ rest)) [] [] =
  Some (concat chunks, lens_spec fuel plan 0 (length (concat chunks)), rest).
Proof. exact text_plan_roundtrip. Qed.
Print Assumptions C29_text_plan_roundtrip.

(* C29_search_isolation with the file read by bounded reads: same file, messages and head position *)
Theorem C29_search_isolation_bounded_reads : forall T cur nreq treq fs1 f rest last plan,
  Forall (passed_over nreq treq) fs1 -> file_ok f -> matches nreq treq f = true ->
  last_ok last -> illegal_name nreq = false -> Forall (fun n => (1 <= n)%nat) plan ->
  open_read_plan plan
    {| r_tape := T; r_rest := files_records last fs1 ++ file_records (end_last last fs1) f ++ rest;
       r_type := cur; r_open := false |} nreq treq =
  ({| r_tape := T; r_rest := rest; r_type := wf_type f; r_open := false |},
   skipped_msgs fs1 ++ msg 1 (pad_name (wf_name f)) (wf_type f),
   OFile (view (end_last last fs1) f),
   if is_binary (wf_type f) then []
   else lens_spec (S (S (tape_bytes (body_records f ++ rest)))) plan 0 (length (wf_data f))).
Proof. exact find_file_plan. Qed.
Print Assumptions C29_search_isolation_bounded_reads.

(* every file matches a request for the name it was written under, whatever the name's length *)
Theorem C29_found_by_own_name : forall name, name_match name (pad_name name) = true.
Proof. exact name_match_own. Qed.
Print Assumptions C29_found_by_own_name.

(* no match ahead: Device Timeout, the tape is rewound and the device is usable again *)
Theorem C29_not_found : forall T cur nreq treq fs last,
  Forall (passed_over nreq treq) fs -> last_ok last -> illegal_name nreq = false ->
  open_read_all {| r_tape := T; r_rest := files_records last fs; r_type := cur; r_open := false |} nreq treq =
  ({| r_tape := T; r_rest := T; r_type := last_type cur fs; r_open := false |}, skipped_msgs fs, OErr 24).
Proof. exact not_found. Qed.
Print Assumptions C29_not_found.

(* HISTORIES: after ANY sequence of open requests (found or not, any names and type filters) on a tape of
   acceptable, skippable files, every answer is either Device Timeout or a file of the tape that matches the
   request, returned exactly as written; between requests the device is closed with the head at a file boundary. *)
Theorem C29_session_sound : forall fs, Forall file_ok fs -> Forall skippable fs -> forall reqs st,
  Forall (fun q => illegal_name (fst q) = false) reqs -> at_boundary fs st ->
  Forall2 (fun q o => response_ok fs (fst q) (snd q) o) reqs (session st reqs).
Proof. exact session_sound. Qed.
Print Assumptions C29_session_sound.

Theorem C29_session_starts_at_boundary : forall fs, Forall file_ok fs -> at_boundary fs (rst0 (write_tape fs)).
Proof. exact at_boundary_start. Qed.
Print Assumptions C29_session_starts_at_boundary.

(* ... and a file that is on the tape is never lost: whatever was asked before, a request that matches it is
   answered with a matching file at once or, after one Device Timeout (tape rewound), when repeated *)
Theorem C29_found_within_two : forall fs st nreq treq f, Forall file_ok fs -> Forall skippable fs ->
  illegal_name nreq = false -> at_boundary fs st -> In f fs -> matches nreq treq f = true ->
  let r1 := open_read_all st nreq treq in
  let r2 := open_read_all (fst (fst r1)) nreq treq in
  (exists last g, In g fs /\ matches nreq treq g = true /\ snd r1 = OFile (view last g)) \/
  (snd r1 = OErr 24 /\ exists last g, In g fs /\ matches nreq treq g = true /\ snd r2 = OFile (view last g)).
Proof. exact found_within_two. Qed.
Print Assumptions C29_found_within_two.

(* PARTIAL: C29_search_isolation requires the files passed over to be `skippable` (passed_over includes
   it).  B/P/M files always are (whatever their contents, also empty: their data record is read while
   skipping, fix D29c).  A text/data file is not when its length is 164 (mod 255): its last count byte is
   then A5 and the scan for the next header takes that record for a header.  The statement without the
   condition is false for the code as it is: known finding K29a (count bytes cannot be told from a header,
   and images written before fix D10 may lack the final counted record, so the scan cannot be replaced). *)
Definition C29_search_statement : Prop := forall T cur nreq treq fs1 f rest last,
  Forall (fun g => file_ok g /\ matches nreq treq g = false) fs1 -> file_ok f -> matches nreq treq f = true ->
  last_ok last -> illegal_name nreq = false ->
  open_read_all {| r_tape := T; r_rest := files_records last fs1 ++ file_records (end_last last fs1) f ++ rest;
                   r_type := cur; r_open := false |} nreq treq =
  ({| r_tape := T; r_rest := rest; r_type := wf_type f; r_open := false |},
   skipped_msgs fs1 ++ msg 1 (pad_name (wf_name f)) (wf_type f),
   OFile (view (end_last last fs1) f)).

Theorem C29_search_statement_refuted : ~ C29_search_statement.
Proof.
  intros H. destruct witness_files_ok as (H1 & H2 & H4 & H6). apply fake_header_shadows.
  rewrite (write_tape_records [fake_file; real_file])
    by (constructor; [exact H1|constructor; [exact H2|constructor]]).
  refine (eq_trans _ (H _ 0 [66] [] [fake_file] real_file [] (0, 0, 0) _ H2 H6 _ eq_refl)).
  - unfold rst0. cbn [files_records]. rewrite app_nil_r. reflexivity.
  - constructor; [split; assumption|constructor].
  - unfold last_ok, u16. repeat split; discriminate.
Qed.
Print Assumptions C29_search_statement_refuted.

(* B/P/M files that are empty or start like a header are passed over like any other *)
Example C29_binary_always_skippable :
  Forall (passed_over [66] []) [empty_file; a5_file] /\
  snd (open_read_all (rst0 (write_tape [empty_file; a5_file; real_file])) [66] []) = OFile (view (0, 0, 19) real_file).
Proof.
  split; [repeat (constructor; [apply passed_overb_ok; vm_compute; reflexivity|]); constructor|].
  vm_compute. reflexivity.
Qed.

(* non-vacuity: a tape with a 254-byte data file (the D10 witness), a 255-byte ASCII file written in
   pieces, a 513-byte memory image and an empty data file satisfies the hypotheses, is read back, and a
   search for the last one passes over the three others *)
Definition ex_files : list wfile :=
  [ {| wf_name := [65]; wf_type := tD; wf_seg := 0; wf_off := 0; wf_chunks := [pat true 120 0 253; [13]] |};
    {| wf_name := [80; 82; 79; 71; 82; 65; 77; 77; 69]; wf_type := tA; wf_seg := 0; wf_off := 0;
       wf_chunks := cut (pat true 3 5 255) [1%nat; 254%nat] |};
    {| wf_name := [77]; wf_type := tM; wf_seg := 4660; wf_off := 22136; wf_chunks := [pat false 7 11 513] |};
    {| wf_name := [90]; wf_type := tD; wf_seg := 0; wf_off := 0; wf_chunks := [] |} ].

Example C29_nonvacuous :
  Forall file_ok ex_files /\
  map (fun f => zlen (wf_data f)) ex_files = [254; 255; 513; 0] /\
  map rf_data (read_tape (write_tape ex_files)) = map wf_data ex_files /\
  Forall (passed_over [90] [tD]) (firstn 3 ex_files) /\
  snd (open_read_all (rst0 (write_tape ex_files)) [90] [tD]) = OFile (view (4660, 22136, 513) (nth 3 ex_files real_file)).
Proof.
  split; [repeat (constructor; [apply file_okb_ok; vm_compute; reflexivity|]); constructor|].
  split; [vm_compute; reflexivity|]. split; [vm_compute; reflexivity|].
  split; [cbn [firstn ex_files]; repeat (constructor; [apply passed_overb_ok; vm_compute; reflexivity|]); constructor|].
  vm_compute. reflexivity.
Qed.

(* ---- bit layer of CAS images (model/CassetteBits.v) ----
   Reading a record of k 256-byte blocks from the bits written for it (leader of 2048 one bits, sync bit and
   byte, blocks with their CRC words, trailer) returns the record and stops exactly at the next record; the
   CRC is used only as a function whose value fits the two check bytes. *)
Theorem C29_bits_record : forall r s, Forall block_ok r ->
  read_record (length r) (enc_record r ++ s) = BOk r s.
Proof. exact read_record_enc. Qed.
Print Assumptions C29_bits_record.

(* for every tape of acceptable files with byte contents, the bit stream written reads back as exactly the
   records of the record-level model (each record read with its own block count, as the record level does) *)
Theorem C29_bits_tape : forall fs, Forall file_ok fs -> Forall file_bytes_ok fs ->
  read_records (map (@length block) (write_tape fs)) (enc_tape (write_tape fs)) = BOk (write_tape fs) [].
Proof. exact bits_tape_roundtrip. Qed.
Print Assumptions C29_bits_tape.

(* a block whose stored check word differs from the CRC of its data is rejected (Device I/O error) *)
Theorem C29_bits_bad_crc_rejected : forall b c s, block_ok b -> 0 <= c < 65536 -> c <> crc b ->
  read_block (enc_bytes b ++ enc_byte (c / 256) ++ enc_byte (c mod 256) ++ s) = BCrc.
Proof. exact read_block_bad_crc. Qed.
Print Assumptions C29_bits_bad_crc_rejected.

Example C29_bits_nonvacuous :
  Forall file_bytes_ok ex_files /\
  map (@length block) (write_tape ex_files) = [1; 1; 1; 1; 1; 1; 3; 1; 1]%nat /\
  zlen (enc_tape (write_tape ex_files)) = 41496.
Proof.
  split; [repeat (constructor; [split; apply bytesb_ok; vm_compute; reflexivity|]); constructor|].
  split; vm_compute; reflexivity.
Qed.

(* non-vacuity of the bounded-read theorems: the 400-byte file of the seeded regression read with INPUT$(100) *)
Example C29_bounded_nonvacuous :
  let chunks := [pat true 1 3 400] in
  good (rd0 (text_records chunks)) /\
  read_plan 500 [100%nat] 0 (rd0 (text_records chunks)) [] [] = Some (concat chunks, [100; 100; 100; 100; 0], []).
Proof. split; [right; vm_compute; reflexivity | vm_compute; reflexivity]. Qed.

(* non-vacuity of the session theorems: the example tape, a history with a miss, a typed request and repeats *)
Example C29_session_nonvacuous :
  Forall skippable ex_files /\
  map (fun o => match o with OFile v => zlen (rf_data v) | OErr e => - e end)
      (session (rst0 (write_tape ex_files)) [([77], []); ([65], [tD]); ([65], [tD]); ([90], []); ([81], [])]) =
  [513; -24; 254; 0; -24].
Proof.
  split; [repeat (constructor; [apply skippableb_ok; vm_compute; reflexivity|]); constructor|].
  vm_compute. reflexivity.
Qed.
