(* C03 - Numeric conversions and binary encodings are exact and consistent.
   Only statements, `exact`/short assembly, Print Assumptions and non-vacuity examples here.

   value_scaled v = (exact mathematical value of v) * 2^184 (an integer) for Integer/Single/Double v;
   S184 = 2^184; f_sval C b = value of the float encoding b times 2^bias (model/MBF.v).
   round_half_away p q, trunc_div p q, floor_div p q : the rounding / truncation / floor of the rational p/q.
   v_cint, v_fix, v_int, v_csng, v_cdbl, v_mk*, v_cv*, v_hex, v_oct, v_from_hex, v_from_oct model the
   values.py entry points on top of the regenerated Float methods (gen/Gen_mbf.v). *)
From Coq Require Import ZArith List Bool Lia.
From PCB Require Import lib.Result lib.PyInt lib.MBFPrims gen.Gen_mbf model.MBF
  proofs.MBF_base proofs.MBF_convert proofs.MBF_round proofs.MBF_digits proofs.MBF_values.
Import ListNotations.
Open Scope Z_scope.

Theorem C03_formats : fmt_ok Single_consts /\ fmt_ok Double_consts.
Proof. exact (conj Single_ok Double_ok). Qed.
Print Assumptions C03_formats.

(* ---- CINT --------------------------------------------------------------------------------------- *)

(* Float.to_int (regenerated) is round-half-away-from-zero of the exact value, for every encoding *)
Theorem C03_to_int : forall C b, fmt_ok C -> buf_ok C b ->
  mbf_to_int C b = round_half_away (f_sval C b) (2 ^ c_bias C).
Proof. exact to_int_spec. Qed.
Print Assumptions C03_to_int.

(* round_half_away p q is the integer nearest to p/q, exact halves going away from zero *)
Theorem C03_round_half_away_meaning : forall p q, 0 < q ->
  let r := round_half_away p q in
  2 * q * Z.abs r - q <= 2 * Z.abs p < 2 * q * Z.abs r + q /\ 0 <= r * p.
Proof. exact round_half_away_char. Qed.
Print Assumptions C03_round_half_away_meaning.

(* CINT of any numeric value: the rounded exact value, Overflow exactly outside -32768..32767 *)
Theorem C03_cint : forall v, value_ok v -> is_num v = true ->
  let r := round_half_away (value_scaled v) S184 in
  (in_int16 r -> exists b, v_cint v = Ok (VInt b) /\ zlen b = 2 /\ bytes_ok b /\ i_val b = r) /\
  (v_cint v = Err err_overflow <-> ~ in_int16 r).
Proof.
  intros v Hok Hn. cbv zeta. rewrite (v_cint_spec v Hok Hn). cbv zeta. unfold in_int16.
  set (r := round_half_away (value_scaled v) S184).
  destruct (Z.leb_spec (-32768) r); destruct (Z.leb_spec r 32767); cbn [andb]; split;
    try (intros; exfalso; lia); try (split; [intros _; lia | reflexivity]).
  - intros _. exists (i_encode r). destruct (i_encode_ok r). rewrite i_val_i_encode by lia. auto.
  - split; [discriminate | intros H1; exfalso; apply H1; lia].
Qed.
Print Assumptions C03_cint.

(* ---- FIX and INT -------------------------------------------------------------------------------- *)

Theorem C03_fix : forall v, value_ok v -> is_num v = true ->
  exists v', v_fix v = Ok v' /\ value_ok v' /\ v_tag v' = v_tag v /\
    value_scaled v' = trunc_div (value_scaled v) S184 * S184.
Proof. exact v_fix_spec. Qed.
Print Assumptions C03_fix.

Theorem C03_int : forall v, value_ok v -> is_num v = true ->
  exists v', v_int v = Ok v' /\ value_ok v' /\ v_tag v' = v_tag v /\
    value_scaled v' = floor_div (value_scaled v) S184 * S184.
Proof. exact v_int_spec. Qed.
Print Assumptions C03_int.

(* the same on the regenerated methods, for every encoding of either float class *)
Theorem C03_itrunc_ifloor : forall C b, fmt_ok C -> buf_ok C b ->
  (exists b', mbf_itrunc C b = Ok b' /\ buf_ok C b' /\
     f_sval C b' = Z.quot (f_sval C b) (2 ^ c_bias C) * 2 ^ c_bias C) /\
  (exists b', f_ifloor C b = Ok b' /\ buf_ok C b' /\
     f_sval C b' = (f_sval C b / 2 ^ c_bias C) * 2 ^ c_bias C).
Proof. intros C b HC Hb. split; [exact (itrunc_spec C b HC Hb) | exact (ifloor_spec C b HC Hb)]. Qed.
Print Assumptions C03_itrunc_ifloor.

(* ---- MKI$ MKS$ MKD$ / CVI CVS CVD ---------------------------------------------------------------- *)

(* for every 2/4/8-byte string s: CVx(s) is the value whose encoding is s, and MKx$ gives s back *)
Theorem C03_mk_cv_inverse : forall hard s,
  (zlen s = 2 -> v_cvi (VStr s) = Ok (VInt s) /\ v_mki (VInt s) = Ok (VStr s)) /\
  (zlen s = 4 -> v_cvs (VStr s) = Ok (VSng s) /\ v_mks hard (VSng s) = Ok (VStr s)) /\
  (zlen s = 8 -> v_cvd (VStr s) = Ok (VDbl s) /\ v_mkd (VDbl s) = Ok (VStr s)).
Proof. exact mk_cv_inverse. Qed.
Print Assumptions C03_mk_cv_inverse.

Theorem C03_cv_prefix : forall s,
  (2 <= zlen s -> v_cvi (VStr s) = Ok (VInt (firstn 2 s))) /\ (zlen s < 2 -> v_cvi (VStr s) = Err err_ifc) /\
  (4 <= zlen s -> v_cvs (VStr s) = Ok (VSng (firstn 4 s))) /\ (zlen s < 4 -> v_cvs (VStr s) = Err err_ifc) /\
  (8 <= zlen s -> v_cvd (VStr s) = Ok (VDbl (firstn 8 s))) /\ (zlen s < 8 -> v_cvd (VStr s) = Err err_ifc).
Proof. exact cv_prefix. Qed.
Print Assumptions C03_cv_prefix.

(* ---- single -> double is exact ------------------------------------------------------------------- *)

Theorem C03_single_to_double_exact : forall s, buf_ok Single_consts s ->
  exists d, v_cdbl (VSng s) = Ok (VDbl d) /\ buf_ok Double_consts d /\
    value_scaled (VDbl d) = value_scaled (VSng s).
Proof. intros s Hs. exact (v_cdbl_exact (VSng s) Hs eq_refl). Qed.
Print Assumptions C03_single_to_double_exact.

(* every numeric value converts to double exactly *)
Theorem C03_cdbl_exact : forall v, value_ok v -> is_num v = true ->
  exists d, v_cdbl v = Ok (VDbl d) /\ buf_ok Double_consts d /\ value_scaled (VDbl d) = value_scaled v.
Proof. exact v_cdbl_exact. Qed.
Print Assumptions C03_cdbl_exact.

(* ---- double -> single ---------------------------------------------------------------------------- *)

(* X = the 56-bit mantissa of the double, hi = its top 24 bits, rem = the 32 bits that do not fit.
   The singles with mantissas hi and hi+1 (same exponent; hi+1 = 2^24 is the next binade) are the two
   neighbours of the double.  The code rounds to r: exact when rem = 0, the nearer neighbour whenever
   rem is not in the band [half, half + ulp/256) above halfway, and there an exact-half-to-even decision
   on the truncated carry byte (which is the nearer one only at the exact half) *)
Theorem C03_narrow_rounding : forall X, 2 ^ 55 <= X < 2 ^ 56 ->
  let hi := X / 2 ^ 32 in let rem := X mod 2 ^ 32 in let r := round_even8 (X / 2 ^ 24) in
  2 ^ 23 <= hi < 2 ^ 24 /\ hi * 2 ^ 32 <= X < (hi + 1) * 2 ^ 32 /\ (r = hi \/ r = hi + 1) /\
  (rem = 0 -> r = hi) /\ (rem < 2 ^ 31 -> r = hi) /\ (2 ^ 31 + 2 ^ 24 <= rem -> r = hi + 1) /\
  (2 ^ 31 <= rem < 2 ^ 31 + 2 ^ 24 -> r = if Z.odd hi then hi + 1 else hi).
Proof. exact narrow_rounding. Qed.
Print Assumptions C03_narrow_rounding.

(* CSNG of a non-zero double: the single of mantissa r at the double's exponent, or Overflow when that
   would need exponent byte 256 (hard = the error handler raises; otherwise it prints Overflow and
   the result is the largest single of that sign) *)
Theorem C03_double_to_single : forall hard d, buf_ok Double_consts d -> f_exp d <> 0 ->
  let X := f_man Double_consts d in let r := round_even8 (X / 2 ^ 24) in
  let neg := f_neg Double_consts d in
  value_scaled (VDbl d) = (if neg then -1 else 1) * X * 2 ^ f_exp d /\
  (~ (r = 2 ^ 24 /\ f_exp d = 255) ->
     exists s, v_csng hard (VDbl d) = Ok (VSng s) /\ buf_ok Single_consts s /\
       value_scaled (VSng s) = (if neg then -1 else 1) * (r * 2 ^ 32) * 2 ^ f_exp d) /\
  (r = 2 ^ 24 /\ f_exp d = 255 ->
     v_csng hard (VDbl d) = if hard then Err err_overflow else Ok (VSng (f_max Single_consts neg))).
Proof. exact v_csng_double_spec. Qed.
Print Assumptions C03_double_to_single.

(* value-level error bound: the single returned for ANY double (no Overflow) differs from the double's exact
   value by at most (1/2 + 1/256) ulp of a single at the double's exponent (ulp = 2^32 * 2^e on the 2^184 scale) *)
Theorem C03_double_to_single_error : forall d s, buf_ok Double_consts d ->
  v_csng true (VDbl d) = Ok (VSng s) ->
  256 * Z.abs (value_scaled (VSng s) - value_scaled (VDbl d)) <= 129 * (2 ^ 32 * 2 ^ f_exp d).
Proof. exact v_csng_error_bound. Qed.
Print Assumptions C03_double_to_single_error.

(* widening then narrowing is the identity on bytes: CSNG(CDBL(s)) = s for every single s
   (a zero encoding comes back as the canonical zero), in both error-handler modes *)
Theorem C03_csng_cdbl_roundtrip : forall hard s, buf_ok Single_consts s ->
  exists d, v_cdbl (VSng s) = Ok (VDbl d) /\
    v_csng hard (VDbl d) = Ok (VSng (if f_exp s =? 0 then [0; 0; 0; 0] else s)).
Proof. intros hard s Hs. exists (d_from_single s). split; [reflexivity | exact (csng_cdbl_roundtrip hard s Hs)]. Qed.
Print Assumptions C03_csng_cdbl_roundtrip.

(* a zero double (any encoding with exponent byte 0) converts to the canonical zero single *)
Theorem C03_double_zero_to_single : forall hard d, buf_ok Double_consts d -> f_exp d = 0 ->
  v_csng hard (VDbl d) = Ok (VSng [0; 0; 0; 0]).
Proof.
  intros hard d Hd He. unfold v_csng, v_to_single. rewrite (to_single_spec d Hd), He. reflexivity.
Qed.
Print Assumptions C03_double_zero_to_single.

(* ---- HEX$ / OCT$ and &H / &O --------------------------------------------------------------------- *)

(* positional digits: for EVERY n >= 0 and EVERY base > 1 the digits re-read give n *)
Theorem C03_digits_roundtrip : forall base n, 1 < base -> 0 <= n -> of_digits base (to_digits base n) = n.
Proof. exact digits_roundtrip. Qed.
Print Assumptions C03_digits_roundtrip.

Theorem C03_format_parse : forall base n, 1 < base <= 16 -> 0 <= n -> py_int base (fmt_base base n) = Ok n.
Proof. exact py_int_fmt. Qed.
Print Assumptions C03_format_parse.

(* HEX$ / OCT$ of every 16-bit integer, re-read as &H.. / &O.., is the same integer (same two bytes) *)
Theorem C03_hex_roundtrip : forall b, zlen b = 2 -> bytes_ok b ->
  exists ds, v_hex (VInt b) = Ok (VStr ds) /\ ds = fmt_base 16 (i_uval b) /\ v_from_hex ds = Ok (VInt b).
Proof. exact hex_roundtrip. Qed.
Print Assumptions C03_hex_roundtrip.

Theorem C03_oct_roundtrip : forall b, zlen b = 2 -> bytes_ok b ->
  exists ds, v_oct (VInt b) = Ok (VStr ds) /\ v_from_oct ds = Ok (VInt b).
Proof. exact oct_roundtrip. Qed.
Print Assumptions C03_oct_roundtrip.

(* instantiated for all 0..65535 (the unsigned reading of the 65536 integers) *)
Theorem C03_hex_oct_all_integers : forall n, 0 <= n < 65536 ->
  (exists ds, v_hex (VInt (i_encode n)) = Ok (VStr ds) /\ v_from_hex ds = Ok (VInt (i_encode n))) /\
  (exists ds, v_oct (VInt (i_encode n)) = Ok (VStr ds) /\ v_from_oct ds = Ok (VInt (i_encode n))).
Proof.
  intros n Hn. destruct (i_encode_ok n) as [Hl Hb].
  destruct (hex_roundtrip _ Hl Hb) as (ds & H1 & _ & H2). destruct (oct_roundtrip _ Hl Hb) as (ds' & H3 & H4).
  split; eauto.
Qed.
Print Assumptions C03_hex_oct_all_integers.

(* ---- non-vacuity --------------------------------------------------------------------------------- *)
Example C03_nonvacuous :
  let s25 := VSng [0; 0; 32; 130] in let sm25 := VSng [0; 0; 160; 130] in        (* 2.5 and -2.5 *)
  let big := VSng [0; 255; 127; 144] in                                          (* 32767.5 *)
  let tie := VDbl [0; 0; 0; 128; 0; 0; 0; 129] in                                (* 1 + 2^-24: exact half *)
  let tie1 := VDbl [0; 0; 0; 128; 1; 0; 0; 129] in                               (* odd mantissa + half *)
  value_ok s25 /\ value_ok sm25 /\ value_ok big /\ value_ok tie /\
  v_cint s25 = Ok (VInt [3; 0]) /\ v_cint sm25 = Ok (VInt [253; 255]) /\ v_cint big = Err err_overflow /\
  v_fix sm25 = Ok (VSng [0; 0; 128; 130]) /\ v_int sm25 = Ok (VSng [0; 0; 192; 130]) /\
  v_csng true tie = Ok (VSng [0; 0; 0; 129]) /\ v_csng true tie1 = Ok (VSng [2; 0; 0; 129]) /\
  v_csng true (VDbl [0; 0; 0; 128; 255; 255; 127; 255]) = Err err_overflow /\
  v_hex (VInt [255; 255]) = Ok (VStr [70; 70; 70; 70]) /\ v_from_hex [70; 70; 70; 70] = Ok (VInt [255; 255]) /\
  v_cvs (VStr [1; 2; 3; 4]) = Ok (VSng [1; 2; 3; 4]).
Proof.
  cbv zeta. unfold value_ok, buf_ok.
  repeat split; try (apply bytesb_ok; reflexivity); vm_compute; reflexivity.
Qed.
