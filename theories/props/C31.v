(* C31 - Drawing primitives have their specified geometry.
   Only statements, `exact`, Print Assumptions and non-vacuity examples here.
   `exec` runs the request generators REGENERATED from graphics.py (_draw_line with its Bresenham loop,
   _draw_straight, _draw_box, _draw_box_filled, the PSET write: gen/Gen_raster.v) through the regenerated viewport
   (gen/Gen_viewport.v); line_pixels / box_pixels are their geometric reading, proved equal to the regenerated code
   for all arguments (C31_model_is_regenerated). "Unclipped" = the defining points are inside the viewport. *)
From Coq Require Import ZArith List Bool Lia.
From PCB Require Import lib.Result lib.PyInt lib.GfxPrims gen.Gen_viewport gen.Gen_raster gen.Gen_point
  model.Matrix model.Viewport model.Raster model.Sprite model.Point
  proofs.Matrix_proofs proofs.Viewport_proofs proofs.Raster_bridge proofs.Raster_proofs proofs.Raster_geom
  proofs.Raster_cells proofs.Raster_stmt proofs.Sprite_proofs proofs.Sprite_put proofs.Put_xor proofs.Put_sem proofs.Sprite_planed proofs.Point_proofs.
Import ListNotations.
Open Scope Z_scope.

(* the hand model of the primitives IS the regenerated code, for every viewport, coordinate, attribute, style *)
Theorem C31_model_is_regenerated : forall vp x0 y0 x1 y1 a p,
  gen_line vp x0 y0 x1 y1 a p = Ok (line_reqs vp x0 y0 x1 y1 a p) /\
  gen_box vp x0 y0 x1 y1 a p = Ok (box_reqs vp x0 y0 x1 y1 a p) /\
  gen_boxfill vp x0 y0 x1 y1 a = boxfill_reqs vp x0 y0 x1 y1 a /\
  gen_pset vp x0 y0 a = [pix_req a (x0, y0)].
Proof.
  intros. split; [apply gen_line_is_model|]. split; [apply gen_box_is_model|].
  split; [apply gen_boxfill_is_model | apply gen_pset_is_model].
Qed.
Print Assumptions C31_model_is_regenerated.

(* PSET sets exactly one cell to the attribute (nothing when the point is outside the viewport) ... *)
Theorem C31_pset : forall st x y a,
  good_state st -> g_text st = false ->
  exists st', exec st (SPset x y a) = (Ok tt, st')
    /\ cells_set (g_vp st) (the_page st) (the_page st') a
         (fun x' y' => (x', y') = (x, y) /\ vp_contains (g_vp st) x y = true).
Proof. exact exec_pset. Qed.
Print Assumptions C31_pset.

(* ... that POINT then returns; POINT never raises, whatever the coordinates and the viewport *)
Theorem C31_pset_point : forall st x y a,
  good_state st -> g_text st = false -> vp_contains (g_vp st) x y = true ->
  exists st', exec st (SPset x y a) = (Ok tt, st') /\
    point (g_vp st) (the_page st') (vp_maxw (g_vp st)) (vp_maxh (g_vp st)) x y = Ok a.
Proof.
  intros st x y a Hg Ht Hc. destruct (exec_pset st x y a Hg Ht) as [st' [He Hs]].
  exists st'. split; [exact He|]. apply point_reads_cell; [exact Hc | exact (proj1 Hg)|].
  apply (proj1 (Hs x y)). split; [reflexivity | exact Hc].
Qed.
Print Assumptions C31_pset_point.

Theorem C31_point_total : forall vp m x y,
  wf_vp vp -> same_dims vp m -> exists v, point vp m (vp_maxw vp) (vp_maxh vp) x y = Ok v.
Proof. exact point_total. Qed.
Print Assumptions C31_point_total.

(* LINE, any endpoints (any slope, any length): max(|dx|,|dy|)+1 pixels, no duplicates, consecutive pixels are
   8-neighbours, both endpoints are drawn (first and last), all pixels in the bounding box of the endpoints *)
Theorem C31_line_geometry : forall x0 y0 x1 y1,
  let l := line_pixels x0 y0 x1 y1 in
  Z.of_nat (length l) = Z.max (Z.abs (x1 - x0)) (Z.abs (y1 - y0)) + 1
  /\ NoDup l
  /\ (forall k p q, nth_error l k = Some p -> nth_error l (S k) = Some q -> step8 p q)
  /\ In (x0, y0) l /\ In (x1, y1) l
  /\ (forall p, In p l -> Z.min x0 x1 <= fst p <= Z.max x0 x1 /\ Z.min y0 y1 <= snd p <= Z.max y0 y1).
Proof.
  intros x0 y0 x1 y1. cbv zeta.
  destruct (line_pixels_is_line x0 y0 x1 y1) as [H1 [H2 [H3 [H4 [H5 [H6 _]]]]]].
  repeat (split; [assumption|]). exact H6.
Qed.
Print Assumptions C31_line_geometry.

(* a solid LINE with both endpoints inside the viewport sets exactly those pixels *)
Theorem C31_line : forall st x0 y0 x1 y1 a,
  good_state st -> g_text st = false ->
  vp_contains (g_vp st) x0 y0 = true -> vp_contains (g_vp st) x1 y1 = true ->
  exists st', exec st (SLine x0 y0 x1 y1 a 65535) = (Ok tt, st')
    /\ cells_set (g_vp st) (the_page st) (the_page st') a (fun x y => In (x, y) (line_pixels x0 y0 x1 y1)).
Proof. exact exec_line. Qed.
Print Assumptions C31_line.

(* LINE ,B draws exactly the outline of the rectangle, LINE ,BF exactly all its cells *)
Theorem C31_box : forall st x0 y0 x1 y1 a,
  good_state st -> g_text st = false ->
  vp_contains (g_vp st) x0 y0 = true -> vp_contains (g_vp st) x1 y1 = true ->
  exists st', exec st (SBox x0 y0 x1 y1 a 65535) = (Ok tt, st')
    /\ cells_set (g_vp st) (the_page st) (the_page st') a (on_perimeter x0 y0 x1 y1).
Proof. exact exec_box. Qed.
Print Assumptions C31_box.

Theorem C31_boxfill : forall st x0 y0 x1 y1 a,
  good_state st -> g_text st = false ->
  vp_contains (g_vp st) x0 y0 = true -> vp_contains (g_vp st) x1 y1 = true ->
  exists st', exec st (SBoxF x0 y0 x1 y1 a) = (Ok tt, st')
    /\ cells_set (g_vp st) (the_page st) (the_page st') a (in_box x0 y0 x1 y1).
Proof. exact exec_boxfill. Qed.
Print Assumptions C31_boxfill.

(* the GET/PUT array format of the packed-pixel modes: unpack (pack s) = s for every sprite whose cells are below
   2^bpp, every bit depth 1 2 4 8, all widths and heights that fit the 16-bit size record, any trailing bytes *)
Theorem C31_pack_roundtrip : forall bpp s w h extra,
  bpp_ok bpp -> sprite_ok bpp s w h -> 0 < w -> 0 < h -> w * bpp < 65536 -> h < 65536 ->
  unpack_sprite bpp (pack_sprite bpp s ++ extra) = s.
Proof. exact sprite_roundtrip. Qed.
Print Assumptions C31_pack_roundtrip.

(* the planar format of the EGA modes (1 to 4 colour planes, interlaced row by row) and Tandy SCREEN 6 (two planes,
   the size record holds half the - even - width) *)
Theorem C31_planed_roundtrip : forall n s w h extra,
  planes_ok n -> planed_ok n s w h -> 0 < w < 65536 -> 0 < h < 65536 ->
  unpack_planed n (pack_planed n s ++ extra) = s.
Proof. exact planed_roundtrip. Qed.
Print Assumptions C31_planed_roundtrip.

Theorem C31_tandy6_roundtrip : forall s w h extra,
  planed_ok 2 s w h -> 0 < w < 65536 -> w mod 2 = 0 -> 0 < h < 65536 ->
  unpack_tandy6 (pack_tandy6 s ++ extra) = s.
Proof. exact tandy6_roundtrip. Qed.
Print Assumptions C31_tandy6_roundtrip.

(* GET then PUT ,PSET at the same place leaves the page unchanged, for every viewport and rectangle *)
Theorem C31_get_put_pset : forall vp m bpp y0 y1 x0 x1 w h extra,
  bpp_ok bpp -> sprite_ok bpp (vp_getslice vp m y0 y1 x0 x1) w h ->
  0 < w -> 0 < h -> w * bpp < 65536 -> h < 65536 ->
  let arr := pack_sprite bpp (vp_getslice vp m y0 y1 x0 x1) ++ extra in
  vp_setitem vp m (WReq (ISlice (Some y0) (Some y1)) (ISlice (Some x0) (Some x1))
                        (Block (unpack_sprite bpp arr))) = Ok m.
Proof. exact get_put_pset_identity. Qed.
Print Assumptions C31_get_put_pset.

(* PUT with any action verb (0 PSET, 1 PRESET, 2 AND, 3 OR, else XOR), accepted at (x, y): the rectangle reads back
   as the verb applied cell by cell to the old contents and the sprite; every other cell is unchanged *)
Theorem C31_put_semantics : forall st x y sprite op,
  good_state st -> g_text st = false -> rect_sprite sprite ->
  fst (exec st (SPut x y sprite op)) = Ok tt ->
  let vp := g_vp st in
  let x1 := x + sprite_width sprite - 1 in
  let y1 := y + zlen sprite - 1 in
  exists st', exec st (SPut x y sprite op) = (Ok tt, st')
    /\ vp_getslice vp (the_page st') y (y1 + 1) x (x1 + 1)
       = put_block op (g_bpp st) (vp_getslice vp (the_page st) y (y1 + 1) x (x1 + 1)) sprite
    /\ (forall x' y', ~ (x <= x' <= x1 /\ y <= y' <= y1) ->
          vp_cell vp (the_page st') x' y' = vp_cell vp (the_page st) x' y').
Proof. exact exec_put_semantics. Qed.
Print Assumptions C31_put_semantics.

(* PUT ,XOR applied twice at the same place (any position where the first PUT is accepted, any rectangular
   sprite, any viewport) restores the whole graphics state, in particular every pixel *)
Theorem C31_put_xor_involution : forall st x y sprite,
  good_state st -> g_text st = false -> rect_sprite sprite ->
  fst (exec st (SPut x y sprite 4)) = Ok tt ->
  snd (exec (snd (exec st (SPut x y sprite 4))) (SPut x y sprite 4)) = st.
Proof.
  intros st x y sprite Hg Ht Hs Hok.
  destruct (exec_put_xor_twice st x y sprite Hg Ht Hs Hok) as [st1 [E1 E2]].
  rewrite E1. cbn [snd]. rewrite E2. reflexivity.
Qed.
Print Assumptions C31_put_xor_involution.

(* non-vacuity: a steep line drawn bottom-up on a 12x10 page with a viewport; count, endpoints, POINT *)
Example C31_nonvacuous :
  let vp := VP false 1 1 10 8 12 10 in
  let st := GS false 2 [blank 10 12 0] 0 vp in
  good_state st /\ vp_contains vp 2 7 = true /\ vp_contains vp 5 0 = true /\
  line_pixels 2 7 5 0 = [(5, 0); (5, 1); (4, 2); (4, 3); (3, 4); (3, 5); (2, 6); (2, 7)] /\
  (let st' := snd (exec st (SLine 2 7 5 0 3 65535)) in
   point vp (the_page st') 12 10 4 3 = Ok 3 /\ point vp (the_page st') 12 10 4 4 = Ok 0 /\
   point vp (the_page st') 12 10 11 3 = Ok (-1)) /\
  unpack_sprite 2 (pack_sprite 2 [[1; 2; 3; 0; 1]; [3; 3; 0; 0; 2]] ++ [9; 9]) = [[1; 2; 3; 0; 1]; [3; 3; 0; 0; 2]].
Proof.
  cbv zeta. split.
  - unfold good_state. cbn [g_vp g_apage g_pages]. split; [unfold wf_vp; cbn; lia|]. split; [cbn; lia|].
    repeat constructor; vm_compute; reflexivity.
  - vm_compute. repeat split; reflexivity.
Qed.
