(* C01 - No BASIC input ever produces an internal interpreter error.   PARTIAL (see registry/C01.json):
   the whole interpreter is not modelled; proved here are the exception funnel (over the regenerated catch
   tables) and the anchored validation mechanisms, each with the Python primitives that can raise made
   explicit as `Host` outcomes.  The remaining statement/function callbacks are covered only by the
   grammar-driven search of harness/C01.py (testing, not proof). *)
From Coq Require Import ZArith List Bool.
From PCB Require Import lib.Result lib.PyInt gen.Gen_funnel model.Funnel model.Clock model.Environ
  proofs.Funnel_proofs proofs.Clock_proofs proofs.Environ_proofs.
Import ListNotations.
Open Scope Z_scope.

(* the full statement, kept visible: for every input, what leaves execute/evaluate is allowed *)
Definition C01_statement (run : list Z -> verdict) : Prop := forall input, allowed (run input) = true.

Theorem C01_funnel_total : forall e,
  match e with XBasic _ | XBreak | XExit | XReset => True | _ => False end ->
  allowed (handle_exceptions e) = true.
Proof. exact funnel_total. Qed.
Print Assumptions C01_funnel_total.

Theorem C01_funnel_converts_nothing_else : forall e,
  match e with XBasic _ | XBreak | XExit | XReset => False | _ => True end ->
  handle_exceptions e = Propagated e /\ allowed (handle_exceptions e) = false.
Proof. exact funnel_escape. Qed.
Print Assumptions C01_funnel_converts_nothing_else.

Theorem C01_float_errors_become_basic : forall do_raise console e,
  match e with XValue | XOverflow | XZeroDiv => True | _ => False end ->
  match float_safe do_raise console e with
  | Continues => True
  | Raises (XBasic n) => In n funnel_error_numbers
  | Raises _ => False
  end.
Proof. exact float_safe_no_host. Qed.
Print Assumptions C01_float_errors_become_basic.

Theorem C01_os_errors_become_basic : forall errno,
  exists n, handle_oserror errno = XBasic n /\ In n funnel_error_numbers.
Proof. exact oserror_total. Qed.
Print Assumptions C01_os_errors_become_basic.

Theorem C01_time_no_host : forall host offset s x, valid_now (host + offset) ->
  time_set host offset s <> Host x.
Proof. exact time_set_no_host. Qed.
Print Assumptions C01_time_no_host.

Theorem C01_date_no_host : forall host offset s x, date_set host offset s <> Host x.
Proof. exact date_set_no_host. Qed.
Print Assumptions C01_date_no_host.

Theorem C01_environ_no_host : forall (U : Type) (dec : list Z -> U) (nul : U -> bool),
  (forall v, has_byte 0 v = false -> nul (dec v) = false) ->
  forall (e : env U) s x, environ_stmt U dec nul e s <> Host x.
Proof. exact environ_stmt_no_host. Qed.
Print Assumptions C01_environ_no_host.

Theorem C01_peek_no_host : forall t addr x, peek_preset (Some t) addr <> Host x.
Proof. exact peek_preset_no_host. Qed.
Print Assumptions C01_peek_no_host.

(* non-vacuity: the regenerated tables satisfy the side conditions; a soft float error continues *)
Example C01_nonvacuous : tables_ok = true /\ float_safe false true XZeroDiv = Continues
  /\ handle_exceptions (XBasic 11) = Message.
Proof. repeat split; vm_compute; reflexivity. Qed.
