(* C16 - A protected program never discloses its text in direct mode.
   Only statements, `exact`, Print Assumptions and non-vacuity examples here.

   Model: model/Guard.v; every "is this callback refused?" and every write of the flag is read from the guard
   table gen/Gen_guard.v, which is re-extracted from /repo's source on every run.  Scope: disclosure through
   the program-reading paths (listing, saving, editing, memory access, merging, line entry); the values of
   variables and user functions the program itself defined are variable contents and are out of scope.

   READ (DATA items) and RENUM ("Undefined line" message) used to be unguarded (defects D16a / D16b, fixed by
   fixes/D16a.patch, fixes/D16b.patch); on a tree without those guards the regenerated table makes the proof of
   C16_no_disclosure fail and the harness reports the witnesses. *)
From Coq Require Import ZArith List Bool String.
From PCB Require Import lib.Result lib.PyInt gen.Gen_guard model.Guard proofs.Guard_proofs.
Import ListNotations.
Open Scope Z_scope.

(* --- flag invariant, over ALL histories of typed commands and program statements.
   inv s  :=  protection enforced -> the program in memory came from a protected file ->
              the flag is set /\ nothing typed/merged/poked/BLOADed in direct mode is part of it.
   The only excluded events are the running program clearing its own flag (POKE 1450,0 / BLOAD over it). *)
Theorem C16_flag_invariant : forall es s, inv s ->
  forallb (fun e => negb (self_unprotect e)) es = true -> inv (run_events s es).
Proof. exact flag_invariant. Qed.
Print Assumptions C16_flag_invariant.

(* it is established by loading a protected file, from any state, and holds initially *)
Theorem C16_invariant_established : forall s c, inv (st (estep s (Direct (OLoad (FProt c))))) /\ inv (init true).
Proof. intros s c. split; [exact (inv_after_load_P s c) | exact (inv_init true)]. Qed.
Print Assumptions C16_invariant_established.

(* the flag of any program is cleared only by an event that replaces the program (NEW, LOAD, RUN "f", CHAIN)
   or by the running program itself *)
Theorem C16_flag_cleared_only : forall s e,
  protected s = true -> protected (st (estep s e)) = false ->
  replaces_program e = true \/ self_unprotect e = true.
Proof. exact flag_cleared_only. Qed.
Print Assumptions C16_flag_cleared_only.

(* --- no disclosure, FULL statement: while the flag is set (and nothing supplied in direct mode is part of the
   program - which C16_flag_invariant guarantees for every program loaded from a protected file, and without
   which RUN would execute the user's own PEEK lines), no statement typed at the prompt - including RUN, the
   AUTO prompt, the EDIT prompt and FIELD - exposes plain program text; the only observation at all is the cipher text of SAVE ,P *)
Theorem C16_no_disclosure : forall s o,
  protected s = true -> run_mode s = false -> tainted s = false ->
  ob (step s o) = NoObs \/ (o = OSave SP /\ ob (step s o) = cipher (prog s)).
Proof. exact no_plain. Qed.
Print Assumptions C16_no_disclosure.

(* LIST, LLIST, EDIT, the syntax-error prompt, SAVE (A and B), PEEK, BSAVE, POKE, BLOAD, line entry, AUTO line
   entry, MERGE, CHAIN MERGE, READ and RENUM fail with Illegal function call, expose nothing, change nothing *)
Theorem C16_refused : forall s o,
  protected s = true -> run_mode s = false -> must_fail s o = true ->
  step s o = (s, Err guard_err, NoObs).
Proof. exact refused. Qed.
Print Assumptions C16_refused.

(* along every history in which the program does not unprotect itself, no typed command shows plain text of a
   program loaded from a protected file *)
Theorem C16_trace_no_disclosure : forall es s e,
  inv s -> allow_protect s = true ->
  forallb (fun e => negb (self_unprotect e)) es = true ->
  let s' := run_events s es in
  secret s' = true ->
  forall o, e = Direct o ->
  match ob (estep s' e) with Plain _ => False | _ => True end.
Proof. exact trace_no_disclosure. Qed.
Print Assumptions C16_trace_no_disclosure.

(* --- SAVE ,P still works (whatever the flag) and writes only through the cipher of C15 *)
Theorem C16_save_p_ok : forall s, step s (OSave SP) = (s, Ok 0, cipher (prog s)).
Proof. exact save_p_ok. Qed.
Print Assumptions C16_save_p_ok.

(* --- a protected program runs the same: two runs that differ only in the flag produce the same results and
   observations, statement by statement, for every program that does not list/save/edit/merge itself and does
   not PEEK the flag (those are flag_sensitive); and the PEEK family is never refused in a running program *)
Theorem C16_runs_same : forall os s1 s2,
  same_but_flag s1 s2 -> forallb (fun o => negb (flag_sensitive o)) os = true ->
  outs s1 os = outs s2 os.
Proof. exact runs_same. Qed.
Print Assumptions C16_runs_same.

Theorem C16_run_mode_allowed : forall s o,
  run_mode s = true ->
  In o [OPeekCode; OPeekOther; OPeekFlag; OBsaveCode; OBsaveOther; OPokeOther; OPokeCode; OBloadOther;
        OBloadCode; OBloadMissing] ->
  rs_ (step s o) <> Err guard_err.
Proof. exact run_mode_peek_family. Qed.
Print Assumptions C16_run_mode_allowed.

(* --- the audited sets of call sites that read program text / write the flag are still exactly those *)
Theorem C16_census : reader_sites = audited_reader_sites /\ flag_writer_sites = audited_flag_writer_sites.
Proof. exact census_ok. Qed.
Print Assumptions C16_census.

(* non-vacuity: after LOAD of a protected file with protection enforced the hypotheses hold, LIST is refused,
   SAVE ,P yields the cipher text, and the same LIST on the unprotected copy shows the lines *)
Example C16_nonvacuous :
  let s := st (estep (init true) (Direct (OLoad (FProt secret_code)))) in
  inv s /\ protected s = true /\ run_mode s = false /\ secret s = true /\ allow_protect s = true /\
  must_fail s OList = true /\ must_fail s (OEdit 4) = true /\ must_fail s ORead = true /\
  step s ORead = (s, Err 5, NoObs) /\ step s ORenum = (s, Err 5, NoObs) /\
  rs_ (step (set_run s true) ORead) = Ok 0 /\
  step s OList = (s, Err 5, NoObs) /\
  ob (step s (OSave SP)) = Cipher secret_code /\
  ob (step (st (estep (init true) (Direct (OLoad (FPlain secret_code))))) OList) = Plain secret_code /\
  outs (set_run s true) [OPeekCode; OPokeOther] = outs (set_protected (set_run s true) false) [OPeekCode; OPokeOther].
Proof.
  cbv zeta. split; [exact (inv_after_load_P (init true) secret_code)|].
  repeat split; vm_compute; reflexivity.
Qed.
