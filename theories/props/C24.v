(* C24 - Sequential files return what was written.
   Only statements, `exact`, Print Assumptions and non-vacuity examples here.
   soft = the soft_linefeed option (false: default, a NewlineWrapper turns CR LF into CR and LF into CR on input).
   Strings are byte lists, numbers are given by their to_repr text (number formatting / parsing is C07). *)
From Coq Require Import ZArith List Bool.
From PCB Require Import lib.Result lib.PyInt gen.Gen_textfile model.TextFile proofs.TextFile_proofs.
Import ListNotations.
Open Scope Z_scope.

(* WRITE# then INPUT#, any number of statements with any number of items each, strings in the class
   str_ok (bytes without double quote, NUL, 1A, at most 254 long; default mode: no LF; soft_linefeed mode: not
   starting with CR LF) and numbers as their text: every value comes back, and EOF is false after every item
   but the last and true after the last. *)
Theorem C24_write_input_roundtrip : forall soft stmts, forallb (stmt_ok soft) stmts = true ->
  read_items (map item_is_str (concat stmts)) (open_input soft (write_file stmts)) =
  Ok (combine (map item_text (concat stmts)) (eof_flags (length (concat stmts)))).
Proof. exact write_input_roundtrip. Qed.
Print Assumptions C24_write_input_roundtrip.

(* EOF is false before the first INPUT# (and true on a file that holds no item) *)
Theorem C24_eof_before_first : forall soft stmts, forallb (stmt_ok soft) stmts = true -> stmts <> [] ->
  eof (open_input soft (write_file stmts)) = false.
Proof. exact eof_before_first. Qed.
Print Assumptions C24_eof_before_first.

(* PRINT# of lines then LINE INPUT#: lines without CR and 1A, at most 254 long (default mode: no LF;
   soft_linefeed mode: not ending in LF) come back, with the same EOF behaviour *)
Theorem C24_print_lineinput_roundtrip : forall soft ls, forallb (line_ok soft) ls = true ->
  read_lines (length ls) (open_input soft (print_file ls)) = Ok (combine ls (eof_flags (length ls))).
Proof. exact print_lineinput_roundtrip. Qed.
Print Assumptions C24_print_lineinput_roundtrip.

(* APPEND adds after the existing content: old bytes minus one trailing 1A, the new bytes, 1A *)
Theorem C24_append : forall old stmts,
  append_file old stmts = strip_eof old ++ concat (map write_stmt stmts) ++ [EOFB].
Proof. exact append_bytes. Qed.
Print Assumptions C24_append.

(* ... so that a file written in two sessions is the file written in one, and everything is read back *)
Theorem C24_append_roundtrip : forall soft s1 s2, forallb (stmt_ok soft) (s1 ++ s2) = true ->
  append_file (write_file s1) s2 = write_file (s1 ++ s2) /\
  read_items (map item_is_str (concat (s1 ++ s2))) (open_input soft (append_file (write_file s1) s2)) =
  Ok (combine (map item_text (concat (s1 ++ s2))) (eof_flags (length (concat (s1 ++ s2))))).
Proof.
  intros soft s1 s2 H. split; [exact (append_after_write s1 s2)|].
  rewrite append_after_write. exact (write_input_roundtrip soft (s1 ++ s2) H).
Qed.
Print Assumptions C24_append_roundtrip.

(* LOF is the number of bytes: it grows by the length of what is written, CLOSE adds the EOF byte *)
Theorem C24_lof : forall f s, lof open_output = 0 /\ lof (fwrite f s) = lof f + zlen s /\
  lof (close_out f) = lof f + 1.
Proof. intros f s. split; [reflexivity | split; [exact (lof_fwrite f s) | exact (lof_close f)]]. Qed.
Print Assumptions C24_lof.

(* the operations the correspondence harness runs are these functions: OPEN/WRITE#/CLOSE scripts produce
   write_file / append_file / print_file, OPEN FOR INPUT reads open_input, LOF reports the byte count *)
Theorem C24_script_sessions : forall soft stmts ls d old raw f r,
  exec soft (OpOpenO :: map OpWrite stmts ++ [OpClose]) (mkF d HClosed) = mkF (Some (write_file stmts)) HClosed /\
  exec soft (OpOpenA :: map OpWrite stmts ++ [OpClose]) (mkF (Some old) HClosed)
    = mkF (Some (append_file old stmts)) HClosed /\
  exec soft (OpOpenO :: map OpPrint ls ++ [OpClose]) (mkF d HClosed) = mkF (Some (print_file ls)) HClosed /\
  step soft OpOpenI (mkF (Some raw) HClosed) = ([0], mkF (Some raw) (HIn raw (open_input soft raw))) /\
  fst (step soft OpLof (mkF d (HOut f))) = [0; zlen f] /\
  fst (step soft OpLof (mkF d (HIn raw r))) = [0; zlen raw].
Proof.
  intros soft stmts ls d old raw f r.
  split; [exact (script_output_session soft stmts d)|].
  split; [exact (script_append_session soft stmts old)|].
  split; [exact (script_print_session soft ls d)|].
  split; [exact (script_open_input soft raw)|]. exact (script_lof soft d f raw r).
Qed.
Print Assumptions C24_script_sessions.

(* the model never runs out of fuel: INPUT# and LINE INPUT# return a value or Input past end *)
Theorem C24_total : forall str r,
  ((exists w c r', input_entry str r = Ok (w, c, r')) \/ input_entry str r = Err tf_err_INPUT_PAST_END) /\
  ((exists l r', line_input r = Ok (l, r')) \/ line_input r = Err tf_err_INPUT_PAST_END).
Proof. intros str r. split; [exact (input_entry_total str r) | exact (line_input_total r)]. Qed.
Print Assumptions C24_total.

(* Known finding K3: at 255 characters the round trip is false today - the reader stops after 255
   characters without consuming the closing quote and the next item reads ",".  Hence "<= 254" in str_ok. *)
Definition C24_len255_statement : Prop := forall soft,
  read_items [true; true] (open_input soft (write_file [[IStr x255; IStr w_next]])) =
  Ok [(x255, false); (w_next, true)].
Theorem C24_len255_refuted : ~ C24_len255_statement /\ forall soft,
  read_items [true; true] (open_input soft (write_file [[IStr x255; IStr w_next]])) =
  Ok [(x255, false); ([COMMA], false)].
Proof.
  split; [|exact k3_witness]. intro H. specialize (H true). rewrite k3_witness in H. discriminate H.
Qed.
Print Assumptions C24_len255_refuted.

(* Known finding K24a: a 255-character line is followed by a spurious empty line.  Hence "<= 254" in line_ok. *)
Definition C24_line255_statement : Prop := forall soft,
  read_lines 2 (open_input soft (print_file [x255; w_next])) = Ok [(x255, false); (w_next, true)].
Theorem C24_line255_refuted : ~ C24_line255_statement /\ forall soft,
  read_lines 3 (open_input soft (print_file [x255; w_next])) =
  Ok [(x255, false); ([], false); (w_next, true)].
Proof.
  split; [|exact k24a_witness]. intro H. specialize (H true). vm_compute in H. discriminate H.
Qed.
Print Assumptions C24_line255_refuted.

(* every clause of the classes is needed (witnesses outside them that do not come back) *)
Theorem C24_class_boundary :
  read_items [true] (open_input true (write_file [[IStr [97; 34; 98]]])) = Ok [([97], false)] /\
  read_items [true] (open_input true (write_file [[IStr [97; 0; 98]]])) = Ok [([97; 98], true)] /\
  read_items [true] (open_input true (write_file [[IStr [97; 26; 98]]])) = Ok [([97], true)] /\
  read_items [true] (open_input false (write_file [[IStr [97; 10; 98]]])) = Ok [([97; 13; 98], true)] /\
  read_items [true] (open_input true (write_file [[IStr [13; 10; 97]]])) = Ok [([13; 97], true)] /\
  read_items [true] (open_input true (write_file [[IStr [97; 13; 10; 10]]])) = Ok [([97; 13; 10; 10], true)] /\
  read_lines 1 (open_input true (print_file [[97; 10]; [98]])) = Ok [([97; 10; 13; 10; 98], true)] /\
  read_lines 2 (open_input true (print_file [[97; 13; 98]])) = Ok [([97], false); ([98], true)].
Proof. exact class_boundary_witnesses. Qed.
Print Assumptions C24_class_boundary.

(* non-vacuity: statements with strings (commas, blanks, CR, LF, 254 bytes) and numbers of the three types
   satisfy the hypotheses and come back; so do lines *)
Example C24_nonvacuous :
  let stmts := [[IStr [32; 97; 44; 32]; INum [45; 53]; IStr []];
                [INum [50; 46; 53]; IStr (repeat 120 254); INum [49; 68; 43; 50; 48]; IStr [97; 13; 10; 98]]] in
  forallb (stmt_ok true) stmts = true /\
  read_items (map item_is_str (concat stmts)) (open_input true (write_file stmts)) =
  Ok (combine (map item_text (concat stmts)) [false; false; false; false; false; false; true]) /\
  let ls := [[97; 34; 44; 0; 98]; []; repeat 32 254] in
  forallb (line_ok false) ls = true /\
  read_lines 3 (open_input false (print_file ls)) = Ok (combine ls [false; false; true]).
Proof. vm_compute. repeat split; reflexivity. Qed.
