(* C24 - Sequential files return what was written.
   Only statements, `exact`, Print Assumptions and non-vacuity examples here.
   soft = the soft_linefeed option (false: default, a NewlineWrapper turns CR LF into CR and LF into CR on input).
   Strings are byte lists, numbers are given by their to_repr text (number formatting / parsing is C07). *)
From Coq Require Import ZArith List Bool.
From PCB Require Import lib.Result lib.PyInt gen.Gen_textfile model.TextFile proofs.TextFile_proofs.
Import ListNotations.
Open Scope Z_scope.

(* WRITE# then INPUT#, any number of statements with any number of items each, strings in the class
   str_ok (bytes without double quote, NUL, 1A, at most 254 long; default mode: no LF; soft_linefeed mode: not
   starting with CR LF) and numbers as their text: every value comes back, and EOF is false after every item
   but the last and true after the last. *)
Theorem C24_write_input_roundtrip : forall soft stmts, forallb (stmt_ok soft) stmts = true ->
  read_items (map item_is_str (concat stmts)) (open_input soft (write_file stmts)) =
  Ok (combine (map item_text (concat stmts)) (eof_flags (length (concat stmts)))).
Proof. exact write_input_roundtrip. Qed.
Print Assumptions C24_write_input_roundtrip.

(* EOF is false before the first INPUT# (and true on a file that holds no item) *)
Theorem C24_eof_before_first : forall soft stmts, forallb (stmt_ok soft) stmts = true -> stmts <> [] ->
  eof (open_input soft (write_file stmts)) = false.
Proof. exact eof_before_first. Qed.
Print Assumptions C24_eof_before_first.

(* PRINT# of lines then LINE INPUT#: lines of the class line_ok (no 1A, at most 254 long; default mode: no CR, no
   LF; soft_linefeed mode: CR only directly after LF, last byte not LF) come back, with the same EOF behaviour *)
Theorem C24_print_lineinput_roundtrip : forall soft ls, forallb (line_ok soft) ls = true ->
  read_lines (length ls) (open_input soft (print_file ls)) = Ok (combine ls (eof_flags (length ls))).
Proof. exact print_lineinput_roundtrip. Qed.
Print Assumptions C24_print_lineinput_roundtrip.

(* APPEND adds after the existing content: old bytes minus one trailing 1A, the new bytes, 1A *)
Theorem C24_append : forall old stmts,
  append_file old stmts = strip_eof old ++ concat (map write_stmt stmts) ++ [EOFB].
Proof. exact append_bytes. Qed.
Print Assumptions C24_append.

(* ... so that a file written in two sessions is the file written in one, and everything is read back *)
Theorem C24_append_roundtrip : forall soft s1 s2, forallb (stmt_ok soft) (s1 ++ s2) = true ->
  append_file (write_file s1) s2 = write_file (s1 ++ s2) /\
  read_items (map item_is_str (concat (s1 ++ s2))) (open_input soft (append_file (write_file s1) s2)) =
  Ok (combine (map item_text (concat (s1 ++ s2))) (eof_flags (length (concat (s1 ++ s2))))).
Proof.
  intros soft s1 s2 H. split; [exact (append_after_write s1 s2)|].
  rewrite append_after_write. exact (write_input_roundtrip soft (s1 ++ s2) H).
Qed.
Print Assumptions C24_append_roundtrip.

(* LOF is the number of bytes: it grows by the length of what is written, CLOSE adds the EOF byte *)
Theorem C24_lof : forall f s, lof open_output = 0 /\ lof (fwrite f s) = lof f + zlen s /\
  lof (close_out f) = lof f + 1.
Proof. intros f s. split; [reflexivity | split; [exact (lof_fwrite f s) | exact (lof_close f)]]. Qed.
Print Assumptions C24_lof.

(* the operations the correspondence harness runs are these functions: OPEN/WRITE#/CLOSE scripts produce
   write_file / append_file / print_file, OPEN FOR INPUT reads open_input, LOF reports the byte count *)
Theorem C24_script_sessions : forall soft stmts ls d old raw w r att,
  exec soft (OpOpenO :: map OpWrite stmts ++ [OpClose]) (mkF d HClosed) = mkF (Some (write_file stmts)) HClosed /\
  exec soft (OpOpenA :: map OpWrite stmts ++ [OpClose]) (mkF (Some old) HClosed)
    = mkF (Some (append_file old stmts)) HClosed /\
  exec soft (OpOpenO :: map OpPrint ls ++ [OpClose]) (mkF d HClosed) = mkF (Some (print_file ls)) HClosed /\
  step soft OpOpenI (mkF (Some raw) HClosed) = ([0], mkF (Some raw) (HIn raw (open_input soft raw) false)) /\
  fst (step soft OpLof (mkF d (HOut w))) = [0; zlen (wbytes w)] /\
  fst (step soft OpLof (mkF d (HIn raw r att))) = [0; zlen raw].
Proof.
  intros soft stmts ls d old raw w r att.
  split; [exact (script_output_session soft stmts d)|].
  split; [exact (script_append_session soft stmts old)|].
  split; [exact (script_print_session soft ls d)|].
  split; [exact (script_open_input soft raw)|]. exact (script_lof soft d w raw r att).
Qed.
Print Assumptions C24_script_sessions.

(* LOC counts 128-byte blocks.  Output/append: complete blocks written so far.  Input with soft_linefeed: the
   blocks needed for the bytes consumed (at least 1).  Input behind the NewlineWrapper: the same for the raw
   prefix that produced the bytes consumed, where one absorbed LF may already be counted. *)
Theorem C24_loc : forall f n raw r att,
  128 * loc_out f <= zlen f < 128 * loc_out f + 128 /\
  (0 <= n -> 1 <= blocks n /\ (n <= 128 -> blocks n = 1) /\
             (128 < n -> 128 * (blocks n - 1) < n <= 128 * blocks n)) /\
  loc_in true raw r att = blocks (zlen raw - zlen (rest r)) /\
  (zlen (rest r) <= zlen (nlfilter NONE raw) ->
   exists p, (p <= length raw)%nat /\
     nlfilter NONE (firstn p raw) =
       firstn (Z.to_nat (zlen (nlfilter NONE raw) - zlen (rest r))) (nlfilter NONE raw) /\
     (loc_in false raw r att = blocks (Z.of_nat p) \/ loc_in false raw r att = blocks (Z.of_nat p + 1))).
Proof.
  intros f n raw r att. split; [exact (loc_out_spec f)|]. split; [exact (blocks_spec n)|].
  split; [exact (loc_in_soft raw r att) | exact (loc_in_default raw r att)].
Qed.
Print Assumptions C24_loc.

(* INPUT$(n,#f): exactly the next n bytes of the stream (CR, LF, quotes, blanks as they are) when no 1A is among
   them, Input past end otherwise.  (The stream is the file with soft_linefeed, the newline-translated file
   otherwise; reads of more than one byte through the NewlineWrapper: known finding K24b.) *)
Theorem C24_input_str : forall n r,
  ((n <= length (rest r))%nat -> memZ EOFB (firstn n (rest r)) = false ->
   fst (input_str n r) = Ok (firstn n (rest r)) /\ rest (snd (input_str n r)) = skipn n (rest r)) /\
  ((length (rest r) < n)%nat \/ memZ EOFB (firstn n (rest r)) = true ->
   fst (input_str n r) = Err tf_err_INPUT_PAST_END).
Proof. intros n r. split; [exact (input_str_ok n r) | exact (input_str_past_end n r)]. Qed.
Print Assumptions C24_input_str.

(* PRINT# with several expressions separated by ; and , (14-column zones) at WIDTH 255: statements that end in a
   value write the lines ptext 1 es, and LINE INPUT# returns exactly those lines when they are in the class *)
Theorem C24_print_exprs_roundtrip : forall soft stmts, Forall (fun es => pnl es true = true) stmts ->
  pprint_session stmts = print_file (map (ptext 1) stmts) /\
  (forallb (line_ok soft) (map (ptext 1) stmts) = true ->
   read_lines (length stmts) (open_input soft (pprint_session stmts)) =
   Ok (combine (map (ptext 1) stmts) (eof_flags (length stmts)))).
Proof.
  intros soft stmts H. split; [exact (pprint_session_lines stmts H) | exact (pprint_lineinput_roundtrip soft stmts H)].
Qed.
Print Assumptions C24_print_exprs_roundtrip.

(* WIDTH#: a value is never split; at most one CR LF is put in front of it, and only when it does not fit *)
Theorem C24_width_wrap : forall w s b,
  (wbytes (wwrite w s b) = wbytes w ++ s \/ wbytes (wwrite w s b) = wbytes w ++ [CR; LF] ++ s) /\
  (wbytes (wwrite w s b) <> wbytes w ++ s ->
   b = true /\ wwidth w <> 255 /\ wcol w <> 1 /\ wwidth w < wcol w - 1 + fst (first_width s)).
Proof. intros w s b. split; [exact (wwrite_no_split w s b) | exact (wwrite_break_only_if_needed w s b)]. Qed.
Print Assumptions C24_width_wrap.

(* line_ok is exact: sufficient for all lines (C24_print_lineinput_roundtrip); necessary on every line of up to 6
   bytes and every pair of lines of up to 3 bytes over one representative per byte class (ordinary, CR, LF, 1A);
   the length bound is exact by C24_nonvacuous (254) and C24_line255_refuted (255) *)
Theorem C24_line_ok_exact : forall soft,
  (forall l, In l (all_lists sweep_alpha 6) -> lines_roundtrip soft [l] = line_ok soft l) /\
  (forall l1 l2, In l1 (all_lists sweep_alpha 3) -> In l2 (all_lists sweep_alpha 3) ->
     lines_roundtrip soft [l1; l2] = line_ok soft l1 && line_ok soft l2).
Proof. intro soft. split; [exact (line_ok_exact_upto6 soft) | exact (line_ok_exact_pairs_upto3 soft)]. Qed.
Print Assumptions C24_line_ok_exact.

(* a refused statement changes nothing: OPEN ... AS #1 while #1 is in use is File already open and leaves the
   whole state (disk contents, open file, positions) as it was *)
Theorem C24_refused_open_unchanged : forall soft o s, hnd s <> HClosed ->
  o = OpOpenO \/ o = OpOpenA \/ o = OpOpenI -> step soft o s = ([1; tf_err_FILE_ALREADY_OPEN], s).
Proof. exact refused_open_unchanged. Qed.
Print Assumptions C24_refused_open_unchanged.

(* a refused statement changes nothing, for every operation and every state: whenever an operation ends in a
   BASIC error other than Input past end the state is exactly as before; in every error case (62 included) the
   disk contents and the bytes of the open file are unchanged.  Covers file number in use, file not found, bad
   file mode / number, WIDTH and INPUT$ range errors, and the OPENs refused for mode letter, LEN, ACCESS, number *)
Theorem C24_error_changes_nothing : forall soft o s e, fst (step soft o s) = [1; e] ->
  (e <> tf_err_INPUT_PAST_END -> snd (step soft o s) = s) /\ same_files s (snd (step soft o s)).
Proof. exact error_changes_nothing. Qed.
Print Assumptions C24_error_changes_nothing.

(* the model never runs out of fuel: INPUT# and LINE INPUT# return a value or Input past end *)
Theorem C24_total : forall str r,
  ((exists w c r', input_entry str r = Ok (w, c, r')) \/ input_entry str r = Err tf_err_INPUT_PAST_END) /\
  ((exists l r', line_input r = Ok (l, r')) \/ line_input r = Err tf_err_INPUT_PAST_END).
Proof. intros str r. split; [exact (input_entry_total str r) | exact (line_input_total r)]. Qed.
Print Assumptions C24_total.

(* Known finding K3: at 255 characters the round trip is false today - the reader stops after 255
   characters without consuming the closing quote and the next item reads ",".  Hence "<= 254" in str_ok. *)
Definition C24_len255_statement : Prop := forall soft,
  read_items [true; true] (open_input soft (write_file [[IStr x255; IStr w_next]])) =
  Ok [(x255, false); (w_next, true)].
Theorem C24_len255_refuted : ~ C24_len255_statement /\ forall soft,
  read_items [true; true] (open_input soft (write_file [[IStr x255; IStr w_next]])) =
  Ok [(x255, false); ([COMMA], false)].
Proof.
  split; [|exact k3_witness]. intro H. specialize (H true). rewrite k3_witness in H. discriminate H.
Qed.
Print Assumptions C24_len255_refuted.

(* Known finding K24a: a 255-character line is followed by a spurious empty line.  Hence "<= 254" in line_ok. *)
Definition C24_line255_statement : Prop := forall soft,
  read_lines 2 (open_input soft (print_file [x255; w_next])) = Ok [(x255, false); (w_next, true)].
Theorem C24_line255_refuted : ~ C24_line255_statement /\ forall soft,
  read_lines 3 (open_input soft (print_file [x255; w_next])) =
  Ok [(x255, false); ([], false); (w_next, true)].
Proof.
  split; [|exact k24a_witness]. intro H. specialize (H true). vm_compute in H. discriminate H.
Qed.
Print Assumptions C24_line255_refuted.

(* every clause of the classes is needed (witnesses outside them that do not come back) *)
Theorem C24_class_boundary :
  read_items [true] (open_input true (write_file [[IStr [97; 34; 98]]])) = Ok [([97], false)] /\
  read_items [true] (open_input true (write_file [[IStr [97; 0; 98]]])) = Ok [([97; 98], true)] /\
  read_items [true] (open_input true (write_file [[IStr [97; 26; 98]]])) = Ok [([97], true)] /\
  read_items [true] (open_input false (write_file [[IStr [97; 10; 98]]])) = Ok [([97; 13; 98], true)] /\
  read_items [true] (open_input true (write_file [[IStr [13; 10; 97]]])) = Ok [([13; 97], true)] /\
  read_items [true] (open_input true (write_file [[IStr [97; 13; 10; 10]]])) = Ok [([97; 13; 10; 10], true)] /\
  read_lines 1 (open_input true (print_file [[97; 10]; [98]])) = Ok [([97; 10; 13; 10; 98], true)] /\
  read_lines 2 (open_input true (print_file [[97; 13; 98]])) = Ok [([97], false); ([98], true)].
Proof. exact class_boundary_witnesses. Qed.
Print Assumptions C24_class_boundary.

(* non-vacuity: statements with strings (commas, blanks, CR, LF, 254 bytes) and numbers of the three types
   satisfy the hypotheses and come back; so do lines *)
Example C24_nonvacuous :
  let stmts := [[IStr [32; 97; 44; 32]; INum [45; 53]; IStr []];
                [INum [50; 46; 53]; IStr (repeat 120 254); INum [49; 68; 43; 50; 48]; IStr [97; 13; 10; 98]]] in
  forallb (stmt_ok true) stmts = true /\
  read_items (map item_is_str (concat stmts)) (open_input true (write_file stmts)) =
  Ok (combine (map item_text (concat stmts)) [false; false; false; false; false; false; true]) /\
  let ls := [[97; 34; 44; 0; 98]; []; repeat 32 254] in
  forallb (line_ok false) ls = true /\
  read_lines 3 (open_input false (print_file ls)) = Ok (combine ls [false; false; true]) /\
  line_ok true [97; 10; 13; 98] = true /\
  ptext 1 [PV [97]; PComma; PV [98]; PSemi; PV [32; 49; 32]] = [97] ++ repeat 32 13 ++ [98; 32; 49; 32].
Proof. vm_compute. repeat split; reflexivity. Qed.
