(* C15 - Saved programs load back identically in every file format.
   Only statements, `exact`, Print Assumptions and non-vacuity examples here. *)
From Coq Require Import ZArith List.
From PCB Require Import lib.PyInt gen.Gen_protect model.Protect proofs.Protect_proofs.
Import ListNotations.
Open Scope Z_scope.

(* every per-position byte transformation of the regenerated cipher is a permutation of bytes *)
Theorem C15_step_inverse : forall i c, 0 <= i < 143 -> byte_ok c ->
  dec_byte i (enc_byte i c) = c /\ enc_byte i (dec_byte i c) = c.
Proof. intros i c Hi Hc. split; [exact (dec_enc i c Hi Hc) | exact (enc_dec i c Hi Hc)]. Qed.
Print Assumptions C15_step_inverse.

(* the cipher is a length-preserving bijection on byte strings of every length *)
Theorem C15_cipher_bijection : forall l, bytes_ok l ->
  unprotect_all (protect l) = l /\ protect (unprotect_all l) = l
  /\ length (protect l) = length l /\ bytes_ok (protect l).
Proof. exact cipher_bijection. Qed.
Print Assumptions C15_cipher_bijection.

(* what LOAD's decryptor (which drops the trailing EOF byte) returns for what SAVE,P wrote *)
Theorem C15_protected_roundtrip : forall code, bytes_ok code ->
  load_file (save_P code) = Some (true, code).
Proof. exact protected_file_roundtrip. Qed.
Print Assumptions C15_protected_roundtrip.

Theorem C15_tokenised_roundtrip : forall code,
  load_file (save_B code) = Some (false, code ++ [26]).
Proof. exact tokenised_file_roundtrip. Qed.
Print Assumptions C15_tokenised_roundtrip.

Theorem C15_protect_injective : forall l1 l2, bytes_ok l1 -> bytes_ok l2 ->
  protect l1 = protect l2 -> l1 = l2.
Proof. exact protect_injective. Qed.
Print Assumptions C15_protect_injective.

(* non-vacuity: a concrete program body, encrypted to something different, comes back *)
Example C15_nonvacuous :
  let code := [12; 18; 10; 0; 145; 32; 34; 72; 105; 34; 0; 0; 0] in
  bytes_ok code /\ protect code <> code /\ load_file (save_P code) = Some (true, code).
Proof.
  split; [apply bytesb_ok; reflexivity|]. split; [vm_compute; discriminate | vm_compute; reflexivity].
Qed.
