(* C17 - Tokenising and listing are consistent.
   Only statements, `exact`, Print Assumptions and non-vacuity examples here.
   Models: model/Tok.v (Tokeniser.tokenise_line), model/Lister.v (Lister.detokenise_line, with fix D17a),
   model/Lines.v (the class of canonical token lines), tables regenerated in gen/Gen_tokens.v. *)
From Coq Require Import ZArith List Bool.
From PCB Require Import lib.Result lib.PyInt lib.Harness gen.Gen_tokens model.Tok model.Lister model.Lines
  proofs.Tok_tables proofs.Tok_bijection proofs.Tok_words proofs.Lines_tables proofs.Lines_roundtrip.
Import ListNotations.
Open Scope Z_scope.

(* "each keyword maps to one token and back for every dialect": for the (to_keyword, to_token) dictionaries of
   TokenKeywordDict('advanced' | 'pcjr' | 'tandy'): no duplicate keys or values in either, the two look-ups
   are inverse to each other, same size.  Finite check by vm_compute over the regenerated tables. *)
Theorem C17_keyword_bijection :
  Forall (fun p => bijective_tables (fst p) (snd p)) tk_syntaxes.
Proof. exact tables_bijective_all. Qed.
Print Assumptions C17_keyword_bijection.

(* "keywords are recognised case-insensitively": Tokeniser._tokenise_word gives the same bytes and the same
   word on the upper-cased input, for EVERY input and every keyword dictionary (structural induction) *)
Theorem C17_case_insensitive : forall kw l,
  word_loop kw [] O (map upper l) = (let '(o, w, r) := word_loop kw [] O l in (o, w, map upper r)).
Proof. intros kw l. exact (word_loop_upper kw l [] O). Qed.
Print Assumptions C17_case_insensitive.

(* every alphabetic keyword of every dialect, in any capitalisation, followed by the end of the line or by a
   character that cannot continue a name (or at once for FN, USR, SPC(, TAB(), is replaced by its token
   (:ELSE for ELSE, WHILE+ for WHILE) *)
Theorem C17_keyword_recognised : forall p k t k' rest,
  In p tk_syntaxes -> assoc k (snd p) = Some t -> alpha_word k = true ->
  map upper k' = k -> lmem k tok_no_longer_name || next_not_name rest = true ->
  word_loop (snd p) [] O (k' ++ rest) = (emit_keyword k t, k, rest).
Proof. exact keyword_recognised_all. Qed.
Print Assumptions C17_keyword_recognised.

(* The round trip.  For every dialect, every line number n <= 65529 and every body in the inductive class
   Lines (model/Lines.v: CanonLine) the token line lists as line_text n body, and that text tokenises to the
   identical token line.  fl_tok / fl_str are the float conversions (text -> token, token -> text); a float
   literal item must satisfy fl_str trail = Ok txt /\ fl_tok txt = Ok token (item_oracle) - that is C07's
   round trip for exactly representable literals of at most 7 / 16 digits, a hypothesis here (PARTIAL). *)
Definition C17_roundtrip_statement : Prop := forall p fl_tok fl_str n body,
  In p tk_syntaxes -> CanonLine (snd p) fl_tok fl_str n body ->
  detokenise_line (fst p) fl_str (tl (line_toks (snd p) n body)) = Ok (n, line_text n body)
  /\ tokenise_line (snd p) fl_tok (line_text n body) = Ok (line_toks (snd p) n body).
Theorem C17_roundtrip_partial : C17_roundtrip_statement.
Proof. exact roundtrip_all. Qed.
Print Assumptions C17_roundtrip_partial.

(* the class is decidable: the boolean check used by the harness on generated lines implies membership *)
Theorem C17_class_check_sound : forall kw fl_tok fl_str n body,
  canon_lineb kw fl_tok fl_str n body = true -> CanonLine kw fl_tok fl_str n body.
Proof. exact canon_lineb_sound_all. Qed.
Print Assumptions C17_class_check_sound.

(* "line numbers after GOTO/GOSUB/THEN... are stored as jump tokens": after every keyword of
   Tokeniser._linenum_words (except ELSE, which is covered by the class) a number up to 65529 becomes 0E lo hi *)
Theorem C17_jump_numbers_stored : forall p fl_tok k t ln m,
  In p tk_syntaxes ->
  lmem k tok_linenum_words = true -> not_special_word k = true -> assoc k (snd p) = Some t ->
  0 <= ln <= 65529 -> 0 <= m <= 65529 ->
  tokenise_line (snd p) fl_tok (dec_str ln ++ [32] ++ k ++ [32] ++ dec_str m)
  = Ok ([0; 192; 222] ++ le16 ln ++ (if ln =? 0 then [32] else []) ++ t ++ [32] ++ tk_T_UINT ++ le16 m).
Proof. exact jump_number_stored_all. Qed.
Print Assumptions C17_jump_numbers_stored.

(* a keyword directly followed by a type character or punctuation: for every dialect, every alphabetic keyword k
   (other than REM DATA ELSE WHILE), every c in $ % ! # ( ) , ; : and every line number, the line "n Kc" (INPUT$, PRINT#,
   KEY(, NEXT: ...) is in the class: the lister puts no blank between keyword and character, and the line round-trips.
   Pins the lister's no-space-after set for these characters (proof, not only generator). *)
Theorem C17_keyword_then_punct_roundtrip : forall p fl_tok fl_str k t c n,
  In p tk_syntaxes -> assoc k (snd p) = Some t -> alpha_word k = true -> not_special_word k = true ->
  In c close_punct -> 0 <= n <= 65529 ->
  detokenise_line (fst p) fl_str (tl (line_toks (snd p) n [IKw k; IPunct c])) = Ok (n, line_text n [IKw k; IPunct c])
  /\ tokenise_line (snd p) fl_tok (line_text n [IKw k; IPunct c]) = Ok (line_toks (snd p) n [IKw k; IPunct c]).
Proof. exact keyword_punct_roundtrip_all. Qed.
Print Assumptions C17_keyword_then_punct_roundtrip.

(* its hypotheses are satisfiable: INPUT followed by $ in the advanced dialect; the text is "10 INPUT$" *)
Example C17_keyword_then_punct_nonvacuous :
  assoc [73; 78; 80; 85; 84] to_token_advanced = Some [133] /\ alpha_word [73; 78; 80; 85; 84] = true
  /\ not_special_word [73; 78; 80; 85; 84] = true /\ In 36 close_punct
  /\ line_text 10 [IKw [73; 78; 80; 85; 84]; IPunct 36] = [49; 48; 32; 73; 78; 80; 85; 84; 36].
Proof. repeat split; try (vm_compute; reflexivity). unfold close_punct. left. reflexivity. Qed.

(* non-vacuity: 10 IF A=1.5 THEN 100 ELSE NOISE 1:REM x  (tandy; NOISE is a tandy/pcjr keyword) is in the class,
   with the float conversions given by a two-entry table, and its text and tokens are what one expects *)
Example C17_nonvacuous :
  let tt := [([49; 46; 53], [0; 29; 0; 0; 64; 129])] in
  let ts := [([0; 0; 64; 129], [49; 46; 53])] in
  let body := [IKw [73; 70]; ISpace; IName [65]; IOp 61; INum (NFloat 29 [0; 0; 64; 129] [49; 46; 53]); ISpace;
               IKw [84; 72; 69; 78]; ISpace; IJump 100; ISpace; IElse; ISpace; IKw [78; 79; 73; 83; 69]; ISpace;
               INum (NInt 1); IPunct 58; IRem [32; 120]] in
  canon_lineb to_token_tandy (fl_tok_table tt) (fl_str_table ts) 10 body = true
  /\ line_text 10 body
     = [49; 48; 32; 73; 70; 32; 65; 61; 49; 46; 53; 32; 84; 72; 69; 78; 32; 49; 48; 48; 32; 69; 76; 83; 69; 32;
        78; 79; 73; 83; 69; 32; 49; 58; 82; 69; 77; 32; 120]
  /\ line_toks to_token_tandy 10 body
     = [0; 192; 222; 10; 0; 139; 32; 65; 231; 29; 0; 0; 64; 129; 32; 205; 32; 14; 100; 0; 32; 58; 161; 32;
        254; 164; 32; 18; 58; 143; 32; 120]
  /\ In (to_keyword_tandy, to_token_tandy) tk_syntaxes.
Proof.
  cbv zeta. split; [vm_compute; reflexivity|]. split; [vm_compute; reflexivity|]. split; [vm_compute; reflexivity|].
  unfold tk_syntaxes. right. right. left. reflexivity.
Qed.
