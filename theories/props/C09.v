(* C09 - String functions and statements match their reference definitions.
   Model: model/StrFn.v (argument checks in code order, ranges regenerated in gen/Gen_strfn.v).
   Reference definitions: model/StrFnSpec.v (firstn/skipn, first occurrence, lexicographic order, ...).
   Strings are byte lists of ANY length unless a bound is written; numeric arguments are the integer z
   nearest to the BASIC value (C09_rounding), any z : Z.
   Only statements, `exact`, Print Assumptions and non-vacuity examples here. *)
From Coq Require Import ZArith List Bool Lia.
From PCB Require Import lib.Result lib.PyInt gen.Gen_strfn model.StrFn model.StrFnSpec proofs.StrFn_proofs.
Import ListNotations.
Open Scope Z_scope.

(* ---- numeric arguments: a value m / 2^k is rounded to the nearest integer, halves away from zero;
        integers are unchanged; what no Integer can hold is Overflow *)
Theorem C09_rounding : forall m k, 0 <= k ->
  let r := round_half_away m k in
  Z.abs (2 * (r * 2 ^ k) - 2 * m) <= 2 ^ k /\
  (Z.abs (2 * (r * 2 ^ k) - 2 * m) = 2 ^ k -> Z.abs m < Z.abs r * 2 ^ k).
Proof. exact round_half_away_nearest. Qed.
Print Assumptions C09_rounding.

Theorem C09_rounding_int : forall z, round_half_away z 0 = z.
Proof. exact round_half_away_int. Qed.
Print Assumptions C09_rounding_int.

(* ---- LEFT$ RIGHT$: first / last n bytes for 0..255, Illegal function call otherwise, Overflow beyond int16 *)
Theorem C09_left : forall s n, checked n 0 255 (firstn (Z.to_nat n) s) (left_ s n).
Proof. exact left_spec. Qed.
Print Assumptions C09_left.

Theorem C09_right : forall s n, checked n 0 255 (skipn (length s - Z.to_nat n) s) (right_ s n).
Proof. exact right_spec. Qed.
Print Assumptions C09_right.

Theorem C09_right_is_suffix : forall s n, 0 <= n ->
  exists pre, s = pre ++ ref_right s n /\ length (ref_right s n) = Nat.min (Z.to_nat n) (length s).
Proof. exact ref_right_app. Qed.
Print Assumptions C09_right_is_suffix.

(* ---- MID$ function: start 1..255, count 0..255 *)
Theorem C09_mid : forall s st n,
  (1 <= st <= 255 -> 0 <= n <= 255 ->
   mid_ s st (Some n) = Ok (firstn (Z.to_nat n) (skipn (Z.to_nat (st - 1)) s))) /\
  (mid_ s st (Some n) = Err IFC <-> in16 st /\ in16 n /\ ~ (1 <= st <= 255 /\ 0 <= n <= 255)) /\
  (mid_ s st (Some n) = Err OVERFLOW <-> ~ in16 st \/ ~ in16 n).
Proof.
  intros s st n. split; [exact (mid_ok s st n)|]. split; [exact (mid_ifc s st n)|exact (mid_ovf s st n)].
Qed.
Print Assumptions C09_mid.

Theorem C09_mid_rest : forall s st, (length s <= 255)%nat ->
  checked st 1 255 (skipn (Z.to_nat (st - 1)) s) (mid_ s st None).
Proof. exact mid_rest. Qed.
Print Assumptions C09_mid_rest.

(* ---- INSTR: the least position >= start at which small occurs in big, 0 if none *)
Theorem C09_instr : forall st big small k, 1 <= st <= 255 ->
  (instr_ (Some st) big small = Ok k <-> first_occurrence st big small k).
Proof. exact instr_from_iff. Qed.
Print Assumptions C09_instr.

Theorem C09_instr_total : forall st big small, 1 <= st <= 255 ->
  exists k, instr_ (Some st) big small = Ok k /\ first_occurrence st big small k.
Proof. exact instr_from_spec. Qed.
Print Assumptions C09_instr_total.

Theorem C09_instr_errors : forall big small st,
  (instr_ (Some st) big small = Err IFC <-> in16 st /\ ~ 1 <= st <= 255) /\
  (instr_ (Some st) big small = Err OVERFLOW <-> ~ in16 st).
Proof. exact instr_start_checked. Qed.
Print Assumptions C09_instr_errors.

Theorem C09_instr_default : forall big small, instr_ None big small = instr_ (Some 1) big small.
Proof. exact instr_default. Qed.
Print Assumptions C09_instr_default.

(* ---- STRING$ SPACE$ LEN ASC CHR$ *)
Theorem C09_string_num : forall n c,
  (0 <= n <= 255 -> 0 <= c <= 255 -> string_ n (ArgNum c) = Ok (repeat c (Z.to_nat n))) /\
  (string_ n (ArgNum c) = Err IFC <-> in16 n /\ (~ 0 <= n <= 255 \/ (in16 c /\ ~ 0 <= c <= 255))) /\
  (string_ n (ArgNum c) = Err OVERFLOW <-> ~ in16 n \/ (0 <= n <= 255 /\ ~ in16 c)).
Proof.
  intros n c. split; [exact (string_num_ok n c)|]. split; [exact (string_num_ifc n c)|exact (string_num_ovf n c)].
Qed.
Print Assumptions C09_string_num.

Theorem C09_string_str : forall n t,
  checked n 0 255 (first_char_times t (Z.to_nat n)) (string_ n (ArgStr t)).
Proof. exact string_str_spec. Qed.
Print Assumptions C09_string_str.

Theorem C09_space : forall n, checked n 0 255 (repeat 32 (Z.to_nat n)) (space_ n).
Proof. exact space_spec. Qed.
Print Assumptions C09_space.

Theorem C09_len : forall s, len_ s = Ok (Z.of_nat (length s)).
Proof. exact len_spec. Qed.
Print Assumptions C09_len.

Theorem C09_asc : forall s, asc_ s = match s with [] => Err IFC | c :: _ => Ok c end.
Proof. exact asc_spec. Qed.
Print Assumptions C09_asc.

Theorem C09_chr : forall n, checked n 0 255 [n] (chr_ n).
Proof. exact chr_spec. Qed.
Print Assumptions C09_chr.

(* ---- concatenation: String too long exactly when the result would exceed 255 bytes *)
Theorem C09_concat : forall a b,
  ((length a + length b <= 255)%nat -> concat a b = Ok (a ++ b)) /\
  (concat a b = Err STRING_TOO_LONG <-> (255 < length a + length b)%nat).
Proof. intros a b. split; [exact (proj1 (concat_spec a b))|exact (concat_err_iff a b)]. Qed.
Print Assumptions C09_concat.

(* ---- comparison: byte-wise lexicographic, a proper prefix first; a strict total order; = is equality *)
Theorem C09_compare : forall a b,
  (str_gt a b = true <-> lex_lt b a) /\ (str_eq a b = true <-> a = b).
Proof. intros a b. split; [exact (str_gt_lex a b)|exact (str_eq_iff a b)]. Qed.
Print Assumptions C09_compare.

Theorem C09_order :
  (forall a, ~ lex_lt a a) /\
  (forall a b c, lex_lt a b -> lex_lt b c -> lex_lt a c) /\
  (forall a b, lex_lt a b \/ a = b \/ lex_lt b a).
Proof. split; [exact lex_lt_irrefl|]. split; [exact lex_lt_trans|exact lex_trichotomy]. Qed.
Print Assumptions C09_order.

Theorem C09_prefix_first : forall a c, c <> [] -> lex_lt a (a ++ c).
Proof. exact lex_lt_prefix. Qed.
Print Assumptions C09_prefix_first.

Theorem C09_first_difference : forall p x y a b, x < y -> lex_lt (p ++ x :: a) (p ++ y :: b).
Proof. exact lex_lt_first_diff. Qed.
Print Assumptions C09_first_difference.

(* the six BASIC operators = <> > < >= <= (true is -1) *)
Theorem C09_operators : forall a b,
  (op_eq a b = -1 <-> a = b) /\ (op_neq a b = -1 <-> a <> b) /\
  (op_gt a b = -1 <-> lex_lt b a) /\ (op_lt a b = -1 <-> lex_lt a b) /\
  (op_gte a b = -1 <-> lex_lt b a \/ b = a) /\ (op_lte a b = -1 <-> lex_lt a b \/ a = b).
Proof. exact operators_spec. Qed.
Print Assumptions C09_operators.

(* ---- LSET / RSET: cut to the target length, pad with spaces; the target length is unchanged *)
Theorem C09_lset : forall t s,
  lset_stmt t s = Ok (ref_lset (length t) s) /\ length (ref_lset (length t) s) = length t.
Proof. intros t s. split; [exact (lset_spec t s)|exact (ref_lset_length (length t) s)]. Qed.
Print Assumptions C09_lset.

Theorem C09_rset : forall t s,
  rset_stmt t s = Ok (ref_rset (length t) s) /\ length (ref_rset (length t) s) = length t.
Proof. intros t s. split; [exact (rset_spec t s)|exact (ref_rset_length (length t) s)]. Qed.
Print Assumptions C09_rset.

(* ---- MID$ statement, source and target different buffers *)
Theorem C09_midset : forall t st n v, in16 st -> in16 n -> midstmt_valid t st n ->
  mid_stmt t st (Some n) v false = Ok (ref_midset t st n v) /\
  length (ref_midset t st n v) = length t.
Proof.
  intros t st n v I1 I2 V. split.
  - rewrite (mid_stmt_checks t st n v false I1 I2 V). exact (midset_copy t st n v V).
  - exact (ref_midset_length t st n v V).
Qed.
Print Assumptions C09_midset.

Theorem C09_midset_errors : forall t st n v same,
  (mid_stmt t st (Some n) v same = Err IFC <-> in16 st /\ in16 n /\ ~ midstmt_valid t st n) /\
  (mid_stmt t st (Some n) v same = Err OVERFLOW <-> ~ in16 st \/ ~ in16 n).
Proof. intros. split; [apply mid_stmt_ifc|apply mid_stmt_ovf]. Qed.
Print Assumptions C09_midset_errors.

Theorem C09_midset_default : forall t st v same,
  mid_stmt t st None v same = mid_stmt t st (Some 255) v same.
Proof. exact mid_stmt_default. Qed.
Print Assumptions C09_midset_default.

(* ---- MID$ statement, source and target the same buffer (MID$(A$, st, n) = A$): the byte-by-byte
        left-to-right copy; the first st-1 bytes end up repeated periodically over the written part *)
Theorem C09_midset_overlap : forall t st n, in16 st -> in16 n -> midstmt_valid t st n ->
  exists r, mid_stmt t st (Some n) t true = Ok r /\ length r = length t /\
            forall p, nth p r 0 = ref_midset_same_byte t st n p.
Proof.
  intros t st n I1 I2 V. rewrite (mid_stmt_checks t st n t true I1 I2 V). exact (midset_same t st n V).
Qed.
Print Assumptions C09_midset_overlap.

(* ---- a string function result as the source of MID$= / LSET / RSET on the same variable is a VALUE
        (a fresh string): e.g. MID$(A$,2)=LEFT$(A$,255) copies the old contents, it is not the overlap case *)
Theorem C09_midset_compose : forall t st n v, in16 st -> in16 n -> midstmt_valid t st n ->
  mid_stmt_src t st (Some n) (Ok v) = Ok (ref_midset t st n v) /\
  (forall e, mid_stmt_src t st (Some n) (Err e) = Err e).
Proof.
  intros t st n v I1 I2 V. split.
  - rewrite mid_stmt_src_value. rewrite (mid_stmt_checks t st n v false I1 I2 V). exact (midset_copy t st n v V).
  - intros e. exact (mid_stmt_src_err t st n e I1 I2 V).
Qed.
Print Assumptions C09_midset_compose.

Theorem C09_midset_compose_left : forall t st n, in16 st -> in16 n -> midstmt_valid t st n ->
  (length t <= 255)%nat ->
  mid_stmt_src t st (Some n) (left_ t 255) = Ok (ref_midset t st n t).
Proof. exact mid_stmt_src_left. Qed.
Print Assumptions C09_midset_compose_left.

Theorem C09_lset_compose : forall t v,
  lset_src t (Ok v) false = Ok (ref_lset (length t) v) /\ lset_src t (Ok v) true = Ok (ref_rset (length t) v).
Proof. intros t v. split; [exact (lset_spec t v)|exact (rset_spec t v)]. Qed.
Print Assumptions C09_lset_compose.

(* ---- concatenation when memory is short, for ALL free-space readings (before / after the garbage
        collection that the reservation may run): String too long depends on the length only and takes
        precedence over Out of string space; Out of string space exactly when the result is within the limit
        and does not fit even after the collection; with more than 255 bytes free this is C09_concat *)
Theorem C09_concat_memory : forall free_before free_after a b,
  (concat_mem free_before free_after a b = Err STRING_TOO_LONG <-> (255 < length (a ++ b))%nat) /\
  (concat_mem free_before free_after a b = Err OUT_OF_STRING_SPACE <->
     (length (a ++ b) <= 255)%nat /\ free_before <= zlen (a ++ b) /\ free_after <= zlen (a ++ b)) /\
  ((length (a ++ b) <= 255)%nat -> zlen (a ++ b) < free_before \/ zlen (a ++ b) < free_after ->
     concat_mem free_before free_after a b = Ok (a ++ b)) /\
  (255 < free_before -> concat_mem free_before free_after a b = concat a b).
Proof.
  intros f0 f1 a b. split; [exact (store_mem_too_long_iff f0 f1 (a ++ b))|].
  split; [exact (store_mem_oss_iff f0 f1 (a ++ b))|].
  split; [exact (proj2 (proj2 (store_mem_spec f0 f1 (a ++ b))))|exact (store_mem_plenty f0 f1 (a ++ b))].
Qed.
Print Assumptions C09_concat_memory.

(* ---- non-vacuity *)
Example C09_nonvacuous :
  let s := [65; 66; 67; 68; 69; 70] in
  mid_ s 2 (Some 3) = Ok [66; 67; 68] /\ left_ s 256 = Err IFC /\ right_ s 32768 = Err OVERFLOW /\
  first_occurrence 3 [65; 66; 67; 65; 66; 67] [66; 67] 5 /\
  instr_ (Some 3) [65; 66; 67; 65; 66; 67] [66; 67] = Ok 5 /\
  in16 2 /\ in16 255 /\ midstmt_valid s 2 255 /\
  mid_stmt s 2 None s true = Ok [65; 65; 65; 65; 65; 65] /\
  mid_stmt s 3 (Some 2) [120; 121; 122] false = Ok [65; 66; 120; 121; 69; 70] /\
  lex_lt [65] [65; 0] /\ str_gt [128] [127] = true /\
  concat (repeat 1 255) [2] = Err STRING_TOO_LONG /\
  round_half_away 5 1 = 3 /\ round_half_away (-5) 1 = -3 /\ round_half_away (-1) 2 = 0.
Proof.
  cbv zeta. repeat split; try (vm_compute; reflexivity); try (vm_compute; intros; discriminate);
    try (unfold in16; vm_compute; split; intros; discriminate).
  - right. split; [vm_compute; discriminate|]. split.
    + split; [vm_compute; split; discriminate|reflexivity].
    + intros p Hp [_ Ho]. assert (p = 3 \/ p = 4) as [-> | ->] by lia;
        vm_compute in Ho; discriminate.
  - simpl. right. split; [reflexivity|exact I].
Qed.
