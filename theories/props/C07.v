(* C07 - placeholder while the proofs are being built *)
From Coq Require Import ZArith List.
From PCB Require Import lib.PyInt gen.Gen_mbf gen.Gen_dec model.MBF model.Decimal.
Import ListNotations.
Open Scope Z_scope.
Theorem C07_placeholder : dec_single_digits = 7.
Proof. reflexivity. Qed.
Print Assumptions C07_placeholder.
