(* C07 - Decimal conversion is accurate in both directions.
   Only statements, `exact`, Print Assumptions and non-vacuity examples here.

   Objects (model/Decimal.v over gen/Gen_mbf.v + gen/Gen_dec.v, regenerated from numbers.py):
     F : dfmt             Single_fmt | Double_fmt  (is_fmt F)
     f_to_str F b ls ts   Float.to_str(leading_space, type_sign) on the buffer b
     from_repr hard w a   Values.from_repr(w, allow_nonnum=a); hard = the float error handler raises
     f_sval C b           the exact value of b times 2^bias (an integer); value_scaled v = value * 2^184
   Clauses 1 (integers exact), 2 (digit count) and 3 (type choice) are proved in full.  Clause 4: the
   READING bound is proved (C07_parse_err: every literal whose digit string fits the mantissa, every negative
   exponent, positive exponents up to 62); of the PRINTING bound the steps, the loop lengths and the
   accumulated error of the dividing loop are proved, the full statement is the Definition
   C07_print_err_statement. *)
From Coq Require Import ZArith List Bool.
From PCB Require Import lib.Result lib.PyInt lib.Harness lib.MBFPrims gen.Gen_mbf gen.Gen_dec model.MBF
  model.Decimal proofs.MBF_base proofs.Decimal_den proofs.Decimal_todec proofs.Decimal_print
  proofs.Decimal_parse proofs.Decimal_back proofs.Decimal_list proofs.Decimal_accum proofs.Decimal_proofs.
Import ListNotations.
Open Scope Z_scope.

(* ================================================================================================ *)
(* CLAUSE 1 - integers within the exact range are shown exactly, and read back exactly              *)

(* every integer-valued single / double n with |n| < 10^7 / 10^16 prints as: minus sign or (optional)
   blank, the decimal digits of |n|, the (optional) type sigil - nothing else *)
Theorem C07_print_int_exact : forall F b n ls ts, is_fmt F -> buf_ok (d_C F) b ->
  f_sval (d_C F) b = n * 2 ^ c_bias (d_C F) -> n <> 0 -> Z.abs n < 10 ^ c_digits (d_C F) ->
  f_to_str F b ls ts = Ok (sign_str (n <? 0) ls ++ dec_str (Z.abs n) ++ (if ts then d_sigil F else [])).
Proof. exact to_str_int. Qed.
Print Assumptions C07_print_int_exact.

(* the text  [blank | -] digits of |n|  reads back as a value equal to n (an Integer when it is a digit
   string of at most 32767, else a Single up to seven digits, else a Double), for every |n| < 10^16 *)
Theorem C07_read_back_int : forall hard allow n ls, Z.abs n < 10 ^ 16 ->
  exists v, from_repr hard (sign_str (n <? 0) ls ++ dec_str (Z.abs n)) allow = Ok v /\
            value_scaled v = n * 2 ^ 184.
Proof. exact read_back_int. Qed.
Print Assumptions C07_read_back_int.

(* PRINT / STR$ followed by VAL / INPUT: the round trip of an integer-valued float is the identity on values *)
Theorem C07_int_roundtrip : forall F b n hard allow, is_fmt F -> buf_ok (d_C F) b ->
  f_sval (d_C F) b = n * 2 ^ c_bias (d_C F) -> n <> 0 -> Z.abs n < 10 ^ c_digits (d_C F) ->
  exists s v, f_to_str F b true false = Ok s /\ from_repr hard s allow = Ok v /\
              value_scaled v = n * 2 ^ 184.
Proof.
  intros F b n hard allow HF Hb Hv Hn0 Hn.
  assert (H16 : Z.abs n < 10 ^ 16).
  { destruct HF as [->| ->]; [change (c_digits (d_C Single_fmt)) with 7 in Hn | exact Hn].
    eapply Z.lt_trans; [exact Hn | reflexivity]. }
  destruct (read_back_int hard allow n true H16) as (v & Hr & Hval).
  exists (sign_str (n <? 0) true ++ dec_str (Z.abs n)), v.
  split; [|split; assumption]. rewrite (to_str_int F b n true false HF Hb Hv Hn0 Hn), app_nil_r. reflexivity.
Qed.
Print Assumptions C07_int_roundtrip.

(* LIST: every integer constant token of a stored program - the one-byte constants 11h..1Bh (0..10), 0F nn,
   1C nnnn, whatever wrote the token stream - is listed (Lister._detokenise_number, model list_number) as
   exactly [-] + the decimal digits of the integer the running program uses (token_int), and that text
   re-enters as the same value *)
Theorem C07_list_int_const : forall lead trail n hard allow, bytes_ok trail -> zlen trail <= 2 ->
  token_int lead trail = Some n ->
  exists s v, list_number lead trail = Ok s /\ s = sign_str (n <? 0) false ++ dec_str (Z.abs n) /\
              from_repr hard s allow = Ok v /\ value_scaled v = n * 2 ^ 184.
Proof. exact list_int_const_roundtrip. Qed.
Print Assumptions C07_list_int_const.

Theorem C07_list_one_byte_constants : forall k, 0 <= k <= 10 -> list_number (17 + k) [] = Ok (dec_str k).
Proof. exact list_one_byte_constants. Qed.
Print Assumptions C07_list_one_byte_constants.

(* ================================================================================================ *)
(* CLAUSE 2 - at most 7 / 16 significant digits                                                     *)

(* every single / double buffer prints (no error, no exhausted loop), and the printed text shows at most
   `digits` significant digits (digit characters before the exponent letter, without leading zeros) *)
Theorem C07_digit_count : forall F b ls ts, is_fmt F -> buf_ok (d_C F) b ->
  exists s, f_to_str F b ls ts = Ok s /\ printed_sig_digits s <= c_digits (d_C F).
Proof. exact to_str_digits. Qed.
Print Assumptions C07_digit_count.

Theorem C07_digits_are_7_and_16 : c_digits (d_C Single_fmt) = 7 /\ c_digits (d_C Double_fmt) = 16.
Proof. split; reflexivity. Qed.

(* ================================================================================================ *)
(* CLAUSE 3 - the type follows sigil, exponent letter and digit count                               *)

(* the character loop of str_to_decimal computes, for EVERY list of characters, the declarative reading
   of the text without its blanks (Decimal.v: lit_mant, lit_ending, sig_digits, doc_is_double ...): mantissa digits,
   decimal exponent, and the documented rule  ! -> single, # -> double, D -> double, otherwise double
   exactly when more than 7 significant digits; ValueError exactly when allow_nonnum is off and a
   character that is not part of the number stops the scan *)
Theorem C07_parser_reading : forall w allow,
  let t := nonblank w in
  match str_to_decimal w allow with
  | Ok (dbl, m, e) => (allow = true \/ has_nonnum t = false)
                      /\ dbl = doc_is_double t /\ m = doc_mantissa t /\ e = doc_exp10 t
  | Host x => x = host_ValueError /\ allow = false /\ has_nonnum t = true
  | _ => False
  end.
Proof. exact str_to_decimal_spec. Qed.
Print Assumptions C07_parser_reading.

(* the type of from_repr's result on every word that is not a &H / &O literal: Integer for a digit string
   of at most 32767, otherwise Double / Single by the documented rule *)
Theorem C07_type_choice : forall hard word allow v,
  (forall r, stripped word <> 38 :: r) ->
  from_repr hard word allow = Ok v -> v_tag v = doc_type word.
Proof. exact from_repr_type. Qed.
Print Assumptions C07_type_choice.

(* ================================================================================================ *)
(* CLAUSE 4 - error bounds: proved parts                                                            *)

(* one _div10_den step: normalised result, exponent -3 or -4, value below the exact tenth by at most two
   units of the last of its 8 guard bits (5 m' 2^e' < 8 m 2^(e-4) <= (5 m' + 10) 2^e') *)
Theorem C07_div10_step_partial : forall F e m neg, is_fmt F -> den_norm (d_C F) m ->
  exists e' m', mbf_div10_den (d_C F) (e, m, neg) = Ok (e', m', neg) /\ den_norm (d_C F) m' /\
    ((e' = e - 3 /\ 5 * m' < 4 * m <= 5 * m' + 5) \/ (e' = e - 4 /\ 5 * m' < 8 * m <= 5 * m' + 10)).
Proof. exact div10_step. Qed.
Print Assumptions C07_div10_step_partial.

(* one _mul10_den step: normalised result, exponent +3 or +4, within one unit of the last guard bit *)
Theorem C07_mul10_step_partial : forall F e m neg, is_fmt F -> 0 <= e -> den_norm (d_C F) m ->
  exists e' m', mbf_mul10_den (d_C F) (e, m, neg) = (e', m', neg) /\ den_norm (d_C F) m' /\
    ((e' = e + 3 /\ -4 < 4 * m' - 5 * m < 4) \/ (e' = e + 4 /\ -8 < 8 * m' - 5 * m < 8)).
Proof. exact mul10_step. Qed.
Print Assumptions C07_mul10_step_partial.

(* _apply_carry_den: rounds the guard byte to nearest (half up): half a unit of the last mantissa bit *)
Theorem C07_carry_step_partial : forall F e m neg, is_fmt F -> den_norm (d_C F) m ->
  exists e' m', mbf_apply_carry_den (d_C F) (e, m, neg) = (e', m', neg) /\ den_norm (d_C F) m' /\ m' mod 256 = 0 /\
    ((e' = e /\ m' = 256 * ((m + 128) / 256)) \/ (e' = e + 1 /\ m' = 256 * hb (d_C F) /\ 512 * hb (d_C F) - 128 <= m)).
Proof. exact carry_step. Qed.
Print Assumptions C07_carry_step_partial.

(* the number of loop passes of to_decimal is bounded by the exponent range: the decimal exponent of the
   `digits`-digit mantissa lies in -60 .. 36 (so at most 36 divisions or 60 multiplications), and the
   mantissa has at most `digits` digits; from_decimal's loops run |exp10| times by construction *)
Theorem C07_loop_length_partial : forall F b, is_fmt F -> buf_ok (d_C F) b -> f_zero b = false ->
  exists num e10, f_decimal (d_C F) b = Ok (num, e10) /\ Z.abs num < 10 ^ c_digits (d_C F) /\ -60 <= e10 <= 36.
Proof. exact decimal_exp_range. Qed.
Print Assumptions C07_loop_length_partial.

(* from_decimal is exact when no scaling is needed and the integer fits the mantissa *)
Theorem C07_from_decimal_exact_partial : forall C n, fmt_ok C -> n <> 0 -> Z.abs n < 2 ^ mbits C ->
  exists b, mbf_from_decimal C (zeros (c_size C)) n 0 = Ok b /\ buf_ok C b /\ f_sval C b = n * 2 ^ c_bias C.
Proof. exact from_decimal_int. Qed.
Print Assumptions C07_from_decimal_exact_partial.

(* PRINTING, accumulated over the dividing loop of to_decimal (the first of its two loops): when the loop
   stops after j <= 62 passes the scaled den (e1, m1) is not above the upper limit and is below the exact
   value / 10^j by less than 128 units of its last guard bit = half a unit of the last mantissa bit *)
Theorem C07_print_div_loop_err_partial : forall F b, is_fmt F -> buf_ok (d_C F) b -> f_zero b = false ->
  let C := d_C F in
  exists e1 m1 j,
    mbf_to_decimal_core_loop_103 1000 C b (c_lim_bot C) (c_lim_top C) (mbf_denormalise C (c_lim_top C))
      (mbf_denormalise C (c_lim_bot C)) (mbf_denormalise C b) 0 = Ok ((e1, m1, f_neg C b), j) /\
    mbf_abs_gt_den C (e1, m1, f_neg C b) (mbf_denormalise C (c_lim_top C)) = false /\
    den_norm C m1 /\ 0 <= j <= 62 /\
    10 ^ j * m1 <= 256 * f_man C b * 2 ^ (f_exp b - e1) < 10 ^ j * m1 + 128 * 10 ^ j.
Proof. exact to_decimal_div_loop_err. Qed.
Print Assumptions C07_print_div_loop_err_partial.

(* --- the full statement of the printing half of clause 4 (OPEN: not proved; checked by the exact-rational
       oracle of harness/C07.py on every run).  Missing: the composition of the loop bound above with the
       two carry roundings, the multiplying loop and the final integer rounding, incl. the corner where the
       value is multiplied back once after the dividing loop. *)

(* the printed value differs from the stored value by less than one unit of the last digit shown
   (printed value = pd_int s * 10^pd_exp10 s; everything scaled by 2^bias) *)
Definition C07_print_err_statement : Prop :=
  forall F b ls ts s, is_fmt F -> buf_ok (d_C F) b -> f_to_str F b ls ts = Ok s ->
    let X := f_sval (d_C F) b in
    let B := 2 ^ c_bias (d_C F) in
    let k := pd_exp10 s in
    if 0 <=? k then Z.abs (pd_int s * 10 ^ k * B - X) < 10 ^ k * B
    else Z.abs (pd_int s * B - X * 10 ^ (- k)) < B.

(* READING (proved): a literal whose digit string fits the mantissa of its type (every literal of up to 7 / 16
   digits) is stored with an error of less than one unit in the last binary place of the stored number.
   Decimal value = doc_mantissa * 10^doc_exp10 (C07_parser_reading); Y = stored value * 2^bias;
   U = 2^(exponent byte) = one unit in the last place * 2^bias.  Any negative exponent (results that
   underflow to zero are excluded by f_zero b = false); positive exponents up to 62 (10^63 overflows).
   `from_repr true`: the error handler raises Overflow (the soft handler returns the largest number instead). *)
Theorem C07_parse_err : forall word allow F b,
  let t := nonblank (stripped word) in
  (forall r, stripped word <> 38 :: r) -> is_fmt F ->
  from_repr true word allow = Ok (d_mk F b) -> f_zero b = false ->
  Z.abs (doc_mantissa t) < 2 ^ mbits (d_C F) -> doc_exp10 t <= 62 ->
  let Y := f_sval (d_C F) b in
  let B := 2 ^ c_bias (d_C F) in
  let U := 2 ^ f_exp b in
  let k := doc_exp10 t in
  buf_ok (d_C F) b /\
  (if 0 <=? k then Z.abs (Y - doc_mantissa t * 10 ^ k * B) < U
   else Z.abs (Y * 10 ^ (- k) - doc_mantissa t * B) < U * 10 ^ (- k)).
Proof. exact parse_err. Qed.
Print Assumptions C07_parse_err.

(* the same at the level of Float.from_decimal, with the constants of the accumulation: after k divisions the
   computed den is below the exact value by less than 128 units of its last guard bit (k <= 62), etc. *)
Theorem C07_from_decimal_div_err : forall F mant (k : nat) b, is_fmt F -> mant <> 0 -> Z.abs mant < 2 ^ mbits (d_C F) ->
  mbf_from_decimal (d_C F) (zeros (c_size (d_C F))) mant (- Z.of_nat k) = Ok b -> f_zero b = false ->
  buf_ok (d_C F) b /\
  Z.abs (f_sval (d_C F) b * 10 ^ Z.of_nat k - mant * 2 ^ c_bias (d_C F)) < 2 ^ f_exp b * 10 ^ Z.of_nat k.
Proof. intros F mant k b HF. destruct (fmt_ten F HF) as [HC Hten]. exact (from_decimal_div_err (d_C F) HC Hten mant k b). Qed.
Print Assumptions C07_from_decimal_div_err.

Theorem C07_from_decimal_mul_err : forall F mant (k : nat) b, is_fmt F -> mant <> 0 -> Z.abs mant < 2 ^ mbits (d_C F) ->
  Z.of_nat k <= 62 -> mbf_from_decimal (d_C F) (zeros (c_size (d_C F))) mant (Z.of_nat k) = Ok b ->
  buf_ok (d_C F) b /\ f_zero b = false /\
  Z.abs (f_sval (d_C F) b - mant * 10 ^ Z.of_nat k * 2 ^ c_bias (d_C F)) < 2 ^ f_exp b.
Proof. intros F mant k b HF. destruct (fmt_ten F HF) as [HC _]. exact (from_decimal_mul_err (d_C F) HC mant k b). Qed.
Print Assumptions C07_from_decimal_mul_err.

(* the hypothesis |mantissa| < 2^mbits of C07_parse_err is needed (known finding K07a): the
   19-digit literal 974824.3516702999802 is stored more than two units of the last place off *)
Theorem C07_parse_long_literal_refuted :
  let w := [57; 55; 52; 56; 50; 52; 46; 51; 53; 49; 54; 55; 48; 50; 57; 57; 57; 56; 48; 50] in
  exists b, from_repr true w true = Ok (VDbl b) /\ f_zero b = false /\
    doc_mantissa (nonblank (stripped w)) = 9748243516702999802 /\ doc_exp10 (nonblank (stripped w)) = -13 /\
    2 * (2 ^ f_exp b * 10 ^ 13) < Z.abs (f_sval Double_consts b * 10 ^ 13 - 9748243516702999802 * 2 ^ 184).
Proof.
  eexists. split; [vm_compute; reflexivity|]. split; [reflexivity|]. split; [vm_compute; reflexivity|].
  split; [vm_compute; reflexivity|]. vm_compute. reflexivity.
Qed.
Print Assumptions C07_parse_long_literal_refuted.

(* ================================================================================================ *)
(* non-vacuity                                                                                      *)

(* 1234567 as a single (bytes 38 b4 16 95) prints as " 1234567" and reads back as that single;
   the double 9999999999999999.75 (the witness of defect D07a) prints with 1 significant digit as 1D+16;
   12345678 is read as a double, 1234567 and 1E5 as singles, 1D5 and 1# as doubles, 12 as an integer *)
Example C07_nonvacuous :
  is_fmt Single_fmt /\ buf_ok Single_consts [56; 180; 22; 149] /\
  f_sval Single_consts [56; 180; 22; 149] = 1234567 * 2 ^ 152 /\
  f_to_str Single_fmt [56; 180; 22; 149] true false = Ok [32; 49; 50; 51; 52; 53; 54; 55] /\
  from_repr true [32; 49; 50; 51; 52; 53; 54; 55] true = Ok (VSng [56; 180; 22; 149]) /\
  f_to_str Double_fmt [255; 255; 3; 191; 201; 27; 14; 182] true false = Ok [32; 49; 68; 43; 49; 54] /\
  printed_sig_digits [32; 49; 68; 43; 49; 54] = 1 /\
  map doc_type [[49; 50; 51; 52; 53; 54; 55; 56]; [49; 50; 51; 52; 53; 54; 55]; [49; 69; 53]; [49; 68; 53]; [49; 35]; [49; 50]]
    = [8; 4; 4; 8; 8; 2].
Proof.
  split; [left; reflexivity|]. split; [split; [reflexivity | apply bytesb_ok; reflexivity]|].
  repeat split; vm_compute; reflexivity.
Qed.

(* the error statements are satisfiable and hold on examples (0.1 as a single prints as .1; 1E-5 read back) *)
Example C07_err_examples :
  (let s := [32; 46; 49] in
   f_to_str Single_fmt [205; 204; 76; 125] true false = Ok s /\ pd_int s = 1 /\ pd_exp10 s = -1 /\
   Z.abs (pd_int s * 2 ^ 152 - f_sval Single_consts [205; 204; 76; 125] * 10 ^ 1) < 2 ^ 152) /\
  (exists b, from_repr true [49; 69; 45; 53] true = Ok (VSng b) /\
     Z.abs (f_sval Single_consts b * 10 ^ 5 - 1 * 2 ^ 152) < 2 ^ f_exp b * 10 ^ 5).
Proof.
  split.
  - cbv zeta. repeat split; vm_compute; reflexivity.
  - eexists. split; [vm_compute; reflexivity|]. vm_compute. reflexivity.
Qed.
