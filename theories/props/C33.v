(* C33 - DRAW moves the pen exactly as its commands specify.
   Only statements, `exact`, Print Assumptions and non-vacuity examples here.

   Vocabulary (model/Draw.v):
     draw g cmds          the DRAW statement on the Graphics state g (draw_ + _draw + _draw_step)
     draw_string          the same from the bytes of the string (draw o parse; parse = MLParser reader)
     plan cmds fl ps      the position-free pass: the moves the commands stand for (prefixes, scale,
                          colour, X nesting resolved), where the statement stops, final scale/colour
     pen_after p ms       walk the moves from p;  segs_of p ms  the lines of the moves that draw
   Angles: A n and TA 0/90/180/270/360 are followed exactly (`turned`); a move under any other TA angle ends
   with status Excluded (sin/cos in floating point: the "angle turning" the property excludes).
   The pen theorems are for strings without P (`paint_free`); P has its own theorem C33_paint. *)
From Coq Require Import ZArith List Bool.
From PCB Require Import lib.PyInt gen.Gen_draw model.Draw proofs.Draw_proofs proofs.Draw_parse_proofs.
Import ListNotations.
Open Scope Z_scope.

(* ---- final pen position -------------------------------------------------------------------------- *)

(* for every command list without P, from every state in a graphics mode (any angle): the statement ends
   (normally, with the error, or - status Excluded - at a move under a TA angle that is not a multiple of
   90) where the plan says, the pen is where walking the planned moves from the start position leads,
   scale, colour and angle persist *)
Theorem C33_final_pos : forall g cmds,
  g_text g = false -> paint_free cmds = true ->
  let r := draw g cmds in
  let pl := plan cmds fresh (pst_of_g g) in
  dr_status r = pl_status pl
  /\ current (dr_state r) = pen_after (current g) (pl_moves pl)
  /\ dr_reqs r = map RLine (segs_of (current g) (pl_moves pl))
  /\ g_scale (dr_state r) = p_scale (pl_pst pl) /\ g_attr (dr_state r) = p_attr (pl_pst pl)
  /\ g_angle (dr_state r) = p_angle (pl_pst pl).
Proof. exact draw_plan. Qed.
Print Assumptions C33_final_pos.

(* what the planned moves are: U D L R E F G H n and relative M contribute (scale * d) quot 4 per
   coordinate (truncation toward zero), turned by the angle in force; absolute M its target (not turned, not
   scaled); B clears `plot`, N sets `back`, both are used up by the next move; S, C, A, TA change scale /
   colour / angle for what follows (C n selects n brought into the attribute range of the mode, as the other
   graphics statements do); X runs the substring with prefixes of its own *)
Theorem C33_move_offsets : forall l fl ps,
  (forall d n o, in_range (-99999, 99999) n = true ->
     turned (p_angle ps) (p_aspect ps)
            (Z.quot (p_scale ps * (n * fst (unit d))) 4, Z.quot (p_scale ps * (n * snd (unit d))) 4) = Some o ->
     plan (Move d n :: l) fl ps =
     (pl_pst (plan l fresh ps),
      mkmove false o (fst fl) (snd fl) (p_attr ps) :: pl_moves (plan l fresh ps),
      pl_status (plan l fresh ps)))
  /\ (forall x y o, in_range (-9999, 9999) x && in_range (-9999, 9999) y = true ->
     turned (p_angle ps) (p_aspect ps) (Z.quot (p_scale ps * x) 4, Z.quot (p_scale ps * y) 4) = Some o ->
     plan (MRel x y :: l) fl ps =
     (pl_pst (plan l fresh ps),
      mkmove false o (fst fl) (snd fl) (p_attr ps) :: pl_moves (plan l fresh ps),
      pl_status (plan l fresh ps)))
  /\ (forall x y, in_range (-9999, 9999) x && in_range (-9999, 9999) y = true ->
     plan (MAbs x y :: l) fl ps =
     (pl_pst (plan l fresh ps),
      mkmove true (x, y) (fst fl) (snd fl) (p_attr ps) :: pl_moves (plan l fresh ps),
      pl_status (plan l fresh ps)))
  /\ plan (PreB :: l) fl ps = plan l (false, snd fl) ps
  /\ plan (PreN :: l) fl ps = plan l (fst fl, true) ps
  /\ (forall n, in_range (1, 255) n = true -> plan (SetScale n :: l) fl ps = plan l fl (set_p_scale ps n))
  /\ (forall n, in_range (-99999, 99999) n = true ->
        plan (SetColour n :: l) fl ps = plan l fl (set_p_attr ps (clamp_attr (p_nattr ps) n)))
  /\ (forall n, in_range (0, 3) n = true -> plan (SetAngle n :: l) fl ps = plan l fl (set_p_angle ps (90 * n)))
  /\ (forall n, in_range (-360, 360) n = true -> plan (TurnAngle n :: l) fl ps = plan l fl (set_p_angle ps n))
  /\ (forall name body, pl_status (plan body fresh ps) = Done ->
        plan (Sub name body :: l) fl ps =
        (pl_pst (plan l fl (pl_pst (plan body fresh ps))),
         pl_moves (plan body fresh ps) ++ pl_moves (plan l fl (pl_pst (plan body fresh ps))),
         pl_status (plan l fl (pl_pst (plan body fresh ps))))).
Proof.
  intros l fl ps.
  split; [intros d n o H Ht; exact (plan_move d n l fl ps o H Ht)|].
  split; [intros x y o H Ht; exact (plan_mrel x y l fl ps o H Ht)|].
  split; [intros x y H; exact (plan_mabs x y l fl ps H)|].
  split; [exact (plan_prefix_B l fl ps)|].
  split; [exact (plan_prefix_N l fl ps)|].
  split; [intros n H; exact (plan_scale n l fl ps H)|].
  split; [intros n H; exact (plan_colour n l fl ps H)|].
  split; [intros n H; exact (plan_angle n l fl ps H)|].
  split; [intros n H; exact (plan_turn n l fl ps H)|].
  intros name body H; exact (plan_sub name body l fl ps H).
Qed.
Print Assumptions C33_move_offsets.

(* the turns.  What the code computes for the quarter turns is not a plain integer rotation: it swaps the
   coordinates and scales by the pixel aspect ratio yfac = float(aspect[1])/float(aspect[0]) (1.2 in SCREEN
   1 and 7, 2.4 in SCREEN 2 and 8, 48/35 in SCREEN 9, as doubles): x' = int(y*yfac) (correctly rounded
   double product, truncated), y' = -int(x//yfac) (exact floor of the quotient by the double).  `mul_trunc`,
   `floor_div`, `yfac` are these double operations on integers (model/Draw.v section 0, tied to the host's
   doubles by correspondence).  Every angle A can set is a right angle; TA values that are not are outside
   (`turned` = None, status Excluded): they go through sin/cos *)
Theorem C33_turns : forall asp v,
  turned 0 asp v = Some v /\ turned 360 asp v = Some v
  /\ turned 90 asp v = Some (mul_trunc (snd v) (yfac asp), - floor_div (fst v) (yfac asp))
  /\ turned 180 asp v = Some (- fst v, - snd v)
  /\ turned 270 asp v = Some (- mul_trunc (snd v) (yfac asp), floor_div (fst v) (yfac asp))
  /\ (forall a, right_angle a = true -> turned a asp v <> None)
  /\ (forall n, in_range (0, 3) n = true -> right_angle (90 * n) = true).
Proof.
  intros asp v. destruct (turned_cases asp v) as (H0 & H1 & H2 & H3 & H4).
  repeat split; try assumption; [intros a H; exact (turned_right a asp v H) | exact set_angle_right].
Qed.
Print Assumptions C33_turns.

(* walking the moves = start + sum of the offsets, with the B/N/absolute-M rules:
   - no absolute move that stays: start + sum of the offsets of the moves not undone by N;
   - an absolute move that stays sets the position: its target + the sum of what follows;
   - a move with N does not change the position at all *)
Theorem C33_sum_of_offsets :
  (forall ms p, no_abs ms = true -> pen_after p ms = padd p (vsum (rel_offsets ms)))
  /\ (forall ms1 m ms2 p, m_abs m = true -> m_back m = false -> no_abs ms2 = true ->
        pen_after p (ms1 ++ m :: ms2) = padd (m_vec m) (vsum (rel_offsets ms2)))
  /\ (forall ms1 m ms2 p, m_back m = true -> pen_after p (ms1 ++ m :: ms2) = pen_after p (ms1 ++ ms2)).
Proof.
  split; [intros ms p H; exact (pen_after_sum ms p H)|].
  split; [intros ms1 m ms2 p H1 H2 H3; exact (pen_after_abs ms1 m ms2 p H1 H2 H3)|].
  intros ms1 m ms2 p H; exact (pen_after_back ms1 m ms2 p H).
Qed.
Print Assumptions C33_sum_of_offsets.

(* ---- segments ------------------------------------------------------------------------------------ *)

(* the requests to Graphics._draw_line (the function LINE draws with) are exactly the lines from the pen
   position before a move to the target of the move, for the moves that draw (no B), in order, with the
   colour in force; the position before move i is the pen after the first i moves *)
Theorem C33_segments : forall g cmds,
  g_text g = false -> paint_free cmds = true ->
  let ms := pl_moves (plan cmds fresh (pst_of_g g)) in
  dr_reqs (draw g cmds) =
    map (fun qm => RLine (mkseg (fst qm) (target (fst qm) (snd qm)) (m_attr (snd qm))))
        (filter (fun qm => m_plot (snd qm)) (combine (positions (current g) ms) ms))
  /\ length (positions (current g) ms) = length ms
  /\ forall i, (i < length ms)%nat ->
       nth i (positions (current g) ms) (0, 0) = pen_after (current g) (firstn i ms).
Proof.
  intros g cmds Ht Haf ms.
  split; [|split; [exact (positions_length (current g) ms) | exact (positions_nth ms (current g))]].
  destruct (draw_plan g cmds Ht Haf) as (_ & _ & Hs & _). fold ms in Hs. rewrite Hs.
  rewrite (segs_of_positions ms (current g)), map_map. reflexivity.
Qed.
Print Assumptions C33_segments.

(* the colour of every requested line and both colours of every requested fill are attributes of the mode (so
   no pixel write is out of range) and so is the colour left for later statements, whatever numbers C and P
   were given *)
Theorem C33_colours : forall g cmds,
  0 <= g_attr g < g_nattr g ->
  0 <= g_attr (dr_state (draw g cmds)) < g_nattr g
  /\ g_nattr (dr_state (draw g cmds)) = g_nattr g
  /\ Forall (req_attr_ok (g_nattr g)) (dr_reqs (draw g cmds)).
Proof. exact draw_attr. Qed.
Print Assumptions C33_colours.

Theorem C33_colour_clamp : forall na n,
  (1 <= na -> 0 <= clamp_attr na n < na) /\ (0 <= n < na -> clamp_attr na n = n)
  /\ (1 <= na -> n < 0 -> clamp_attr na n = 0) /\ (1 <= na -> na <= n -> clamp_attr na n = na - 1).
Proof.
  intros na n. split; [exact (clamp_attr_range na n)|]. split; [exact (clamp_attr_id na n)|].
  unfold clamp_attr. split; intros; apply Z.min_case_strong; apply Z.max_case_strong; intros;
    auto with zarith.
Qed.
Print Assumptions C33_colour_clamp.

(* ---- POINT(0), POINT(1), last point -------------------------------------------------------------- *)

(* after any DRAW in a graphics mode POINT(0) / POINT(1) are the pen coordinates (the code reads
   _draw_current, which DRAW always leaves set; the value is wrapped in a Single, exact up to 2^24);
   the last point used by the other graphics statements follows the pen when the statement ends normally
   and no WINDOW is active - with a WINDOW the code deliberately leaves it alone *)
Theorem C33_point_fn : forall g cmds,
  g_text g = false ->
  let g' := dr_state (draw g cmds) in
  point_fn g' 0 = fst (current g') /\ point_fn g' 1 = snd (current g')
  /\ g_cur g' = Some (current g')
  /\ g_window g' = g_window g
  /\ (g_window g = true -> g_last g' = g_last g)
  /\ (g_window g = false -> dr_status (draw g cmds) = Done -> g_last g' = current g').
Proof. exact draw_point_fn. Qed.
Print Assumptions C33_point_fn.

(* ---- histories ------------------------------------------------------------------------------------ *)

(* any sequence of DRAW statements (without P), with WINDOW switched on or off anywhere in between: the pen
   after the whole history is the walk, from where the pen was at the beginning, of the moves of all the
   statements one after the other - each statement continues where the previous one stopped, also when that
   one stopped with an error, and WINDOW on/off does not move the DRAW pointer; every statement starts with
   fresh B/N prefixes from the scale, angle and colour the previous one left *)
Theorem C33_history : forall ss g,
  g_text g = false -> forallb stmt_paint_free ss = true ->
  current (history g ss) = pen_after (current g) (snd (hist_plan (pst_of_g g) ss))
  /\ pst_of_g (history g ss) = fst (hist_plan (pst_of_g g) ss)
  /\ g_text (history g ss) = false.
Proof. exact history_plan. Qed.
Print Assumptions C33_history.

(* ---- the reader ---------------------------------------------------------------------------------- *)

(* DRAW of the text of any well-formed concrete syntax (any blanks before letters, numbers, commas and
   semicolons, upper/lower case, + signs, leading zeros, blanks inside digit strings, counts left out,
   "C;", numbers given as =variable; and X substrings) is DRAW of the commands it stands for *)
Theorem C33_parse : forall depth e g cs,
  Forall (ccmd_ok (sub_of depth e) e) cs ->
  parse depth e (print cs) = abstract e cs
  /\ draw_string depth e g (print cs) = draw g (abstract e cs).
Proof.
  intros depth e g cs H. pose proof (parse_print depth e cs H) as Hp.
  split; [exact Hp|]. unfold draw_string. rewrite Hp. reflexivity.
Qed.
Print Assumptions C33_parse.

(* every command list without X / malformed nodes has a text (decimal literals) that reads back as it *)
Theorem C33_parse_canonical : forall depth e l cs,
  canon_all l = Some cs -> forallb m_in_range l = true -> parse depth e (print cs) = l.
Proof. exact parse_canon. Qed.
Print Assumptions C33_parse_canonical.

(* ---- range errors -------------------------------------------------------------------------------- *)

(* a count outside +-99999, an M coordinate outside +-9999, a scale outside 1..255, a colour outside
   +-99999: Illegal function call (5), nothing moved, nothing drawn, prefixes kept *)
Theorem C33_range_errors : forall fl st,
  (forall d n, in_range (-99999, 99999) n = false -> exec (Move d n) fl st = (fl, st, [], Raised 5))
  /\ (forall x y, in_range (-9999, 9999) x && in_range (-9999, 9999) y = false ->
        exec (MRel x y) fl st = (fl, st, [], Raised 5) /\ exec (MAbs x y) fl st = (fl, st, [], Raised 5))
  /\ (forall n, in_range (1, 255) n = false -> exec (SetScale n) fl st = (fl, st, [], Raised 5))
  /\ (forall n, in_range (-99999, 99999) n = false -> exec (SetColour n) fl st = (fl, st, [], Raised 5))
  /\ (forall n, in_range (0, 3) n = false -> exec (SetAngle n) fl st = (fl, st, [], Raised 5))
  /\ (forall n, in_range (-360, 360) n = false -> exec (TurnAngle n) fl st = (fl, st, [], Raised 5)).
Proof. exact range_errors. Qed.
Print Assumptions C33_range_errors.

(* ---- P ------------------------------------------------------------------------------------------- *)

(* P fill,border with both numbers in 0..9999, no WINDOW, the pen within 16 bits: exactly one flood-fill
   request, seeded at the pen, with both numbers brought into the attributes of the mode; pen, prefixes,
   scale and angle are untouched.  What the fill finds there (an input of the model: 0 seed outside the
   viewport, 1 seed on the border colour, otherwise it fills) decides whether the last point becomes the
   pen and whether the fill colour becomes the current colour.  Numbers out of range: Illegal function
   call; pen beyond 16 bits: Overflow.  (With a WINDOW the seed goes through floats: outside the model.) *)
Theorem C33_paint : forall st fl f b,
  (forall o os, in_range (0, 9999) f = true -> in_range (0, 9999) b = true -> d_window st = false ->
     in_int16 (fst (d_pen st)) && in_int16 (snd (d_pen st)) = true -> d_outcomes st = o :: os ->
     exists st', exec (Paint f b) fl st =
                 (fl, st', [RPaint (d_pen st) (attr_index (d_nattr st) f) (attr_index (d_nattr st) b)], Done)
       /\ d_pen st' = d_pen st /\ d_scale st' = d_scale st /\ d_angle st' = d_angle st /\ d_outcomes st' = os
       /\ d_attr st' = (if (o =? 0) || (o =? 1) then d_attr st else attr_index (d_nattr st) f)
       /\ d_last st' = (if o =? 0 then d_last st else d_pen st))
  /\ (in_range (0, 9999) f && in_range (0, 9999) b = false -> exec (Paint f b) fl st = (fl, st, [], Raised 5))
  /\ (in_range (0, 9999) f && in_range (0, 9999) b = true -> d_window st = false ->
      in_int16 (fst (d_pen st)) && in_int16 (snd (d_pen st)) = false ->
      exec (Paint f b) fl st = (fl, st, [], Raised 6))
  /\ (1 <= d_nattr st -> 0 <= f -> attr_index (d_nattr st) f = clamp_attr (d_nattr st) f).
Proof.
  intros st fl f b.
  split; [intros o os H1 H2 H3 H4 H5; exact (paint_request st fl f b o os H1 H2 H3 H4 H5)|].
  destruct (paint_errors st fl f b) as [E1 E2].
  split; [exact E1|]. split; [exact E2|]. exact (attr_index_clamp (d_nattr st) f).
Qed.
Print Assumptions C33_paint.

(* DRAW in a text mode: Illegal function call, nothing changes *)
Theorem C33_text_mode : forall g cmds, g_text g = true -> draw g cmds = (g, [], Raised 5).
Proof. intros g cmds H. unfold draw. rewrite H. reflexivity. Qed.
Print Assumptions C33_text_mode.

(* the products that the code divides by 4. in floating point stay far below 2^53, so the regenerated
   `Z.quot (scale * d) 4` is what `int(math.trunc(scale*d / 4.))` computes; the scale stays in 1..255 *)
Theorem C33_scaling_exact :
  (forall sc v, 1 <= sc <= 255 -> in_range (-99999, 99999) v = true -> Z.abs (sc * v) < 2 ^ 53)
  /\ (forall l fl st, 1 <= d_scale st <= 255 -> 1 <= d_scale (fst (fst (run l fl st))) <= 255).
Proof. split; [exact scaled_product_small | exact run_scale]. Qed.
Print Assumptions C33_scaling_exact.

(* ---- non-vacuity --------------------------------------------------------------------------------- *)

(* SCREEN 1 start state (aspect 800:960, yfac 1.2); "S8 U10 BR5 NE4 M+2,-3 XS$; M100,50 L7 A1 R10 TA270 F5"
   with S$ = "C2 nd3": hypotheses hold, the statement ends normally, pen = (74,42), POINT(0)/POINT(1) report it,
   the B move draws nothing, the N moves return, R10 under A1 goes up by floor(20/1.2) = 16, F5 under TA270
   goes (-12, +8); with " P1,3" appended and a fill that succeeds, one request at the pen and colour 1 *)
Example C33_nonvacuous :
  let g := mkG None (160, 100) false 4 0 3 false 4 (800, 960) [2] in
  let e : env := [([83; 36], VStr [67; 50; 32; 110; 100; 51])] in
  let s := [83; 56; 32; 85; 49; 48; 32; 66; 82; 53; 32; 78; 69; 52; 32; 77; 43; 50; 44; 45; 51; 32;
            88; 83; 36; 59; 32; 77; 49; 48; 48; 44; 53; 48; 32; 76; 55; 32; 65; 49; 32; 82; 49; 48; 32;
            84; 65; 50; 55; 48; 32; 70; 53] in
  let cmds := parse 2 e s in
  let r := draw_string 2 e g s in
  let r2 := draw_string 2 e g (s ++ [32; 80; 49; 44; 51]) in
  g_text g = false /\ paint_free cmds = true
  /\ cmds = [SetScale 8; Move DU 10; PreB; Move DR 5; PreN; Move DE 4; MRel 2 (-3);
             Sub [83; 36] [SetColour 2; PreN; Move DD 3]; MAbs 100 50; Move DL 7; SetAngle 1; Move DR 10;
             TurnAngle 270; Move DF 5]
  /\ dr_status r = Done /\ current (dr_state r) = (74, 42)
  /\ point_fn (dr_state r) 0 = 74 /\ point_fn (dr_state r) 1 = 42 /\ g_last (dr_state r) = (74, 42)
  /\ g_angle (dr_state r) = 270
  /\ dr_reqs r = map RLine
                 [mkseg (160, 100) (160, 80) 3; mkseg (170, 80) (178, 72) 3; mkseg (170, 80) (174, 74) 3;
                  mkseg (174, 74) (174, 80) 2; mkseg (174, 74) (100, 50) 2; mkseg (100, 50) (86, 50) 2;
                  mkseg (86, 50) (86, 34) 2; mkseg (86, 34) (74, 42) 2]
  /\ dr_status r2 = Done /\ dr_reqs r2 = dr_reqs r ++ [RPaint (74, 42) 1 3] /\ g_attr (dr_state r2) = 1.
Proof. vm_compute. repeat split; reflexivity. Qed.

(* the printer side is inhabited too: a spaced, lower-case, signed, zero-padded text with a variable *)
Example C33_parse_nonvacuous :
  let e : env := [([65; 37], VNum 7)] in
  let cs := [CMove 1 true DU (Some (NLit 1 SPlus [(48, O); (49, 1%nat); (50, O)]));
             CSemi 1; CB 0 false; CMRel 0 false (NVar 0 SMinus 1 (mkname [97] (Some 37)) 1) 2 (NLit 0 SNone [(51, O)]);
             CC 0 true None 2; CMove 0 false DF None] in
  Forall (ccmd_ok (sub_of 1 e) e) cs
  /\ print cs = [32; 117; 32; 43; 48; 49; 32; 50; 32; 59; 66; 77; 45; 61; 32; 97; 37; 32; 59; 32; 32; 44; 51;
                 99; 32; 32; 59; 70]
  /\ abstract e cs = [Move DU 12; PreB; MRel (-7) 3; SetColour 0; Move DF 1].
Proof.
  split; [|split; vm_compute; reflexivity].
  repeat constructor; vm_compute; reflexivity.
Qed.
