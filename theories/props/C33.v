(* C33 - stub while the correspondence is being set up *)
From Coq Require Import ZArith List.
From PCB Require Import lib.PyInt gen.Gen_draw model.Draw.
