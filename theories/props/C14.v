(* C14 - RENUM renumbers lines and every reference to them consistently.
   Only statements, `exact`, Print Assumptions and non-vacuity examples here.

   model/Renum.v       executable model of Program.renum + Interpreter.renum_ (with the repair fixes/D4), over model/Program.v
   model/RenumSpec.v   the reference: which lines are renumbered, the new numbers new, new+step, ...,
                       acceptance, the rewriting of a body seen as items, [C14_simulation_statement]
   abs_ok              the invariant WF of C13 (state s stores exactly the lines ls)
   Hypotheses: a WF state, line numbers < 65535 (all that store_line can create is <= 65529), no 0E byte
   directly behind the program terminator ([tail_ok], true after any edit history: the tail is empty),
   0 <= new, 0 <= start <= 65535 (two-byte jump numbers). *)
From Coq Require Import ZArith List Bool Lia Sorting.Sorted.
From PCB Require Import lib.Result lib.PyInt gen.Gen_program model.Program model.ProgramSpec model.Renum
  model.RenumSpec proofs.Program_proofs proofs.Renum_proofs.
From PCB Require gen.Gen_flow model.Flow.
From PCB Require Import model.RenumFlow proofs.RenumFlow_proofs.
Import ListNotations.
Open Scope Z_scope.

(* RENUM new,start,step on a WF state, when the arguments satisfy [accepted]: succeeds (no BASIC error, no
   host exception such as the KeyError of D4), returns old_to_new = the lines >= start in order paired with
   new, new+step, ...; the result state is again WF and stores exactly [renum_lines]; traps are remapped. *)
Theorem C14_renum_accepted : forall c s ls tail tr new start step,
  cfg_ok c -> abs_ok c s ls tail -> tail_ok tail -> Forall (fun l : line => fst l < 65535) ls ->
  0 <= new -> 0 <= start <= 65535 -> accepted ls new start step ->
  exists r, renum_cmd s tr (Some new) (Some start) (Some step)
            = Ok (r, {| on_error := remap (r_o2n r) (on_error tr); gosubs := map (remap (r_o2n r)) (gosubs tr) |})
    /\ r_o2n r = o2n_of (rn_part start ls) new step
    /\ abs_ok c (r_prog r) (fst (renum_lines c s ls new start step)) tail
    /\ r_reports r = reports_of (lines s) (snd (renum_lines c s ls new start step)).
Proof. exact renum_cmd_ok. Qed.
Print Assumptions C14_renum_accepted.

(* the guards are exactly sufficient: RENUM succeeds only if step >= 1, new is above every line staying in
   front, and the last new number is at most 65529 *)
Theorem C14_guard_exact : forall c s ls tail tr new start step x,
  abs_ok c s ls tail -> Forall (fun l : line => fst l < 65535) ls -> 0 <= start <= 65535 ->
  renum_cmd s tr (Some new) (Some start) (Some step) = Ok x -> accepted ls new start step.
Proof. exact renum_cmd_accepts_only. Qed.
Print Assumptions C14_guard_exact.

(* numbers: the lines below start keep their numbers, the others get new, new+step, ... in their original
   order; every line keeps its offset (positions unchanged) *)
Theorem C14_numbers : forall c s ls new start step,
  StronglySorted Z.lt (nums ls) -> Forall (fun l : line => wf_body (snd l) = true) ls ->
  nums (fst (renum_lines c s ls new start step))
    = nums (keep_part start ls) ++ seqz new step (length (rn_part start ls))
  /\ map snd (idx 0 (fst (renum_lines c s ls new start step))) = map snd (idx 0 ls).
Proof. exact renum_lines_shape. Qed.
Print Assumptions C14_numbers.

(* order preserved: WF of the result (hence sorted listing, GOTO lands, link chain... by the C13 theorems) *)
Theorem C14_order_preserved : forall c s ls tail tr new start step r tr',
  cfg_ok c -> abs_ok c s ls tail -> tail_ok tail -> Forall (fun l : line => fst l < 65535) ls ->
  0 <= new -> 0 <= start <= 65535 ->
  renum_cmd s tr (Some new) (Some start) (Some step) = Ok (r, tr') ->
  abs_ok c (r_prog r) (fst (renum_lines c s ls new start step)) tail
  /\ StronglySorted Z.lt (nums (fst (renum_lines c s ls new start step))).
Proof.
  intros c s ls tail tr new start step r tr' Hc Ha Ht Hl Hn Hs H.
  pose proof (renum_cmd_accepts_only c s ls tail tr new start step _ Ha Hl Hs H) as Hacc.
  destruct (renum_cmd_ok c s ls tail tr new start step Hc Ha Ht Hl Hn Hs Hacc) as [r0 [H0 [_ [Habs _]]]].
  rewrite H0 in H. inversion H; subst. split; [exact Habs | exact (a_sorted _ _ _ _ Habs)].
Qed.
Print Assumptions C14_order_preserved.

(* the new number of a line: the i-th renumbered line gets new + i*step; any other number is left alone *)
Theorem C14_new_number_renumbered : forall ls start new step i k, StronglySorted Z.lt (nums ls) ->
  nth_error (nums (rn_part start ls)) i = Some k ->
  new_number (o2n_of (rn_part start ls) new step) k = new + Z.of_nat i * step.
Proof. exact new_number_renumbered. Qed.
Print Assumptions C14_new_number_renumbered.
Theorem C14_new_number_other : forall ls start new step k, ~ In k (nums (rn_part start ls)) ->
  new_number (o2n_of (rn_part start ls) new step) k = k.
Proof. exact new_number_other. Qed.
Print Assumptions C14_new_number_other.

(* traps follow their lines: an active ON ERROR / event trap line is mapped by new_number - in particular a
   trap line in front of the renumbered range keeps its number (this raised KeyError before fixes/D4) *)
Theorem C14_traps : forall o2n l, l <> 0 -> remap o2n (Some l) = Some (new_number o2n l).
Proof. intros o2n l H. unfold remap, new_number. destruct (l =? 0) eqn:E; [lia | reflexivity]. Qed.
Print Assumptions C14_traps.
Theorem C14_traps_inactive : forall o2n, remap o2n None = None /\ remap o2n (Some 0) = Some 0.
Proof. intros; split; reflexivity. Qed.
Print Assumptions C14_traps_inactive.

(* the scan of pass 3 over the whole program: line starts, links and line numbers are passed over, every
   body is rewritten by rw_body, nothing else changes *)
Theorem C14_scan_program : forall d o2n c0 tail ls, o2n_ok o2n -> tail_ok tail -> forall p bef pos,
  0 <= c0 -> 0 <= p -> Forall (fun l : line => wf_body (snd l) = true) ls ->
  rscan d o2n (lay c0 p ls ++ 0 :: 0 :: 0 :: tail) bef pos false false 0
  = Ok (lay c0 p (fst (rw_prog d o2n c0 p ls bef pos)) ++ 0 :: 0 :: 0 :: tail, snd (rw_prog d o2n c0 p ls bef pos)).
Proof. exact rscan_prog. Qed.
Print Assumptions C14_scan_program.

(* token scan soundness and reference rewriting, at item level: in a body made of string literals, comments,
   tokens with payloads, references and plain bytes, the scan stops exactly at the references; each reference
   to j becomes new_jump = the new number of j (unless exempt: ON ERROR GOTO 0), everything else is unchanged;
   one event per reference *)
Theorem C14_refs : forall d o2n its, items_ok its = true -> forall bef pos,
  rw_body d o2n (render its) bef pos false false 0 = (render (rw_items o2n its bef), ev_items d o2n its bef pos).
Proof. exact rw_body_items. Qed.
Print Assumptions C14_refs.
Theorem C14_refs_new_jump : forall o2n bef j, exempt bef j = false -> new_jump o2n bef j = new_number o2n j.
Proof. intros o2n bef j H. unfold new_jump, new_number. rewrite H. reflexivity. Qed.
Print Assumptions C14_refs_new_jump.
Theorem C14_exempt_only_zero : forall bef j, j <> 0 -> exempt bef j = false.
Proof. intros bef j H. unfold exempt. destruct (j =? 0) eqn:E; [lia | reflexivity]. Qed.
Print Assumptions C14_exempt_only_zero.
(* item lists render to tokeniser-shaped bodies (the hypothesis wf_body of the other theorems) *)
Theorem C14_items_wf : forall its, items_ok its = true -> body_ok (render its) false false 0 = true.
Proof. exact items_body_ok. Qed.
Print Assumptions C14_items_wf.

(* a reference is reported (Undefined line j in ...) iff it is not exempt and j is not a line of the program *)
Theorem C14_reported : forall c s ls tail new start step bef j, abs_ok c s ls tail -> 0 <= j <= 65535 ->
  reported (lines s) (o2n_of (rn_part start ls) new step) bef j = negb (exempt bef j) && negb (member j (nums ls)).
Proof. exact reported_spec. Qed.
Print Assumptions C14_reported.

(* the line number printed in "Undefined line j in k": every reference found lies inside a line of the program
   and k = get_line_number with the OLD index = the old number of that line *)
Theorem C14_report_line : forall c s ls tail new start step p j rep,
  abs_ok c s ls tail -> In (p, j, rep) (snd (renum_lines c s ls new start step)) ->
  exists a k b r, ls = a ++ (k, b) :: r /\ size a + 8 <= p <= size a + 5 + zlen b
                  /\ get_line_number (lines s) (p - 1) = k.
Proof. exact report_line. Qed.
Print Assumptions C14_report_line.

(* ---- behaviour preservation: the abstract half, over the control-flow machine of model/Flow.v (C19/C21).
   Proved: an accepted RENUM is an increasing (hence injective) renaming of the program's lines; on the token
   level the rewriting IS that renaming of the reference items; under an injective renaming the machine's line
   lookup finds the renamed target at the same position, the line of a position (ERL, "in line") is the renamed
   line, and the statement structure is unchanged.  NOT proved: the step-by-step simulation itself
   (RenumFlow.C14_simulation_flow_statement) - PARTIAL. *)
Theorem C14_new_number_increasing : forall c s ls tail new start step,
  cfg_ok c -> abs_ok c s ls tail -> tail_ok tail -> Forall (fun l : line => fst l < 65535) ls ->
  0 <= new -> 0 <= start <= 65535 -> accepted ls new start step ->
  forall a b, In a (nums ls) -> In b (nums ls) -> a < b ->
  new_number (o2n_of (rn_part start ls) new step) a < new_number (o2n_of (rn_part start ls) new step) b.
Proof. exact new_number_increasing. Qed.
Print Assumptions C14_new_number_increasing.
Theorem C14_refs_are_renaming : forall o2n its, refs_nonzero its -> forall bef,
  rw_items o2n its bef = map (rename_item (new_number o2n)) its.
Proof. exact rw_items_rename. Qed.
Print Assumptions C14_refs_are_renaming.
Theorem C14_flow_jump_commutes : forall f n code,
  (forall m, In m (flow_lines code) -> f m = f n -> m = n) ->
  Flow.find_line (rename_lines f code) (f n) = Flow.find_line code n.
Proof. intros f n code H. exact (find_line_rename f n code 0%nat H). Qed.
Print Assumptions C14_flow_jump_commutes.
Theorem C14_flow_erl_renamed : forall f code i, (forall m, In m (flow_lines code) -> m <> 65535) ->
  Flow.line_of (rename_lines f code) i = g65535 f (Flow.line_of code i).
Proof. intros f code i H. exact (line_of_rename f code i 65535 H). Qed.
Print Assumptions C14_flow_erl_renamed.
Theorem C14_flow_structure : forall f code base,
  Flow.eol_from (rename_lines f code) base = Flow.eol_from code base /\ length (rename_lines f code) = length code
  /\ flow_lines (rename_lines f code) = map f (flow_lines code).
Proof. intros f code base. split; [apply eol_rename|]. split; [apply length_rename | apply flow_lines_rename]. Qed.
Print Assumptions C14_flow_structure.
(* ---- behaviour preservation, proved for the jump fragment of the control-flow machine (model/Flow.v):
   line headers, PRINT, LET, GOTO, GOSUB, RETURN [n], IF..THEN [n] with its ELSE search, :ELSE [n],
   ON..GOTO/GOSUB, END ([frag]).  For a program over the lines of ls whose targets all exist, and an ACCEPTED
   RENUM new,start,step - partial or not, so including jumps from kept lines into the renumbered range and out
   of it - RUN of the renumbered program produces the same output and ends the same way, the line number in a
   final error message being mapped by the line map.
   Outside (stated in C14_simulation_flow_statement, not proved): FOR/NEXT, WHILE/WEND, ERROR, ON ERROR GOTO,
   RESUME, READ/DATA/RESTORE [n], ERL/ERR in expressions; programs with missing targets (there the clause is
   false: a kept missing target can collide with a new number). *)
Theorem C14_flow_simulation : forall f code fuel,
  (forall a b, In a (flow_lines code) -> In b (flow_lines code) -> f a = f b -> a = b) ->
  (forall s n, In s code -> In n (targets_of s) -> In n (flow_lines code)) ->
  (forall s, In s code -> frag s = true) ->
  (forall m, In m (flow_lines code) -> m <> 65535) ->
  Flow.run_program (rename_lines f code) fuel
  = (fst (Flow.run_program code fuel), ren_out f (snd (Flow.run_program code fuel))).
Proof. exact run_program_rename. Qed.
Print Assumptions C14_flow_simulation.
Theorem C14_simulation_renum : forall c s ls tail new start step code fuel,
  cfg_ok c -> abs_ok c s ls tail -> tail_ok tail -> Forall (fun l : line => fst l < 65535) ls ->
  0 <= new -> 0 <= start <= 65535 -> accepted ls new start step ->
  (forall n, In n (flow_lines code) -> In n (nums ls)) ->
  (forall st n, In st code -> In n (targets_of st) -> In n (flow_lines code)) ->
  (forall st, In st code -> frag st = true) ->
  let f := new_number (o2n_of (rn_part start ls) new step) in
  Flow.run_program (rename_lines f code) fuel
  = (fst (Flow.run_program code fuel), ren_out f (snd (Flow.run_program code fuel))).
Proof. exact renum_flow_simulation. Qed.
Print Assumptions C14_simulation_renum.
(* one statement of the fragment does the same in the renamed program (states are literally equal) *)
Theorem C14_flow_statement_commutes : forall f code,
  (forall a b, In a (flow_lines code) -> In b (flow_lines code) -> f a = f b -> a = b) ->
  (forall s n, In s code -> In n (targets_of s) -> In n (flow_lines code)) ->
  (forall s, In s code -> frag s = true) ->
  forall st, Flow.resume_at (Flow.ds st) = None -> Flow.pstep (rename_lines f code) st = Flow.pstep code st.
Proof. exact pstep_rename. Qed.
Print Assumptions C14_flow_statement_commutes.
Definition C14_simulation_partial := C14_simulation_flow_statement.
Definition C14_simulation_generic := C14_simulation_statement.

(* non-vacuity: 10 ON ERROR GOTO 10 / 20 GOTO 20:GOTO 77 / RENUM 100,20 with the error trap on line 10
   (the D4 witness): accepted, line 20 -> 100, the reference follows, 77 is reported, the trap stays on 10 *)
Example C14_nonvacuous :
  let c := {| cs := 4717; limit := 65020 |} in
  let ops := [OStore (mk_linebuf 10 [161; 32; 167; 32; 137; 32; 14; 10; 0]);
              OStore (mk_linebuf 20 [137; 32; 14; 20; 0; 58; 137; 32; 14; 77; 0])] in
  let s := run c ops in
  let ls := spec_run c ops in
  accepted ls 100 20 10
  /\ exists r tr', renum_cmd s {| on_error := Some 10; gosubs := [Some 20; None] |} (Some 100) (Some 20) (Some 10) = Ok (r, tr')
     /\ r_o2n r = [(20, 100)] /\ r_reports r = [(77, 20)]
     /\ on_error tr' = Some 10 /\ gosubs tr' = [Some 100; None]
     /\ lines (r_prog r) = [(65536, 30); (10, 0); (100, 14)]
     /\ fst (renum_lines c s ls 100 20 10)
        = [(10, [161; 32; 167; 32; 137; 32; 14; 10; 0]); (100, [137; 32; 14; 100; 0; 58; 137; 32; 14; 77; 0])].
Proof.
  cbv zeta. split.
  - split; [lia|]. split; [intros l Hl; vm_compute in Hl; destruct Hl as [<-|[]]; vm_compute; reflexivity|].
    right. vm_compute. discriminate.
  - eexists. eexists. split; [vm_compute; reflexivity|]. repeat split; vm_compute; reflexivity.
Qed.
