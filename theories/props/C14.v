(* C14 placeholder while the model is validated *)
From Coq Require Import ZArith List.
From PCB Require Import lib.PyInt gen.Gen_program model.Program model.Renum.
