(* C40 - A suspended session resumes exactly where it stopped.   (PARTIAL: see registry/C40.json)
   Proved here: the integrity clause in full (every single-byte alteration of every accepted state file is
   rejected, for files of every length) and the resume-point clause in the code-pointer model.
   Not modelled: pickle/zlib over the live object graph (Section variables below; tested by correspondence).
   Only statements, `exact`, Print Assumptions and non-vacuity examples here. *)
From Coq Require Import ZArith List Bool.
From PCB Require Import lib.Result lib.PyInt gen.Gen_state model.Crc32 model.StateFile model.Resume
  model.ReopenFile model.TextStream proofs.Crc32_proofs proofs.StateFile_proofs proofs.Resume_proofs
  proofs.ReopenFile_proofs proofs.TextStream_proofs.
Import ListNotations.
Open Scope Z_scope.

(* ---------------- integrity ---------------- *)

(* CRC-32 (as zlib.crc32 computes it) changes whenever one byte of a string of ANY length changes *)
Theorem C40_crc_detects_byte : forall blob i b', bytes_ok blob -> byte_ok b' ->
  (i < length blob)%nat -> nth i blob 0 <> b' ->
  crc32 (set_nth i b' blob) <> crc32 blob.
Proof. exact crc32_detects_byte. Qed.
Print Assumptions C40_crc_detects_byte.

(* every byte position of every file that load_session's checks accept is covered: header (checksum,
   format_version, python and pcbasic versions) and payload; no position is insensitive.
   Holds for any behaviour of zlib.decompress / pickle.loads. *)
Theorem C40_any_byte_rejected :
  forall (obj : Type) (decompress : list Z -> res (list Z)) (unpickle : list Z -> res obj) f i b',
  bytes_ok f -> load_check f = Ok tt -> (i < length f)%nat -> byte_ok b' -> nth i f 0 <> b' ->
  load_session obj decompress unpickle (set_nth i b' f) = Host host_ValueError.
Proof. exact session_any_byte_rejected. Qed.
Print Assumptions C40_any_byte_rejected.

(* ANY alteration confined to the 24 header bytes - any number of them, any replacement values (lowered, raised,
   several fields at once) - of an accepted file is rejected: the checksum field must equal the CRC of the unchanged
   payload and each version field must equal this build's value, and little-endian decoding is injective *)
Theorem C40_header_tamper_rejected :
  forall (obj : Type) (decompress : list Z -> res (list Z)) (unpickle : list Z -> res obj) f f',
  bytes_ok f -> bytes_ok f' -> load_check f = Ok tt ->
  length f' = length f -> file_blob f' = file_blob f -> f' <> f ->
  load_session obj decompress unpickle f' = Host host_ValueError.
Proof. intros. apply load_session_rejects, header_tamper_rejected with (f := f); assumption. Qed.
Print Assumptions C40_header_tamper_rejected.

(* what save_session writes is accepted, and every single-byte alteration of it is rejected *)
Theorem C40_saved_file_accepted : forall blob, load_check (save_file blob) = Ok tt.
Proof. exact saved_file_accepted. Qed.
Print Assumptions C40_saved_file_accepted.

Theorem C40_saved_file_any_byte_rejected :
  forall (obj : Type) (decompress : list Z -> res (list Z)) (unpickle : list Z -> res obj)
         (compress : list Z -> list Z) (pickle : obj -> list Z) o i b',
  bytes_ok (compress (pickle o)) ->
  (i < length (save_session obj compress pickle o))%nat -> byte_ok b' ->
  nth i (save_session obj compress pickle o) 0 <> b' ->
  load_session obj decompress unpickle (set_nth i b' (save_session obj compress pickle o))
  = Host host_ValueError.
Proof. exact saved_session_any_byte_rejected. Qed.
Print Assumptions C40_saved_file_any_byte_rejected.

(* the version fields, named: a file whose checksum is right but whose format_version (D13), python or
   pcbasic version field differs from this build is rejected *)
Theorem C40_header_rejects : forall c h0 h1 h2 h3 h4 h5,
  state_load_check c h0 h1 h2 h3 h4 h5 = Ok tt <->
  (c = h0 /\ h1 = state_HEADER_format_version /\ h2 = state_HEADER_python_major /\
   h3 = state_HEADER_python_minor /\ h4 = state_HEADER_pcbasic_major /\ h5 = state_HEADER_pcbasic_minor).
Proof. exact load_check_ok_iff. Qed.
Print Assumptions C40_header_rejects.

(* framing round trip, GIVEN that zlib and pickle invert each other on the object (runtime behaviour that
   is not modelled: premises, not axioms) *)
Theorem C40_save_load_roundtrip :
  forall (obj : Type) (decompress : list Z -> res (list Z)) (unpickle : list Z -> res obj)
         (compress : list Z -> list Z) (pickle : obj -> list Z),
  (forall x, decompress (compress x) = Ok x) -> (forall o, unpickle (pickle o) = Ok o) ->
  forall o, load_session obj decompress unpickle (save_session obj compress pickle o) = Ok o.
Proof. exact save_load_roundtrip. Qed.
Print Assumptions C40_save_load_roundtrip.

(* ---------------- resume point ---------------- *)

(* full statement of the resume clause, as a predicate on the real Session.suspend+Session.resume and the real
   "run to completion and observe output, variables, files, screen".  NOT proved: it needs a model of pickle
   over the interpreter's live object graph, which does not exist; covered by correspondence runs (testing). *)
Definition C40_resume_statement (session : Type) (suspend_resume : session -> res session)
    (continue_and_observe : session -> list Z) : Prop :=
  forall s, rmap continue_and_observe (suspend_resume s) = Ok (continue_and_observe s).

(* proved part.  For ANY statement semantics `exec` (jumps, loops, GOSUB, error traps are arbitrary functions of
   state and code pointer), any program code, any k and m: running k statements, suspending at that statement
   boundary, resuming (pickling = identity on the modelled state, unpickling = Interpreter.__setstate__) and
   running m more statements starts the same statements in the same order and ends in the same state as running
   k+m statements uninterrupted: none lost, none repeated. *)
Theorem C40_resume_point_partial :
  forall (S : Type) (exec : S -> nat -> option (S * nat)) (code : list Z) k m (s : istate S),
  in_stmt S s = false -> redo_flag S s = false ->
  run S exec (k + m) s =
  (let (t1, sk) := run S exec k s in
   let (t2, sf) := run S exec m (resume S code sk) in (t1 ++ t2, sf)).
Proof. exact resume_point. Qed.
Print Assumptions C40_resume_point_partial.

(* suspended between statements: the code pointer is not moved *)
Theorem C40_resume_between_statements : forall code redo cur p, setstate_pos code false redo cur p = p.
Proof. exact resume_between_statements. Qed.
Print Assumptions C40_resume_between_statements.

(* suspended WHILE statement k is executing (SYSTEM, a wait inside a statement), for every well-formed program
   and every statement k: the pointer lands on the start of statement k+1 (k is not repeated, k+1 not lost);
   with redo_on_break (INPUT, expression evaluation) it lands on the start of k, which is executed again *)
Theorem C40_resume_mid_statement : forall segs k anyptr, wf_segs segs = true -> (k < length segs)%nat ->
  setstate_pos (render segs) true false (start segs k) anyptr = start segs (Datatypes.S k) /\
  setstate_pos (render segs) true true (start segs k) anyptr = start segs k.
Proof. exact resume_mid_statement. Qed.
Print Assumptions C40_resume_mid_statement.

Theorem C40_statement_starts_increase : forall segs k, wf_segs segs = true -> (k < length segs)%nat ->
  (start segs k < start segs (Datatypes.S k))%nat.
Proof. exact start_lt. Qed.
Print Assumptions C40_statement_starts_increase.

(* D40a: the repositioning before the fix (always from current_statement) undoes a jump: the code of
   10 GOTO 30 / 20 PRINT "WRONG" / 30 PRINT "OK", suspended at the boundary after the GOTO (pointer 24 = line 30,
   current_statement 0 = the GOTO) resumes at 10 = line 20 *)
Definition C40_goto_code : list Z :=
  [0;11;18;10;0;137;32;14;30;0; 0;24;18;20;0;145;32;34;87;82;79;78;71;34; 0;35;18;30;0;145;32;34;79;75;34; 0;0;0].
Example C40_resume_old_refuted :
  setstate_pos_old C40_goto_code false 0 24 = 10%nat /\ setstate_pos C40_goto_code false false 0 24 = 24%nat.
Proof. split; vm_compute; reflexivity. Qed.

(* ---------------- open files ---------------- *)

(* state.unpickle_file (hand model, tied by correspondence): a file open for OUTPUT or APPEND when the session
   was pickled (stream at its end, contents c of ANY length including empty) is re-opened with exactly the
   contents c and at its end, whatever was appended to it afterwards (the EOF byte TextFile.close writes when the
   suspended session shuts down): the resumed program's writes continue where the suspended one stopped *)
Theorem C40_reopened_file_restored : forall has_w has_a c junk, xorb has_w has_a = true ->
  reopen has_w has_a (zlen c) (c ++ junk) = (c, zlen c).
Proof. exact reopen_written_file. Qed.
Print Assumptions C40_reopened_file_restored.

(* INPUT / RANDOM files: contents untouched, stream back at its position *)
Theorem C40_reopened_read_file : forall pos disk, 0 <= pos -> reopen false false pos disk = (disk, pos).
Proof. exact reopen_read_file. Qed.
Print Assumptions C40_reopened_read_file.

(* D40b and its boundary: APPEND file still empty at suspension, EOF byte written at shutdown *)
Example C40_reopened_empty_append : reopen false true 0 [26] = ([], 0) /\
  reopen false true 3 [97; 13; 10; 26] = ([97; 13; 10], 3) /\ reopen true false 0 [26] = ([], 0).
Proof. repeat split. Qed.

(* text input state of a RANDOM file's record buffer (FieldFile.__getstate__/__setstate__, hand model tied by
   correspondence): for every buffer, stream position and read-ahead, the characters the next INPUT# / LINE INPUT# /
   INPUT$ will see and the logical record position are the same after unpickling *)
Theorem C40_field_text_state_preserved : forall s,
  pending (field_roundtrip s) = pending s /\ logical_pos (field_roundtrip s) = logical_pos s.
Proof. exact field_roundtrip_pending. Qed.
Print Assumptions C40_field_text_state_preserved.

(* seeded change C40e: record " 12  34  56 ", first item read, the blank after it held as read-ahead *)
Example C40_field_logical_variant_refuted :
  let s := TS [32;49;50;32;32;51;52;32;32;53;54;32;13;10] 4 [32] in
  pending s = [32;32;51;52;32;32;53;54;32;13;10] /\
  pending (field_setstate (t_buf s) (field_getstate_logical s)) = [32;32;32;51;52;32;32;53;54;32;13;10].
Proof. split; reflexivity. Qed.

(* ---------------- non-vacuity ---------------- *)
Example C40_nonvacuous_file :
  let f := save_file [120; 156; 99; 100; 98; 6; 0; 0; 13; 0; 7] in
  bytes_ok f /\ load_check f = Ok tt /\ length f = 35%nat /\
  load_check (set_nth 4 3 f) = Host host_ValueError /\          (* format_version: D13 witness *)
  load_check (set_nth 0 ((nth 0 f 0 + 1) mod 256) f) = Host host_ValueError /\
  load_check (set_nth 30 1 f) = Host host_ValueError.
Proof.
  cbv zeta. split; [apply bytesb_ok; vm_compute; reflexivity|].
  repeat split; vm_compute; reflexivity.
Qed.

Example C40_nonvacuous_program :
  let segs := [Seg [0;11;18;10;0] [TPlain 137; TPlain 32; TMulti 14 [30;0]] None;
               Seg [0;24;18;20;0] [TPlain 145; TPlain 32; TStr [87;82;79;78;71]] None;
               Seg [0;35;18;30;0] [TPlain 145; TPlain 32; TStr [79;75]] None] in
  wf_segs segs = true /\ render segs = C40_goto_code /\
  map (start segs) [0;1;2;3]%nat = [0;10;24;35]%nat.
Proof. cbv zeta. repeat split; vm_compute; reflexivity. Qed.
