(* C32 - PAINT fills exactly the enclosed region.
   Only statements, `exact`, Print Assumptions and non-vacuity examples here.

   Model: model/Flood.v (solid-colour PAINT: paint_, _flood_fill, _scanline_until, _check_scanline).
   `region m v border sx sy` is the inductively defined 4-connected set of non-border cells inside the
   viewport v reachable from the seed (sx, sy); `pix m x y` the attribute of a cell; `covers m v` says the
   bitmap contains the whole viewport (it may be larger: cells outside the viewport are then shown unchanged,
   since they are not in the region). *)
From Coq Require Import ZArith List Bool Lia.
From PCB Require Import lib.Result lib.PyInt model.Flood proofs.Flood_base proofs.Flood_proofs proofs.Flood_tile.
Import ListNotations.
Open Scope Z_scope.

(* the region lies inside the viewport and consists of non-border cells *)
Theorem C32_region_inside : forall m v border sx sy x y,
  region m v border sx sy x y -> in_view v x y = true /\ pix m x y <> border.
Proof. exact region_open. Qed.
Print Assumptions C32_region_inside.

(* SOUNDNESS (all bitmaps, viewports, seeds, attributes, any fuel): every cell PAINT changes lies in the
   region of the seed and is changed to the fill attribute *)
Theorem C32_sound : forall fuel v m sx sy fill border m',
  covers m v -> flood_fill fuel v m sx sy fill border = Ok m' ->
  forall x y, pix m' x y <> pix m x y -> region m v border sx sy x y /\ pix m' x y = fill.
Proof. exact flood_sound. Qed.
Print Assumptions C32_sound.

(* seed outside the viewport or on a border cell: nothing happens *)
Theorem C32_noop_cases : forall fuel v m sx sy fill border,
  in_view v sx sy = false \/ pix m sx sy = border -> flood_fill fuel v m sx sy fill border = Ok m.
Proof. exact flood_noop. Qed.
Print Assumptions C32_noop_cases.

(* TERMINATION: the work-list loop ends within (width+2)*(height+2)*2 iterations (paint_fuel); the result is
   never OutOfFuel *)
Theorem C32_terminates : forall v m sx sy fill border,
  covers m v -> exists m', flood_fill (paint_fuel v) v m sx sy fill border = Ok m'.
Proof. exact flood_terminates. Qed.
Print Assumptions C32_terminates.

(* COMPLETENESS (full statement, all region shapes): when no cell of the region has the fill attribute
   beforehand, every cell of the region is filled *)
Theorem C32_complete : forall fuel v m sx sy fill border m',
  covers m v -> flood_fill fuel v m sx sy fill border = Ok m' ->
  (forall x y, region m v border sx sy x y -> pix m x y <> fill) ->
  forall x y, region m v border sx sy x y -> pix m' x y = fill.
Proof. exact flood_complete. Qed.
Print Assumptions C32_complete.

(* the statement level: PAINT (x,y)[,c][,b] with its argument checks never runs out of fuel, and when it
   succeeds it is the flood fill with the attributes derived from c, b and the foreground attribute *)
Theorem C32_paint : forall text_mode num_attr fg v m x y c b,
  covers m v ->
  paint text_mode num_attr fg v m x y c b <> OutOfFuel /\
  forall m', paint text_mode num_attr fg v m x y c b = Ok m' ->
    let fill := fill_of num_attr fg c in
    let border := border_of num_attr fg c b in
    (forall px py, pix m' px py <> pix m px py -> region m v border x y px py /\ pix m' px py = fill) /\
    ((forall px py, region m v border x y px py -> pix m px py <> fill) ->
     forall px py, region m v border x y px py -> pix m' px py = fill).
Proof.
  intros text_mode num_attr fg v m x y c b Hcov. split.
  - exact (paint_never_out_of_fuel text_mode num_attr fg v m x y c b Hcov).
  - intros m' Hp. apply paint_ok in Hp. split.
    + exact (flood_sound _ _ _ _ _ _ _ _ Hcov Hp).
    + exact (flood_complete _ _ _ _ _ _ _ _ Hcov Hp).
Qed.
Print Assumptions C32_paint.

(* ======================= tiled PAINT (tile string, optional background string) =======================
   A pattern `p : pat` is solid or a tile (rows of attributes as returned by the mode's build_tile, taken as
   given) with an optional background row; `tile_at p x y` = tile[y mod height][x mod width]. *)

(* SOUNDNESS for every pattern: every changed cell lies in the region and gets the tile's attribute for its
   position *)
Theorem C32_tile_sound : forall fuel v m sx sy p border m',
  covers m v -> flood_fill_pat fuel v m sx sy p border = Ok m' ->
  forall x y, pix m' x y <> pix m x y -> region m v border sx sy x y /\ pix m' x y = tile_at p x y.
Proof. exact flood_sound_pat. Qed.
Print Assumptions C32_tile_sound.

Theorem C32_tile_noop_cases : forall fuel v m sx sy p border,
  in_view v sx sy = false \/ pix m sx sy = border -> flood_fill_pat fuel v m sx sy p border = Ok m.
Proof. exact flood_noop_pat. Qed.
Print Assumptions C32_tile_noop_cases.

(* the code's own stop condition, exactly: the run [x, x+w-1] of row y is NOT entered iff it shows the tile
   (never on an all-zero row of a tile) and, with a background row, is narrower than it or differs from it *)
Theorem C32_tile_stop_condition : forall m p y x w, 0 <= w ->
  has_same m p y x w = true <->
  (p_solid p = true \/ row_nonzero (tile_row p y) = true) /\
  (forall i, 0 <= i < w -> pix m (x + i) y = tile_at p (x + i) y) /\
  match p_bg p with
  | None => True
  | Some bg => w < zlen bg \/
               ~ (forall i, 0 <= i < w -> pix m (x + i) y = nth (Z.to_nat ((x mod tile_w p + i) mod zlen bg)) bg 0)
  end.
Proof. exact has_same_spec. Qed.
Print Assumptions C32_tile_stop_condition.

(* tiles without all-zero rows and without background: the stop condition is just "shows the tile" *)
Theorem C32_tile_plain_class : forall p,
  (p_solid p = true \/ forall y, row_nonzero (tile_row p y) = true) -> p_bg p = None -> stops_on_tile p.
Proof.
  intros p [H|H] Hb; [exact (stops_on_tile_solid p H Hb) | exact (stops_on_tile_nonzero p H Hb)].
Qed.
Print Assumptions C32_tile_plain_class.

(* TERMINATION and COMPLETENESS for that class (PARTIAL: the full statements below are false in general) *)
Theorem C32_tile_terminates_partial : forall fuel v m sx sy p border,
  stops_on_tile p -> covers m v -> (paint_fuel v <= fuel)%nat ->
  exists m', flood_fill_pat fuel v m sx sy p border = Ok m'.
Proof. exact flood_terminates_pat. Qed.
Print Assumptions C32_tile_terminates_partial.

Theorem C32_tile_complete_partial : forall fuel v m sx sy p border m',
  stops_on_tile p -> covers m v -> flood_fill_pat fuel v m sx sy p border = Ok m' ->
  (forall x y, region m v border sx sy x y -> pix m x y <> tile_at p x y) ->
  forall x y, region m v border sx sy x y -> pix m' x y = tile_at p x y.
Proof. exact flood_complete_pat. Qed.
Print Assumptions C32_tile_complete_partial.

(* the full termination statement for all tiles ... *)
Definition C32_tile_terminates_statement : Prop := forall v m sx sy p border,
  covers m v -> exists fuel m', flood_fill_pat fuel v m sx sy p border = Ok m'.
(* ... is refuted: a 3x3 ring around a border pixel painted with an all-zero tile never ends
   (pcbasic hangs on PAINT (0,0),CHR$(0),1 for this picture: known finding K32a) *)
Theorem C32_tile_terminates_refuted : ~ C32_tile_terminates_statement.
Proof.
  intro H. destruct (H ring_v ring_m 0 0 ring_p 1) as (fuel & m' & Hr).
  - intros x y Hv. apply in_view_iff in Hv. cbn in Hv.
    assert (Hx : x = 0 \/ x = 1 \/ x = 2) by lia. assert (Hy : y = 0 \/ y = 1 \/ y = 2) by lia.
    destruct Hx as [->|[->| ->]]; destruct Hy as [->|[->| ->]]; reflexivity.
  - rewrite ring_never_terminates in Hr. discriminate.
Qed.
Print Assumptions C32_tile_terminates_refuted.

(* the statement level for tiles *)
Theorem C32_paint_tile : forall text_mode num_attr fg v m x y tile b bg m',
  covers m v -> paint_tile text_mode num_attr fg v m x y tile b bg = Ok m' ->
  let border := attr_index num_attr fg (match b with Some bv => bv | None => -1 end) in
  forall px py, pix m' px py <> pix m px py ->
    region m v border x y px py /\ pix m' px py = tile_at (mkPat false tile bg) px py.
Proof.
  intros text_mode num_attr fg v m x y tile b bg m' Hcov Hp. apply paint_tile_ok in Hp.
  exact (flood_sound_pat _ _ _ _ _ _ _ _ Hcov Hp).
Qed.
Print Assumptions C32_paint_tile.

(* the last referenced point: a PAINT whose (STEP-resolved) seed lies inside the viewport makes that seed the
   last point - also when it paints nothing because the seed is a border pixel -, a seed outside the viewport
   leaves it; the pixels are those of `paint` at the resolved seed.  A following PAINT STEP starts from there. *)
Theorem C32_last_point : forall text_mode num_attr fg v g st g',
  paint_lp text_mode num_attr fg v g st = Ok g' ->
  let seed := stmt_seed (snd g) st in
  paint text_mode num_attr fg v (fst g) (fst seed) (snd seed) (s_c st) (s_b st) = Ok (fst g') /\
  snd g' = (if in_view v (fst seed) (snd seed) then seed else snd g).
Proof. exact paint_lp_spec. Qed.
Print Assumptions C32_last_point.

(* histories: for EVERY list of PAINT / PAINT STEP statements run from any bitmap and any last point: a pixel
   that differs at the end was painted by some statement st of the history, lies in the region - of the picture
   at that moment - containing st's start point (resolved from the last referenced point at that moment), and
   holds st's fill attribute *)
Theorem C32_history_regions : forall text_mode num_attr fg v l g g',
  covers (fst g) v -> paint_hist text_mode num_attr fg v g l = Ok g' ->
  forall px py, pix (fst g') px py <> pix (fst g) px py ->
  exists l1 st l2 gk,
    l = l1 ++ st :: l2 /\ paint_hist text_mode num_attr fg v g l1 = Ok gk /\
    region (fst gk) v (border_of num_attr fg (s_c st) (s_b st))
           (fst (stmt_seed (snd gk) st)) (snd (stmt_seed (snd gk) st)) px py /\
    pix (fst g') px py = fill_of num_attr fg (s_c st).
Proof. intros text_mode num_attr fg v. exact (paint_hist_regions text_mode num_attr fg v). Qed.
Print Assumptions C32_history_regions.

(* ... the viewport stays covered, nothing outside the viewport ever changes, the last referenced point is the
   initial one or inside the viewport, and no history runs out of fuel *)
Theorem C32_history_sound : forall text_mode num_attr fg v l g g',
  covers (fst g) v -> paint_hist text_mode num_attr fg v g l = Ok g' ->
  covers (fst g') v /\
  (forall px py, pix (fst g') px py <> pix (fst g) px py ->
     in_view v px py = true /\ exists st, In st l /\ pix (fst g') px py = fill_of num_attr fg (s_c st)) /\
  (snd g' = snd g \/ in_view v (fst (snd g')) (snd (snd g')) = true).
Proof. intros text_mode num_attr fg v. exact (paint_hist_sound text_mode num_attr fg v). Qed.
Print Assumptions C32_history_sound.

Theorem C32_history_terminates : forall text_mode num_attr fg v l g,
  covers (fst g) v -> paint_hist text_mode num_attr fg v g l <> OutOfFuel.
Proof. intros text_mode num_attr fg v. exact (paint_hist_never_out_of_fuel text_mode num_attr fg v). Qed.
Print Assumptions C32_history_terminates.

(* non-vacuity: a 5x3 viewport inside a 7x5 bitmap, a wall of attribute 3, seed (0,0), fill 2.
   The hypotheses of the theorems hold (covers; no region cell has the fill attribute), the region is not
   empty, PAINT changes the picture, and the cell behind the diagonal wall stays. *)
Definition C32_ex_m : bitmap :=
  mkBitmap (-1) (-1) [[1;1;1;1;1;1;1];[1;0;0;3;0;0;1];[1;0;3;0;0;3;1];[1;3;0;0;3;0;1];[1;1;1;1;1;1;1]].
Definition C32_ex_v : bounds := mkBounds 0 0 4 2.

Example C32_nonvacuous :
  covers C32_ex_m C32_ex_v /\
  (forall x y, region C32_ex_m C32_ex_v 3 0 0 x y -> pix C32_ex_m x y <> 2) /\
  region C32_ex_m C32_ex_v 3 0 0 1 0 /\
  paint false 4 3 C32_ex_v C32_ex_m 0 0 (Some 2) (Some 3) =
    Ok (mkBitmap (-1) (-1) [[1;1;1;1;1;1;1];[1;2;2;3;0;0;1];[1;2;3;0;0;3;1];[1;3;0;0;3;0;1];[1;1;1;1;1;1;1]]).
Proof.
  split; [|split; [|split]].
  - intros x y H. apply in_view_iff in H. cbn in H.
    assert (Hx : x = 0 \/ x = 1 \/ x = 2 \/ x = 3 \/ x = 4) by lia.
    assert (Hy : y = 0 \/ y = 1 \/ y = 2) by lia.
    destruct Hx as [->|[->|[->|[->| ->]]]]; destruct Hy as [->|[->| ->]]; reflexivity.
  - intros x y _. destruct (pix_in_rows C32_ex_m x y) as [->|H]; [discriminate|].
    intro E. rewrite E in H. vm_compute in H. intuition discriminate.
  - apply (region_step _ _ _ _ _ 0 0); [apply region_seed; split; [reflexivity|vm_compute; discriminate]| |].
    + left. split; [reflexivity|left; reflexivity].
    + split; [reflexivity|vm_compute; discriminate].
  - vm_compute. reflexivity.
Qed.

(* non-vacuity for tiles: a 2-row tile without zero rows is in the class, paints the open part in stripes *)
Example C32_tile_nonvacuous :
  stops_on_tile (mkPat false [[1;2;1;2];[2;2;2;2]] None) /\
  paint_tile false 4 3 C32_ex_v C32_ex_m 0 0 [[1;2;1;2];[2;2;2;2]] (Some 3) None =
    Ok (mkBitmap (-1) (-1) [[1;1;1;1;1;1;1];[1;1;2;3;0;0;1];[1;2;3;0;0;3;1];[1;3;0;0;3;0;1];[1;1;1;1;1;1;1]]).
Proof.
  split.
  - apply stops_on_tile_nonzero; [|reflexivity]. intro y. unfold tile_row, tile_h, zlen. cbn [p_tile length].
    pose proof (Z.mod_pos_bound y 2 ltac:(lia)) as Hb. change (Z.of_nat 2) with 2.
    assert (Hc : y mod 2 = 0 \/ y mod 2 = 1) by lia. destruct Hc as [->| ->]; reflexivity.
  - vm_compute. reflexivity.
Qed.

Example C32_last_point_border_seed :
  (* seed (2,0) is a border pixel of the example picture: nothing painted, last point moves there *)
  paint_lp false 4 3 C32_ex_v (C32_ex_m, (4, 2)) (mkStmt false 2 0 (Some 2) (Some 3)) = Ok (C32_ex_m, (2, 0)).
Proof. vm_compute. reflexivity. Qed.


(* non-vacuity for histories: border seed (no-op, moves the last point), then STEP into the open cell next to it *)
Example C32_history_nonvacuous :
  paint_hist false 4 3 C32_ex_v (C32_ex_m, (4, 2))
             [mkStmt false 2 0 (Some 2) (Some 3); mkStmt true (-1) 0 (Some 2) (Some 3)] =
    Ok (mkBitmap (-1) (-1) [[1;1;1;1;1;1;1];[1;2;2;3;0;0;1];[1;2;3;0;0;3;1];[1;3;0;0;3;0;1];[1;1;1;1;1;1;1]], (1, 0)).
Proof. vm_compute. reflexivity. Qed.
